(* C05: physical semantics of the component-list model (every element becomes a
   branch of RewriteBranch.v, i.e. drawn_RC / drawn_L / drawn_V / drawn_I of
   Circuit.v, in the Laplace domain at an arbitrary point s <> 0) and the
   algebra that ties the value / initial-condition arithmetic of
   _do_simplify_combine to the Thevenin (series) and Norton (parallel) sums of
   the group it replaces. *)
Require Import LT.FieldSec LT.Circuit LT.RewriteEquiv LT.RewriteBranch LT.RewriteModel LT.RewriteMore LT.RewriteKeyed.
From Coq Require Import Permutation.
Local Open Scope Z_scope.

Section Sem.
Variable K : fld.
Add Field KFrs : (fth K).
Variable keqb : K -> K -> bool.
Hypothesis keqb_ok : forall x y, keqb x y = true <-> x = y.
Variable s : K.
Hypothesis s_nz : s <> f0.
(* transform at s of a unit source with the given keyword (dc / step: 1/s, ...) *)
Variable kwf : skw -> K.
(* semantics of the components the rewrites never touch *)
Variable xsem : elem K -> sem K.
(* branch-unknown index of a component: any injective coding of names *)
Variable zname : name -> Z.
Hypothesis zname_inj : forall a b, zname a = zname b -> a = b.
Hypothesis zname_pos : forall a, 0 <= zname a.

Notation elem := (elem K).
(* node 0 is the reference node *)
Definition zn (n : nat) : Z := match n with O => -1 | _ => Z.of_nat n end.
Lemma zn_inj a b : zn a = zn b -> a = b.
Proof. destruct a, b; cbn; intros H; try reflexivity; try lia. Qed.
Lemma zn_nonneg n : n <> O -> 0 <= zn n.
Proof. destruct n; [congruence | cbn; lia]. Qed.

Definition branch_of (e : elem) : option (branch K) :=
  match etyp e with
  | TR | TNR | TZ => Some (BY (fdiv f1 (eval e)) f0)
  | TY => Some (BY (eval e) f0)
  | TC => Some (BY (fmul s (eval e)) (fmul (eval e) (icv e)))
  | TL => Some (BZ (fmul s (eval e)) (fopp (fmul (eval e) (icv e))) (zname (ename e)))
  | TV => Some (BZ f0 (fmul (kwf (ekw e)) (eval e)) (zname (ename e)))
  | TI => Some (BI (fmul (kwf (ekw e)) (eval e)))
  | TW => Some (BZ f0 f0 (zname (ename e)))
  | TO | TX => None
  end.
Definition esem (e : elem) : sem K :=
  match branch_of e with
  | Some b => bsem (zn (en1 e)) (zn (en2 e)) b
  | None => match etyp e with TO => (fun _ _ _ => f0, fun _ _ _ => f0) | _ => xsem e end
  end.
Definition nsem (N : list elem) : list (sem K) := map esem N.

(* values that the formulas divide by *)
Definition valid (e : elem) : Prop :=
  match etyp e with TR | TNR | TZ | TY | TC | TL => eval e <> f0 | _ => True end.

(* Thevenin data of an element: impedance and source term (+ to -) *)
Definition tz (e : elem) : K :=
  match etyp e with
  | TR | TNR | TZ => eval e
  | TY => fdiv f1 (eval e)
  | TC => fdiv f1 (fmul s (eval e))
  | TL => fmul s (eval e)
  | _ => f0 end.
Definition te (e : elem) : K :=
  match etyp e with
  | TC => fdiv (icv e) s
  | TL => fopp (fmul (eval e) (icv e))
  | TV => fmul (kwf (ekw e)) (eval e)
  | _ => f0 end.
(* Norton data: admittance and source current (injected into +) *)
Definition ty (e : elem) : K :=
  match etyp e with
  | TR | TNR | TZ => fdiv f1 (eval e)
  | TY => eval e
  | TC => fmul s (eval e)
  | TL => fdiv f1 (fmul s (eval e))
  | _ => f0 end.
Definition tj (e : elem) : K :=
  match etyp e with
  | TC => fmul (eval e) (icv e)
  | TL => fopp (fdiv (icv e) s)
  | TI => fmul (kwf (ekw e)) (eval e)
  | _ => f0 end.

Definition series_type (t : ety) : Prop := match t with TR | TNR | TZ | TY | TC | TL | TV | TW => True | _ => False end.
Ltac fsd := field; repeat split; first [assumption | apply one_nz].
Lemma step_data (e : elem) (fw : bool) (nx : Z) (b : branch K) :
  branch_of e = Some b -> valid e -> etyp e <> TI ->
  thev (Step fw b nx) /\ sz (Step fw b nx) = tz e /\ se (Step fw b nx) = sgn fw (te e).
Proof.
  unfold branch_of, valid, thev, sz, se, tz, te. intros Hb Hv Hi.
  destruct (etyp e); inversion Hb; subst; cbn [sbr sfwd]; try congruence;
  (split; [first [exact I | exact Hv | apply div_nz; [apply one_nz | exact Hv] | apply mul_nz; assumption] |
   split; [first [reflexivity | fsd] | destruct fw; cbn [sgn]; first [reflexivity | ring | fsd]]]).
Qed.

(* ---- sums over a group --------------------------------------------------- *)
Lemma ksum_app (l1 l2 : list K) : ksum (l1 ++ l2) = fadd (ksum l1) (ksum l2).
Proof. induction l1 as [|x l1 IH]; cbn [ksum app]; [ring | rewrite IH; ring]. Qed.
Lemma ksum_perm (l1 l2 : list K) : Permutation l1 l2 -> ksum l1 = ksum l2.
Proof. induction 1; cbn [ksum]; [reflexivity | rewrite IHPermutation; reflexivity | ring | congruence]. Qed.
Lemma ksum_scale (c : K) (l : list K) : ksum (map (fmul c) l) = fmul c (ksum l).
Proof. induction l as [|x l IH]; cbn [ksum map]; [ring | rewrite IH; ring]. Qed.
Lemma ksum_map_ext {A} (f g : A -> K) (l : list A) : (forall x, In x l -> f x = g x) -> ksum (map f l) = ksum (map g l).
Proof. induction l as [|x l IH]; intros H; cbn [ksum map]; [reflexivity|]. rewrite H, IH; [reflexivity | intros; apply H; right; assumption | left; reflexivity]. Qed.
Lemma ksum_zero {A} (f : A -> K) (l : list A) : (forall x, In x l -> f x = f0) -> ksum (map f l) = f0.
Proof. induction l as [|x l IH]; intros H; cbn [ksum map]; [reflexivity|]. rewrite H, IH; [ring | intros; apply H; right; assumption | left; reflexivity]. Qed.
Lemma ksum_opp {A} (f : A -> K) (l : list A) : ksum (map (fun x => fopp (f x)) l) = fopp (ksum (map f l)).
Proof. induction l as [|x l IH]; cbn [ksum map]; [ring | rewrite IH; ring]. Qed.

(* members with their direction along the chain / across the pair *)
Definition mem_t := (elem * bool)%type.
Definition sames_of (ms : list mem_t) : list bool :=
  match ms with [] => [] | m0 :: _ => map (fun m => Bool.eqb (snd m) (snd m0)) ms end.
Lemma sgn_ksgn (fw0 fw : bool) (x : K) : sgn fw0 (ksgn (Bool.eqb fw fw0) x) = sgn fw x.
Proof. destruct fw0, fw; cbn; ring. Qed.
Lemma combine_map_l {A B} (l : list A) (f : A -> B) : combine l (map f l) = map (fun a => (a, f a)) l.
Proof. induction l as [|x l IH]; cbn; [reflexivity | rewrite IH; reflexivity]. Qed.
Lemma combine_fst_sames (ms : list mem_t) (fw0 : bool) :
  combine (map fst ms) (map (fun m => Bool.eqb (snd m) fw0) ms) = map (fun m => (fst m, Bool.eqb (snd m) fw0)) ms.
Proof. induction ms as [|m ms IH]; cbn; [reflexivity | rewrite IH; reflexivity]. Qed.

(* ---- what _do_simplify_combine computes, member list [ms] in enumeration order ---- *)
Notation els_of ms := (map (@fst elem bool) ms).
Lemma new_elem_inv vr (ms : list mem_t) add common signed nm new m0 ms' :
  ms = m0 :: ms' ->
  new_elem vr (els_of ms) (sames_of ms) add common signed nm = Ok new ->
  etyp new = etyp (fst m0) /\ etyp (fst m0) <> TNR /\ enodes new = enodes (fst m0) /\ ekw new = ekw (fst m0) /\ ename new = nm /\
  eval new = combine_value vr add signed (els_of ms) (sames_of ms) /\
  combine_ic vr common (els_of ms) (sames_of ms) = Ok (eic new).
Proof.
  intros -> H. unfold new_elem in H. change (els_of (m0 :: ms')) with (fst m0 :: els_of ms') in H. cbv beta iota in H.
  destruct (etyp (fst m0)) eqn:Et; try discriminate;
  destruct (combine_ic vr common (fst m0 :: els_of ms') (sames_of (m0 :: ms'))) as [ic|] eqn:Eic; try discriminate;
  inversion H; subst new; cbn [etyp enodes ekw ename eval eic];
  (split; [reflexivity|]); (split; [discriminate|]); repeat (split; [reflexivity|]); exact Eic.
Qed.

Lemma sames_combine (ms : list mem_t) m0 ms' : ms = m0 :: ms' ->
  combine (els_of ms) (sames_of ms) = map (fun m => (fst m, Bool.eqb (snd m) (snd m0))) ms.
Proof. intros ->. unfold sames_of. apply combine_fst_sames. Qed.

(* plain and reciprocal sums of the values *)
Definition vsum (ms : list mem_t) : K := ksum (map (fun m => eval (fst m)) ms).
Definition rsum (ms : list mem_t) : K := ksum (map (fun m => fdiv f1 (eval (fst m))) ms).
Lemma value_add vr (ms : list mem_t) : combine_value vr true false (els_of ms) (sames_of ms) = vsum ms.
Proof. unfold combine_value, vsum. cbn [andb]. rewrite map_map. reflexivity. Qed.
Lemma value_recip vr signed (ms : list mem_t) : combine_value vr false signed (els_of ms) (sames_of ms) = fdiv f1 (rsum ms).
Proof. unfold combine_value, rsum. rewrite map_map. reflexivity. Qed.
Lemma value_signed_rep (ms : list mem_t) m0 ms' : ms = m0 :: ms' ->
  combine_value repaired true true (els_of ms) (sames_of ms) = ksum (map (fun m => ksgn (Bool.eqb (snd m) (snd m0)) (eval (fst m))) ms).
Proof. intros E. unfold combine_value. cbn [andb v_polarity repaired]. rewrite (sames_combine ms m0 ms' E), map_map. reflexivity. Qed.
Lemma value_signed_plain (ms : list mem_t) : combine_value unchanged_tree true true (els_of ms) (sames_of ms) = vsum ms.
Proof. unfold combine_value, vsum. cbn [andb v_polarity unchanged_tree]. rewrite map_map. reflexivity. Qed.

Lemma sgn_ksum (fw : bool) (l : list K) : sgn fw (ksum l) = ksum (map (sgn fw) l).
Proof. induction l as [|x l IH]; cbn [ksum map]; [destruct fw; cbn; ring|]. rewrite <- IH. destruct fw; cbn; ring. Qed.
Lemma sgn_mul (fw : bool) (c x : K) : sgn fw (fmul c x) = fmul c (sgn fw x).
Proof. destruct fw; cbn; ring. Qed.
Lemma sgn_opp (fw : bool) (x : K) : sgn fw (fopp x) = fopp (sgn fw x).
Proof. destruct fw; cbn; ring. Qed.
Lemma sgn_div (fw : bool) (x c : K) : c <> f0 -> sgn fw (fdiv x c) = fdiv (sgn fw x) c.
Proof. intros H. destruct fw; cbn; field; exact H. Qed.
Lemma sgn_zero (fw : bool) : sgn fw (f0 : K) = f0.
Proof. destruct fw; cbn; ring. Qed.

(* the combined initial condition, as a number (none counts 0) *)
Definition icsum_signed (ms : list mem_t) (fw0 : bool) : K := ksum (map (fun m => ksgn (Bool.eqb (snd m) fw0) (icv (fst m))) ms).
Definition icsum_plain (ms : list mem_t) : K := ksum (map (fun m => icv (fst m)) ms).
Lemma icv_of_opt (x : option K) (e : elem) : eic e = x -> icv e = match x with Some y => y | None => f0 end.
Proof. intros <-. reflexivity. Qed.

Lemma ic_rep_noncommon (ms : list mem_t) m0 ms' o : ms = m0 :: ms' ->
  combine_ic repaired false (els_of ms) (sames_of ms) = Ok o ->
  match o with Some y => y | None => f0 end = icsum_signed ms (snd m0).
Proof.
  intros E H. pose proof (sames_combine ms m0 ms' E) as SC. subst ms. unfold combine_ic in H.
  change (els_of (m0 :: ms')) with (fst m0 :: els_of ms') in H. cbv beta iota in H.
  change (fst m0 :: els_of ms') with (els_of (m0 :: ms')) in H.
  cbn [andb v_ic_common v_polarity repaired] in H.
  destruct (existsb (has_ic (K:=K)) (els_of (m0 :: ms'))) eqn:Ex; injection H as <-.
  - unfold icsum_signed. cbn [map ksum]. f_equal. rewrite combine_fst_sames, map_map. reflexivity.
  - unfold icsum_signed. symmetry. apply ksum_zero. intros m Hm.
    assert (Hn : has_ic (fst m) = false).
    { destruct (has_ic (fst m)) eqn:Eh; [|reflexivity]. exfalso.
      assert (existsb (has_ic (K:=K)) (els_of (m0 :: ms')) = true) by (apply existsb_exists; exists (fst m); split; [apply in_map; exact Hm | exact Eh]). congruence. }
    unfold icv. unfold has_ic in Hn. destruct (eic (fst m)); [discriminate|]. destruct (Bool.eqb (snd m) (snd m0)); cbn; ring.
Qed.
Lemma ic_rep_common (ms : list mem_t) m0 ms' o : ms = m0 :: ms' ->
  combine_ic repaired true (els_of ms) (sames_of ms) = Ok o -> match o with Some y => y | None => f0 end = icv (fst m0).
Proof. intros -> H. unfold combine_ic in H. change (els_of (m0 :: ms')) with (fst m0 :: els_of ms') in H. cbv beta iota in H.
  cbn [andb v_ic_common repaired] in H. inversion H; subst o. unfold icv, has_ic. destruct (eic (fst m0)); reflexivity. Qed.
Lemma ic_plain (common : bool) (ms : list mem_t) m0 ms' o : ms = m0 :: ms' ->
  combine_ic unchanged_tree common (els_of ms) (sames_of ms) = Ok o ->
  match o with Some y => y | None => f0 end = if has_ic (fst m0) then icsum_plain ms else f0.
Proof. intros -> H. unfold combine_ic in H. change (els_of (m0 :: ms')) with (fst m0 :: els_of ms') in H. cbv beta iota in H.
  change (fst m0 :: els_of ms') with (els_of (m0 :: ms')) in H.
  replace (common && v_ic_common unchanged_tree)%bool with false in H by (destruct common; reflexivity).
  cbn [v_polarity unchanged_tree] in H. destruct (has_ic (fst m0)).
  - destruct (forallb (has_ic (K:=K)) (els_of (m0 :: ms'))); inversion H; subst o. unfold icsum_plain. rewrite map_map. reflexivity.
  - inversion H. reflexivity. Qed.

(* repaired _check_ic passed: one common value, opposite members only when it is zero *)
Lemma check_rep (e0 : elem) (ms : list mem_t) m0 ms' : ms = m0 :: ms' ->
  check_ic keqb repaired e0 (els_of ms) (sames_of ms) = Ok true ->
  forall m, In m ms -> icv (fst m) = icv (fst m0) /\ (snd m = snd m0 \/ icv (fst m) = f0).
Proof.
  intros E H m Hm. unfold check_ic in H. cbn [v_polarity repaired] in H. inversion H as [H1]. clear H.
  apply andb_true_iff in H1. destruct H1 as [Hu Hv].
  assert (Hu' : forall x, In x ms -> has_ic (fst x) = has_ic e0).
  { intros x Hx. rewrite forallb_forall in Hu. apply Bool.eqb_prop. apply Hu. apply in_map. exact Hx. }
  assert (Hm0 : In m0 ms) by (rewrite E; left; reflexivity).
  destruct (has_ic e0) eqn:Eh; cbn [negb orb] in Hv.
  - apply andb_true_iff in Hv. destruct Hv as [Hq Hp].
    rewrite forallb_forall in Hq. rewrite (sames_combine ms m0 ms' E) in Hp. rewrite forallb_forall in Hp.
    assert (Eq : forall x, In x ms -> icv (fst x) = icv e0).
    { intros x Hx. apply keqb_ok. apply Hq. apply in_map. exact Hx. }
    split; [rewrite (Eq m Hm), (Eq m0 Hm0); reflexivity|].
    specialize (Hp (fst m, Bool.eqb (snd m) (snd m0)) (in_map _ _ _ Hm)). cbn [fst snd] in Hp.
    apply orb_true_iff in Hp. destruct Hp as [Hp|Hp]; [left; apply Bool.eqb_prop; exact Hp | right; apply keqb_ok; exact Hp].
  - assert (Z0 : forall x, In x ms -> icv (fst x) = f0).
    { intros x Hx. specialize (Hu' x Hx). unfold has_ic in Hu'. unfold icv. destruct (eic (fst x)); [discriminate | reflexivity]. }
    rewrite (Z0 m Hm), (Z0 m0 Hm0). split; [reflexivity | right; reflexivity].
Qed.

(* ================= series: Thevenin sums of the combined element ============== *)
Definition all_type (t : ety) (ms : list mem_t) : Prop := forall m, In m ms -> etyp (fst m) = t /\ valid (fst m).
Definition same_kwf (ms : list mem_t) (m0 : mem_t) : Prop := forall m, In m ms -> kwf (ekw (fst m)) = kwf (ekw (fst m0)).
Definition tzsum (ms : list mem_t) : K := ksum (map (fun m => tz (fst m)) ms).
Definition tesum (ms : list mem_t) : K := ksum (map (fun m => sgn (snd m) (te (fst m))) ms).

Lemma series_tz vr t (ms : list mem_t) m0 ms' add common signed nm new :
  ms = m0 :: ms' -> all_type t ms -> series_action t = Ok (ACombine add common signed) ->
  (add = false -> rsum ms <> f0) ->
  new_elem vr (els_of ms) (sames_of ms) add common signed nm = Ok new ->
  tz new = tzsum ms.
Proof.
  intros E AT SA Hr H. destruct (new_elem_inv vr ms add common signed nm new m0 ms' E H) as [Et [_ [_ [_ [_ [Ev _]]]]]].
  assert (Et0 : etyp (fst m0) = t) by (apply AT; rewrite E; left; reflexivity).
  unfold tz, tzsum. rewrite Et, Et0.
  assert (TZ : forall f, (forall m, In m ms -> f (fst m) = tz (fst m)) -> ksum (map (fun m => f (fst m)) ms) = ksum (map (fun m => tz (fst m)) ms)).
  { intros f Hf. apply ksum_map_ext. exact Hf. }
  destruct t; cbn in SA; inversion SA; subst add common signed; clear SA.
  - rewrite Ev, value_add. unfold vsum. apply ksum_map_ext. intros m Hm. unfold tz. rewrite (proj1 (AT m Hm)). reflexivity.
  - rewrite Ev, value_add. unfold vsum. apply ksum_map_ext. intros m Hm. unfold tz. rewrite (proj1 (AT m Hm)). reflexivity.
  - rewrite Ev, value_recip. specialize (Hr eq_refl).
    transitivity (fmul (fdiv f1 s) (rsum ms)); [fsd|].
    unfold rsum. rewrite <- ksum_scale, map_map. apply ksum_map_ext. intros m Hm. unfold tz. destruct (AT m Hm) as [A1 A2]. rewrite A1.
    unfold valid in A2. rewrite A1 in A2. fsd.
  - rewrite Ev, value_add. unfold vsum. rewrite <- ksum_scale, map_map. apply ksum_map_ext. intros m Hm. unfold tz. rewrite (proj1 (AT m Hm)). reflexivity.
  - symmetry. apply ksum_zero. intros m Hm. unfold tz. rewrite (proj1 (AT m Hm)). reflexivity.
  - rewrite Ev, value_add. unfold vsum. apply ksum_map_ext. intros m Hm. unfold tz. rewrite (proj1 (AT m Hm)). reflexivity.
  - rewrite Ev, value_recip. specialize (Hr eq_refl).
    transitivity (rsum ms); [fsd|]. unfold rsum. apply ksum_map_ext. intros m Hm. unfold tz. rewrite (proj1 (AT m Hm)). reflexivity.
Qed.

Lemma In_first (ms : list mem_t) m0 ms' : ms = m0 :: ms' -> In m0 ms.
Proof. intros ->. left. reflexivity. Qed.
Lemma tesum_zero t (ms : list mem_t) : all_type t ms -> (forall e, etyp e = t -> te e = f0) -> tesum ms = f0.
Proof. intros AT H. unfold tesum. apply ksum_zero. intros m Hm. rewrite (H _ (proj1 (AT m Hm))). apply sgn_zero. Qed.

(* the unchanged tree is right under these conditions (no member of a signed
   group points the other way, initial conditions of parallel C / series L are
   zero, ...); everything else is findings F3 / F4 *)
Definition plain_ok_series (t : ety) (ms : list mem_t) (m0 : mem_t) : Prop :=
  match t with
  | TV => forall m, In m ms -> snd m = snd m0
  | TC => (forall m, In m ms -> snd m = snd m0 \/ icv (fst m) = f0) /\
          (has_ic (fst m0) = false -> forall m, In m ms -> icv (fst m) = f0)
  | TL => forall m, In m ms -> icv (fst m) = f0
  | _ => True end.

Lemma series_te_rep t (ms : list mem_t) m0 ms' add common signed nm new :
  ms = m0 :: ms' -> all_type t ms -> series_action t = Ok (ACombine add common signed) -> same_kwf ms m0 ->
  (common = true -> exists e0, check_ic keqb repaired e0 (els_of ms) (sames_of ms) = Ok true) ->
  new_elem repaired (els_of ms) (sames_of ms) add common signed nm = Ok new ->
  sgn (snd m0) (te new) = tesum ms.
Proof.
  intros E AT SA KW CK H. destruct (new_elem_inv repaired ms add common signed nm new m0 ms' E H) as [Et [_ [_ [Ek [_ [Ev Eic]]]]]].
  assert (Et0 : etyp (fst m0) = t) by (apply AT; apply (In_first ms m0 ms' E)).
  destruct t; cbn in SA; inversion SA; subst add common signed; clear SA;
    try (rewrite (tesum_zero _ ms AT) by (intros e He; unfold te; rewrite He; reflexivity);
         unfold te; rewrite Et, Et0; apply sgn_zero).
  - (* C: series, initial voltages add with orientation *)
    unfold te at 1. rewrite Et, Et0. rewrite (icv_of_opt _ new eq_refl), (ic_rep_noncommon ms m0 ms' (eic new) E Eic).
    rewrite sgn_div by exact s_nz. unfold icsum_signed. rewrite sgn_ksum, map_map.
    unfold tesum. transitivity (ksum (map (fun m => fdiv (sgn (snd m) (icv (fst m))) s) ms)).
    + clear -s_nz. induction ms as [|m ms IH]; cbn [ksum map]; [field; exact s_nz|]. rewrite <- IH, sgn_ksgn. field. exact s_nz.
    + apply ksum_map_ext. intros m Hm. unfold te. rewrite (proj1 (AT m Hm)). symmetry. apply sgn_div. exact s_nz.
  - (* L: series, common initial current *)
    destruct (CK eq_refl) as [e0 Hc]. pose proof (check_rep e0 ms m0 ms' E Hc) as CR.
    unfold te at 1. rewrite Et, Et0, Ev, value_add, (icv_of_opt _ new eq_refl), (ic_rep_common ms m0 ms' (eic new) E Eic).
    unfold tesum, vsum. transitivity (ksum (map (fun m => sgn (snd m0) (fopp (fmul (eval (fst m)) (icv (fst m0))))) ms)).
    + rewrite <- (map_map (fun m => fopp (fmul (eval (fst m)) (icv (fst m0)))) (sgn (snd m0))), <- sgn_ksum. f_equal.
      clear. induction ms as [|m ms IH]; cbn [ksum map]; [ring|]. rewrite <- IH. ring.
    + apply ksum_map_ext. intros m Hm. unfold te. rewrite (proj1 (AT m Hm)). destruct (CR m Hm) as [C1 [C2|C2]].
      * rewrite C2, C1. reflexivity.
      * rewrite <- C1, C2. destruct (snd m), (snd m0); cbn; ring.
  - (* V: series, values add with orientation *)
    unfold te at 1. rewrite Et, Et0, Ek, Ev, (value_signed_rep ms m0 ms' E), sgn_mul, sgn_ksum, map_map, <- ksum_scale, map_map.
    unfold tesum. apply ksum_map_ext. intros m Hm. unfold te. rewrite (proj1 (AT m Hm)), sgn_ksgn, sgn_mul, (KW m Hm). reflexivity.
Qed.

Lemma series_te_plain t (ms : list mem_t) m0 ms' add common signed nm new :
  ms = m0 :: ms' -> all_type t ms -> series_action t = Ok (ACombine add common signed) -> same_kwf ms m0 ->
  plain_ok_series t ms m0 ->
  new_elem unchanged_tree (els_of ms) (sames_of ms) add common signed nm = Ok new ->
  sgn (snd m0) (te new) = tesum ms.
Proof.
  intros E AT SA KW PO H. destruct (new_elem_inv unchanged_tree ms add common signed nm new m0 ms' E H) as [Et [_ [_ [Ek [_ [Ev Eic]]]]]].
  assert (Et0 : etyp (fst m0) = t) by (apply AT; apply (In_first ms m0 ms' E)).
  destruct t; cbn in SA; inversion SA; subst add common signed; clear SA;
    try (rewrite (tesum_zero _ ms AT) by (intros e He; unfold te; rewrite He; reflexivity);
         unfold te; rewrite Et, Et0; apply sgn_zero).
  - destruct PO as [P1 P2].
    unfold te at 1. rewrite Et, Et0. rewrite (icv_of_opt _ new eq_refl), (ic_plain false ms m0 ms' (eic new) E Eic).
    rewrite sgn_div by exact s_nz. unfold tesum.
    transitivity (ksum (map (fun m => fdiv (sgn (snd m) (icv (fst m))) s) ms)).
    + destruct (has_ic (fst m0)) eqn:Eh.
      * unfold icsum_plain. rewrite sgn_ksum, map_map.
        transitivity (fdiv (ksum (map (fun m => sgn (snd m) (icv (fst m))) ms)) s).
        -- f_equal. apply ksum_map_ext. intros m Hm. destruct (P1 m Hm) as [Q|Q]; [rewrite Q; reflexivity | rewrite Q, !sgn_zero; reflexivity].
        -- clear -s_nz. induction ms as [|m ms IH]; cbn [ksum map]; [field; exact s_nz|]. rewrite <- IH. field. exact s_nz.
      * rewrite sgn_zero. symmetry. transitivity (fdiv f0 s); [|field; exact s_nz].
        rewrite (ksum_zero (fun m => fdiv (sgn (snd m) (icv (fst m))) s)); [field; exact s_nz|].
        intros m Hm. rewrite (P2 eq_refl m Hm), sgn_zero. field. exact s_nz.
    + apply ksum_map_ext. intros m Hm. unfold te. rewrite (proj1 (AT m Hm)). symmetry. apply sgn_div. exact s_nz.
  - unfold te at 1. rewrite Et, Et0, (icv_of_opt _ new eq_refl), (ic_plain true ms m0 ms' (eic new) E Eic).
    assert (Z0 : icsum_plain ms = f0) by (apply ksum_zero; exact PO).
    replace (if has_ic (fst m0) then icsum_plain ms else f0) with (f0 : K) by (destruct (has_ic (fst m0)); [symmetry; exact Z0 | reflexivity]).
    transitivity (f0 : K); [destruct (snd m0); cbn; ring|]. symmetry. apply ksum_zero. intros m Hm. unfold te.
    rewrite (proj1 (AT m Hm)), (PO m Hm). destruct (snd m); cbn; ring.
  - unfold te at 1. rewrite Et, Et0, Ek, Ev, value_signed_plain, sgn_mul. unfold vsum. rewrite sgn_ksum, map_map, <- ksum_scale, map_map.
    unfold tesum. apply ksum_map_ext. intros m Hm. unfold te. rewrite (proj1 (AT m Hm)), sgn_mul, (KW m Hm), (PO m Hm). reflexivity.
Qed.

(* ================= parallel: Norton sums of the combined element ============== *)
Lemma pstep_norton (e : elem) (fw : bool) (b : branch K) :
  branch_of e = Some b -> valid e -> etyp e <> TL -> etyp e <> TV -> etyp e <> TW ->
  norton (fw, b) /\ py (fw, b) = ty e /\ pj (fw, b) = sgn fw (tj e).
Proof.
  unfold branch_of, valid, norton, py, pj, ty, tj. intros Hb Hv H1 H2 H3.
  destruct (etyp e); inversion Hb; subst; cbn [fst snd]; try congruence;
  (split; [exact I | split; [reflexivity | first [reflexivity | destruct fw; cbn [sgn]; ring]]]).
Qed.
Lemma pstep_bz (e : elem) (fw : bool) (b : branch K) :
  branch_of e = Some b -> valid e -> etyp e = TL ->
  zwf (fw, b) /\ pz (fw, b) = ty e /\ pe (fw, b) = sgn fw (tj e) /\ exists Zb E, b = BZ Zb E (zname (ename e)).
Proof.
  unfold branch_of, valid, zwf, pz, pe, ty, tj. intros Hb Hv Ht. rewrite Ht in *. inversion Hb; subst; cbn [fst snd].
  split; [apply mul_nz; assumption|]. split; [reflexivity|]. split; [destruct fw; cbn [sgn]; fsd | eexists; eexists; reflexivity].
Qed.

Definition tysum (ms : list mem_t) : K := ksum (map (fun m => ty (fst m)) ms).
Definition tjsum (ms : list mem_t) : K := ksum (map (fun m => sgn (snd m) (tj (fst m))) ms).
Lemma tjsum_zero t (ms : list mem_t) : all_type t ms -> (forall e, etyp e = t -> tj e = f0) -> tjsum ms = f0.
Proof. intros AT H. unfold tjsum. apply ksum_zero. intros m Hm. rewrite (H _ (proj1 (AT m Hm))). apply sgn_zero. Qed.

Lemma parallel_ty vr t (ms : list mem_t) m0 ms' add common signed nm new :
  ms = m0 :: ms' -> all_type t ms -> parallel_action t = Ok (ACombine add common signed) ->
  (add = false -> rsum ms <> f0) ->
  new_elem vr (els_of ms) (sames_of ms) add common signed nm = Ok new ->
  ty new = tysum ms.
Proof.
  intros E AT SA Hr H. destruct (new_elem_inv vr ms add common signed nm new m0 ms' E H) as [Et [_ [_ [_ [_ [Ev _]]]]]].
  assert (Et0 : etyp (fst m0) = t) by (apply AT; rewrite E; left; reflexivity).
  unfold ty at 1. unfold tysum. rewrite Et, Et0.
  destruct t; cbn in SA; inversion SA; subst add common signed; clear SA.
  - rewrite Ev, value_recip. specialize (Hr eq_refl). transitivity (rsum ms); [fsd|]. unfold rsum.
    apply ksum_map_ext. intros m Hm. unfold ty. rewrite (proj1 (AT m Hm)). reflexivity.
  - rewrite Ev, value_recip. specialize (Hr eq_refl). transitivity (rsum ms); [fsd|]. unfold rsum.
    apply ksum_map_ext. intros m Hm. unfold ty. rewrite (proj1 (AT m Hm)). reflexivity.
  - rewrite Ev, value_add. unfold vsum. rewrite <- ksum_scale, map_map. apply ksum_map_ext. intros m Hm. unfold ty. rewrite (proj1 (AT m Hm)). reflexivity.
  - rewrite Ev, value_recip. specialize (Hr eq_refl). transitivity (fmul (fdiv f1 s) (rsum ms)); [fsd|].
    unfold rsum. rewrite <- ksum_scale, map_map. apply ksum_map_ext. intros m Hm. unfold ty. destruct (AT m Hm) as [A1 A2]. rewrite A1.
    unfold valid in A2. rewrite A1 in A2. fsd.
  - assert (Ez : forall m, In m ms -> ty (fst m) = f0) by (intros m Hm; unfold ty; rewrite (proj1 (AT m Hm)); reflexivity).
    symmetry. apply ksum_zero. exact Ez.
  - rewrite Ev, value_recip. specialize (Hr eq_refl). transitivity (rsum ms); [fsd|]. unfold rsum.
    apply ksum_map_ext. intros m Hm. unfold ty. rewrite (proj1 (AT m Hm)). reflexivity.
  - rewrite Ev, value_add. unfold vsum. apply ksum_map_ext. intros m Hm. unfold ty. rewrite (proj1 (AT m Hm)). reflexivity.
Qed.

Definition plain_ok_parallel (t : ety) (ms : list mem_t) (m0 : mem_t) : Prop :=
  match t with
  | TI => forall m, In m ms -> snd m = snd m0
  | TL => (forall m, In m ms -> snd m = snd m0 \/ icv (fst m) = f0) /\
          (has_ic (fst m0) = false -> forall m, In m ms -> icv (fst m) = f0)
  | TC => forall m, In m ms -> icv (fst m) = f0
  | _ => True end.

Lemma parallel_tj_rep t (ms : list mem_t) m0 ms' add common signed nm new :
  ms = m0 :: ms' -> all_type t ms -> parallel_action t = Ok (ACombine add common signed) -> same_kwf ms m0 ->
  (common = true -> exists e0, check_ic keqb repaired e0 (els_of ms) (sames_of ms) = Ok true) ->
  new_elem repaired (els_of ms) (sames_of ms) add common signed nm = Ok new ->
  sgn (snd m0) (tj new) = tjsum ms.
Proof.
  intros E AT SA KW CK H. destruct (new_elem_inv repaired ms add common signed nm new m0 ms' E H) as [Et [_ [_ [Ek [_ [Ev Eic]]]]]].
  assert (Et0 : etyp (fst m0) = t) by (apply AT; apply (In_first ms m0 ms' E)).
  destruct t; cbn in SA; inversion SA; subst add common signed; clear SA;
    try (rewrite (tjsum_zero _ ms AT) by (intros e He; unfold tj; rewrite He; reflexivity);
         unfold tj; rewrite Et, Et0; apply sgn_zero).
  - (* C: parallel, common initial voltage *)
    destruct (CK eq_refl) as [e0 Hc]. pose proof (check_rep e0 ms m0 ms' E Hc) as CR.
    unfold tj at 1. rewrite Et, Et0, Ev, value_add, (icv_of_opt _ new eq_refl), (ic_rep_common ms m0 ms' (eic new) E Eic).
    unfold tjsum, vsum. transitivity (ksum (map (fun m => sgn (snd m0) (fmul (eval (fst m)) (icv (fst m0)))) ms)).
    + rewrite <- (map_map (fun m => fmul (eval (fst m)) (icv (fst m0))) (sgn (snd m0))), <- sgn_ksum. f_equal.
      clear. induction ms as [|m ms IH]; cbn [ksum map]; [ring|]. rewrite <- IH. ring.
    + apply ksum_map_ext. intros m Hm. unfold tj. rewrite (proj1 (AT m Hm)). destruct (CR m Hm) as [C1 [C2|C2]].
      * rewrite C2, C1. reflexivity.
      * rewrite <- C1, C2. destruct (snd m), (snd m0); cbn; ring.
  - (* L: parallel, initial currents add with orientation *)
    unfold tj at 1. rewrite Et, Et0. rewrite (icv_of_opt _ new eq_refl), (ic_rep_noncommon ms m0 ms' (eic new) E Eic).
    rewrite sgn_opp, sgn_div by exact s_nz. unfold icsum_signed. rewrite sgn_ksum, map_map.
    unfold tjsum. transitivity (ksum (map (fun m => fopp (fdiv (sgn (snd m) (icv (fst m))) s)) ms)).
    + clear -s_nz. induction ms as [|m ms IH]; cbn [ksum map]; [field; exact s_nz|]. rewrite <- IH, sgn_ksgn. field. exact s_nz.
    + apply ksum_map_ext. intros m Hm. unfold tj. rewrite (proj1 (AT m Hm)), sgn_opp, sgn_div by exact s_nz. reflexivity.
  - (* I: parallel, values add with orientation *)
    unfold tj at 1. rewrite Et, Et0, Ek, Ev, (value_signed_rep ms m0 ms' E), sgn_mul, sgn_ksum, map_map, <- ksum_scale, map_map.
    unfold tjsum. apply ksum_map_ext. intros m Hm. unfold tj. rewrite (proj1 (AT m Hm)), sgn_ksgn, sgn_mul, (KW m Hm). reflexivity.
Qed.

Lemma parallel_tj_plain t (ms : list mem_t) m0 ms' add common signed nm new :
  ms = m0 :: ms' -> all_type t ms -> parallel_action t = Ok (ACombine add common signed) -> same_kwf ms m0 ->
  plain_ok_parallel t ms m0 ->
  new_elem unchanged_tree (els_of ms) (sames_of ms) add common signed nm = Ok new ->
  sgn (snd m0) (tj new) = tjsum ms.
Proof.
  intros E AT SA KW PO H. destruct (new_elem_inv unchanged_tree ms add common signed nm new m0 ms' E H) as [Et [_ [_ [Ek [_ [Ev Eic]]]]]].
  assert (Et0 : etyp (fst m0) = t) by (apply AT; apply (In_first ms m0 ms' E)).
  destruct t; cbn in SA; inversion SA; subst add common signed; clear SA;
    try (rewrite (tjsum_zero _ ms AT) by (intros e He; unfold tj; rewrite He; reflexivity);
         unfold tj; rewrite Et, Et0; apply sgn_zero).
  - unfold tj at 1. rewrite Et, Et0, (icv_of_opt _ new eq_refl), (ic_plain true ms m0 ms' (eic new) E Eic).
    assert (Z0 : icsum_plain ms = f0) by (apply ksum_zero; exact PO).
    replace (if has_ic (fst m0) then icsum_plain ms else f0) with (f0 : K) by (destruct (has_ic (fst m0)); [symmetry; exact Z0 | reflexivity]).
    transitivity (f0 : K); [destruct (snd m0); cbn; ring|]. symmetry. apply ksum_zero. intros m Hm. unfold tj.
    rewrite (proj1 (AT m Hm)), (PO m Hm). destruct (snd m); cbn; ring.
  - destruct PO as [P1 P2].
    unfold tj at 1. rewrite Et, Et0. rewrite (icv_of_opt _ new eq_refl), (ic_plain false ms m0 ms' (eic new) E Eic).
    rewrite sgn_opp, sgn_div by exact s_nz. unfold tjsum.
    transitivity (ksum (map (fun m => fopp (fdiv (sgn (snd m) (icv (fst m))) s)) ms)).
    + destruct (has_ic (fst m0)) eqn:Eh.
      * unfold icsum_plain. rewrite sgn_ksum, map_map.
        transitivity (fopp (fdiv (ksum (map (fun m => sgn (snd m) (icv (fst m))) ms)) s)).
        -- f_equal. f_equal. apply ksum_map_ext. intros m Hm. destruct (P1 m Hm) as [Q|Q]; [rewrite Q; reflexivity | rewrite Q, !sgn_zero; reflexivity].
        -- clear -s_nz. induction ms as [|m ms IH]; cbn [ksum map]; [field; exact s_nz|]. rewrite <- IH. field. exact s_nz.
      * rewrite sgn_zero. symmetry.
        rewrite (ksum_zero (fun m => fopp (fdiv (sgn (snd m) (icv (fst m))) s))); [field; exact s_nz|].
        intros m Hm. rewrite (P2 eq_refl m Hm), sgn_zero. field. exact s_nz.
    + apply ksum_map_ext. intros m Hm. unfold tj. rewrite (proj1 (AT m Hm)), sgn_opp, sgn_div by exact s_nz. reflexivity.
  - unfold tj at 1. rewrite Et, Et0, Ek, Ev, value_signed_plain, sgn_mul. unfold vsum. rewrite sgn_ksum, map_map, <- ksum_scale, map_map.
    unfold tjsum. apply ksum_map_ext. intros m Hm. unfold tj. rewrite (proj1 (AT m Hm)), sgn_mul, (KW m Hm), (PO m Hm). reflexivity.
Qed.

(* ================= the parallel theorem on elements =========================== *)
(* member m sits across (a, b): + at a when its flag is true, + at b otherwise *)
Definition across (a b : nat) (m : mem_t) : Prop := enodes (fst m) = if snd m then [a; b] else [b; a].
Definition br_or (e : elem) : branch K := match branch_of e with Some b => b | None => BI f0 end.
Definition pstep_of (m : mem_t) : pstep K := (snd m, br_or (fst m)).
Lemma esem_psem a b (m : mem_t) : across a b m -> branch_of (fst m) <> None -> esem (fst m) = psem (zn a) (zn b) (pstep_of m).
Proof. unfold across, esem, psem, pstep_of, br_or, en1, en2. intros Ha Hb. destruct (branch_of (fst m)) as [bch|]; [|congruence].
  cbn [fst snd]. rewrite Ha. destruct (snd m); reflexivity. Qed.
Lemma branch_some (e : elem) t : etyp e = t -> t <> TO -> t <> TX -> branch_of e <> None.
Proof. intros <- H1 H2. unfold branch_of. destruct (etyp e); congruence. Qed.
Lemma nsem_psems a b (ms : list mem_t) : (forall m, In m ms -> across a b m /\ branch_of (fst m) <> None) ->
  nsem (els_of ms) = psems (zn a) (zn b) (map pstep_of ms).
Proof. intros H. unfold nsem, psems. rewrite !map_map. apply map_ext_in. intros m Hm. apply esem_psem; apply H; exact Hm. Qed.

Lemma Ysum_map (ms : list mem_t) : (forall m, In m ms -> py (pstep_of m) = ty (fst m)) -> Ysum (map pstep_of ms) = tysum ms.
Proof. induction ms as [|m ms IH]; intros H; [reflexivity|]. cbn [map Ysum]. unfold tysum. cbn [map ksum].
  rewrite H by (left; reflexivity). rewrite IH by (intros; apply H; right; assumption). reflexivity. Qed.
Lemma Jsum_map (ms : list mem_t) : (forall m, In m ms -> pj (pstep_of m) = sgn (snd m) (tj (fst m))) -> Jsum (map pstep_of ms) = tjsum ms.
Proof. induction ms as [|m ms IH]; intros H; [reflexivity|]. cbn [map Jsum]. unfold tjsum. cbn [map ksum].
  rewrite H by (left; reflexivity). rewrite IH by (intros; apply H; right; assumption). reflexivity. Qed.
Lemma pzsum_map (ms : list mem_t) : (forall m, In m ms -> pz (pstep_of m) = ty (fst m)) -> pzsum (map pstep_of ms) = tysum ms.
Proof. induction ms as [|m ms IH]; intros H; [reflexivity|]. cbn [map pzsum]. unfold tysum. cbn [map ksum].
  rewrite H by (left; reflexivity). rewrite IH by (intros; apply H; right; assumption). reflexivity. Qed.
Lemma pesum_map (ms : list mem_t) : (forall m, In m ms -> pe (pstep_of m) = sgn (snd m) (tj (fst m))) -> pesum (map pstep_of ms) = tjsum ms.
Proof. induction ms as [|m ms IH]; intros H; [reflexivity|]. cbn [map pesum]. unfold tjsum. cbn [map ksum].
  rewrite H by (left; reflexivity). rewrite IH by (intros; apply H; right; assumption). reflexivity. Qed.
Lemma powns_map (ms : list mem_t) : (forall m, In m ms -> etyp (fst m) = TL) -> powns (map pstep_of ms) = map (fun m => zname (ename (fst m))) ms.
Proof. induction ms as [|m ms IH]; intros H; [reflexivity|]. cbn [map powns]. rewrite IH by (intros; apply H; right; assumption).
  unfold pstep_of at 1, br_or, branch_of. cbn [snd]. rewrite (H m (or_introl eq_refl)). reflexivity. Qed.

Definition norton_type (t : ety) : Prop := match t with TR | TNR | TZ | TY | TC | TI => True | _ => False end.

(* what has to hold of the combined element's Norton data *)
Definition par_sums_ok (ms : list mem_t) (m0 : mem_t) (new : elem) : Prop :=
  ty new = tysum ms /\ sgn (snd m0) (tj new) = tjsum ms.

Theorem parallel_norton_equiv t a b (ms : list mem_t) m0 (new : elem) IN IV IR :
  norton_type t -> all_type t ms -> (forall m, In m ms -> across a b m) ->
  etyp new = t -> valid new -> across a b (new, snd m0) ->
  par_sums_ok ms m0 new ->
  port_equiv IN IV IR (nsem (els_of ms)) [esem new].
Proof.
  intros NT AT AC Et Vn An [Sy Sj].
  assert (Tn : t <> TO /\ t <> TX /\ t <> TL /\ t <> TV /\ t <> TW) by (destruct t; cbn in NT; try contradiction; repeat split; discriminate).
  destruct Tn as [T1 [T2 [T3 [T4 T5]]]].
  rewrite (nsem_psems a b ms) by (intros m Hm; split; [apply AC; exact Hm | apply (branch_some _ t); [apply AT; exact Hm | exact T1 | exact T2]]).
  change [esem new] with (nsem (els_of [(new, snd m0)])).
  rewrite (nsem_psems a b [(new, snd m0)]) by (intros m [<-|[]]; split; [exact An | apply (branch_some _ t); assumption]).
  assert (D : forall e fw, etyp e = t -> valid e -> norton (pstep_of (e, fw)) /\ py (pstep_of (e, fw)) = ty e /\ pj (pstep_of (e, fw)) = sgn fw (tj e)).
  { intros e fw He Hv. unfold pstep_of, br_or. cbn [fst snd]. destruct (branch_of e) as [bch|] eqn:Eb.
    - apply pstep_norton; congruence.
    - exfalso. apply (branch_some e t He T1 T2). exact Eb. }
  apply par_norton_equiv.
  - apply Forall_forall. intros p Hp. apply in_map_iff in Hp. destruct Hp as [m [<- Hm]]. destruct m as [e fw]. apply D; apply (AT _ Hm).
  - constructor; [|constructor]. apply D; assumption.
  - rewrite Ysum_map by (intros [e fw] Hm; apply D; apply (AT _ Hm)). cbn [map Ysum]. rewrite (proj1 (proj2 (D new (snd m0) Et Vn))), Sy. ring.
  - rewrite Jsum_map by (intros [e fw] Hm; apply D; apply (AT _ Hm)). cbn [map Jsum]. rewrite (proj2 (proj2 (D new (snd m0) Et Vn))), Sj. ring.
Qed.

(* inductors in parallel: the members' branch unknowns and the new one are private *)
Theorem parallel_L_equiv a b (ms : list mem_t) m0 (new : elem) IN IV IR :
  all_type TL ms -> (forall m, In m ms -> across a b m) ->
  etyp new = TL -> valid new -> across a b (new, snd m0) ->
  par_sums_ok ms m0 new ->
  NoDup (map (fun m => ename (fst m)) ms) ->
  (forall o, IR o = true <-> In o (map (fun m => zname (ename (fst m))) ms ++ [zname (ename new)])) ->
  (forall o, In o (map (fun m => zname (ename (fst m))) ms ++ [zname (ename new)]) -> IV o = true) ->
  port_equiv IN IV IR (nsem (els_of ms)) [esem new].
Proof.
  intros AT AC Et Vn An [Sy Sj] ND HIR HIV.
  rewrite (nsem_psems a b ms) by (intros m Hm; split; [apply AC; exact Hm | apply (branch_some _ TL); [apply AT; exact Hm | discriminate | discriminate]]).
  change [esem new] with (nsem (els_of [(new, snd m0)])).
  rewrite (nsem_psems a b [(new, snd m0)]) by (intros m [<-|[]]; split; [exact An | apply (branch_some _ TL); [exact Et | discriminate | discriminate]]).
  assert (D : forall e fw, etyp e = TL -> valid e -> zwf (pstep_of (e, fw)) /\ pz (pstep_of (e, fw)) = ty e /\ pe (pstep_of (e, fw)) = sgn fw (tj e)).
  { intros e fw He Hv. unfold pstep_of, br_or. cbn [fst snd]. destruct (branch_of e) as [bch|] eqn:Eb.
    - destruct (pstep_bz e fw bch Eb Hv He) as [A1 [A2 [A3 _]]]. auto.
    - exfalso. apply (branch_some e TL He); [discriminate | discriminate | exact Eb]. }
  assert (Z1 : Forall zwf (map pstep_of ms)).
  { apply Forall_forall. intros p Hp. apply in_map_iff in Hp. destruct Hp as [[e fw] [<- Hm]]. apply D; apply (AT _ Hm). }
  assert (Z2 : Forall zwf (map pstep_of [(new, snd m0)])) by (constructor; [apply D; assumption | constructor]).
  assert (O1 : powns (map pstep_of ms) = map (fun m => zname (ename (fst m))) ms) by (apply powns_map; intros m Hm; apply AT; exact Hm).
  assert (O2 : powns (map pstep_of [(new, snd m0)]) = [zname (ename new)]) by (rewrite powns_map; [reflexivity | intros m [<-|[]]; exact Et]).
  assert (N1 : NoDup (powns (map pstep_of ms))).
  { rewrite O1. rewrite <- (map_map (fun m => ename (fst m)) zname). apply FinFun.Injective_map_NoDup; [intros x y; apply zname_inj | exact ND]. }
  assert (N2 : NoDup (powns (map pstep_of [(new, snd m0)]))) by (rewrite O2; constructor; [intros [] | constructor]).
  assert (EZ : pzsum (map pstep_of ms) = pzsum (map pstep_of [(new, snd m0)])).
  { rewrite pzsum_map by (intros [e fw] Hm; apply D; apply (AT _ Hm)). cbn [map pzsum]. rewrite (proj1 (proj2 (D new (snd m0) Et Vn))), Sy. ring. }
  assert (EE : pesum (map pstep_of ms) = pesum (map pstep_of [(new, snd m0)])).
  { rewrite pesum_map by (intros [e fw] Hm; apply D; apply (AT _ Hm)). cbn [map pesum]. rewrite (proj2 (proj2 (D new (snd m0) Et Vn))), Sj. ring. }
  split.
  - apply par_bz_sim; try assumption.
    + intros o Ho. rewrite O1, O2 in Ho. apply in_app_or in Ho. destruct Ho as [Ho|[<-|[]]]; [|apply zname_pos].
      apply in_map_iff in Ho. destruct Ho as [m [<- _]]. apply zname_pos.
    + intros o. rewrite O1, O2. apply HIR.
    + intros o Ho. rewrite O2 in Ho. apply HIV. apply in_or_app. right. exact Ho.
  - apply par_bz_sim; try assumption; try (symmetry; assumption).
    + intros o Ho. rewrite O1, O2 in Ho. apply in_app_or in Ho. destruct Ho as [[<-|[]]|Ho]; [apply zname_pos|].
      apply in_map_iff in Ho. destruct Ho as [m [<- _]]. apply zname_pos.
    + intros o. rewrite O1, O2, HIR. split; intros H; apply in_app_or in H; apply in_or_app; destruct H; auto.
    + intros o Ho. rewrite O1 in Ho. apply HIV. apply in_or_app. left. exact Ho.
Qed.

(* ================= the series theorem on elements ============================= *)
(* a chain of elements as [walk] lists it: (element, traversed + to -, next node) *)
Definition trip := (elem * bool * nat)%type.
Definition t_e (x : trip) : elem := fst (fst x).
Definition t_fw (x : trip) : bool := snd (fst x).
Definition t_nx (x : trip) : nat := snd x.
Definition tstep (x : trip) : step K := Step (t_fw x) (br_or (t_e x)) (zn (t_nx x)).
Definition tsteps (w : list trip) : list (step K) := map tstep w.
Fixpoint wwalk (a : nat) (w : list trip) : Prop :=
  match w with
  | [] => True
  | x :: w' => enodes (t_e x) = (if t_fw x then [a; t_nx x] else [t_nx x; a]) /\ wwalk (t_nx x) w'
  end.
Definition chain_el_ok (e : elem) : Prop := valid e /\ series_type (etyp e).
Lemma series_type_branch e : series_type (etyp e) -> branch_of e <> None /\ etyp e <> TI.
Proof. unfold series_type, branch_of. destruct (etyp e); intros H; try contradiction; split; discriminate. Qed.

Lemma nsem_chain (w : list trip) : forall a, wwalk a w -> (forall x, In x w -> chain_el_ok (t_e x)) ->
  nsem (map t_e w) = chain_sems (zn a) (tsteps w).
Proof.
  induction w as [|x w IH]; intros a W OK; [reflexivity|]. destruct W as [W1 W2].
  cbn [map nsem tsteps chain_sems]. unfold nsem, tsteps in IH. rewrite (IH (t_nx x) W2) by (intros; apply OK; right; assumption).
  f_equal. unfold esem, ssem, sp, sq, tstep, br_or, en1, en2. cbn [sfwd sbr snext].
  destruct (series_type_branch (t_e x) (proj2 (OK x (or_introl eq_refl)))) as [Hb _].
  destruct (branch_of (t_e x)); [|congruence]. rewrite W1. destruct (t_fw x); reflexivity.
Qed.

Definition Zt (w : list trip) : K := ksum (map (fun x => tz (t_e x)) w).
Definition Et (w : list trip) : K := ksum (map (fun x => sgn (t_fw x) (te (t_e x))) w).
Lemma tstep_data (x : trip) : chain_el_ok (t_e x) -> thev (tstep x) /\ sz (tstep x) = tz (t_e x) /\ se (tstep x) = sgn (t_fw x) (te (t_e x)).
Proof. intros [Hv Ht]. destruct (series_type_branch _ Ht) as [Hb Hi]. unfold tstep, br_or.
  destruct (branch_of (t_e x)) as [bch|] eqn:Eb; [|congruence]. apply step_data; assumption. Qed.
Lemma tsteps_sums (w : list trip) : (forall x, In x w -> chain_el_ok (t_e x)) ->
  Forall thev (tsteps w) /\ zsum (tsteps w) = Zt w /\ esum (tsteps w) = Et w.
Proof. induction w as [|x w IH]; intros OK; [split; [constructor | split; reflexivity]|].
  destruct (IH (fun y Hy => OK y (or_intror Hy))) as [I1 [I2 I3]]. destruct (tstep_data x (OK x (or_introl eq_refl))) as [D1 [D2 D3]].
  unfold tsteps, Zt, Et in *. cbn [map zsum esum ksum]. split; [constructor; assumption|]. rewrite I2, I3, D2, D3. split; reflexivity. Qed.

Lemma interior_snext (l1 l2 : list (step K)) : map snext l1 = map snext l2 -> interior l1 = interior l2.
Proof. revert l2. induction l1 as [|s1 l1 IH]; intros [|s2 l2] H; try discriminate; [reflexivity|].
  cbn [map] in H. injection H as H1 H2. destruct l1 as [|s1' l1], l2 as [|s2' l2]; try discriminate; [reflexivity|].
  change (interior (s1 :: s1' :: l1)) with (snext s1 :: interior (s1' :: l1)).
  change (interior (s2 :: s2' :: l2)) with (snext s2 :: interior (s2' :: l2)). rewrite H1, (IH _ H2). reflexivity. Qed.
Lemma lastn_snext (l1 l2 : list (step K)) a : map snext l1 = map snext l2 -> lastn a l1 = lastn a l2.
Proof. revert a l2. induction l1 as [|s1 l1 IH]; intros a [|s2 l2] H; try discriminate; [reflexivity|].
  cbn [map] in H. injection H as H1 H2. cbn [lastn]. rewrite H1. apply IH. exact H2. Qed.

(* own branch unknowns of a chain of elements are names of its elements *)
Lemma owns_tsteps (w : list trip) o : In o (owns (tsteps w)) -> exists x, In x w /\ o = zname (ename (t_e x)) /\
  exists Zb E, br_or (t_e x) = BZ Zb E o.
Proof. induction w as [|x w IH]; intros H; [destruct H|]. unfold tsteps in *. cbn [map owns] in H. unfold tstep at 1 in H. cbn [sbr] in H.
  destruct (br_or (t_e x)) as [Y J|Zb E o'|J] eqn:Eb.
  - destruct (IH H) as [y [Hy R]]. exists y. split; [right; exact Hy | exact R].
  - destruct H as [<-|H].
    + exists x. split; [left; reflexivity|]. assert (o' = zname (ename (t_e x))).
      { unfold br_or, branch_of in Eb. destruct (etyp (t_e x)); inversion Eb; reflexivity. }
      split; [exact H | exists Zb, E; exact Eb].
    + destruct (IH H) as [y [Hy R]]. exists y. split; [right; exact Hy | exact R].
  - destruct (IH H) as [y [Hy R]]. exists y. split; [right; exact Hy | exact R]. Qed.
Lemma br_or_own (e : elem) Zb E o : br_or e = BZ Zb E o -> o = zname (ename e).
Proof. unfold br_or, branch_of. destruct (etyp e); intros H; inversion H; reflexivity. Qed.
Lemma owns_sub (w : list trip) : exists f, owns (tsteps w) = map (fun x => zname (ename (t_e x))) (filter f w).
Proof. exists (fun x => match br_or (t_e x) with BZ _ _ _ => true | _ => false end).
  induction w as [|x w IH]; [reflexivity|]. unfold tsteps in *. cbn [map owns filter]. unfold tstep at 1. cbn [sbr].
  destruct (br_or (t_e x)) as [Y J|Zb E o|J] eqn:Eb; [exact IH | | exact IH]. cbn [map]. rewrite IH, (br_or_own _ _ _ _ Eb). reflexivity. Qed.
Lemma NoDup_filter {A} (f : A -> bool) (l : list A) : NoDup l -> NoDup (filter f l).
Proof. induction 1 as [|x l Hx _ IH]; cbn [filter]; [constructor|]. destruct (f x); [constructor; [|exact IH] | exact IH].
  intros Hi. apply filter_In in Hi. exact (Hx (proj1 Hi)). Qed.
Lemma NoDup_map_filter {A B} (g : A -> B) (f : A -> bool) (l : list A) : NoDup (map g l) -> NoDup (map g (filter f l)).
Proof. induction l as [|x l IH]; intros H; cbn [filter map]; [constructor|]. cbn [map] in H. inversion H as [|? ? Hx H']; subst.
  destruct (f x); [cbn [map]; constructor; [|apply IH; exact H'] | apply IH; exact H'].
  intros Hi. apply Hx. apply in_map_iff in Hi. destruct Hi as [y [<- Hy]]. apply in_map. apply filter_In in Hy. exact (proj1 Hy). Qed.
Lemma owns_NoDup (w : list trip) : NoDup (map (fun x => ename (t_e x)) w) -> NoDup (owns (tsteps w)).
Proof. intros H. destruct (owns_sub w) as [f ->]. rewrite <- (map_map (fun x => ename (t_e x)) zname).
  apply FinFun.Injective_map_NoDup; [intros x y; apply zname_inj|]. apply NoDup_map_filter. exact H. Qed.

(* in-place replacement: the first member becomes [new], the others wires *)
Definition rep (first : name) (others : name -> bool) (new : elem) (wn : name -> name) (e : elem) : elem :=
  if name_eqb (ename e) first then new
  else if others (ename e) then Elem (wn (ename e)) TW (enodes e) KwNone f0 None else e.
Definition trep (f : elem -> elem) (x : trip) : trip := (f (t_e x), t_fw x, t_nx x).

Lemma ksum_filter_split {A} (g : A -> K) (f : A -> bool) (l : list A) :
  ksum (map g l) = fadd (ksum (map g (filter f l))) (ksum (map g (filter (fun x => negb (f x)) l))).
Proof. induction l as [|x l IH]; cbn [map filter ksum]; [ring|]. rewrite IH. destruct (f x); cbn [negb map ksum]; ring. Qed.

Lemma wwalk_trep (f : elem -> elem) (w : list trip) : forall a, wwalk a w ->
  (forall x, In x w -> enodes (f (t_e x)) = enodes (t_e x)) -> wwalk a (map (trep f) w).
Proof. induction w as [|x w IH]; intros a W H; [exact I|]. destruct W as [W1 W2]. cbn [map wwalk]. split.
  - unfold trep; cbn [t_e t_fw t_nx fst snd]. change (fst (fst x)) with (t_e x). rewrite H by (left; reflexivity). exact W1.
  - apply IH; [exact W2 | intros y Hy; apply H; right; exact Hy]. Qed.

Theorem series_equiv_inplace a (w : list trip) (ms : list mem_t) m0 ms' (new : elem) (wn : name -> name) (IN IV IR : Z -> bool) :
  wwalk a w -> (forall x, In x w -> chain_el_ok (t_e x)) -> chain_wf (zn a) (tsteps w) ->
  ms = m0 :: ms' ->
  Permutation (map (fun x => (t_e x, t_fw x)) (filter (fun x => nmem (ename (t_e x)) (map (fun m => ename (fst m)) ms)) w)) ms ->
  NoDup (map (fun m => ename (fst m)) ms) ->
  chain_el_ok new -> enodes new = enodes (fst m0) ->
  tz new = tzsum ms -> sgn (snd m0) (te new) = tesum ms ->
  let r := rep (ename (fst m0)) (fun x => nmem x (map (fun m => ename (fst m)) ms')) new wn in
  let w2 := map (trep r) w in
  NoDup (map (fun x => ename (t_e x)) w2) ->
  (forall n, IN n = true <-> In n (interior (tsteps w))) ->
  (forall o, IR o = true <-> In o (owns (tsteps w) ++ owns (tsteps w2))) ->
  (forall o, IV o = true <-> In o (map zname (map (fun m => ename (fst m)) ms ++ ename new :: map (fun m => wn (ename (fst m))) ms'))) ->
  wwalk a w2 /\ chain_wf (zn a) (tsteps w2) /\
  port_sim_o (same_current (zn a) (tsteps w) (tsteps w2)) IN IV IR (nsem (map t_e w)) (nsem (map t_e w2)) /\
  port_sim_o (same_current (zn a) (tsteps w2) (tsteps w)) IN IV IR (nsem (map t_e w2)) (nsem (map t_e w)).
Proof.
  intros W OK WF E PERM NDm OKn En Sz Se r w2 ND2 HIN HIR HIV.
  set (selx := fun x : trip => nmem (ename (t_e x)) (map (fun m => ename (fst m)) ms)) in *.
  assert (Hm0 : In m0 ms) by (rewrite E; left; reflexivity).
  (* facts about r *)
  assert (Rfirst : r (fst m0) = new) by (unfold r, rep; rewrite (proj2 (name_eqb_eq _ _) eq_refl); reflexivity).
  assert (Rother : forall m, In m ms' -> r (fst m) = Elem (wn (ename (fst m))) TW (enodes (fst m)) KwNone f0 None).
  { intros m Hm. unfold r, rep. destruct (name_eqb (ename (fst m)) (ename (fst m0))) eqn:En0.
    - exfalso. apply name_eqb_eq in En0. pose proof NDm as NDm'. rewrite E in NDm'. cbn [map] in NDm'. apply NoDup_cons_iff in NDm'. destruct NDm' as [Hn _]. apply Hn. rewrite <- En0.
      apply in_map_iff. exists m. split; [reflexivity | exact Hm].
    - assert (Ho : nmem (ename (fst m)) (map (fun m1 => ename (fst m1)) ms') = true).
      { unfold nmem. apply existsb_exists. exists (ename (fst m)). split; [apply in_map_iff; exists m; split; [reflexivity | exact Hm] | apply name_eqb_eq; reflexivity]. }
      rewrite Ho. reflexivity. }
  assert (Rkeep : forall x, selx x = false -> r (t_e x) = t_e x).
  { intros x Hx. unfold r, rep. unfold selx, nmem in Hx. rewrite E in Hx. cbn [map existsb] in Hx. apply orb_false_iff in Hx. destruct Hx as [H1 H2].
    rewrite H1. unfold nmem. rewrite H2. reflexivity. }
  (* members of the chain, as a permutation of ms *)
  assert (Hin_w : forall m, In m ms -> exists x, In x w /\ selx x = true /\ t_e x = fst m /\ t_fw x = snd m).
  { intros m Hm. apply (Permutation_in _ (Permutation_sym PERM)) in Hm. apply in_map_iff in Hm. destruct Hm as [x [Hx Hf]].
    apply filter_In in Hf. exists x. split; [exact (proj1 Hf)|]. split; [exact (proj2 Hf)|]. destruct m; inversion Hx; split; reflexivity. }
  assert (Hsel_ms : forall x, In x w -> selx x = true -> In (t_e x, t_fw x) ms).
  { intros x Hx Hs. apply (Permutation_in _ PERM). apply in_map_iff. exists x. split; [reflexivity | apply filter_In; split; assumption]. }
  (* the replaced chain has the same nodes *)
  assert (Rnodes : forall x, In x w -> enodes (r (t_e x)) = enodes (t_e x)).
  { intros x Hx. destruct (selx x) eqn:Hs; [|rewrite (Rkeep x Hs); reflexivity].
    pose proof (Hsel_ms x Hx Hs) as Hm. rewrite E in Hm. destruct Hm as [Hm|Hm].
    - assert (Ee : t_e x = fst m0) by (rewrite Hm; reflexivity). rewrite Ee, Rfirst. exact En.
    - pose proof (Rother _ Hm) as Ro. cbn [fst] in Ro. rewrite Ro. reflexivity. }
  assert (W2 : wwalk a w2).
  { unfold w2. apply wwalk_trep; assumption. }
  assert (OK2 : forall x, In x w2 -> chain_el_ok (t_e x)).
  { intros x Hx. unfold w2 in Hx. apply in_map_iff in Hx. destruct Hx as [y [<- Hy]]. unfold trep, t_e. cbn [fst].
    change (fst (fst y)) with (t_e y). destruct (selx y) eqn:Hs; [|rewrite (Rkeep y Hs); apply OK; exact Hy].
    pose proof (Hsel_ms y Hy Hs) as Hm. rewrite E in Hm. destruct Hm as [Hm|Hm].
    - assert (Ee : t_e y = fst m0) by (rewrite Hm; reflexivity). rewrite Ee, Rfirst. exact OKn.
    - pose proof (Rother _ Hm) as Ro. cbn [fst] in Ro. rewrite Ro. split; cbn; exact I. }
  assert (SN : map snext (tsteps w) = map snext (tsteps w2)).
  { unfold tsteps, w2. rewrite !map_map. apply map_ext. intros x. reflexivity. }
  destruct WF as [ND1 [Ha1 [Hl1 [Hp1 [NO1 [Ho1 T1]]]]]].
  destruct (tsteps_sums w OK) as [TH1 [ZS1 ES1]]. destruct (tsteps_sums w2 OK2) as [TH2 [ZS2 ES2]].
  assert (WF2 : chain_wf (zn a) (tsteps w2)).
  { unfold chain_wf. rewrite <- (interior_snext _ _ SN), <- (lastn_snext _ _ (zn a) SN).
    repeat split; try assumption.
    - apply owns_NoDup. exact ND2.
    - intros o Ho. destruct (owns_tsteps w2 o Ho) as [x [_ [-> _]]]. apply zname_pos. }
  (* the sums *)
  assert (SUMS : Zt w = Zt w2 /\ Et w = Et w2).
  { assert (EZ2 : Zt w2 = ksum (map (fun x => tz (t_e (trep r x))) w)) by (unfold Zt, w2; rewrite map_map; reflexivity).
    assert (EE2 : Et w2 = ksum (map (fun x => sgn (t_fw x) (te (t_e (trep r x)))) w)) by (unfold Et, w2; rewrite map_map; reflexivity).
    rewrite EZ2, EE2. unfold Zt, Et.
    assert (NM : forall (g : elem -> bool -> K), ksum (map (fun x => g (t_e (trep r x)) (t_fw x)) (filter (fun x => negb (selx x)) w)) =
                                              ksum (map (fun x => g (t_e x) (t_fw x)) (filter (fun x => negb (selx x)) w))).
    { intros g. apply ksum_map_ext. intros x Hx. apply filter_In in Hx. destruct Hx as [_ Hs]. apply negb_true_iff in Hs.
      unfold trep, t_e at 1. cbn [fst]. change (fst (fst x)) with (t_e x). rewrite (Rkeep x Hs). reflexivity. }
    assert (MM : forall (g : elem -> bool -> K), ksum (map (fun x => g (t_e x) (t_fw x)) (filter selx w)) = ksum (map (fun m => g (fst m) (snd m)) ms)).
    { intros g. rewrite <- (map_map (fun x => (t_e x, t_fw x)) (fun m => g (fst m) (snd m))). apply ksum_perm. apply Permutation_map. exact PERM. }
    assert (MR : forall (g : elem -> bool -> K), ksum (map (fun x => g (t_e (trep r x)) (t_fw x)) (filter selx w)) = ksum (map (fun m => g (r (fst m)) (snd m)) ms)).
    { intros g. rewrite <- (map_map (fun x => (t_e x, t_fw x)) (fun m => g (r (fst m)) (snd m))). apply ksum_perm. apply Permutation_map. exact PERM. }
    split.
    - rewrite (ksum_filter_split (fun x => tz (t_e x)) selx w), (ksum_filter_split (fun x => tz (t_e (trep r x))) selx w).
      pose proof (NM (fun e _ => tz e)) as N1. pose proof (MM (fun e _ => tz e)) as M1. pose proof (MR (fun e _ => tz e)) as R1. cbv beta in N1, M1, R1.
      rewrite N1, M1, R1. f_equal.
      fold (tzsum ms). rewrite <- Sz. rewrite E. cbn [map ksum]. rewrite Rfirst.
      rewrite (ksum_zero (fun m => tz (r (fst m)))); [ring|]. intros m Hm. rewrite (Rother m Hm). reflexivity.
    - rewrite (ksum_filter_split (fun x => sgn (t_fw x) (te (t_e x))) selx w), (ksum_filter_split (fun x => sgn (t_fw x) (te (t_e (trep r x)))) selx w).
      pose proof (NM (fun e fw => sgn fw (te e))) as N1. pose proof (MM (fun e fw => sgn fw (te e))) as M1. pose proof (MR (fun e fw => sgn fw (te e))) as R1. cbv beta in N1, M1, R1.
      rewrite N1, M1, R1. f_equal.
      fold (tesum ms). rewrite <- Se. rewrite E. cbn [map ksum]. rewrite Rfirst.
      rewrite (ksum_zero (fun m => sgn (snd m) (te (r (fst m))))); [ring|]. intros m Hm. rewrite (Rother m Hm). unfold te. cbn [etyp]. apply sgn_zero. }
  destruct SUMS as [SZ SE].
  (* retained branch unknowns sit in both chains with the same direction *)
  assert (IVnew : forall x, In x w -> selx x = true -> IV (zname (ename (t_e x))) = true /\ IV (zname (ename (r (t_e x)))) = true).
  { intros x Hx Hs. pose proof (Hsel_ms x Hx Hs) as Hm. split.
    - apply HIV. apply in_map. apply in_or_app. left. apply in_map_iff. exists (t_e x, t_fw x). split; [reflexivity | exact Hm].
    - apply HIV. apply in_map. apply in_or_app. right. rewrite E in Hm. destruct Hm as [Hm|Hm].
      + assert (Ee : t_e x = fst m0) by (rewrite Hm; reflexivity). rewrite Ee, Rfirst. left. reflexivity.
      + pose proof (Rother _ Hm) as Ro. cbn [fst] in Ro. rewrite Ro. cbn [ename]. right. apply in_map_iff. exists (t_e x, t_fw x). split; [reflexivity | exact Hm]. }
  assert (K12 : kept_dir IV (tsteps w) (tsteps w2)).
  { intros st2 Hst Zb E0 o Eb Ho. unfold tsteps, w2 in Hst. rewrite map_map in Hst. apply in_map_iff in Hst. destruct Hst as [x [<- Hx]].
    unfold tstep in Eb. cbn [sbr] in Eb. unfold trep, t_e in Eb. cbn [fst] in Eb. change (fst (fst x)) with (t_e x) in Eb.
    destruct (selx x) eqn:Hs.
    - exfalso. rewrite (br_or_own _ _ _ _ Eb) in Ho. rewrite (proj2 (IVnew x Hx Hs)) in Ho. discriminate.
    - rewrite (Rkeep x Hs) in Eb. exists (tstep x), Zb, E0. split; [apply in_map; exact Hx | split; [exact Eb | reflexivity]]. }
  assert (K21 : kept_dir IV (tsteps w2) (tsteps w)).
  { intros st1 Hst Zb E0 o Eb Ho. unfold tsteps in Hst. apply in_map_iff in Hst. destruct Hst as [x [<- Hx]].
    unfold tstep in Eb. cbn [sbr] in Eb. destruct (selx x) eqn:Hs.
    - exfalso. rewrite (br_or_own _ _ _ _ Eb) in Ho. rewrite (proj1 (IVnew x Hx Hs)) in Ho. discriminate.
    - exists (tstep (trep r x)), Zb, E0. split; [unfold tsteps, w2; rewrite map_map; apply in_map_iff; exists x; split; [reflexivity | exact Hx]|].
      split; [|reflexivity]. unfold tstep. cbn [sbr]. unfold trep, t_e. cbn [fst]. change (fst (fst x)) with (t_e x). rewrite (Rkeep x Hs). exact Eb. }
  split; [exact W2|]. split; [exact WF2|].
  rewrite (nsem_chain w a W OK), (nsem_chain w2 a W2 OK2).
  assert (WF1 : chain_wf (zn a) (tsteps w)) by (unfold chain_wf; repeat split; assumption).
  split.
  - apply chain_sim_o; try assumption.
    + apply lastn_snext. exact SN.
    + rewrite ZS1, ZS2. exact SZ.
    + rewrite ES1, ES2. exact SE.
    + intros n. rewrite HIN, <- (interior_snext _ _ SN). split; [intros H; apply in_or_app; left; exact H | intros H; apply in_app_or in H; destruct H; assumption].
  - apply chain_sim_o; try assumption.
    + symmetry. apply lastn_snext. exact SN.
    + rewrite ZS1, ZS2. symmetry. exact SZ.
    + rewrite ES1, ES2. symmetry. exact SE.
    + intros n. rewrite HIN, <- (interior_snext _ _ SN). split; [intros H; apply in_or_app; left; exact H | intros H; apply in_app_or in H; destruct H; assumption].
    + intros o. rewrite HIR. split; intros H; apply in_app_or in H; apply in_or_app; destruct H; auto.
Qed.

(* ================= the named theorems of C05 =================================== *)
Lemma series_action_type t add common signed : series_action t = Ok (ACombine add common signed) -> series_type t.
Proof. destruct t; cbn; intros H; try discriminate; exact I. Qed.

(* frames of a series rewrite *)
Definition series_frames (w w2 : list trip) (ms : list mem_t) (ms' : list mem_t) (new : elem) (wn : name -> name) (IN IV IR : Z -> bool) : Prop :=
  (forall n, IN n = true <-> In n (interior (tsteps w))) /\
  (forall o, IR o = true <-> In o (owns (tsteps w) ++ owns (tsteps w2))) /\
  (forall o, IV o = true <-> In o (map zname (map (fun m => ename (fst m)) ms ++ ename new :: map (fun m => wn (ename (fst m))) ms'))).

(* SERIES, full strength: for every chain, every group of like members in any
   orientation and any enumeration order, the netlist produced by the repaired
   _do_simplify_combine (first member -> combined element, others -> wires) is
   port-equivalent to the original chain, and every branch that stays in the
   chain carries the same current *)
Theorem combine_series_equiv a (w : list trip) (ms : list mem_t) m0 ms' t add common signed nm (new : elem) (wn : name -> name) IN IV IR :
  wwalk a w -> (forall x, In x w -> chain_el_ok (t_e x)) -> chain_wf (zn a) (tsteps w) ->
  ms = m0 :: ms' ->
  Permutation (map (fun x => (t_e x, t_fw x)) (filter (fun x => nmem (ename (t_e x)) (map (fun m => ename (fst m)) ms)) w)) ms ->
  NoDup (map (fun m => ename (fst m)) ms) ->
  all_type t ms -> series_action t = Ok (ACombine add common signed) -> same_kwf ms m0 -> (add = false -> rsum ms <> f0) ->
  (common = true -> exists e0, check_ic keqb repaired e0 (els_of ms) (sames_of ms) = Ok true) ->
  new_elem repaired (els_of ms) (sames_of ms) add common signed nm = Ok new -> valid new ->
  let r := rep (ename (fst m0)) (fun x => nmem x (map (fun m => ename (fst m)) ms')) new wn in
  let w2 := map (trep r) w in
  NoDup (map (fun x => ename (t_e x)) w2) -> series_frames w w2 ms ms' new wn IN IV IR ->
  wwalk a w2 /\ chain_wf (zn a) (tsteps w2) /\
  port_sim_o (same_current (zn a) (tsteps w) (tsteps w2)) IN IV IR (nsem (map t_e w)) (nsem (map t_e w2)) /\
  port_sim_o (same_current (zn a) (tsteps w2) (tsteps w)) IN IV IR (nsem (map t_e w2)) (nsem (map t_e w)).
Proof.
  intros W OK WF E PERM NDm AT SA KW Hr CK H Vn r w2 ND2 [F1 [F2 F3]].
  destruct (new_elem_inv repaired ms add common signed nm new m0 ms' E H) as [Et [_ [En _]]].
  assert (Et0 : etyp (fst m0) = t) by (apply AT; apply (In_first ms m0 ms' E)).
  apply (series_equiv_inplace a w ms m0 ms' new wn IN IV IR); try assumption.
  - split; [exact Vn|]. rewrite Et, Et0. apply (series_action_type t add common signed SA).
  - apply (series_tz repaired t ms m0 ms' add common signed nm new); assumption.
  - apply (series_te_rep t ms m0 ms' add common signed nm new); assumption.
Qed.

(* the same for the UNCHANGED tree holds only under [plain_ok_series] *)
Theorem combine_series_equiv_unchanged a (w : list trip) (ms : list mem_t) m0 ms' t add common signed nm (new : elem) (wn : name -> name) IN IV IR :
  wwalk a w -> (forall x, In x w -> chain_el_ok (t_e x)) -> chain_wf (zn a) (tsteps w) ->
  ms = m0 :: ms' ->
  Permutation (map (fun x => (t_e x, t_fw x)) (filter (fun x => nmem (ename (t_e x)) (map (fun m => ename (fst m)) ms)) w)) ms ->
  NoDup (map (fun m => ename (fst m)) ms) ->
  all_type t ms -> series_action t = Ok (ACombine add common signed) -> same_kwf ms m0 -> (add = false -> rsum ms <> f0) ->
  plain_ok_series t ms m0 ->
  new_elem unchanged_tree (els_of ms) (sames_of ms) add common signed nm = Ok new -> valid new ->
  let r := rep (ename (fst m0)) (fun x => nmem x (map (fun m => ename (fst m)) ms')) new wn in
  let w2 := map (trep r) w in
  NoDup (map (fun x => ename (t_e x)) w2) -> series_frames w w2 ms ms' new wn IN IV IR ->
  wwalk a w2 /\ chain_wf (zn a) (tsteps w2) /\
  port_sim_o (same_current (zn a) (tsteps w) (tsteps w2)) IN IV IR (nsem (map t_e w)) (nsem (map t_e w2)) /\
  port_sim_o (same_current (zn a) (tsteps w2) (tsteps w)) IN IV IR (nsem (map t_e w2)) (nsem (map t_e w)).
Proof.
  intros W OK WF E PERM NDm AT SA KW Hr PO H Vn r w2 ND2 [F1 [F2 F3]].
  destruct (new_elem_inv unchanged_tree ms add common signed nm new m0 ms' E H) as [Et [_ [En _]]].
  assert (Et0 : etyp (fst m0) = t) by (apply AT; apply (In_first ms m0 ms' E)).
  apply (series_equiv_inplace a w ms m0 ms' new wn IN IV IR); try assumption.
  - split; [exact Vn|]. rewrite Et, Et0. apply (series_action_type t add common signed SA).
  - apply (series_tz unchanged_tree t ms m0 ms' add common signed nm new); assumption.
  - apply (series_te_plain t ms m0 ms' add common signed nm new); assumption.
Qed.

(* PARALLEL *)
Lemma parallel_action_type t add common signed : parallel_action t = Ok (ACombine add common signed) -> norton_type t \/ t = TL.
Proof. destruct t; cbn; intros H; try discriminate; auto; left; exact I. Qed.
Definition parallel_frames (ms : list mem_t) (new : elem) (IV IR : Z -> bool) : Prop :=
  (forall o, IR o = true <-> In o (map (fun m => zname (ename (fst m))) ms ++ [zname (ename new)])) /\
  (forall o, In o (map (fun m => zname (ename (fst m))) ms ++ [zname (ename new)]) -> IV o = true).

Lemma across_new (a b : nat) (m0 : mem_t) (new : elem) : across a b m0 -> enodes new = enodes (fst m0) -> across a b (new, snd m0).
Proof. unfold across. cbn [fst snd]. intros H ->. exact H. Qed.

Theorem combine_parallel_equiv t a b (ms : list mem_t) m0 ms' add common signed nm (new : elem) IN IV IR :
  ms = m0 :: ms' -> all_type t ms -> (forall m, In m ms -> across a b m) ->
  NoDup (map (fun m => ename (fst m)) ms) ->
  parallel_action t = Ok (ACombine add common signed) -> same_kwf ms m0 -> (add = false -> rsum ms <> f0) ->
  (common = true -> exists e0, check_ic keqb repaired e0 (els_of ms) (sames_of ms) = Ok true) ->
  new_elem repaired (els_of ms) (sames_of ms) add common signed nm = Ok new -> valid new ->
  parallel_frames ms new IV IR ->
  port_equiv IN IV IR (nsem (els_of ms)) [esem new].
Proof.
  intros E AT AC ND PA KW Hr CK H Vn [F1 F2].
  destruct (new_elem_inv repaired ms add common signed nm new m0 ms' E H) as [Et [_ [En _]]].
  assert (Et0 : etyp (fst m0) = t) by (apply AT; apply (In_first ms m0 ms' E)).
  assert (PS : par_sums_ok ms m0 new).
  { split; [apply (parallel_ty repaired t ms m0 ms' add common signed nm new); assumption |
            apply (parallel_tj_rep t ms m0 ms' add common signed nm new); assumption]. }
  assert (An : across a b (new, snd m0)) by (apply across_new; [apply AC; apply (In_first ms m0 ms' E) | exact En]).
  destruct (parallel_action_type t add common signed PA) as [NT| ->].
  - apply (parallel_norton_equiv t a b ms m0 new); try assumption. congruence.
  - apply (parallel_L_equiv a b ms m0 new); try assumption. congruence.
Qed.
Theorem combine_parallel_equiv_unchanged t a b (ms : list mem_t) m0 ms' add common signed nm (new : elem) IN IV IR :
  ms = m0 :: ms' -> all_type t ms -> (forall m, In m ms -> across a b m) ->
  NoDup (map (fun m => ename (fst m)) ms) ->
  parallel_action t = Ok (ACombine add common signed) -> same_kwf ms m0 -> (add = false -> rsum ms <> f0) ->
  plain_ok_parallel t ms m0 ->
  new_elem unchanged_tree (els_of ms) (sames_of ms) add common signed nm = Ok new -> valid new ->
  parallel_frames ms new IV IR ->
  port_equiv IN IV IR (nsem (els_of ms)) [esem new].
Proof.
  intros E AT AC ND PA KW Hr PO H Vn [F1 F2].
  destruct (new_elem_inv unchanged_tree ms add common signed nm new m0 ms' E H) as [Et [_ [En _]]].
  assert (Et0 : etyp (fst m0) = t) by (apply AT; apply (In_first ms m0 ms' E)).
  assert (PS : par_sums_ok ms m0 new).
  { split; [apply (parallel_ty unchanged_tree t ms m0 ms' add common signed nm new); assumption |
            apply (parallel_tj_plain t ms m0 ms' add common signed nm new); assumption]. }
  assert (An : across a b (new, snd m0)) by (apply across_new; [apply AC; apply (In_first ms m0 ms' E) | exact En]).
  destruct (parallel_action_type t add common signed PA) as [NT| ->].
  - apply (parallel_norton_equiv t a b ms m0 new); try assumption. congruence.
  - apply (parallel_L_equiv a b ms m0 new); try assumption. congruence.
Qed.

(* the result does not depend on the order in which the set was enumerated:
   whatever member comes first, the rewritten group has the Thevenin / Norton
   data of the original group (repaired variant) *)
Lemma sums_perm (ms ms2 : list mem_t) : Permutation ms ms2 ->
  tzsum ms = tzsum ms2 /\ tesum ms = tesum ms2 /\ tysum ms = tysum ms2 /\ tjsum ms = tjsum ms2.
Proof. intros P. unfold tzsum, tesum, tysum, tjsum. repeat split; apply ksum_perm; apply Permutation_map; exact P. Qed.
Theorem perm_invariant t (ms ms2 : list mem_t) m0 ms' m0' ms2' add common signed nm nm2 (new new2 : elem) :
  Permutation ms ms2 -> ms = m0 :: ms' -> ms2 = m0' :: ms2' ->
  all_type t ms -> series_action t = Ok (ACombine add common signed) -> same_kwf ms m0 -> (add = false -> rsum ms <> f0) ->
  (common = true -> exists e0, check_ic keqb repaired e0 (els_of ms) (sames_of ms) = Ok true) ->
  (common = true -> exists e0, check_ic keqb repaired e0 (els_of ms2) (sames_of ms2) = Ok true) ->
  new_elem repaired (els_of ms) (sames_of ms) add common signed nm = Ok new ->
  new_elem repaired (els_of ms2) (sames_of ms2) add common signed nm2 = Ok new2 ->
  tz new = tz new2 /\ sgn (snd m0) (te new) = sgn (snd m0') (te new2).
Proof.
  intros P E E2 AT SA KW Hr CK CK2 H H2.
  assert (AT2 : all_type t ms2) by (intros m Hm; apply AT; apply (Permutation_in _ (Permutation_sym P)); exact Hm).
  assert (KW2 : same_kwf ms2 m0').
  { intros m Hm. rewrite (KW m (Permutation_in _ (Permutation_sym P) Hm)). symmetry. apply KW.
    apply (Permutation_in _ (Permutation_sym P)). rewrite E2. left. reflexivity. }
  assert (Hr2 : add = false -> rsum ms2 <> f0).
  { intros Ha. unfold rsum. rewrite <- (ksum_perm _ _ (Permutation_map (fun m => fdiv f1 (eval (fst m))) P)). apply Hr. exact Ha. }
  destruct (sums_perm ms ms2 P) as [S1 [S2 _]].
  rewrite (series_tz repaired t ms m0 ms' add common signed nm new E AT SA Hr H),
          (series_tz repaired t ms2 m0' ms2' add common signed nm2 new2 E2 AT2 SA Hr2 H2),
          (series_te_rep t ms m0 ms' add common signed nm new E AT SA KW CK H),
          (series_te_rep t ms2 m0' ms2' add common signed nm2 new2 E2 AT2 SA KW2 CK2 H2). split; assumption.
Qed.

(* ---- s-domain model and noise model as chain rewrites ----------------------- *)
Lemma tz_z_of (e : elem) : match etyp e with TR | TNR | TC | TL | TZ | TY => True | _ => False end -> tz e = z_of s e /\ te e = voc_of s e.
Proof. unfold tz, te, z_of, voc_of. destruct (etyp e); intros H; try contradiction; split; reflexivity. Qed.

(* [w2] is any chain with the same ends, e.g. the Z + V pair of RLC._s_model or
   the NR + wire pair of the killed noise model *)
Theorem chain_rewrite_equiv a (w w2 : list trip) IN IV IR :
  wwalk a w -> wwalk a w2 -> (forall x, In x w -> chain_el_ok (t_e x)) -> (forall x, In x w2 -> chain_el_ok (t_e x)) ->
  chain_wf (zn a) (tsteps w) -> chain_wf (zn a) (tsteps w2) -> lastn (zn a) (tsteps w) = lastn (zn a) (tsteps w2) ->
  Zt w = Zt w2 -> Et w = Et w2 ->
  (forall n, IN n = true <-> In n (interior (tsteps w) ++ interior (tsteps w2))) ->
  (forall o, IR o = true <-> In o (owns (tsteps w) ++ owns (tsteps w2))) ->
  (forall o, In o (owns (tsteps w) ++ owns (tsteps w2)) -> IV o = true) ->
  port_equiv IN IV IR (nsem (map t_e w)) (nsem (map t_e w2)).
Proof.
  intros W1 W2 O1 O2 F1 F2 EL EZ EE HIN HIR HIV.
  rewrite (nsem_chain w a W1 O1), (nsem_chain w2 a W2 O2).
  destruct (tsteps_sums w O1) as [_ [Z1 E1]]. destruct (tsteps_sums w2 O2) as [_ [Z2 E2]].
  assert (KD : forall l1 l2 : list (step K), (forall o, In o (owns l2) -> IV o = true) -> kept_dir IV l1 l2).
  { intros l1 l2 H st2 Hst Zb E0 o Eb Ho. exfalso. assert (In o (owns l2)).
    { clear -Hst Eb. induction l2 as [|s0 l2 IHl]; [destruct Hst|]. cbn [owns]. destruct Hst as [->|Hst].
      - rewrite Eb. left. reflexivity.
      - destruct (sbr s0); [apply IHl; exact Hst | right; apply IHl; exact Hst | apply IHl; exact Hst]. }
    rewrite (H o H0) in Ho. discriminate. }
  split.
  - apply chain_sim; try assumption; [congruence | congruence |]. apply KD. intros o Ho. apply HIV. apply in_or_app. right. exact Ho.
  - apply chain_sim; try assumption; [symmetry; assumption | congruence | congruence | | |].
    + intros n. rewrite HIN. split; intros H; apply in_app_or in H; apply in_or_app; destruct H; auto.
    + intros o. rewrite HIR. split; intros H; apply in_app_or in H; apply in_or_app; destruct H; auto.
    + apply KD. intros o Ho. apply HIV. apply in_or_app. left. exact Ho.
Qed.

Hypothesis kwf_S : kwf KwS = f1.
Lemma chain_wf_single a (x : trip) : chain_el_ok (t_e x) -> chain_wf (zn a) (tsteps [x]).
Proof. intros OK. unfold chain_wf. cbn [tsteps map interior].
  split; [constructor|]. split; [intros []|]. split; [intros []|]. split; [intros n []|].
  split; [apply (owns_NoDup [x]); cbn [map]; repeat constructor; intros []|].
  split; [intros o Ho; destruct (owns_tsteps [x] o Ho) as [z [_ [-> _]]]; apply zname_pos|].
  constructor; [apply (tstep_data x); exact OK | constructor]. Qed.
Lemma chain_wf_pair a (x y : trip) : chain_el_ok (t_e x) -> chain_el_ok (t_e y) ->
  t_nx x <> O -> t_nx x <> a -> t_nx x <> t_nx y -> ename (t_e x) <> ename (t_e y) -> chain_wf (zn a) (tsteps [x; y]).
Proof. intros OKx OKy H0 Ha Hy Hn. unfold chain_wf. cbn [tsteps map interior lastn]. unfold tstep at 1 2 3 4. cbn [snext].
  split; [repeat constructor; intros []|]. split; [intros [H|[]]; apply zn_inj in H; congruence|].
  split; [intros [H|[]]; apply zn_inj in H; congruence|]. split; [intros n [<-|[]]; apply zn_nonneg; exact H0|].
  split; [apply (owns_NoDup [x; y]); cbn [map]; repeat constructor; [intros [H|[]]; congruence | intros []]|].
  split; [intros o Ho; destruct (owns_tsteps [x; y] o Ho) as [z [_ [-> _]]]; apply zname_pos|].
  constructor; [apply (tstep_data x); exact OKx | constructor; [apply (tstep_data y); exact OKy | constructor]]. Qed.

(* RLC._s_model: an element with an initial-condition source (p, q) = impedance (p, d) + source (d, q) *)
Theorem s_model_equiv (sl : K) (e : elem) (p q d : nat) IN IV IR :
  match etyp e with TR | TNR | TC | TL | TZ | TY => True | _ => False end -> chain_el_ok e -> enodes e = [p; q] ->
  z_of s e <> f0 -> d <> O -> d <> p -> d <> q ->
  let w := [(e, true, q)] in
  let w2 := map (fun x => (x, true, en2 x)) (fst (s_model_elem keqb s sl KwS e d)) in
  (forall n, IN n = true <-> In n (interior (tsteps w) ++ interior (tsteps w2))) ->
  (forall o, IR o = true <-> In o (owns (tsteps w) ++ owns (tsteps w2))) ->
  (forall o, In o (owns (tsteps w) ++ owns (tsteps w2)) -> IV o = true) ->
  port_equiv IN IV IR [esem e] (nsem (fst (s_model_elem keqb s sl KwS e d))).
Proof.
  intros Ht OK En Hz Hd0 Hdp Hdq w w2 HIN HIR HIV.
  destruct (tz_z_of e Ht) as [TZe TEe].
  assert (Ew2 : map t_e w2 = fst (s_model_elem keqb s sl KwS e d)).
  { unfold w2. rewrite map_map. cbn [t_e fst]. apply map_id. }
  change [esem e] with (nsem (map t_e w)). rewrite <- Ew2. clear Ew2.
  assert (W1 : wwalk p w) by (cbn; split; [exact En | exact I]).
  assert (O1 : forall x, In x w -> chain_el_ok (t_e x)) by (intros x [<-|[]]; exact OK).
  assert (WF1 : chain_wf (zn p) (tsteps w)) by (apply chain_wf_single; exact OK).
  assert (Sel : fst (s_model_elem keqb s sl KwS e d) =
                if keqb (voc_of s e) f0 then [Elem (NVar 0 (orig_id (ename e))) TZ (enodes e) KwNone (z_of s e) None]
                else [Elem (NVar 0 (orig_id (ename e))) TZ [en1 e; d] KwNone (z_of s e) None;
                      Elem (NVar 1 (orig_id (ename e))) TV [d; en2 e] KwS (voc_of s e) None]).
  { unfold s_model_elem. destruct (etyp e); try contradiction; destruct (keqb (voc_of s e) f0); reflexivity. }
  assert (OKz : forall ns, chain_el_ok (Elem (NVar 0 (orig_id (ename e))) TZ ns KwNone (z_of s e) None)) by (intros ns; split; cbn; [exact Hz | exact I]).
  assert (OKv : forall ns, chain_el_ok (Elem (NVar 1 (orig_id (ename e))) TV ns KwS (voc_of s e) None)) by (intros ns; split; cbn; exact I).
  unfold w2 in *. rewrite Sel in *. unfold en1, en2 in *. rewrite En in *. cbn [nth] in *.
  destruct (keqb (voc_of s e) f0) eqn:Ev; cbn [map enodes nth] in HIN, HIR, HIV.
  - apply keqb_ok in Ev. apply (chain_rewrite_equiv p _ _ IN IV IR); cbn [map enodes nth]; try assumption.
    + cbn. split; [reflexivity | exact I].
    + intros x [<-|[]]. apply OKz.
    + apply chain_wf_single. apply OKz.
    + reflexivity.
    + unfold Zt, w. cbn [map ksum t_e fst]. rewrite TZe. unfold tz. cbn [etyp eval]. ring.
    + unfold Et, w. cbn [map ksum t_e t_fw fst snd]. rewrite TEe, Ev. unfold te. cbn [etyp sgn]. ring.
  - apply (chain_rewrite_equiv p _ _ IN IV IR); cbn [map enodes nth]; try assumption.
    + cbn. repeat split; reflexivity.
    + intros x [<-|[<-|[]]]; [apply OKz | apply OKv].
    + apply chain_wf_pair; cbn [t_e t_nx fst snd ename]; try assumption; try apply OKz; try apply OKv. discriminate.
    + reflexivity.
    + unfold Zt, w. cbn [map ksum t_e fst]. rewrite TZe. unfold tz. cbn [etyp eval]. ring.
    + unfold Et, w. cbn [map ksum t_e t_fw fst snd sgn]. rewrite TEe. unfold te. cbn [etyp eval ekw]. rewrite kwf_S. ring.
Qed.

(* the unchanged tree prints the inductor's source as a plain constant, which
   the netlist language reads as a DC source: its transform is kwf KwNone times
   the value, not the value *)
Theorem s_model_L_source_refuted (sl : K) (e : elem) (d : nat) :
  etyp e = TL -> voc_of s e <> f0 -> kwf KwNone <> f1 ->
  forall x, In x (fst (s_model_elem keqb s sl KwNone e d)) -> etyp x = TV -> te x <> te e.
Proof.
  intros Ht Hv Hk x Hx Hxt. unfold s_model_elem in Hx. rewrite Ht in Hx.
  assert (Ev : keqb (voc_of s e) f0 = false) by (destruct (keqb (voc_of s e) f0) eqn:E; [apply keqb_ok in E; contradiction | reflexivity]).
  rewrite Ev in Hx. cbn [fst In] in Hx. destruct Hx as [<-|[<-|[]]]; [discriminate|].
  unfold te at 1. cbn [etyp ekw eval]. unfold te. rewrite Ht. unfold voc_of in *. rewrite Ht in *.
  intros E. apply Hk. transitivity (fdiv (fmul (kwf KwNone) (fopp (fmul (eval e) (icv e)))) (fopp (fmul (eval e) (icv e)))); [field; exact Hv | rewrite E; field; exact Hv].
Qed.

(* the killed noise model: R (p, q) = NR (p, d) + wire (d, q) *)
Theorem noisy_killed_equiv (e : elem) (p q d k : nat) IN IV IR :
  etyp e = TR -> chain_el_ok e -> enodes e = [p; q] -> d <> O -> d <> p -> d <> q ->
  let w := [(e, true, q)] in
  let w2 := map (fun x => (x, true, en2 x)) (kill_noise (fst (noisy_elem e d)) k) in
  (forall n, IN n = true <-> In n (interior (tsteps w) ++ interior (tsteps w2))) ->
  (forall o, IR o = true <-> In o (owns (tsteps w) ++ owns (tsteps w2))) ->
  (forall o, In o (owns (tsteps w) ++ owns (tsteps w2)) -> IV o = true) ->
  port_equiv IN IV IR [esem e] (nsem (kill_noise (fst (noisy_elem e d)) k)).
Proof.
  intros Ht OK En Hd0 Hdp Hdq w w2 HIN HIR HIV.
  assert (Ew2 : map t_e w2 = kill_noise (fst (noisy_elem e d)) k).
  { unfold w2. rewrite map_map. cbn [t_e fst]. apply map_id. }
  change [esem e] with (nsem (map t_e w)). rewrite <- Ew2. clear Ew2.
  assert (W1 : wwalk p w) by (cbn; split; [exact En | exact I]).
  assert (O1 : forall x, In x w -> chain_el_ok (t_e x)) by (intros x [<-|[]]; exact OK).
  assert (WF1 : chain_wf (zn p) (tsteps w)) by (apply chain_wf_single; exact OK).
  unfold w2 in *. unfold noisy_elem in *. rewrite Ht in *. cbn [fst kill_noise is_noise_src etyp ekw ety_eqb ety_code skw_eqb skw_code Nat.eqb andb] in *.
  unfold en1, en2 in *. rewrite En in *. cbn [nth map enodes] in HIN, HIR, HIV.
  assert (Hv : eval e <> f0) by (destruct OK as [V _]; unfold valid in V; rewrite Ht in V; exact V).
  assert (OKn : chain_el_ok (Elem (NVar 2 (orig_id (ename e))) TNR [p; d] KwNone (eval e) None)) by (split; cbn; [exact Hv | exact I]).
  assert (OKw : chain_el_ok (Elem (NWire k) TW [d; q] KwNone (f0 : K) None)) by (split; cbn; exact I).
  apply (chain_rewrite_equiv p _ _ IN IV IR); cbn [nth map enodes]; try assumption.
  - cbn. repeat split; reflexivity.
  - intros x [<-|[<-|[]]]; assumption.
  - apply chain_wf_pair; cbn [t_e t_nx fst snd ename]; try assumption. discriminate.
  - reflexivity.
  - unfold Zt, w. cbn [map ksum t_e fst]. unfold tz. rewrite Ht. cbn [etyp eval]. ring.
  - unfold Et, w. cbn [map ksum t_e t_fw fst snd sgn]. unfold te. rewrite Ht. cbn [etyp]. ring.
Qed.

(* ---- dangling components ------------------------------------------------------ *)
(* a two-terminal element one of whose nodes (d, not the reference node) is
   touched by nothing else carries no current and can be removed *)
Theorem dangling_removal_sound (e : elem) (fw : bool) (p d : nat) IN IV IR :
  chain_el_ok e -> enodes e = (if fw then [p; d] else [d; p]) -> d <> O -> d <> p ->
  IN (zn d) = true -> IV (zname (ename e)) = true -> IR (zname (ename e)) = true ->
  port_equiv IN IV IR [esem e] [].
Proof.
  intros OK En Hd0 Hdp HIN HIV HIR.
  change [esem e] with (nsem (map t_e [(e, fw, d)])).
  assert (W : wwalk p [(e, fw, d)]) by (cbn; split; [exact En | exact I]).
  assert (OKs : forall x, In x [(e, fw, d)] -> chain_el_ok (t_e x)) by (intros x [<-|[]]; exact OK).
  rewrite (nsem_chain [(e, fw, d)] p W OKs).
  cbn [tsteps map chain_sems]. apply (dangling_equiv K (zn p) (zn d)).
  - reflexivity.
  - intros H. apply zn_inj in H. congruence.
  - apply zn_nonneg. exact Hd0.
  - exact HIN.
  - apply (tstep_data (e, fw, d)). exact OK.
  - unfold own_private, tstep. cbn [sbr]. destruct (br_or (t_e (e, fw, d))) eqn:Eb; try exact I.
    rewrite (br_or_own _ _ _ _ Eb). cbn [t_e fst]. repeat split; [apply zname_pos | exact HIV | exact HIR].
Qed.

(* ---- renumbering ------------------------------------------------------------- *)
(* a bijective node map that fixes the reference node is an isomorphism of the
   physical solutions (for netlists of two-terminal branch elements) *)
Definition two_node_branch (e : elem) : Prop := branch_of e <> None /\ length (enodes e) = 2%nat.
Lemma esem_two (e : elem) : two_node_branch e -> esem e = bsem (zn (en1 e)) (zn (en2 e)) (br_or e).
Proof. intros [Hb _]. unfold esem, br_or. destruct (branch_of e); [reflexivity | congruence]. Qed.
Lemma branch_rename (f : nat -> nat) (e : elem) :
  branch_of (Elem (ename e) (etyp e) (map f (enodes e)) (ekw e) (eval e) (eic e)) = branch_of e.
Proof. unfold branch_of, icv. cbn [etyp eval ename ekw eic]. reflexivity. Qed.
Theorem renumber_iso (f : nat -> nat) (g ginv : Z -> Z) (N : list elem) v ib :
  node_bij g ginv -> (forall n, g (zn n) = zn (f n)) -> Forall two_node_branch N ->
  (gphys (nsem (rename_nodes f N)) v ib <-> gphys (nsem N) (fun m => v (g m)) ib).
Proof.
  intros B Hg TB.
  set (tr := fun e : elem => (zn (en1 e), zn (en2 e), br_or e)).
  assert (E1 : nsem N = sems_plain (map tr N)).
  { unfold nsem, sems_plain. rewrite map_map. apply map_ext_in. intros e He. cbn [tr fst snd].
    apply esem_two. rewrite Forall_forall in TB. apply TB. exact He. }
  assert (E2 : nsem (rename_nodes f N) = sems_rename g (map tr N)).
  { unfold nsem, sems_rename, rename_nodes. rewrite !map_map. apply map_ext_in. intros e He. cbn [tr fst snd].
    rewrite Forall_forall in TB. destruct (TB e He) as [Hb Hl].
    unfold esem. rewrite branch_rename. unfold br_or. destruct (branch_of e) as [bch|]; [|congruence].
    unfold en1, en2. cbn [enodes]. destruct (enodes e) as [|n1 [|n2 [|? ?]]]; try discriminate. cbn [map nth]. rewrite !Hg. reflexivity. }
  rewrite E1, E2. apply (renumber_branches K g ginv). exact B.
Qed.

(* ---- whole netlists: the rest of the circuit ----------------------------------- *)
(* a component of the rest: a two-terminal branch element none of whose nodes is
   private and whose branch unknown is not private; any other component as
   long as its semantics does not read or touch the private nodes / unknowns *)
Definition rest_ok (IN IV IR : Z -> bool) (e : elem) : Prop :=
  match branch_of e with
  | Some _ => length (enodes e) = 2%nat /\ IN (zn (en1 e)) = false /\ IN (zn (en2 e)) = false /\
              IV (zname (ename e)) = false /\ IR (zname (ename e)) = false
  | None => ext_of IN IV IR (esem e)
  end.
Lemma vv_agree (S : Z -> bool) (v v' : Z -> K) n : agree S v v' -> S n = false -> vv v n = vv v' n.
Proof. intros A H. unfold vv. rewrite (A n H). reflexivity. Qed.
Lemma esem_ext IN IV IR (e : elem) : rest_ok IN IV IR e -> ext_of IN IV IR (esem e).
Proof.
  unfold rest_ok, esem. destruct (branch_of e) as [bch|] eqn:Eb; [|auto]. intros [_ [H1 [H2 [H3 H4]]]].
  assert (Ho : forall Zb E o, bch = BZ Zb E o -> o = zname (ename e)).
  { intros Zb E o ->. unfold branch_of in Eb. destruct (etyp e); inversion Eb; reflexivity. }
  split; [|split].
  - intros v v' ib ib' A1 A2 x. rewrite !bsem_fst, !bsem_snd. unfold cur, resid.
    rewrite (vv_agree IN v v' _ A1 H1), (vv_agree IN v v' _ A1 H2).
    destruct bch as [Y J|Zb E o|J]; [split; reflexivity | | split; reflexivity].
    rewrite (Ho _ _ _ eq_refl), (A2 _ H3). split; reflexivity.
  - intros v ib r Hr. rewrite bsem_fst. apply thru_out; intros ->; congruence.
  - intros v ib q Hq. rewrite bsem_snd. destruct bch as [Y J|Zb E o|J]; cbn [bown_of resid]; try ring.
    rewrite ind_ne; [ring|]. intros ->. rewrite (Ho _ _ _ eq_refl) in Hq. congruence.
Qed.

(* replacing a chain of the netlist by a port-equivalent chain preserves the
   solutions on every retained node and branch unknown, and the chain current *)
Theorem rewrite_preserves_phys Obs IN IV IR (F1 F2 R : list elem) :
  Forall (rest_ok IN IV IR) R -> port_sim_o Obs IN IV IR (nsem F1) (nsem F2) ->
  gsim_o Obs IN IV (nsem (F1 ++ R)) (nsem (F2 ++ R)).
Proof.
  intros HR S. unfold nsem. rewrite !map_app.
  apply (replace_preserves_phys_o K Obs IN IV IR [] (map esem R) (map esem F1) (map esem F2)); [constructor | | exact S].
  apply Forall_forall. intros x Hx. apply in_map_iff in Hx. destruct Hx as [e [<- He]]. apply esem_ext.
  rewrite Forall_forall in HR. apply HR. exact He.
Qed.

(* ================= what is FALSE of the unchanged tree (findings F3, F4) ========= *)
Lemma two_nz : fadd f1 f1 <> (f0 : K).
Proof. exact (fchar0 K 2%positive). Qed.
Lemma twice_nz (x : K) : x <> f0 -> fadd x x <> f0.
Proof. intros H E. apply (mul_nz K _ _ two_nz H). rewrite <- E. ring. Qed.

(* F3, DESIGN reproducer `V1 1 0 A; V2 1 2 B; R1 2 0 rho`: walking the loop from
   the reference node, V1 is traversed - to +, V2 + to -.  _do_simplify_combine
   (enumeration order V1, V2) puts a source A + B at V1's place.  The original
   loop and the rewritten loop are NOT related by the current-preserving
   simulation: the loop current (hence R1's voltage) changes. *)
Section F3.
Variables A B rho : K.
Hypothesis B_nz : fmul (kwf KwNone) B <> f0.
Hypothesis rho_nz : rho <> f0.
Definition f3_V1 : elem := Elem (NOrig 0) TV [1; 0]%nat KwNone A None.
Definition f3_V2 : elem := Elem (NOrig 1) TV [1; 2]%nat KwNone B None.
Definition f3_R1 : elem := Elem (NOrig 2) TR [2; 0]%nat KwNone rho None.
Definition f3_w : list trip := [(f3_V1, false, 1%nat); (f3_V2, true, 2%nat); (f3_R1, true, 0%nat)].
Definition f3_ms : list mem_t := [(f3_V1, false); (f3_V2, true)].
Definition f3_new : elem := Elem (NNew TV 1) TV [1; 0]%nat KwNone (fadd A (fadd B f0)) None.
Lemma f3_model : new_elem unchanged_tree (els_of f3_ms) (sames_of f3_ms) true false true (NNew TV 1) = Ok f3_new.
Proof. reflexivity. Qed.
Definition f3_w2 : list trip :=
  map (trep (rep (NOrig 0) (fun x => nmem x [NOrig 1]) f3_new (fun _ => NWire 0))) f3_w.
Lemma f3_w2_eq : f3_w2 = [(f3_new, false, 1%nat); (Elem (NWire 0) TW [1; 2]%nat KwNone f0 None, true, 2%nat); (f3_R1, true, 0%nat)].
Proof. reflexivity. Qed.
Lemma f3_ok x : In x f3_w \/ In x f3_w2 -> chain_el_ok (t_e x).
Proof. rewrite f3_w2_eq. unfold f3_w. cbn [In]. intros [[<-|[<-|[<-|[]]]]|[<-|[<-|[<-|[]]]]]; split; cbn; try exact I; exact rho_nz. Qed.
Lemma f3_wf (w : list trip) : w = f3_w \/ w = f3_w2 -> chain_wf (zn 0) (tsteps w) /\ lastn (zn 0) (tsteps w) = zn 0 /\ wwalk 0 w.
Proof.
  intros Hw. assert (OK : forall x, In x w -> chain_el_ok (t_e x)).
  { intros x Hx. apply f3_ok. destruct Hw as [->| ->]; [left | right]; exact Hx. }
  assert (Hn : NoDup (map (fun x => ename (t_e x)) w)).
  { destruct Hw as [->| ->]; [|rewrite f3_w2_eq]; cbn; repeat constructor; cbn; intros H; repeat (destruct H as [H|H]; try discriminate); exact H. }
  assert (Hnx : map t_nx w = [1; 2; 0]%nat) by (destruct Hw as [->| ->]; reflexivity).
  assert (Hsn : map snext (tsteps w) = [zn 1; zn 2; zn 0]).
  { unfold tsteps. rewrite map_map. change (fun x => snext (tstep x)) with (fun x => zn (t_nx x)). rewrite <- (map_map t_nx zn), Hnx. reflexivity. }
  split; [|split].
  - unfold chain_wf. destruct (tsteps w) as [|s1 [|s2 [|s3 [|s4 l]]]] eqn:Et; try discriminate. cbn [map] in Hsn. injection Hsn as H1 H2 H3.
    cbn [interior lastn]. rewrite H1, H2, H3.
    split; [repeat constructor; cbn; intros H; repeat (destruct H as [H|H]; try discriminate); exact H|].
    split; [cbn; intros H; repeat (destruct H as [H|H]; try discriminate); exact H|].
    split; [cbn; intros H; repeat (destruct H as [H|H]; try discriminate); exact H|].
    split; [intros n [<-|[<-|[]]]; cbn; lia|].
    rewrite <- Et. split; [apply owns_NoDup; exact Hn|].
    split; [intros o Ho; destruct (owns_tsteps w o Ho) as [z [_ [-> _]]]; apply zname_pos|].
    apply (tsteps_sums w OK).
  - destruct (tsteps w) as [|s1 [|s2 [|s3 [|s4 l]]]] eqn:Et; try discriminate. cbn [map] in Hsn. injection Hsn as H1 H2 H3. cbn [lastn]. exact H3.
  - destruct Hw as [->| ->]; cbn; repeat split; reflexivity.
Qed.
Theorem combine_series_refuted (IN IV IR : Z -> bool) :
  (forall n, In n (interior (tsteps f3_w) ++ interior (tsteps f3_w2)) -> IN n = true) ->
  (forall o, In o (owns (tsteps f3_w) ++ owns (tsteps f3_w2)) -> IR o = true) ->
  ~ port_sim_o (same_current (zn 0) (tsteps f3_w) (tsteps f3_w2)) IN IV IR (nsem (map t_e f3_w)) (nsem (map t_e f3_w2)).
Proof.
  intros HIN HIR S.
  destruct (f3_wf f3_w (or_introl eq_refl)) as [WF1 [L1 W1]]. destruct (f3_wf f3_w2 (or_intror eq_refl)) as [WF2 [L2 W2]].
  assert (O1 : forall x, In x f3_w -> chain_el_ok (t_e x)) by (intros x Hx; apply f3_ok; left; exact Hx).
  assert (O2 : forall x, In x f3_w2 -> chain_el_ok (t_e x)) by (intros x Hx; apply f3_ok; right; exact Hx).
  rewrite (nsem_chain f3_w 0 W1 O1), (nsem_chain f3_w2 0 W2 O2) in S.
  destruct (tsteps_sums f3_w O1) as [_ [Z1 E1]]. destruct (tsteps_sums f3_w2 O2) as [_ [Z2 E2]].
  assert (Zv : Zt f3_w = rho /\ Zt f3_w2 = rho) by (split; unfold Zt; cbn; ring).
  assert (Ev : Et f3_w = fadd (fopp (fmul (kwf KwNone) A)) (fmul (kwf KwNone) B) /\
               Et f3_w2 = fopp (fmul (kwf KwNone) (fadd A (fadd B f0)))) by (split; unfold Et; cbn; ring).
  assert (Hz : zsum (tsteps f3_w) <> f0) by (rewrite Z1, (proj1 Zv); exact rho_nz).
  destruct (loop_solvable K (zn 0) (tsteps f3_w) IN IR (fun _ => f0) (fun _ => f0) WF1 L1 Hz) as [v [ib I1]].
  pose proof (loop_esum_necessary K (zn 0) (tsteps f3_w) (tsteps f3_w2) IN IV IR WF1 WF2 L1 L2) as NEC.
  assert (E : esum (tsteps f3_w) = esum (tsteps f3_w2)).
  { apply NEC; try assumption; try discriminate.
    - rewrite Z1, Z2, (proj1 Zv), (proj2 Zv). reflexivity.
    - exists v, ib. exact I1. }
  rewrite E1, E2, (proj1 Ev), (proj2 Ev) in E.
  apply (twice_nz _ B_nz). transitivity (fsub (fadd (fopp (fmul (kwf KwNone) A)) (fmul (kwf KwNone) B)) (fopp (fmul (kwf KwNone) (fadd A (fadd B f0))))); [ring | rewrite E; ring].
Qed.
(* ... and the result depends on which member was enumerated first (hence on
   PYTHONHASHSEED): the two possible outputs have opposite source terms *)
Definition f3_new' : elem := Elem (NNew TV 1) TV [1; 2]%nat KwNone (fadd B (fadd A f0)) None.
Theorem perm_invariant_refuted :
  new_elem unchanged_tree (els_of [(f3_V2, true); (f3_V1, false)]) (sames_of [(f3_V2, true); (f3_V1, false)]) true false true (NNew TV 1) = Ok f3_new' /\
  (fmul (kwf KwNone) (fadd A B) <> f0 -> sgn false (te f3_new) <> sgn true (te f3_new')).
Proof. split; [reflexivity|]. intros H E. cbn in E. apply (twice_nz _ H).
  transitivity (fsub (fmul (kwf KwNone) (fadd B (fadd A f0))) (fopp (fmul (kwf KwNone) (fadd A (fadd B f0))))); [ring | rewrite E; ring]. Qed.
End F3.

(* F4, DESIGN reproducer `C1 2 0 c1 v0; C2 2 0 c2 v0`: the combined capacitor
   gets the initial voltage v0 + v0.  The group and the combined element are
   distinguishable at the node pair. *)
Section F4.
Variables c1 c2 v0 : K.
Hypothesis c_nz : fmul (fadd c1 (fadd c2 f0)) v0 <> f0.
Hypothesis c1_nz : c1 <> f0.
Hypothesis c2_nz : c2 <> f0.
Hypothesis ct_nz : fadd c1 (fadd c2 f0) <> f0.
Definition f4_C1 : elem := Elem (NOrig 0) TC [2; 0]%nat KwNone c1 (Some v0).
Definition f4_C2 : elem := Elem (NOrig 1) TC [2; 0]%nat KwNone c2 (Some v0).
Definition f4_ms : list mem_t := [(f4_C1, true); (f4_C2, true)].
Definition f4_new : elem := Elem (NNew TC 1) TC [2; 0]%nat KwNone (fadd c1 (fadd c2 f0)) (Some (fadd v0 (fadd v0 f0))).
Lemma f4_check : check_ic keqb unchanged_tree f4_C1 (els_of f4_ms) (sames_of f4_ms) = Ok true.
Proof. unfold check_ic. cbn. rewrite (proj2 (keqb_ok v0 v0) eq_refl). reflexivity. Qed.
Lemma f4_model : new_elem unchanged_tree (els_of f4_ms) (sames_of f4_ms) true true false (NNew TC 1) = Ok f4_new.
Proof. reflexivity. Qed.
Theorem combine_parallel_refuted (IN IV IR : Z -> bool) :
  IN (zn 2) = false -> IN (zn 0) = false -> ~ port_sim IN IV IR (nsem (els_of f4_ms)) [esem f4_new].
Proof.
  intros H2 H0 S.
  assert (AC : forall m, In m f4_ms -> across 2 0 m /\ branch_of (fst m) <> None).
  { intros m [<-|[<-|[]]]; split; try reflexivity; cbn; discriminate. }
  rewrite (nsem_psems 2 0 f4_ms AC) in S.
  change [esem f4_new] with (nsem (els_of [(f4_new, true)])) in S.
  rewrite (nsem_psems 2 0 [(f4_new, true)]) in S by (intros m [<-|[]]; split; [reflexivity | cbn; discriminate]).
  assert (E : Jsum (map pstep_of f4_ms) = Jsum (map pstep_of [(f4_new, true)])).
  { apply (par_norton_necessary K (zn 2) (zn 0) _ _ IN IV IR); try assumption; try (cbn; lia); try discriminate.
    - repeat constructor. - repeat constructor. }
  cbn in E. apply c_nz.
  transitivity (fsub (fadd (fmul (fadd c1 (fadd c2 f0)) (fadd v0 (fadd v0 f0))) f0) (fadd (fmul c1 v0) (fadd (fmul c2 v0) f0))); [ring | rewrite <- E; ring].
Qed.
End F4.

(* ---- the executable contract check yields the hypotheses of the series theorem ---- *)
Lemma walk_wwalk (l : list elem) : forall cur w, walk cur l = Some w -> wwalk cur w /\ map t_e w = l.
Proof.
  induction l as [|e l IH]; intros cur w H; cbn [walk] in H.
  - inversion H. split; [exact I | reflexivity].
  - destruct (negb (two_terminal_w e)) eqn:Et; [discriminate|]. apply negb_false_iff in Et.
    unfold two_terminal_w in Et. apply andb_true_iff in Et. destruct Et as [El _]. apply Nat.eqb_eq in El.
    assert (En : enodes e = [en1 e; en2 e]).
    { unfold en1, en2. destruct (enodes e) as [|a [|b [|c l']]]; try discriminate. reflexivity. }
    destruct (Nat.eqb (en1 e) cur) eqn:E1.
    + apply Nat.eqb_eq in E1. destruct (walk (en2 e) l) as [w'|] eqn:Ew; [|discriminate]. inversion H; subst w.
      destruct (IH _ _ Ew) as [W M]. split; [|cbn [map t_e fst]; rewrite M; reflexivity].
      cbn [wwalk t_e t_fw t_nx fst snd]. split; [rewrite En, E1; reflexivity | exact W].
    + destruct (Nat.eqb (en2 e) cur) eqn:E2; [|discriminate]. apply Nat.eqb_eq in E2.
      destruct (walk (en1 e) l) as [w'|] eqn:Ew; [|discriminate]. inversion H; subst w.
      destruct (IH _ _ Ew) as [W M]. split; [|cbn [map t_e fst]; rewrite M; reflexivity].
      cbn [wwalk t_e t_fw t_nx fst snd]. split; [rewrite En, E2; reflexivity | exact W].
Qed.
Lemma interior_inner (w : list trip) : interior (tsteps w) = map zn (inner_nodes w).
Proof. induction w as [|x w IH]; [reflexivity|]. destruct w as [|y w]; [reflexivity|].
  change (tsteps (x :: y :: w)) with (tstep x :: tsteps (y :: w)).
  change (interior (tstep x :: tsteps (y :: w))) with (snext (tstep x) :: interior (tsteps (y :: w))). rewrite IH. reflexivity. Qed.
Lemma natmem_In x l : natmem x l = true <-> In x l.
Proof. unfold natmem. rewrite existsb_exists. split; [intros [y [H E]]; apply Nat.eqb_eq in E; subst; exact H | intros H; exists x; split; [exact H | apply Nat.eqb_refl]]. Qed.
Lemma nodup_nat_NoDup l : nodup_nat l = true -> NoDup l.
Proof. induction l as [|x l IH]; intros H; [constructor|]. cbn [nodup_nat] in H. apply andb_true_iff in H. destruct H as [H1 H2].
  constructor; [|apply IH; exact H2]. intros Hi. apply natmem_In in Hi. rewrite Hi in H1. discriminate. Qed.
Lemma last_default (l : list nat) : forall b d d', last (b :: l) d = last (b :: l) d'.
Proof. induction l as [|c l IH]; intros b d d'; [reflexivity|]. change (last (b :: c :: l) d) with (last (c :: l) d).
  change (last (b :: c :: l) d') with (last (c :: l) d'). apply IH. Qed.
Lemma last_cons (l : list nat) a d : last (a :: l) d = last l a.
Proof. destruct l as [|b l]; [reflexivity|]. change (last (a :: b :: l) d) with (last (b :: l) d). apply last_default. Qed.
Lemma lastn_last_of (w : list trip) : forall start, lastn (zn start) (tsteps w) = zn (last_of start w).
Proof. unfold last_of. induction w as [|x w IH]; intros start; [reflexivity|].
  change (lastn (zn start) (tsteps (x :: w))) with (lastn (zn (t_nx x)) (tsteps w)). rewrite IH.
  cbn [map]. rewrite last_cons. reflexivity. Qed.
(* the node part of chain_wf follows from the boolean checks of series_raw *)
Theorem series_raw_nodes (w : list trip) (start : nat) :
  nodup_nat (inner_nodes w) = true -> natmem start (inner_nodes w) = false ->
  natmem (last_of start w) (inner_nodes w) = false -> natmem 0 (inner_nodes w) = false ->
  NoDup (interior (tsteps w)) /\ ~ In (zn start) (interior (tsteps w)) /\
  ~ In (lastn (zn start) (tsteps w)) (interior (tsteps w)) /\ (forall n, In n (interior (tsteps w)) -> 0 <= n).
Proof.
  intros H1 H2 H3 H4. rewrite interior_inner, lastn_last_of.
  assert (NI : forall x, natmem x (inner_nodes w) = false -> ~ In (zn x) (map zn (inner_nodes w))).
  { intros x Hx Hi. apply in_map_iff in Hi. destruct Hi as [y [E Hy]]. apply zn_inj in E. subst y.
    apply natmem_In in Hy. congruence. }
  split; [apply FinFun.Injective_map_NoDup; [intros x y; apply zn_inj | apply nodup_nat_NoDup; exact H1]|].
  split; [apply NI; exact H2|]. split; [apply NI; exact H3|].
  intros n Hn. apply in_map_iff in Hn. destruct Hn as [y [<- Hy]]. apply zn_nonneg. intros ->. apply natmem_In in Hy. congruence.
Qed.

(* ================= one series combination on a whole netlist ===================== *)
Lemma terminals_app (S1 S2 : list elem) n : terminals_raw (S1 ++ S2) n = (terminals_raw S1 n + terminals_raw S2 n)%nat.
Proof. unfold terminals_raw. induction S1 as [|a S1 IH]; [reflexivity|]. cbn [app fold_right]. rewrite IH. lia. Qed.
Lemma terminals_perm (S1 S2 : list elem) n : Permutation S1 S2 -> terminals_raw S1 n = terminals_raw S2 n.
Proof. unfold terminals_raw. induction 1; cbn [fold_right]; [reflexivity | rewrite IHPermutation; reflexivity | lia | congruence]. Qed.
Lemma count_pos (n : nat) (l : list nat) : In n l -> (1 <= length (filter (Nat.eqb n) l))%nat.
Proof. induction l as [|a l IH]; intros H; [destruct H|]. cbn [filter]. destruct H as [->|H].
  - rewrite Nat.eqb_refl. cbn [length]. lia.
  - destruct (Nat.eqb n a); cbn [length]; [lia | apply IH; exact H]. Qed.
Lemma terminals_zero (S0 : list elem) n : terminals_raw S0 n = 0%nat -> forall e, In e S0 -> ~ In n (enodes e).
Proof. unfold terminals_raw. induction S0 as [|a S0 IH]; intros H e He; [destruct He|]. cbn [fold_right] in H. destruct He as [->|He].
  - intros Hi. pose proof (count_pos n (enodes e) Hi). lia.
  - apply IH; [lia | exact He]. Qed.
Lemma wwalk_first_node (w : list trip) a x : wwalk a (x :: w) -> In a (enodes (t_e x)) /\ In (t_nx x) (enodes (t_e x)).
Proof. intros [H _]. rewrite H. destruct (t_fw x); cbn; auto. Qed.
Lemma terminals_inner (w : list trip) : forall a n, wwalk a w -> In n (inner_nodes w) -> (2 <= terminals_raw (map t_e w) n)%nat.
Proof.
  induction w as [|x w IH]; intros a n W Hn; [destruct Hn|]. destruct w as [|y w]; [destruct Hn|].
  change (inner_nodes (x :: y :: w)) with (t_nx x :: inner_nodes (y :: w)) in Hn. destruct W as [W1 W2].
  change (map t_e (x :: y :: w)) with ([t_e x] ++ map t_e (y :: w)). rewrite terminals_app. destruct Hn as [<-|Hn].
  - destruct (wwalk_first_node w (t_nx x) y W2) as [Hy _]. destruct (wwalk_first_node (y :: w) a x (conj W1 W2)) as [_ Hx].
    assert (1 <= terminals_raw [t_e x] (t_nx x))%nat by (unfold terminals_raw; cbn [fold_right]; pose proof (count_pos _ _ Hx); lia).
    assert (1 <= terminals_raw (map t_e (y :: w)) (t_nx x))%nat.
    { change (map t_e (y :: w)) with ([t_e y] ++ map t_e w). rewrite terminals_app. unfold terminals_raw at 1. cbn [fold_right]. pose proof (count_pos _ _ Hy). lia. }
    lia.
  - pose proof (IH (t_nx x) n W2 Hn). lia.
Qed.

(* the wires that replace the other members, numbered from k *)
Fixpoint idx (x : name) (l : list name) : nat := match l with [] => 0%nat | y :: l' => if name_eqb x y then 0%nat else S (idx x l') end.
Definition wn_of (k : nat) (l : list name) (x : name) : name := NWire (k + idx x l).
Lemma wires_map (l : list elem) : forall k, NoDup (map ename l) ->
  map (fun e => Elem (wn_of k (map ename l) (ename e)) TW (enodes e) KwNone (f0 : K) None) l = mk_wires k l.
Proof.
  induction l as [|e l IH]; intros k ND; [reflexivity|]. cbn [map mk_wires]. inversion ND as [|? ? Hn ND']; subst. f_equal.
  - unfold mk_wire, wn_of. cbn [idx]. rewrite (proj2 (name_eqb_eq _ _) eq_refl). rewrite Nat.add_0_r. reflexivity.
  - rewrite <- (IH (S k) ND'). apply map_ext_in. intros a Ha. f_equal. unfold wn_of. cbn [idx].
    destruct (name_eqb (ename a) (ename e)) eqn:E; [exfalso; apply name_eqb_eq in E; apply Hn; rewrite <- E; apply in_map; exact Ha|].
    f_equal. lia.
Qed.

Lemma Permutation_filter {A} (f : A -> bool) (l l' : list A) : Permutation l l' -> Permutation (filter f l) (filter f l').
Proof. induction 1; cbn [filter]; [constructor | destruct (f x); [constructor|]; assumption | destruct (f x), (f y); try constructor; apply Permutation_refl | eapply Permutation_trans; eassumption]. Qed.
Lemma gsim_o_perm (Obs : obs_t K) IN IV (N1 N1' N2 N2' : list (sem K)) :
  Permutation N1 N1' -> Permutation N2 N2' -> gsim_o Obs IN IV N1 N2 -> gsim_o Obs IN IV N1' N2'.
Proof. intros P1 P2 S0 v ib H. destruct (S0 v ib (gphys_perm K _ _ v ib (Permutation_sym P1) H)) as [v' [ib' [A1 [A2 [H' O]]]]].
  exists v', ib'. repeat split; try assumption; apply (gphys_perm K _ _ v' ib' P2 H'). Qed.
Lemma idx_inj (l : list name) x y : In x l -> In y l -> idx x l = idx y l -> x = y.
Proof. induction l as [|a l IH]; intros Hx Hy E; [destruct Hx|]. cbn [idx] in E.
  destruct (name_eqb x a) eqn:Ex; destruct (name_eqb y a) eqn:Ey; try discriminate.
  - apply name_eqb_eq in Ex, Ey. congruence.
  - injection E as E. destruct Hx as [Hx|Hx]; [subst; rewrite (proj2 (name_eqb_eq _ _) eq_refl) in Ex; discriminate|].
    destruct Hy as [Hy|Hy]; [subst; rewrite (proj2 (name_eqb_eq _ _) eq_refl) in Ey; discriminate|]. apply IH; assumption. Qed.
Lemma lookup_all_map (S0 : list elem) (l : list elem) : NoDup (names S0) -> (forall e, In e l -> In e S0) -> lookup_all S0 (map ename l) = Ok l.
Proof. intros ND. induction l as [|e l IH]; intros H; [reflexivity|]. cbn [map]. rewrite lookup_cons, (find_unique S0 e ND (H e (or_introl eq_refl))), IH; [reflexivity|].
  intros e' He'. apply H. right. exact He'. Qed.

Lemma rep_names_NoDup (S0 els : list elem) (first : name) (others : list name) (new : elem) (k : nat) :
  NoDup (map ename els) -> (forall e, In e els -> In (ename e) (names S0)) ->
  ~ In (ename new) (names S0) -> (forall j, ename new <> NWire j) -> (forall j, ~ In (NWire (k + j)) (names S0)) ->
  NoDup (map (fun e => ename (rep first (fun x => nmem x others) new (wn_of k others) e)) els).
Proof.
  intros NDe Hin Fn Fw Fk. induction els as [|a l IH]; [constructor|]. cbn [map] in *. inversion NDe as [|? ? Hna NDe']; subst. constructor.
  - intros Hi. apply in_map_iff in Hi. destruct Hi as [b [Eb Hb]].
    assert (Hab : ename a <> ename b) by (intros E'; apply Hna; rewrite E'; apply in_map; exact Hb).
    assert (HaS : In (ename a) (names S0)) by (apply Hin; left; reflexivity).
    assert (HbS : In (ename b) (names S0)) by (apply Hin; right; exact Hb).
    unfold rep in Eb.
    destruct (name_eqb (ename a) first) eqn:A0; destruct (name_eqb (ename b) first) eqn:B0.
    + apply name_eqb_eq in A0, B0. congruence.
    + destruct (nmem (ename b) others); cbn [ename] in Eb; [exact (Fw _ (eq_sym Eb)) | apply Fn; rewrite <- Eb; exact HbS].
    + destruct (nmem (ename a) others); cbn [ename] in Eb; [exact (Fw _ Eb) | apply Fn; rewrite Eb; exact HaS].
    + destruct (nmem (ename a) others) eqn:Ao; destruct (nmem (ename b) others) eqn:Bo; cbn [ename] in Eb.
      * unfold wn_of in Eb. injection Eb as Eb. apply Hab. apply (idx_inj others); [apply nmem_In; exact Ao | apply nmem_In; exact Bo | lia].
      * unfold wn_of in Eb. apply (Fk (idx (ename a) others)). rewrite <- Eb. exact HbS.
      * unfold wn_of in Eb. apply (Fk (idx (ename b) others)). rewrite Eb. exact HaS.
      * exact (Hab (eq_sym Eb)).
  - apply IH; [exact NDe' | intros e He; apply Hin; right; exact He].
Qed.

Theorem series_combine_sound (S0 : list elem) (path : list name) (start : nat) (els : list elem) (w : list trip)
    (ms : list mem_t) m0 ms' (new : elem) (k : nat) :
  NoDup (names S0) -> lookup_all S0 path = Ok els -> NoDup path -> walk start els = Some w ->
  nodup_nat (inner_nodes w) = true -> natmem start (inner_nodes w) = false ->
  natmem (last_of start w) (inner_nodes w) = false -> natmem 0 (inner_nodes w) = false ->
  (forall n, In n (inner_nodes w) -> terminals_raw S0 n = 2%nat) ->
  (forall x, In x w -> chain_el_ok (t_e x)) ->
  ms = m0 :: ms' -> NoDup (map (fun m => ename (fst m)) ms) ->
  Permutation (map (fun x => (t_e x, t_fw x)) (filter (fun x => nmem (ename (t_e x)) (map (fun m => ename (fst m)) ms)) w)) ms ->
  chain_el_ok new -> enodes new = enodes (fst m0) -> tz new = tzsum ms -> sgn (snd m0) (te new) = tesum ms ->
  ~ In (ename new) (names S0) -> (forall j, ename new <> NWire j) -> (forall j, ~ In (NWire (k + j)) (names S0)) ->
  let rest := filter (fun e => negb (nmem (ename e) path)) S0 in
  let wn := wn_of k (map (fun m => ename (fst m)) ms') in
  let r := rep (ename (fst m0)) (fun x => nmem x (map (fun m => ename (fst m)) ms')) new wn in
  let w2 := map (trep r) w in
  let IN := mem (map zn (inner_nodes w)) in
  let IR := mem (owns (tsteps w) ++ owns (tsteps w2)) in
  let IV := mem (map zname (map (fun m => ename (fst m)) ms ++ ename new :: map (fun m => wn (ename (fst m))) ms')) in
  (forall e, In e rest -> match branch_of e with Some _ => length (enodes e) = 2%nat | None => ext_of IN IV IR (esem e) end) ->
  gsim_o (same_current (zn start) (tsteps w) (tsteps w2)) IN IV
         (nsem S0) (nsem (filter (fun e => negb (nmem (ename e) (map (fun m => ename (fst m)) ms))) S0 ++ new :: mk_wires k (map fst ms'))).
Proof.
  intros ND Hl NDp Hw C1 C2 C3 C4 HT OK E NDm PERM OKn En Sz Se Fn Fw Fk rest wn r w2 IN IR IV HR.
  destruct (walk_wwalk els start w Hw) as [W M].
  destruct (lookup_all_spec S0 path els Hl) as [Np Hin].
  set (order := map (fun m : elem * bool => ename (fst m)) ms) in *.
  set (others := map (fun m : elem * bool => ename (fst m)) ms') in *.
  assert (Nw : map (fun x => ename (t_e x)) w = path) by (rewrite <- (map_map t_e ename), M; exact Np).
  assert (NDw : NoDup (map (fun x => ename (t_e x)) w)) by (rewrite Nw; exact NDp).
  assert (NDe : NoDup (names els)) by (unfold names; rewrite Np; exact NDp).
  (* members are chain elements *)
  assert (Hmem : forall m, In m ms -> exists x, In x w /\ t_e x = fst m /\ t_fw x = snd m).
  { intros m Hm. apply (Permutation_in _ (Permutation_sym PERM)) in Hm. apply in_map_iff in Hm. destruct Hm as [x [Hx Hf]].
    apply filter_In in Hf. exists x. split; [exact (proj1 Hf)|]. destruct m; inversion Hx; split; reflexivity. }
  assert (Hord_path : forall n, In n order -> In n path).
  { intros n Hn. unfold order in Hn. apply in_map_iff in Hn. destruct Hn as [m [<- Hm]]. destruct (Hmem m Hm) as [x [Hx [Ex _]]].
    rewrite <- Nw. apply in_map_iff. exists x. split; [rewrite Ex; reflexivity | exact Hx]. }
  assert (Hmem_els : forall m, In m ms -> In (fst m) els).
  { intros m Hm. destruct (Hmem m Hm) as [x [Hx [Ex _]]]. rewrite <- M, <- Ex. apply in_map. exact Hx. }
  (* node part of the contract *)
  destruct (series_raw_nodes w start C1 C2 C3 C4) as [G1 [G2 [G3 G4]]].
  destruct (tsteps_sums w OK) as [TH1 _].
  assert (WF : chain_wf (zn start) (tsteps w)).
  { unfold chain_wf. repeat split; try assumption; [apply owns_NoDup; exact NDw|].
    intros o Ho. destruct (owns_tsteps w o Ho) as [x [_ [-> _]]]. apply zname_pos. }
  (* facts about the replacement *)
  assert (Hm0 : In m0 ms) by (rewrite E; left; reflexivity).
  assert (Rfirst : r (fst m0) = new) by (unfold r, rep; rewrite (proj2 (name_eqb_eq _ _) eq_refl); reflexivity).
  assert (Rother : forall m, In m ms' -> r (fst m) = Elem (wn (ename (fst m))) TW (enodes (fst m)) KwNone f0 None).
  { intros m Hm. unfold r, rep. fold others. destruct (name_eqb (ename (fst m)) (ename (fst m0))) eqn:En0.
    - exfalso. apply name_eqb_eq in En0. pose proof NDm as NDm'. unfold order in NDm'. rewrite E in NDm'. cbn [map] in NDm'. apply NoDup_cons_iff in NDm'. destruct NDm' as [Hn _].
      apply Hn. rewrite <- En0. apply in_map_iff. exists m. split; [reflexivity | exact Hm].
    - assert (Ho : nmem (ename (fst m)) others = true) by (apply nmem_In; unfold others; apply in_map_iff; exists m; split; [reflexivity | exact Hm]).
      rewrite Ho. reflexivity. }
  assert (Rkeep : forall e, nmem (ename e) order = false -> r e = e).
  { intros e He. unfold r, rep. fold others. unfold order in He. rewrite E in He. cbn [map nmem existsb] in He. apply orb_false_iff in He. destruct He as [H1 H2].
    rewrite H1. change (existsb (name_eqb (ename e)) (map (fun m : elem * bool => ename (fst m)) ms')) with (nmem (ename e) others) in H2. rewrite H2. reflexivity. }
  (* names of the rewritten chain are distinct *)
  assert (ND2 : NoDup (map (fun x => ename (t_e x)) w2)).
  { unfold w2. rewrite map_map. unfold trep, t_e at 1. cbn [fst].
    change (fun x : trip => ename (r (fst (fst x)))) with (fun x : trip => ename (r (t_e x))).
    rewrite <- (map_map t_e (fun e => ename (r e))), M.
    apply (rep_names_NoDup S0); try assumption. intros e He. apply in_map. apply Hin. exact He. }
  (* frames *)
  assert (HIN : forall n, IN n = true <-> In n (interior (tsteps w))) by (intros n; unfold IN; rewrite mem_In, interior_inner; reflexivity).
  assert (HIR : forall o, IR o = true <-> In o (owns (tsteps w) ++ owns (tsteps w2))) by (intros o; unfold IR; apply mem_In).
  assert (HIV : forall o, IV o = true <-> In o (map zname (order ++ ename new :: map (fun m => wn (ename (fst m))) ms'))) by (intros o; unfold IV; apply mem_In).
  destruct (series_equiv_inplace start w ms m0 ms' new wn IN IV IR W OK WF E PERM NDm OKn En Sz Se ND2 HIN HIR HIV) as [W2 [WF2 [S12 _]]].
  (* the rest of the netlist *)
  assert (P0 : Permutation S0 (els ++ rest)) by (apply perm_split; assumption).
  assert (Hrest_nodes : forall e, In e rest -> forall n, In n (inner_nodes w) -> ~ In n (enodes e)).
  { intros e He n Hn. apply (terminals_zero rest n); [|exact He].
    pose proof (HT n Hn) as T2. rewrite (terminals_perm _ _ n P0), terminals_app in T2.
    pose proof (terminals_inner w start n W Hn) as T1. rewrite M in T1. lia. }
  assert (Hrest_name : forall e, In e rest -> ~ In (ename e) path /\ In (ename e) (names S0)).
  { intros e He. apply filter_In in He. destruct He as [He1 He2]. split; [apply nmem_false; apply negb_true_iff; exact He2 | apply in_map; exact He1]. }
  assert (Hchain_names : forall o, In o (owns (tsteps w) ++ owns (tsteps w2)) \/ In o (map zname (order ++ ename new :: map (fun m => wn (ename (fst m))) ms')) ->
            exists nm, o = zname nm /\ (In nm path \/ nm = ename new \/ exists j, nm = NWire (k + j))).
  { intros o [Ho|Ho].
    - apply in_app_or in Ho. destruct Ho as [Ho|Ho].
      + destruct (owns_tsteps w o Ho) as [x [Hx [-> _]]]. eexists. split; [reflexivity|]. left. rewrite <- Nw. apply in_map_iff. exists x. split; [reflexivity | exact Hx].
      + destruct (owns_tsteps w2 o Ho) as [x [Hx [-> _]]]. eexists. split; [reflexivity|].
        unfold w2 in Hx. apply in_map_iff in Hx. destruct Hx as [y [<- Hy]]. unfold trep, t_e at 1 2 3. cbn [fst]. change (fst (fst y)) with (t_e y).
        unfold r, rep. fold others. destruct (name_eqb (ename (t_e y)) (ename (fst m0))); [right; left; reflexivity|].
        destruct (nmem (ename (t_e y)) others); cbn [ename]; [right; right; eexists; reflexivity|].
        left. rewrite <- Nw. apply in_map_iff. exists y. split; [reflexivity | exact Hy].
    - apply in_map_iff in Ho. destruct Ho as [nm [<- Hnm]]. exists nm. split; [reflexivity|].
      apply in_app_or in Hnm. destruct Hnm as [Hnm|[<-|Hnm]]; [left; apply Hord_path; exact Hnm | right; left; reflexivity|].
      apply in_map_iff in Hnm. destruct Hnm as [m [<- _]]. right. right. eexists. reflexivity. }
  assert (RO : Forall (rest_ok IN IV IR) rest).
  { apply Forall_forall. intros e He. specialize (HR e He). unfold rest_ok. destruct (branch_of e) as [bch|] eqn:Eb; [|exact HR].
    destruct (Hrest_name e He) as [Hnp HnS].
    assert (Hfresh : forall o, In o (owns (tsteps w) ++ owns (tsteps w2)) \/ In o (map zname (order ++ ename new :: map (fun m => wn (ename (fst m))) ms')) -> o <> zname (ename e)).
    { intros o Ho Eo. destruct (Hchain_names o Ho) as [nm [-> [H1|[H1|[j H1]]]]]; apply zname_inj in Eo; subst nm.
      - exact (Hnp H1). - apply Fn. rewrite <- H1. exact HnS. - apply (Fk j). rewrite <- H1. exact HnS. }
    assert (Hnode : forall n, In n (enodes e) -> IN (zn n) = false).
    { intros n Hn. unfold IN. apply mem_false. intros Hi. apply in_map_iff in Hi. destruct Hi as [n' [En' Hn']]. apply zn_inj in En'. subst n'.
      exact (Hrest_nodes e He n Hn' Hn). }
    assert (En12 : In (en1 e) (enodes e) /\ In (en2 e) (enodes e)).
    { unfold en1, en2. destruct (enodes e) as [|a [|b [|c l']]]; try discriminate. cbn. auto. }
    split; [exact HR|]. split; [apply Hnode; apply En12|]. split; [apply Hnode; apply En12|].
    split; [unfold IV | unfold IR]; apply mem_false; intros Hi; [apply (Hfresh _ (or_intror Hi)) | apply (Hfresh _ (or_introl Hi))]; reflexivity. }
  pose proof (rewrite_preserves_phys (same_current (zn start) (tsteps w) (tsteps w2)) IN IV IR (map t_e w) (map t_e w2) rest RO S12) as G.
  (* back to the netlists *)
  assert (Ew2 : map t_e w2 = map r els).
  { unfold w2. rewrite map_map. unfold trep, t_e at 1. cbn [fst]. change (fun x : trip => r (fst (fst x))) with (fun x : trip => r (t_e x)).
    rewrite <- (map_map t_e r), M. reflexivity. }
  rewrite M, Ew2 in G.
  assert (Lo : lookup_all els order = Ok (map fst ms)).
  { unfold order. rewrite <- (map_map fst ename). apply lookup_all_map; [exact NDe|]. intros e He. apply in_map_iff in He. destruct He as [m [<- Hm]]. apply Hmem_els. exact Hm. }
  assert (Pe : Permutation els (map fst ms ++ filter (fun e => negb (nmem (ename e) order)) els)) by (apply perm_split; assumption).
  assert (Pr : Permutation (map r els) (filter (fun e => negb (nmem (ename e) order)) els ++ new :: mk_wires k (map fst ms'))).
  { apply Permutation_trans with (map r (map fst ms ++ filter (fun e => negb (nmem (ename e) order)) els)); [apply Permutation_map; exact Pe|].
    rewrite map_app. apply Permutation_trans with ((new :: mk_wires k (map fst ms')) ++ filter (fun e => negb (nmem (ename e) order)) els); [|apply Permutation_app_comm].
    apply Permutation_app.
    - rewrite E. cbn [map]. rewrite Rfirst. constructor.
      assert (NDo : NoDup (map ename (map fst ms'))).
      { rewrite map_map. pose proof NDm as NDm'. unfold order in NDm'. rewrite E in NDm'. cbn [map] in NDm'. apply NoDup_cons_iff in NDm'. exact (proj2 NDm'). }
      rewrite <- (wires_map (map fst ms') k NDo). rewrite !map_map. cbn [fst]. apply Permutation_refl'.
      apply map_ext_in. intros m Hm. rewrite (Rother m Hm). unfold wn, others. reflexivity.
    - apply Permutation_refl'. transitivity (map (fun e : elem => e) (filter (fun e => negb (nmem (ename e) order)) els)); [|apply map_id].
      apply map_ext_in. intros e He. apply filter_In in He. apply Rkeep. apply negb_true_iff. exact (proj2 He). }
  assert (Pout : Permutation (filter (fun e => negb (nmem (ename e) order)) S0 ++ new :: mk_wires k (map fst ms')) (map r els ++ rest)).
  { assert (Pf : Permutation (filter (fun e => negb (nmem (ename e) order)) S0) (filter (fun e => negb (nmem (ename e) order)) els ++ rest)).
    { apply Permutation_trans with (filter (fun e => negb (nmem (ename e) order)) (els ++ rest)); [apply Permutation_filter; exact P0|].
      rewrite filter_app. apply Permutation_app_head. apply Permutation_refl'. apply filter_all.
      intros e He. apply negb_true_iff. apply nmem_false. intros Hi. exact (proj1 (Hrest_name e He) (Hord_path _ Hi)). }
    apply Permutation_trans with ((filter (fun e => negb (nmem (ename e) order)) els ++ rest) ++ new :: mk_wires k (map fst ms')); [apply Permutation_app_tail; exact Pf|].
    apply Permutation_trans with ((filter (fun e => negb (nmem (ename e) order)) els ++ new :: mk_wires k (map fst ms')) ++ rest).
    - rewrite <- !app_assoc. apply Permutation_app_head. apply Permutation_app_comm.
    - apply Permutation_app_tail. apply Permutation_sym. exact Pr. }
  unfold nsem in *. eapply gsim_o_perm; [| |exact G].
  - apply Permutation_map. apply Permutation_sym. exact P0.
  - apply Permutation_map. apply Permutation_sym. exact Pout.
Qed.

(* what do_combine does to the netlist *)
Lemma do_combine_shape vr (S0 : list elem) used (order : list name) sames add series common signed st' :
  do_combine vr S0 (CState S0 used false) order sames add series common signed = Ok st' ->
  exists els new, lookup_all S0 order = Ok els /\
    new_elem vr els sames add common signed (fresh_name (match els with e :: _ => etyp e | [] => TX end) (names S0 ++ used)) = Ok new /\
    c_net st' = filter (fun e => negb (nmem (ename e) order)) S0 ++ new :: (if series then mk_wires (count_wires S0) (tl els) else []).
Proof.
  unfold do_combine. destruct (lookup_all S0 order) as [els|]; [|discriminate].
  destruct (new_elem vr els sames add common signed _) as [new|] eqn:En; [|discriminate]. cbn [c_net].
  destruct (negb (forallb (fun x => nmem x (names S0)) order)); [discriminate|]. intros H. inversion H; subst. cbn [c_net].
  exists els, new. repeat split; assumption.
Qed.

Lemma port_sim_to_o IN IV IR (F1 F2 : list (sem K)) : port_sim IN IV IR F1 F2 -> port_sim_o (fun _ _ _ _ => True) IN IV IR F1 F2.
Proof. intros H v ib I0. destruct (H v ib I0) as [v' [ib' [A1 [A2 [A3 [A4 A5]]]]]]. exists v', ib'. repeat split; try assumption; apply A3. Qed.

(* one parallel combination on a whole netlist *)
Theorem parallel_combine_sound (S0 : list elem) (a b : nat) (ms : list mem_t) m0 (new : elem) t :
  NoDup (names S0) -> (forall m, In m ms -> In (fst m) S0) -> NoDup (map (fun m => ename (fst m)) ms) ->
  (norton_type t \/ t = TL) -> all_type t ms -> (forall m, In m ms -> across a b m) ->
  etyp new = t -> valid new -> across a b (new, snd m0) -> par_sums_ok ms m0 new ->
  ~ In (ename new) (names S0) ->
  let order := map (fun m => ename (fst m)) ms in
  let rest := filter (fun e => negb (nmem (ename e) order)) S0 in
  let IN := fun _ : Z => false in
  let IR := mem (map (fun m => zname (ename (fst m))) ms ++ [zname (ename new)]) in
  (forall e, In e rest -> match branch_of e with Some _ => length (enodes e) = 2%nat | None => ext_of IN IR IR (esem e) end) ->
  gsim IN IR (nsem S0) (nsem (rest ++ [new])) /\ gsim IN IR (nsem (rest ++ [new])) (nsem S0).
Proof.
  intros ND Hin NDm NT AT AC Et Vn An PS Fn order rest IN IR HR.
  assert (Lo : lookup_all S0 order = Ok (map fst ms)).
  { unfold order. rewrite <- (map_map fst ename). apply lookup_all_map; [exact ND|]. intros e He. apply in_map_iff in He. destruct He as [m [<- Hm]]. apply Hin. exact Hm. }
  assert (P0 : Permutation S0 (map fst ms ++ rest)) by (apply perm_split; assumption).
  assert (HIR : forall o, IR o = true <-> In o (map (fun m => zname (ename (fst m))) ms ++ [zname (ename new)])) by (intros o; unfold IR; apply mem_In).
  assert (PE : port_equiv IN IR IR (nsem (map fst ms)) [esem new]).
  { destruct NT as [NT| ->].
    - apply (parallel_norton_equiv t a b ms m0 new); assumption.
    - apply (parallel_L_equiv a b ms m0 new); try assumption. intros o Ho. apply HIR. exact Ho. }
  assert (RO : Forall (rest_ok IN IR IR) rest).
  { apply Forall_forall. intros e He. specialize (HR e He). unfold rest_ok. destruct (branch_of e) as [bch|] eqn:Eb; [|exact HR].
    assert (Hn : IR (zname (ename e)) = false).
    { unfold IR. apply mem_false. intros Hi. apply in_app_or in Hi. apply filter_In in He. destruct He as [He1 He2].
      destruct Hi as [Hi|[Hi|[]]].
      - apply in_map_iff in Hi. destruct Hi as [m [Em Hm]]. apply zname_inj in Em. apply negb_true_iff in He2. apply nmem_false in He2.
        apply He2. unfold order. rewrite <- Em. apply in_map_iff. exists m. split; [reflexivity | exact Hm].
      - apply zname_inj in Hi. apply Fn. rewrite Hi. apply in_map. exact He1. }
    repeat split; try reflexivity; assumption. }
  destruct PE as [S12 S21].
  assert (G1 : gsim_o (fun _ _ _ _ => True) IN IR (nsem (map fst ms ++ rest)) (nsem ([new] ++ rest))).
  { apply (rewrite_preserves_phys _ IN IR IR); [exact RO | apply port_sim_to_o; exact S12]. }
  assert (G2 : gsim_o (fun _ _ _ _ => True) IN IR (nsem ([new] ++ rest)) (nsem (map fst ms ++ rest))).
  { apply (rewrite_preserves_phys _ IN IR IR); [exact RO | apply port_sim_to_o; exact S21]. }
  assert (Pn : Permutation (rest ++ [new]) ([new] ++ rest)) by apply Permutation_app_comm.
  unfold nsem in *. split.
  - intros v ib H. destruct (gsim_o_perm _ IN IR _ _ _ _ (Permutation_map esem (Permutation_sym P0)) (Permutation_map esem (Permutation_sym Pn)) G1 v ib H) as [v' [ib' [A1 [A2 [A3 _]]]]].
    exists v', ib'. auto.
  - intros v ib H. destruct (gsim_o_perm _ IN IR _ _ _ _ (Permutation_map esem (Permutation_sym Pn)) (Permutation_map esem (Permutation_sym P0)) G2 v ib H) as [v' [ib' [A1 [A2 [A3 _]]]]].
    exists v', ib'. auto.
Qed.

(* ================= the orientation rule ========================================= *)
(* THE RULE a series / parallel combination has to satisfy (whatever code computes
   the combined element [new] that takes the first member's place):
     series  : impedance of new = sum of the members' impedances, and the source
               term of new, signed by the first member's direction along the chain,
               = sum of the members' source terms, each signed by its own direction;
     parallel: the same with admittances and source currents (par_sums_ok).
   Sufficient: series_equiv_inplace / series_combine_sound, parallel_norton_equiv /
   parallel_L_equiv / parallel_combine_sound.  Necessary: loop_esum_necessary,
   par_norton_necessary. *)
Definition series_rule (ms : list mem_t) (m0 : mem_t) (new : elem) : Prop :=
  tz new = tzsum ms /\ sgn (snd m0) (te new) = tesum ms.
Definition parallel_rule (ms : list mem_t) (m0 : mem_t) (new : elem) : Prop := par_sums_ok ms m0 new.

(* the orientation-aware _do_simplify_combine satisfies the rule for every type,
   orientation pattern, initial-condition pattern and enumeration order *)
Theorem series_rule_repaired t (ms : list mem_t) m0 ms' add common signed nm new :
  ms = m0 :: ms' -> all_type t ms -> series_action t = Ok (ACombine add common signed) -> same_kwf ms m0 ->
  (add = false -> rsum ms <> f0) ->
  (common = true -> exists e0, check_ic keqb repaired e0 (els_of ms) (sames_of ms) = Ok true) ->
  new_elem repaired (els_of ms) (sames_of ms) add common signed nm = Ok new -> series_rule ms m0 new.
Proof. intros E AT SA KW Hr CK H. split;
  [apply (series_tz repaired t ms m0 ms' add common signed nm new) | apply (series_te_rep t ms m0 ms' add common signed nm new)]; assumption. Qed.
Theorem parallel_rule_repaired t (ms : list mem_t) m0 ms' add common signed nm new :
  ms = m0 :: ms' -> all_type t ms -> parallel_action t = Ok (ACombine add common signed) -> same_kwf ms m0 ->
  (add = false -> rsum ms <> f0) ->
  (common = true -> exists e0, check_ic keqb repaired e0 (els_of ms) (sames_of ms) = Ok true) ->
  new_elem repaired (els_of ms) (sames_of ms) add common signed nm = Ok new -> parallel_rule ms m0 new.
Proof. intros E AT SA KW Hr CK H. split;
  [apply (parallel_ty repaired t ms m0 ms' add common signed nm new) | apply (parallel_tj_rep t ms m0 ms' add common signed nm new)]; assumption. Qed.
(* the unchanged tree satisfies it exactly under plain_ok_series / plain_ok_parallel ... *)
Theorem series_rule_unchanged t (ms : list mem_t) m0 ms' add common signed nm new :
  ms = m0 :: ms' -> all_type t ms -> series_action t = Ok (ACombine add common signed) -> same_kwf ms m0 ->
  (add = false -> rsum ms <> f0) -> plain_ok_series t ms m0 ->
  new_elem unchanged_tree (els_of ms) (sames_of ms) add common signed nm = Ok new -> series_rule ms m0 new.
Proof. intros E AT SA KW Hr PO H. split;
  [apply (series_tz unchanged_tree t ms m0 ms' add common signed nm new) | apply (series_te_plain t ms m0 ms' add common signed nm new)]; assumption. Qed.
Theorem parallel_rule_unchanged t (ms : list mem_t) m0 ms' add common signed nm new :
  ms = m0 :: ms' -> all_type t ms -> parallel_action t = Ok (ACombine add common signed) -> same_kwf ms m0 ->
  (add = false -> rsum ms <> f0) -> plain_ok_parallel t ms m0 ->
  new_elem unchanged_tree (els_of ms) (sames_of ms) add common signed nm = Ok new -> parallel_rule ms m0 new.
Proof. intros E AT SA KW Hr PO H. split;
  [apply (parallel_ty unchanged_tree t ms m0 ms' add common signed nm new) | apply (parallel_tj_plain t ms m0 ms' add common signed nm new)]; assumption. Qed.
(* ... and violates it otherwise: two opposite voltage sources in series (F3),
   two opposite current sources in parallel *)
Theorem series_rule_violated (A B : K) : fmul (kwf KwNone) B <> f0 ->
  ~ series_rule (f3_ms A B) (f3_V1 A, false) (f3_new A B).
Proof. intros HB [_ H]. unfold tesum, f3_ms, f3_new, f3_V1, f3_V2 in H. cbn in H. apply (twice_nz _ HB).
  transitivity (fsub (fadd (fopp (fmul (kwf KwNone) A)) (fadd (fmul (kwf KwNone) B) f0)) (fopp (fmul (kwf KwNone) (fadd A (fadd B f0))))); [ring | rewrite <- H; ring]. Qed.
Theorem parallel_rule_violated (A B : K) : fmul (kwf KwNone) B <> f0 ->
  let I1 := Elem (NOrig 0) TI [1; 0]%nat KwNone A None in
  let I2 := Elem (NOrig 1) TI [0; 1]%nat KwNone B None in
  exists new, new_elem unchanged_tree [I1; I2] [true; false] true false true (NNew TI 1) = Ok new /\
              ~ parallel_rule [(I1, true); (I2, false)] (I1, true) new.
Proof. intros HB I1 I2. eexists. split; [reflexivity|]. intros [_ H]. unfold tjsum in H. cbn in H. apply (twice_nz _ HB).
  transitivity (fsub (fmul (kwf KwNone) (fadd A (fadd B f0))) (fadd (fmul (kwf KwNone) A) (fadd (fopp (fmul (kwf KwNone) B)) f0))); [ring | rewrite H; ring]. Qed.
End Sem.

Arguments zn : clear implicits. Arguments branch_of {K}. Arguments esem {K}. Arguments nsem {K}. Arguments valid {K}.
Arguments tz {K}. Arguments te {K}. Arguments ty {K}. Arguments tj {K}. Arguments series_type : clear implicits.
Arguments all_type {K}. Arguments same_kwf {K}. Arguments tzsum {K}. Arguments tesum {K}. Arguments tysum {K}. Arguments tjsum {K}.
Arguments rsum {K}. Arguments vsum {K}. Arguments sames_of {K}. Arguments plain_ok_series {K}. Arguments plain_ok_parallel {K}.
Arguments across {K}. Arguments par_sums_ok {K}. Arguments norton_type : clear implicits.
Arguments trip K : clear implicits. Arguments t_e {K}. Arguments t_fw {K}. Arguments t_nx {K}. Arguments tstep {K}. Arguments tsteps {K}.
Arguments wwalk {K}. Arguments chain_el_ok {K}. Arguments rep {K}. Arguments trep {K}. Arguments mem_t K : clear implicits.
Arguments br_or {K}. Arguments pstep_of {K}.
Print Assumptions series_equiv_inplace.
Print Assumptions parallel_norton_equiv.
Print Assumptions parallel_L_equiv.
Print Assumptions combine_series_equiv.
Print Assumptions combine_series_equiv_unchanged.
Print Assumptions combine_parallel_equiv.
Print Assumptions combine_parallel_equiv_unchanged.
Print Assumptions perm_invariant.
Print Assumptions chain_rewrite_equiv.
Print Assumptions s_model_equiv.
Print Assumptions noisy_killed_equiv.
Print Assumptions s_model_L_source_refuted.
Print Assumptions dangling_removal_sound.
Print Assumptions renumber_iso.
Arguments rest_ok {K}.
Print Assumptions rewrite_preserves_phys.
Print Assumptions combine_series_refuted.
Print Assumptions perm_invariant_refuted.
Print Assumptions combine_parallel_refuted.
Print Assumptions walk_wwalk.
Print Assumptions series_raw_nodes.
Print Assumptions series_combine_sound.
Print Assumptions do_combine_shape.
Print Assumptions parallel_combine_sound.
Print Assumptions series_rule_repaired.
Print Assumptions parallel_rule_repaired.
Print Assumptions series_rule_unchanged.
Print Assumptions parallel_rule_unchanged.
Print Assumptions series_rule_violated.
Print Assumptions parallel_rule_violated.
