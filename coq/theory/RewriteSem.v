(* C05: physical semantics of the component-list model (every element becomes a
   branch of RewriteBranch.v, i.e. drawn_RC / drawn_L / drawn_V / drawn_I of
   Circuit.v, in the Laplace domain at an arbitrary point s <> 0) and the
   algebra that ties the value / initial-condition arithmetic of
   _do_simplify_combine to the Thevenin (series) and Norton (parallel) sums of
   the group it replaces. *)
Require Import LT.FieldSec LT.Circuit LT.RewriteEquiv LT.RewriteBranch LT.RewriteModel.
From Coq Require Import Permutation.
Local Open Scope Z_scope.

Section Sem.
Variable K : fld.
Add Field KFrs : (fth K).
Variable keqb : K -> K -> bool.
Hypothesis keqb_ok : forall x y, keqb x y = true <-> x = y.
Variable s : K.
Hypothesis s_nz : s <> f0.
(* transform at s of a unit source with the given keyword (dc / step: 1/s, ...) *)
Variable kwf : skw -> K.
(* semantics of the components the rewrites never touch *)
Variable xsem : elem K -> sem K.
(* branch-unknown index of a component: any injective coding of names *)
Variable zname : name -> Z.
Hypothesis zname_inj : forall a b, zname a = zname b -> a = b.
Hypothesis zname_pos : forall a, 0 <= zname a.

Notation elem := (elem K).
(* node 0 is the reference node *)
Definition zn (n : nat) : Z := match n with O => -1 | _ => Z.of_nat n end.
Lemma zn_inj a b : zn a = zn b -> a = b.
Proof. destruct a, b; cbn; intros H; try reflexivity; try lia. Qed.
Lemma zn_nonneg n : n <> O -> 0 <= zn n.
Proof. destruct n; [congruence | cbn; lia]. Qed.

Definition branch_of (e : elem) : option (branch K) :=
  match etyp e with
  | TR | TNR | TZ => Some (BY (fdiv f1 (eval e)) f0)
  | TY => Some (BY (eval e) f0)
  | TC => Some (BY (fmul s (eval e)) (fmul (eval e) (icv e)))
  | TL => Some (BZ (fmul s (eval e)) (fopp (fmul (eval e) (icv e))) (zname (ename e)))
  | TV => Some (BZ f0 (fmul (kwf (ekw e)) (eval e)) (zname (ename e)))
  | TI => Some (BI (fmul (kwf (ekw e)) (eval e)))
  | TW => Some (BZ f0 f0 (zname (ename e)))
  | TO | TX => None
  end.
Definition esem (e : elem) : sem K :=
  match branch_of e with
  | Some b => bsem (zn (en1 e)) (zn (en2 e)) b
  | None => match etyp e with TO => (fun _ _ _ => f0, fun _ _ _ => f0) | _ => xsem e end
  end.
Definition nsem (N : list elem) : list (sem K) := map esem N.

(* values that the formulas divide by *)
Definition valid (e : elem) : Prop :=
  match etyp e with TR | TNR | TZ | TY | TC | TL => eval e <> f0 | _ => True end.

(* Thevenin data of an element: impedance and source term (+ to -) *)
Definition tz (e : elem) : K :=
  match etyp e with
  | TR | TNR | TZ => eval e
  | TY => fdiv f1 (eval e)
  | TC => fdiv f1 (fmul s (eval e))
  | TL => fmul s (eval e)
  | _ => f0 end.
Definition te (e : elem) : K :=
  match etyp e with
  | TC => fdiv (icv e) s
  | TL => fopp (fmul (eval e) (icv e))
  | TV => fmul (kwf (ekw e)) (eval e)
  | _ => f0 end.
(* Norton data: admittance and source current (injected into +) *)
Definition ty (e : elem) : K :=
  match etyp e with
  | TR | TNR | TZ => fdiv f1 (eval e)
  | TY => eval e
  | TC => fmul s (eval e)
  | TL => fdiv f1 (fmul s (eval e))
  | _ => f0 end.
Definition tj (e : elem) : K :=
  match etyp e with
  | TC => fmul (eval e) (icv e)
  | TL => fopp (fdiv (icv e) s)
  | TI => fmul (kwf (ekw e)) (eval e)
  | _ => f0 end.

Definition series_type (t : ety) : Prop := match t with TR | TNR | TZ | TY | TC | TL | TV | TW => True | _ => False end.
Ltac fsd := field; repeat split; first [assumption | apply one_nz].
Lemma step_data (e : elem) (fw : bool) (nx : Z) (b : branch K) :
  branch_of e = Some b -> valid e -> etyp e <> TI ->
  thev (Step fw b nx) /\ sz (Step fw b nx) = tz e /\ se (Step fw b nx) = sgn fw (te e).
Proof.
  unfold branch_of, valid, thev, sz, se, tz, te. intros Hb Hv Hi.
  destruct (etyp e); inversion Hb; subst; cbn [sbr sfwd]; try congruence;
  (split; [first [exact I | exact Hv | apply div_nz; [apply one_nz | exact Hv] | apply mul_nz; assumption] |
   split; [first [reflexivity | fsd] | destruct fw; cbn [sgn]; first [reflexivity | ring | fsd]]]).
Qed.

(* ---- sums over a group --------------------------------------------------- *)
Lemma ksum_app (l1 l2 : list K) : ksum (l1 ++ l2) = fadd (ksum l1) (ksum l2).
Proof. induction l1 as [|x l1 IH]; cbn [ksum app]; [ring | rewrite IH; ring]. Qed.
Lemma ksum_perm (l1 l2 : list K) : Permutation l1 l2 -> ksum l1 = ksum l2.
Proof. induction 1; cbn [ksum]; [reflexivity | rewrite IHPermutation; reflexivity | ring | congruence]. Qed.
Lemma ksum_scale (c : K) (l : list K) : ksum (map (fmul c) l) = fmul c (ksum l).
Proof. induction l as [|x l IH]; cbn [ksum map]; [ring | rewrite IH; ring]. Qed.
Lemma ksum_map_ext {A} (f g : A -> K) (l : list A) : (forall x, In x l -> f x = g x) -> ksum (map f l) = ksum (map g l).
Proof. induction l as [|x l IH]; intros H; cbn [ksum map]; [reflexivity|]. rewrite H, IH; [reflexivity | intros; apply H; right; assumption | left; reflexivity]. Qed.
Lemma ksum_zero {A} (f : A -> K) (l : list A) : (forall x, In x l -> f x = f0) -> ksum (map f l) = f0.
Proof. induction l as [|x l IH]; intros H; cbn [ksum map]; [reflexivity|]. rewrite H, IH; [ring | intros; apply H; right; assumption | left; reflexivity]. Qed.
Lemma ksum_opp {A} (f : A -> K) (l : list A) : ksum (map (fun x => fopp (f x)) l) = fopp (ksum (map f l)).
Proof. induction l as [|x l IH]; cbn [ksum map]; [ring | rewrite IH; ring]. Qed.

(* members with their direction along the chain / across the pair *)
Definition mem_t := (elem * bool)%type.
Definition sames_of (ms : list mem_t) : list bool :=
  match ms with [] => [] | m0 :: _ => map (fun m => Bool.eqb (snd m) (snd m0)) ms end.
Lemma sgn_ksgn (fw0 fw : bool) (x : K) : sgn fw0 (ksgn (Bool.eqb fw fw0) x) = sgn fw x.
Proof. destruct fw0, fw; cbn; ring. Qed.
Lemma combine_map_l {A B} (l : list A) (f : A -> B) : combine l (map f l) = map (fun a => (a, f a)) l.
Proof. induction l as [|x l IH]; cbn; [reflexivity | rewrite IH; reflexivity]. Qed.
Lemma combine_fst_sames (ms : list mem_t) (fw0 : bool) :
  combine (map fst ms) (map (fun m => Bool.eqb (snd m) fw0) ms) = map (fun m => (fst m, Bool.eqb (snd m) fw0)) ms.
Proof. induction ms as [|m ms IH]; cbn; [reflexivity | rewrite IH; reflexivity]. Qed.

(* ---- what _do_simplify_combine computes, member list [ms] in enumeration order ---- *)
Notation els_of ms := (map (@fst elem bool) ms).
Lemma new_elem_inv vr (ms : list mem_t) add common signed nm new m0 ms' :
  ms = m0 :: ms' ->
  new_elem vr (els_of ms) (sames_of ms) add common signed nm = Ok new ->
  etyp new = etyp (fst m0) /\ etyp (fst m0) <> TNR /\ enodes new = enodes (fst m0) /\ ekw new = ekw (fst m0) /\ ename new = nm /\
  eval new = combine_value vr add signed (els_of ms) (sames_of ms) /\
  combine_ic vr common (els_of ms) (sames_of ms) = Ok (eic new).
Proof.
  intros -> H. unfold new_elem in H. change (els_of (m0 :: ms')) with (fst m0 :: els_of ms') in H. cbv beta iota in H.
  destruct (etyp (fst m0)) eqn:Et; try discriminate;
  destruct (combine_ic vr common (fst m0 :: els_of ms') (sames_of (m0 :: ms'))) as [ic|] eqn:Eic; try discriminate;
  inversion H; subst new; cbn [etyp enodes ekw ename eval eic];
  (split; [reflexivity|]); (split; [discriminate|]); repeat (split; [reflexivity|]); exact Eic.
Qed.

Lemma sames_combine (ms : list mem_t) m0 ms' : ms = m0 :: ms' ->
  combine (els_of ms) (sames_of ms) = map (fun m => (fst m, Bool.eqb (snd m) (snd m0))) ms.
Proof. intros ->. unfold sames_of. apply combine_fst_sames. Qed.

(* plain and reciprocal sums of the values *)
Definition vsum (ms : list mem_t) : K := ksum (map (fun m => eval (fst m)) ms).
Definition rsum (ms : list mem_t) : K := ksum (map (fun m => fdiv f1 (eval (fst m))) ms).
Lemma value_add vr (ms : list mem_t) : combine_value vr true false (els_of ms) (sames_of ms) = vsum ms.
Proof. unfold combine_value, vsum. cbn [andb]. rewrite map_map. reflexivity. Qed.
Lemma value_recip vr signed (ms : list mem_t) : combine_value vr false signed (els_of ms) (sames_of ms) = fdiv f1 (rsum ms).
Proof. unfold combine_value, rsum. rewrite map_map. reflexivity. Qed.
Lemma value_signed_rep (ms : list mem_t) m0 ms' : ms = m0 :: ms' ->
  combine_value repaired true true (els_of ms) (sames_of ms) = ksum (map (fun m => ksgn (Bool.eqb (snd m) (snd m0)) (eval (fst m))) ms).
Proof. intros E. unfold combine_value. cbn [andb v_polarity repaired]. rewrite (sames_combine ms m0 ms' E), map_map. reflexivity. Qed.
Lemma value_signed_plain (ms : list mem_t) : combine_value unchanged_tree true true (els_of ms) (sames_of ms) = vsum ms.
Proof. unfold combine_value, vsum. cbn [andb v_polarity unchanged_tree]. rewrite map_map. reflexivity. Qed.

Lemma sgn_ksum (fw : bool) (l : list K) : sgn fw (ksum l) = ksum (map (sgn fw) l).
Proof. induction l as [|x l IH]; cbn [ksum map]; [destruct fw; cbn; ring|]. rewrite <- IH. destruct fw; cbn; ring. Qed.
Lemma sgn_mul (fw : bool) (c x : K) : sgn fw (fmul c x) = fmul c (sgn fw x).
Proof. destruct fw; cbn; ring. Qed.
Lemma sgn_opp (fw : bool) (x : K) : sgn fw (fopp x) = fopp (sgn fw x).
Proof. destruct fw; cbn; ring. Qed.
Lemma sgn_div (fw : bool) (x c : K) : c <> f0 -> sgn fw (fdiv x c) = fdiv (sgn fw x) c.
Proof. intros H. destruct fw; cbn; field; exact H. Qed.
Lemma sgn_zero (fw : bool) : sgn fw (f0 : K) = f0.
Proof. destruct fw; cbn; ring. Qed.

(* the combined initial condition, as a number (none counts 0) *)
Definition icsum_signed (ms : list mem_t) (fw0 : bool) : K := ksum (map (fun m => ksgn (Bool.eqb (snd m) fw0) (icv (fst m))) ms).
Definition icsum_plain (ms : list mem_t) : K := ksum (map (fun m => icv (fst m)) ms).
Lemma icv_of_opt (x : option K) (e : elem) : eic e = x -> icv e = match x with Some y => y | None => f0 end.
Proof. intros <-. reflexivity. Qed.

Lemma ic_rep_noncommon (ms : list mem_t) m0 ms' o : ms = m0 :: ms' ->
  combine_ic repaired false (els_of ms) (sames_of ms) = Ok o ->
  match o with Some y => y | None => f0 end = icsum_signed ms (snd m0).
Proof.
  intros E H. pose proof (sames_combine ms m0 ms' E) as SC. subst ms. unfold combine_ic in H.
  change (els_of (m0 :: ms')) with (fst m0 :: els_of ms') in H. cbv beta iota in H.
  change (fst m0 :: els_of ms') with (els_of (m0 :: ms')) in H.
  cbn [andb v_ic_common v_polarity repaired] in H.
  destruct (existsb (has_ic (K:=K)) (els_of (m0 :: ms'))) eqn:Ex; injection H as <-.
  - unfold icsum_signed. cbn [map ksum]. f_equal. rewrite combine_fst_sames, map_map. reflexivity.
  - unfold icsum_signed. symmetry. apply ksum_zero. intros m Hm.
    assert (Hn : has_ic (fst m) = false).
    { destruct (has_ic (fst m)) eqn:Eh; [|reflexivity]. exfalso.
      assert (existsb (has_ic (K:=K)) (els_of (m0 :: ms')) = true) by (apply existsb_exists; exists (fst m); split; [apply in_map; exact Hm | exact Eh]). congruence. }
    unfold icv. unfold has_ic in Hn. destruct (eic (fst m)); [discriminate|]. destruct (Bool.eqb (snd m) (snd m0)); cbn; ring.
Qed.
Lemma ic_rep_common (ms : list mem_t) m0 ms' o : ms = m0 :: ms' ->
  combine_ic repaired true (els_of ms) (sames_of ms) = Ok o -> match o with Some y => y | None => f0 end = icv (fst m0).
Proof. intros -> H. unfold combine_ic in H. change (els_of (m0 :: ms')) with (fst m0 :: els_of ms') in H. cbv beta iota in H.
  cbn [andb v_ic_common repaired] in H. inversion H; subst o. unfold icv, has_ic. destruct (eic (fst m0)); reflexivity. Qed.
Lemma ic_plain (common : bool) (ms : list mem_t) m0 ms' o : ms = m0 :: ms' ->
  combine_ic unchanged_tree common (els_of ms) (sames_of ms) = Ok o ->
  match o with Some y => y | None => f0 end = if has_ic (fst m0) then icsum_plain ms else f0.
Proof. intros -> H. unfold combine_ic in H. change (els_of (m0 :: ms')) with (fst m0 :: els_of ms') in H. cbv beta iota in H.
  change (fst m0 :: els_of ms') with (els_of (m0 :: ms')) in H.
  replace (common && v_ic_common unchanged_tree)%bool with false in H by (destruct common; reflexivity).
  cbn [v_polarity unchanged_tree] in H. destruct (has_ic (fst m0)).
  - destruct (forallb (has_ic (K:=K)) (els_of (m0 :: ms'))); inversion H; subst o. unfold icsum_plain. rewrite map_map. reflexivity.
  - inversion H. reflexivity. Qed.

(* repaired _check_ic passed: one common value, opposite members only when it is zero *)
Lemma check_rep (e0 : elem) (ms : list mem_t) m0 ms' : ms = m0 :: ms' ->
  check_ic keqb repaired e0 (els_of ms) (sames_of ms) = Ok true ->
  forall m, In m ms -> icv (fst m) = icv (fst m0) /\ (snd m = snd m0 \/ icv (fst m) = f0).
Proof.
  intros E H m Hm. unfold check_ic in H. cbn [v_polarity repaired] in H. inversion H as [H1]. clear H.
  apply andb_true_iff in H1. destruct H1 as [Hu Hv].
  assert (Hu' : forall x, In x ms -> has_ic (fst x) = has_ic e0).
  { intros x Hx. rewrite forallb_forall in Hu. apply Bool.eqb_prop. apply Hu. apply in_map. exact Hx. }
  assert (Hm0 : In m0 ms) by (rewrite E; left; reflexivity).
  destruct (has_ic e0) eqn:Eh; cbn [negb orb] in Hv.
  - apply andb_true_iff in Hv. destruct Hv as [Hq Hp].
    rewrite forallb_forall in Hq. rewrite (sames_combine ms m0 ms' E) in Hp. rewrite forallb_forall in Hp.
    assert (Eq : forall x, In x ms -> icv (fst x) = icv e0).
    { intros x Hx. apply keqb_ok. apply Hq. apply in_map. exact Hx. }
    split; [rewrite (Eq m Hm), (Eq m0 Hm0); reflexivity|].
    specialize (Hp (fst m, Bool.eqb (snd m) (snd m0)) (in_map _ _ _ Hm)). cbn [fst snd] in Hp.
    apply orb_true_iff in Hp. destruct Hp as [Hp|Hp]; [left; apply Bool.eqb_prop; exact Hp | right; apply keqb_ok; exact Hp].
  - assert (Z0 : forall x, In x ms -> icv (fst x) = f0).
    { intros x Hx. specialize (Hu' x Hx). unfold has_ic in Hu'. unfold icv. destruct (eic (fst x)); [discriminate | reflexivity]. }
    rewrite (Z0 m Hm), (Z0 m0 Hm0). split; [reflexivity | right; reflexivity].
Qed.

(* ================= series: Thevenin sums of the combined element ============== *)
Definition all_type (t : ety) (ms : list mem_t) : Prop := forall m, In m ms -> etyp (fst m) = t /\ valid (fst m).
Definition same_kwf (ms : list mem_t) (m0 : mem_t) : Prop := forall m, In m ms -> kwf (ekw (fst m)) = kwf (ekw (fst m0)).
Definition tzsum (ms : list mem_t) : K := ksum (map (fun m => tz (fst m)) ms).
Definition tesum (ms : list mem_t) : K := ksum (map (fun m => sgn (snd m) (te (fst m))) ms).

Lemma series_tz vr t (ms : list mem_t) m0 ms' add common signed nm new :
  ms = m0 :: ms' -> all_type t ms -> series_action t = Ok (ACombine add common signed) ->
  (add = false -> rsum ms <> f0) ->
  new_elem vr (els_of ms) (sames_of ms) add common signed nm = Ok new ->
  tz new = tzsum ms.
Proof.
  intros E AT SA Hr H. destruct (new_elem_inv vr ms add common signed nm new m0 ms' E H) as [Et [_ [_ [_ [_ [Ev _]]]]]].
  assert (Et0 : etyp (fst m0) = t) by (apply AT; rewrite E; left; reflexivity).
  unfold tz, tzsum. rewrite Et, Et0.
  assert (TZ : forall f, (forall m, In m ms -> f (fst m) = tz (fst m)) -> ksum (map (fun m => f (fst m)) ms) = ksum (map (fun m => tz (fst m)) ms)).
  { intros f Hf. apply ksum_map_ext. exact Hf. }
  destruct t; cbn in SA; inversion SA; subst add common signed; clear SA.
  - rewrite Ev, value_add. unfold vsum. apply ksum_map_ext. intros m Hm. unfold tz. rewrite (proj1 (AT m Hm)). reflexivity.
  - rewrite Ev, value_add. unfold vsum. apply ksum_map_ext. intros m Hm. unfold tz. rewrite (proj1 (AT m Hm)). reflexivity.
  - rewrite Ev, value_recip. specialize (Hr eq_refl).
    transitivity (fmul (fdiv f1 s) (rsum ms)); [fsd|].
    unfold rsum. rewrite <- ksum_scale, map_map. apply ksum_map_ext. intros m Hm. unfold tz. destruct (AT m Hm) as [A1 A2]. rewrite A1.
    unfold valid in A2. rewrite A1 in A2. fsd.
  - rewrite Ev, value_add. unfold vsum. rewrite <- ksum_scale, map_map. apply ksum_map_ext. intros m Hm. unfold tz. rewrite (proj1 (AT m Hm)). reflexivity.
  - symmetry. apply ksum_zero. intros m Hm. unfold tz. rewrite (proj1 (AT m Hm)). reflexivity.
  - rewrite Ev, value_add. unfold vsum. apply ksum_map_ext. intros m Hm. unfold tz. rewrite (proj1 (AT m Hm)). reflexivity.
  - rewrite Ev, value_recip. specialize (Hr eq_refl).
    transitivity (rsum ms); [fsd|]. unfold rsum. apply ksum_map_ext. intros m Hm. unfold tz. rewrite (proj1 (AT m Hm)). reflexivity.
Qed.

Lemma In_first (ms : list mem_t) m0 ms' : ms = m0 :: ms' -> In m0 ms.
Proof. intros ->. left. reflexivity. Qed.
Lemma tesum_zero t (ms : list mem_t) : all_type t ms -> (forall e, etyp e = t -> te e = f0) -> tesum ms = f0.
Proof. intros AT H. unfold tesum. apply ksum_zero. intros m Hm. rewrite (H _ (proj1 (AT m Hm))). apply sgn_zero. Qed.

(* the unchanged tree is right under these conditions (no member of a signed
   group points the other way, initial conditions of parallel C / series L are
   zero, ...); everything else is findings F3 / F4 *)
Definition plain_ok_series (t : ety) (ms : list mem_t) (m0 : mem_t) : Prop :=
  match t with
  | TV => forall m, In m ms -> snd m = snd m0
  | TC => (forall m, In m ms -> snd m = snd m0 \/ icv (fst m) = f0) /\
          (has_ic (fst m0) = false -> forall m, In m ms -> icv (fst m) = f0)
  | TL => forall m, In m ms -> icv (fst m) = f0
  | _ => True end.

Lemma series_te_rep t (ms : list mem_t) m0 ms' add common signed nm new :
  ms = m0 :: ms' -> all_type t ms -> series_action t = Ok (ACombine add common signed) -> same_kwf ms m0 ->
  (common = true -> exists e0, check_ic keqb repaired e0 (els_of ms) (sames_of ms) = Ok true) ->
  new_elem repaired (els_of ms) (sames_of ms) add common signed nm = Ok new ->
  sgn (snd m0) (te new) = tesum ms.
Proof.
  intros E AT SA KW CK H. destruct (new_elem_inv repaired ms add common signed nm new m0 ms' E H) as [Et [_ [_ [Ek [_ [Ev Eic]]]]]].
  assert (Et0 : etyp (fst m0) = t) by (apply AT; apply (In_first ms m0 ms' E)).
  destruct t; cbn in SA; inversion SA; subst add common signed; clear SA;
    try (rewrite (tesum_zero _ ms AT) by (intros e He; unfold te; rewrite He; reflexivity);
         unfold te; rewrite Et, Et0; apply sgn_zero).
  - (* C: series, initial voltages add with orientation *)
    unfold te at 1. rewrite Et, Et0. rewrite (icv_of_opt _ new eq_refl), (ic_rep_noncommon ms m0 ms' (eic new) E Eic).
    rewrite sgn_div by exact s_nz. unfold icsum_signed. rewrite sgn_ksum, map_map.
    unfold tesum. transitivity (ksum (map (fun m => fdiv (sgn (snd m) (icv (fst m))) s) ms)).
    + clear -s_nz. induction ms as [|m ms IH]; cbn [ksum map]; [field; exact s_nz|]. rewrite <- IH, sgn_ksgn. field. exact s_nz.
    + apply ksum_map_ext. intros m Hm. unfold te. rewrite (proj1 (AT m Hm)). symmetry. apply sgn_div. exact s_nz.
  - (* L: series, common initial current *)
    destruct (CK eq_refl) as [e0 Hc]. pose proof (check_rep e0 ms m0 ms' E Hc) as CR.
    unfold te at 1. rewrite Et, Et0, Ev, value_add, (icv_of_opt _ new eq_refl), (ic_rep_common ms m0 ms' (eic new) E Eic).
    unfold tesum, vsum. transitivity (ksum (map (fun m => sgn (snd m0) (fopp (fmul (eval (fst m)) (icv (fst m0))))) ms)).
    + rewrite <- (map_map (fun m => fopp (fmul (eval (fst m)) (icv (fst m0)))) (sgn (snd m0))), <- sgn_ksum. f_equal.
      clear. induction ms as [|m ms IH]; cbn [ksum map]; [ring|]. rewrite <- IH. ring.
    + apply ksum_map_ext. intros m Hm. unfold te. rewrite (proj1 (AT m Hm)). destruct (CR m Hm) as [C1 [C2|C2]].
      * rewrite C2, C1. reflexivity.
      * rewrite <- C1, C2. destruct (snd m), (snd m0); cbn; ring.
  - (* V: series, values add with orientation *)
    unfold te at 1. rewrite Et, Et0, Ek, Ev, (value_signed_rep ms m0 ms' E), sgn_mul, sgn_ksum, map_map, <- ksum_scale, map_map.
    unfold tesum. apply ksum_map_ext. intros m Hm. unfold te. rewrite (proj1 (AT m Hm)), sgn_ksgn, sgn_mul, (KW m Hm). reflexivity.
Qed.

Lemma series_te_plain t (ms : list mem_t) m0 ms' add common signed nm new :
  ms = m0 :: ms' -> all_type t ms -> series_action t = Ok (ACombine add common signed) -> same_kwf ms m0 ->
  plain_ok_series t ms m0 ->
  new_elem unchanged_tree (els_of ms) (sames_of ms) add common signed nm = Ok new ->
  sgn (snd m0) (te new) = tesum ms.
Proof.
  intros E AT SA KW PO H. destruct (new_elem_inv unchanged_tree ms add common signed nm new m0 ms' E H) as [Et [_ [_ [Ek [_ [Ev Eic]]]]]].
  assert (Et0 : etyp (fst m0) = t) by (apply AT; apply (In_first ms m0 ms' E)).
  destruct t; cbn in SA; inversion SA; subst add common signed; clear SA;
    try (rewrite (tesum_zero _ ms AT) by (intros e He; unfold te; rewrite He; reflexivity);
         unfold te; rewrite Et, Et0; apply sgn_zero).
  - destruct PO as [P1 P2].
    unfold te at 1. rewrite Et, Et0. rewrite (icv_of_opt _ new eq_refl), (ic_plain false ms m0 ms' (eic new) E Eic).
    rewrite sgn_div by exact s_nz. unfold tesum.
    transitivity (ksum (map (fun m => fdiv (sgn (snd m) (icv (fst m))) s) ms)).
    + destruct (has_ic (fst m0)) eqn:Eh.
      * unfold icsum_plain. rewrite sgn_ksum, map_map.
        transitivity (fdiv (ksum (map (fun m => sgn (snd m) (icv (fst m))) ms)) s).
        -- f_equal. apply ksum_map_ext. intros m Hm. destruct (P1 m Hm) as [Q|Q]; [rewrite Q; reflexivity | rewrite Q, !sgn_zero; reflexivity].
        -- clear -s_nz. induction ms as [|m ms IH]; cbn [ksum map]; [field; exact s_nz|]. rewrite <- IH. field. exact s_nz.
      * rewrite sgn_zero. symmetry. transitivity (fdiv f0 s); [|field; exact s_nz].
        rewrite (ksum_zero (fun m => fdiv (sgn (snd m) (icv (fst m))) s)); [field; exact s_nz|].
        intros m Hm. rewrite (P2 eq_refl m Hm), sgn_zero. field. exact s_nz.
    + apply ksum_map_ext. intros m Hm. unfold te. rewrite (proj1 (AT m Hm)). symmetry. apply sgn_div. exact s_nz.
  - unfold te at 1. rewrite Et, Et0, (icv_of_opt _ new eq_refl), (ic_plain true ms m0 ms' (eic new) E Eic).
    assert (Z0 : icsum_plain ms = f0) by (apply ksum_zero; exact PO).
    replace (if has_ic (fst m0) then icsum_plain ms else f0) with (f0 : K) by (destruct (has_ic (fst m0)); [symmetry; exact Z0 | reflexivity]).
    transitivity (f0 : K); [destruct (snd m0); cbn; ring|]. symmetry. apply ksum_zero. intros m Hm. unfold te.
    rewrite (proj1 (AT m Hm)), (PO m Hm). destruct (snd m); cbn; ring.
  - unfold te at 1. rewrite Et, Et0, Ek, Ev, value_signed_plain, sgn_mul. unfold vsum. rewrite sgn_ksum, map_map, <- ksum_scale, map_map.
    unfold tesum. apply ksum_map_ext. intros m Hm. unfold te. rewrite (proj1 (AT m Hm)), sgn_mul, (KW m Hm), (PO m Hm). reflexivity.
Qed.

(* ================= parallel: Norton sums of the combined element ============== *)
Lemma pstep_norton (e : elem) (fw : bool) (b : branch K) :
  branch_of e = Some b -> valid e -> etyp e <> TL -> etyp e <> TV -> etyp e <> TW ->
  norton (fw, b) /\ py (fw, b) = ty e /\ pj (fw, b) = sgn fw (tj e).
Proof.
  unfold branch_of, valid, norton, py, pj, ty, tj. intros Hb Hv H1 H2 H3.
  destruct (etyp e); inversion Hb; subst; cbn [fst snd]; try congruence;
  (split; [exact I | split; [reflexivity | first [reflexivity | destruct fw; cbn [sgn]; ring]]]).
Qed.
Lemma pstep_bz (e : elem) (fw : bool) (b : branch K) :
  branch_of e = Some b -> valid e -> etyp e = TL ->
  zwf (fw, b) /\ pz (fw, b) = ty e /\ pe (fw, b) = sgn fw (tj e) /\ exists Zb E, b = BZ Zb E (zname (ename e)).
Proof.
  unfold branch_of, valid, zwf, pz, pe, ty, tj. intros Hb Hv Ht. rewrite Ht in *. inversion Hb; subst; cbn [fst snd].
  split; [apply mul_nz; assumption|]. split; [reflexivity|]. split; [destruct fw; cbn [sgn]; fsd | eexists; eexists; reflexivity].
Qed.

Definition tysum (ms : list mem_t) : K := ksum (map (fun m => ty (fst m)) ms).
Definition tjsum (ms : list mem_t) : K := ksum (map (fun m => sgn (snd m) (tj (fst m))) ms).
Lemma tjsum_zero t (ms : list mem_t) : all_type t ms -> (forall e, etyp e = t -> tj e = f0) -> tjsum ms = f0.
Proof. intros AT H. unfold tjsum. apply ksum_zero. intros m Hm. rewrite (H _ (proj1 (AT m Hm))). apply sgn_zero. Qed.

Lemma parallel_ty vr t (ms : list mem_t) m0 ms' add common signed nm new :
  ms = m0 :: ms' -> all_type t ms -> parallel_action t = Ok (ACombine add common signed) ->
  (add = false -> rsum ms <> f0) ->
  new_elem vr (els_of ms) (sames_of ms) add common signed nm = Ok new ->
  ty new = tysum ms.
Proof.
  intros E AT SA Hr H. destruct (new_elem_inv vr ms add common signed nm new m0 ms' E H) as [Et [_ [_ [_ [_ [Ev _]]]]]].
  assert (Et0 : etyp (fst m0) = t) by (apply AT; rewrite E; left; reflexivity).
  unfold ty at 1. unfold tysum. rewrite Et, Et0.
  destruct t; cbn in SA; inversion SA; subst add common signed; clear SA.
  - rewrite Ev, value_recip. specialize (Hr eq_refl). transitivity (rsum ms); [fsd|]. unfold rsum.
    apply ksum_map_ext. intros m Hm. unfold ty. rewrite (proj1 (AT m Hm)). reflexivity.
  - rewrite Ev, value_recip. specialize (Hr eq_refl). transitivity (rsum ms); [fsd|]. unfold rsum.
    apply ksum_map_ext. intros m Hm. unfold ty. rewrite (proj1 (AT m Hm)). reflexivity.
  - rewrite Ev, value_add. unfold vsum. rewrite <- ksum_scale, map_map. apply ksum_map_ext. intros m Hm. unfold ty. rewrite (proj1 (AT m Hm)). reflexivity.
  - rewrite Ev, value_recip. specialize (Hr eq_refl). transitivity (fmul (fdiv f1 s) (rsum ms)); [fsd|].
    unfold rsum. rewrite <- ksum_scale, map_map. apply ksum_map_ext. intros m Hm. unfold ty. destruct (AT m Hm) as [A1 A2]. rewrite A1.
    unfold valid in A2. rewrite A1 in A2. fsd.
  - rewrite Ev. assert (Ez : forall m, In m ms -> ty (fst m) = f0) by (intros m Hm; unfold ty; rewrite (proj1 (AT m Hm)); reflexivity).
    symmetry. apply ksum_zero. exact Ez.
  - rewrite Ev, value_recip. specialize (Hr eq_refl). transitivity (rsum ms); [fsd|]. unfold rsum.
    apply ksum_map_ext. intros m Hm. unfold ty. rewrite (proj1 (AT m Hm)). reflexivity.
  - rewrite Ev, value_add. unfold vsum. apply ksum_map_ext. intros m Hm. unfold ty. rewrite (proj1 (AT m Hm)). reflexivity.
Qed.

Definition plain_ok_parallel (t : ety) (ms : list mem_t) (m0 : mem_t) : Prop :=
  match t with
  | TI => forall m, In m ms -> snd m = snd m0
  | TL => (forall m, In m ms -> snd m = snd m0 \/ icv (fst m) = f0) /\
          (has_ic (fst m0) = false -> forall m, In m ms -> icv (fst m) = f0)
  | TC => forall m, In m ms -> icv (fst m) = f0
  | _ => True end.

Lemma parallel_tj_rep t (ms : list mem_t) m0 ms' add common signed nm new :
  ms = m0 :: ms' -> all_type t ms -> parallel_action t = Ok (ACombine add common signed) -> same_kwf ms m0 ->
  (common = true -> exists e0, check_ic keqb repaired e0 (els_of ms) (sames_of ms) = Ok true) ->
  new_elem repaired (els_of ms) (sames_of ms) add common signed nm = Ok new ->
  sgn (snd m0) (tj new) = tjsum ms.
Proof.
  intros E AT SA KW CK H. destruct (new_elem_inv repaired ms add common signed nm new m0 ms' E H) as [Et [_ [_ [Ek [_ [Ev Eic]]]]]].
  assert (Et0 : etyp (fst m0) = t) by (apply AT; apply (In_first ms m0 ms' E)).
  destruct t; cbn in SA; inversion SA; subst add common signed; clear SA;
    try (rewrite (tjsum_zero _ ms AT) by (intros e He; unfold tj; rewrite He; reflexivity);
         unfold tj; rewrite Et, Et0; apply sgn_zero).
  - (* C: parallel, common initial voltage *)
    destruct (CK eq_refl) as [e0 Hc]. pose proof (check_rep e0 ms m0 ms' E Hc) as CR.
    unfold tj at 1. rewrite Et, Et0, Ev, value_add, (icv_of_opt _ new eq_refl), (ic_rep_common ms m0 ms' (eic new) E Eic).
    unfold tjsum, vsum. transitivity (ksum (map (fun m => sgn (snd m0) (fmul (eval (fst m)) (icv (fst m0)))) ms)).
    + rewrite <- (map_map (fun m => fmul (eval (fst m)) (icv (fst m0))) (sgn (snd m0))), <- sgn_ksum. f_equal.
      clear. induction ms as [|m ms IH]; cbn [ksum map]; [ring|]. rewrite <- IH. ring.
    + apply ksum_map_ext. intros m Hm. unfold tj. rewrite (proj1 (AT m Hm)). destruct (CR m Hm) as [C1 [C2|C2]].
      * rewrite C2, C1. reflexivity.
      * rewrite <- C1, C2. destruct (snd m), (snd m0); cbn; ring.
  - (* L: parallel, initial currents add with orientation *)
    unfold tj at 1. rewrite Et, Et0. rewrite (icv_of_opt _ new eq_refl), (ic_rep_noncommon ms m0 ms' (eic new) E Eic).
    rewrite sgn_opp, sgn_div by exact s_nz. unfold icsum_signed. rewrite sgn_ksum, map_map.
    unfold tjsum. transitivity (ksum (map (fun m => fopp (fdiv (sgn (snd m) (icv (fst m))) s)) ms)).
    + clear -s_nz. induction ms as [|m ms IH]; cbn [ksum map]; [field; exact s_nz|]. rewrite <- IH, sgn_ksgn. field. exact s_nz.
    + apply ksum_map_ext. intros m Hm. unfold tj. rewrite (proj1 (AT m Hm)), sgn_opp, sgn_div by exact s_nz. reflexivity.
  - (* I: parallel, values add with orientation *)
    unfold tj at 1. rewrite Et, Et0, Ek, Ev, (value_signed_rep ms m0 ms' E), sgn_mul, sgn_ksum, map_map, <- ksum_scale, map_map.
    unfold tjsum. apply ksum_map_ext. intros m Hm. unfold tj. rewrite (proj1 (AT m Hm)), sgn_ksgn, sgn_mul, (KW m Hm). reflexivity.
Qed.

Lemma parallel_tj_plain t (ms : list mem_t) m0 ms' add common signed nm new :
  ms = m0 :: ms' -> all_type t ms -> parallel_action t = Ok (ACombine add common signed) -> same_kwf ms m0 ->
  plain_ok_parallel t ms m0 ->
  new_elem unchanged_tree (els_of ms) (sames_of ms) add common signed nm = Ok new ->
  sgn (snd m0) (tj new) = tjsum ms.
Proof.
  intros E AT SA KW PO H. destruct (new_elem_inv unchanged_tree ms add common signed nm new m0 ms' E H) as [Et [_ [_ [Ek [_ [Ev Eic]]]]]].
  assert (Et0 : etyp (fst m0) = t) by (apply AT; apply (In_first ms m0 ms' E)).
  destruct t; cbn in SA; inversion SA; subst add common signed; clear SA;
    try (rewrite (tjsum_zero _ ms AT) by (intros e He; unfold tj; rewrite He; reflexivity);
         unfold tj; rewrite Et, Et0; apply sgn_zero).
  - unfold tj at 1. rewrite Et, Et0, (icv_of_opt _ new eq_refl), (ic_plain true ms m0 ms' (eic new) E Eic).
    assert (Z0 : icsum_plain ms = f0) by (apply ksum_zero; exact PO).
    replace (if has_ic (fst m0) then icsum_plain ms else f0) with (f0 : K) by (destruct (has_ic (fst m0)); [symmetry; exact Z0 | reflexivity]).
    transitivity (f0 : K); [destruct (snd m0); cbn; ring|]. symmetry. apply ksum_zero. intros m Hm. unfold tj.
    rewrite (proj1 (AT m Hm)), (PO m Hm). destruct (snd m); cbn; ring.
  - destruct PO as [P1 P2].
    unfold tj at 1. rewrite Et, Et0. rewrite (icv_of_opt _ new eq_refl), (ic_plain false ms m0 ms' (eic new) E Eic).
    rewrite sgn_opp, sgn_div by exact s_nz. unfold tjsum.
    transitivity (ksum (map (fun m => fopp (fdiv (sgn (snd m) (icv (fst m))) s)) ms)).
    + destruct (has_ic (fst m0)) eqn:Eh.
      * unfold icsum_plain. rewrite sgn_ksum, map_map.
        transitivity (fopp (fdiv (ksum (map (fun m => sgn (snd m) (icv (fst m))) ms)) s)).
        -- f_equal. f_equal. apply ksum_map_ext. intros m Hm. destruct (P1 m Hm) as [Q|Q]; [rewrite Q; reflexivity | rewrite Q, !sgn_zero; reflexivity].
        -- clear -s_nz. induction ms as [|m ms IH]; cbn [ksum map]; [field; exact s_nz|]. rewrite <- IH. field. exact s_nz.
      * rewrite sgn_zero. symmetry.
        rewrite (ksum_zero (fun m => fopp (fdiv (sgn (snd m) (icv (fst m))) s))); [field; exact s_nz|].
        intros m Hm. rewrite (P2 eq_refl m Hm), sgn_zero. field. exact s_nz.
    + apply ksum_map_ext. intros m Hm. unfold tj. rewrite (proj1 (AT m Hm)), sgn_opp, sgn_div by exact s_nz. reflexivity.
  - unfold tj at 1. rewrite Et, Et0, Ek, Ev, value_signed_plain, sgn_mul. unfold vsum. rewrite sgn_ksum, map_map, <- ksum_scale, map_map.
    unfold tjsum. apply ksum_map_ext. intros m Hm. unfold tj. rewrite (proj1 (AT m Hm)), sgn_mul, (KW m Hm), (PO m Hm). reflexivity.
Qed.
End Sem.
