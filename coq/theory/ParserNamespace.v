(* C06 — namespaces (.include file as name).
     parse_namespace   for EVERY line s and every namespace ns:
                       parse g st ns s = the parse without namespace, with ns prefixed to the
                       component name and to every node name (pins included); arguments,
                       keyword, options, namer state are untouched
   Together with parse_print (names with dots) this gives: the flat text printed for an included
   sub-netlist reads back, without any .include, as the same components. *)
From Coq Require Import List Ascii Bool Arith Lia.
From LT Require Import ParserStr ParserModel.
Import ListNotations.

Definition prefix_cpt (ns : str) (c : cpt) : cpt :=
  {| c_class := c_class c; c_name := ns ++ c_name c; c_nodes := map (app ns) (c_nodes c); c_args := c_args c;
     c_kwpos := c_kwpos c; c_kw := c_kw c; c_opts := c_opts c; c_string := c_string c |}.
Definition prefix_res (ns : str) (x : res (cpt * cstate)) : res (cpt * cstate) :=
  match x with Ok (c, st) => Ok (prefix_cpt ns c, st) | Err e => Err e end.

Lemma field_ns (f name ns : str) :
  (match f with a :: _ => if aeqb a DOT then (ns ++ name) ++ f else ns ++ f | [] => ns ++ f end)
  = ns ++ (match f with a :: _ => if aeqb a DOT then name ++ f else [] ++ f | [] => [] ++ f end).
Proof. destruct f as [|a f']; [reflexivity|]. destruct (aeqb a DOT); [now rewrite <- app_assoc|reflexivity]. Qed.
Lemma extract_nodes_ns ps : forall fields m name ns,
  extract_nodes ps fields m (ns ++ name) ns
  = match extract_nodes ps fields m name [] with Ok l => Ok (map (app ns) l) | Err e => Err e end.
Proof.
  induction ps as [|p r IH]; intros fields m name ns; cbn [extract_nodes]; [reflexivity|].
  destruct (is_nodekind (p_kind p)); [|apply IH].
  destruct (nth_error fields m) as [f|]; [|reflexivity].
  rewrite IH. destruct (extract_nodes r fields (S m) name []) as [l|e]; cbn [bind]; [|reflexivity].
  cbn [map]. now rewrite field_ns.
Qed.
Lemma process_ns r fields name ns dflt :
  process r fields (ns ++ name) ns dflt
  = match process r fields name [] dflt with Ok (n, a) => Ok (map (app ns) n, a) | Err e => Err e end.
Proof.
  unfold process. destruct (length (r_params r) <? length fields); [reflexivity|].
  rewrite extract_nodes_ns. destruct (extract_nodes (r_params r) fields 0 name []) as [l|e]; cbn [bind]; [|reflexivity].
  destruct (extract_args (r_params r) fields dflt); reflexivity.
Qed.

(* THEOREM parse_namespace *)
Theorem parse_namespace g st ns s : parse g st ns s = prefix_res ns (parse g st [] s).
Proof.
  unfold parse. destruct (is_directive g (strip s)).
  - destruct (make_anon st S_XX) as [relname st'].
    unfold prefix_res, bind.
    repeat match goal with |- context [match opts_add ?a ?b with _ => _ end] => destruct (opts_add a b) end; reflexivity.
  - destruct (split_first SEMI (strip s)) as [main rest].
    destruct (split (g_delims g) main) as [[|name fields]|]; try reflexivity.
    unfold parse_cpt. destruct (existsb is_nil (init_strs (split_on DOT name))); [reflexivity|].
    destruct (match_type g (last_str (split_on DOT name))) as [[ty id]|]; [|reflexivity].
    destruct (assoc_get ty (g_dict g)) as [[|r0 rs]|]; try reflexivity.
    destruct (select (r0 :: rs) fields r0 None) as [[r kw] leak].
    destruct (is_nil kw && match r_pos r with Some p => p <? length fields | None => false end); [reflexivity|].
    destruct (if is_nil id && str_in ty anon_types || str_eqb id [QM] then make_anon st ty else (last_str (split_on DOT name), st)) as [relname' st'].
    cbn [app]. rewrite process_ns.
    destruct (process r fields _ [] relname') as [[n a]|e]; cbn [bind fst snd]; [|reflexivity].
    unfold prefix_res, bind.
    repeat match goal with |- context [match opts_add ?a ?b with _ => _ end] => destruct (opts_add a b) end; reflexivity.
Qed.
