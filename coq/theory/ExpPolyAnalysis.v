(* ExpPolyAnalysis — analytic meaning of the table entries of ExpPoly.v
   (Coquelicot, classical real numbers; reusable: C09, C10).

   ExpPoly.L sends the regular term  c · tⁿ/n! · e^{pt}  to  c/(s - p)^{n+1}  by
   DEFINITION.  Here that entry is derived from the Laplace integral for real
   p < s:
     laplace_entry   : ∫₀^∞ (tⁿ/n! · e^{pt}) · e^{-st} dt = 1/(s - p)^{n+1}
                       (is_RInt_gen … (at_point 0) (Rbar_locally p_infty)),
   by the explicit antiderivative F n (induction on n, F_derive) and
     lim_tn_exp      : tⁿ e^{-at} → 0  (t → ∞, a > 0),
   which is also the analytic half of the final-value statement: every regular
   term with p < 0 tends to 0 (regular_term_vanishes).
   Complex s/p and the generalised functions δ^{(k)} are not derived from an
   integral (no distribution theory is available for Coq 8.16); for them L is the
   specification.  Axioms: the classical reals of the standard library
   (sig_forall_dec, sig_not_dec, classic, functional_extensionality_dep). *)
From Coq Require Import Reals Lra Lia.
From Coquelicot Require Import Coquelicot.
Open Scope R_scope.

(* y / e^y -> 0 *)
Lemma lim_id_div_exp : is_lim (fun y => y / exp y) p_infty 0.
Proof.
  apply (is_lim_ext_loc (fun y => / (exp y / y))).
  - exists 1. intros y Hy. field. split; [pose proof (exp_pos y); lra | lra].
  - replace (Finite 0) with (Rbar_inv p_infty) by reflexivity.
    apply is_lim_inv; [apply is_lim_div_exp_p | discriminate].
Qed.
Lemma lim_t_exp a : 0 < a -> is_lim (fun t => t * exp (- a * t)) p_infty 0.
Proof. intros Ha.
  apply (is_lim_ext (fun t => (1 / a) * ((a * t) / exp (a * t)))).
  - intros t. replace (exp (- a * t)) with (/ exp (a * t)) by (rewrite <- exp_Ropp; f_equal; ring).
    field. split; [pose proof (exp_pos (a * t)); lra | lra].
  - replace (Finite 0) with (Rbar_mult (Finite (1 / a)) (Finite 0)) by (simpl; f_equal; ring).
    apply is_lim_scal_l.
    apply (is_lim_comp (fun y => y / exp y) (fun t => a * t) p_infty 0 p_infty).
    + apply lim_id_div_exp.
    + evar (l : Rbar). assert (H : is_lim (fun t => a * t) p_infty l).
      { unfold l. apply is_lim_scal_l. apply is_lim_id. }
      unfold l in H. simpl in H. destruct (Rle_dec 0 a) as [H0|H0]; [|lra].
      destruct (Rle_lt_or_eq_dec 0 a H0); [exact H | lra].
    + exists 0. intros x _ Hc. discriminate.
Qed.

Lemma lim_exp a : 0 < a -> is_lim (fun t => exp (- a * t)) p_infty 0.
Proof.
  intros Ha.
  apply (is_lim_comp exp (fun t => - a * t) p_infty 0 m_infty).
  - apply is_lim_exp_m.
  - evar (l : Rbar). assert (H : is_lim (fun t => - a * t) p_infty l).
    { unfold l. apply is_lim_scal_l. apply is_lim_id. }
    unfold l in H. simpl in H.
    destruct (Rle_dec 0 (- a)) as [H0|H0]; [lra|]. exact H.
  - exists 0. intros x _ Hc. discriminate.
Qed.
Lemma lim_tn_exp n : forall a, 0 < a -> is_lim (fun t => t ^ n * exp (- a * t)) p_infty 0.
Proof. induction n as [|n IH]; intros a Ha.
  - apply (is_lim_ext (fun t => exp (- a * t))); [intros t; simpl; ring | apply lim_exp; exact Ha].
  - apply (is_lim_ext (fun t => (t * exp (- (a / 2) * t)) * (t ^ n * exp (- (a / 2) * t)))).
    + intros t. simpl. replace (exp (- a * t)) with (exp (- (a / 2) * t) * exp (- (a / 2) * t)); [ring|].
      rewrite <- exp_plus. f_equal. field.
    + replace (Finite 0) with (Rbar_mult (Finite 0) (Finite 0)) by (simpl; f_equal; ring).
      apply is_lim_mult; [apply lim_t_exp; lra | apply IH; lra | simpl; exact I].
Qed.

Ltac req := match goal with |- @eq _ ?l ?r => change (@eq R l r) end.
Section Entry.
Variable a : R.
Hypothesis Ha : 0 < a.
Fixpoint F (n : nat) (t : R) : R :=
  match n with
  | O => - exp (- a * t) / a
  | S m => - (t ^ (S m) / INR (fact (S m))) * exp (- a * t) / a + F m t / a
  end.
Lemma F_derive n : forall t : R, is_derive (F n) t (t ^ n / INR (fact n) * exp (- a * t)).
Proof. induction n as [|n IH]; intros t.
  - simpl F. auto_derive; [exact I|]. req. change (INR (fact 0)) with 1. change (t ^ 0) with 1. field. lra.
  - change (F (S n)) with (fun t => - (t ^ (S n) / INR (fact (S n))) * exp (- a * t) / a + F n t / a).
    pose proof (INR_fact_neq_0 (S n)) as Hf. pose proof (INR_fact_neq_0 n) as Hf0.
    evar (d1 : R). evar (d2 : R).
    replace (t ^ S n / INR (fact (S n)) * exp (- a * t)) with (plus d1 d2).
    apply (is_derive_plus (fun t => - (t ^ (S n) / INR (fact (S n))) * exp (- a * t) / a) (fun t => F n t / a)).
    + unfold d1. auto_derive; [exact I|]. reflexivity.
    + unfold d2. apply (is_derive_ext (fun t => / a * F n t)); [intros; req; field; lra|].
      apply (is_derive_scal (F n) t (/ a)). apply IH.
    + unfold d1, d2. change (plus ?x ?y) with (Rplus x y). req.
      change (match n with 0%nat => 1 | S _ => INR n + 1 end) with (INR (S n)).
      change (fact n + n * fact n)%nat with (fact (S n)).
      assert (HS : INR (S n) <> 0) by (apply not_0_INR; discriminate).
      rewrite fact_simpl, mult_INR. change (t ^ S n) with (t * t ^ n).
      set (X := INR (S n)) in *. set (Y := INR (fact n)) in *. field. repeat split; lra.
Qed.
Lemma F_0 n : F n 0 = - / a ^ (S n).
Proof. induction n as [|n IH].
  - simpl. rewrite Rmult_0_r, exp_0. field. lra.
  - change (F (S n) 0) with (- (0 ^ (S n) / INR (fact (S n))) * exp (- a * 0) / a + F n 0 / a).
    rewrite IH, pow_i by lia. pose proof (INR_fact_neq_0 (S n)). assert (a ^ S n <> 0) by (apply pow_nonzero; lra).
    change (a ^ S (S n)) with (a * a ^ S n). field. repeat split; try assumption; lra. Qed.
Lemma F_lim n : is_lim (F n) p_infty 0.
Proof. induction n as [|n IH].
  - apply (is_lim_ext (fun t => (-1 / a) * exp (- a * t))); [intros t; simpl; field; lra|].
    replace (Finite 0) with (Rbar_mult (Finite (-1 / a)) (Finite 0)) by (simpl; f_equal; ring).
    apply is_lim_scal_l. apply lim_exp. exact Ha.
  - pose proof (INR_fact_neq_0 (S n)) as Hf.
    apply (is_lim_ext (fun t => (- / (INR (fact (S n)) * a)) * (t ^ (S n) * exp (- a * t)) + / a * F n t)).
    + intros t. change (F (S n) t) with (- (t ^ (S n) / INR (fact (S n))) * exp (- a * t) / a + F n t / a). field. split; [lra | exact Hf].
    + replace (Finite 0) with (Finite ((- / (INR (fact (S n)) * a)) * 0 + / a * 0)) by (f_equal; ring).
      apply is_lim_plus'.
      * pose proof (is_lim_scal_l (fun t => t ^ (S n) * exp (- a * t)) (- / (INR (fact (S n)) * a)) p_infty 0 (lim_tn_exp (S n) a Ha)) as H1.
        simpl in H1. exact H1.
      * pose proof (is_lim_scal_l (F n) (/ a) p_infty 0 IH) as H1. simpl in H1. exact H1. Qed.

(* the table entry of the Laplace transform: for real p < s,
   int_0^oo t^n/n! e^{pt} e^{-st} dt = 1/(s-p)^{n+1}   (with a = s - p > 0) *)
Theorem laplace_entry_a n :
  is_RInt_gen (fun t => t ^ n / INR (fact n) * exp (- a * t)) (at_point 0) (Rbar_locally p_infty) (/ a ^ (S n)).
Proof.
  replace (/ a ^ S n) with (0 - F n 0) by (rewrite F_0; ring).
  apply (is_RInt_gen_ext (Derive (F n))).
  { apply filter_forall. intros [x y] z _. simpl. apply is_derive_unique. apply F_derive. }
  apply is_RInt_gen_Derive.
  - apply filter_forall. intros [x y] z _. eexists. apply F_derive.
  - apply filter_forall. intros [x y] z _.
    apply (continuous_ext (fun t => t ^ n / INR (fact n) * exp (- a * t))).
    { intros t. symmetry. apply is_derive_unique. apply F_derive. }
    apply (ex_derive_continuous (fun t : R => t ^ n / INR (fact n) * exp (- a * t))). auto_derive. exact I.
  - intros P HP. unfold filtermap, at_point. apply locally_singleton in HP. exact HP.
  - apply F_lim.
Qed.
End Entry.

Theorem laplace_entry (n : nat) (p s : R) : p < s ->
  is_RInt_gen (fun t => (t ^ n / INR (fact n) * exp (p * t)) * exp (- s * t)) (at_point 0) (Rbar_locally p_infty) (1 / (s - p) ^ (S n)).
Proof. intros H.
  apply (is_RInt_gen_ext (fun t => t ^ n / INR (fact n) * exp (- (s - p) * t))).
  { apply filter_forall. intros [x y] z _. simpl. rewrite Rmult_assoc, <- exp_plus. f_equal. f_equal. ring. }
  replace (1 / (s - p) ^ S n) with (/ (s - p) ^ S n) by (unfold Rdiv; ring).
  apply laplace_entry_a. lra. Qed.
(* with the coefficient, as in ExpPoly.Lterm *)
Corollary laplace_regular_term (c : R) (n : nat) (p s : R) : p < s ->
  is_RInt_gen (fun t => (c * (t ^ n / INR (fact n)) * exp (p * t)) * exp (- s * t)) (at_point 0) (Rbar_locally p_infty) (c / (s - p) ^ (S n)).
Proof. intros H.
  pose proof (is_RInt_gen_scal (fun t => (t ^ n / INR (fact n) * exp (p * t)) * exp (- s * t)) c (1 / (s - p) ^ S n) (laplace_entry n p s H)) as H1.
  change (scal c (1 / (s - p) ^ S n)) with (c * (1 / (s - p) ^ S n)) in H1.
  replace (c / (s - p) ^ S n) with (c * (1 / (s - p) ^ S n)) by (unfold Rdiv; ring).
  refine (is_RInt_gen_ext _ _ _ _ H1).
  apply filter_forall. intros [x y] z _.
  change (c * ((z ^ n / INR (fact n) * exp (p * z)) * exp (- s * z)) = c * (z ^ n / INR (fact n)) * exp (p * z) * exp (- s * z)). ring. Qed.
(* final value, analytic half: a regular term with p < 0 dies out *)
Theorem regular_term_vanishes (c : R) (n : nat) (p : R) : p < 0 ->
  is_lim (fun t => c * (t ^ n / INR (fact n)) * exp (p * t)) p_infty 0.
Proof. intros Hp. pose proof (INR_fact_neq_0 n) as Hf.
  apply (is_lim_ext (fun t => (c / INR (fact n)) * (t ^ n * exp (- (- p) * t)))).
  { intros t. replace (- - p) with p by ring. field. exact Hf. }
  pose proof (is_lim_scal_l (fun t => t ^ n * exp (- (- p) * t)) (c / INR (fact n)) p_infty 0 (lim_tn_exp n (- p) ltac:(lra))) as H1.
  simpl in H1. rewrite Rmult_0_r in H1. exact H1. Qed.
(* initial value, analytic half: the value at t = 0 *)
Theorem regular_term_at_0 (c : R) (n : nat) (p : R) :
  c * (0 ^ n / INR (fact n)) * exp (p * 0) = match n with O => c | S _ => 0 end.
Proof. rewrite Rmult_0_r, exp_0. destruct n as [|n].
  - simpl. field.
  - rewrite pow_i by lia. unfold Rdiv. ring. Qed.


