(* SynthTerm — termination of the two Euclid-style coefficient loops (C19):
   the result of [cf_run] (continued_fraction_coeffs) and of [icf_run]
   (continued_fraction_inverse_coeffs) does not depend on the fuel once the fuel
   exceeds an explicit measure, [icf_run] then always returns a list, and the fuel
   [cf_fuel] used by [synth_cauer] exceeds the measure.  Hence an [Err] of the
   Cauer models is never an artefact of the fuel.

   Method: coefficient view [coef p i = nth i p 0] of the dense polynomials,
   characterisation of [psize] / [pval] by vanishing coefficients, cancellation of
   the leading (resp. lowest) coefficient in one division step, a generic
   fuel-irrelevance lemma for loops of this shape.  Axiom-free. *)
Require Import LT.FieldSec LT.PolyQ LT.RatfunCF LT.SynthNet LT.SynthCF LT.SynthPat LT.SynthLadder.
Local Open Scope F_scope.
Section Term.
Variable K : fld.
Add Field KFterm : (fth K).
Notation poly := (list K).
Implicit Types p N D : poly.
Implicit Types c : K.

Definition coef (p : poly) (i : nat) : K := nth i p 0.
Lemma coef_nil i : coef [] i = 0. Proof. destruct i; reflexivity. Qed.
Lemma coef_padd p (q : poly) i : coef (padd p q) i = coef p i + coef q i.
Proof. revert q i. induction p as [|a p IH]; intros q i.
  - cbn [padd]. rewrite coef_nil. ring.
  - destruct q as [|b q]; [cbn [padd]; rewrite coef_nil; ring|]. cbn [padd]. destruct i; [reflexivity|]. apply (IH q i). Qed.
Lemma coef_pscale c p i : coef (pscale c p) i = c * coef p i.
Proof. revert i. induction p as [|a p IH]; intros i; [cbn [pscale map]; rewrite coef_nil; ring|].
  destruct i; [reflexivity|]. apply (IH i). Qed.
Lemma coef_popp p i : coef (popp p) i = - coef p i.
Proof. revert i. induction p as [|a p IH]; intros i; [cbn [popp map]; rewrite coef_nil; ring|].
  destruct i; [reflexivity|]. apply (IH i). Qed.
Lemma coef_psub p (q : poly) i : coef (psub p q) i = coef p i - coef q i.
Proof. unfold psub. rewrite coef_padd, coef_popp. ring. Qed.
Lemma coef_pshift k p i : coef (pshift k p) i = if (i <? k)%nat then 0 else coef p (i - k).
Proof. revert i. induction k as [|k IH]; intros i; cbn [pshift].
  - rewrite Nat.sub_0_r. reflexivity.
  - destruct i; [reflexivity|]. change (coef (0 :: pshift k p) (S i)) with (coef (pshift k p) i). rewrite IH.
    change (S i <? S k)%nat with (i <? k)%nat. reflexivity. Qed.
Lemma coef_pmul_monom c k D i : coef (pmul (pshift k [c]) D) i = if (i <? k)%nat then 0 else c * coef D (i - k).
Proof. revert i. induction k as [|k IH]; intros i; cbn [pshift pmul].
  - rewrite coef_padd, coef_pscale, Nat.sub_0_r. replace (i <? 0)%nat with false by (symmetry; apply Nat.ltb_ge; lia).
    assert (E : coef ([0] : poly) i = 0) by (destruct i; [reflexivity | apply coef_nil]). rewrite E. ring.
  - rewrite coef_padd, coef_pscale. destruct i; [change (coef (0 :: pmul (pshift k [c]) D) 0) with (0 : K); change (0 <? S k)%nat with true; cbv iota; ring|].
    change (coef (0 :: pmul (pshift k [c]) D) (S i)) with (coef (pmul (pshift k [c]) D) i). rewrite IH.
    change (S i <? S k)%nat with (i <? k)%nat. change (S i - S k)%nat with (i - k)%nat. destruct (i <? k)%nat; ring. Qed.
Lemma coef_skipn k p i : coef (skipn k p) i = coef p (i + k).
Proof. revert p. induction k as [|k IH]; intros p; [rewrite Nat.add_0_r; reflexivity|].
  destruct p as [|a p]; [cbn [skipn]; rewrite !coef_nil; reflexivity|]. cbn [skipn]. rewrite IH.
  rewrite Nat.add_succ_r. reflexivity. Qed.
Lemma coef_pnorm p i : coef (pnorm p) i = coef p i.
Proof. revert i. induction p as [|a p IH]; intros i; [reflexivity|]. cbn [pnorm].
  destruct (pnorm p) as [|b r] eqn:E.
  - destruct (feqb a 0) eqn:Ea.
    + apply feqb_eq in Ea. subst a. rewrite coef_nil. destruct i; [reflexivity|].
      change (coef (0 :: p) (S i)) with (coef p i). rewrite <- IH. rewrite coef_nil. reflexivity.
    + destruct i; [reflexivity|]. change (coef (a :: p) (S i)) with (coef p i). rewrite <- IH.
      change (coef [a] (S i)) with (coef [] i). reflexivity.
  - destruct i; [reflexivity|]. change (coef (a :: p) (S i)) with (coef p i). rewrite <- IH. reflexivity. Qed.

(* psize by vanishing coefficients *)
Lemma psize_le p n : (forall i, (n <= i)%nat -> coef p i = 0) -> (psize p <= n)%nat.
Proof. unfold psize. revert n. induction p as [|a p IH]; intros n H; [cbn; lia|]. cbn [pnorm].
  destruct n as [|n].
  - assert (Hp : (length (pnorm p) <= 0)%nat) by (apply IH; intros i _; apply (H (S i)); lia).
    destruct (pnorm p); [|cbn [length] in Hp; lia]. specialize (H 0%nat ltac:(lia)). cbn in H. subst a.
    rewrite (proj2 (feqb_eq K 0 0) eq_refl). cbn; lia.
  - assert (Hp : (length (pnorm p) <= n)%nat) by (apply IH; intros i Hi; apply (H (S i)); lia).
    destruct (pnorm p); [destruct (feqb a 0); cbn [length]; lia | cbn [length] in *; lia]. Qed.
Lemma coef_ge_psize p i : (psize p <= i)%nat -> coef p i = 0.
Proof. intros H. rewrite <- coef_pnorm. unfold coef. apply nth_overflow. exact H. Qed.
Lemma last_nth' (l : poly) : last l 0 = nth (length l - 1) l 0.
Proof. induction l as [|a l IH]; [reflexivity|]. destruct l as [|b r]; [reflexivity|].
  change (last (a :: b :: r) 0) with (last (b :: r) 0). rewrite IH. cbn [length].
  replace (S (S (length r)) - 1)%nat with (S (length r)) by lia. replace (S (length r) - 1)%nat with (length r) by lia. reflexivity. Qed.
Lemma plc_coef p : plc p = coef p (psize p - 1).
Proof. unfold plc, psize. rewrite last_nth'. apply coef_pnorm. Qed.

(* valuation by vanishing coefficients *)
Lemma coef_lt_pval p i : (i < pval p)%nat -> coef p i = 0.
Proof. revert i. induction p as [|a p IH]; intros i H; [cbn in H; lia|]. cbn [pval] in H.
  destruct (feqb a 0) eqn:E; [|lia]. apply feqb_eq in E. subst a. destruct i; [reflexivity|]. apply (IH i). lia. Qed.
Lemma plow_coef p : plow p = coef p (pval p). Proof. reflexivity. Qed.
Lemma pval_ge p n : pzerob p = false -> (forall i, (i < n)%nat -> coef p i = 0) -> (n <= pval p)%nat.
Proof. intros Hz H. destruct (Nat.le_gt_cases n (pval p)) as [L|L]; [exact L|]. exfalso.
  apply (plow_nz K p Hz). rewrite plow_coef. apply H. exact L. Qed.
Lemma pval_lt_psize p : pzerob p = false -> (pval p < psize p)%nat.
Proof. intros Hz. destruct (Nat.le_gt_cases (psize p) (pval p)) as [L|L]; [|exact L]. exfalso.
  apply (plow_nz K p Hz). rewrite plow_coef. apply coef_ge_psize. exact L. Qed.

(* ---- generic loop ---------------------------------------------------------------- *)
Section Generic.
Variable step : poly -> poly -> option (rat K * poly).
Fixpoint grun (fuel : nat) (N D : poly) : option (list (rat K)) :=
  match fuel with
  | O => None
  | S f => match step N D with
           | None => None
           | Some (q, N2) => if pzerob N2 then Some [q]
                             else match grun f D N2 with Some qs => Some (q :: qs) | None => None end
           end
  end.
Variable Inv : poly -> poly -> Prop.
Variable mu : poly -> poly -> nat.
Hypothesis Hdec : forall N D q N2, Inv N D -> step N D = Some (q, N2) -> pzerob N2 = false ->
  Inv D N2 /\ (mu D N2 < mu N D)%nat.
Lemma grun_irrel f1 : forall f2 N D, Inv N D -> (mu N D < f1)%nat -> (mu N D < f2)%nat -> grun f1 N D = grun f2 N D.
Proof. induction f1 as [|f1 IH]; intros f2 N D HI H1 H2; [lia|]. destruct f2 as [|f2]; [lia|]. cbn [grun].
  destruct (step N D) as [[q N2]|] eqn:S; [|reflexivity]. destruct (pzerob N2) eqn:Z; [reflexivity|].
  destruct (Hdec _ _ _ _ HI S Z) as [HI' Hm]. rewrite (IH f2 D N2 HI'); [reflexivity | lia | lia]. Qed.
Hypothesis Htot : forall N D, Inv N D -> step N D <> None.
Lemma grun_total f : forall N D, Inv N D -> (mu N D < f)%nat -> grun f N D <> None.
Proof. induction f as [|f IH]; intros N D HI H; [lia|]. cbn [grun].
  destruct (step N D) as [[q N2]|] eqn:S; [|exfalso; exact (Htot _ _ HI S)]. destruct (pzerob N2) eqn:Z; [discriminate|].
  destruct (Hdec _ _ _ _ HI S Z) as [HI' Hm]. specialize (IH D N2 HI' ltac:(lia)).
  destruct (grun f D N2); [discriminate | congruence]. Qed.
End Generic.

Lemma cf_run_grun f : forall N D, cf_run f N D = grun cf_quot f N D.
Proof. induction f as [|f IH]; intros N D; [reflexivity|]. cbn [cf_run grun].
  destruct (cf_quot N D) as [[q N2]|]; [|reflexivity]. rewrite IH. reflexivity. Qed.
Lemma icf_run_grun f : forall N D, icf_run f N D = grun (fun N D => Some (icf_quot N D)) f N D.
Proof. induction f as [|f IH]; intros N D; [reflexivity|]. cbn [icf_run grun].
  destruct (icf_quot N D) as [q N2]. rewrite IH. reflexivity. Qed.

(* ---- continued_fraction_coeffs: the degree sum decreases ------------------------- *)
Definition cfInv (N D : poly) : Prop := pzerob N = false /\ pzerob D = false.
Definition cfmu (N D : poly) : nat := (psize N + psize D)%nat.
Lemma cf_dec N D q N2 : cfInv N D -> cf_quot N D = Some (q, N2) -> pzerob N2 = false ->
  cfInv D N2 /\ (cfmu D N2 < cfmu N D)%nat.
Proof. intros [HN HD] Q Z. split; [split; assumption|]. unfold cfmu.
  pose proof (psize_pos K N HN) as PN. pose proof (psize_pos K D HD) as PD.
  assert (Hc : plc N / plc D * plc D = plc N) by (field; apply plc_nz; exact HD).
  enough (psize N2 <= psize N - 1)%nat by lia.
  unfold cf_quot in Q. destruct (psize D <=? psize N)%nat eqn:Cmp.
  - apply Nat.leb_le in Cmp. inversion Q; subst. clear Q. unfold psize at 1. rewrite pnorm_idem. fold (psize (psub N (pmul (pmonom (plc N / plc D) (psize N - psize D)) D))).
    apply psize_le. intros i Hi. unfold pmonom. rewrite coef_psub, coef_pmul_monom.
    destruct (i <? psize N - psize D)%nat eqn:Lt; [apply Nat.ltb_lt in Lt; lia|].
    destruct (Nat.eq_dec i (psize N - 1)) as [->|Ne].
    + replace (psize N - 1 - (psize N - psize D))%nat with (psize D - 1)%nat by lia.
      rewrite <- !plc_coef. rewrite Hc. ring.
    + rewrite (coef_ge_psize N i) by lia. rewrite (coef_ge_psize D) by lia. ring.
  - apply Nat.leb_gt in Cmp. destruct (low_zero (psize D - psize N) D); [|discriminate]. inversion Q; subst. clear Q.
    unfold psize at 1. rewrite pnorm_idem. fold (psize (psub N (pscale (plc N / plc D) (skipn (psize D - psize N) D)))).
    apply psize_le. intros i Hi. rewrite coef_psub, coef_pscale, coef_skipn.
    destruct (Nat.eq_dec i (psize N - 1)) as [->|Ne].
    + replace (psize N - 1 + (psize D - psize N))%nat with (psize D - 1)%nat by lia.
      rewrite <- !plc_coef. rewrite Hc. ring.
    + rewrite (coef_ge_psize N i) by lia. rewrite (coef_ge_psize D) by lia. ring. Qed.
Theorem cf_run_fuel_irrelevant f1 f2 N D : pzerob N = false -> pzerob D = false ->
  (psize N + psize D < f1)%nat -> (psize N + psize D < f2)%nat -> cf_run f1 N D = cf_run f2 N D.
Proof. intros HN HD H1 H2. rewrite !cf_run_grun.
  apply (grun_irrel cf_quot cfInv cfmu cf_dec f1 f2 N D (conj HN HD) H1 H2). Qed.
Theorem cf_coeffs_fuel_irrelevant f1 f2 N D : pzerob N = false -> pzerob D = false ->
  (psize N + psize D < f1)%nat -> (psize N + psize D < f2)%nat -> cf_coeffs f1 N D = cf_coeffs f2 N D.
Proof. intros HN HD H1 H2. unfold cf_coeffs. destruct (psize N <? psize D)%nat.
  - rewrite (cf_run_fuel_irrelevant f1 f2 D N HD HN) by lia. reflexivity.
  - apply cf_run_fuel_irrelevant; assumption. Qed.

(* ---- continued_fraction_inverse_coeffs: the valuations increase ------------------- *)
Section ICFmeasure.
Variable M : nat.
Definition icfInv (N D : poly) : Prop :=
  pzerob N = false /\ pzerob D = false /\ (psize N <= M)%nat /\ (psize D <= M)%nat.
Definition icfmu (N D : poly) : nat :=
  (2 * ((M - pval N) + (M - pval D)) + (if (pval D <? pval N)%nat then 1 else 0))%nat.
Lemma icf_dec N D q N2 : icfInv N D -> Some (icf_quot N D) = Some (q, N2) -> pzerob N2 = false ->
  icfInv D N2 /\ (icfmu D N2 < icfmu N D)%nat.
Proof. intros [HN [HD [SN SD]]] Q Z. inversion Q as [Q']. clear Q. unfold icf_quot in Q'.
  pose proof (pval_lt_psize N HN) as VN. pose proof (pval_lt_psize D HD) as VD. unfold icfmu.
  destruct (pval D <? pval N)%nat eqn:Cmp.
  - injection Q' as Eq EN. subst q N2. apply Nat.ltb_lt in Cmp. split; [repeat split; assumption|].
    destruct (pval N <? pval D)%nat eqn:C2; [apply Nat.ltb_lt in C2; lia|]. lia.
  - apply Nat.ltb_ge in Cmp. injection Q' as Eq EN. subst q N2.
    set (c := plow N / plow D) in *. set (j := (pval D - pval N)%nat) in *.
    set (X := psub N (pscale c (skipn j D))) in *.
    assert (Hc : c * plow D = plow N) by (unfold c; field; apply plow_nz; exact HD).
    assert (SX : (psize (pnorm X) <= M)%nat).
    { apply psize_le. intros i Hi. rewrite coef_pnorm. unfold X. rewrite coef_psub, coef_pscale, coef_skipn.
      rewrite (coef_ge_psize N i) by lia. rewrite (coef_ge_psize D) by lia. ring. }
    assert (VX : (S (pval N) <= pval (pnorm X))%nat).
    { apply (pval_ge _ _ Z). intros i Hi. rewrite coef_pnorm. unfold X. rewrite coef_psub, coef_pscale, coef_skipn.
      destruct (Nat.eq_dec i (pval N)) as [->|Ne].
      - replace (pval N + j)%nat with (pval D) by (unfold j; lia). rewrite <- !plow_coef, Hc. ring.
      - rewrite (coef_lt_pval N i) by lia. rewrite (coef_lt_pval D) by (unfold j; lia). ring. }
    pose proof (pval_lt_psize _ Z) as VX2.
    split; [repeat split; assumption|].
    destruct (pval (pnorm X) <? pval D)%nat; lia. Qed.
Lemma icf_run_total_M f N D : icfInv N D -> (icfmu N D < f)%nat -> icf_run f N D <> None.
Proof. intros HI H. rewrite icf_run_grun.
  apply (grun_total (fun N D => Some (icf_quot N D)) icfInv icfmu icf_dec (fun _ _ _ => ltac:(discriminate)) f N D HI H). Qed.
Lemma icf_run_irrel_M f1 f2 N D : icfInv N D -> (icfmu N D < f1)%nat -> (icfmu N D < f2)%nat -> icf_run f1 N D = icf_run f2 N D.
Proof. intros HI H1 H2. rewrite !icf_run_grun.
  apply (grun_irrel (fun N D => Some (icf_quot N D)) icfInv icfmu icf_dec f1 f2 N D HI H1 H2). Qed.
End ICFmeasure.

Theorem icf_run_terminates f N D : pzerob N = false -> pzerob D = false ->
  (4 * Nat.max (psize N) (psize D) + 1 < f)%nat -> exists qs, icf_run f N D = Some qs.
Proof. intros HN HD H. set (M := Nat.max (psize N) (psize D)) in *.
  assert (HI : icfInv M N D) by (repeat split; try assumption; unfold M; lia).
  assert (Hm : (icfmu M N D < f)%nat) by (unfold icfmu; destruct (pval D <? pval N)%nat; lia).
  pose proof (icf_run_total_M M f N D HI Hm) as T. destruct (icf_run f N D) as [qs|]; [exists qs; reflexivity | congruence]. Qed.
Theorem icf_run_fuel_irrelevant f1 f2 N D : pzerob N = false -> pzerob D = false ->
  (4 * Nat.max (psize N) (psize D) + 1 < f1)%nat -> (4 * Nat.max (psize N) (psize D) + 1 < f2)%nat ->
  icf_run f1 N D = icf_run f2 N D.
Proof. intros HN HD H1 H2. set (M := Nat.max (psize N) (psize D)) in *.
  assert (HI : icfInv M N D) by (repeat split; try assumption; unfold M; lia).
  apply (icf_run_irrel_M M f1 f2 N D HI); unfold icfmu; destruct (pval D <? pval N)%nat; lia. Qed.

(* ---- the fuel of the Cauer models is enough ------------------------------------------ *)
Lemma cf_fuel_bound (N D : poly) : (4 * Nat.max (psize N) (psize D) + 1 < cf_fuel N D)%nat /\
  (4 * Nat.max (psize D) (psize N) + 1 < cf_fuel N D)%nat /\ (psize N + psize D < cf_fuel N D)%nat.
Proof. unfold cf_fuel. pose proof (psize_le_length K N). pose proof (psize_le_length K D). lia. Qed.
(* the Cauer model with ANY larger fuel gives the same answer: no refusal is due to the fuel *)
Definition synth_cauer_fuel (fuel : nat) (sp : ladder) (N D : poly) : res (option (net K)) :=
  if pzerob N || pzerob D then Err
  else if l_src_inv sp && (psize N <=? 1)%nat && (psize D <=? 1)%nat then Err
  else let A := if l_src_inv sp then D else N in
       let B := if l_src_inv sp then N else D in
       match (if l_et sp then icf_run fuel A B else cf_coeffs fuel A B) with
       | None => Err
       | Some qs => ladder_fold sp qs 0
       end.
Theorem synth_cauer_fuel_independent sp N D fuel : (cf_fuel N D <= fuel)%nat ->
  synth_cauer_fuel fuel sp N D = synth_cauer sp N D.
Proof. intros H. unfold synth_cauer_fuel, synth_cauer. destruct (pzerob N || pzerob D) eqn:Z0; [reflexivity|].
  apply orb_false_iff in Z0. destruct Z0 as [ZN ZD].
  destruct (l_src_inv sp && (psize N <=? 1)%nat && (psize D <=? 1)%nat); [reflexivity|].
  destruct (cf_fuel_bound N D) as [B1 [B2 B3]].
  destruct (l_et sp), (l_src_inv sp).
  - rewrite (icf_run_fuel_irrelevant fuel (cf_fuel N D) D N ZD ZN) by lia. reflexivity.
  - rewrite (icf_run_fuel_irrelevant fuel (cf_fuel N D) N D ZN ZD) by lia. reflexivity.
  - rewrite (cf_coeffs_fuel_irrelevant fuel (cf_fuel N D) D N ZD ZN) by lia. reflexivity.
  - rewrite (cf_coeffs_fuel_irrelevant fuel (cf_fuel N D) N D ZN ZD) by lia. reflexivity. Qed.
(* continued_fraction_inverse_coeffs never fails on non-zero arguments (no PolynomialError, no fuel) *)
Theorem synth_cauer_icf_total sp (N D : poly) : pzerob N = false -> pzerob D = false ->
  exists qs, icf_run (cf_fuel N D) (if l_src_inv sp then D else N) (if l_src_inv sp then N else D) = Some qs.
Proof. intros ZN ZD. destruct (cf_fuel_bound N D) as [B1 [B2 B3]].
  destruct (l_src_inv sp); apply icf_run_terminates; assumption || lia. Qed.
End Term.
Arguments coef {K}. Arguments grun {K}. Arguments synth_cauer_fuel {K}.
