(* RatfunCorr — executable helpers for the C11 correspondence evaluation over
   the Gaussian rationals [QcIF]: the exact interpretation E3 of exp used by the
   harness (E3 (m + n i) = 3^m 5^n on Gaussian integers), conjugate test, and
   the boolean checks run by [Eval vm_compute] in the generated cases_k.v. *)
Require Import LT.FieldSec LT.PolyQ LT.QcI LT.RatfunFmt LT.RatfunCF.
Local Open Scope F_scope.

Definition zpow (b : Qc) (z : Z) : Qc :=
  match z with Z0 => 1%Qc | Zpos p => Qcpower b (Pos.to_nat p) | Zneg p => Qcinv (Qcpower b (Pos.to_nat p)) end.
Definition E3 (q : QcIF) : QcIF :=
  QI (zpow (qc 3 1) (Qnum (this (re q))) * zpow (qc 5 1) (Qnum (this (im q))))%Qc 0%Qc.
Lemma E3_0 : E3 (0 : QcIF) = (1 : QcIF).
Proof. apply qci_eq; vm_compute; reflexivity. Qed.

Definition isconj (a b : QcIF) : bool := qci_eqb a (ciconj b).
Definition veq (a b : QcIF) : bool := qci_eqb a b.
Fixpoint veql (l m : list QcIF) : bool :=
  match l, m with [] , [] => true | a :: l', b :: m' => veq a b && veql l' m' | _, _ => false end.
Definition rootlist := list (QcIF * nat).

(* reported roots: a full certificate when the multiplicities add up to the
   degree, otherwise the product of the reported factors must divide *)
Definition chk_roots (A : list QcIF) (l : rootlist) : bool :=
  if (S (mult_sum l) =? psize A)%nat then roots_cert A l else roots_partial A l.
Definition roots_full (A : list QcIF) (l : rootlist) : bool := (S (mult_sum l) =? psize A)%nat.

(* partfrac(combine_conjugates=True): Some (v, true) -> compare; Some (_, false)
   -> a partner of order <> 1 was used, the model value is not claimed (left to
   the oracle); None -> the model predicts a Python exception *)
Definition chk_pf_cc (r : option (QcIF * bool)) (obs : QcIF) : bool :=
  match r with Some (v, true) => veq v obs | Some (_, false) => true | None => false end.
Definition pf_cc_claimed (r : option (QcIF * bool)) : bool :=
  match r with Some (_, true) => true | _ => false end.

(* continued fraction: compare every coefficient value and the nested value *)
Definition chk_cf (N D : list QcIF) (x : QcIF) (obs_coeffs : list QcIF) (obs_val : QcIF) : bool :=
  match cf_coeffs (S (length N + length D)) N D with
  | Some qs => veql (map (fun q => rat_eval q x) qs) obs_coeffs && veq (cf_val qs x) obs_val
  | None => false
  end.
Definition cf_defined (N D : list QcIF) : bool :=
  match cf_coeffs (S (length N + length D)) N D with Some _ => true | None => false end.

Definition chk_cfi (N D : list QcIF) (x : QcIF) (obs_coeffs : list QcIF) (obs_val : QcIF) : bool :=
  match cfi_run (S (S (2 * (length N + length D)))) N D with
  | Some qs => veql (map (fun q => rat_eval q x) qs) obs_coeffs && veq (cf_val qs x) obs_val
  | None => false
  end.

(* irrational roots: A = lc * prod m^n over the minimal polynomials, accounting for the full degree *)
Definition chk_minpoly (A : list QcIF) (l : list (list QcIF * nat)) : bool :=
  minpoly_cert A l && (S (minpoly_degree l) =? psize A)%nat.

(* decomposition *)
Definition chk_decomp (m : decomp QcIF) (B A : list QcIF) (d u : QcIF) : bool :=
  reqb (B, A) (dB m, dA m) && veq (dd m) d && veq (du m) u.

Definition failing (l : list (nat * bool)) : list nat := map fst (filter (fun p => negb (snd p)) l).
