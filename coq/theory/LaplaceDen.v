(* LaplaceDen - over the reals, the MEANING the model of LaplaceModel.v assigns to a classical product of
   factors  c * f1 * f2 * ...  (the normal form [prod_nf]) is the pointwise product of the real functions
   the factors stand for, on t > 0:

     leaf_nf_fun                 one factor: nf_fun (leaf_nf l) = leaf_fun l          (t > 0)
     nmul_fun                    nmul of impulse-free normal forms is the pointwise product (all t)
     prod_nf_fun                 nf_fun (prod_nf fs) = prod_fun fs                     (t > 0)
     classical_term_is_integral  hence the value of the normal form is the defining integral
                                 lim int_0^b c * f1(t) * f2(t) * ... e^{-st} dt  of that very function

   Heaviside is 1 at 0 (so that it agrees with [delayed] everywhere); the value at a single point is
   irrelevant for the integral.  Depends only on the classical real-number axioms of the standard library. *)
From Coq Require Import Reals Lra Lia.
From Coquelicot Require Import Coquelicot.
Require Import LT.FieldSec LT.PolyQ LT.ExpPoly LT.LaplaceSig LT.LaplaceModel LT.LaplaceAnalysis LT.LaplaceLink LT.LaplacePointwise.
Open Scope R_scope.

Notation leaf_nfR := (leaf_nf RFld exp 0 (fun _ => true) Rneg).
Notation prod_nfR := (prod_nf RFld exp 0 (fun _ => true) Rneg).
Notation step_nfR := (step_nf RFld (fun _ => true) Rneg).
Notation ramp_nfR := (ramp_nf RFld (fun _ => true) Rneg).
Notation dly := LaplaceAnalysis.delayed.

Definition Hv (x : R) : R := if Rle_dec 0 x then 1 else 0.
Definition rampR (x : R) : R := x * Hv x.
Fixpoint polyR (p : list R) (t : R) : R := match p with [] => 0 | a :: p' => a + t * polyR p' t end.
Definition leaf_fun (l : leaf RFld) (t : R) : R :=
  match l with
  | LPowT n => t ^ n
  | LExp a b => exp (a * t + b)
  | LSinh w p => sinh (w * t + p)
  | LCosh w p => cosh (w * t + p)
  | LU a b => Hv (a * t + b)
  | LRamp a b => rampR (a * t + b)
  | LRect a b => Hv (a * t + b + 1 / 2) - Hv (a * t + b - 1 / 2)
  | LTri a b => rampR (a * t + b + 1) - 2 * rampR (a * t + b) + rampR (a * t + b - 1)
  | LRstep a b => rampR (a * t + b) - rampR (a * t + b - 1)
  | LPoly p => polyR p t
  | _ => 0
  end.
Definition real_classical (l : leaf RFld) : bool :=
  match l with
  | LPowT _ | LExp _ _ | LSinh _ _ | LCosh _ _ | LU _ _ | LRamp _ _ | LRect _ _ | LTri _ _
  | LRstep _ _ => true
  | _ => false
  end.
Fixpoint prod_fun (fs : list (leaf RFld)) (t : R) : R :=
  match fs with [] => 1 | l :: fs' => leaf_fun l t * prod_fun fs' t end.
Fixpoint regular (N : nf RFld) : Prop :=
  match N with [] => True | NReg _ _ :: N' => regular N' | NSing _ _ :: _ => False end.

Ltac rf := cbn [fadd fmul fsub fopp fdiv finv f0 f1 RFld car] in *.

(* ---- normal forms as functions: append, scaling --------------------------------------------------------- *)
Lemma nf_fun_app (N M : nf RFld) t : nf_fun (N ++ M) t = nf_fun N t + nf_fun M t.
Proof. induction N as [|[[d|] r|T q] N IH]; cbn [app nf_fun]; rewrite ?IH; ring. Qed.
Lemma regular_app (N M : nf RFld) : regular (N ++ M) <-> regular N /\ regular M.
Proof. induction N as [|[d r|T q] N IH]; cbn [app regular]; tauto. Qed.
Lemma sval_rscale (c : R) (r : list (rterm RFld)) t : sval (@rscale RFld c r) t = c * sval r t.
Proof. induction r as [|[[c0 n] p] r IH]; cbn [rscale map sval]; [ring|]. fold (rscale (K:=RFld) c r). rewrite IH. rf.
  unfold Rdiv. ring. Qed.
Lemma nf_fun_nscale (c : R) (N : nf RFld) t : nf_fun (@nscale RFld c N) t = c * nf_fun N t.
Proof. induction N as [|e N' IH]; [cbn [nscale map nf_fun]; ring|].
  change (@nscale RFld c (e :: N')) with (@nent_scale RFld c e :: @nscale RFld c N').
  destruct e as [[d|] r|T q]; cbn [nent_scale nf_fun]; rewrite IH.
  - unfold dly. destruct (Rlt_dec t d); [|rewrite sval_rscale]; ring.
  - rewrite sval_rscale. ring.
  - reflexivity. Qed.
Lemma regular_nscale (c : R) (N : nf RFld) : regular N -> regular (@nscale RFld c N).
Proof. induction N as [|[d r|T q] N IH]; cbn [nscale map nent_scale regular]; tauto. Qed.
Lemma oapp_some (a b : option (nf RFld)) (P : nf RFld) : oapp a b = Some P ->
  exists x y, a = Some x /\ b = Some y /\ P = x ++ y.
Proof. destruct a as [x|], b as [y|]; cbn [oapp]; try discriminate. intros H. injection H as <-. exists x, y. auto. Qed.
Lemma oscale_some (c : R) (a : option (nf RFld)) (P : nf RFld) : oscale RFld c a = Some P ->
  exists x, a = Some x /\ P = @nscale RFld c x.
Proof. destruct a as [x|]; cbn [oscale]; try discriminate. intros H. injection H as <-. exists x. auto. Qed.

(* ---- elementary values ------------------------------------------------------------------------------------ *)
Lemma sval_one_r t : sval (one_r RFld) t = 1.
Proof. unfold one_r. cbn [sval]. rf. change (INR (fact 0)) with 1. rewrite Rmult_0_l, exp_0. cbn [pow]. field. Qed.
Lemma sval_lin1 (a : R) t : sval [((a, 1%nat, @f0 RFld) : rterm RFld)] t = a * t.
Proof. cbn [sval]. rf. change (INR (fact 1)) with 1. rewrite Rmult_0_l, exp_0. cbn [pow]. field. Qed.
Lemma sval_lin (a b : R) t : sval [((a, 1%nat, @f0 RFld) : rterm RFld); (b, O, @f0 RFld)] t = a * t + b.
Proof. cbn [sval]. rf. change (INR (fact 1)) with 1. change (INR (fact 0)) with 1. rewrite Rmult_0_l, exp_0. cbn [pow]. field. Qed.
Lemma pos_R (a : R) : pos RFld Rneg a = true -> 0 < a.
Proof. unfold pos. intros H. apply andb_true_iff in H. destruct H as [H1 H2]. apply negb_true_iff in H1, H2.
  apply feqb_neq in H2. unfold Rneg in H1. destruct (Rlt_dec a 0); [discriminate|]. rf. lra. Qed.
Lemma half_R : half RFld = 1 / 2.
Proof. unfold half. rf. field. Qed.

Lemma lin_sign (a b t : R) : 0 < a -> (0 <= a * t + b <-> - b / a <= t).
Proof. intros Ha. set (T := - b / a). assert (Hb : b = - T * a) by (unfold T; field; lra). rewrite Hb.
  split; intros H; nra. Qed.
Lemma Hv_1 x : 0 <= x -> Hv x = 1.
Proof. intros H. unfold Hv. destruct (Rle_dec 0 x); [reflexivity | lra]. Qed.
Lemma Hv_0 x : x < 0 -> Hv x = 0.
Proof. intros H. unfold Hv. destruct (Rle_dec 0 x); [lra | reflexivity]. Qed.

(* the delay test of step_nf / ramp_nf *)
Lemma delay_test (T : R) : (Rneg T || feqb (K:=RFld) T (@f0 RFld) = true -> T <= 0) /\
                           (Rneg T || feqb (K:=RFld) T (@f0 RFld) = false -> 0 < T).
Proof. split; intros H.
  - apply orb_true_iff in H. destruct H as [H|H].
    + unfold Rneg in H. destruct (Rlt_dec T 0); [lra | discriminate].
    + apply feqb_eq in H. rf. lra.
  - apply orb_false_iff in H. destruct H as [H1 H2]. apply feqb_neq in H2. unfold Rneg in H1.
    destruct (Rlt_dec T 0); [discriminate|]. rf. lra. Qed.

Lemma step_nf_fun (a b : R) (N : nf RFld) : step_nfR a b = Some N ->
  regular N /\ forall t, 0 < t -> nf_fun N t = Hv (a * t + b).
Proof. unfold step_nf. cbv beta. cbn [andb]. destruct (pos RFld Rneg a) eqn:Hp; [|discriminate]. apply pos_R in Hp.
  cbv zeta. intros H. injection H as <-. rf. set (T := - b / a).
  destruct (delay_test T) as [D1 D2]. match goal with |- context [if ?c then _ else _] => destruct c eqn:E end;
    [specialize (D1 E); clear D2 | specialize (D2 E); clear D1].
  - split; [exact I|]. intros t Ht. cbn [nf_fun]. rewrite sval_one_r. rewrite Hv_1; [ring|].
    apply lin_sign; [exact Hp|]. fold T. lra.
  - split; [exact I|]. intros t Ht. cbn [nf_fun]. unfold dly. destruct (Rlt_dec t T) as [L|L].
    + rewrite Hv_0; [ring|]. apply Rnot_le_lt. intros C. apply lin_sign in C; [|exact Hp]. fold T in C. lra.
    + rewrite sval_one_r. rewrite Hv_1; [ring|]. apply lin_sign; [exact Hp|]. fold T. lra. Qed.

Lemma ramp_nf_fun (a b : R) (N : nf RFld) : ramp_nfR a b = Some N ->
  regular N /\ forall t, 0 < t -> nf_fun N t = rampR (a * t + b).
Proof. unfold ramp_nf. cbv beta. cbn [andb]. destruct (pos RFld Rneg a) eqn:Hp; [|discriminate]. apply pos_R in Hp.
  cbv zeta. intros H. injection H as <-. rf. set (T := - b / a).
  assert (Hb : b = - T * a) by (unfold T; field; lra).
  destruct (delay_test T) as [D1 D2]. match goal with |- context [if ?c then _ else _] => destruct c eqn:E end;
    [specialize (D1 E); clear D2 | specialize (D2 E); clear D1].
  - split; [exact I|]. intros t Ht. cbn [nf_fun]. rewrite sval_lin. unfold rampR. rewrite Hv_1; [ring|].
    apply lin_sign; [exact Hp|]. fold T. lra.
  - split; [exact I|]. intros t Ht. cbn [nf_fun]. unfold dly, rampR. destruct (Rlt_dec t T) as [L|L].
    + rewrite Hv_0; [ring|]. apply Rnot_le_lt. intros C. apply lin_sign in C; [|exact Hp]. fold T in C. lra.
    + rewrite sval_lin1. rewrite Hv_1; [rewrite Hb; ring|]. apply lin_sign; [exact Hp|]. fold T. lra. Qed.

(* ---- 1. one factor ---------------------------------------------------------------------------------------- *)
Lemma leaf_powt n (N : nf RFld) : leaf_nfR (LPowT n) = Some N ->
  regular N /\ forall t, 0 < t -> nf_fun N t = leaf_fun (LPowT n) t.
Proof. cbn [leaf_nf]. intros H. injection H as <-. split; [exact I|]. intros t _. cbn [nf_fun sval leaf_fun].
  rewrite fnat_RFld, natfact_fact. rf. rewrite Rmult_0_l, exp_0. field. apply INR_fact_nz. Qed.
Lemma leaf_exp (a b : RFld) (N : nf RFld) : leaf_nfR (LExp a b) = Some N ->
  regular N /\ forall t, 0 < t -> nf_fun N t = leaf_fun (LExp a b) t.
Proof. cbn [leaf_nf]. intros H. injection H as <-. split; [exact I|]. intros t _. cbn [nf_fun sval leaf_fun].
  change (INR (fact 0)) with 1. rewrite exp_plus. cbn [pow]. field. Qed.
Lemma leaf_sinh (w p : RFld) (N : nf RFld) : leaf_nfR (LSinh w p) = Some N ->
  regular N /\ forall t, 0 < t -> nf_fun N t = leaf_fun (LSinh w p) t.
Proof. cbn [leaf_nf]. intros H. injection H as <-. split; [exact I|]. intros t _. cbn [nf_fun sval leaf_fun].
  change (INR (fact 0)) with 1. rf. unfold sinh. replace (- (w * t + p)) with (- w * t + - p) by ring. rewrite !exp_plus.
  cbn [pow]. field. Qed.
Lemma leaf_cosh (w p : RFld) (N : nf RFld) : leaf_nfR (LCosh w p) = Some N ->
  regular N /\ forall t, 0 < t -> nf_fun N t = leaf_fun (LCosh w p) t.
Proof. cbn [leaf_nf]. intros H. injection H as <-. split; [exact I|]. intros t _. cbn [nf_fun sval leaf_fun].
  change (INR (fact 0)) with 1. rf. unfold cosh. replace (- (w * t + p)) with (- w * t + - p) by ring. rewrite !exp_plus.
  cbn [pow]. field. Qed.
Lemma leaf_u (a b : RFld) (N : nf RFld) : leaf_nfR (LU a b) = Some N ->
  regular N /\ forall t, 0 < t -> nf_fun N t = leaf_fun (LU a b) t.
Proof. cbn [leaf_nf leaf_fun]. apply step_nf_fun. Qed.
Lemma leaf_ramp (a b : RFld) (N : nf RFld) : leaf_nfR (LRamp a b) = Some N ->
  regular N /\ forall t, 0 < t -> nf_fun N t = leaf_fun (LRamp a b) t.
Proof. cbn [leaf_nf leaf_fun]. apply ramp_nf_fun. Qed.
Lemma leaf_rect (a b : RFld) (N : nf RFld) : leaf_nfR (LRect a b) = Some N ->
  regular N /\ forall t, 0 < t -> nf_fun N t = leaf_fun (LRect a b) t.
Proof. cbn [leaf_nf leaf_fun]. intros H. apply oapp_some in H. destruct H as [x [y [H1 [H2 ->]]]].
  apply oscale_some in H2. destruct H2 as [y' [H2 ->]].
  apply step_nf_fun in H1. apply step_nf_fun in H2. destruct H1 as [R1 F1], H2 as [R2 F2].
  split; [apply regular_app; split; [exact R1 | apply regular_nscale; exact R2]|].
  intros t Ht. rewrite nf_fun_app, nf_fun_nscale, (F1 t Ht), (F2 t Ht), half_R. rf.
  replace (a * t + (b + 1 / 2)) with (a * t + b + 1 / 2) by ring.
  replace (a * t + (b - 1 / 2)) with (a * t + b - 1 / 2) by ring. ring. Qed.
Lemma leaf_tri (a b : RFld) (N : nf RFld) : leaf_nfR (LTri a b) = Some N ->
  regular N /\ forall t, 0 < t -> nf_fun N t = leaf_fun (LTri a b) t.
Proof. cbn [leaf_nf leaf_fun]. intros H. apply oapp_some in H. destruct H as [x [y [H1 [H2 ->]]]].
  apply oapp_some in H2. destruct H2 as [y1 [y2 [H2 [H3 ->]]]].
  apply oscale_some in H2. destruct H2 as [y' [H2 ->]].
  apply ramp_nf_fun in H1. apply ramp_nf_fun in H2. apply ramp_nf_fun in H3.
  destruct H1 as [R1 F1], H2 as [R2 F2], H3 as [R3 F3].
  split; [apply regular_app; split; [exact R1 | apply regular_app; split; [apply regular_nscale; exact R2 | exact R3]]|].
  intros t Ht. rewrite nf_fun_app, nf_fun_app, nf_fun_nscale, (F1 t Ht), (F2 t Ht), (F3 t Ht). rf.
  replace (a * t + (b + 1)) with (a * t + b + 1) by ring.
  replace (a * t + (b - 1)) with (a * t + b - 1) by ring. ring. Qed.
Lemma leaf_rstep (a b : RFld) (N : nf RFld) : leaf_nfR (LRstep a b) = Some N ->
  regular N /\ forall t, 0 < t -> nf_fun N t = leaf_fun (LRstep a b) t.
Proof. cbn [leaf_nf leaf_fun]. intros H. apply oapp_some in H. destruct H as [x [y [H1 [H2 ->]]]].
  apply oscale_some in H2. destruct H2 as [y' [H2 ->]].
  apply ramp_nf_fun in H1. apply ramp_nf_fun in H2. destruct H1 as [R1 F1], H2 as [R2 F2].
  split; [apply regular_app; split; [exact R1 | apply regular_nscale; exact R2]|].
  intros t Ht. rewrite nf_fun_app, nf_fun_nscale, (F1 t Ht), (F2 t Ht). rf.
  replace (a * t + (b - 1)) with (a * t + b - 1) by ring. ring. Qed.

(* the meaning of one factor is the factor's real function on t > 0 *)
Lemma sval_poly_r (p : list R) : forall k t, sval (poly_r RFld k p) t = t ^ k * polyR p t.
Proof. induction p as [|a p IH]; intros k t; cbn [poly_r sval polyR]; [ring|]. rewrite IH.
  rewrite fnat_RFld, natfact_fact. rf. rewrite Rmult_0_l, exp_0. rewrite <- tech_pow_Rmult.
  pose proof (INR_fact_nz k) as Hf. field. exact Hf. Qed.
Lemma leaf_poly (p : list RFld) (N : nf RFld) : leaf_nfR (LPoly p) = Some N ->
  regular N /\ forall t, 0 < t -> nf_fun N t = leaf_fun (LPoly p) t.
Proof. cbn [leaf_nf]. intros H. injection H as <-. split; [exact I|]. intros t _. cbn [nf_fun leaf_fun].
  rewrite sval_poly_r. cbn [pow]. ring. Qed.
Theorem leaf_nf_fun (l : leaf RFld) (N : nf RFld) : real_classical l = true -> leaf_nfR l = Some N ->
  regular N /\ forall t, 0 < t -> nf_fun N t = leaf_fun l t.
Proof. intros Hc H. destruct l; cbn [real_classical] in Hc; try discriminate Hc; clear Hc;
  first [ exact (leaf_powt _ _ H) | exact (leaf_exp _ _ _ H) | exact (leaf_sinh _ _ _ H) | exact (leaf_cosh _ _ _ H)
        | exact (leaf_u _ _ _ H) | exact (leaf_ramp _ _ _ H) | exact (leaf_rect _ _ _ H) | exact (leaf_tri _ _ _ H)
        | exact (leaf_rstep _ _ _ H) | exact (leaf_poly _ _ H) ]. Qed.

(* ---- 2. products of normal forms -------------------------------------------------------------------------- *)
Definition ent_fun (e : nent RFld) (t : R) : R :=
  match e with NReg None r => sval r t | NReg (Some d) r => dly d (sval r) t | NSing _ _ => 0 end.
Definition ent_reg (e : nent RFld) : Prop := match e with NReg _ _ => True | NSing _ _ => False end.
Lemma nf_fun_cons e (M : nf RFld) t : nf_fun (e :: M) t = ent_fun e t + nf_fun M t.
Proof. destruct e as [[d|] r|T q]; cbn [nf_fun ent_fun]; ring. Qed.
Lemma regular_cons e (M : nf RFld) : regular (e :: M) <-> ent_reg e /\ regular M.
Proof. destruct e as [d r|T q]; cbn [regular ent_reg]; tauto. Qed.

Lemma emul_fun (a b : nent RFld) (P : nf RFld) : ent_reg a -> ent_reg b -> emul RFld exp Rneg a b = Some P ->
  regular P /\ forall t, nf_fun P t = ent_fun a t * ent_fun b t.
Proof. destruct a as [[d1|] r1|T1 q1]; [| |intros []]; (destruct b as [[d2|] r2|T2 q2]; [| |intros _ []]); intros _ _; cbn [emul].
  - destruct (Rneg (@fsub RFld d1 d2)) eqn:E; intros H; injection H as <-; (split; [exact I|]); intros t;
      cbn [nf_fun ent_fun]; unfold dly; unfold Rneg in E; rf; destruct (Rlt_dec (d1 - d2) 0) as [L|L]; try discriminate E.
    + destruct (Rlt_dec t d2), (Rlt_dec t d1); try lra; try ring.
      rewrite sval_tmul, sval_tshift. replace (t - d2 + (d2 - d1)) with (t - d1) by ring. ring.
    + destruct (Rlt_dec t d1), (Rlt_dec t d2); try lra; try ring.
      rewrite sval_tmul, sval_tshift. replace (t - d1 + (d1 - d2)) with (t - d2) by ring. ring.
  - intros H; injection H as <-. split; [exact I|]. intros t. cbn [nf_fun ent_fun]. unfold dly.
    destruct (Rlt_dec t d1); [ring|]. rewrite sval_tmul, sval_tshift. replace (t - d1 + d1) with t by ring. ring.
  - intros H; injection H as <-. split; [exact I|]. intros t. cbn [nf_fun ent_fun]. unfold dly.
    destruct (Rlt_dec t d2); [ring|]. rewrite sval_tmul, sval_tshift. replace (t - d2 + d2) with t by ring. ring.
  - intros H; injection H as <-. split; [exact I|]. intros t. cbn [nf_fun ent_fun]. rewrite sval_tmul. ring.
Qed.

Lemma emul_row_fun (a : nent RFld) (M P : nf RFld) : ent_reg a -> regular M -> emul_row RFld exp Rneg a M = Some P ->
  regular P /\ forall t, nf_fun P t = ent_fun a t * nf_fun M t.
Proof. intros Ha. revert P. induction M as [|b M IH]; intros P HM; cbn [emul_row].
  - intros H. injection H as <-. split; [exact I|]. intros t. cbn [nf_fun]. ring.
  - apply regular_cons in HM. destruct HM as [Hb HM]. intros H. apply oapp_some in H. destruct H as [x [y [H1 [H2 ->]]]].
    destruct (emul_fun a b x Ha Hb H1) as [R1 F1]. destruct (IH y HM H2) as [R2 F2].
    split; [apply regular_app; split; assumption|]. intros t. rewrite nf_fun_app, F1, F2, nf_fun_cons. ring.
Qed.

Lemma nmul_fun_aux (N M P : nf RFld) : regular N -> regular M -> nmul RFld exp Rneg N M = Some P ->
  regular P /\ forall t, nf_fun P t = nf_fun N t * nf_fun M t.
Proof. revert P. induction N as [|a N' IH]; intros P HN HM; cbn [nmul].
  - intros H. injection H as <-. split; [exact I|]. intros t. cbn [nf_fun]. ring.
  - apply regular_cons in HN. destruct HN as [Ha HN]. intros H. apply oapp_some in H. destruct H as [x [y [H1 [H2 ->]]]].
    destruct (emul_row_fun a M x Ha HM H1) as [R1 F1]. destruct (IH y HN HM H2) as [R2 F2].
    split; [apply regular_app; split; assumption|]. intros t. rewrite nf_fun_app, F1, F2, nf_fun_cons. ring.
Qed.

(* products of normal forms are pointwise products (no impulses) *)
Theorem nmul_fun (N M R : nf RFld) : regular N -> regular M -> nmul RFld exp Rneg N M = Some R ->
  regular R /\ forall t, nf_fun R t = nf_fun N t * nf_fun M t.
Proof. apply nmul_fun_aux. Qed.

(* ---- 3. products of factors ------------------------------------------------------------------------------- *)
Lemma prod_nf_cons2 (l l2 : leaf RFld) (fs : list (leaf RFld)) :
  prod_nfR (l :: l2 :: fs) =
  match leaf_nfR l, prod_nfR (l2 :: fs) with Some a, Some b => nmul RFld exp Rneg a b | _, _ => None end.
Proof. reflexivity. Qed.

(* the meaning of a product of factors is the pointwise product of the factors *)
Theorem prod_nf_fun (fs : list (leaf RFld)) (N : nf RFld) : forallb real_classical fs = true -> prod_nfR fs = Some N ->
  regular N /\ forall t, 0 < t -> nf_fun N t = prod_fun fs t.
Proof. revert N. induction fs as [|l fs IH]; intros N Hc H.
  - cbn [prod_nf] in H. injection H as <-. split; [exact I|]. intros t _. cbn [nf_fun prod_fun]. rewrite sval_one_r. ring.
  - cbn [forallb] in Hc. apply andb_true_iff in Hc. destruct Hc as [Hl Hc]. destruct fs as [|l2 fs].
    + cbn [prod_nf] in H. destruct (leaf_nf_fun l N Hl H) as [R1 F1]. split; [exact R1|].
      intros t Ht. rewrite (F1 t Ht). cbn [prod_fun]. ring.
    + rewrite prod_nf_cons2 in H. destruct (leaf_nfR l) as [a|] eqn:Ea; [|discriminate H].
      destruct (prod_nfR (l2 :: fs)) as [b|] eqn:Eb; [|discriminate H].
      destruct (leaf_nf_fun l a Hl Ea) as [R1 F1]. destruct (IH b Hc eq_refl) as [R2 F2].
      destruct (nmul_fun a b N R1 R2 H) as [R3 F3]. split; [exact R3|].
      intros t Ht. rewrite F3, (F1 t Ht), (F2 t Ht). reflexivity.
Qed.

(* ---- 4. the value of the model's normal form is the defining integral of  c * f1 * f2 * ...  -------------- *)
Theorem classical_term_is_integral (c : R) (fs : list (leaf RFld)) (N : nf RFld) (s : R) :
  forallb real_classical fs = true -> prod_nfR fs = Some N -> nf_classical s N ->
  LT (fun t => c * prod_fun fs t) s (c * nf_val RFld exp s N).
Proof. intros Hc H Hcl. destruct (prod_nf_fun fs N Hc H) as [_ F].
  apply (LT_ext (fun t => c * nf_fun N t)); [intros t Ht; rewrite (F t Ht); reflexivity|].
  apply LT_scal. apply nf_is_integral. exact Hcl. Qed.

(* ---- 5. distributing a polynomial factor (expand(deep=False) in LaplaceTransformer.term) does not change the function:
   the sum of the products that `poly_expand` sends through term again IS the original product ------------------- *)
Fixpoint mono_sum (ms : list (mono RFld)) (t : R) : R :=
  match ms with [] => 0 | (c, fs) :: ms' => c * prod_fun fs t + mono_sum ms' t end.
Fixpoint polys_fun (fs : list (leaf RFld)) (t : R) : R :=
  match fs with [] => 1 | LPoly p :: fs' => polyR p t * polys_fun fs' t | _ :: fs' => polys_fun fs' t end.
Fixpoint powts_fun (fs : list (leaf RFld)) (t : R) : R :=
  match fs with [] => 1 | LPowT n :: fs' => t ^ n * powts_fun fs' t | _ :: fs' => powts_fun fs' t end.
Fixpoint npoly (fs : list (leaf RFld)) : nat :=
  match fs with [] => O | LPoly _ :: fs' => S (npoly fs') | _ :: fs' => npoly fs' end.
Fixpoint npowt (fs : list (leaf RFld)) : nat :=
  match fs with [] => O | LPowT _ :: fs' => S (npowt fs') | _ :: fs' => npowt fs' end.
Lemma prod_fun_split (fs : list (leaf RFld)) t :
  prod_fun fs t = polys_fun fs t * powts_fun fs t * prod_fun (strip_poly RFld fs) t.
Proof. induction fs as [|l fs IH]; cbn [prod_fun polys_fun powts_fun strip_poly filter]; [ring|].
  fold (strip_poly RFld fs). destruct l; cbn [leaf_fun prod_fun]; rewrite IH; ring. Qed.
Lemma polys_one (fs : list (leaf RFld)) p t : npoly fs = 1%nat -> first_poly RFld fs = Some p -> polys_fun fs t = polyR p t.
Proof. induction fs as [|l fs IH]; cbn [npoly first_poly polys_fun]; [discriminate|].
  destruct l; try exact IH. intros Hn Hp. injection Hp as <-. injection Hn as Hn.
  assert (Z : forall gs : list (leaf RFld), npoly gs = O -> polys_fun gs t = 1).
  { induction gs as [|g gs IHg]; cbn [npoly polys_fun]; [reflexivity|]. destruct g; try exact IHg. discriminate. }
  rewrite (Z fs Hn). ring. Qed.
Lemma powts_one (fs : list (leaf RFld)) t : (npowt fs <= 1)%nat -> powts_fun fs t = t ^ powt_of RFld fs.
Proof. induction fs as [|l fs IH]; cbn [npowt powt_of powts_fun]; [reflexivity|].
  destruct l; try exact IH. intros Hn.
  assert (Z : forall gs : list (leaf RFld), npowt gs = O -> powts_fun gs t = 1).
  { induction gs as [|g gs IHg]; cbn [npowt powts_fun]; [reflexivity|]. destruct g; try exact IHg. discriminate. }
  rewrite (Z fs) by lia. ring. Qed.
Lemma poly_terms_sum (p : list R) (rest : list (leaf RFld)) t : forall k n acc,
  mono_sum (poly_terms RFld k n p rest acc) t = mono_sum acc t + t ^ (k + n) * polyR p t * prod_fun rest t.
Proof. induction p as [|a p IH]; intros k n acc; cbn [poly_terms polyR]; [ring|]. rewrite IH.
  replace (S k + n)%nat with (S (k + n)) by lia. rewrite <- tech_pow_Rmult.
  destruct (feqb (K:=RFld) a (@f0 RFld)) eqn:Ea.
  - apply feqb_eq in Ea. rf. subst a. ring.
  - cbn [mono_sum]. assert (E : prod_fun ((match (k + n)%nat with O => [] | S _ => [LPowT (k + n)] end) ++ rest) t = t ^ (k + n) * prod_fun rest t).
    { destruct (k + n)%nat as [|m]; cbn [app prod_fun leaf_fun]; [rewrite pow_O|]; ring. }
    rewrite E. ring. Qed.
Theorem poly_expand_fun (fs : list (leaf RFld)) (t : R) : npoly fs = 1%nat -> (npowt fs <= 1)%nat ->
  mono_sum (poly_expand RFld fs) t = prod_fun fs t.
Proof. intros H1 H2. unfold poly_expand. destruct (first_poly RFld fs) as [p|] eqn:Ep.
  - rewrite poly_terms_sum. cbn [mono_sum Nat.add]. rewrite (prod_fun_split fs t), (polys_one fs p t H1 Ep), (powts_one fs t H2). ring.
  - exfalso. clear H2. induction fs as [|l fs IH]; cbn [npoly first_poly] in *; [discriminate|]. destruct l; try (exact (IH H1 Ep)); discriminate. Qed.

Print Assumptions leaf_nf_fun.
Print Assumptions nmul_fun.
Print Assumptions prod_nf_fun.
Print Assumptions classical_term_is_integral.
Print Assumptions poly_expand_fun.
