(* C05, generic layer: netlists as lists of component SEMANTICS (currents drawn
   from every node, constitutive residual in every branch row - the shape used
   by the physical specification of Circuit.v / C01), equivalence of netlist
   fragments "as seen from the rest of the circuit", and the replacement
   theorem: substituting a port-equivalent fragment preserves the physical
   solutions on everything that is not private to the fragment.
   Arbitrary characteristic-0 field, axiom-free. *)
Require Import LT.FieldSec LT.Circuit.
From Coq Require Import Permutation.
Local Open Scope Z_scope.

Section G.
Variable K : fld.
Add Field KFre : (fth K).

(* (drawn, brel): drawn v ib r = current the component draws from node r,
   brel v ib q = residual of its constitutive relation placed in branch row q *)
Definition sem := (((Z -> K) -> (Z -> K) -> Z -> K) * ((Z -> K) -> (Z -> K) -> Z -> K))%type.
Fixpoint ssum (l : list K) : K := match l with [] => f0 | x :: l' => fadd x (ssum l') end.
Definition gkcl (N : list sem) (v ib : Z -> K) (r : Z) : K := ssum (map (fun e => fst e v ib r) N).
Definition gcrel (N : list sem) (v ib : Z -> K) (q : Z) : K := ssum (map (fun e => snd e v ib q) N).
(* KCL at every node and every constitutive relation (ground = negative index
   is not a row; the component semantics read it as potential 0) *)
Definition gphys (N : list sem) (v ib : Z -> K) : Prop :=
  (forall r, 0 <= r -> gkcl N v ib r = f0) /\ (forall q, 0 <= q -> gcrel N v ib q = f0).

Lemma ssum_app l1 l2 : ssum (l1 ++ l2) = fadd (ssum l1) (ssum l2).
Proof. induction l1 as [|x l1 IH]; cbn [ssum app]; [ring | rewrite IH; ring]. Qed.
Lemma gkcl_app N1 N2 v ib r : gkcl (N1 ++ N2) v ib r = fadd (gkcl N1 v ib r) (gkcl N2 v ib r).
Proof. unfold gkcl. rewrite map_app, ssum_app. reflexivity. Qed.
Lemma gcrel_app N1 N2 v ib q : gcrel (N1 ++ N2) v ib q = fadd (gcrel N1 v ib q) (gcrel N2 v ib q).
Proof. unfold gcrel. rewrite map_app, ssum_app. reflexivity. Qed.
Lemma gkcl_cons e N v ib r : gkcl (e :: N) v ib r = fadd (fst e v ib r) (gkcl N v ib r).
Proof. reflexivity. Qed.
Lemma gcrel_cons e N v ib q : gcrel (e :: N) v ib q = fadd (snd e v ib q) (gcrel N v ib q).
Proof. reflexivity. Qed.
Lemma gkcl_nil v ib r : gkcl [] v ib r = f0.
Proof. reflexivity. Qed.
Lemma gcrel_nil v ib q : gcrel [] v ib q = f0.
Proof. reflexivity. Qed.

Lemma ssum_perm l1 l2 : Permutation l1 l2 -> ssum l1 = ssum l2.
Proof. induction 1; cbn [ssum]; [reflexivity | rewrite IHPermutation; reflexivity | ring | congruence]. Qed.
Lemma gkcl_perm N1 N2 v ib r : Permutation N1 N2 -> gkcl N1 v ib r = gkcl N2 v ib r.
Proof. intros H. unfold gkcl. apply ssum_perm. apply Permutation_map. exact H. Qed.
Lemma gcrel_perm N1 N2 v ib q : Permutation N1 N2 -> gcrel N1 v ib q = gcrel N2 v ib q.
Proof. intros H. unfold gcrel. apply ssum_perm. apply Permutation_map. exact H. Qed.
(* the order in which the components are listed is immaterial *)
Theorem gphys_perm N1 N2 v ib : Permutation N1 N2 -> gphys N1 v ib -> gphys N2 v ib.
Proof. intros P [H1 H2]. split; intros x Hx.
  - rewrite <- (gkcl_perm N1 N2 v ib x P). auto.
  - rewrite <- (gcrel_perm N1 N2 v ib x P). auto. Qed.

(* ---- frames: what may change ------------------------------------------- *)
(* IN: nodes private to the fragment (interior nodes: their potential may
   change and KCL there is the fragment's own business); IV: branch unknowns
   whose VALUE may change; IR: branch ROWS (constitutive relations) that belong
   to the fragment.  A source that survives inside a series chain keeps its
   current (not in IV) although its relation row belongs to the fragment (in
   IR).  Two assignments agree outside a frame. *)
Definition agree (S : Z -> bool) (x y : Z -> K) : Prop := forall n, S n = false -> x n = y n.
Lemma agree_refl S x : agree S x x.
Proof. intros n _. reflexivity. Qed.
Lemma agree_sym S x y : agree S x y -> agree S y x.
Proof. intros H n Hn. symmetry. auto. Qed.
Lemma agree_trans S x y z : agree S x y -> agree S y z -> agree S x z.
Proof. intros H1 H2 n Hn. rewrite H1, H2 by assumption. reflexivity. Qed.
Lemma agree_weaken (S S' : Z -> bool) x y : (forall n, S n = true -> S' n = true) -> agree S x y -> agree S' x y.
Proof. intros HS H n Hn. apply H. destruct (S n) eqn:E; [rewrite (HS n E) in Hn; discriminate | reflexivity]. Qed.

(* a component of the REST of the circuit: it neither reads nor touches the
   private nodes / branch unknowns of the fragment *)
Definition ext_of (IN IV IR : Z -> bool) (e : sem) : Prop :=
  (forall v v' ib ib', agree IN v v' -> agree IV ib ib' ->
     forall x, fst e v ib x = fst e v' ib' x /\ snd e v ib x = snd e v' ib' x) /\
  (forall v ib r, IN r = true -> fst e v ib r = f0) /\
  (forall v ib q, IR q = true -> snd e v ib q = f0).

Lemma ext_kcl_agree IN IV IR R v v' ib ib' r : Forall (ext_of IN IV IR) R -> agree IN v v' -> agree IV ib ib' ->
  gkcl R v ib r = gkcl R v' ib' r.
Proof. induction 1 as [|e R [He _] _ IH]; intros A1 A2; [reflexivity|].
  rewrite !gkcl_cons, IH by assumption. rewrite (proj1 (He v v' ib ib' A1 A2 r)). reflexivity. Qed.
Lemma ext_crel_agree IN IV IR R v v' ib ib' q : Forall (ext_of IN IV IR) R -> agree IN v v' -> agree IV ib ib' ->
  gcrel R v ib q = gcrel R v' ib' q.
Proof. induction 1 as [|e R [He _] _ IH]; intros A1 A2; [reflexivity|].
  rewrite !gcrel_cons, IH by assumption. rewrite (proj2 (He v v' ib ib' A1 A2 q)). reflexivity. Qed.
Lemma ext_kcl_silent IN IV IR R v ib r : Forall (ext_of IN IV IR) R -> IN r = true -> gkcl R v ib r = f0.
Proof. induction 1 as [|e R [_ [He _]] _ IH]; intros Hr; [reflexivity|].
  rewrite gkcl_cons, IH, He by assumption. ring. Qed.
Lemma ext_crel_silent IN IV IR R v ib q : Forall (ext_of IN IV IR) R -> IR q = true -> gcrel R v ib q = f0.
Proof. induction 1 as [|e R [_ [_ He]] _ IH]; intros Hq; [reflexivity|].
  rewrite gcrel_cons, IH, He by assumption. ring. Qed.

(* the fragment's own private constraints: KCL at its interior nodes and the
   relations in its private branch rows *)
Definition int_ok (IN IR : Z -> bool) (F : list sem) (v ib : Z -> K) : Prop :=
  (forall r, 0 <= r -> IN r = true -> gkcl F v ib r = f0) /\
  (forall q, 0 <= q -> IR q = true -> gcrel F v ib q = f0).

(* F2 can do, at the shared nodes, whatever F1 can do: for every assignment
   under which F1 meets its private constraints there is an assignment that
   agrees on everything shared, under which F2 meets its private constraints
   and draws the same current from every shared node (and leaves the same
   residual in every shared branch row) *)
Definition port_sim (IN IV IR : Z -> bool) (F1 F2 : list sem) : Prop :=
  forall v ib, int_ok IN IR F1 v ib ->
  exists v' ib', agree IN v v' /\ agree IV ib ib' /\ int_ok IN IR F2 v' ib' /\
    (forall r, 0 <= r -> IN r = false -> gkcl F1 v ib r = gkcl F2 v' ib' r) /\
    (forall q, 0 <= q -> IR q = false -> gcrel F1 v ib q = gcrel F2 v' ib' q).
Definition port_equiv (IN IV IR : Z -> bool) (F1 F2 : list sem) : Prop :=
  port_sim IN IV IR F1 F2 /\ port_sim IN IV IR F2 F1.

Lemma port_equiv_sym IN IV IR F1 F2 : port_equiv IN IV IR F1 F2 -> port_equiv IN IV IR F2 F1.
Proof. intros [A B]. split; assumption. Qed.
Lemma port_sim_refl IN IV IR F : port_sim IN IV IR F F.
Proof. intros v ib H. exists v, ib. repeat split; try apply agree_refl; try apply H; reflexivity. Qed.
Lemma port_sim_trans IN IV IR F1 F2 F3 : port_sim IN IV IR F1 F2 -> port_sim IN IV IR F2 F3 -> port_sim IN IV IR F1 F3.
Proof.
  intros S12 S23 v ib H1. destruct (S12 v ib H1) as [v2 [ib2 [A1 [A2 [H2 [E1 E2]]]]]].
  destruct (S23 v2 ib2 H2) as [v3 [ib3 [B1 [B2 [H3 [G1 G2]]]]]].
  exists v3, ib3. split; [eapply agree_trans; eassumption|]. split; [eapply agree_trans; eassumption|].
  split; [exact H3|]. split; intros x Hx Hf.
  - rewrite E1, G1 by assumption. reflexivity.
  - rewrite E2, G2 by assumption. reflexivity.
Qed.
Lemma port_sim_perm IN IV IR F1 F1' F2 F2' : Permutation F1 F1' -> Permutation F2 F2' ->
  port_sim IN IV IR F1 F2 -> port_sim IN IV IR F1' F2'.
Proof.
  intros P1 P2 S v ib [Ha Hb].
  destruct (S v ib) as [v' [ib' [A1 [A2 [[Hc Hd] [E1 E2]]]]]].
  { split; intros x Hx Hi; [rewrite (gkcl_perm _ _ v ib x P1) | rewrite (gcrel_perm _ _ v ib x P1)]; auto. }
  exists v', ib'. split; [exact A1|]. split; [exact A2|]. split; [split|split]; intros x Hx Hi.
  - rewrite <- (gkcl_perm _ _ v' ib' x P2). auto.
  - rewrite <- (gcrel_perm _ _ v' ib' x P2). auto.
  - rewrite <- (gkcl_perm _ _ v ib x P1), <- (gkcl_perm _ _ v' ib' x P2). auto.
  - rewrite <- (gcrel_perm _ _ v ib x P1), <- (gcrel_perm _ _ v' ib' x P2). auto.
Qed.

(* ---- the replacement theorem ------------------------------------------- *)
(* whole-circuit refinement: every solution of N1 has a counterpart solution
   of N2 that agrees on all retained nodes and branch unknowns *)
Definition gsim (IN IV : Z -> bool) (N1 N2 : list sem) : Prop :=
  forall v ib, gphys N1 v ib -> exists v' ib', agree IN v v' /\ agree IV ib ib' /\ gphys N2 v' ib'.
Definition gequiv (IN IV : Z -> bool) (N1 N2 : list sem) : Prop := gsim IN IV N1 N2 /\ gsim IN IV N2 N1.

Theorem replace_preserves_phys IN IV IR (A C F1 F2 : list sem) :
  Forall (ext_of IN IV IR) A -> Forall (ext_of IN IV IR) C -> port_sim IN IV IR F1 F2 ->
  gsim IN IV (A ++ F1 ++ C) (A ++ F2 ++ C).
Proof.
  intros EA EC S v ib [Hk Hc].
  assert (I1 : int_ok IN IR F1 v ib).
  { split; intros x Hx Hi.
    - specialize (Hk x Hx). rewrite !gkcl_app in Hk.
      rewrite (ext_kcl_silent IN IV IR A v ib x EA Hi), (ext_kcl_silent IN IV IR C v ib x EC Hi) in Hk.
      rewrite <- Hk. ring.
    - specialize (Hc x Hx). rewrite !gcrel_app in Hc.
      rewrite (ext_crel_silent IN IV IR A v ib x EA Hi), (ext_crel_silent IN IV IR C v ib x EC Hi) in Hc.
      rewrite <- Hc. ring. }
  destruct (S v ib I1) as [v' [ib' [A1 [A2 [[Ik Ic] [E1 E2]]]]]].
  exists v', ib'. split; [exact A1|]. split; [exact A2|]. split; intros x Hx.
  - rewrite !gkcl_app. destruct (IN x) eqn:Hi.
    + rewrite (ext_kcl_silent IN IV IR A v' ib' x EA Hi), (ext_kcl_silent IN IV IR C v' ib' x EC Hi), (Ik x Hx Hi). ring.
    + rewrite <- (ext_kcl_agree IN IV IR A v v' ib ib' x EA A1 A2), <- (ext_kcl_agree IN IV IR C v v' ib ib' x EC A1 A2),
              <- (E1 x Hx Hi). specialize (Hk x Hx). rewrite !gkcl_app in Hk. exact Hk.
  - rewrite !gcrel_app. destruct (IR x) eqn:Hi.
    + rewrite (ext_crel_silent IN IV IR A v' ib' x EA Hi), (ext_crel_silent IN IV IR C v' ib' x EC Hi), (Ic x Hx Hi). ring.
    + rewrite <- (ext_crel_agree IN IV IR A v v' ib ib' x EA A1 A2), <- (ext_crel_agree IN IV IR C v v' ib ib' x EC A1 A2),
              <- (E2 x Hx Hi). specialize (Hc x Hx). rewrite !gcrel_app in Hc. exact Hc.
Qed.

Corollary replace_equiv IN IV IR (A C F1 F2 : list sem) :
  Forall (ext_of IN IV IR) A -> Forall (ext_of IN IV IR) C -> port_equiv IN IV IR F1 F2 ->
  gequiv IN IV (A ++ F1 ++ C) (A ++ F2 ++ C).
Proof. intros EA EC [S1 S2]. split; apply (replace_preserves_phys IN IV IR); assumption. Qed.

(* the fragment need not be contiguous in the netlist *)
Corollary replace_preserves_phys_perm IN IV IR (N1 N2 R F1 F2 : list sem) :
  Permutation N1 (F1 ++ R) -> Permutation N2 (F2 ++ R) ->
  Forall (ext_of IN IV IR) R -> port_sim IN IV IR F1 F2 -> gsim IN IV N1 N2.
Proof.
  intros P1 P2 ER S v ib H.
  destruct (replace_preserves_phys IN IV IR [] R F1 F2 (Forall_nil _) ER S v ib) as [v' [ib' [A1 [A2 H']]]].
  { cbn [app]. eapply gphys_perm; [exact P1 | exact H]. }
  exists v', ib'. split; [exact A1|]. split; [exact A2|].
  eapply gphys_perm; [apply Permutation_sym; exact P2 | exact H'].
Qed.

Lemma gsim_refl IN IV N : gsim IN IV N N.
Proof. intros v ib H. exists v, ib. repeat split; try apply agree_refl; apply H. Qed.
Lemma gsim_trans IN IV N1 N2 N3 : gsim IN IV N1 N2 -> gsim IN IV N2 N3 -> gsim IN IV N1 N3.
Proof. intros S1 S2 v ib H. destruct (S1 v ib H) as [v2 [ib2 [A1 [A2 H2]]]].
  destruct (S2 v2 ib2 H2) as [v3 [ib3 [B1 [B2 H3]]]]. exists v3, ib3.
  split; [eapply agree_trans; eassumption|]. split; [eapply agree_trans; eassumption | exact H3]. Qed.
Lemma gsim_weaken (IN IV IN' IV' : Z -> bool) N1 N2 :
  (forall n, IN n = true -> IN' n = true) -> (forall n, IV n = true -> IV' n = true) ->
  gsim IN IV N1 N2 -> gsim IN' IV' N1 N2.
Proof. intros H1 H2 S v ib H. destruct (S v ib H) as [v' [ib' [A1 [A2 H']]]]. exists v', ib'.
  split; [eapply agree_weaken; eassumption|]. split; [eapply agree_weaken; eassumption | exact H']. Qed.

(* a fragment that draws nothing anywhere and imposes nothing may be dropped
   (open circuits, ports) *)
Definition silent (e : sem) : Prop := (forall v ib r, fst e v ib r = f0) /\ (forall v ib q, snd e v ib q = f0).
Lemma silent_drop (N : list sem) (e : sem) v ib : silent e -> (gphys (e :: N) v ib <-> gphys N v ib).
Proof. intros [S1 S2]. unfold gphys. split; intros [H1 H2]; split; intros x Hx.
  - specialize (H1 x Hx). rewrite gkcl_cons, S1 in H1. rewrite <- H1. ring.
  - specialize (H2 x Hx). rewrite gcrel_cons, S2 in H2. rewrite <- H2. ring.
  - rewrite gkcl_cons, S1, H1 by assumption. ring.
  - rewrite gcrel_cons, S2, H2 by assumption. ring. Qed.

(* ---- the same with an observation carried along -------------------------- *)
(* Obs v ib v' ib' relates the two assignments further (e.g. "every branch of
   the chain carries the same current in both"); the replacement theorem hands
   it through to the whole-circuit solutions *)
Definition obs_t := (Z -> K) -> (Z -> K) -> (Z -> K) -> (Z -> K) -> Prop.
Definition port_sim_o (Obs : obs_t) (IN IV IR : Z -> bool) (F1 F2 : list sem) : Prop :=
  forall v ib, int_ok IN IR F1 v ib ->
  exists v' ib', agree IN v v' /\ agree IV ib ib' /\ int_ok IN IR F2 v' ib' /\
    (forall r, 0 <= r -> IN r = false -> gkcl F1 v ib r = gkcl F2 v' ib' r) /\
    (forall q, 0 <= q -> IR q = false -> gcrel F1 v ib q = gcrel F2 v' ib' q) /\ Obs v ib v' ib'.
Definition gsim_o (Obs : obs_t) (IN IV : Z -> bool) (N1 N2 : list sem) : Prop :=
  forall v ib, gphys N1 v ib -> exists v' ib', agree IN v v' /\ agree IV ib ib' /\ gphys N2 v' ib' /\ Obs v ib v' ib'.
Lemma port_sim_o_weaken Obs IN IV IR F1 F2 : port_sim_o Obs IN IV IR F1 F2 -> port_sim IN IV IR F1 F2.
Proof. intros H v ib I. destruct (H v ib I) as [v' [ib' [A1 [A2 [A3 [A4 [A5 _]]]]]]]. exists v', ib'. repeat split; try assumption; apply A3. Qed.
Theorem replace_preserves_phys_o Obs IN IV IR (A C F1 F2 : list sem) :
  Forall (ext_of IN IV IR) A -> Forall (ext_of IN IV IR) C -> port_sim_o Obs IN IV IR F1 F2 ->
  gsim_o Obs IN IV (A ++ F1 ++ C) (A ++ F2 ++ C).
Proof.
  intros EA EC S v ib [Hk Hc].
  assert (I1 : int_ok IN IR F1 v ib).
  { split; intros x Hx Hi.
    - specialize (Hk x Hx). rewrite !gkcl_app in Hk.
      rewrite (ext_kcl_silent IN IV IR A v ib x EA Hi), (ext_kcl_silent IN IV IR C v ib x EC Hi) in Hk.
      rewrite <- Hk. ring.
    - specialize (Hc x Hx). rewrite !gcrel_app in Hc.
      rewrite (ext_crel_silent IN IV IR A v ib x EA Hi), (ext_crel_silent IN IV IR C v ib x EC Hi) in Hc.
      rewrite <- Hc. ring. }
  destruct (S v ib I1) as [v' [ib' [A1 [A2 [[Ik Ic] [E1 [E2 O]]]]]]].
  exists v', ib'. split; [exact A1|]. split; [exact A2|]. split; [|exact O]. split; intros x Hx.
  - rewrite !gkcl_app. destruct (IN x) eqn:Hi.
    + rewrite (ext_kcl_silent IN IV IR A v' ib' x EA Hi), (ext_kcl_silent IN IV IR C v' ib' x EC Hi), (Ik x Hx Hi). ring.
    + rewrite <- (ext_kcl_agree IN IV IR A v v' ib ib' x EA A1 A2), <- (ext_kcl_agree IN IV IR C v v' ib ib' x EC A1 A2),
              <- (E1 x Hx Hi). specialize (Hk x Hx). rewrite !gkcl_app in Hk. exact Hk.
  - rewrite !gcrel_app. destruct (IR x) eqn:Hi.
    + rewrite (ext_crel_silent IN IV IR A v' ib' x EA Hi), (ext_crel_silent IN IV IR C v' ib' x EC Hi), (Ic x Hx Hi). ring.
    + rewrite <- (ext_crel_agree IN IV IR A v v' ib ib' x EA A1 A2), <- (ext_crel_agree IN IV IR C v v' ib ib' x EC A1 A2),
              <- (E2 x Hx Hi). specialize (Hc x Hx). rewrite !gcrel_app in Hc. exact Hc.
Qed.
End G.

Arguments ssum {K}. Arguments gkcl {K}. Arguments gcrel {K}. Arguments gphys {K}.
Arguments agree {K}. Arguments ext_of {K}. Arguments int_ok {K}. Arguments port_sim {K}.
Arguments port_equiv {K}. Arguments gsim {K}. Arguments gequiv {K}. Arguments silent {K}.
Arguments port_sim_o {K}. Arguments gsim_o {K}. Arguments obs_t K : clear implicits.
Arguments sem K : clear implicits.
