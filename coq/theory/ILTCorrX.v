(* ILTCorrX — the executable glue of ILTCorr.v for an ARBITRARY executable field K (record fld,
   boolean equality feqb from its decidable equality) with a conjugation cjK; used for the C10
   correspondence evaluation over the quadratic extensions Q(i)(sqrt d) of ILTQext.v (poles,
   residues and exponents that are not Gaussian rationals).  Same verdict bits as ILTCorr.v;
   [case_rt_sound]: bit 4 clear  ==>  L(Lcapy's output) = the input, over K.
   GENERATED ONCE from ILTCorr.v by textual generalisation (KI -> K, qci_eqb -> feqb, ciconj -> cjK). *)
Require Import LT.FieldSec LT.PolyQ LT.ExpPoly LT.ILT LT.ILTResidue.
Local Open Scope F_scope.

Section X.
Variable K : fld.
Variable cjK : K -> K.
Add Field KXfield : (fth K).
Definition oreg := (Qc * nat * K * K * bool)%type.      (* (T, n, p, c, has-step) *)
Definition osing := (Qc * nat * K)%type.                  (* (T, k, c) *)
Record obs := Obs { o_cond : bool; o_reg : list oreg; o_sing : list osing }.

(* ---- flatten the model result ---------------------------------------------------- *)
Fixpoint sing_entries (T : Qc) (k : nat) (l : list K) : list osing :=
  match l with [] => [] | c :: l' => (T, k, c) :: sing_entries T (S k) l' end.
Definition reg_entries (T : Qc) (step : bool) (l : list (rterm K)) : list oreg :=
  map (fun t => match t with (c, n, p) => (T, n, p, c, step) end) l.
Definition flat_reg (m : mres K) : list oreg :=
  flat_map (fun Tx : Qc * sig K => reg_entries (fst Tx) true (reg (snd Tx))) (m_c m) ++ reg_entries 0%Qc false (reg (m_u m)).
Definition flat_sing (m : mres K) : list osing :=
  flat_map (fun Tx : Qc * sig K => sing_entries (fst Tx) O (sing (snd Tx))) (m_c m) ++ sing_entries 0%Qc O (sing (m_u m)).

(* ---- finite-map comparison ----------------------------------------------------------- *)
Definition reg_coeff (T : Qc) (n : nat) (p : K) (l : list oreg) : K :=
  fold_right (fun e acc => match e with (T', n', p', c, _) =>
     if qc_eqb T T' && Nat.eqb n n' && feqb p p' then (c + acc : K) else acc end) (0 : K) l.
Definition reg_eq (l1 l2 : list oreg) : bool :=
  forallb (fun e => match e with (T, n, p, _, _) => feqb (reg_coeff T n p l1) (reg_coeff T n p l2) end) (l1 ++ l2).
Definition sing_coeff (T : Qc) (k : nat) (l : list osing) : K :=
  fold_right (fun e acc => match e with (T', k', c) => if qc_eqb T T' && Nat.eqb k k' then (c + acc : K) else acc end) (0 : K) l.
Definition sing_eq (l1 l2 : list osing) : bool :=
  forallb (fun e => match e with (T, k, _) => feqb (sing_coeff T k l1) (sing_coeff T k l2) end) (l1 ++ l2).
(* every regular term must carry its step u(t - T), except delay-free terms of a
   result that is only claimed for t >= 0 *)
Definition steps_ok (cond : bool) (l : list oreg) : bool :=
  forallb (fun e => match e with (T, _, _, _, step) => step || (cond && qc_eqb T 0) end) l.

(* ---- observed output as a delayed signal, aligned with the input delays --------------- *)
Definition obs_sig (T : Qc) (o : obs) : sig K :=
  Sig (K:=K)
      (fold_right (fun (e : osing) (acc : list K) => match e with (T', k, c) => if qc_eqb T T' then padd (K:=K) (pmonom (K:=K) c k) acc else acc end) [] (o_sing o))
      (fold_right (fun (e : oreg) (acc : list (rterm K)) => match e with (T', n, p, c, _) => if qc_eqb T T' then ((c, n, p) : rterm K) :: acc else acc end) [] (o_reg o)).
Definition memT (T : Qc) (Ts : list Qc) : bool := existsb (qc_eqb T) Ts.
Fixpoint nodupT (Ts : list Qc) : bool := match Ts with [] => true | T :: r => negb (memT T r) && nodupT r end.
Definition obs_delays_ok (Ts : list Qc) (o : obs) : bool :=
  forallb (fun e => match e with (T, _, _, _, _) => memT T Ts end) (o_reg o) &&
  forallb (fun e => match e with (T, _, _) => memT T Ts end) (o_sing o).
Definition ins_of (const : K) (F : list (cterm K)) : list (Qc * list K * list K) :=
  map (fun ct => (it_delay (ct_term ct), pscale (const * it_const (ct_term ct)) (ct_B ct), ct_A ct)) F.
Definition obs_dsig (Ts : list Qc) (o : obs) : dsig K := map (fun T => (T, obs_sig T o)) Ts.
Definition rt_check (const : K) (F : list (cterm K)) (o : obs) : bool :=
  let ins := ins_of const F in
  let Ts := map (fun i => fst (fst i)) ins in
  nodupT Ts && obs_delays_ok Ts o && roundtrip_list ins (obs_dsig Ts o).

(* bit 4 clear: the Laplace transform of what Lcapy returned (grouped by delay) is the input *)
Theorem case_rt_sound const F o : rt_check const F o = true ->
  forall (E : Qc -> K) (s : K), (forall ct, In ct F -> peval (ct_A ct) s <> (0 : K)) ->
  dLval E s (obs_dsig (map (fun i => fst (fst i)) (ins_of const F)) o) = const * input_sum K E s F.
Proof. unfold rt_check. intros H E s HA. apply andb_true_iff in H. destruct H as [_ H].
  rewrite (roundtrip_list_sound K E _ _ H s).
  - clear H. induction F as [|ct F IH]; cbn [ins_of map rat_sum input_sum]; [ring|].
    fold (ins_of const F). rewrite IH by (intros c' Hin; apply HA; right; exact Hin). rewrite peval_pscale.
    assert (Hn : peval (ct_A ct) s <> (0 : K)) by (apply HA; left; reflexivity).
    field. exact Hn.
  - intros T Bp Ap Hin. unfold ins_of in Hin. apply in_map_iff in Hin. destruct Hin as [ct [Eq Hin]]. inversion Eq; subst. apply HA. exact Hin.
Qed.

(* ---- model evaluation -------------------------------------------------------------------- *)
(* a term is either handled by the general path (certificate) or, with
   damped_sin and degree 2, by the translated do_damped_sin closed forms whose
   (cresult, uresult) pair the generated case file builds with [den] *)
Inductive tsrc := FromCert | FromPair (cu : option (sig K * sig K)).
Definition term_eval (B : branches K) (guard : bool -> nat -> nat -> bool) (causal : bool) (ct : cterm K) (src : tsrc) : option (tres K) :=
  match src with
  | FromCert => term_model K cjK B guard causal (ct_term ct)
  | FromPair cu => term_of_pair causal (it_const (ct_term ct)) (it_delay (ct_term ct)) cu
  end.
Fixpoint terms_eval B guard causal (F : list (cterm K)) (srcs : list tsrc) : list (option (tres K)) :=
  match F with [] => []
  | ct :: F' => term_eval B guard causal ct (hd FromCert srcs) :: terms_eval B guard causal F' (tl srcs) end.
Definition model_eval B guard causal (const : K) (F : list (cterm K)) (srcs : list tsrc) : option (mres K) :=
  make_opt causal const (sum_terms (terms_eval B guard causal F srcs)).
Lemma terms_eval_cert B guard causal F : terms_eval B guard causal F [] = map (term_model K cjK B guard causal) (map ct_term F).
Proof. induction F as [|ct F IH]; cbn [terms_eval map hd tl term_eval]; [reflexivity | rewrite IH; reflexivity]. Qed.
(* without damped-sin terms the evaluated model IS the doit_model of the theorems *)
Theorem model_eval_cert B guard causal const F : model_eval B guard causal const F [] = doit_model K cjK B guard causal const (map ct_term F).
Proof. unfold model_eval, doit_model, doit_terms. rewrite terms_eval_cert. reflexivity. Qed.

Definition feq_opt (a : option K) (b : K) : bool := match a with Some x => feqb x b | None => true end.

Definition bit (ok : bool) (n : nat) : nat := if ok then O else n.
Definition case_code (B : branches K) (guard : bool -> nat -> nat -> bool)
    (kw : list (aflag * bool)) (const : K) (F : list (cterm K)) (srcs : list tsrc) (use_model : bool)
    (o : obs) (iv fv : option K) : nat :=
  let causal := eff_causal (Some Aunknown) kw in
  let c1 := bit (forallb cert_ok F) 1 in
  let c2 :=
    if use_model then
      match model_eval B guard causal const F srcs with
      | None => 2%nat
      | Some m => Nat.add (bit (reg_eq (flat_reg m) (o_reg o) && sing_eq (flat_sing m) (o_sing o)) 2)
                          (bit ((if m_cond m then o_cond o else (negb causal || negb (o_cond o))) && steps_ok (o_cond o) (o_reg o)) 8)
      end
    else bit (steps_ok (o_cond o) (o_reg o) && (negb causal || negb (o_cond o))) 8 in
  let c4 := bit (rt_check const F o) 4 in
  let c16 :=
    match F with
    | [ct] => bit (feq_opt iv (const * it_const (ct_term ct) * pf_iv (it_ts (ct_term ct)))
                   && feq_opt fv (const * it_const (ct_term ct) * pf_fv (it_ts (ct_term ct)))) 16
    | _ => O end in
  Nat.add (Nat.add c1 c2) (Nat.add c4 c16).

(* expected Python exception (negative delay): the model must predict it *)
Definition predicts_error B guard (kw : list (aflag * bool)) (const : K) (F : list (cterm K)) : bool :=
  match model_eval B guard (eff_causal (Some Aunknown) kw) const F [] with None => true | Some _ => false end.

(* ---- Ratfun._find_residues_sub: model of ILTResidue.v against Lcapy's R, P, O -------------- *)
Fixpoint qlist_eqb (l m : list K) : bool :=
  match l, m with [], [] => true | a :: l', b :: m' => feqb a b && qlist_eqb l' m' | _, _ => false end.
Fixpoint nlist_eqb (l m : list nat) : bool :=
  match l, m with [], [] => true | a :: l', b :: m' => Nat.eqb a b && nlist_eqb l' m' | _, _ => false end.
(* Lcapy's residues = the model with the TRANSLATED selection test and divisor = the Taylor-jet
   residues of ILTResidue.residue_k_general (every multiplicity) *)
Definition residues_chk_d (sel : bool -> nat -> nat -> bool) (dv : nat -> nat -> K) (poles : list (K * nat)) (Bn : list K)
    (R P : list K) (Os : list nat) : bool :=
  let es := pole_entries (K:=K) 0%nat poles in
  qlist_eqb (residues_sub_d (K:=K) sel dv poles Bn) R &&
  qlist_eqb (residues_jet (K:=K) poles Bn) R &&
  qlist_eqb (map (fun e => match e with (_, p, _, _) => p end) es) P &&
  nlist_eqb (map (fun e => match e with (_, _, o, _) => o end) es) Os.
Definition residues_chk sel := residues_chk_d sel (fact_div (K:=K)).

(* typed constructors for the generated case files *)
Definition mkterm (c : K) (T : Qc) (C : list K) (ts : list (K * K * nat)) (Bp Ap : list K) : cterm K :=
  CTerm (ITerm c T C ts) Bp Ap.
Definition zero_sig : sig K := szero.
Definition someq (x : K) : option K := Some x.

End X.

Arguments Obs {K}. Arguments o_cond {K}. Arguments o_reg {K}. Arguments o_sing {K}.
Arguments FromCert {K}. Arguments FromPair {K}. Arguments mkterm {K}. Arguments someq {K}. Arguments zero_sig {K}.
Arguments case_code {K}. Arguments predicts_error {K}. Arguments residues_chk_d {K}. Arguments rt_check {K}. Arguments obs_dsig {K}. Arguments ins_of {K}. Arguments model_eval {K}.

(* the cases whose verdict code is not 0, as (index, code) pairs *)
Definition failing (l : list (nat * nat)) : list (nat * nat) :=
  filter (fun p => negb (Nat.eqb (snd p) 0)) l.
