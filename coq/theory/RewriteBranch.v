(* C05: two-terminal branches (expressed through the physical semantics of
   Circuit.v), series chains and parallel groups of branches in arbitrary
   orientation, and the two equivalence theorems behind series / parallel
   combination:
     chain_sim : two chains between the same end nodes whose Thevenin sums
                 (impedance, source term signed by orientation) agree are
                 port-equivalent; interior node potentials are private, the
                 chain current (hence the current of every source that stays
                 in the chain) is preserved;
     par_norton_equiv, par_bz_sim : the same for groups across one node pair
                 (admittance and signed source-current sums).
   Arbitrary characteristic-0 field, axiom-free. *)
Require Import LT.FieldSec LT.Circuit LT.RewriteEquiv.
Local Open Scope Z_scope.

Section B.
Variable K : fld.
Add Field KFrb : (fth K).
Notation sem := (sem K).

(* BY Y J   : i = Y (v+ - v-) - J               R, NR, Z, Y, C (J = C v0 in an initial-value analysis)
   BZ Z E o : v+ - v- = Z i_o + E, unknown i_o  L (Z = sL, E = -L i0), V (Z = 0, E = Voc), wire (0, 0)
   BI J     : injects J into +                  I                                        *)
Inductive branch := BY (Y J : K) | BZ (Zb E : K) (own : Z) | BI (J : K).

Definition bpar (b : branch) : pname -> K := fun n =>
  match b, n with
  | BY Y J, pY => Y | BY Y J, pIsc => J
  | BZ Zb E _, pZ => Zb | BZ Zb E _, pVoc => E
  | BI J, pIsc => J
  | _, _ => f0 end.
Definition bown_of (b : branch) : Z := match b with BZ _ _ o => o | _ => 0 end.
Definition bctx (p q : Z) (b : branch) : sctx K :=
  SCtx K KIvp TyOtherType p q (-1) (-1) (-1) (-1) (bown_of b) 0 0 0 0 true false false false (bpar b).
(* the semantics is the one of Circuit.v: drawn_RC / drawn_L / drawn_I *)
Definition bsem (p q : Z) (b : branch) : sem :=
  match b with
  | BY _ _ => (drawn_RC (bctx p q b), brel_RC (bctx p q b))
  | BZ _ _ _ => (drawn_L (bctx p q b), brel_L (bctx p q b))
  | BI _ => (drawn_I (bctx p q b), brel_I (bctx p q b))
  end.

Definition cur (p q : Z) (b : branch) (v ib : Z -> K) : K :=
  match b with
  | BY Y J => fsub (fmul Y (fsub (vv v p) (vv v q))) J
  | BZ _ _ o => ib o
  | BI J => fopp J
  end.
Definition resid (p q : Z) (b : branch) (v ib : Z -> K) : K :=
  match b with
  | BZ Zb E o => fsub (fsub (fsub (vv v p) (vv v q)) (fmul Zb (ib o))) E
  | _ => f0
  end.
Lemma bsem_fst p q b v ib r : fst (bsem p q b) v ib r = thru p q r (cur p q b v ib).
Proof. destruct b; reflexivity. Qed.
Lemma bsem_snd p q b v ib x : snd (bsem p q b) v ib x = fmul (ind (bown_of b) x) (resid p q b v ib).
Proof. destruct b; cbn [bsem snd resid bown_of]; unfold brel_RC, brel_I; [ring | reflexivity | ring]. Qed.

(* a voltage source and a wire (0 V branch, the ammeter semantics of Circuit.v)
   are BZ branches with zero impedance *)
Lemma sem_V_is_BZ (c : sctx K) v ib x :
  drawn_V c v ib x = fst (bsem (p0 c) (p1 c) (BZ f0 (par c pVoc) (bown c))) v ib x /\
  brel_V c v ib x = snd (bsem (p0 c) (p1 c) (BZ f0 (par c pVoc) (bown c))) v ib x.
Proof. split; [reflexivity|]. unfold brel_V. cbn [bsem snd]. unfold brel_L, dV01. cbn. ring. Qed.
Lemma sem_AM_is_BZ (c : sctx K) v ib x :
  drawn_AM c v ib x = fst (bsem (p0 c) (p1 c) (BZ f0 f0 (bown c))) v ib x /\
  brel_AM c v ib x = snd (bsem (p0 c) (p1 c) (BZ f0 f0 (bown c))) v ib x.
Proof. split; [reflexivity|]. unfold brel_AM. cbn [bsem snd]. unfold brel_L, dV01. cbn. ring. Qed.

Lemma thru_swap (a b r : Z) (c : K) : thru b a r c = thru a b r (fopp c).
Proof. unfold thru. ring. Qed.
Lemma thru_same (a r : Z) (c : K) : thru a a r c = f0.
Proof. unfold thru. ring. Qed.
Lemma ind_ne (a b : Z) : a <> b -> @ind K a b = f0.
Proof. intros H. unfold ind. destruct (Z.eqb_spec a b); [contradiction | reflexivity]. Qed.
Lemma thru_out (a b r : Z) (c : K) : r <> a -> r <> b -> thru a b r c = f0.
Proof. intros H1 H2. unfold thru. rewrite !ind_ne by congruence. ring. Qed.
Lemma thru_at_a (a b : Z) (c : K) : a <> b -> thru a b a c = c.
Proof. intros H. unfold thru. rewrite ind_refl, ind_ne by congruence. ring. Qed.
Lemma thru_at_b (a b : Z) (c : K) : a <> b -> thru a b b c = fopp c.
Proof. intros H. unfold thru. rewrite ind_refl, ind_ne by congruence. ring. Qed.
Lemma thru_tele (a b c r : Z) (i : K) : fadd (thru a b r i) (thru b c r i) = thru a c r i.
Proof. unfold thru. ring. Qed.

(* ======================= series chains ================================== *)
(* a step goes from the current node to [snext]; [sfwd] tells whether the
   branch's + terminal is the current node (true) or [snext] (false) *)
Record step := Step { sfwd : bool; sbr : branch; snext : Z }.
Definition sp (a : Z) (st : step) := if sfwd st then a else snext st.
Definition sq (a : Z) (st : step) := if sfwd st then snext st else a.
Definition ssem (a : Z) (st : step) : sem := bsem (sp a st) (sq a st) (sbr st).
Fixpoint chain_sems (a : Z) (l : list step) : list sem :=
  match l with [] => [] | st :: l' => ssem a st :: chain_sems (snext st) l' end.
Fixpoint lastn (a : Z) (l : list step) : Z := match l with [] => a | st :: l' => lastn (snext st) l' end.
Fixpoint interior (l : list step) : list Z :=
  match l with [] => [] | st :: l' => match l' with [] => [] | _ => snext st :: interior l' end end.
Fixpoint owns (l : list step) : list Z :=
  match l with [] => [] | st :: l' => match sbr st with BZ _ _ o => o :: owns l' | _ => owns l' end end.

Definition sgn (fw : bool) (x : K) : K := if fw then x else fopp x.
Lemma sgn_sgn fw x : sgn fw (sgn fw x) = x.
Proof. destruct fw; cbn; ring. Qed.
(* current flowing through the branch in chain direction (from the current node to snext) *)
Definition scur (a : Z) (st : step) (v ib : Z -> K) : K := sgn (sfwd st) (cur (sp a st) (sq a st) (sbr st) v ib).
Lemma ssem_fst a st v ib r : fst (ssem a st) v ib r = thru a (snext st) r (scur a st v ib).
Proof. unfold ssem, scur, sp, sq. rewrite bsem_fst. destruct (sfwd st); cbn [sgn]; [reflexivity | apply thru_swap]. Qed.

Fixpoint ckcl (a : Z) (l : list step) (v ib : Z -> K) (r : Z) : K :=
  match l with [] => f0 | st :: l' => fadd (thru a (snext st) r (scur a st v ib)) (ckcl (snext st) l' v ib r) end.
Lemma gkcl_chain a l v ib r : gkcl (chain_sems a l) v ib r = ckcl a l v ib r.
Proof. revert a. induction l as [|st l IH]; intros a; [reflexivity|].
  cbn [chain_sems ckcl]. rewrite gkcl_cons, ssem_fst, IH. reflexivity. Qed.
Fixpoint scurs (a : Z) (l : list step) (v ib : Z -> K) : list K :=
  match l with [] => [] | st :: l' => scur a st v ib :: scurs (snext st) l' v ib end.

(* telescoping: if every branch carries the same current i, the chain draws i
   at its first node and returns it at its last node, nothing in between *)
Lemma ckcl_const a l v ib r i : Forall (fun c => c = i) (scurs a l v ib) -> ckcl a l v ib r = thru a (lastn a l) r i.
Proof. revert a. induction l as [|st l IH]; intros a H; cbn [ckcl lastn].
  - rewrite thru_same. reflexivity.
  - cbn [scurs] in H. pose proof (Forall_inv H) as H1. pose proof (Forall_inv_tail H) as H2. cbn beta in H1.
    rewrite (IH _ H2), H1. apply thru_tele. Qed.

Lemma interior_cons st st2 l : interior (st :: st2 :: l) = snext st :: interior (st2 :: l).
Proof. reflexivity. Qed.
Lemma lastn_in_or a l : l <> [] -> In (lastn a l) (map snext l).
Proof. revert a. induction l as [|st l IH]; intros a H; [congruence|]. cbn [lastn map].
  destruct l as [|st2 l]; [left; reflexivity | right; apply IH; discriminate]. Qed.

(* KCL at the interior nodes forces one common current *)
Lemma chain_current l : forall a v ib,
  NoDup (interior l) -> ~ In a (interior l) -> ~ In (lastn a l) (interior l) ->
  (forall r, In r (interior l) -> ckcl a l v ib r = f0) ->
  exists i, Forall (fun c => c = i) (scurs a l v ib) /\
            forall r, ~ In r (interior l) -> ckcl a l v ib r = thru a (lastn a l) r i.
Proof.
  induction l as [|st l IH]; intros a v ib ND Ha Hl Hk.
  - exists f0. split; [constructor|]. intros r _. cbn. rewrite thru_same. reflexivity.
  - destruct l as [|st2 l].
    + exists (scur a st v ib). split; [repeat constructor|]. intros r _. cbn. ring.
    + rewrite interior_cons in *.
      inversion ND as [|? ? Hb ND']; subst.
      assert (Hab : a <> snext st) by (intros E; apply Ha; left; symmetry; exact E).
      assert (Hlb : lastn (snext st) (st2 :: l) <> snext st) by (intros E; apply Hl; left; symmetry; exact E).
      change (lastn a (st :: st2 :: l)) with (lastn (snext st) (st2 :: l)) in *.
      destruct (IH (snext st) v ib ND' Hb) as [i [Hi Hr]].
      * intros Hx. apply Hl. right. exact Hx.
      * intros r Hr. specialize (Hk r (or_intror Hr)).
        change (ckcl a (st :: st2 :: l) v ib r) with (fadd (thru a (snext st) r (scur a st v ib)) (ckcl (snext st) (st2 :: l) v ib r)) in Hk.
        rewrite thru_out in Hk.
        -- rewrite <- Hk. ring.
        -- intros E. subst r. apply Ha. right. exact Hr.
        -- intros E. subst r. exact (Hb Hr).
      * specialize (Hk (snext st) (or_introl eq_refl)).
        change (ckcl a (st :: st2 :: l) v ib (snext st)) with (fadd (thru a (snext st) (snext st) (scur a st v ib)) (ckcl (snext st) (st2 :: l) v ib (snext st))) in Hk.
        rewrite (Hr (snext st) Hb), thru_at_b, thru_at_a in Hk by congruence.
        assert (E : scur a st v ib = i). { transitivity (fsub i (fadd (fopp (scur a st v ib)) i)); [ring | rewrite Hk; ring]. }
        exists i. split.
        -- cbn [scurs]. constructor; [exact E | exact Hi].
        -- intros r Hn.
           change (ckcl a (st :: st2 :: l) v ib r) with (fadd (thru a (snext st) r (scur a st v ib)) (ckcl (snext st) (st2 :: l) v ib r)).
           rewrite Hr, E by (intros Hx; apply Hn; right; exact Hx). apply thru_tele.
Qed.

(* ---- constitutive rows ---- *)
Fixpoint resids (a : Z) (l : list step) (v ib : Z -> K) : Prop :=
  match l with [] => True | st :: l' => resid (sp a st) (sq a st) (sbr st) v ib = f0 /\ resids (snext st) l' v ib end.
Lemma gcrel_chain_out a l v ib x : ~ In x (owns l) -> gcrel (chain_sems a l) v ib x = f0.
Proof. revert a. induction l as [|st l IH]; intros a H; [reflexivity|].
  cbn [chain_sems]. rewrite gcrel_cons. unfold ssem. rewrite bsem_snd. cbn [owns] in H.
  destruct (sbr st) as [Y J|Zb E o|J]; cbn [bown_of resid].
  - rewrite IH by exact H. ring.
  - rewrite IH by (intros Hx; apply H; right; exact Hx). rewrite ind_ne by (intros E'; apply H; left; exact E'). ring.
  - rewrite IH by exact H. ring. Qed.
Lemma chain_rows l : forall a v ib, NoDup (owns l) ->
  (forall o, In o (owns l) -> gcrel (chain_sems a l) v ib o = f0) -> resids a l v ib.
Proof.
  induction l as [|st l IH]; intros a v ib ND H; [exact I|]. cbn [resids]. cbn [owns] in *.
  destruct (sbr st) as [Y J|Zb E o|J] eqn:Eb.
  - split; [reflexivity|]. apply IH; [exact ND|]. intros o Ho. specialize (H o Ho). cbn [chain_sems] in H.
    rewrite gcrel_cons in H. unfold ssem in H. rewrite bsem_snd, Eb in H. cbn [resid] in H. rewrite <- H. ring.
  - inversion ND as [|? ? Hn ND']; subst. split.
    + specialize (H o (or_introl eq_refl)). cbn [chain_sems] in H. rewrite gcrel_cons in H. unfold ssem in H.
      rewrite bsem_snd, Eb in H. cbn [bown_of] in H. rewrite ind_refl, (gcrel_chain_out _ _ _ _ _ Hn) in H.
      rewrite <- H. ring.
    + apply IH; [exact ND'|]. intros o' Ho'. specialize (H o' (or_intror Ho')). cbn [chain_sems] in H.
      rewrite gcrel_cons in H. unfold ssem in H. rewrite bsem_snd, Eb in H. cbn [bown_of] in H.
      rewrite ind_ne in H by (intros E'; subst; exact (Hn Ho')). rewrite <- H. ring.
  - split; [reflexivity|]. apply IH; [exact ND|]. intros o Ho. specialize (H o Ho). cbn [chain_sems] in H.
    rewrite gcrel_cons in H. unfold ssem in H. rewrite bsem_snd, Eb in H. cbn [resid] in H. rewrite <- H. ring.
Qed.
Lemma gcrel_chain_in l : forall a v ib o, NoDup (owns l) -> resids a l v ib -> gcrel (chain_sems a l) v ib o = f0.
Proof. induction l as [|st l IH]; intros a v ib o ND R; [reflexivity|].
  cbn [chain_sems]. rewrite gcrel_cons. unfold ssem. rewrite bsem_snd. destruct R as [R1 R2]. rewrite R1.
  rewrite IH; [ring | | exact R2]. cbn [owns] in ND. destruct (sbr st); [exact ND | inversion ND; assumption | exact ND]. Qed.

(* ---- Thevenin view of a step in chain direction ---- *)
(* drop across the step (current node minus snext) when it carries current i *)
Definition thev (st : step) : Prop := match sbr st with BY Y _ => Y <> f0 | BZ _ _ _ => True | BI _ => False end.
Definition sz (st : step) : K := match sbr st with BY Y _ => fdiv f1 Y | BZ Zb _ _ => Zb | BI _ => f0 end.
Definition se (st : step) : K := match sbr st with BY Y J => sgn (sfwd st) (fdiv J Y) | BZ _ E _ => sgn (sfwd st) E | BI _ => f0 end.
Definition sdrop (st : step) (i : K) : K := fadd (fmul (sz st) i) (se st).
Fixpoint zsum (l : list step) : K := match l with [] => f0 | st :: l' => fadd (sz st) (zsum l') end.
Fixpoint esum (l : list step) : K := match l with [] => f0 | st :: l' => fadd (se st) (esum l') end.
Fixpoint tdrop (l : list step) (i : K) : K := match l with [] => f0 | st :: l' => fadd (sdrop st i) (tdrop l' i) end.
Lemma tdrop_lin l i : tdrop l i = fadd (fmul (zsum l) i) (esum l).
Proof. induction l as [|st l IH]; cbn [tdrop zsum esum]; [ring | rewrite IH; unfold sdrop; ring]. Qed.

Lemma step_drop a st v ib i : thev st -> scur a st v ib = i -> resid (sp a st) (sq a st) (sbr st) v ib = f0 ->
  fsub (vv v a) (vv v (snext st)) = sdrop st i.
Proof.
  unfold thev, scur, resid, sdrop, sz, se, sp, sq, cur. destruct st as [fw br b]; cbn [sfwd sbr snext].
  destruct br as [Y J|Zb E o|J]; intros T Hc Hr; [| |contradiction]; destruct fw; cbn [sgn] in *; subst i.
  - field. exact T.
  - field. exact T.
  - transitivity (fadd (fsub (fsub (fsub (vv v a) (vv v b)) (fmul Zb (ib o))) E) (fadd (fmul Zb (ib o)) E)); [ring | rewrite Hr; ring].
  - transitivity (fadd (fopp (fsub (fsub (fsub (vv v b) (vv v a)) (fmul Zb (ib o))) E)) (fsub (fopp (fmul Zb (ib o))) E)); [ring | rewrite Hr; ring].
Qed.
Lemma chain_drop l : forall a v ib i, Forall thev l -> Forall (fun c => c = i) (scurs a l v ib) -> resids a l v ib ->
  fsub (vv v a) (vv v (lastn a l)) = tdrop l i.
Proof. induction l as [|st l IH]; intros a v ib i T C R; cbn [lastn tdrop]; [ring|].
  inversion T; subst. cbn [scurs] in C. inversion C; subst. destruct R as [R1 R2].
  rewrite <- (IH (snext st) v ib _ H2 H4 R2), <- (step_drop a st v ib _ H1 eq_refl R1). ring. Qed.

(* ---- building a solution of a chain that carries current i ---- *)
Definition upd (f : Z -> K) (n : Z) (x : K) : Z -> K := fun m => if Z.eqb m n then x else f m.
Lemma upd_same f n x : upd f n x n = x.
Proof. unfold upd. rewrite Z.eqb_refl. reflexivity. Qed.
Lemma upd_other f n x m : m <> n -> upd f n x m = f m.
Proof. intros H. unfold upd. destruct (Z.eqb_spec m n); [contradiction | reflexivity]. Qed.
Lemma vv_upd_other f n x m : m <> n -> vv (upd f n x) m = vv f m.
Proof. intros H. unfold vv. rewrite upd_other by exact H. reflexivity. Qed.
Lemma vv_upd_same f n x : 0 <= n -> vv (upd f n x) n = x.
Proof. intros H. unfold vv. rewrite upd_same. destruct (Z.leb_spec 0 n); [reflexivity | lia]. Qed.

Fixpoint assign (va : K) (l : list step) (i : K) (v : Z -> K) : Z -> K :=
  match l with
  | [] => v
  | st :: l' => match l' with [] => v | _ => let vb := fsub va (sdrop st i) in assign vb l' i (upd v (snext st) vb) end
  end.
Fixpoint assign_ib (l : list step) (i : K) (ib : Z -> K) : Z -> K :=
  match l with
  | [] => ib
  | st :: l' => match sbr st with BZ _ _ o => upd (assign_ib l' i ib) o (sgn (sfwd st) i) | _ => assign_ib l' i ib end
  end.
Fixpoint drops_ok (a : Z) (l : list step) (i : K) (v : Z -> K) : Prop :=
  match l with [] => True | st :: l' => fsub (vv v a) (vv v (snext st)) = sdrop st i /\ drops_ok (snext st) l' i v end.

Lemma vv_ext (v v' : Z -> K) n : v' n = v n -> vv v' n = vv v n.
Proof. intros H. unfold vv. rewrite H. reflexivity. Qed.

Lemma assign_spec l i : forall a va v,
  NoDup (interior l) -> ~ In a (interior l) -> ~ In (lastn a l) (interior l) -> (forall n, In n (interior l) -> 0 <= n) ->
  vv v a = va ->
  (forall n, ~ In n (interior l) -> assign va l i v n = v n) /\
  (vv v (lastn a l) = fsub va (tdrop l i) -> drops_ok a l i (assign va l i v)).
Proof.
  induction l as [|st l IH]; intros a va v ND Ha Hl Hp Hva.
  - split; [reflexivity | intros _; exact I].
  - destruct l as [|st2 l].
    + split; [reflexivity|]. intros H. cbn [assign drops_ok lastn tdrop] in *. split; [|exact I].
      rewrite Hva, H. ring.
    + rewrite interior_cons in *.
      apply NoDup_cons_iff in ND. destruct ND as [Hb ND'].
      assert (Hab : a <> snext st) by (intros E; apply Ha; left; symmetry; exact E).
      change (lastn a (st :: st2 :: l)) with (lastn (snext st) (st2 :: l)) in *.
      assert (Hlb : lastn (snext st) (st2 :: l) <> snext st) by (intros E; apply Hl; left; symmetry; exact E).
      assert (Hb0 : 0 <= snext st) by (apply Hp; left; reflexivity).
      change (assign va (st :: st2 :: l) i v) with (assign (fsub va (sdrop st i)) (st2 :: l) i (upd v (snext st) (fsub va (sdrop st i)))).
      destruct (IH (snext st) (fsub va (sdrop st i)) (upd v (snext st) (fsub va (sdrop st i))) ND' Hb) as [I1 I2].
      * intros Hx. apply Hl. right. exact Hx.
      * intros n Hn. apply Hp. right. exact Hn.
      * apply vv_upd_same. exact Hb0.
      * split.
        -- intros n Hn. rewrite I1 by (intros Hx; apply Hn; right; exact Hx).
           apply upd_other. intros E. apply Hn. left. symmetry. exact E.
        -- intros Hlast. change (drops_ok a (st :: st2 :: l) i ?w) with
             (fsub (vv w a) (vv w (snext st)) = sdrop st i /\ drops_ok (snext st) (st2 :: l) i w). split.
           ++ rewrite (vv_ext _ _ a (I1 a (fun Hx => Ha (or_intror Hx)))), (vv_ext _ _ (snext st) (I1 (snext st) Hb)).
              rewrite vv_upd_other by exact Hab. rewrite vv_upd_same by exact Hb0. rewrite Hva. ring.
           ++ apply I2. rewrite vv_upd_other by exact Hlb. rewrite Hlast.
              change (tdrop (st :: st2 :: l) i) with (fadd (sdrop st i) (tdrop (st2 :: l) i)). ring.
Qed.

Lemma assign_ib_out l i ib o : ~ In o (owns l) -> assign_ib l i ib o = ib o.
Proof. induction l as [|st l IH]; intros H; [reflexivity|]. cbn [assign_ib owns] in *.
  destruct (sbr st); [apply IH; exact H | | apply IH; exact H].
  rewrite upd_other by (intros E'; apply H; left; symmetry; exact E'). apply IH. intros Hx. apply H. right. exact Hx. Qed.


(* currents and relations of a chain only read the chain's own branch unknowns *)
Lemma scurs_ext l : forall a v ib ib', (forall o, In o (owns l) -> ib' o = ib o) -> scurs a l v ib' = scurs a l v ib.
Proof. induction l as [|st l IH]; intros a v ib ib' H; [reflexivity|]. cbn [scurs owns] in *. f_equal.
  - unfold scur, cur. destruct (sbr st) as [Y J|Zb E o|J]; [reflexivity | rewrite (H o (or_introl eq_refl)); reflexivity | reflexivity].
  - apply IH. intros o Ho. apply H. destruct (sbr st); [exact Ho | right; exact Ho | exact Ho]. Qed.
Lemma resids_ext l : forall a v ib ib', (forall o, In o (owns l) -> ib' o = ib o) -> resids a l v ib -> resids a l v ib'.
Proof. induction l as [|st l IH]; intros a v ib ib' H R; [exact I|]. cbn [resids owns] in *. destruct R as [R1 R2]. split.
  - unfold resid in *. destruct (sbr st) as [Y J|Zb E o|J]; [reflexivity | rewrite (H o (or_introl eq_refl)); exact R1 | reflexivity].
  - apply (IH _ v ib); [|exact R2]. intros o Ho. apply H. destruct (sbr st); [exact Ho | right; exact Ho | exact Ho]. Qed.

(* under the built assignment every step carries i and meets its relation *)
Lemma built_ok l i : forall a v ib, NoDup (owns l) -> Forall thev l -> drops_ok a l i v ->
  Forall (fun c => c = i) (scurs a l v (assign_ib l i ib)) /\ resids a l v (assign_ib l i ib).
Proof.
  induction l as [|st l IH]; intros a v ib ND T D; [split; [constructor | exact I]|].
  pose proof (Forall_inv T) as T1. pose proof (Forall_inv_tail T) as T2. destruct D as [D1 D2].
  assert (ND' : NoDup (owns l)) by (cbn [owns] in ND; destruct (sbr st); [exact ND | inversion ND; assumption | exact ND]).
  destruct (IH (snext st) v ib ND' T2 D2) as [C R].
  assert (Hrest : forall o, In o (owns l) -> assign_ib (st :: l) i ib o = assign_ib l i ib o).
  { intros o Ho. cbn [assign_ib]. destruct (sbr st) as [Y J|Zb E o'|J] eqn:Eb; [reflexivity | | reflexivity].
    apply upd_other. intros E'. subst o'. cbn [owns] in ND. rewrite Eb in ND. inversion ND; contradiction. }
  cbn [scurs resids]. rewrite (scurs_ext l _ v (assign_ib l i ib) _ Hrest).
  split; [constructor; [|exact C] | split; [|apply (resids_ext l _ v (assign_ib l i ib)); assumption]].
  - unfold scur, cur, thev, sdrop, sz, se, sp, sq in *. cbn [assign_ib]. destruct st as [fw br b]; cbn [sfwd sbr snext] in *.
    destruct br as [Y J|Zb E o|J]; [| |contradiction]; destruct fw; cbn [sgn] in *.
    + rewrite D1. field. exact T1.
    + transitivity (fadd (fmul Y (fsub (vv v a) (vv v b))) J); [ring|].
      rewrite D1. field. exact T1.
    + rewrite upd_same. reflexivity.
    + rewrite upd_same. ring.
  - unfold resid, thev, sdrop, sz, se, sp, sq in *. cbn [assign_ib]. destruct st as [fw br b]; cbn [sfwd sbr snext] in *.
    destruct br as [Y J|Zb E o|J]; [reflexivity | | reflexivity]; destruct fw; cbn [sgn] in *; rewrite upd_same.
    + rewrite D1. ring.
    + transitivity (fsub (fsub (fopp (fsub (vv v a) (vv v b))) (fmul Zb (fopp i))) E); [ring | rewrite D1; ring].
Qed.

Definition mem (l : list Z) (n : Z) : bool := existsb (Z.eqb n) l.
Lemma mem_In l n : mem l n = true <-> In n l.
Proof. unfold mem. rewrite existsb_exists. split; [intros [x [H E]]; apply Z.eqb_eq in E; subst; exact H | intros H; exists n; split; [exact H | apply Z.eqb_refl]]. Qed.
Lemma mem_false l n : mem l n = false <-> ~ In n l.
Proof. rewrite <- mem_In. destruct (mem l n); split; intros H; solve [congruence | discriminate | reflexivity | exfalso; apply H; reflexivity]. Qed.

(* well-formed chain starting at a *)
Definition chain_wf (a : Z) (l : list step) : Prop :=
  NoDup (interior l) /\ ~ In a (interior l) /\ ~ In (lastn a l) (interior l) /\ (forall n, In n (interior l) -> 0 <= n) /\
  NoDup (owns l) /\ (forall o, In o (owns l) -> 0 <= o) /\ Forall thev l.
(* every branch unknown of l2 whose value is to be retained occurs in l1 with the same direction *)
Definition kept_dir (IV : Z -> bool) (l1 l2 : list step) : Prop :=
  forall st2, In st2 l2 -> forall Zb E o, sbr st2 = BZ Zb E o -> IV o = false ->
    exists st1 Zb' E', In st1 l1 /\ sbr st1 = BZ Zb' E' o /\ sfwd st1 = sfwd st2.

Lemma scur_of_In l : forall a v ib i st, Forall (fun c => c = i) (scurs a l v ib) -> In st l ->
  forall Zb E o, sbr st = BZ Zb E o -> ib o = sgn (sfwd st) i.
Proof. induction l as [|s0 l IH]; intros a v ib i st C Hin Zb E o Eb; [destruct Hin|]. cbn [scurs] in C.
  pose proof (Forall_inv C) as C1. pose proof (Forall_inv_tail C) as C2. destruct Hin as [->|Hin].
  - unfold scur, cur in C1. rewrite Eb in C1. rewrite <- C1. rewrite sgn_sgn. reflexivity.
  - exact (IH _ v ib i st C2 Hin Zb E o Eb). Qed.
Lemma assign_ib_In l i ib : forall st Zb E o, NoDup (owns l) -> In st l -> sbr st = BZ Zb E o -> assign_ib l i ib o = sgn (sfwd st) i.
Proof. induction l as [|s0 l IH]; intros st Zb E o ND Hin Eb; [destruct Hin|]. cbn [assign_ib owns] in *. destruct Hin as [->|Hin].
  - rewrite Eb. apply upd_same.
  - destruct (sbr s0) as [Y J|Zb0 E0 o0|J] eqn:E0b; try (apply (IH st Zb E o ND Hin Eb)).
    inversion ND as [|? ? Hn ND']; subst. rewrite upd_other; [apply (IH st Zb E o ND' Hin Eb)|].
    intros E'. subst o0. apply Hn. clear -Hin Eb. induction l as [|s1 l IHl]; [destruct Hin|]. cbn [owns]. destruct Hin as [->|Hin].
    + rewrite Eb. left. reflexivity.
    + destruct (sbr s1); [apply IHl; exact Hin | right; apply IHl; exact Hin | apply IHl; exact Hin]. Qed.

(* THE series theorem.  Observation: one and the same current flows through
   every branch of the first chain and every branch of the second chain. *)
Definition same_current (a : Z) (l1 l2 : list step) : obs_t K := fun v ib v' ib' =>
  exists i, Forall (fun c => c = i) (scurs a l1 v ib) /\ Forall (fun c => c = i) (scurs a l2 v' ib').
Theorem chain_sim_o (a : Z) (l1 l2 : list step) (IN IV IR : Z -> bool) :
  chain_wf a l1 -> chain_wf a l2 -> lastn a l1 = lastn a l2 ->
  zsum l1 = zsum l2 -> esum l1 = esum l2 ->
  (forall n, IN n = true <-> In n (interior l1 ++ interior l2)) ->
  (forall o, IR o = true <-> In o (owns l1 ++ owns l2)) ->
  kept_dir IV l1 l2 ->
  port_sim_o (same_current a l1 l2) IN IV IR (chain_sems a l1) (chain_sems a l2).
Proof.
  intros [ND1 [Ha1 [Hl1 [Hp1 [NO1 [Ho1 T1]]]]]] [ND2 [Ha2 [Hl2 [Hp2 [NO2 [Ho2 T2]]]]]] Elast Ez Ee HIN HIR HK v ib [Ik Ic].
  (* the common current of chain 1 *)
  destruct (chain_current l1 a v ib ND1 Ha1 Hl1) as [i [Ci Hout]].
  { intros r Hr. rewrite <- gkcl_chain. apply Ik; [apply Hp1; exact Hr | apply HIN; apply in_or_app; left; exact Hr]. }
  assert (R1 : resids a l1 v ib).
  { apply chain_rows; [exact NO1|]. intros o Ho. apply Ic; [apply Ho1; exact Ho | apply HIR; apply in_or_app; left; exact Ho]. }
  pose proof (chain_drop l1 a v ib i T1 Ci R1) as D1.
  set (v' := assign (vv v a) l2 i v). set (ib' := assign_ib l2 i ib).
  destruct (assign_spec l2 i a (vv v a) v ND2 Ha2 Hl2 Hp2 eq_refl) as [Av Ad]. fold v' in Av, Ad.
  assert (Dok : drops_ok a l2 i v').
  { apply Ad. rewrite <- Elast. rewrite tdrop_lin, <- Ez, <- Ee, <- tdrop_lin, <- D1. ring. }
  destruct (built_ok l2 i a v' ib NO2 T2 Dok) as [C2 R2]. fold ib' in C2, R2.
  exists v', ib'. split; [|split; [|split; [split|split; [|split]]]]; [| | | | | |exists i; split; assumption].
  - intros n Hn. symmetry. apply Av. intros Hx. assert (IN n = true) by (apply HIN; apply in_or_app; right; exact Hx). congruence.
  - intros o Ho. unfold ib'. destruct (in_dec Z.eq_dec o (owns l2)) as [Hin|Hnin]; [|symmetry; apply assign_ib_out; exact Hnin].
    assert (Hst : exists st2 Zb E, In st2 l2 /\ sbr st2 = BZ Zb E o).
    { clear -Hin. induction l2 as [|s0 l IHl]; [destruct Hin|]. cbn [owns] in Hin. destruct (sbr s0) as [Y J|Zb E o0|J] eqn:Eb.
      - destruct (IHl Hin) as [st [z [e [H1 H2]]]]. exists st, z, e. split; [right; exact H1 | exact H2].
      - destruct Hin as [->|Hin]; [exists s0, Zb, E; split; [left; reflexivity | exact Eb]|].
        destruct (IHl Hin) as [st [z [e [H1 H2]]]]. exists st, z, e. split; [right; exact H1 | exact H2].
      - destruct (IHl Hin) as [st [z [e [H1 H2]]]]. exists st, z, e. split; [right; exact H1 | exact H2]. }
    destruct Hst as [st2 [Zb [E [Hin2 Eb2]]]].
    destruct (HK st2 Hin2 Zb E o Eb2 Ho) as [st1 [Zb' [E' [Hin1 [Eb1 Edir]]]]].
    rewrite (assign_ib_In l2 i ib st2 Zb E o NO2 Hin2 Eb2), (scur_of_In l1 a v ib i st1 Ci Hin1 Zb' E' o Eb1), Edir. reflexivity.
  - intros r Hr Hi. rewrite gkcl_chain, (ckcl_const a l2 v' ib' r i C2).
    apply HIN in Hi. apply in_app_or in Hi. apply thru_out.
    + destruct Hi as [Hi|Hi]; intros E; subst r; [exact (Ha1 Hi) | exact (Ha2 Hi)].
    + destruct Hi as [Hi|Hi]; intros E; subst r; [rewrite <- Elast in Hi; exact (Hl1 Hi) | exact (Hl2 Hi)].
  - intros q Hq Hi. apply gcrel_chain_in; assumption.
  - intros r Hr Hi. rewrite !gkcl_chain, (ckcl_const a l2 v' ib' r i C2), <- Elast. apply Hout.
    intros Hx. assert (IN r = true) by (apply HIN; apply in_or_app; left; exact Hx). congruence.
  - intros q Hq Hi. rewrite !gcrel_chain_out; [reflexivity | |].
    + intros Hx. assert (IR q = true) by (apply HIR; apply in_or_app; right; exact Hx). congruence.
    + intros Hx. assert (IR q = true) by (apply HIR; apply in_or_app; left; exact Hx). congruence.
Qed.
Theorem chain_sim (a : Z) (l1 l2 : list step) (IN IV IR : Z -> bool) :
  chain_wf a l1 -> chain_wf a l2 -> lastn a l1 = lastn a l2 ->
  zsum l1 = zsum l2 -> esum l1 = esum l2 ->
  (forall n, IN n = true <-> In n (interior l1 ++ interior l2)) ->
  (forall o, IR o = true <-> In o (owns l1 ++ owns l2)) ->
  kept_dir IV l1 l2 ->
  port_sim IN IV IR (chain_sems a l1) (chain_sems a l2).
Proof. intros. eapply port_sim_o_weaken. apply chain_sim_o; assumption. Qed.

(* ======================= parallel groups ================================ *)
(* (fwd, branch): the branch's + terminal is at a (true) or at b (false) *)
Definition pstep := (bool * branch)%type.
Definition psem (a b : Z) (ps : pstep) : sem := bsem (if fst ps then a else b) (if fst ps then b else a) (snd ps).
Definition psems (a b : Z) (l : list pstep) : list sem := map (psem a b) l.
Definition pcur (a b : Z) (ps : pstep) (v ib : Z -> K) : K :=
  sgn (fst ps) (cur (if fst ps then a else b) (if fst ps then b else a) (snd ps) v ib).
Lemma psem_fst a b ps v ib r : fst (psem a b ps) v ib r = thru a b r (pcur a b ps v ib).
Proof. unfold psem, pcur. rewrite bsem_fst. destruct (fst ps); cbn [sgn]; [reflexivity | apply thru_swap]. Qed.
Fixpoint pcursum (a b : Z) (l : list pstep) (v ib : Z -> K) : K :=
  match l with [] => f0 | ps :: l' => fadd (pcur a b ps v ib) (pcursum a b l' v ib) end.
Lemma gkcl_par a b l v ib r : gkcl (psems a b l) v ib r = thru a b r (pcursum a b l v ib).
Proof. induction l as [|ps l IH]; cbn [psems map pcursum]; [rewrite gkcl_nil; unfold thru; ring|].
  rewrite gkcl_cons, psem_fst. unfold psems in IH. rewrite IH. unfold thru. ring. Qed.

(* ---- Norton-type groups: R, NR, Z, Y, C, I ---- *)
Definition norton (ps : pstep) : Prop := match snd ps with BZ _ _ _ => False | _ => True end.
Definition py (ps : pstep) : K := match snd ps with BY Y _ => Y | _ => f0 end.
Definition pj (ps : pstep) : K := match snd ps with BY _ J => sgn (fst ps) J | BI J => sgn (fst ps) J | BZ _ _ _ => f0 end.
Fixpoint Ysum (l : list pstep) : K := match l with [] => f0 | ps :: l' => fadd (py ps) (Ysum l') end.
Fixpoint Jsum (l : list pstep) : K := match l with [] => f0 | ps :: l' => fadd (pj ps) (Jsum l') end.
Lemma par_norton_cur a b l v ib : Forall norton l ->
  pcursum a b l v ib = fsub (fmul (Ysum l) (fsub (vv v a) (vv v b))) (Jsum l).
Proof. induction 1 as [|ps l Hn _ IH]; cbn [pcursum Ysum Jsum]; [ring|]. rewrite IH.
  unfold pcur, py, pj, norton, cur in *. destruct ps as [fw br]; cbn [fst snd] in *.
  destruct br as [Y J|Zb E o|J]; [| contradiction |]; destruct fw; cbn [sgn]; ring. Qed.
Lemma par_norton_crel a b l v ib q : Forall norton l -> gcrel (psems a b l) v ib q = f0.
Proof. induction 1 as [|ps l Hn _ IH]; [reflexivity|]. cbn [psems map]. rewrite gcrel_cons. unfold psems in IH. rewrite IH.
  unfold psem. rewrite bsem_snd. unfold norton in Hn. destruct (snd ps); [cbn [resid]; ring | contradiction | cbn [resid]; ring]. Qed.

(* groups with equal admittance sum and equal signed source-current sum draw
   exactly the same currents from every node, for every assignment *)
Theorem par_norton_same a b l1 l2 : Forall norton l1 -> Forall norton l2 -> Ysum l1 = Ysum l2 -> Jsum l1 = Jsum l2 ->
  forall v ib x, gkcl (psems a b l1) v ib x = gkcl (psems a b l2) v ib x /\ gcrel (psems a b l1) v ib x = gcrel (psems a b l2) v ib x.
Proof. intros N1 N2 EY EJ v ib x. rewrite !gkcl_par, !par_norton_cur, !par_norton_crel, EY, EJ by assumption. split; reflexivity. Qed.
Lemma same_sim (F1 F2 : list sem) IN IV IR :
  (forall v ib x, gkcl F1 v ib x = gkcl F2 v ib x /\ gcrel F1 v ib x = gcrel F2 v ib x) -> port_sim IN IV IR F1 F2.
Proof. intros H v ib [Ik Ic]. exists v, ib. split; [apply agree_refl|]. split; [apply agree_refl|].
  split; [split|split]; intros x Hx Hi.
  - rewrite <- (proj1 (H v ib x)). auto. - rewrite <- (proj2 (H v ib x)). auto.
  - apply H. - apply H. Qed.
Theorem par_norton_equiv a b l1 l2 IN IV IR : Forall norton l1 -> Forall norton l2 -> Ysum l1 = Ysum l2 -> Jsum l1 = Jsum l2 ->
  port_equiv IN IV IR (psems a b l1) (psems a b l2).
Proof. intros N1 N2 EY EJ. split; apply same_sim; intros v ib x.
  - apply par_norton_same; assumption.
  - apply par_norton_same; [assumption | assumption | symmetry; assumption | symmetry; assumption]. Qed.

(* ---- impedance-type groups with their own unknowns: inductors ---- *)
Definition zwf (ps : pstep) : Prop := match snd ps with BZ Zb _ _ => Zb <> f0 | _ => False end.
Definition pz (ps : pstep) : K := match snd ps with BZ Zb _ _ => fdiv f1 Zb | _ => f0 end.
Definition pe (ps : pstep) : K := match snd ps with BZ Zb E _ => sgn (fst ps) (fdiv E Zb) | _ => f0 end.
Fixpoint pzsum (l : list pstep) : K := match l with [] => f0 | ps :: l' => fadd (pz ps) (pzsum l') end.
Fixpoint pesum (l : list pstep) : K := match l with [] => f0 | ps :: l' => fadd (pe ps) (pesum l') end.
Fixpoint powns (l : list pstep) : list Z :=
  match l with [] => [] | ps :: l' => match snd ps with BZ _ _ o => o :: powns l' | _ => powns l' end end.
Definition presid (a b : Z) (ps : pstep) (v ib : Z -> K) : K := resid (if fst ps then a else b) (if fst ps then b else a) (snd ps) v ib.
Fixpoint presids (a b : Z) (l : list pstep) (v ib : Z -> K) : Prop :=
  match l with [] => True | ps :: l' => presid a b ps v ib = f0 /\ presids a b l' v ib end.

Lemma pgcrel_out a b l v ib x : ~ In x (powns l) -> gcrel (psems a b l) v ib x = f0.
Proof. induction l as [|ps l IH]; intros H; [reflexivity|]. cbn [psems map]. rewrite gcrel_cons. unfold psem at 1. rewrite bsem_snd.
  cbn [powns] in H. unfold psems in IH. destruct (snd ps) as [Y J|Zb E o|J]; cbn [bown_of resid].
  - rewrite IH by exact H. ring.
  - rewrite IH by (intros Hx; apply H; right; exact Hx). rewrite ind_ne by (intros E'; apply H; left; exact E'). ring.
  - rewrite IH by exact H. ring. Qed.
Lemma p_rows a b l v ib : Forall zwf l -> NoDup (powns l) ->
  (forall o, In o (powns l) -> gcrel (psems a b l) v ib o = f0) -> presids a b l v ib.
Proof. induction 1 as [|ps l Hz _ IH]; intros ND H; [exact I|]. cbn [presids]. unfold zwf in Hz. cbn [powns] in *.
  destruct ps as [fw br]. cbn [snd] in *. destruct br as [Y J|Zb E o|J]; [contradiction | | contradiction].
  inversion ND as [|? ? Hn ND']; subst. split.
  - specialize (H o (or_introl eq_refl)). cbn [psems map] in H. rewrite gcrel_cons in H. unfold psem at 1 in H.
    rewrite bsem_snd in H. cbn [snd bown_of fst] in H. rewrite ind_refl in H. fold (psems a b l) in H.
    rewrite (pgcrel_out a b l v ib o Hn) in H. unfold presid. cbn [fst snd]. rewrite <- H. ring.
  - apply IH; [exact ND'|]. intros o' Ho'. specialize (H o' (or_intror Ho')). cbn [psems map] in H. rewrite gcrel_cons in H.
    unfold psem at 1 in H. rewrite bsem_snd in H. cbn [snd bown_of] in H. rewrite ind_ne in H by (intros E'; subst; exact (Hn Ho')).
    fold (psems a b l) in H. rewrite <- H. ring. Qed.
Lemma pgcrel_in a b l v ib o : presids a b l v ib -> gcrel (psems a b l) v ib o = f0.
Proof. induction l as [|ps l IH]; intros R; [reflexivity|]. cbn [psems map]. rewrite gcrel_cons. unfold psem at 1. rewrite bsem_snd.
  destruct R as [R1 R2]. unfold presid in R1. rewrite R1. fold (psems a b l). rewrite (IH R2). ring. Qed.

Lemma p_cur_bz a b l v ib : Forall zwf l -> presids a b l v ib ->
  pcursum a b l v ib = fsub (fmul (pzsum l) (fsub (vv v a) (vv v b))) (pesum l).
Proof. induction 1 as [|ps l Hz _ IH]; intros R; cbn [pcursum pzsum pesum]; [ring|]. destruct R as [R1 R2]. rewrite (IH R2).
  unfold pcur, pz, pe, zwf, presid, resid, cur in *. destruct ps as [fw br]; cbn [fst snd] in *.
  destruct br as [Y J|Zb E o|J]; [contradiction | | contradiction]. destruct fw; cbn [sgn].
  - assert (Ei : ib o = fdiv (fsub (fsub (vv v a) (vv v b)) E) Zb).
    { transitivity (fdiv (fsub (fsub (fsub (vv v a) (vv v b)) E) (fsub (fsub (fsub (vv v a) (vv v b)) (fmul Zb (ib o))) E)) Zb); [field; exact Hz | rewrite R1; field; exact Hz]. }
    rewrite Ei. field. exact Hz.
  - assert (Ei : ib o = fdiv (fsub (fsub (vv v b) (vv v a)) E) Zb).
    { transitivity (fdiv (fsub (fsub (fsub (vv v b) (vv v a)) E) (fsub (fsub (fsub (vv v b) (vv v a)) (fmul Zb (ib o))) E)) Zb); [field; exact Hz | rewrite R1; field; exact Hz]. }
    rewrite Ei. field. exact Hz. Qed.

Fixpoint passign (a b : Z) (l : list pstep) (v ib : Z -> K) : Z -> K :=
  match l with
  | [] => ib
  | ps :: l' => match snd ps with
                | BZ Zb E o => upd (passign a b l' v ib) o (fdiv (fsub (fsub (vv v (if fst ps then a else b)) (vv v (if fst ps then b else a))) E) Zb)
                | _ => passign a b l' v ib end
  end.
Lemma passign_out a b l v ib o : ~ In o (powns l) -> passign a b l v ib o = ib o.
Proof. induction l as [|ps l IH]; intros H; [reflexivity|]. cbn [passign powns] in *.
  destruct (snd ps); [apply IH; exact H | | apply IH; exact H].
  rewrite upd_other by (intros E'; apply H; left; symmetry; exact E'). apply IH. intros Hx. apply H. right. exact Hx. Qed.
Lemma presids_ext a b l v ib ib' : (forall o, In o (powns l) -> ib' o = ib o) -> presids a b l v ib -> presids a b l v ib'.
Proof. induction l as [|ps l IH]; intros H R; [exact I|]. cbn [presids powns] in *. destruct R as [R1 R2]. split.
  - unfold presid, resid in *. destruct (snd ps) as [Y J|Zb E o|J]; [reflexivity | rewrite (H o (or_introl eq_refl)); exact R1 | reflexivity].
  - apply IH; [|exact R2]. intros o Ho. apply H. destruct (snd ps); [exact Ho | right; exact Ho | exact Ho]. Qed.
Lemma passign_ok a b l v ib : Forall zwf l -> NoDup (powns l) -> presids a b l v (passign a b l v ib).
Proof. induction 1 as [|ps l Hz _ IH]; intros ND; [exact I|]. cbn [presids]. unfold zwf in Hz.
  destruct ps as [fw br]. cbn [snd] in Hz. destruct br as [Y J|Zb E o|J]; [contradiction | | contradiction].
  cbn [powns snd] in ND. inversion ND as [|? ? Hn ND']; subst. split.
  - unfold presid, resid. cbn [passign fst snd]. rewrite upd_same. field. exact Hz.
  - apply (presids_ext a b l v (passign a b l v ib)); [|apply IH; exact ND'].
    intros o' Ho'. cbn [passign snd]. apply upd_other. intros E'. subst. exact (Hn Ho'). Qed.

Theorem par_bz_sim (a b : Z) (l1 l2 : list pstep) (IN IV IR : Z -> bool) :
  Forall zwf l1 -> Forall zwf l2 -> NoDup (powns l1) -> NoDup (powns l2) ->
  (forall o, In o (powns l1 ++ powns l2) -> 0 <= o) ->
  pzsum l1 = pzsum l2 -> pesum l1 = pesum l2 ->
  (forall o, IR o = true <-> In o (powns l1 ++ powns l2)) ->
  (forall o, In o (powns l2) -> IV o = true) ->
  port_sim IN IV IR (psems a b l1) (psems a b l2).
Proof.
  intros Z1 Z2 N1 N2 Hpos EZ EE HIR HIV v ib [Ik Ic].
  assert (R1 : presids a b l1 v ib).
  { apply p_rows; [exact Z1 | exact N1|]. intros o Ho. apply Ic; [apply Hpos; apply in_or_app; left; exact Ho | apply HIR; apply in_or_app; left; exact Ho]. }
  set (ib' := passign a b l2 v ib).
  assert (R2 : presids a b l2 v ib') by (apply passign_ok; assumption).
  assert (Ek : forall r, gkcl (psems a b l1) v ib r = gkcl (psems a b l2) v ib' r).
  { intros r. rewrite !gkcl_par, (p_cur_bz a b l1 v ib Z1 R1), (p_cur_bz a b l2 v ib' Z2 R2), EZ, EE. reflexivity. }
  exists v, ib'. split; [apply agree_refl|]. split; [|split; [split|split]].
  - intros o Ho. unfold ib'. symmetry. apply passign_out. intros Hx. rewrite (HIV o Hx) in Ho. discriminate.
  - intros r Hr Hi. rewrite <- Ek. auto.
  - intros q Hq Hi. apply pgcrel_in. exact R2.
  - intros r Hr Hi. apply Ek.
  - intros q Hq Hi. rewrite !pgcrel_out; [reflexivity | |].
    + intros Hx. assert (IR q = true) by (apply HIR; apply in_or_app; right; exact Hx). congruence.
    + intros Hx. assert (IR q = true) by (apply HIR; apply in_or_app; left; exact Hx). congruence.
Qed.
End B.
Arguments BY {K}. Arguments BZ {K}. Arguments BI {K}. Arguments branch K : clear implicits.
Arguments bsem {K}. Arguments cur {K}. Arguments resid {K}.
Arguments Step {K}. Arguments sfwd {K}. Arguments sbr {K}. Arguments snext {K}. Arguments step K : clear implicits.
Arguments chain_sems {K}. Arguments lastn {K}. Arguments interior {K}. Arguments owns {K}.
Arguments thev {K}. Arguments sz {K}. Arguments se {K}. Arguments zsum {K}. Arguments esum {K}. Arguments sgn {K}.
Arguments chain_wf {K}. Arguments kept_dir {K}. Arguments ssem {K}. Arguments same_current {K}. Arguments scurs {K}. Arguments scur {K}.
Arguments pstep K : clear implicits. Arguments psem {K}. Arguments psems {K}. Arguments norton {K}. Arguments py {K}. Arguments pj {K}.
Arguments Ysum {K}. Arguments Jsum {K}. Arguments zwf {K}. Arguments pz {K}. Arguments pe {K}.
Arguments pzsum {K}. Arguments pesum {K}. Arguments powns {K}. Arguments upd {K}.
Print Assumptions chain_sim_o.
Print Assumptions chain_sim.
Print Assumptions par_norton_equiv.
Print Assumptions par_bz_sim.
