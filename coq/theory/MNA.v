(* Hand model of the bookkeeping in lcapy/mna.py: which branch currents become
   unknowns and in which order (MNA.__init__), and how the solved vector is
   reported as component currents (MNA._solve + current.current_sign).
   Tied to the code by the correspondence evaluation of checks/c01.py. *)
Require Import LT.FieldSec LT.Circuit.
From Coq Require Import Arith.

(* ---- unknown branch currents ------------------------------------------- *)
Record cinfo := CI { ci_id : nat; ci_need_br : bool; ci_need_extra : bool; ci_cc : bool; ci_ctrl : nat }.
Definition bkey := (nat * bool)%type.          (* (component id, is the extra 'X' unknown) *)
Definition bkey_eqb (a b : bkey) : bool := Nat.eqb (fst a) (fst b) && Bool.eqb (snd a) (snd b).
Lemma bkey_eqb_eq a b : bkey_eqb a b = true <-> a = b.
Proof. destruct a as [a1 a2], b as [b1 b2]; unfold bkey_eqb; cbn. rewrite andb_true_iff, Nat.eqb_eq, Bool.eqb_true_iff.
  split; [intros [-> ->]; reflexivity | intros E; inversion E; auto]. Qed.
Definition bmem (k : bkey) (l : list bkey) : bool := existsb (bkey_eqb k) l.
Lemma bmem_In k l : bmem k l = true <-> In k l.
Proof. unfold bmem. rewrite existsb_exists. split.
  - intros [x [Hx E]]. apply bkey_eqb_eq in E. subst. exact Hx.
  - intros H. exists k. split; [exact H | apply bkey_eqb_eq; reflexivity]. Qed.
Definition add_new (k : bkey) (acc : list bkey) : list bkey := if bmem k acc then acc else acc ++ [k].

Definition step_unknowns (acc : list bkey) (e : cinfo) : list bkey :=
  let acc1 := if ci_need_br e then add_new (ci_id e, false) acc else acc in
  let acc2 := if ci_need_extra e then acc1 ++ [(ci_id e, true)] else acc1 in
  if ci_cc e then add_new (ci_ctrl e, false) acc2 else acc2.
Definition unknowns (l : list cinfo) : list bkey := fold_left step_unknowns l [].

Fixpoint index_of (k : bkey) (l : list bkey) : option nat :=
  match l with
  | [] => None
  | x :: l' => if bkey_eqb k x then Some 0%nat else option_map S (index_of k l')
  end.

Lemma NoDup_snoc {A} (l : list A) (k : A) : NoDup l -> ~ In k l -> NoDup (l ++ [k]).
Proof. induction l as [|x l IH]; intros ND Hn; cbn [app].
  - constructor; [intros []|constructor].
  - inversion ND as [|? ? Hx ND']; subst. constructor.
    + intros Hi. apply in_app_or in Hi. destruct Hi as [Hi|[Hi|[]]]; [exact (Hx Hi)|]. subst. apply Hn. left. reflexivity.
    + apply IH; [exact ND'|]. intros Hi. apply Hn. right. exact Hi. Qed.
Lemma add_new_NoDup k acc : NoDup acc -> NoDup (add_new k acc).
Proof. intros H. unfold add_new. destruct (bmem k acc) eqn:E; [exact H|].
  apply NoDup_snoc; [exact H|]. intros Hx. apply bmem_In in Hx. congruence. Qed.
Lemma add_new_incl k acc x : In x acc -> In x (add_new k acc).
Proof. unfold add_new. destruct (bmem k acc); [auto | intros; apply in_or_app; left; assumption]. Qed.
Lemma add_new_In k acc : In k (add_new k acc).
Proof. unfold add_new. destruct (bmem k acc) eqn:E; [apply bmem_In; exact E | apply in_or_app; right; left; reflexivity]. Qed.
Lemma add_new_inv k acc x : In x (add_new k acc) -> In x acc \/ x = k.
Proof. unfold add_new. destruct (bmem k acc); [auto|]. intros H. apply in_app_or in H. destruct H as [H|[H|[]]]; auto. Qed.

(* invariant: acc has no duplicates and every extra key in it belongs to an
   already processed component *)
Definition inv_unk (seen : list nat) (acc : list bkey) : Prop :=
  NoDup acc /\ forall i, In (i, true) acc -> In i seen.

Lemma step_inv seen acc e : inv_unk seen acc -> ~ In (ci_id e) seen ->
  inv_unk (ci_id e :: seen) (step_unknowns acc e).
Proof.
  intros [ND EX] Hnew. unfold step_unknowns.
  set (acc1 := if ci_need_br e then add_new (ci_id e, false) acc else acc).
  assert (I1 : NoDup acc1 /\ forall i, In (i, true) acc1 -> In i seen).
  { subst acc1. destruct (ci_need_br e); [|split; assumption]. split; [apply add_new_NoDup; exact ND|].
    intros i Hi. apply add_new_inv in Hi. destruct Hi as [Hi|Hi]; [auto | discriminate]. }
  destruct I1 as [ND1 EX1].
  set (acc2 := if ci_need_extra e then acc1 ++ [(ci_id e, true)] else acc1).
  assert (I2 : NoDup acc2 /\ forall i, In (i, true) acc2 -> In i (ci_id e :: seen)).
  { subst acc2. destruct (ci_need_extra e).
    - split.
      + apply NoDup_snoc; [exact ND1|]. intros Hx. apply Hnew. apply EX1. exact Hx.
      + intros i Hi. apply in_app_or in Hi. destruct Hi as [Hi|[Hi|[]]].
        * right. apply EX1. exact Hi. * left. inversion Hi. reflexivity.
    - split; [exact ND1|]. intros i Hi. right. apply EX1. exact Hi. }
  destruct I2 as [ND2 EX2].
  destruct (ci_cc e); [|split; assumption]. split; [apply add_new_NoDup; exact ND2|].
  intros i Hi. apply add_new_inv in Hi. destruct Hi as [Hi|Hi]; [auto | discriminate].
Qed.

Theorem unknowns_NoDup (l : list cinfo) : NoDup (map ci_id l) -> NoDup (unknowns l).
Proof.
  unfold unknowns. intros H.
  assert (G : forall l seen acc, inv_unk seen acc -> NoDup (map ci_id l) ->
            (forall i, In i (map ci_id l) -> ~ In i seen) -> NoDup (fold_left step_unknowns l acc)).
  { clear. induction l as [|e l IH]; intros seen acc I ND Hd; cbn [fold_left].
    - exact (proj1 I).
    - cbn [map] in ND. inversion ND as [|? ? Hn ND']; subst.
      apply (IH (ci_id e :: seen)).
      + apply step_inv; [exact I|]. apply Hd. left. reflexivity.
      + exact ND'.
      + intros i Hi [<-|Hs]; [exact (Hn Hi)|]. apply (Hd i); [right; exact Hi | exact Hs]. }
  apply (G l [] []); [split; [constructor | intros i []] | exact H | intros i _ []].
Qed.

(* every needed unknown is present *)
Lemma fold_incl l acc x : In x acc -> In x (fold_left step_unknowns l acc).
Proof. revert acc. induction l as [|e l IH]; intros acc H; cbn [fold_left]; [exact H|].
  apply IH. unfold step_unknowns.
  assert (A1 : In x (if ci_need_br e then add_new (ci_id e, false) acc else acc)).
  { destruct (ci_need_br e); [apply add_new_incl|]; exact H. }
  assert (A2 : In x (if ci_need_extra e then (if ci_need_br e then add_new (ci_id e, false) acc else acc) ++ [(ci_id e, true)]
                     else (if ci_need_br e then add_new (ci_id e, false) acc else acc))).
  { destruct (ci_need_extra e); [apply in_or_app; left|]; exact A1. }
  destruct (ci_cc e); [apply add_new_incl|]; exact A2. Qed.
Lemma step_complete acc e :
  (ci_need_br e = true -> In (ci_id e, false) (step_unknowns acc e)) /\
  (ci_need_extra e = true -> In (ci_id e, true) (step_unknowns acc e)) /\
  (ci_cc e = true -> In (ci_ctrl e, false) (step_unknowns acc e)).
Proof.
  unfold step_unknowns. destruct (ci_need_br e), (ci_need_extra e), (ci_cc e); repeat split; intros Hf; try discriminate;
  repeat first [ apply add_new_In
               | (apply in_or_app; right; left; reflexivity)
               | apply add_new_incl
               | (apply in_or_app; left) ].
Qed.
Theorem unknowns_complete (l : list cinfo) (e : cinfo) : In e l ->
  (ci_need_br e = true -> In (ci_id e, false) (unknowns l)) /\
  (ci_need_extra e = true -> In (ci_id e, true) (unknowns l)) /\
  (ci_cc e = true -> In (ci_ctrl e, false) (unknowns l)).
Proof.
  unfold unknowns. generalize (@nil bkey). induction l as [|a l IH]; intros acc []; cbn [fold_left].
  - subst a. destruct (step_complete acc e) as [A [B C]].
    repeat split; intros Hf; apply fold_incl; auto.
  - apply IH. assumption.
Qed.
Lemma index_of_In k l : In k l -> exists n, index_of k l = Some n.
Proof. induction l as [|x l IH]; intros []; cbn [index_of].
  - subst. assert (bkey_eqb k k = true) as -> by (apply bkey_eqb_eq; reflexivity). eauto.
  - destruct (bkey_eqb k x); [eauto|]. destruct (IH H) as [n ->]. cbn. eauto. Qed.

(* ---- reporting ------------------------------------------------------------ *)
Inductive conv := Passive | Hybrid | Active.
Section Report.
Variable K : fld.
Add Field KFr : (fth K).
Local Open Scope F_scope.
Definition csign (cv : conv) (is_source : bool) (i : K) : K :=
  match cv with Passive => i | Hybrid => if is_source then - i else i | Active => - i end.
(* how MNA._solve fills Idict for one element *)
Inductive rkind := RImm | RIsrc | RBranch (is_source : bool) | RNone.
Definition report (cv : conv) (rk : rkind) (c : sctx K) (V0 Zr : K) (v ib : Z -> K) : K :=
  match rk with
  | RImm => csign cv false ((vv v (p0 c) - vv v (p1 c) - V0) / Zr)
  | RIsrc => csign cv true (- par c pIsc)
  | RBranch s => csign cv s (ib (bown c))
  | RNone => 0
  end.
(* Under the passive convention the reported current is the current drawn at
   the first node, for every two-terminal kind: *)
Theorem report_RC_passive c V0 Zr v ib r :
  Zr <> 0 -> Yeff c * Zr = 1 ->
  V0 = (if akind_eqb (kind c) KIvp && has_ic c then par c pIsc else 0) * Zr ->
  drawn_RC c v ib r = thru (p0 c) (p1 c) r (report Passive RImm c V0 Zr v ib).
Proof. intros Hz HY HV. unfold drawn_RC, report, csign, thru, dV01. rewrite HV.
  set (isc := if akind_eqb (kind c) KIvp && has_ic c then par c pIsc else 0).
  assert (Yeff c = 1 / Zr) as -> by (rewrite <- HY; field; exact Hz). field. exact Hz. Qed.
Theorem report_branch_passive c V0 Zr v ib r s :
  drawn_V c v ib r = thru (p0 c) (p1 c) r (report Passive (RBranch s) c V0 Zr v ib).
Proof. reflexivity. Qed.
Theorem report_I_passive c V0 Zr v ib r :
  drawn_I c v ib r = thru (p0 c) (p1 c) r (report Passive RIsrc c V0 Zr v ib).
Proof. reflexivity. Qed.
(* the hybrid convention only flips sources *)
Theorem report_hybrid c V0 Zr v ib rk :
  report Hybrid rk c V0 Zr v ib =
  match rk with RIsrc => - report Passive rk c V0 Zr v ib
              | RBranch true => - report Passive rk c V0 Zr v ib
              | _ => report Passive rk c V0 Zr v ib end.
Proof. destruct rk as [| |[]|]; reflexivity. Qed.
(* the active convention flips every reported current (so that KCL and the
   constitutive relations hold in the flipped orientation for all components alike) *)
Theorem report_active c V0 Zr v ib rk :
  report Active rk c V0 Zr v ib = - report Passive rk c V0 Zr v ib.
Proof. destruct rk as [| |[]|]; unfold report, csign; ring. Qed.
End Report.
Arguments csign {K}. Arguments report {K}.
