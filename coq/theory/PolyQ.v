(* PolyQ — dense univariate polynomials over the abstract field record [fld]
   of FieldSec.v (hence executable over [QcF] and over the Gaussian rationals
   [QcIF] of QcI.v by [vm_compute]).  Reusable: C10, C11, C13, C19.

   Representation: a polynomial is the list of its coefficients, LOWEST power
   first ([a0; a1; a2] is a0 + a1 x + a2 x^2).  Lists may carry trailing zeros;
   [pnorm] strips them.  [psize p = length (pnorm p)] is degree + 1 (0 for the
   zero polynomial), [plc p] the leading coefficient (0 for the zero polynomial).

   Contents
     peval (Horner) padd popp psub pscale pmul pshift pX pconst plin  + eval lemmas
     fpow fnat feqb, pzerob pnorm psize plc peqb            (peqb_sound, peqb_size)
     pdivmod / pdiv   Euclidean division, structural recursion, NO fuel needed
                      (pdivmod_spec: B = Q*A + R and length R < length A)
     pdivides, pmod, pgcd (fuel)    (pgcd_bezout, pgcd_divides)
     pcancel          common-factor cancellation, self-certifying (pcancel_sound)
     pderiv           derivative  (pderiv_padd/pscale/pmul: sum and product rules)
     pmonic           monic normalisation (peval_pmonic)
     plinpow plinprod Π (x - r_i)^{n_i}  (peval_plinprod, monic, size)
     roots_cert / roots_partial     root certificates (…_sound, …_size, …_divides)
     root_factor      factor theorem
     rat, rat_eval, req, reqb       rational functions as pairs, cross-multiplied equality
     pf_check         partial-fraction certificate checker (pf_check_sound)
     prev             coefficient reversal  x^n p(1/x)   (peval_prev)
     cf_rat / cfr     continued fractions over rational-function quotients (cf_step_sound)
   Everything is axiom-free. *)
Require Import LT.FieldSec.
Local Open Scope F_scope.

Section Poly.
Variable K : fld.
Add Field KFpoly : (fth K).

Definition poly := list K.
Implicit Types p q : poly.
Implicit Types x a b c : K.

(* ---- scalars ------------------------------------------------------------ *)
Fixpoint fpow (x : K) (n : nat) : K := match n with O => 1 | S m => x * fpow x m end.
Fixpoint fnat (n : nat) : K := match n with O => 0 | S m => 1 + fnat m end.
Definition feqb (a b : K) : bool := if fdec K a b then true else false.
Lemma feqb_eq a b : feqb a b = true <-> a = b.
Proof. unfold feqb. destruct (fdec K a b); split; intros; congruence. Qed.
Lemma feqb_neq a b : feqb a b = false <-> a <> b.
Proof. unfold feqb. destruct (fdec K a b); split; intros; congruence. Qed.
Lemma fpow_add x n m : fpow x (n + m) = fpow x n * fpow x m.
Proof. induction n; cbn [fpow Nat.add]; [ring | rewrite IHn; ring]. Qed.
Lemma fpow_nz x n : x <> 0 -> fpow x n <> 0.
Proof. intros H. induction n; cbn [fpow]; [apply one_nz | apply mul_nz; assumption]. Qed.
Lemma fpow_mul x y n : fpow (x * y) n = fpow x n * fpow y n.
Proof. induction n; cbn [fpow]; [ring | rewrite IHn; ring]. Qed.
Lemma fpow_1 n : fpow 1 n = 1.
Proof. induction n; cbn [fpow]; [reflexivity | rewrite IHn; ring]. Qed.
Lemma fpow_inv x n : x <> 0 -> fpow (1 / x) n = 1 / fpow x n.
Proof. intros H. induction n; cbn [fpow]; [field; apply one_nz |].
  rewrite IHn. field. split; [apply fpow_nz|]; assumption. Qed.

(* ---- evaluation and ring operations ------------------------------------- *)
Fixpoint peval p x : K := match p with [] => 0 | a :: q => a + x * peval q x end.
Fixpoint padd p q : poly :=
  match p, q with [], _ => q | _, [] => p | a :: p', b :: q' => (a + b) :: padd p' q' end.
Definition pscale c p : poly := map (fmul c) p.
Definition popp p : poly := map fopp p.
Definition psub p q : poly := padd p (popp q).
Fixpoint pmul p q : poly :=
  match p with [] => [] | a :: p' => padd (pscale a q) (0 :: pmul p' q) end.
Definition pconst c : poly := [c].
Definition pX : poly := [0; 1].
Definition plin r : poly := [- r; 1].            (* x - r *)
Fixpoint pshift (n : nat) p : poly := match n with O => p | S m => 0 :: pshift m p end.  (* x^n * p *)
Definition pmonom c (n : nat) : poly := pshift n [c].
Fixpoint psum (l : list poly) : poly := match l with [] => [] | p :: t => padd p (psum t) end.
Fixpoint ppow p (n : nat) : poly := match n with O => [1] | S m => pmul p (ppow p m) end.

Lemma peval_padd p q x : peval (padd p q) x = peval p x + peval q x.
Proof. revert q. induction p as [|a p IH]; intros [|b q]; cbn [padd peval]; try ring. rewrite IH. ring. Qed.
Lemma peval_pscale c p x : peval (pscale c p) x = c * peval p x.
Proof. induction p as [|a p IH]; cbn [pscale map peval]; [ring|]. fold (pscale c p). rewrite IH. ring. Qed.
Lemma peval_popp p x : peval (popp p) x = - peval p x.
Proof. induction p as [|a p IH]; cbn [popp map peval]; [ring|]. fold (popp p). rewrite IH. ring. Qed.
Lemma peval_psub p q x : peval (psub p q) x = peval p x - peval q x.
Proof. unfold psub. rewrite peval_padd, peval_popp. ring. Qed.
Lemma peval_pmul p q x : peval (pmul p q) x = peval p x * peval q x.
Proof. induction p as [|a p IH]; cbn [pmul peval]; [ring|].
  rewrite peval_padd, peval_pscale. cbn [peval]. rewrite IH. ring. Qed.
Lemma peval_plin r x : peval (plin r) x = x - r.
Proof. cbn. ring. Qed.
Lemma peval_pconst c x : peval (pconst c) x = c.
Proof. cbn. ring. Qed.
Lemma peval_pX x : peval pX x = x.
Proof. cbn. ring. Qed.
Lemma peval_pshift n p x : peval (pshift n p) x = fpow x n * peval p x.
Proof. induction n; cbn [pshift peval fpow]; [ring | rewrite IHn; ring]. Qed.
Lemma peval_pmonom c n x : peval (pmonom c n) x = c * fpow x n.
Proof. unfold pmonom. rewrite peval_pshift. cbn. ring. Qed.
Lemma peval_psum l x : peval (psum l) x = fold_right (fun p acc => peval p x + acc) 0 l.
Proof. induction l; cbn [psum fold_right peval]; [reflexivity | rewrite peval_padd, IHl; reflexivity]. Qed.
Lemma peval_ppow p n x : peval (ppow p n) x = fpow (peval p x) n.
Proof. induction n; cbn [ppow fpow]; [cbn; ring | rewrite peval_pmul, IHn; reflexivity]. Qed.
Lemma peval_app p q x : peval (p ++ q) x = peval p x + fpow x (length p) * peval q x.
Proof. induction p as [|a p IH]; cbn [app peval length fpow]; [ring | rewrite IH; ring]. Qed.

Lemma length_padd p q : length (padd p q) = Nat.max (length p) (length q).
Proof. revert q. induction p as [|a p IH]; intros [|b q]; cbn [padd length Nat.max]; try reflexivity. rewrite IH. reflexivity. Qed.
Lemma length_pscale c p : length (pscale c p) = length p.
Proof. apply map_length. Qed.
Lemma length_popp p : length (popp p) = length p.
Proof. apply map_length. Qed.
Lemma length_psub p q : length (psub p q) = Nat.max (length p) (length q).
Proof. unfold psub. rewrite length_padd, length_popp. reflexivity. Qed.

(* ---- zero test, normal form, size, leading coefficient, equality --------- *)
Definition pzerob p : bool := forallb (fun a => feqb a 0) p.
Fixpoint pnorm p : poly :=
  match p with
  | [] => []
  | a :: q => match pnorm q with
              | [] => if feqb a 0 then [] else [a]
              | r => a :: r
              end
  end.
Definition psize p : nat := length (pnorm p).
Definition plc p : K := last (pnorm p) 0.
Fixpoint list_eqb (l m : poly) : bool :=
  match l, m with [], [] => true | a :: l', b :: m' => feqb a b && list_eqb l' m' | _, _ => false end.
Definition peqb p q : bool := list_eqb (pnorm p) (pnorm q).

Lemma pzerob_eval p : pzerob p = true -> forall x, peval p x = 0.
Proof. induction p as [|a p IH]; cbn [pzerob forallb peval]; intros H x; [reflexivity|].
  apply andb_true_iff in H. destruct H as [Ha Hp]. apply feqb_eq in Ha. rewrite Ha, (IH Hp). ring. Qed.
Lemma peval_pnorm p x : peval (pnorm p) x = peval p x.
Proof. induction p as [|a p IH]; cbn [pnorm peval]; [reflexivity|].
  destruct (pnorm p) as [|b r] eqn:E.
  - cbn [peval] in IH. destruct (feqb a 0) eqn:Ea.
    + apply feqb_eq in Ea. subst a. cbn [peval]. rewrite <- IH. ring.
    + cbn [peval]. rewrite <- IH. ring.
  - cbn [peval]. cbn [peval] in IH. rewrite <- IH. reflexivity. Qed.
Lemma list_eqb_eq l m : list_eqb l m = true -> l = m.
Proof. revert m. induction l as [|a l IH]; intros [|b m]; cbn [list_eqb]; intros H; try discriminate; [reflexivity|].
  apply andb_true_iff in H. destruct H as [H1 H2]. apply feqb_eq in H1. rewrite H1, (IH _ H2). reflexivity. Qed.
Lemma list_eqb_refl l : list_eqb l l = true.
Proof. induction l; cbn [list_eqb]; [reflexivity|]. rewrite IHl, (proj2 (feqb_eq a a) eq_refl). reflexivity. Qed.
Lemma peqb_norm p q : peqb p q = true -> pnorm p = pnorm q.
Proof. apply list_eqb_eq. Qed.
(* soundness of the boolean equality: equal normal forms => same function *)
Theorem peqb_sound p q : peqb p q = true -> forall x, peval p x = peval q x.
Proof. intros H x. rewrite <- (peval_pnorm p), <- (peval_pnorm q), (peqb_norm _ _ H). reflexivity. Qed.
Theorem peqb_size p q : peqb p q = true -> psize p = psize q.
Proof. intros H. unfold psize. rewrite (peqb_norm _ _ H). reflexivity. Qed.
Theorem peqb_plc p q : peqb p q = true -> plc p = plc q.
Proof. intros H. unfold plc. rewrite (peqb_norm _ _ H). reflexivity. Qed.
Lemma peqb_refl p : peqb p p = true.
Proof. apply list_eqb_refl. Qed.

Lemma pnorm_last_nz p : pnorm p <> [] -> last (pnorm p) 0 <> 0.
Proof. induction p as [|a p IH]; cbn [pnorm]; [congruence|].
  destruct (pnorm p) as [|b r] eqn:E.
  - destruct (feqb a 0) eqn:Ea; [congruence|]. intros _. cbn. apply feqb_neq. exact Ea.
  - intros _. specialize (IH ltac:(congruence)). exact IH. Qed.
Lemma pnorm_nil_zerob p : pnorm p = [] <-> pzerob p = true.
Proof. induction p as [|a p IH]; cbn [pnorm pzerob forallb]; [tauto|].
  destruct (pnorm p) as [|b r] eqn:E.
  - destruct (feqb a 0); cbn [andb]; [|split; congruence]. fold (pzerob p). tauto.
  - split; [congruence|]. intros H. apply andb_true_iff in H. destruct H as [_ H]. fold (pzerob p) in H.
    apply IH in H. congruence. Qed.
Lemma plc_nz p : pzerob p = false -> plc p <> 0.
Proof. intros H. apply pnorm_last_nz. intros E. apply pnorm_nil_zerob in E. congruence. Qed.
Lemma psize_pos p : pzerob p = false -> (0 < psize p)%nat.
Proof. intros H. unfold psize. destruct (pnorm p) eqn:E; [|cbn; lia].
  apply pnorm_nil_zerob in E. congruence. Qed.
Lemma pnorm_idem_last p : p <> [] -> last p 0 <> 0 -> pnorm p = p.
Proof. induction p as [|a p IH]; [congruence|]. intros _ H. cbn [pnorm].
  destruct p as [|b r].
  - cbn. cbn in H. destruct (feqb a 0) eqn:E; [apply feqb_eq in E; congruence | reflexivity].
  - rewrite IH; [reflexivity | congruence | exact H]. Qed.
Lemma pnorm_idem p : pnorm (pnorm p) = pnorm p.
Proof. destruct (pnorm p) eqn:E; [reflexivity|]. rewrite <- E. apply pnorm_idem_last; [congruence|].
  apply pnorm_last_nz. congruence. Qed.

(* ---- Euclidean division -------------------------------------------------
   [pdivmod B A] expects A in normal form and non-zero (last A <> 0); it is
   structurally recursive on B (synthetic division, Horner style):
   B = b + x B1,  B1 = Q1 A + R1  ==>  B = (x Q1) A + (b + x R1), and one more
   subtraction of c*A brings the remainder back below A.  [pdiv] normalises A. *)
Fixpoint pdivmod (B A : poly) : poly * poly :=
  match B with
  | [] => ([], [])
  | b :: B1 =>
      let (Q1, R1) := pdivmod B1 A in
      let R2 := b :: R1 in
      if (length R2 <? length A)%nat then (0 :: Q1, R2)
      else let c := last R2 0 / last A 0 in
           (c :: Q1, removelast (psub R2 (pscale c A)))
  end.
Definition pdiv (B A : poly) : poly * poly := pdivmod B (pnorm A).
Definition pquo B A := fst (pdiv B A).
Definition pmod B A := pnorm (snd (pdiv B A)).

Lemma last_padd_same p q : length p = length q -> p <> [] -> last (padd p q) 0 = last p 0 + last q 0.
Proof. revert q. induction p as [|a p IH]; intros [|b q] HL Hn; cbn [length] in HL; try congruence; try discriminate.
  cbn [padd]. destruct p as [|a' p'], q as [|b' q']; cbn [length] in HL; try discriminate.
  - reflexivity.
  - change (last (padd (a' :: p') (b' :: q')) 0 = last (a' :: p') 0 + last (b' :: q') 0).
    apply IH; [cbn [length]; lia | congruence]. Qed.
Lemma last_map_mul c p : last (pscale c p) 0 = c * last p 0.
Proof. induction p as [|a p IH]; cbn [pscale map last]; [ring|]. fold (pscale c p).
  destruct p as [|a' p']; [reflexivity|]. cbn [pscale map] in *. exact IH. Qed.
Lemma last_popp p : last (popp p) 0 = - last p 0.
Proof. induction p as [|a p IH]; cbn [popp map last]; [ring|]. fold (popp p).
  destruct p as [|a' p']; [reflexivity|]. cbn [popp map] in *. exact IH. Qed.
Lemma peval_removelast p x : last p 0 = 0 -> peval (removelast p) x = peval p x.
Proof. induction p as [|a p IH]; [reflexivity|]. intros H. destruct p as [|b r].
  - cbn in H. subst a. cbn. ring.
  - change (removelast (a :: b :: r)) with (a :: removelast (b :: r)). cbn [peval] in *. rewrite IH; [reflexivity | exact H]. Qed.
Lemma length_removelast p : length (removelast p) = pred (length p).
Proof. induction p as [|a p IH]; [reflexivity|]. destruct p as [|b r]; [reflexivity|].
  change (removelast (a :: b :: r)) with (a :: removelast (b :: r)). cbn [length] in *. rewrite IH. reflexivity. Qed.

Theorem pdivmod_spec B A : A <> [] -> last A 0 <> 0 ->
  (forall x, peval B x = peval (fst (pdivmod B A)) x * peval A x + peval (snd (pdivmod B A)) x)
  /\ (length (snd (pdivmod B A)) < length A)%nat.
Proof.
  intros HA HL. assert (Hlen : (0 < length A)%nat) by (destruct A; [congruence | cbn; lia]).
  induction B as [|b B1 IH]; cbn [pdivmod].
  - split; [intros x; cbn; ring | exact Hlen].
  - destruct (pdivmod B1 A) as [Q1 R1]. cbn [fst snd] in IH. destruct IH as [IHe IHl].
    destruct (Nat.ltb_spec (length (b :: R1)) (length A)) as [Hlt|Hge]; cbn [fst snd].
    + split; [|exact Hlt]. intros x. cbn [peval]. rewrite IHe. ring.
    + cbn [length] in Hge. assert (HE : length (b :: R1) = length A) by (cbn [length]; lia).
      set (c := last (b :: R1) 0 / last A 0).
      assert (Hlast : last (psub (b :: R1) (pscale c A)) 0 = 0).
      { unfold psub. rewrite last_padd_same; [| rewrite length_popp, length_pscale; exact HE | congruence].
        rewrite last_popp, last_map_mul. unfold c. field. exact HL. }
      split.
      * intros x. rewrite peval_removelast by exact Hlast. rewrite peval_psub, peval_pscale.
        cbn [peval]. rewrite IHe. ring.
      * rewrite length_removelast, length_psub, length_pscale, HE. lia.
Qed.

Theorem pdiv_spec B A : pzerob A = false ->
  (forall x, peval B x = peval (pquo B A) x * peval A x + peval (snd (pdiv B A)) x)
  /\ (length (snd (pdiv B A)) < psize A)%nat.
Proof.
  intros HA. unfold pquo, pdiv, psize.
  assert (Hn : pnorm A <> []) by (intros E; apply pnorm_nil_zerob in E; congruence).
  destruct (pdivmod_spec B (pnorm A) Hn (pnorm_last_nz A Hn)) as [He Hl]. split; [|exact Hl].
  intros x. rewrite (He x), peval_pnorm. reflexivity.
Qed.
Lemma psize_le_length p : (psize p <= length p)%nat.
Proof. unfold psize. induction p as [|a p IH]; cbn [pnorm length]; [lia|].
  destruct (pnorm p) as [|b r]; [destruct (feqb a 0); cbn [length]; lia | cbn [length] in *; lia]. Qed.
Theorem pmod_spec B A : pzerob A = false ->
  (forall x, peval B x = peval (pquo B A) x * peval A x + peval (pmod B A) x)
  /\ (psize (pmod B A) < psize A)%nat.
Proof. intros HA. destruct (pdiv_spec B A HA) as [He Hl]. split.
  - intros x. unfold pmod. rewrite peval_pnorm. apply He.
  - unfold pmod, psize at 1. rewrite pnorm_idem. fold (psize (snd (pdiv B A))).
    eapply Nat.le_lt_trans; [apply psize_le_length | exact Hl]. Qed.

(* ---- divisibility, gcd --------------------------------------------------- *)
Definition pdivides (D P : poly) : Prop := exists C, forall x, peval P x = peval C x * peval D x.
Definition pdividesb (D P : poly) : bool := pzerob (snd (pdiv P D)).
Lemma pdividesb_sound D P : pzerob D = false -> pdividesb D P = true -> pdivides D P.
Proof. intros HD H. exists (pquo P D). intros x. destruct (pdiv_spec P D HD) as [He _].
  rewrite (He x), (pzerob_eval _ H x). ring. Qed.
Lemma pdivides_refl P : pdivides P P.
Proof. exists [1]. intros x. cbn. ring. Qed.
Lemma pdivides_trans A B C : pdivides A B -> pdivides B C -> pdivides A C.
Proof. intros [U HU] [V HV]. exists (pmul V U). intros x. rewrite HV, HU, peval_pmul. ring. Qed.
Lemma pdivides_zero D P : (forall x, peval P x = 0) -> pdivides D P.
Proof. intros H. exists []. intros x. rewrite H. cbn. ring. Qed.

Fixpoint pgcd (fuel : nat) (A B : poly) : poly :=
  match fuel with
  | O => A
  | S f => if pzerob B then A else pgcd f B (pmod A B)
  end.
(* Bezout combination, for any fuel *)
Theorem pgcd_bezout fuel A B : exists U V, forall x,
  peval (pgcd fuel A B) x = peval U x * peval A x + peval V x * peval B x.
Proof. revert A B. induction fuel as [|f IH]; intros A B; cbn [pgcd].
  - exists [1], []. intros x. cbn. ring.
  - destruct (pzerob B) eqn:HB.
    + exists [1], []. intros x. cbn. ring.
    + destruct (IH B (pmod A B)) as [U [V H]]. destruct (pmod_spec A B HB) as [He _].
      exists V, (psub U (pmul V (pquo A B))). intros x. rewrite H, peval_psub, peval_pmul.
      rewrite (He x). ring. Qed.
(* with enough fuel (psize B < fuel) the result divides both arguments *)
Theorem pgcd_divides fuel A B : (psize B < fuel)%nat ->
  pdivides (pgcd fuel A B) A /\ pdivides (pgcd fuel A B) B.
Proof. revert A B. induction fuel as [|f IH]; intros A B Hf; [lia|]. cbn [pgcd].
  destruct (pzerob B) eqn:HB.
  - split; [apply pdivides_refl | apply pdivides_zero, pzerob_eval, HB].
  - destruct (pmod_spec A B HB) as [He Hs]. destruct (IH B (pmod A B) ltac:(lia)) as [[C1 H1] [C2 H2]].
    split; [|exists C1; exact H1].
    exists (padd (pmul (pquo A B) C1) C2). intros x.
    rewrite (He x), peval_padd, peval_pmul, (H1 x), (H2 x). ring. Qed.
Definition pgcd' A B := pgcd (S (psize B)) A B.

(* common-factor cancellation: divide numerator and denominator by their gcd,
   keeping the result only when both remainders are zero (self-certifying, so
   soundness does not depend on the fuel) *)
Definition pcancel (N D : poly) : poly * poly :=
  let G := pgcd' N D in
  if pzerob G then (N, D) else
  let (qn, rn) := pdiv N G in let (qd, rd) := pdiv D G in
  if pzerob rn && pzerob rd then (qn, qd) else (N, D).
Theorem pcancel_sound N D x : peval D x <> 0 ->
  peval (snd (pcancel N D)) x <> 0 /\
  peval (fst (pcancel N D)) x / peval (snd (pcancel N D)) x = peval N x / peval D x.
Proof. intros HD. unfold pcancel. set (G := pgcd' N D).
  destruct (pzerob G) eqn:HG; cbn [fst snd]; [split; [exact HD | reflexivity]|].
  destruct (pdiv_spec N G HG) as [HeN _]. destruct (pdiv_spec D G HG) as [HeD _]. unfold pquo in *.
  destruct (pdiv N G) as [qn rn]. destruct (pdiv D G) as [qd rd]. cbn [fst snd] in *.
  destruct (pzerob rn) eqn:Hrn, (pzerob rd) eqn:Hrd; cbn [andb fst snd]; try (split; [exact HD | reflexivity]).
  pose proof (HeN x) as EN. pose proof (HeD x) as ED.
  rewrite (pzerob_eval _ Hrn x) in EN. rewrite (pzerob_eval _ Hrd x) in ED.
  assert (Hg : peval G x <> 0). { intros E. apply HD. rewrite ED, E. ring. }
  assert (Hq : peval qd x <> 0). { intros E. apply HD. rewrite ED, E. ring. }
  split; [exact Hq|]. rewrite EN, ED. field. split; assumption. Qed.

(* ---- derivative ----------------------------------------------------------
   (a + x q)' = q + x q' *)
Fixpoint pderiv p : poly := match p with [] => [] | a :: q => padd q (0 :: pderiv q) end.
Lemma pderiv_padd p q x : peval (pderiv (padd p q)) x = peval (pderiv p) x + peval (pderiv q) x.
Proof. revert q. induction p as [|a p IH]; intros [|b q]; cbn [padd pderiv peval]; try ring.
  rewrite !peval_padd. cbn [peval]. rewrite IH. ring. Qed.
Lemma pderiv_pscale c p x : peval (pderiv (pscale c p)) x = c * peval (pderiv p) x.
Proof. induction p as [|a p IH]; cbn [pscale map pderiv peval]; [ring|]. fold (pscale c p).
  rewrite !peval_padd. cbn [peval]. rewrite IH, peval_pscale. ring. Qed.
Lemma pderiv_cons0 p x : peval (pderiv (0 :: p)) x = peval p x + x * peval (pderiv p) x.
Proof. cbn [pderiv]. rewrite peval_padd. cbn [peval]. ring. Qed.
(* product rule *)
Theorem pderiv_pmul p q x :
  peval (pderiv (pmul p q)) x = peval (pderiv p) x * peval q x + peval p x * peval (pderiv q) x.
Proof. induction p as [|a p IH]; cbn [pmul]; [cbn; ring|].
  rewrite pderiv_padd, pderiv_pscale, pderiv_cons0, IH, peval_pmul.
  cbn [pderiv]. rewrite peval_padd. cbn [peval]. ring. Qed.
Lemma pderiv_plin r x : peval (pderiv (plin r)) x = 1.
Proof. cbn. ring. Qed.

(* ---- monic normalisation ---------------------------------------------------- *)
Definition pmonic p : poly := pscale (1 / plc p) (pnorm p).
Lemma peval_pmonic p x : pzerob p = false -> peval (pmonic p) x = peval p x / plc p.
Proof. intros H. unfold pmonic. rewrite peval_pscale, peval_pnorm. field. apply plc_nz, H. Qed.

(* ---- products of linear factors  Π (x - r_i)^{n_i} ---------------------------- *)
Definition plinpow r (n : nat) : poly := ppow (plin r) n.
Fixpoint plinprod (l : list (K * nat)) : poly :=
  match l with [] => [1] | (r, n) :: t => pmul (plinpow r n) (plinprod t) end.
Fixpoint linprod_val (l : list (K * nat)) x : K :=
  match l with [] => 1 | (r, n) :: t => fpow (x - r) n * linprod_val t x end.
Definition mult_sum (l : list (K * nat)) : nat := fold_right (fun rn acc => (snd rn + acc)%nat) O l.
Lemma peval_plinpow r n x : peval (plinpow r n) x = fpow (x - r) n.
Proof. unfold plinpow. rewrite peval_ppow, peval_plin. reflexivity. Qed.
Lemma peval_plinprod l x : peval (plinprod l) x = linprod_val l x.
Proof. induction l as [|[r n] t IH]; cbn [plinprod linprod_val]; [cbn; ring|].
  rewrite peval_pmul, peval_plinpow, IH. reflexivity. Qed.

(* length and leading coefficient of sums and products (syntactic lists) *)
Lemma last_cons_ne (a : K) (l : poly) d : l <> [] -> last (a :: l) d = last l d.
Proof. destruct l; [congruence | reflexivity]. Qed.
Lemma padd_nil_r p : padd p [] = p.
Proof. destruct p; reflexivity. Qed.
Lemma length_ne (l : poly) : (0 < length l)%nat -> l <> [].
Proof. destruct l; cbn; [lia | congruence]. Qed.
Lemma last_padd_lt_r p q : (length p < length q)%nat -> last (padd p q) 0 = last q 0.
Proof. revert q. induction p as [|a p IH]; intros [|b q] H; cbn [length] in H; try lia; [reflexivity|].
  cbn [padd]. assert (Hq : q <> []) by (apply length_ne; lia).
  rewrite (last_cons_ne b q 0 Hq). rewrite last_cons_ne.
  - apply IH. lia.
  - apply length_ne. rewrite length_padd. lia. Qed.
Lemma padd_comm p q : padd p q = padd q p.
Proof. revert q. induction p as [|a p IH]; intros [|b q]; cbn [padd]; try reflexivity.
  rewrite IH. f_equal. ring. Qed.
Lemma last_padd_lt_l p q : (length q < length p)%nat -> last (padd p q) 0 = last p 0.
Proof. intros H. rewrite padd_comm. apply last_padd_lt_r, H. Qed.
Lemma pmul_len_last p q : p <> [] -> q <> [] ->
  length (pmul p q) = (length p + length q - 1)%nat /\ last (pmul p q) 0 = last p 0 * last q 0.
Proof. intros Hp Hq. assert (Lq : (0 < length q)%nat) by (destruct q; [congruence | cbn; lia]).
  induction p as [|a p IH]; [congruence|]. clear Hp. cbn [pmul]. destruct p as [|a' p'].
  - cbn [pmul length]. split; [rewrite length_padd, length_pscale; cbn [length]; lia|].
    destruct (Nat.eq_dec (length q) 1) as [E|E].
    + rewrite last_padd_same; [| rewrite length_pscale; cbn [length]; lia | apply length_ne; rewrite length_pscale; lia].
      rewrite last_map_mul. cbn [last]. ring.
    + rewrite last_padd_lt_l; [| rewrite length_pscale; cbn [length]; lia]. rewrite last_map_mul. reflexivity.
  - destruct (IH ltac:(congruence)) as [IL IT].
    assert (Hne : pmul (a' :: p') q <> []) by (apply length_ne; rewrite IL; cbn [length]; lia).
    split.
    + rewrite length_padd, length_pscale. cbn [length] in *. rewrite IL. lia.
    + rewrite last_padd_lt_r; [| rewrite length_pscale; cbn [length] in *; rewrite IL; lia].
      rewrite (last_cons_ne 0 _ 0 Hne), IT. reflexivity. Qed.
Lemma ppow_len_last p n : p <> [] ->
  length (ppow p n) = S (n * (length p - 1)) /\ last (ppow p n) 0 = fpow (last p 0) n.
Proof. intros Hp. induction n as [|n [IL IT]]; cbn [ppow fpow]; [split; reflexivity|].
  assert (Hne : ppow p n <> []) by (apply length_ne; rewrite IL; apply Nat.lt_0_succ).
  destruct (pmul_len_last p (ppow p n) Hp Hne) as [L T]. split; [|rewrite T, IT; reflexivity].
  rewrite L, IL. assert ((0 < length p)%nat) by (destruct p; [congruence | cbn; lia]). cbn [Nat.mul].
  set (k := (n * (length p - 1))%nat). lia. Qed.
Lemma plinpow_len_last r n : length (plinpow r n) = S n /\ last (plinpow r n) 0 = 1.
Proof. unfold plinpow. destruct (ppow_len_last (plin r) n ltac:(discriminate)) as [L T]. split.
  - rewrite L. cbn [plin length]. rewrite Nat.mul_1_r. reflexivity.
  - rewrite T. cbn [plin last]. apply fpow_1. Qed.
Theorem plinprod_len_last l : length (plinprod l) = S (mult_sum l) /\ last (plinprod l) 0 = 1.
Proof. induction l as [|[r n] t [IL IT]]; cbn [plinprod mult_sum fold_right snd]; [split; reflexivity|].
  destruct (plinpow_len_last r n) as [L1 T1].
  destruct (pmul_len_last (plinpow r n) (plinprod t)) as [L T];
    [apply length_ne; lia | apply length_ne; lia |].
  split; [rewrite L, L1, IL; fold (mult_sum t); lia | rewrite T, T1, IT; ring]. Qed.
Lemma pnorm_pscale_monicshape c p : c <> 0 -> p <> [] -> last p 0 = 1 ->
  pnorm (pscale c p) = pscale c p.
Proof. intros Hc Hp HT. apply pnorm_idem_last.
  - apply length_ne. rewrite length_pscale. destruct p; [congruence | cbn; lia].
  - rewrite last_map_mul, HT. intros E. apply Hc. rewrite <- E. ring. Qed.

(* ---- root certificates -------------------------------------------------------
   [roots_cert A l]: A = lc(A) * Π (x - r)^n over the listed (root, multiplicity)
   pairs, decided by comparing normal forms (exact polynomial identity).  The
   root finder (sympy.roots) is an oracle; this is the verified checker of its
   answer. *)
Definition roots_cert (A : poly) (l : list (K * nat)) : bool := peqb A (pscale (plc A) (plinprod l)).
Theorem roots_cert_sound A l : roots_cert A l = true ->
  forall x, peval A x = plc A * linprod_val l x.
Proof. intros H x. rewrite (peqb_sound _ _ H x), peval_pscale, peval_plinprod. reflexivity. Qed.
(* a full certificate accounts for the whole degree *)
Theorem roots_cert_size A l : pzerob A = false -> roots_cert A l = true -> psize A = S (mult_sum l).
Proof. intros HA H. rewrite (peqb_size _ _ H). unfold psize.
  destruct (plinprod_len_last l) as [L T].
  rewrite pnorm_pscale_monicshape; [rewrite length_pscale; exact L | apply plc_nz, HA | apply length_ne; lia | exact T]. Qed.
(* every listed root with multiplicity n: (x - r)^n divides A *)
Lemma linprod_val_split l r n : In (r, n) l -> exists C, forall x, linprod_val l x = peval C x * fpow (x - r) n.
Proof. induction l as [|[r' n'] t IH]; [intros []|]. intros [E|H].
  - inversion E; subst. exists (plinprod t). intros x. cbn [linprod_val]. rewrite peval_plinprod. ring.
  - destruct (IH H) as [C HC]. exists (pmul (plinpow r' n') C). intros x. cbn [linprod_val].
    rewrite HC, peval_pmul, peval_plinpow. ring. Qed.
Theorem roots_cert_divides A l r n : roots_cert A l = true -> In (r, n) l -> pdivides (plinpow r n) A.
Proof. intros H Hin. destruct (linprod_val_split l r n Hin) as [C HC].
  exists (pscale (plc A) C). intros x. rewrite (roots_cert_sound A l H x), HC, peval_pscale, peval_plinpow. ring. Qed.
Theorem roots_cert_root A l r n : roots_cert A l = true -> In (r, S n) l -> peval A r = 0.
Proof. intros H Hin. destruct (roots_cert_divides A l r (S n) H Hin) as [C HC].
  rewrite HC, peval_plinpow. cbn [fpow]. ring. Qed.
(* partial certificate (root finder did not return all roots): the product of
   the listed factors divides A *)
Definition roots_partial (A : poly) (l : list (K * nat)) : bool := pdividesb (plinprod l) A.
Lemma plinprod_nz l : pzerob (plinprod l) = false.
Proof. destruct (plinprod_len_last l) as [L T]. destruct (pzerob (plinprod l)) eqn:E; [|reflexivity].
  apply pnorm_nil_zerob in E. rewrite pnorm_idem_last in E.
  - rewrite E in L. discriminate.
  - apply length_ne. lia.
  - rewrite T. apply one_nz. Qed.
Theorem roots_partial_divides A l r n : roots_partial A l = true -> In (r, n) l -> pdivides (plinpow r n) A.
Proof. intros H Hin. apply pdividesb_sound in H; [|apply plinprod_nz].
  eapply pdivides_trans; [|exact H]. destruct (linprod_val_split l r n Hin) as [C HC].
  exists C. intros x. rewrite peval_plinprod, HC, peval_plinpow. reflexivity. Qed.

(* factor theorem *)
Theorem root_factor A r : peval A r = 0 -> pdivides (plin r) A.
Proof. intros H0. assert (HD : pzerob (plin r) = false).
  { cbn. destruct (feqb (- r) 0); cbn [andb]; [|reflexivity].
    destruct (feqb 1 0) eqn:E; [apply feqb_eq in E; exfalso; exact (one_nz K E) | reflexivity]. }
  destruct (pdiv_spec A (plin r) HD) as [He Hl].
  exists (pquo A (plin r)). intros x. rewrite (He x).
  assert (Hs : psize (plin r) = 2%nat).
  { unfold psize. rewrite pnorm_idem_last; [reflexivity | discriminate | cbn; apply one_nz]. }
  rewrite Hs in Hl. destruct (snd (pdiv A (plin r))) as [|c [|c' t]] eqn:ER; cbn [length] in Hl; try lia.
  - cbn. ring.
  - pose proof (He r) as Er. rewrite H0, peval_plin in Er. cbn [peval] in *.
    assert (c = 0). { transitivity (0 - peval (pquo A (plin r)) r * (r - r) - r * 0); [|ring]. rewrite Er at 1. ring. }
    subst c. ring. Qed.

(* ---- rational functions as pairs ------------------------------------------------- *)
Definition rat := (poly * poly)%type.
Definition rat_eval (f : rat) x : K := peval (fst f) x / peval (snd f) x.
Definition req (f g : rat) : Prop := forall x, peval (fst f) x * peval (snd g) x = peval (fst g) x * peval (snd f) x.
Definition reqb (f g : rat) : bool := peqb (pmul (fst f) (snd g)) (pmul (fst g) (snd f)).
Theorem reqb_sound f g : reqb f g = true -> req f g.
Proof. intros H x. pose proof (peqb_sound _ _ H x) as E. rewrite !peval_pmul in E. exact E. Qed.
Theorem req_eval f g x : req f g -> peval (snd f) x <> 0 -> peval (snd g) x <> 0 -> rat_eval f x = rat_eval g x.
Proof. intros H Hf Hg. unfold rat_eval. specialize (H x).
  transitivity (peval (fst f) x * peval (snd g) x / (peval (snd f) x * peval (snd g) x)); [field; split; assumption|].
  rewrite H. field. split; assumption. Qed.
Definition radd (f g : rat) : rat := (padd (pmul (fst f) (snd g)) (pmul (fst g) (snd f)), pmul (snd f) (snd g)).
Definition rmul (f g : rat) : rat := (pmul (fst f) (fst g), pmul (snd f) (snd g)).
Definition rinv (f : rat) : rat := (snd f, fst f).
Lemma rat_eval_radd f g x : peval (snd f) x <> 0 -> peval (snd g) x <> 0 ->
  rat_eval (radd f g) x = rat_eval f x + rat_eval g x.
Proof. intros Hf Hg. unfold rat_eval, radd. cbn [fst snd]. rewrite peval_padd, !peval_pmul. field. split; assumption. Qed.
Lemma rat_eval_rmul f g x : peval (snd f) x <> 0 -> peval (snd g) x <> 0 ->
  rat_eval (rmul f g) x = rat_eval f x * rat_eval g x.
Proof. intros Hf Hg. unfold rat_eval, rmul. cbn [fst snd]. rewrite !peval_pmul. field. split; assumption. Qed.

(* ---- partial-fraction certificates ----------------------------------------------
   terms (r, p, o) stand for r / (x - p)^o.  [pf_check B A Q ts]: every
   (x - p)^o divides A with cofactor C_i and  B = Q*A + Σ r_i C_i  as
   polynomials.  Then B/A = Q + Σ r_i/(x - p_i)^o_i wherever A(x) <> 0.  The
   residues themselves come from the implementation (oracle); this checker and
   its soundness theorem are what is verified. *)
Definition pfterm := (K * K * nat)%type.
Definition pf_cof (A : poly) (t : pfterm) : option poly :=
  let '(r, p, o) := t in
  let (C, Rm) := pdiv A (plinpow p o) in if pzerob Rm then Some (pscale r C) else None.
Fixpoint pf_cofs (A : poly) (ts : list pfterm) : option poly :=
  match ts with
  | [] => Some []
  | t :: rest => match pf_cof A t, pf_cofs A rest with
                 | Some c, Some s => Some (padd c s)
                 | _, _ => None
                 end
  end.
Definition pf_check (B A Q : poly) (ts : list pfterm) : bool :=
  match pf_cofs A ts with
  | Some Sm => peqb B (padd (pmul Q A) Sm)
  | None => false
  end.
Fixpoint pf_val (ts : list pfterm) x : K :=
  match ts with [] => 0 | (r, p, o) :: rest => r / fpow (x - p) o + pf_val rest x end.
Lemma plinpow_nz r n : pzerob (plinpow r n) = false.
Proof. pose proof (plinprod_nz [(r, n)]) as H. cbn [plinprod] in H.
  destruct (pzerob (plinpow r n)) eqn:E; [|reflexivity].
  destruct (pzerob (pmul (plinpow r n) [1])) eqn:E2; [discriminate|].
  exfalso. destruct (plinpow_len_last r n) as [L T].
  apply pnorm_nil_zerob in E. rewrite pnorm_idem_last in E; [rewrite E in L; discriminate | apply length_ne; lia | rewrite T; apply one_nz]. Qed.
Lemma pf_cofs_sound A ts Sm x : pf_cofs A ts = Some Sm -> peval A x <> 0 ->
  peval Sm x / peval A x = pf_val ts x.
Proof. revert Sm. induction ts as [|[[r p] o] rest IH]; intros Sm H HA; cbn [pf_cofs pf_val] in *.
  - inversion H; subst. cbn. field. exact HA.
  - destruct (pf_cof A (r, p, o)) as [c|] eqn:Ec; [|discriminate].
    destruct (pf_cofs A rest) as [s|] eqn:Es; [|discriminate]. inversion H; subst. clear H.
    rewrite <- (IH s eq_refl HA). unfold pf_cof in Ec.
    destruct (pdiv_spec A (plinpow p o) (plinpow_nz p o)) as [He _]. unfold pquo in He.
    destruct (pdiv A (plinpow p o)) as [C Rm]. cbn [fst snd] in He.
    destruct (pzerob Rm) eqn:HR; [|discriminate]. inversion Ec; subst. clear Ec.
    pose proof (He x) as E. rewrite (pzerob_eval _ HR x), peval_plinpow in E.
    assert (HC : peval C x <> 0). { intros Z. apply HA. rewrite E, Z. ring. }
    assert (HP : fpow (x - p) o <> 0). { intros Z. apply HA. rewrite E, Z. ring. }
    rewrite peval_padd, peval_pscale. rewrite E at 1. rewrite E at 1. field. repeat split; assumption. Qed.
Theorem pf_check_sound B A Q ts : pf_check B A Q ts = true ->
  forall x, peval A x <> 0 -> peval B x / peval A x = peval Q x + pf_val ts x.
Proof. unfold pf_check. destruct (pf_cofs A ts) as [Sm|] eqn:ES; [|discriminate]. intros H x HA.
  rewrite (peqb_sound _ _ H x), peval_padd, peval_pmul, <- (pf_cofs_sound A ts Sm x ES HA). field. exact HA. Qed.

(* ---- coefficient reversal ---------------------------------------------------------
   prev p = x^(length p - 1) * p(1/x)  (used for substitutions x -> 1/x) *)
Definition prev p : poly := rev p.
Lemma peval_prev p x : x <> 0 -> peval (prev p) (1 / x) * fpow x (length p - 1) = peval p x.
Proof. intros Hx. unfold prev. induction p as [|a p IH]; [cbn; ring|].
  cbn [rev length]. rewrite peval_app, rev_length. cbn [peval].
  replace (S (length p) - 1)%nat with (length p) by lia.
  destruct p as [|b p'].
  - cbn. ring.
  - cbn [length] in *. replace (S (length p') - 1)%nat with (length p') in IH by lia.
    cbn [fpow]. rewrite <- IH. rewrite fpow_inv by exact Hx. field. repeat split; try apply fpow_nz; exact Hx. Qed.

(* ---- continued fractions ---------------------------------------------------------
   A continued fraction q0 + 1/(q1 + 1/(q2 + ...)) whose partial quotients are
   rational functions (pairs); value as a rational function: *)
Fixpoint cf_rat (qs : list rat) : rat :=
  match qs with
  | [] => ([], [1])            (* not used: empty expansion *)
  | [q] => q
  | q :: rest => radd q (rinv (cf_rat rest))
  end.
(* one Euclid-like step: N/D = q + N2/D for ANY partial quotient q = qn/qd
   (polynomial, monomial or Laurent monomial), stated without division:
   N * qd = qn * D + N2 * qd.  The expansion continues with D / N2. *)
Definition cf_step_ok (N D : poly) (qr : rat) (N2 : poly) : Prop :=
  forall x, peval N x * peval (snd qr) x = peval (fst qr) x * peval D x + peval N2 x * peval (snd qr) x.
Inductive cf_chain : poly -> poly -> list rat -> Prop :=
| cf_last N D (qr : rat) : cf_step_ok N D qr [] -> cf_chain N D [qr]
| cf_more N D (qr : rat) N2 qs : cf_step_ok N D qr N2 -> qs <> [] ->
    cf_chain D N2 qs -> cf_chain N D (qr :: qs).
(* the continued fraction built from the chain's quotients equals N/D
   (cross-multiplied polynomial identity, no side conditions) *)
Theorem cf_chain_sound N D qs : cf_chain N D qs -> req (cf_rat qs) (N, D).
Proof. induction 1 as [N D qr H | N D qr N2 qs H Hne Hc IH].
  - intros x. cbn [cf_rat fst snd]. specialize (H x). cbn [peval] in H.
    rewrite H. ring.
  - intros x. destruct qs as [|q' qs']; [congruence|].
    change (cf_rat (qr :: q' :: qs')) with (radd qr (rinv (cf_rat (q' :: qs')))).
    set (f := cf_rat (q' :: qs')) in *. specialize (IH x). cbn [fst snd] in IH.
    unfold radd, rinv. cbn [fst snd]. rewrite peval_padd, !peval_pmul.
    specialize (H x).
    transitivity (peval (fst f) x * (peval N x * peval (snd qr) x)); [|ring].
    rewrite H.
    transitivity (peval (fst qr) x * peval (fst f) x * peval D x + peval (snd qr) x * (peval (fst f) x * peval N2 x)); [|ring].
    rewrite IH. ring. Qed.
End Poly.

Arguments peval {K}. Arguments padd {K}. Arguments pscale {K}. Arguments popp {K}. Arguments psub {K}.
Arguments pmul {K}. Arguments pconst {K}. Arguments pX {K}. Arguments plin {K}. Arguments pshift {K}.
Arguments pmonom {K}. Arguments psum {K}. Arguments ppow {K}. Arguments fpow {K}. Arguments fnat {K}.
Arguments feqb {K}. Arguments pzerob {K}. Arguments pnorm {K}. Arguments psize {K}. Arguments plc {K}.
Arguments peqb {K}. Arguments list_eqb {K}. Arguments pdivmod {K}. Arguments pdiv {K}. Arguments pquo {K}. Arguments pmod {K}.
Arguments pdivides {K}. Arguments pdividesb {K}. Arguments pgcd {K}. Arguments pgcd' {K}. Arguments pcancel {K}.
Arguments pderiv {K}. Arguments pmonic {K}. Arguments plinpow {K}. Arguments plinprod {K}. Arguments linprod_val {K}.
Arguments mult_sum {K}. Arguments roots_cert {K}. Arguments roots_partial {K}.
Arguments rat_eval {K}. Arguments req {K}. Arguments reqb {K}. Arguments radd {K}. Arguments rmul {K}. Arguments rinv {K}.
Arguments pf_cof {K}. Arguments pf_cofs {K}. Arguments pf_check {K}. Arguments pf_val {K}. Arguments prev {K}.
Arguments cf_rat {K}. Arguments cf_step_ok {K}. Arguments cf_chain {K}.
