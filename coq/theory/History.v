(* C16 -- generic memoisation state machine.

   One object = (data, cache : key -> option value).  Keys are natural numbers
   numbered so that every key only depends on smaller keys ([deps_ok]).
   [compute k d vs] is what the body of the (possibly memoised) attribute k
   returns when run on data d after having obtained the values vs of the
   attributes it reads ([deps k]).  [derive k d] is the answer of a freshly
   built object: no cache is ever consulted.

   Primitive events: a raw write of the data (no cache is touched), the
   invalidation routine (clears the keys in [cleared]), a query of attribute k
   (memoised iff [memo k]), an eviction of one cache entry (class-level
   lru_cache(1) entries are dropped whenever another instance is queried or
   invalidated).

   Main results:
     query_fresh          : in a state satisfying Inv, a query returns derive
     accepted_preserves   : a trace accepted by the two-flag automaton
                            (F = "cache may be filled", S = "an entry may be
                            older than the data") re-establishes Inv, provided
                            memo <= cleared
     history_independent  : after ANY finite sequence of accepted composite
                            operations every query returns derive k (data)
     history_refuted      : if a memoised key is not cleared, the history
                            [query k; write f; invalidate; query k] returns the
                            value derived from the OLD data
   Everything is axiom-free. *)
From Coq Require Import List Bool Arith Lia.
Import ListNotations.

Section Memo.
Variables data val : Type.
Variables memo cleared : nat -> bool.
Variable deps : nat -> list nat.
Variable compute : nat -> data -> list val -> val.

Definition deps_ok := forall k j, In j (deps k) -> j < k.

Record state := mkS { sdata : data; cache : nat -> option val }.
Definition empty_cache : nat -> option val := fun _ => None.
Definition upd (c : nat -> option val) (k : nat) (v : option val) : nat -> option val :=
  fun j => if Nat.eqb j k then v else c j.
Definition init (d : data) := mkS d empty_cache.

(* ---- what a fresh object answers ---- *)
Fixpoint derive_f (fuel k : nat) (d : data) : val :=
  match fuel with
  | 0 => compute k d []
  | S f => compute k d (map (fun j => derive_f f j d) (deps k))
  end.
Definition derive (k : nat) (d : data) : val := derive_f (S k) k d.

Lemma derive_f_fuel : deps_ok -> forall d f f' k, k < f -> k < f' -> derive_f f k d = derive_f f' k d.
Proof.
  intros Hd d f. induction f as [|f IH]; intros f' k Hf Hf'; [lia|].
  destruct f' as [|f']; [lia|]. cbn. f_equal. apply map_ext_in. intros j Hj.
  specialize (Hd _ _ Hj). apply IH; lia.
Qed.

Lemma derive_unfold : deps_ok -> forall k d, derive k d = compute k d (map (fun j => derive j d) (deps k)).
Proof.
  intros Hd0 k d. unfold derive at 1. cbn. f_equal. apply map_ext_in. intros j Hj.
  pose proof (Hd0 _ _ Hj) as Hlt. exact (derive_f_fuel Hd0 d k (S j) j Hlt (Nat.lt_succ_diag_r j)).
Qed.

(* ---- queries: memoised attributes consult and fill the cache ---- *)
Fixpoint thread (q : nat -> state -> val * state) (js : list nat) (s : state) : list val * state :=
  match js with
  | [] => ([], s)
  | j :: js' => let (v, s1) := q j s in let (vs, s2) := thread q js' s1 in (v :: vs, s2)
  end.

Fixpoint qry (fuel k : nat) (s : state) : val * state :=
  match fuel with
  | 0 => (compute k (sdata s) [], s)
  | S f =>
    match (if memo k then cache s k else None) with
    | Some v => (v, s)
    | None =>
      let (vs, s') := thread (qry f) (deps k) s in
      let v := compute k (sdata s') vs in
      (v, if memo k then mkS (sdata s') (upd (cache s') k (Some v)) else s')
    end
  end.
Definition query (k : nat) (s : state) : val * state := qry (S k) k s.

Definition Inv (s : state) := forall k v, cache s k = Some v -> v = derive k (sdata s).
Definition WF (s : state) := forall k, memo k = false -> cache s k = None.

Lemma Inv_init d : Inv (init d).
Proof. intros k v H. discriminate. Qed.
Lemma WF_init d : WF (init d).
Proof. intros k _. reflexivity. Qed.

(* data and well-formedness are preserved by queries unconditionally *)
Lemma qry_frame : forall fuel k s, sdata (snd (qry fuel k s)) = sdata s /\ (WF s -> WF (snd (qry fuel k s))).
Proof.
  induction fuel as [|f IH]; intros k s; cbn; [auto|].
  destruct (if memo k then cache s k else None) eqn:E; cbn; [auto|].
  assert (T : forall js s0, sdata (snd (thread (qry f) js s0)) = sdata s0 /\ (WF s0 -> WF (snd (thread (qry f) js s0)))).
  { induction js as [|j js IHjs]; intros s0; cbn; [auto|].
    destruct (qry f j s0) as [v s1] eqn:E1. destruct (thread (qry f) js s1) as [vs s2] eqn:E2. cbn.
    destruct (IH j s0) as [A1 B1]. rewrite E1 in A1, B1. cbn in A1, B1.
    destruct (IHjs s1) as [A2 B2]. rewrite E2 in A2, B2. cbn in A2, B2.
    split; [congruence | auto]. }
  destruct (thread (qry f) (deps k) s) as [vs s'] eqn:ET. specialize (T (deps k) s). rewrite ET in T. cbn in T.
  destruct T as [TA TB]. destruct (memo k) eqn:M; cbn; split; auto.
  intros W j Mj. cbn. unfold upd. destruct (Nat.eqb j k) eqn:Ej.
  - apply Nat.eqb_eq in Ej. subst. congruence.
  - apply (TB W); auto.
Qed.

Lemma qry_data fuel k s : sdata (snd (qry fuel k s)) = sdata s.
Proof. apply qry_frame. Qed.
Lemma qry_WF fuel k s : WF s -> WF (snd (qry fuel k s)).
Proof. apply qry_frame. Qed.

(* under Inv, a query returns the fresh answer and keeps Inv *)
Lemma qry_spec : deps_ok -> forall fuel k s, k < fuel -> Inv s ->
  fst (qry fuel k s) = derive k (sdata s) /\ Inv (snd (qry fuel k s)).
Proof.
  intros Hd. induction fuel as [|f IH]; intros k s Hk HI; [lia|]. cbn.
  destruct (if memo k then cache s k else None) as [v|] eqn:E.
  - cbn. split; auto. destruct (memo k); [apply HI; auto | discriminate].
  - assert (T : forall js s0, (forall j, In j js -> j < f) -> Inv s0 ->
        fst (thread (qry f) js s0) = map (fun j => derive j (sdata s0)) js /\ Inv (snd (thread (qry f) js s0))).
    { induction js as [|j js IHjs]; intros s0 Hjs HI0; cbn; [auto|].
      destruct (qry f j s0) as [v s1] eqn:E1. destruct (thread (qry f) js s1) as [vs s2] eqn:E2. cbn.
      destruct (IH j s0 (Hjs j (or_introl eq_refl)) HI0) as [A1 B1]. rewrite E1 in A1, B1. cbn in A1, B1.
      assert (D1 : sdata s1 = sdata s0) by (pose proof (qry_data f j s0) as Q; rewrite E1 in Q; exact Q).
      destruct (IHjs s1 (fun j' H' => Hjs j' (or_intror H')) B1) as [A2 B2]. rewrite E2 in A2, B2. cbn in A2, B2.
      split; auto. rewrite A1, A2, D1. reflexivity. }
    destruct (thread (qry f) (deps k) s) as [vs s'] eqn:ET.
    assert (Hjs : forall j, In j (deps k) -> j < f) by (intros j Hj; specialize (Hd _ _ Hj); lia).
    destruct (T (deps k) s Hjs HI) as [TA TB]. rewrite ET in TA, TB. cbn in TA, TB.
    assert (D : sdata s' = sdata s).
    { clear - ET. revert s s' vs ET. generalize (deps k). induction l as [|j js IHjs]; intros s s' vs ET; cbn in ET.
      - inversion ET; auto.
      - destruct (qry f j s) as [v s1] eqn:E1. destruct (thread (qry f) js s1) as [vs2 s2] eqn:E2.
        inversion ET; subst. rewrite (IHjs _ _ _ E2). pose proof (qry_data f j s) as Q. rewrite E1 in Q. exact Q. }
    assert (V : compute k (sdata s') vs = derive k (sdata s)).
    { rewrite (derive_unfold Hd). rewrite D, TA. reflexivity. }
    split; [exact V|].
    destruct (memo k); cbn; [|exact TB].
    intros j w. cbn. unfold upd. destruct (Nat.eqb j k) eqn:Ej.
    + apply Nat.eqb_eq in Ej. subst. intros H. inversion H. rewrite V, D. reflexivity.
    + apply TB.
Qed.

Theorem query_fresh : deps_ok -> forall k s, Inv s -> fst (query k s) = derive k (sdata s).
Proof. intros Hd k s HI. apply qry_spec; auto. Qed.

Lemma query_Inv : deps_ok -> forall k s, Inv s -> Inv (snd (query k s)).
Proof. intros Hd k s HI. apply qry_spec; auto. Qed.

(* a memoised query leaves its own entry filled with the fresh value *)
Lemma query_fills : deps_ok -> forall k s, memo k = true -> Inv s ->
  cache (snd (query k s)) k = Some (derive k (sdata s)).
Proof.
  intros Hd k s M HI. unfold query. cbn. rewrite M.
  destruct (cache s k) as [v|] eqn:E.
  - cbn. rewrite E. f_equal. apply HI; auto.
  - pose proof (qry_spec Hd (S k) k s (Nat.lt_succ_diag_r k) HI) as [A _]. cbn in A. rewrite M, E in A.
    destruct (thread (qry k) (deps k) s) as [vs s'] eqn:ET. cbn in A. cbn. unfold upd. rewrite Nat.eqb_refl. f_equal. exact A.
Qed.

(* a memoised query whose entry is filled is a cache hit *)
Lemma query_hit k s v : memo k = true -> cache s k = Some v -> query k s = (v, s).
Proof. intros M E. unfold query. cbn. rewrite M, E. reflexivity. Qed.

(* ---- events and runs ---- *)
Inductive event := EWrite (f : data -> data) | EInval | EQuery (k : nat) | EEvict (k : nat).

Definition step (s : state) (e : event) : state :=
  match e with
  | EWrite f => mkS (f (sdata s)) (cache s)
  | EInval => mkS (sdata s) (fun k => if cleared k then None else cache s k)
  | EQuery k => snd (query k s)
  | EEvict k => mkS (sdata s) (upd (cache s) k None)
  end.
Definition run (tr : list event) (s : state) : state := fold_left step tr s.

(* the two-flag automaton: F = some cache entry may be filled,
   S = some entry may have been computed from data older than the current data *)
Inductive aev := AWrite | AInval | AQuery | ANone.
Definition abs (e : event) : aev :=
  match e with EWrite _ => AWrite | EInval => AInval | EQuery _ => AQuery | EEvict _ => ANone end.
Definition flags := (bool * bool)%type.
Definition fstep (fl : flags) (a : aev) : flags :=
  match a with
  | AWrite => (fst fl, snd fl || fst fl)
  | AInval => (false, false)
  | AQuery => (true, snd fl)
  | ANone => fl
  end.
Definition aflags (t : list aev) (fl : flags) : flags := fold_left fstep t fl.
Definition accepted_from (fl : flags) (tr : list event) : Prop := snd (aflags (map abs tr) fl) = false.
Definition accepted (tr : list event) : Prop := accepted_from (true, false) tr.

Definition J (fl : flags) (s : state) : Prop :=
  WF s /\ (snd fl = false -> Inv s) /\ (fst fl = false -> forall k, cache s k = None).

Definition incl_ok := forall k, memo k = true -> cleared k = true.

Lemma J_step : incl_ok -> deps_ok -> forall fl s e, J fl s -> J (fstep fl (abs e)) (step s e).
Proof.
  intros Hi Hd [F S] s e [W [I C]]. cbn in I, C. destruct e as [f| |k|k]; cbn [step abs fstep fst snd].
  - (* write *) split; [exact W|]. split.
    + intros H. apply orb_false_iff in H. destruct H as [HS HF]. intros k v E. cbn in E. rewrite (C HF) in E. discriminate.
    + exact C.
  - (* invalidate *)
    assert (E : forall k, (if cleared k then None else cache s k) = None).
    { intros k. destruct (cleared k) eqn:Ck; auto. destruct (memo k) eqn:Mk; [rewrite (Hi _ Mk) in Ck; discriminate | apply W; auto]. }
    split; [intros k _; cbn; apply E|]. split; [intros _ k v H; cbn in H; rewrite E in H; discriminate | intros _ k; cbn; apply E].
  - (* query *) split; [unfold query; apply qry_WF; exact W|]. split; [|discriminate].
    intros HS. apply query_Inv; auto.
  - (* evict *) split.
    + intros j Mj. cbn. unfold upd. destruct (Nat.eqb j k); auto.
    + split.
      * intros HS j v. cbn. unfold upd. destruct (Nat.eqb j k); [discriminate | apply I; auto].
      * intros HF j. cbn. unfold upd. destruct (Nat.eqb j k); auto.
Qed.

Lemma J_run : incl_ok -> deps_ok -> forall tr fl s, J fl s -> J (aflags (map abs tr) fl) (run tr s).
Proof.
  intros Hi Hd. induction tr as [|e tr IH]; intros fl s HJ; cbn; [exact HJ|].
  apply IH. apply J_step; auto.
Qed.

Lemma J_good s : WF s -> Inv s -> forall F, J (F, false) s -> J (true, false) s.
Proof. intros W I F _. split; [exact W|]. split; [intros _; exact I | discriminate]. Qed.

(* one accepted composite operation re-establishes the invariant *)
Theorem accepted_preserves : incl_ok -> deps_ok -> forall tr s, accepted tr -> WF s /\ Inv s -> WF (run tr s) /\ Inv (run tr s).
Proof.
  intros Hi Hd tr s Ha [W I].
  assert (HJ : J (true, false) s) by (split; [exact W | split; [intros _; exact I | discriminate]]).
  pose proof (J_run Hi Hd tr _ _ HJ) as [W' [I' _]]. split; [exact W' | apply I'; exact Ha].
Qed.

(* an object created with a given (possibly empty) cache state: flags (false,false) *)
Theorem accepted_from_fresh : incl_ok -> deps_ok -> forall tr d, accepted_from (false, false) tr ->
  WF (run tr (init d)) /\ Inv (run tr (init d)).
Proof.
  intros Hi Hd tr d Ha.
  assert (HJ : J (false, false) (init d)) by (split; [apply WF_init | split; [intros _; apply Inv_init | intros _ k; reflexivity]]).
  pose proof (J_run Hi Hd tr _ _ HJ) as [W' [I' _]]. split; [exact W' | apply I'; exact Ha].
Qed.

Lemma run_app tr1 tr2 s : run (tr1 ++ tr2) s = run tr2 (run tr1 s).
Proof. unfold run. apply fold_left_app. Qed.

Lemma ops_preserve : incl_ok -> deps_ok -> forall ops s, Forall accepted ops -> WF s /\ Inv s ->
  WF (run (concat ops) s) /\ Inv (run (concat ops) s).
Proof.
  intros Hi Hd. induction ops as [|op ops IH]; intros s HF HS; cbn; [exact HS|].
  inversion HF; subst. rewrite run_app. apply IH; auto. apply accepted_preserves; auto.
Qed.

(* THE property: whatever finite sequence of accepted composite operations was
   performed, every query answers what a freshly built object would answer *)
Theorem history_independent : incl_ok -> deps_ok ->
  forall (ops : list (list event)) (d0 : data) (k : nat), Forall accepted ops ->
  let s := run (concat ops) (init d0) in fst (query k s) = derive k (sdata s).
Proof.
  intros Hi Hd ops d0 k HF s. apply query_fresh; auto.
  apply (ops_preserve Hi Hd ops (init d0) HF). split; [apply WF_init | apply Inv_init].
Qed.

(* the public query itself is an accepted composite, so the statement above
   covers queries at every intermediate point of a history *)
Lemma query_accepted k : accepted [EQuery k].
Proof. reflexivity. Qed.
Lemma write_inval_accepted f : accepted [EWrite f; EInval].
Proof. reflexivity. Qed.
Lemma inval_write_accepted f : accepted [EInval; EWrite f].
Proof. reflexivity. Qed.
Lemma evict_accepted k : accepted [EEvict k].
Proof. reflexivity. Qed.

(* evictions never matter for acceptance *)
Lemma aflags_app t1 t2 fl : aflags (t1 ++ t2) fl = aflags t2 (aflags t1 fl).
Proof. unfold aflags. apply fold_left_app. Qed.

(* ---- refutation shape: a memoised key that invalidation does not clear ---- *)
Theorem history_refuted : deps_ok -> forall k, memo k = true -> cleared k = false ->
  forall (d : data) (f : data -> data),
  let s := run [EQuery k; EWrite f; EInval] (init d) in
  sdata s = f d /\ fst (query k s) = derive k d.
Proof.
  intros Hd k M C d f s.
  pose proof (query_fills Hd k (init d) M (Inv_init d)) as Hf. cbn [init sdata] in Hf.
  pose proof (qry_data (S k) k (init d)) as Hdat. cbn [init sdata] in Hdat. fold (query k (init d)) in Hdat.
  set (s1 := snd (query k (init d))) in *.
  assert (Es : s = mkS (f (sdata s1)) (fun j => if cleared j then None else cache s1 j)) by reflexivity.
  rewrite Es. cbn [sdata]. split; [rewrite Hdat; reflexivity|].
  rewrite (query_hit k _ (derive k d)); auto.
  cbn [cache]. rewrite C. exact Hf.
Qed.

Corollary history_refuted_stale : deps_ok -> forall k, memo k = true -> cleared k = false ->
  forall d f, derive k (f d) <> derive k d ->
  let s := run (concat [[EQuery k]; [EWrite f; EInval]]) (init d) in
  Forall accepted [[EQuery k]; [EWrite f; EInval]] /\ fst (query k s) <> derive k (sdata s).
Proof.
  intros Hd k M C d f Hne s. split.
  - repeat constructor.
  - destruct (history_refuted Hd k M C d f) as [A B]. subst s. cbn [concat app]. rewrite B, A. auto.
Qed.

(* writes are the only events that change the data *)
Lemma step_data s e : (forall f, e <> EWrite f) -> sdata (step s e) = sdata s.
Proof. destruct e; cbn [step sdata]; intros H; auto; [exfalso; eapply H; reflexivity | unfold query; apply qry_data]. Qed.

Lemma run_data tr : (forall f, ~ In (EWrite f) tr) -> forall s, sdata (run tr s) = sdata s.
Proof.
  induction tr as [|e tr IH]; intros H s; cbn; auto.
  rewrite IH; [apply step_data; intros f E; apply (H f); left; auto | intros f Hin; apply (H f); right; auto].
Qed.

End Memo.

Arguments mkS {data val}. Arguments sdata {data val}. Arguments cache {data val}.
Arguments init {data val}. Arguments EWrite {data}. Arguments EInval {data}.
Arguments EQuery {data}. Arguments EEvict {data}.

(* ------------------------------------------------------------------------ *)
(* Several objects (the circuit, its copies and derived circuits, unrelated
   circuits).  Instance-level entries live in the object; the class-level
   lru_cache(1) entries are keyed by the instance, so for object i they behave
   like private entries that OTHER objects' activity can only drop: such
   cross effects appear in a world trace as explicit [WOn i (EEvict k)]
   events, and the theorems below hold for every placement of them. *)
Section World.
Variables data val : Type.
Variables memo cleared : nat -> bool.
Variable deps : nat -> list nat.
Variable compute : nat -> data -> list val -> val.
Let St := state data val.
Let Ev := event data.

Inductive wevent :=
| WOn (i : nat) (e : Ev)              (* event on object i *)
| WNew (d : data)                     (* a brand-new object built from text *)
| WCopy (i : nat) (g : data -> data). (* copy / derived circuit: re-parsed data, empty cache *)

Fixpoint set_nth (w : list St) (i : nat) (s : St) : list St :=
  match w, i with
  | [], _ => []
  | _ :: r, 0 => s :: r
  | x :: r, S i' => x :: set_nth r i' s
  end.

Definition wstep (w : list St) (e : wevent) : list St :=
  match e with
  | WOn i ev => match nth_error w i with
                | Some s => set_nth w i (step data val memo cleared deps compute s ev)
                | None => w end
  | WNew d => w ++ [init d]
  | WCopy i g => match nth_error w i with
                 | Some s => w ++ [init (g (sdata s))]
                 | None => w end
  end.
Definition wrun (tr : list wevent) (w : list St) : list St := fold_left wstep tr w.

Fixpoint proj (i : nat) (tr : list wevent) : list Ev :=
  match tr with
  | [] => []
  | WOn j e :: r => if Nat.eqb j i then e :: proj i r else proj i r
  | _ :: r => proj i r
  end.

Lemma nth_set_same : forall (w : list St) i s s0, nth_error w i = Some s0 -> nth_error (set_nth w i s) i = Some s.
Proof. induction w as [|x w IH]; intros [|i] s s0 H; cbn in *; try discriminate; eauto. Qed.
Lemma nth_set_other : forall (w : list St) i j s, i <> j -> nth_error (set_nth w i s) j = nth_error w j.
Proof.
  induction w as [|x w IH]; intros [|i] [|j] s H; cbn; auto; try congruence.
Qed.
Lemma nth_app_some : forall (w : list St) i s x, nth_error w i = Some s -> nth_error (w ++ x) i = Some s.
Proof. intros w i s x H. rewrite nth_error_app1; auto. apply nth_error_Some. congruence. Qed.

(* object i evolves exactly by the events addressed to it *)
Theorem wrun_obj : forall tr w i s, nth_error w i = Some s ->
  nth_error (wrun tr w) i = Some (run data val memo cleared deps compute (proj i tr) s).
Proof.
  induction tr as [|e tr IH]; intros w i s H; cbn; [exact H|].
  destruct e as [j ev|d|j g]; cbn.
  - destruct (Nat.eqb j i) eqn:E.
    + apply Nat.eqb_eq in E. subst j. rewrite H. cbn. apply IH. eapply nth_set_same; eauto.
    + apply Nat.eqb_neq in E. apply IH. destruct (nth_error w j) eqn:Hj; [rewrite nth_set_other; auto | auto].
  - apply IH. apply nth_app_some; auto.
  - apply IH. destruct (nth_error w j); [apply nth_app_some; auto | auto].
Qed.

(* modifying a copy, a derived circuit or any other object never changes the
   data of object i: only raw writes addressed to i itself can *)
Theorem copy_isolated : forall tr w i s, nth_error w i = Some s ->
  (forall f, ~ In (WOn i (EWrite f)) tr) ->
  exists s', nth_error (wrun tr w) i = Some s' /\ sdata s' = sdata s.
Proof.
  intros tr w i s H Hn. eexists. split; [apply wrun_obj; exact H|].
  apply run_data. intros f Hin. apply (Hn f). clear - Hin.
  induction tr as [|e tr IH]; cbn in *; [contradiction|].
  destruct e as [j ev|d|j g]; [|right; auto|right; auto].
  destruct (Nat.eqb j i) eqn:E.
  - apply Nat.eqb_eq in E. subst. destruct Hin as [Hin|Hin]; [left; congruence | right; auto].
  - right; auto.
Qed.

(* the copy starts from the source's data at the time of copying, with an empty cache *)
Lemma wcopy_new : forall w i g s, nth_error w i = Some s ->
  nth_error (wstep w (WCopy i g)) (length w) = Some (init (g (sdata s))).
Proof. intros w i g s H. cbn. rewrite H. rewrite nth_error_app2; [|lia]. rewrite Nat.sub_diag. reflexivity. Qed.

(* history independence of every object of the world *)
Theorem world_history_independent :
  incl_ok memo cleared -> deps_ok deps ->
  forall (tr : list wevent) (w : list St) (i : nat) (d0 : data) (ops : list (list Ev)) (k : nat),
  nth_error w i = Some (init d0) ->
  proj i tr = concat ops -> Forall (accepted data) ops ->
  exists s, nth_error (wrun tr w) i = Some s /\
            fst (query data val memo deps compute k s) = derive data val deps compute k (sdata s).
Proof.
  intros Hi Hd tr w i d0 ops k H Hp Hf. eexists. split; [apply wrun_obj; exact H|].
  rewrite Hp. apply (history_independent data val memo cleared deps compute Hi Hd ops d0 k Hf).
Qed.

End World.

(* ------------------------------------------------------------------------ *)
(* Abstract programs of the mutators / public operations, as emitted by the
   translator from the Python AST: only what matters for the two-flag automaton
   is kept (raw writes, calls of the invalidation routine, queries of memoised
   attributes, calls, control flow).  [chk] is an abstract interpreter over the
   four-point flag lattice using per-function summaries Sigma; a summary table
   is only trusted after [consistent] has been CHECKED (post-fixpoint), and
   [exec_sound] proves that every execution trace is then bounded by it. *)
Inductive stm :=
| SEv (a : aev) | SCall (f : nat) | SSeq (a b : stm) | SIf (a b : stm) | SLoop (a : stm)
| SReturn | SRaise | SBreak | SSkip.
Inductive out := ONorm | ORet | ORaise | OBrk.

Section Programs.
Variable prog : nat -> stm.

Inductive exec : stm -> list aev -> out -> Prop :=
| XEv a : exec (SEv a) [a] ONorm
| XSkip : exec SSkip [] ONorm
| XRet : exec SReturn [] ORet
| XRaise : exec SRaise [] ORaise
| XBrk : exec SBreak [] OBrk
| XSeqN a b t1 t2 o : exec a t1 ONorm -> exec b t2 o -> exec (SSeq a b) (t1 ++ t2) o
| XSeqX a b t1 o : o <> ONorm -> exec a t1 o -> exec (SSeq a b) t1 o
| XIfL a b t o : exec a t o -> exec (SIf a b) t o
| XIfR a b t o : exec b t o -> exec (SIf a b) t o
| XLoop0 a : exec (SLoop a) [] ONorm
| XLoopS a t1 t2 o o1 : exec a t1 o1 -> (o1 = ONorm \/ o1 = OBrk) -> exec (SLoop a) t2 o ->
                        exec (SLoop a) (t1 ++ t2) o
| XLoopX a t1 o : (o = ORet \/ o = ORaise) -> exec a t1 o -> exec (SLoop a) t1 o
| XCall f t o : exec (prog f) t o -> exec (SCall f) t (match o with ORaise => ORaise | _ => ONorm end).

(* lattice of flags *)
Definition fle (a b : flags) : bool := implb (fst a) (fst b) && implb (snd a) (snd b).
Definition fjoin (a b : flags) : flags := (fst a || fst b, snd a || snd b).
Definition ole (a b : option flags) : bool :=
  match a, b with None, _ => true | Some x, Some y => fle x y | Some _, None => false end.
Definition ojoin (a b : option flags) : option flags :=
  match a, b with None, y => y | x, None => x | Some x, Some y => Some (fjoin x y) end.

Record res := mkR { rn : option flags; rr : option flags; rb : option flags }.
Definition top : flags := (true, true).
Definition rtop := mkR (Some top) (Some top) None.

Variable Sigma : nat -> flags -> option flags.

Definition exits (r : res) : option flags := ojoin (rn r) (rb r).
Definition grow (x : flags) (o : option flags) : flags := match o with None => x | Some y => fjoin x y end.

Fixpoint chk (st : stm) (fl : flags) : res :=
  match st with
  | SEv a => mkR (Some (fstep fl a)) None None
  | SSkip => mkR (Some fl) None None
  | SReturn => mkR None (Some fl) None
  | SRaise => mkR None None None
  | SBreak => mkR None None (Some fl)
  | SCall f => mkR (Sigma f fl) None None
  | SSeq a b =>
      let ra := chk a fl in
      match rn ra with
      | None => ra
      | Some f1 => let r2 := chk b f1 in mkR (rn r2) (ojoin (rr ra) (rr r2)) (ojoin (rb ra) (rb r2))
      end
  | SIf a b =>
      let ra := chk a fl in let r2 := chk b fl in
      mkR (ojoin (rn ra) (rn r2)) (ojoin (rr ra) (rr r2)) (ojoin (rb ra) (rb r2))
  | SLoop a =>
      let x1 := grow fl (exits (chk a fl)) in
      let x2 := grow x1 (exits (chk a x1)) in
      let x3 := grow x2 (exits (chk a x2)) in
      let r := chk a x3 in
      if ole (exits r) (Some x3) then mkR (Some x3) (rr r) None else rtop
  end.

Definition all_flags : list flags := [(false, false); (false, true); (true, false); (true, true)].
Definition all_exits (r : res) : option flags := ojoin (ojoin (rn r) (rr r)) (rb r).
Definition consistent : Prop := forall f fl, ole (all_exits (chk (prog f) fl)) (Sigma f fl) = true.

(* ---- lattice facts (finite: by cases) ---- *)
Ltac bools := repeat match goal with
  | x : flags |- _ => destruct x as [? ?]
  | x : bool |- _ => destruct x
  | x : option flags |- _ => destruct x as [[? ?]|]
  end; cbn in *; try reflexivity; try discriminate; auto.

Lemma fle_refl a : fle a a = true. Proof. bools. Qed.
Lemma fle_trans a b c : fle a b = true -> fle b c = true -> fle a c = true. Proof. bools. Qed.
Lemma fle_top a : fle a top = true. Proof. bools. Qed.
Lemma fstep_mono a b e : fle a b = true -> fle (fstep a e) (fstep b e) = true. Proof. destruct e; bools. Qed.
Lemma ole_trans a b c : ole a b = true -> ole b c = true -> ole a c = true. Proof. bools. Qed.
Lemma ole_join_l a b : ole a (ojoin a b) = true. Proof. bools. Qed.
Lemma ole_join_r a b : ole b (ojoin a b) = true. Proof. bools. Qed.
Lemma ole_refl a : ole a a = true. Proof. bools. Qed.
Lemma grow_ge x o : fle x (grow x o) = true. Proof. bools. Qed.
Lemma grow_absorb x o : ole o (Some x) = true -> grow x o = x. Proof. bools. Qed.
Lemma ole_some_inv x b : ole (Some x) b = true -> exists y, b = Some y /\ fle x y = true.
Proof. destruct b as [y|]; cbn; [eauto | discriminate]. Qed.

Definition bound (o : out) (r : res) (x : flags) : Prop :=
  match o with
  | ONorm => ole (Some x) (rn r) = true
  | ORet => ole (Some x) (rr r) = true
  | OBrk => ole (Some x) (rb r) = true
  | ORaise => True
  end.

Lemma loop_no_brk : forall st t o, exec st t o -> forall a, st = SLoop a -> o <> OBrk.
Proof.
  induction 1; intros a0 E; try discriminate; try (intro; discriminate).
  - eapply IHexec2; eauto.
  - destruct H as [-> | ->]; intro; discriminate.
Qed.

Lemma aflags_cons t1 t2 fl : aflags (t1 ++ t2) fl = aflags t2 (aflags t1 fl).
Proof. apply aflags_app. Qed.

Definition loopx (a : stm) (fl : flags) : flags :=
  let x1 := grow fl (exits (chk a fl)) in
  let x2 := grow x1 (exits (chk a x1)) in
  grow x2 (exits (chk a x2)).

Lemma chk_loop a fl : chk (SLoop a) fl =
  let x3 := loopx a fl in let r := chk a x3 in
  if ole (exits r) (Some x3) then mkR (Some x3) (rr r) None else rtop.
Proof. reflexivity. Qed.

Lemma loopx_ge a fl : fle fl (loopx a fl) = true.
Proof. unfold loopx. eapply fle_trans; [apply grow_ge|]. eapply fle_trans; apply grow_ge. Qed.

Lemma loopx_fix a x : ole (exits (chk a x)) (Some x) = true -> loopx a x = x.
Proof. intros H. unfold loopx. rewrite (grow_absorb _ _ H). rewrite (grow_absorb _ _ H). apply grow_absorb; auto. Qed.

Theorem exec_sound : consistent -> forall st t o, exec st t o ->
  forall fl0 fl, fle fl0 fl = true -> bound o (chk st fl) (aflags t fl0).
Proof.
  intros HC. induction 1; intros fl0 fl Hle.
  - cbn. apply fstep_mono; auto.
  - cbn. auto.
  - cbn. auto.
  - cbn. auto.
  - cbn. auto.
  - (* seq, first part completes *)
    specialize (IHexec1 _ _ Hle). cbn in IHexec1. apply ole_some_inv in IHexec1. destruct IHexec1 as [f1 [E1 L1]].
    specialize (IHexec2 _ _ L1). rewrite aflags_cons. cbn [chk]. rewrite E1.
    destruct o; unfold bound in *; cbn [rn rr rb] in *; auto; (eapply ole_trans; [exact IHexec2 | apply ole_join_r]).
  - (* seq, first part exits *)
    specialize (IHexec _ _ Hle). cbn [chk]. destruct (rn (chk a fl)) eqn:E1; [|exact IHexec].
    destruct o; unfold bound in *; cbn [rn rr rb] in *; auto; try congruence; (eapply ole_trans; [exact IHexec | apply ole_join_l]).
  - specialize (IHexec _ _ Hle). cbn [chk]. destruct o; unfold bound in *; cbn [rn rr rb] in *; auto; (eapply ole_trans; [exact IHexec | apply ole_join_l]).
  - specialize (IHexec _ _ Hle). cbn [chk]. destruct o; unfold bound in *; cbn [rn rr rb] in *; auto; (eapply ole_trans; [exact IHexec | apply ole_join_r]).
  - (* loop, zero iterations *)
    rewrite chk_loop. cbn zeta. destruct (ole (exits (chk a (loopx a fl))) (Some (loopx a fl))); cbn.
    + eapply fle_trans; [exact Hle | apply loopx_ge].
    + apply fle_top.
  - (* loop, one more iteration *)
    assert (Hnb : o <> OBrk) by (eapply loop_no_brk; eauto).
    rewrite chk_loop. cbn zeta. destruct (ole (exits (chk a (loopx a fl))) (Some (loopx a fl))) eqn:EP.
    + assert (HX : fle fl0 (loopx a fl) = true) by (eapply fle_trans; [exact Hle | apply loopx_ge]).
      specialize (IHexec1 _ _ HX).
      assert (L1 : fle (aflags t1 fl0) (loopx a fl) = true).
      { destruct H0 as [-> | ->]; cbn in IHexec1.
        - assert (Q : ole (Some (aflags t1 fl0)) (Some (loopx a fl)) = true)
            by (eapply ole_trans; [exact IHexec1 | eapply ole_trans; [apply ole_join_l | exact EP]]). exact Q.
        - assert (Q : ole (Some (aflags t1 fl0)) (Some (loopx a fl)) = true)
            by (eapply ole_trans; [exact IHexec1 | eapply ole_trans; [apply ole_join_r | exact EP]]). exact Q. }
      specialize (IHexec2 _ _ L1). rewrite chk_loop in IHexec2. cbn zeta in IHexec2.
      rewrite (loopx_fix _ _ EP) in IHexec2. rewrite EP in IHexec2. rewrite aflags_cons. exact IHexec2.
    + destruct o; cbn; auto; try apply fle_top; try congruence.
  - (* loop, body returns / raises *)
    rewrite chk_loop. cbn zeta. destruct (ole (exits (chk a (loopx a fl))) (Some (loopx a fl))) eqn:EP.
    + assert (HX : fle fl0 (loopx a fl) = true) by (eapply fle_trans; [exact Hle | apply loopx_ge]).
      specialize (IHexec _ _ HX). destruct H as [-> | ->]; cbn in *; auto.
    + destruct H as [-> | ->]; cbn; auto. apply fle_top.
  - (* call *)
    specialize (IHexec _ _ Hle). specialize (HC f fl). unfold all_exits in HC.
    destruct o; unfold bound in *; cbn [rn rr rb] in *; auto.
    + eapply ole_trans; [exact IHexec|]. eapply ole_trans; [|exact HC]. eapply ole_trans; [apply ole_join_l | apply ole_join_l].
    + eapply ole_trans; [exact IHexec|]. eapply ole_trans; [|exact HC]. eapply ole_trans; [apply ole_join_r | apply ole_join_l].
    + eapply ole_trans; [exact IHexec|]. eapply ole_trans; [|exact HC]. apply ole_join_r.
Qed.

(* a function whose summary from [start] has S = false only produces traces
   that the automaton accepts from [start] *)
Theorem prog_accepted : consistent -> forall f start,
  (forall fl', Sigma f start = Some fl' -> snd fl' = false) ->
  forall t o, exec (prog f) t o -> o <> ORaise -> snd (aflags t start) = false.
Proof.
  intros HC f start HS t o Hx Hno.
  pose proof (exec_sound HC _ _ _ Hx start start (fle_refl _)) as B.
  specialize (HC f start). unfold all_exits in HC.
  assert (Q : ole (Some (aflags t start)) (Sigma f start) = true).
  { destruct o; cbn in B; try congruence.
    - eapply ole_trans; [exact B|]. eapply ole_trans; [|exact HC]. eapply ole_trans; [apply ole_join_l | apply ole_join_l].
    - eapply ole_trans; [exact B|]. eapply ole_trans; [|exact HC]. eapply ole_trans; [apply ole_join_r | apply ole_join_l].
    - eapply ole_trans; [exact B|]. eapply ole_trans; [|exact HC]. apply ole_join_r. }
  apply ole_some_inv in Q. destruct Q as [y [E L]]. specialize (HS _ E).
  destruct (aflags t start) as [a b], y as [c d]. unfold fle in L. cbn in *. subst. destruct b; auto. destruct (implb a c); cbn in L; discriminate.
Qed.

End Programs.

(* finite tables -> total functions, and the decidable consistency check *)
Fixpoint lookup {A} (l : list (nat * A)) (k : nat) : option A :=
  match l with [] => None | (j, a) :: r => if Nat.eqb j k then Some a else lookup r k end.
Definition prog_of (l : list (nat * stm)) (f : nat) : stm :=
  match lookup l f with Some s => s | None => SSkip end.
Definition flag_ix (fl : flags) : nat := (if fst fl then 2 else 0) + (if snd fl then 1 else 0).
(* a summary row lists the exit flags for the four entry flags (ff, ft, tf, tt) *)
Definition sigma_of (l : list (nat * list (option flags))) (f : nat) (fl : flags) : option flags :=
  match lookup l f with
  | Some row => nth (flag_ix fl) row (Some top)
  | None => Some fl
  end.
Definition consistent_b (pl : list (nat * stm)) (sl : list (nat * list (option flags))) : bool :=
  forallb (fun p => forallb (fun fl =>
     ole (all_exits (chk (sigma_of sl) (snd p) fl)) (sigma_of sl (fst p) fl)) all_flags) pl
  && forallb (fun p => match lookup pl (fst p) with Some _ => true | None => false end) sl
  && forallb (fun p => Nat.eqb (length (filter (fun q => Nat.eqb (fst q) (fst p)) pl)) 1) pl.

Lemma lookup_in {A} (l : list (nat * A)) k a : lookup l k = Some a -> In (k, a) l.
Proof.
  induction l as [|[j b] l IH]; cbn; [discriminate|]. destruct (Nat.eqb j k) eqn:E.
  - intros H. inversion H; subst. apply Nat.eqb_eq in E. subst. left; auto.
  - intros H. right; auto.
Qed.

Lemma all_flags_complete fl : In fl all_flags.
Proof. destruct fl as [[|] [|]]; cbn; auto. Qed.

Theorem consistent_b_sound pl sl : consistent_b pl sl = true -> consistent (prog_of pl) (sigma_of sl).
Proof.
  unfold consistent_b. intros H. apply andb_true_iff in H. destruct H as [H _]. apply andb_true_iff in H. destruct H as [H1 H2].
  intros f fl. unfold prog_of. destruct (lookup pl f) as [s|] eqn:E.
  - apply lookup_in in E. rewrite forallb_forall in H1. specialize (H1 _ E). rewrite forallb_forall in H1.
    apply (H1 fl (all_flags_complete fl)).
  - (* f has no program: it must have no summary row either *)
    unfold sigma_of at 2. destruct (lookup sl f) as [row|] eqn:E2.
    + apply lookup_in in E2. rewrite forallb_forall in H2. specialize (H2 _ E2). cbn in H2. rewrite E in H2. discriminate.
    + cbn. destruct fl as [[|] [|]]; reflexivity.
Qed.

Definition summary_ok (sl : list (nat * list (option flags))) (f : nat) (start : flags) : bool :=
  match sigma_of sl f start with None => true | Some fl' => negb (snd fl') end.

Theorem checked_accepted pl sl : consistent_b pl sl = true -> forall f start, summary_ok sl f start = true ->
  forall t o, exec (prog_of pl) (prog_of pl f) t o -> o <> ORaise -> snd (aflags t start) = false.
Proof.
  intros HC f start HS t o Hx Hn. eapply prog_accepted; eauto using consistent_b_sound.
  intros fl' E. unfold summary_ok in HS. rewrite E in HS. destruct (snd fl'); auto; discriminate.
Qed.

(* ------------------------------------------------------------------------ *)
(* Public operations = executions of checked abstract programs.  Evictions
   caused by other instances (class-level lru_cache(1)) may be interleaved
   anywhere. *)
Section Public.
Variables data val : Type.
Variables memo cleared : nat -> bool.
Variable deps : nat -> list nat.
Variable compute : nat -> data -> list val -> val.
Variable pl : list (nat * stm).
Variable sl : list (nat * list (option flags)).
Variable public : list nat.

Fixpoint strip (t : list aev) : list aev :=
  match t with [] => [] | ANone :: r => strip r | a :: r => a :: strip r end.

Lemma aflags_strip t : forall fl, aflags (strip t) fl = aflags t fl.
Proof. induction t as [|a t IH]; intros fl; cbn; auto. destruct a; cbn; auto. Qed.

Definition is_public_op (op : list (event data)) : Prop :=
  exists f t o, In f public /\ exec (prog_of pl) (prog_of pl f) t o /\ o <> ORaise /\ strip (map (abs data) op) = strip t.

Definition public_ok : bool := consistent_b pl sl && forallb (fun f => summary_ok sl f (true, false)) public.

Lemma public_op_accepted : public_ok = true -> forall op, is_public_op op -> accepted data op.
Proof.
  unfold public_ok. intros H op [f [t [o [Hin [Hx [Hn Hs]]]]]]. apply andb_true_iff in H. destruct H as [HC HS].
  rewrite forallb_forall in HS. specialize (HS _ Hin).
  unfold accepted, accepted_from. rewrite <- aflags_strip, Hs, aflags_strip.
  eapply checked_accepted; eauto.
Qed.

(* C16, cache part: for EVERY finite history of public operations (each an
   execution of a translated program that the checker accepted), with arbitrary
   interleaved evictions, every query answers exactly what a circuit freshly
   built from the current data answers. *)
Theorem public_history_independent :
  incl_ok memo cleared -> deps_ok deps -> public_ok = true ->
  forall (ops : list (list (event data))) (d0 : data) (k : nat), Forall is_public_op ops ->
  let s := run data val memo cleared deps compute (concat ops) (init d0) in
  fst (query data val memo deps compute k s) = derive data val deps compute k (sdata s).
Proof.
  intros Hi Hd Hp ops d0 k HF. apply history_independent; auto.
  eapply Forall_impl; [|exact HF]. intros op. apply public_op_accepted; auto.
Qed.

End Public.

(* ------------------------------------------------------------------------ *)
(* A process-wide memo table (the transformers' result caches): if the
   uncached function factors through the key, a cached call returns exactly
   the uncached result, whatever was computed before. *)
Section Table.
Variables X K V : Type.
Variable key : X -> K.
Variable keqb : K -> K -> bool.
Hypothesis keqb_eq : forall a b, keqb a b = true -> a = b.
Variable f : X -> V.
Hypothesis factors : forall x y, key x = key y -> f x = f y.

Fixpoint tfind (t : list (K * V)) (k : K) : option V :=
  match t with [] => None | (j, v) :: r => if keqb j k then Some v else tfind r k end.
Definition call (t : list (K * V)) (x : X) : V * list (K * V) :=
  match tfind t (key x) with Some v => (v, t) | None => (f x, (key x, f x) :: t) end.
Definition tinv (t : list (K * V)) := forall k v, tfind t k = Some v -> forall x, key x = k -> v = f x.

Lemma call_spec t x : tinv t -> fst (call t x) = f x /\ tinv (snd (call t x)).
Proof.
  intros H. unfold call. destruct (tfind t (key x)) as [v|] eqn:E; cbn.
  - split; [eapply H; eauto | exact H].
  - split; auto. intros k v. cbn. destruct (keqb (key x) k) eqn:Ek.
    + intros Hv y Hy. inversion Hv; subst. apply keqb_eq in Ek. apply factors. congruence.
    + apply H.
Qed.

Theorem cached_equals_uncached : forall (xs : list X) (x : X),
  fst (call (fold_left (fun t y => snd (call t y)) xs []) x) = f x.
Proof.
  intros xs x. apply call_spec. assert (G : forall t, tinv t -> tinv (fold_left (fun t y => snd (call t y)) xs t)).
  { induction xs as [|y xs IH]; intros t Ht; cbn; auto. apply IH. apply call_spec; auto. }
  apply G. intros k v H. discriminate.
Qed.
End Table.

(* ------------------------------------------------------------------------ *)
(* Executable instance used for the correspondence with the real code:
   data = identifier of the netlist text; the value of an attribute is its
   PROVENANCE, the set of data identifiers it was computed from. *)
Fixpoint ins (x : nat) (l : list nat) : list nat :=
  match l with
  | [] => [x]
  | y :: r => if Nat.ltb x y then x :: l else if Nat.eqb x y then l else y :: ins x r
  end.
Definition union (a b : list nat) : list nat := fold_right ins b a.
Definition mem (x : nat) (l : list nat) : bool := existsb (Nat.eqb x) l.
Definition pcompute (readsdata : nat -> bool) (k : nat) (d : nat) (vs : list (list nat)) : list nat :=
  union (if readsdata k then [d] else []) (fold_right union [] vs).
Definition deps_of (l : list (nat * list nat)) (k : nat) : list nat :=
  match lookup l k with Some d => d | None => [] end.
Definition deps_ok_b (l : list (nat * list nat)) : bool :=
  forallb (fun p => forallb (fun j => Nat.ltb j (fst p)) (snd p)) l.

Lemma deps_ok_b_sound l : deps_ok_b l = true -> deps_ok (deps_of l).
Proof.
  intros H k j Hj. unfold deps_of in Hj. destruct (lookup l k) as [d|] eqn:E; [|contradiction].
  apply lookup_in in E. unfold deps_ok_b in H. rewrite forallb_forall in H. specialize (H _ E). cbn in H.
  rewrite forallb_forall in H. specialize (H _ Hj). apply Nat.ltb_lt in H. exact H.
Qed.

Lemma incl_ok_b_sound (ml cl : list nat) : forallb (fun k => mem k cl) ml = true ->
  incl_ok (fun k => mem k ml) (fun k => mem k cl).
Proof.
  intros H k Hk. unfold mem in Hk. apply existsb_exists in Hk. destruct Hk as [x [Hx E]]. apply Nat.eqb_eq in E. subst x.
  rewrite forallb_forall in H. apply H; auto.
Qed.

Section Session.
Variable memo_l cleared_l readsdata_l : list nat.
Variable deps_l : list (nat * list nat).
Variable fresh_l : list ((nat * nat) * nat).   (* ((data id, view), value id) from fresh interpreters *)

Let pst := state nat (list nat).
Definition pmemo k := mem k memo_l.
Definition pcleared k := mem k cleared_l.
Definition pdeps := deps_of deps_l.
Definition pcomp := pcompute (fun k => mem k readsdata_l).
Definition pquery (k : nat) (s : pst) := query nat (list nat) pmemo pdeps pcomp k s.
Definition pstep (s : pst) (e : event nat) := step nat (list nat) pmemo pcleared pdeps pcomp s e.

Fixpoint fresh_of (l : list ((nat * nat) * nat)) (d v : nat) : option nat :=
  match l with
  | [] => None
  | ((d', v'), x) :: r => if Nat.eqb d d' && Nat.eqb v v' then Some x else fresh_of r d v
  end.

Inductive sop :=
| PNew (d : nat)
| PDerive (i view d : nat)
| PMut (i view d : nat)          (* public mutator: reads view, raw write, invalidation *)
| PMutNoInval (i view d : nat)   (* operation that writes the data and does NOT invalidate *)
| PQuery (i view obs : nat)
| PTouch (i view : nat)          (* the attribute was evaluated but its answer is not compared *)
| PText (i d : nat)
| PFilled (i : nat) (ks : list nat).

Definition oeqb (a : option nat) (b : nat) : bool := match a with Some x => Nat.eqb x b | None => false end.

(* verdict of one step: 0 = nothing to report, 1 = model and code DISAGREE,
   2 = agree and the model predicts a stale answer, 3 = hybrid provenance (no exact claim) *)
Definition step_session (w : list pst) (o : sop) : list pst * nat :=
  match o with
  | PNew d => (w ++ [init d], 0)
  | PDerive i view d =>
      match nth_error w i with
      | Some s => let s' := snd (pquery view s) in (set_nth nat (list nat) w i s' ++ [init d], 0)
      | None => (w, 1) end
  | PMut i view d =>
      match nth_error w i with
      | Some s => let s1 := snd (pquery view s) in
                  let s2 := pstep (pstep s1 (EWrite (fun _ => d))) EInval in
                  (set_nth nat (list nat) w i s2, 0)
      | None => (w, 1) end
  | PMutNoInval i view d =>
      match nth_error w i with
      | Some s => let s1 := snd (pquery view s) in
                  (set_nth nat (list nat) w i (pstep s1 (EWrite (fun _ => d))), 0)
      | None => (w, 1) end
  | PQuery i view obs =>
      match nth_error w i with
      | Some s =>
          let (prov, s') := pquery view s in
          let now := sdata s in
          let w' := set_nth nat (list nat) w i s' in
          match prov with
          | [j] => if Nat.eqb j now then (w', if oeqb (fresh_of fresh_l now view) obs then 0 else 1)
                   else (w', if oeqb (fresh_of fresh_l j view) obs || oeqb (fresh_of fresh_l now view) obs then 2 else 1)
          | [] => (w', 0)
          | _ => (w', 3)
          end
      | None => (w, 1) end
  | PTouch i view =>
      match nth_error w i with
      | Some s => (set_nth nat (list nat) w i (snd (pquery view s)), 0)
      | None => (w, 1) end
  | PText i d => match nth_error w i with Some s => (w, if Nat.eqb (sdata s) d then 0 else 1) | None => (w, 1) end
  | PFilled i ks =>
      match nth_error w i with
      | Some s => (w, if forallb (fun k => match cache s k with Some _ => true | None => false end) ks then 0 else 1)
      | None => (w, 1) end
  end.

Fixpoint run_session (n : nat) (w : list pst) (os : list sop) : list (nat * nat) :=
  match os with
  | [] => []
  | o :: r => let (w', v) := step_session w o in
              (if Nat.eqb v 0 then [] else [(n, v)]) ++ run_session (S n) w' r
  end.
Definition session (os : list sop) : list (nat * nat) := run_session 0 [] os.
End Session.
