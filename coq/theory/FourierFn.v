(* FourierFn - the small function AST into which tools/tr_fourier.py translates
   the return expressions of FourierTransformer.term (lcapy/fourier.py), its
   meaning [ev] in a Fourier context (FourierSpec.fctx: symbols + laws), and an
   EXECUTABLE canonical-form evaluator [nfe] over Gaussian rationals with pi kept
   symbolic where it matters (imaginary exponents, delta locations), used by the
   correspondence evaluation of checks/c12.py.  The canonical form is the one of
   tools/fourier_nf.py (which canonicalises what Lcapy returned); equality of the
   two is decided here ([nf_eqb], vm_compute).  Axiom-free. *)
Require Import LT.FieldSec LT.PolyQ LT.QcI LT.FourierSpec.
From Coq Require Import QArith Qcanon Qround.
Local Open Scope F_scope.

Inductive head := HAbs | HSign | HHeav | HRect | HTri | HSincn | HSincu | HExp | HCosh | HSinh | HTanh.
Inductive fn : Type :=
| Var                      (* the variable of the result (f, or t for the inverse) *)
| Num (n : Z) (d : positive)
| Pi | Jm | SqrtPi
| Par (k : nat)            (* symbolic parameter of a table entry (const1, c0, c1, alpha ...) *)
| Add (a b : fn) | Mul (a b : fn) | Neg (a : fn) | Inv (a : fn) | Pw (a : fn) (n : nat)
| App (h : head) (a : fn)
| Dl (n : nat) (a : fn)    (* DiracDelta(a, n) *)
| Trp (a al : fn)          (* trap(a, alpha) *)
| Rec (a : fn).            (* the recursive result Q of the inner transform, at a *)

(* ---- meaning in a Fourier context -------------------------------------------- *)
Section Ev.
Variable K : fld.
Variable C : fctx K.
Definition fofpos (p : positive) : K := Pos.iter_op fadd p 1.
Definition fofZ (z : Z) : K := match z with Z0 => 0 | Zpos p => fofpos p | Zneg p => - fofpos p end.
Definition happ (h : head) : K -> K :=
  match h with
  | HAbs => c_ab C | HSign => c_sg C | HHeav => c_hv C | HRect => c_rc C | HTri => c_tr C
  | HSincn => c_sn C | HSincu => fun x => c_sn C (x / c_pi C) | HExp => c_E C
  | HCosh => c_ch C | HSinh => c_sh C | HTanh => c_th C end.
Variable rho : nat -> K.
Variable Q : K -> K.
Fixpoint ev (e : fn) (x : K) : K :=
  match e with
  | Var => x | Num n d => match d with xH => fofZ n | _ => fofZ n / fofpos d end | Pi => c_pi C | Jm => c_j C | SqrtPi => c_sqrtpi C
  | Par k => rho k
  | Add a b => ev a x + ev b x | Mul a b => ev a x * ev b x | Neg a => - ev a x
  | Inv a => 1 / ev a x | Pw a n => fpow (ev a x) n
  | App h a => happ h (ev a x) | Dl n a => c_dl C n (ev a x) | Trp a al => c_tp C (ev a x) (ev al x)
  | Rec a => Q (ev a x)
  end.
End Ev.
Arguments ev {K} C rho Q e x.
Arguments fofZ {K} z. Arguments fofpos {K} p.

(* ---- executable canonical form --------------------------------------------------- *)
Local Open Scope Qc_scope.
(* Laurent numbers q_{-1}/pi + q_0 + q_1 pi *)
Definition lp := (Qc * Qc * Qc)%type.
Definition lp0 : lp := (0, 0, 0).
Definition lpq (q : Qc) : lp := (0, q, 0).
Definition lp_add (a b : lp) : lp := let '(a1, a2, a3) := a in let '(b1, b2, b3) := b in (a1 + b1, a2 + b2, a3 + b3).
Definition lp_scale (c : Qc) (a : lp) : lp := let '(a1, a2, a3) := a in (c * a1, c * a2, c * a3).
Definition lp_neg (a : lp) : lp := lp_scale (- (1)) a.
Definition qz (q : Qc) : bool := qc_eqb q 0.
Definition lp_mul (a b : lp) : option lp :=
  let '(a1, a2, a3) := a in let '(b1, b2, b3) := b in
  if qz (a1 * b1) && qz (a3 * b3) then Some (a1 * b2 + a2 * b1, a1 * b3 + a2 * b2 + a3 * b1, a2 * b3 + a3 * b2) else None.
Definition lp_val (P : Qc) (a : lp) : Qc := let '(a1, a2, a3) := a in a1 / P + a2 + a3 * P.
Definition lp_inv_mono (a : lp) : option lp :=
  let '(a1, a2, a3) := a in
  match qz a1, qz a2, qz a3 with
  | false, true, true => Some (0, 0, 1 / a1)
  | true, false, true => Some (0, 1 / a2, 0)
  | true, true, false => Some (1 / a3, 0, 0)
  | _, _, _ => None end.
Definition lp_eqb (a b : lp) : bool :=
  let '(a1, a2, a3) := a in let '(b1, b2, b3) := b in qc_eqb a1 b1 && qc_eqb a2 b2 && qc_eqb a3 b3.
Definition lp_is0 (a : lp) : bool := lp_eqb a lp0.

(* complex Laurent numbers and polynomials of degree <= 2 in the variable *)
Definition cq := (lp * lp)%type.
Definition cq0 : cq := (lp0, lp0).
Definition cq_add (a b : cq) : cq := (lp_add (fst a) (fst b), lp_add (snd a) (snd b)).
Definition cq_neg (a : cq) : cq := (lp_neg (fst a), lp_neg (snd a)).
Definition cq_mul (a b : cq) : option cq :=
  match lp_mul (fst a) (fst b), lp_mul (snd a) (snd b), lp_mul (fst a) (snd b), lp_mul (snd a) (fst b) with
  | Some rr, Some ii, Some ri, Some ir => Some (lp_add rr (lp_neg ii), lp_add ri ir)
  | _, _, _, _ => None end.
Definition cq_inv (a : cq) : option cq :=
  if lp_is0 (snd a) then match lp_inv_mono (fst a) with Some r => Some (r, lp0) | None => None end
  else if lp_is0 (fst a) then match lp_inv_mono (snd a) with Some r => Some (lp0, lp_neg r) | None => None end
  else None.
Definition cq_is0 (a : cq) : bool := lp_is0 (fst a) && lp_is0 (snd a).
Definition cq_val (P : Qc) (a : cq) : qci := QI (lp_val P (fst a)) (lp_val P (snd a)).
Definition cq_q (q : Qc) : cq := (lpq q, lp0).
Definition pq := (cq * cq * cq)%type.     (* k2 x^2 + k1 x + k0 *)
Definition pq_c (c : cq) : pq := (cq0, cq0, c).
Definition pq_add (a b : pq) : pq := let '(a2, a1, a0) := a in let '(b2, b1, b0) := b in (cq_add a2 b2, cq_add a1 b1, cq_add a0 b0).
Definition pq_neg (a : pq) : pq := let '(a2, a1, a0) := a in (cq_neg a2, cq_neg a1, cq_neg a0).
Definition oadd (a b : option cq) : option cq := match a, b with Some x, Some y => Some (cq_add x y) | _, _ => None end.
Definition pq_mul (a b : pq) : option pq :=
  let '(a2, a1, a0) := a in let '(b2, b1, b0) := b in
  match cq_mul a2 b2, cq_mul a2 b1, cq_mul a1 b2 with
  | Some h4, Some h3a, Some h3b =>
      if cq_is0 h4 && cq_is0 (cq_add h3a h3b) then
        match oadd (oadd (cq_mul a2 b0) (cq_mul a1 b1)) (cq_mul a0 b2), oadd (cq_mul a1 b0) (cq_mul a0 b1), cq_mul a0 b0 with
        | Some k2, Some k1, Some k0 => Some (k2, k1, k0) | _, _, _ => None end
      else None
  | _, _, _ => None end.

(* canonical terms *)
Definition atom := (nat * Qc * Qc * Qc * nat)%type.   (* kind, a, b, extra, power *)
Record term := T { tc : qci; td : option (nat * lp); tu : lp; tv : lp; trx : (Qc * Qc * Qc); tat : list atom }.
Definition K_SIGN := 0%nat. Definition K_RECT := 1%nat. Definition K_TRI := 2%nat. Definition K_SINCN := 3%nat. Definition K_TRAP := 4%nat.
Definition t_one : term := T ci1 None lp0 lp0 (0, 0, 0) [].
Definition t_c (c : qci) : term := T c None lp0 lp0 (0, 0, 0) [].

Definition akey_eqb (x y : atom) : bool :=
  let '(k, a, b, e, _) := x in let '(k', a', b', e', _) := y in
  Nat.eqb k k' && qc_eqb a a' && qc_eqb b b' && qc_eqb e e'.
Fixpoint at_add (x : atom) (l : list atom) : list atom :=
  match l with
  | [] => [x]
  | y :: r => if akey_eqb x y then
                let '(k, a, b, e, p) := x in let '(_, _, _, _, p') := y in
                if Nat.eqb k K_SIGN then (if Nat.even (p + p') then r else (k, a, b, e, 1%nat) :: r)
                else (k, a, b, e, (p + p')%nat) :: r
              else y :: at_add x r end.
Definition at_merge (l m : list atom) : list atom := fold_right at_add m l.
Definition rx_add (a b : Qc * Qc * Qc) := let '(a2, a1, a0) := a in let '(b2, b1, b0) := b in (a2 + b2, a1 + b1, a0 + b0).
Definition t_mul (a b : term) : option term :=
  match td a, td b with
  | Some _, Some _ => None
  | da, db => Some (T (cimul (tc a) (tc b)) (match da with Some d => Some d | None => db end)
                      (lp_add (tu a) (tu b)) (lp_add (tv a) (tv b)) (rx_add (trx a) (trx b)) (at_merge (tat a) (tat b)))
  end.
Fixpoint omap {A B} (f : A -> option B) (l : list A) : option (list B) :=
  match l with [] => Some [] | x :: r => match f x, omap f r with Some y, Some s => Some (y :: s) | _, _ => None end end.
Definition nf_mul (A B : list term) : option (list term) :=
  omap (fun ab => t_mul (fst ab) (snd ab)) (list_prod A B).
Definition t_scale (c : qci) (t : term) : term := T (cimul c (tc t)) (td t) (tu t) (tv t) (trx t) (tat t).

(* evaluation environment *)
Record env := Env {
  e_al : lp; e_be : lp;          (* Var stands for  al * x + be *)
  e_x0 : Qc;                     (* the point at which coefficients are evaluated *)
  e_P : Qc; e_sqrtP : Qc;        (* the value standing for pi, and its square root *)
  e_rho : nat -> option cq;      (* parameters *)
  e_Q : lp -> lp -> Qc -> option (list term)   (* inner transform under a variable map, at a point *)
}.
Definition with_x0 (E : env) (x : Qc) : env := Env (e_al E) (e_be E) x (e_P E) (e_sqrtP E) (e_rho E) (e_Q E).

Definition qci_of (q : Qc) : qci := QI q 0.
Definition qci_is0 (z : qci) : bool := qci_eqb z ci0.
Fixpoint cipow (z : qci) (n : nat) : qci := match n with O => ci1 | S m => cimul z (cipow z m) end.
Definition zq (n : Z) (d : positive) : Qc := qc n d.

Definition qabs (q : Qc) : Qc := if Qclt_le_dec q 0 then - q else q.
Definition qsgn (q : Qc) : Qc := if Qclt_le_dec q 0 then - (1) else 1.

Fixpoint has_var (e : fn) : bool :=
  match e with
  | Var => true | Rec _ => true
  | Add a b | Mul a b | Trp a b => has_var a || has_var b
  | Neg a | Inv a | Pw a _ | App _ a | Dl _ a => has_var a
  | _ => false end.

(* scalar (atom-free) value at the point *)
Fixpoint sce (E : env) (e : fn) : option qci :=
  match e with
  | Var => Some (qci_of (lp_val (e_P E) (e_al E) * e_x0 E + lp_val (e_P E) (e_be E)))
  | Num n d => Some (qci_of (zq n d))
  | Pi => Some (qci_of (e_P E)) | Jm => Some cii | SqrtPi => Some (qci_of (e_sqrtP E))
  | Par k => match e_rho E k with Some c => Some (cq_val (e_P E) c) | None => None end
  | Add a b => match sce E a, sce E b with Some x, Some y => Some (ciadd x y) | _, _ => None end
  | Mul a b => match sce E a, sce E b with Some x, Some y => Some (cimul x y) | _, _ => None end
  | Neg a => match sce E a with Some x => Some (ciopp x) | None => None end
  | Inv a => match sce E a with Some x => if qci_is0 x then None else Some (ciinv x) | None => None end
  | Pw a n => match sce E a with Some x => Some (cipow x n) | None => None end
  | App HAbs a => if has_var a then None else match sce E a with Some x => if qc_eqb (im x) 0 then Some (qci_of (qabs (re x))) else None | None => None end
  | _ => None
  end.

(* polynomial (degree <= 2) value of an atom argument, pi symbolic *)
Fixpoint pq_pow (a : pq) (n : nat) : option pq :=
  match n with O => Some (pq_c (cq_q 1)) | S m => match pq_pow a m with Some r => pq_mul a r | None => None end end.
(* a real constant sub-expression whose pi-content leaves the Laurent range (e.g. pi^2 r^2 in a Gaussian)
   is taken at pi := P; this is only used where the symbolic route fails *)
Definition const_fallback (E : env) (e : fn) : option pq :=
  if has_var e then None else
  match sce E e with
  | Some v => if qc_eqb (im v) 0 then Some (pq_c (cq_q (re v))) else None
  | None => None end.
Definition orelse {A} (a b : option A) : option A := match a with Some _ => a | None => b end.
Fixpoint affe (E : env) (e : fn) : option pq :=
  match e with
  | Var => Some (cq0, (e_al E, lp0), (e_be E, lp0))
  | Num n d => Some (pq_c (cq_q (zq n d)))
  | Pi => Some (pq_c ((0, 0, 1), lp0)) | Jm => Some (pq_c (lp0, lpq 1))
  | Par k => match e_rho E k with Some c => Some (pq_c c) | None => None end
  | Add a b => match affe E a, affe E b with Some x, Some y => Some (pq_add x y) | _, _ => None end
  | Mul a b => orelse (match affe E a, affe E b with Some x, Some y => pq_mul x y | _, _ => None end) (const_fallback E e)
  | Neg a => match affe E a with Some x => Some (pq_neg x) | None => None end
  | Inv a => orelse (match affe E a with
             | Some (k2, k1, k0) => if cq_is0 k2 && cq_is0 k1 then
                                      match cq_inv k0 with Some r => Some (pq_c r) | None => None end else None
             | None => None end) (const_fallback E e)
  | Pw a n => orelse (match affe E a with Some x => pq_pow x n | None => None end) (const_fallback E e)
  | _ => None
  end.
(* real affine argument s x + b *)
Definition real_lin (E : env) (e : fn) : option (lp * lp) :=
  match affe E e with
  | Some (k2, k1, k0) => if cq_is0 k2 && lp_is0 (snd k1) && lp_is0 (snd k0) then Some (fst k1, fst k0) else None
  | None => None end.

(* pi-part of the constant phase reduced mod 2, quarter turns folded *)
Definition qfloor2 (q : Qc) : Qc :=   (* q - 2 * floor(q / 2) in [0, 2) *)
  let z := Qfloor (this q / 2)%Q in q - (qc 2 1) * Q2Qc (inject_Z z).
Definition fold_phase (t : term) : term :=
  let '(v1, v2, v3) := tv t in
  let r := qfloor2 v3 in
  if qc_eqb r 0 then T (tc t) (td t) (tu t) (v1, v2, 0) (trx t) (tat t)
  else if qc_eqb r (qc 1 2) then T (cimul cii (tc t)) (td t) (tu t) (v1, v2, 0) (trx t) (tat t)
  else if qc_eqb r 1 then T (ciopp (tc t)) (td t) (tu t) (v1, v2, 0) (trx t) (tat t)
  else if qc_eqb r (qc 3 2) then T (cimul (ciopp cii) (tc t)) (td t) (tu t) (v1, v2, 0) (trx t) (tat t)
  else T (tc t) (td t) (tu t) (v1, v2, r) (trx t) (tat t).

(* a term that multiplies delta(x - loc): evaluate its exponentials at loc *)
Definition spec_at (P : Qc) (loc : lp) (t : term) : option term :=
  match tat t, td t, lp_mul (tu t) loc with
  | [], None, Some ul =>
      let lv := lp_val P loc in let '(c2, c1, c0) := trx t in
      Some (T (tc t) None lp0 (lp_add (tv t) ul) (0, 0, c2 * lv * lv + c1 * lv + c0) [])
  | _, _, _ => None end.

Definition even_atom (kind : nat) (s b extra : Qc) : list term :=
  let '(s', b') := if Qclt_le_dec s 0 then (- s, - b) else (s, b) in
  [T ci1 None lp0 lp0 (0, 0, 0) [(kind, s', b', extra, 1%nat)]].

Fixpoint nf_pow (A : list term) (n : nat) : option (list term) :=
  match n with O => Some [t_one] | S m => match nf_pow A m with Some r => nf_mul A r | None => None end end.

(* a purely real exponent whose pi-content leaves the symbolic range (e.g. pi r^2 (x/(2 pi))^2): since real exponents
   are only ever used at pi := P, the quadratic is recovered from its values at x = 0, 1, -1 and confirmed at x = 2 *)
Definition real_at (E : env) (e : fn) (x : Qc) : option Qc :=
  match sce (with_x0 E x) e with Some v => if qc_eqb (im v) 0 then Some (re v) else None | None => None end.
Definition real_quadratic (E : env) (e : fn) : option (list term) :=
  match real_at E e 0, real_at E e 1, real_at E e (- (1)), real_at E e (qc 2 1) with
  | Some v0, Some v1, Some vm, Some v2 =>
      let c1 := (v1 - vm) / (qc 2 1) in let c2 := (v1 + vm) / (qc 2 1) - v0 in
      if qc_eqb v2 ((qc 4 1) * c2 + (qc 2 1) * c1 + v0) then Some [T ci1 None lp0 lp0 (c2, c1, v0) []] else None
  | _, _, _, _ => None end.

(* multiply the terms B (possibly containing deltas) by the expression whose NF at
   point x is given by [fa x]: non-delta terms use the value at the current point,
   delta terms the value at their location (sifting; orders >= 1 need a constant) *)
Fixpoint binom (n k : nat) : nat :=
  match n, k with _, O => 1%nat | O, S _ => 0%nat | S n', S k' => (binom n' k' + binom n' (S k'))%nat end.
Definition qnat (n : nat) : Qc := Q2Qc (inject_Z (Z.of_nat n)).
(* Leibniz rule for  M(x) delta^(n)(x - loc)  with  M = c e^{j(u x + v)} e^{c0}:
   sum_k (-1)^k C(n,k) (j u)^k M(loc) delta^(n-k) *)
Definition leib (P : Qc) (loc : lp) (n : nat) (b t : term) : option (list term) :=
  let '(c2, c1, _) := trx t in
  if negb (qz c2 && qz c1) then None else
  match spec_at P loc t with
  | Some t0 =>
      let uP := lp_val P (tu t) in
      omap (fun k => t_mul (t_scale (cimul (qci_of ((if Nat.even k then 1 else - (1)) * qnat (binom n k))) (cipow (QI 0 uP) k)) t0)
                           (T (tc b) (Some ((n - k)%nat, loc)) (tu b) (tv b) (trx b) (tat b)))
           (seq 0 (S n))
  | None => None end.
Fixpoint oconcat {A} (l : list (option (list A))) : option (list A) :=
  match l with [] => Some [] | Some x :: r => match oconcat r with Some y => Some (x ++ y) | None => None end | None :: _ => None end.
Definition mul_sift (E : env) (fa : Qc -> option (list term)) (a_const a_exp : bool) (B : list term) : option (list term) :=
  let step (acc : option (list term)) (b : term) :=
    match acc with None => None | Some out =>
      match td b with
      | None => match fa (e_x0 E) with Some A => match nf_mul A [b] with Some r => Some (out ++ r) | None => None end | None => None end
      | Some (n, loc) =>
          match fa (lp_val (e_P E) loc) with
          | Some A =>
              if (Nat.eqb n 0 || a_const) then
                match omap (spec_at (e_P E) loc) A with
                | Some A' => match nf_mul A' [b] with Some r => Some (out ++ r) | None => None end
                | None => None end
              else if a_exp then
                match oconcat (map (leib (e_P E) loc n b) A) with Some r => Some (out ++ r) | None => None end
              else None
          | None => None end
      end end in
  fold_left step B (Some []).
(* the variable occurs only inside exponentials *)
Fixpoint var_in_exp_only (e : fn) : bool :=
  match e with
  | Var => false | Rec _ => false
  | App HExp _ => true
  | Add a b | Mul a b | Trp a b => var_in_exp_only a && var_in_exp_only b
  | Neg a | Inv a | Pw a _ | App _ a | Dl _ a => var_in_exp_only a
  | _ => true end.
Definition has_delta (B : list term) : bool := existsb (fun t => match td t with Some _ => true | None => false end) B.

Fixpoint nfe (E : env) (e : fn) {struct e} : option (list term) :=
  match sce E e with
  | Some v => Some [t_c v]
  | None =>
    match e with
    | Add a b => match nfe E a, nfe E b with Some x, Some y => Some (x ++ y) | _, _ => None end
    | Neg a => match nfe E a with Some x => Some (map (t_scale (ciopp ci1)) x) | None => None end
    | Mul a b =>
        match nfe E a, nfe E b with
        | Some A, Some B =>
            if has_delta B then (if has_delta A then None else mul_sift E (fun x => nfe (with_x0 E x) a) (negb (has_var a)) (var_in_exp_only a) B)
            else if has_delta A then mul_sift E (fun x => nfe (with_x0 E x) b) (negb (has_var b)) (var_in_exp_only b) A
            else nf_mul A B
        | _, _ => None end
    | Pw a n => match nfe E a with Some A => if has_delta A then None else nf_pow A n | None => None end
    | App HExp a =>
        match affe E a with
        | Some (k2, k1, k0) =>
            if lp_is0 (snd k2) then
              Some [T ci1 None (snd k1) (snd k0) (lp_val (e_P E) (fst k2), lp_val (e_P E) (fst k1), lp_val (e_P E) (fst k0)) []]
            else None
        | None => real_quadratic E a end
    | App h a =>
        match real_lin E a with
        | Some (s, b) =>
            let sP := lp_val (e_P E) s in let bP := lp_val (e_P E) b in
            if qz sP then None else
            match h with
            | HSign => Some [T (qci_of (qsgn sP)) None lp0 lp0 (0, 0, 0) [(K_SIGN, 1, bP / sP, 0, 1%nat)]]
            | HHeav => Some [t_c (qci_of (qc 1 2)); T (qci_of (qsgn sP / (qc 2 1))) None lp0 lp0 (0, 0, 0) [(K_SIGN, 1, bP / sP, 0, 1%nat)]]
            | HAbs => Some [T (qci_of ((sP * e_x0 E + bP) * qsgn sP)) None lp0 lp0 (0, 0, 0) [(K_SIGN, 1, bP / sP, 0, 1%nat)]]
            | HRect => Some (even_atom K_RECT sP bP 0)
            | HTri => Some (even_atom K_TRI sP bP 0)
            | HSincn => Some (even_atom K_SINCN sP bP 0)
            | HSincu => Some (even_atom K_SINCN (sP / e_P E) (bP / e_P E) 0)
            | _ => None end
        | None => None end
    | Trp a al =>
        match real_lin E a, sce E al with
        | Some (s, b), Some alv =>
            let sP := lp_val (e_P E) s in let bP := lp_val (e_P E) b in
            if qz sP || negb (qc_eqb (im alv) 0) then None else Some (even_atom K_TRAP sP bP (re alv))
        | _, _ => None end
    | Dl n a =>
        match real_lin E a with
        | Some (s, b) =>
            let sP := lp_val (e_P E) s in
            match lp_inv_mono s with
            | Some si => match lp_mul b si with
                         | Some bs => if qz sP then None else
                                      Some [T (qci_of (1 / (Qcpower sP n * qabs sP))) (Some (n, lp_neg bs)) lp0 lp0 (0, 0, 0) []]
                         | None => None end
            | None => None end
        | None => None end
    | Rec a =>
        match real_lin E a with
        | Some (s, b) => e_Q E s b (e_x0 E)
        | None => None end
    | _ => None
    end
  end.

(* comparison: same sum of coefficients for every key *)
Definition olp_eqb (a b : option (nat * lp)) : bool :=
  match a, b with None, None => true | Some (n, x), Some (m, y) => Nat.eqb n m && lp_eqb x y | _, _ => false end.
Definition rx_eqb (a b : Qc * Qc * Qc) : bool :=
  let '(a2, a1, a0) := a in let '(b2, b1, b0) := b in qc_eqb a2 b2 && qc_eqb a1 b1 && qc_eqb a0 b0.
Definition atom_eqb (x y : atom) : bool := akey_eqb x y && Nat.eqb (snd x) (snd y).
Definition atoms_sub (l m : list atom) : bool := forallb (fun x => existsb (atom_eqb x) m) l.
Definition key_eqb (a b : term) : bool :=
  olp_eqb (td a) (td b) && lp_eqb (tu a) (tu b) && lp_eqb (tv a) (tv b) && rx_eqb (trx a) (trx b) &&
  atoms_sub (tat a) (tat b) && atoms_sub (tat b) (tat a).
Definition coef_sum (k : term) (l : list term) : qci :=
  fold_right (fun t acc => if key_eqb k t then ciadd (tc t) acc else acc) ci0 l.
Definition nf_norm (l : list term) : list term := map fold_phase l.
Definition nf_eqb (A B : list term) : bool :=
  let A' := nf_norm A in let B' := nf_norm B in
  forallb (fun k => qci_eqb (coef_sum k A') (coef_sum k B')) (A' ++ B').
Definition onf_eqb (A : option (list term)) (B : list term) : bool :=
  match A with Some a => nf_eqb a B | None => false end.
