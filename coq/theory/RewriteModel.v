(* C05: hand model (H) of the netlist rewrites of lcapy/netlistsimplifymixin.py,
   lcapy/netlistmixin.py, lcapy/netlist.py and lcapy/mnacpts.py at the level
   of component lists.  All definitions are executable; checks/c05.py evaluates
   them inside Coq (Qc) on the inputs the real code ran on and compares the
   rewritten netlist element by element.

   The answers of the graph oracles (in_series / in_parallel) and the order in
   which Python enumerated every set are INPUTS of the model (a trace recorded
   from the real run); the model checks the oracles' contract on each answer.

   [variant] selects between the behaviour of the unchanged tree and the
   behaviour after the proposed repairs of findings F3/F4 (orientation-aware
   sums, common initial condition); the check determines which one the code
   under test has by running the two DESIGN reproducers first. *)
Require Import LT.FieldSec.
From Coq Require Import Arith.
Local Open Scope nat_scope.

Inductive ety := TR | TNR | TC | TL | TV | TI | TZ | TY | TW | TO | TX.
Definition ety_code (t : ety) : nat :=
  match t with TR => 0 | TNR => 1 | TC => 2 | TL => 3 | TV => 4 | TI => 5 | TZ => 6 | TY => 7 | TW => 8 | TO => 9 | TX => 10 end.
Definition ety_eqb (a b : ety) : bool := Nat.eqb (ety_code a) (ety_code b).
Lemma ety_eqb_eq a b : ety_eqb a b = true <-> a = b.
Proof. unfold ety_eqb. rewrite Nat.eqb_eq. split; [|intros ->; reflexivity]. destruct a, b; cbn; intros H; try reflexivity; discriminate. Qed.

(* keyword of an independent source (the waveform kind) *)
Inductive skw := KwNone | KwDc | KwStep | KwS | KwAc | KwOther.
Definition skw_code (k : skw) : nat := match k with KwNone => 0 | KwDc => 1 | KwStep => 2 | KwS => 3 | KwAc => 4 | KwOther => 5 end.
Definition skw_eqb (a b : skw) : bool := Nat.eqb (skw_code a) (skw_code b).

(* component names: a name of the original netlist, a name made by the namer
   ("Rt3" = NNew TR 3), an anonymous wire *)
Inductive name := NOrig (i : nat) | NNew (t : ety) (m : nat) | NWire (k : nat)
  | NVar (p : nat) (i : nat).    (* _netmake_variant: prefix p (0 'Z', 1 'V', 2 'N', 3 'Vn') + original name i *)
Definition name_eqb (a b : name) : bool :=
  match a, b with
  | NOrig i, NOrig j => Nat.eqb i j
  | NNew t m, NNew u n => ety_eqb t u && Nat.eqb m n
  | NWire i, NWire j => Nat.eqb i j
  | NVar p i, NVar q j => Nat.eqb p q && Nat.eqb i j
  | _, _ => false end.
Lemma name_eqb_eq a b : name_eqb a b = true <-> a = b.
Proof. destruct a, b; cbn; try (split; [discriminate | intros H; inversion H]).
  - rewrite Nat.eqb_eq. split; [intros ->; reflexivity | intros H; inversion H; reflexivity].
  - rewrite andb_true_iff, ety_eqb_eq, Nat.eqb_eq. split; [intros [-> ->]; reflexivity | intros H; inversion H; auto].
  - rewrite Nat.eqb_eq. split; [intros ->; reflexivity | intros H; inversion H; reflexivity].
  - rewrite andb_true_iff, !Nat.eqb_eq. split; [intros [-> ->]; reflexivity | intros H; inversion H; auto]. Qed.
Definition nmem (x : name) (l : list name) : bool := existsb (name_eqb x) l.
Definition natmem (x : nat) (l : list nat) : bool := existsb (Nat.eqb x) l.

Inductive res (A : Type) := Ok (a : A) | Err.
Arguments Ok {A}. Arguments Err {A}.

Record variant := Variant { v_polarity : bool;   (* sums of source values / initial conditions are signed by orientation *)
                            v_ic_common : bool }. (* parallel C / series L keep the common initial condition *)
Definition unchanged_tree := Variant false false.
Definition repaired := Variant true true.

Section Model.
Variable K : fld.
Variable keqb : K -> K -> bool.

Record elem := Elem { ename : name; etyp : ety; enodes : list nat; ekw : skw; eval : K; eic : option K }.
Definition netlist := list elem.

Definition en1 (e : elem) : nat := nth 0 (enodes e) 0.
Definition en2 (e : elem) : nat := nth 1 (enodes e) 0.
Definition has_ic (e : elem) : bool := match eic e with Some _ => true | None => false end.
Definition icv (e : elem) : K := match eic e with Some x => x | None => f0 end.
Fixpoint find (N : netlist) (x : name) : option elem :=
  match N with [] => None | e :: N' => if name_eqb (ename e) x then Some e else find N' x end.
Definition names (N : netlist) : list name := map ename N.
Fixpoint ksum (l : list K) : K := match l with [] => f0 | x :: l' => fadd x (ksum l') end.

(* ---- node bookkeeping: Node._count (terminals of everything but opens) ---- *)
Definition count_node (N : netlist) (n : nat) : nat :=
  fold_right (fun e acc => match etyp e with TO => acc | _ => length (filter (Nat.eqb n) (enodes e)) + acc end) 0 N.
Definition node_dangling (N : netlist) (n : nat) : bool := count_node N n <=? 1.
(* Cpt.is_dangling / is_disconnected / NetlistSimplifyMixin._keep_dangling *)
Definition is_dangling (N : netlist) (e : elem) : bool :=
  Nat.eqb (length (enodes e)) 2 && (node_dangling N (en1 e) || node_dangling N (en2 e)).
Definition is_disconnected (N : netlist) (e : elem) : bool := forallb (node_dangling N) (enodes e).
Definition keep_dangling (N : netlist) (keep : list nat) (e : elem) : bool :=
  existsb (fun n => node_dangling N n && natmem n keep) (enodes e).
(* _remove_dangling / _remove_disconnected: one pass, (new netlist, changed) *)
(* wires are anonymous: in every netlist the k-th wire is called Wanon<k+1>
   (re-assigned whenever a netlist is rebuilt from the text of its components) *)
Fixpoint renum_wires (N : netlist) (k : nat) : netlist :=
  match N with
  | [] => []
  | e :: N' => match etyp e with
               | TW => Elem (NWire k) TW (enodes e) (ekw e) (eval e) (eic e) :: renum_wires N' (S k)
               | _ => e :: renum_wires N' k end
  end.
Definition count_wires (N : netlist) : nat := length (filter (fun e => ety_eqb (etyp e) TW) N).
Definition remove_dangling (N : netlist) (skip : list name) (keep : list nat) : netlist * bool :=
  let gone := fun e => is_dangling N e && negb (nmem (ename e) skip) && negb (keep_dangling N keep e) in
  (renum_wires (filter (fun e => negb (gone e)) N) 0, existsb gone N).
Definition remove_disconnected (N : netlist) (skip : list name) (keep : list nat) : netlist * bool :=
  let gone := fun e => is_disconnected N e && negb (nmem (ename e) skip) && negb (keep_dangling N keep e) in
  (renum_wires (filter (fun e => negb (gone e)) N) 0, existsb gone N).

(* ---- ComponentNamer: first m >= 1 with <letter>t<m> unused ---- *)
Fixpoint fresh_from (t : ety) (avoid : list name) (m fuel : nat) : nat :=
  match fuel with O => m | S f => if nmem (NNew t m) avoid then fresh_from t avoid (S m) f else m end.
Definition fresh_name (t : ety) (avoid : list name) : name := NNew t (fresh_from t avoid 1 (S (length avoid))).

(* ---- orientation of the members of a group relative to its first member ---- *)
(* parallel: same first node;  series: the caller supplies, for every member,
   whether it is traversed + to - when the chain is walked in the direction in
   which the first member is traversed + to - (computed by [walk] below) *)
Definition ksgn (same : bool) (x : K) : K := if same then x else fopp x.

(* ---- _do_simplify_combine -------------------------------------------------- *)
(* els: the members in the enumeration order of list(subset); sames: orientation
   of each member relative to the first (only read by the repaired variant) *)
Definition combine_value (vr : variant) (add : bool) (signed : bool) (els : list elem) (sames : list bool) : K :=
  if add then
    (if signed && v_polarity vr then ksum (map (fun p => ksgn (snd p) (eval (fst p))) (combine els sames))
     else ksum (map eval els))
  else fdiv f1 (ksum (map (fun e => fdiv f1 (eval e)) els)).
(* initial condition of the combined element.
   unchanged tree: when the FIRST member has one, the plain sum of args[1] of
   all members (IndexError when a member has none); none otherwise.
   repaired: parallel C / series L ([common], _check_ic has established that all
   members agree) keep the common value; series C / parallel L add the
   members' values signed by orientation, a member without one counting 0. *)
Definition combine_ic (vr : variant) (common : bool) (els : list elem) (sames : list bool) : res (option K) :=
  match els with
  | [] => Err
  | first :: _ =>
      if common && v_ic_common vr then Ok (if has_ic first then Some (icv first) else None)
      else if v_polarity vr then
        Ok (if existsb has_ic els then Some (ksum (map (fun p => ksgn (snd p) (icv (fst p))) (combine els sames))) else None)
      else if has_ic first then
        (if forallb has_ic els then Ok (Some (ksum (map icv els))) else Err)
      else Ok None
  end.
Definition mk_wire (k : nat) (e : elem) : elem := Elem (NWire k) TW (enodes e) KwNone f0 None.
Fixpoint mk_wires (k : nat) (l : list elem) : list elem :=
  match l with [] => [] | e :: l' => mk_wire k e :: mk_wires (S k) l' end.
Definition lookup_all (S : netlist) (l : list name) : res (list elem) :=
  fold_right (fun x acc => match find S x, acc with Some e, Ok r => Ok (e :: r) | _, _ => Err end) (Ok []) l.

Record cstate := CState { c_net : netlist; c_used : list name; c_changed : bool }.

(* the element that replaces the first member *)
Definition new_elem (vr : variant) (els : list elem) (sames : list bool) (add common signed : bool) (nm : name) : res elem :=
  match els with
  | [] => Err
  | first :: _ =>
      match etyp first with
      | TNR => Err                                   (* 'Nt1' is not a component name: ValueError *)
      | t => match combine_ic vr common els sames with
             | Err => Err
             | Ok ic => Ok (Elem nm t (enodes first) (ekw first) (combine_value vr add signed els sames) ic)
             end
      end
  end.
Definition do_combine (vr : variant) (S : netlist) (st : cstate) (order : list name) (sames : list bool)
                      (add series common signed : bool) : res cstate :=
  match lookup_all S order with
  | Err => Err
  | Ok els =>
    let nm := fresh_name (match els with e :: _ => etyp e | [] => TX end) (names S ++ c_used st) in
    match new_elem vr els sames add common signed nm with
    | Err => Err
    | Ok new =>
        let kept := filter (fun e => negb (nmem (ename e) order)) (c_net st) in
        (* net.remove raises when a member is no longer in the netlist being edited *)
        if negb (forallb (fun x => nmem x (names (c_net st))) order) then Err else
        let ws := if series then mk_wires (count_wires (c_net st)) (tl els) else [] in
        Ok (CState (kept ++ new :: ws) (nm :: c_used st) true)
    end
  end.

(* ---- _check_ic ---------------------------------------------------------- *)
(* [e0]: the member popped from the copy of the set, [els]: all members.
   When e0 has an initial condition and another member has none, reading the
   latter's args[1] raises IndexError; when e0 has none the answer is whether
   all the others have none either. *)
Definition check_ic (vr : variant) (e0 : elem) (els : list elem) (sames : list bool) : res bool :=
  let okay := forallb (fun e => Bool.eqb (has_ic e) (has_ic e0)) els in
  if v_polarity vr then
    (* repaired: uniform presence, equal values, and no member pointing the other way unless the value is zero *)
    Ok (okay && (negb (has_ic e0) ||
                 forallb (fun e => keqb (icv e) (icv e0)) els &&
                 forallb (fun p => snd p || keqb (icv (fst p)) f0) (combine els sames)))
  else if negb (has_ic e0) then Ok okay
  else if negb (forallb has_ic els) then Err
  else Ok (forallb (fun e => keqb (icv e) (icv e0)) els).

(* ---- equipotential nodes (wires merge node names into classes) ------------- *)
(* the class of a node is named by its smallest member (the reference node 0 wins) *)
Definition relabel (lab : nat -> nat) (a b : nat) : nat -> nat :=
  let la := lab a in let lb := lab b in
  if Nat.eqb la lb then lab else fun n => if Nat.eqb (lab n) (Nat.max la lb) then Nat.min la lb else lab n.
Definition cls (N : netlist) : nat -> nat :=
  fold_left (fun lab e => match etyp e with TW => relabel lab (en1 e) (en2 e) | _ => lab end) N (fun n => n).

(* ---- contract of the graph oracles ----------------------------------------- *)
(* in_series: the returned set, put in path order, is a walk of two-terminal
   elements through node classes starting at the class of [start]; every class
   strictly inside the walk is distinct from the others and from the two ends
   and carries exactly the two terminals of its neighbours - terminals of
   every component other than wires count, including control nodes.  [cwalk]
   also yields the orientation of each element (traversed + to -). *)
(* (the output port of a controlled source is a branch between its first two nodes) *)
Definition two_terminal (e : elem) : bool :=
  (2 <=? length (enodes e)) && match etyp e with TO | TW => false | _ => true end.
Fixpoint cwalk (c : nat -> nat) (cur : nat) (l : list elem) : option (list (elem * bool * nat)) :=
  match l with
  | [] => Some []
  | e :: l' =>
      if negb (two_terminal e) || Nat.eqb (c (en1 e)) (c (en2 e)) then None
      else if Nat.eqb (c (en1 e)) cur then option_map (cons (e, true, c (en2 e))) (cwalk c (c (en2 e)) l')
      else if Nat.eqb (c (en2 e)) cur then option_map (cons (e, false, c (en1 e))) (cwalk c (c (en1 e)) l')
      else None
  end.
Fixpoint inner_nodes (w : list (elem * bool * nat)) : list nat :=
  match w with [] => [] | x :: w' => match w' with [] => [] | _ => snd x :: inner_nodes w' end end.
Fixpoint nodup_nat (l : list nat) : bool := match l with [] => true | x :: l' => negb (natmem x l') && nodup_nat l' end.
Fixpoint nodup_names (l : list name) : bool := match l with [] => true | x :: l' => negb (nmem x l') && nodup_names l' end.
Definition last_of (start : nat) (w : list (elem * bool * nat)) : nat := last (map snd w) start.
Definition terminals_at (c : nat -> nat) (S : netlist) (n : nat) : nat :=
  fold_right (fun e acc => match etyp e with TW => acc | _ => length (filter (fun m => Nat.eqb (c m) n) (enodes e)) + acc end) 0 S.
Definition same_set (a b : list name) : bool :=
  Nat.eqb (length a) (length b) && forallb (fun x => nmem x b) a && forallb (fun x => nmem x a) b.
Definition series_contract (S : netlist) (A : list name) (start : nat) (path : list name) : bool :=
  let c := cls S in
  match lookup_all S path with
  | Err => false
  | Ok els =>
    match cwalk c (c start) els with
    | None => false
    | Some w =>
      let inn := inner_nodes w in
      nodup_names path && same_set A path &&
      nodup_nat inn && negb (natmem (c start) inn) && negb (natmem (last_of (c start) w) inn) &&
      forallb (fun n => Nat.eqb (terminals_at c S n) 2) inn
    end
  end.
(* the reference node 0 lies strictly inside the walk: its potential is not private *)
Definition ground_inside (S : netlist) (start : nat) (path : list name) : bool :=
  let c := cls S in
  match lookup_all S path with
  | Err => false
  | Ok els => match cwalk c (c start) els with None => false | Some w => natmem 0 (inner_nodes w) end
  end.
(* in_parallel: all members are two-terminal elements across one pair of classes *)
Definition parallel_contract (S : netlist) (A : list name) : bool :=
  let c := cls S in
  match lookup_all S A with
  | Err => false
  | Ok [] => false
  | Ok (e0 :: els) =>
      two_terminal e0 && negb (Nat.eqb (c (en1 e0)) (c (en2 e0))) &&
      forallb (fun e => two_terminal e &&
                 ((Nat.eqb (c (en1 e)) (c (en1 e0)) && Nat.eqb (c (en2 e)) (c (en2 e0))) ||
                  (Nat.eqb (c (en1 e)) (c (en2 e0)) && Nat.eqb (c (en2 e)) (c (en1 e0))))) els
  end.
(* the members sit on one and the same pair of node NAMES (no wire in between) *)
Definition parallel_raw (S : netlist) (A : list name) : bool :=
  match lookup_all S A with
  | Ok (e0 :: els) =>
      forallb (fun e => (Nat.eqb (en1 e) (en1 e0) && Nat.eqb (en2 e) (en2 e0)) || (Nat.eqb (en1 e) (en2 e0) && Nat.eqb (en2 e) (en1 e0))) els
  | _ => false end.
(* orientation of every member of [order] relative to the first *)
Definition parallel_sames (S : netlist) (order : list name) : list bool :=
  let c := cls S in
  match lookup_all S order with
  | Ok (e0 :: els) => true :: map (fun e => Nat.eqb (c (en1 e)) (c (en1 e0))) els
  | _ => [] end.
Definition series_sames (S : netlist) (start : nat) (path order : list name) : list bool :=
  let c := cls S in
  match lookup_all S path with
  | Err => []
  | Ok els =>
    match cwalk c (c start) els with
    | None => []
    | Some w =>
      let dir := fun x => match filter (fun t => name_eqb (ename (fst (fst t))) x) w with t :: _ => snd (fst t) | [] => true end in
      match order with [] => [] | x0 :: _ => map (fun x => Bool.eqb (dir x) (dir x0)) order end
    end
  end.
(* the same walk on node NAMES with the wires that lie on it as ordinary
   two-terminal elements: the form in which the series theorem applies directly *)
Definition two_terminal_w (e : elem) : bool :=
  Nat.eqb (length (enodes e)) 2 && match etyp e with TX | TO => false | _ => true end.
Fixpoint walk (cur : nat) (l : list elem) : option (list (elem * bool * nat)) :=
  match l with
  | [] => Some []
  | e :: l' =>
      if negb (two_terminal_w e) then None
      else if Nat.eqb (en1 e) cur then option_map (cons (e, true, en2 e)) (walk (en2 e) l')
      else if Nat.eqb (en2 e) cur then option_map (cons (e, false, en1 e)) (walk (en1 e) l')
      else None
  end.
Definition terminals_raw (S : netlist) (n : nat) : nat :=
  fold_right (fun e acc => length (filter (Nat.eqb n) (enodes e)) + acc) 0 S.
Definition series_raw (S : netlist) (A : list name) (start : nat) (path : list name) : bool :=
  match lookup_all S path with
  | Err => false
  | Ok els =>
    match walk start els with
    | None => false
    | Some w =>
      let inn := inner_nodes w in
      nodup_names path &&
      forallb (fun x => nmem x path) A &&
      forallb (fun e => nmem (ename e) A || ety_eqb (etyp e) TW) els &&
      nodup_nat inn && negb (natmem start inn) && negb (natmem (last_of start w) inn) && negb (natmem 0 inn) &&
      forallb (fun n => Nat.eqb (terminals_raw S n) 2) inn
    end
  end.

(* ---- the trace of one combine stage -------------------------------------- *)
(* one group found by _find_combine_subsets: its type, its members (as a set)
   and the order in which list(subset) enumerated them when it was combined *)
Record sub := Sub { s_type : ety; s_names : list name; s_order : option (list name); s_pop : option name }.
(* one answer of in_series / in_parallel with, for a series answer, the
   witness of its contract: a start node and the members in path order *)
Record aset := ASet { a_names : list name; a_start : nat; a_path : list name; a_rstart : nat; a_rpath : list name; a_subs : list sub }.
Record stage := Stage { g_is_series : bool; g_asets : list aset }.

Definition subset_of (S : netlist) (A : list name) (t : ety) : list name :=
  filter (fun x => match find S x with Some e => ety_eqb (etyp e) t | None => false end) A.
(* contract of _find_combine_subsets: exactly the groups of equal type with
   more than one member, each once *)
Definition combinable := [TV; TI; TR; TNR; TC; TL; TY; TZ].
Definition subsets_ok (S : netlist) (A : list name) (subs : list sub) : bool :=
  forallb (fun sb => same_set (s_names sb) (subset_of S A (s_type sb)) && (1 <? length (s_names sb))) subs &&
  forallb (fun t => Nat.eqb (length (filter (fun sb => ety_eqb (s_type sb) t) subs))
                            (if 1 <? length (subset_of S A t) then 1 else 0)) combinable.

Inductive action := ASkip | ACombine (add common signed : bool).
(* dispatch of _simplify_combine_series / _simplify_combine_parallel *)
Definition series_action (t : ety) : res action :=
  match t with
  | TI => Ok ASkip
  | TR | TNR | TZ => Ok (ACombine true false false)
  | TL => Ok (ACombine true true false)
  | TV => Ok (ACombine true false true)
  | TC | TY => Ok (ACombine false false false)
  | _ => Err end.
Definition parallel_action (t : ety) : res action :=
  match t with
  | TV => Ok ASkip
  | TR | TNR | TZ | TL => Ok (ACombine false false false)
  | TC => Ok (ACombine true true false)
  | TY => Ok (ACombine true false false)
  | TI => Ok (ACombine true false true)
  | _ => Err end.

Record sflags := SFlags { f_subsets : bool;    (* every _find_combine_subsets answer met its contract *)
                          f_orders : bool;     (* an enumeration order was recorded exactly for the groups the model combines *)
                          f_contract : bool;   (* every in_series / in_parallel answer in which something was combined met its contract *)
                          f_ground : bool;     (* no series answer has the reference node strictly inside *)
                          f_kinds : bool;      (* the stages of the trace are the stages the model runs *)
                          f_raw : bool;        (* every answer in which something was combined is a chain / group on node names *)
                          f_events : list nat }. (* combine events at which a precondition of the equivalence theorems fails *)
Definition fl_orders (fl : sflags) (b : bool) : sflags := SFlags (f_subsets fl) (f_orders fl && b) (f_contract fl) (f_ground fl) (f_kinds fl) (f_raw fl) (f_events fl).
Definition fl_subsets (fl : sflags) (b : bool) : sflags := SFlags (f_subsets fl && b) (f_orders fl) (f_contract fl) (f_ground fl) (f_kinds fl) (f_raw fl) (f_events fl).
Definition fl_contract (fl : sflags) (b g r : bool) : sflags := SFlags (f_subsets fl) (f_orders fl) (f_contract fl && b) (f_ground fl && g) (f_kinds fl) (f_raw fl && r) (f_events fl).
Definition fl_kinds (fl : sflags) (b : bool) : sflags := SFlags (f_subsets fl) (f_orders fl) (f_contract fl) (f_ground fl) (f_kinds fl && b) (f_raw fl) (f_events fl).
Definition fl_events (fl : sflags) (l : list nat) : sflags := SFlags (f_subsets fl) (f_orders fl) (f_contract fl) (f_ground fl) (f_kinds fl) (f_raw fl) (f_events fl ++ l).
(* preconditions of the equivalence theorems for the UNCHANGED tree
   (plain_ok_series / plain_ok_parallel of RewriteSem.v and same_kwf), as tags:
   1 polarity:V  2 polarity:I  3 polarity:ic:C-series  4 polarity:ic:L-parallel
   5 ic-sum:L-series  6 ic-sum:C-parallel  7 ic-mixed:C-series  8 ic-mixed:L-parallel  9 kw-mixed *)
Definition nonzero_ic (e : elem) : bool := has_ic e && negb (keqb (icv e) f0).
Definition event_tags (vr : variant) (series : bool) (t : ety) (els : list elem) (sames : list bool) : list nat :=
  let opp := existsb negb sames in
  let opp_ic := existsb (fun p => negb (snd p) && nonzero_ic (fst p)) (combine els sames) in
  let any_ic := existsb nonzero_ic els in
  let first_ic := match els with e :: _ => has_ic e | [] => false end in
  let kwmix := match els with e :: l => existsb (fun x => negb (skw_eqb (ekw x) (ekw e))) l | [] => false end in
  (if kwmix && (ety_eqb t TV || ety_eqb t TI) then [9] else []) ++
  (if v_polarity vr then [] else
     match t, series with
     | TV, true => if opp then [1] else []
     | TI, false => if opp then [2] else []
     | TC, true => (if opp_ic then [3] else []) ++ (if negb first_ic && any_ic then [7] else [])
     | TL, false => (if opp_ic then [4] else []) ++ (if negb first_ic && any_ic then [8] else [])
     | _, _ => [] end) ++
  (if v_ic_common vr then [] else
     match t, series with
     | TL, true => if any_ic then [5] else []
     | TC, false => if any_ic then [6] else []
     | _, _ => [] end) ++
  (* 10 polarity:ic:C-parallel  11 polarity:ic:L-series: a common non-zero initial condition on members that point
     opposite ways (only visible once the common value is kept instead of the sum) *)
  (if v_polarity vr then [] else
     match t, series with
     | TC, false => if opp_ic then [10] else []
     | TL, true => if opp_ic then [11] else []
     | _, _ => [] end).
Definition no_order (sb : sub) : bool := match s_order sb with None => true | Some _ => false end.

Definition do_sub (vr : variant) (series : bool) (S : netlist) (a : aset) (acc : res (cstate * sflags)) (sb : sub) : res (cstate * sflags) :=
  match acc with
  | Err => Err
  | Ok (st, fl) =>
    match (if series then series_action (s_type sb) else parallel_action (s_type sb)) with
    | Err => Err
    | Ok ASkip => Ok (st, fl_orders fl (no_order sb))
    | Ok (ACombine add common signed) =>
      let order := match s_order sb with Some o => o | None => s_names sb end in
      let sames := if series then series_sames S (a_start a) (a_path a) order else parallel_sames S order in
      match lookup_all S order with
      | Err => Err
      | Ok els =>
        (* _check_ic is consulted for L in series and C in parallel *)
        let chk := if common then
                     match s_pop sb with
                     | None => Ok (true, false)
                     | Some p => match find S p with
                                 | None => Ok (true, false)
                                 | Some e0 => match check_ic vr e0 els sames with Err => Err | Ok b => Ok (b, nmem p (s_names sb)) end
                                 end
                     end
                   else Ok (true, match s_pop sb with None => true | Some _ => false end) in
        match chk with
        | Err => Err
        | Ok (false, okp) => Ok (st, fl_orders fl (no_order sb && okp))
        | Ok (true, okp) =>
          match s_order sb with
          | None => Ok (st, fl_orders fl false)
          | Some o =>
            match do_combine vr S st o sames add series common signed with
            | Err => Err
            | Ok st' => Ok (st', fl_events (fl_orders fl (same_set o (s_names sb) && nodup_names o && okp)) (event_tags vr series (s_type sb) els sames))
            end
          end
        end
      end
    end
  end.

Definition do_aset (vr : variant) (series : bool) (S : netlist) (skip : list name) (acc : res (cstate * sflags)) (a : aset)
  : res (cstate * sflags) :=
  match acc with
  | Err => Err
  | Ok (st, fl) =>
    let A := filter (fun x => negb (nmem x skip)) (a_names a) in
    (* net._find_combine_subsets looks the names up in the netlist being edited: KeyError when one is gone *)
    if negb (forallb (fun x => nmem x (names (c_net st))) A) then Err else
    let combines := existsb (fun sb => negb (no_order sb)) (a_subs a) in
    let fl1 := fl_contract fl (negb combines || (if series then series_contract S (a_names a) (a_start a) (a_path a) else parallel_contract S (a_names a)))
                              (negb (series && combines && ground_inside S (a_start a) (a_path a)))
                              (negb combines || (if series then series_raw S (a_names a) (a_rstart a) (a_rpath a) else parallel_raw S (a_names a))) in
    fold_left (do_sub vr series S a) (a_subs a) (Ok (st, fl_subsets fl1 (subsets_ok S A (a_subs a))))
  end.
(* one _simplify_combine_series / _simplify_combine_parallel stage on netlist S *)
Definition do_stage (vr : variant) (series : bool) (S : netlist) (skip : list name) (fl : sflags) (asets : list aset)
  : res (cstate * sflags) :=
  fold_left (do_aset vr series S skip) asets (Ok (CState S [] false, fl)).

(* ---- simplify ---------------------------------------------------------------- *)
Record sargs := SArgs { g_select : option (list name); g_ignore : option (list name); g_keep : list nat; g_passes : nat;
                        g_series : bool; g_parallel : bool; g_dangling : bool; g_disconnected : bool }.
Definition skip_of (g : sargs) (N : netlist) : list name :=
  (match g_select g with None => [] | Some sel => filter (fun x => negb (nmem x sel)) (names N) end) ++
  (match g_ignore g with None => [] | Some ig => ig end).
Record sstate := SState { x_net : netlist; x_flags : sflags; x_trace : list stage }.

Definition run_stage (vr : variant) (series : bool) (skip : list name) (x : sstate) : res (sstate * bool) :=
  match x_trace x with
  | [] => Ok (SState (x_net x) (fl_kinds (x_flags x) false) [], false)
  | tr :: rest =>
    match do_stage vr series (renum_wires (x_net x) 0) skip (fl_kinds (x_flags x) (Bool.eqb (g_is_series tr) series)) (g_asets tr) with
    | Err => Err
    | Ok (st, fl) => Ok (SState (c_net st) fl rest, c_changed st)
    end
  end.
Definition one_pass (vr : variant) (g : sargs) (skip : list name) (x : sstate) : res (sstate * bool) :=
  let '(n1, ch1) := if g_dangling g then remove_dangling (x_net x) skip (g_keep g) else (x_net x, false) in
  let '(n2, ch2) := if g_disconnected g then remove_disconnected n1 skip (g_keep g) else (n1, false) in
  let x2 := SState n2 (x_flags x) (x_trace x) in
  match (if g_series g then run_stage vr true skip x2 else Ok (x2, false)) with
  | Err => Err
  | Ok (x3, ch3) =>
    match (if g_parallel g then run_stage vr false skip x3 else Ok (x3, false)) with
    | Err => Err
    | Ok (x4, ch4) => Ok (x4, ch1 || ch2 || ch3 || ch4)
    end
  end.
Fixpoint passes_loop (vr : variant) (g : sargs) (skip : list name) (n : nat) (x : sstate) : res sstate :=
  match n with
  | O => Ok x
  | S n' => match one_pass vr g skip x with
            | Err => Err
            | Ok (x', changed) => if changed then passes_loop vr g skip n' x' else Ok x'
            end
  end.
Definition simplify (vr : variant) (g : sargs) (N : netlist) (trace : list stage) : res sstate :=
  passes_loop vr g (skip_of g N) (if Nat.eqb (g_passes g) 0 then 100 else g_passes g)
              (SState N (SFlags true true true true true true []) trace).

(* ---- the other rewrites ------------------------------------------------------ *)
(* renumber / _rename_nodes: every node name goes through the map *)
Definition rename_nodes (f : nat -> nat) (N : netlist) : netlist :=
  map (fun e => Elem (ename e) (etyp e) (map f (enodes e)) (ekw e) (eval e) (eic e)) N.
Definition orig_id (x : name) : nat := match x with NOrig i => i | _ => 0 end.

(* RLC._s_model (Z + V Thevenin pair through a dummy node when the element has
   a non-zero initial-condition source), V/I._s_model (value -> its Laplace
   transform, keyword dropped).  [s] is the value of the Laplace variable,
   [d] the next dummy node.  Returns the new elements and the next dummy node. *)
Variable s : K.
(* [sl]: the value of the Laplace variable in the transforms of the SOURCES.  s_model() uses the same point for
   impedances and sources; ac_model(omega) = s_model(j omega) evaluates the impedances at j omega but leaves the
   sources as transforms in s *)
Definition src_laplace (sl : K) (kw : skw) (x : K) : K := match kw with KwS => x | _ => fdiv x sl end.
Definition z_of (e : elem) : K :=
  match etyp e with TC => fdiv f1 (fmul s (eval e)) | TL => fmul s (eval e) | TY => fdiv f1 (eval e) | _ => eval e end.
Definition voc_of (e : elem) : K :=
  match etyp e with TC => fdiv (icv e) s | TL => fopp (fmul (eval e) (icv e)) | _ => f0 end.
(* [lkw]: how the netlist text of an inductor's source -L i0 (a constant, no s
   in it) is read back: KwS = as an s-domain value (what the model means),
   KwNone = as a DC source (what the unchanged tree prints: "VL1 n 0 -5") *)
Definition s_model_elem (sl : K) (lkw : skw) (e : elem) (d : nat) : list elem * nat :=
  match etyp e with
  | TR | TNR | TC | TL | TZ | TY =>
      if keqb (voc_of e) f0 then ([Elem (NVar 0 (orig_id (ename e))) TZ (enodes e) KwNone (z_of e) None], d)
      else ([Elem (NVar 0 (orig_id (ename e))) TZ [en1 e; d] KwNone (z_of e) None;
             Elem (NVar 1 (orig_id (ename e))) TV [d; en2 e] (match etyp e with TL => lkw | _ => KwS end) (voc_of e) None], S d)
  | TV | TI => ([Elem (ename e) (etyp e) (enodes e) KwS (src_laplace sl (ekw e) (eval e)) None], d)
  | _ => ([e], d)
  end.
Fixpoint s_model (sl : K) (lkw : skw) (N : netlist) (d : nat) : netlist :=
  match N with [] => [] | e :: N' => let '(l, d') := s_model_elem sl lkw e d in l ++ s_model sl lkw N' d' end.
(* RC._noisy: R -> NR in series with a noise voltage source through a dummy
   node; kill_noise turns every noise source into a wire *)
Definition noisy_elem (e : elem) (d : nat) : list elem * nat :=
  match etyp e with
  | TR => ([Elem (NVar 2 (orig_id (ename e))) TNR [en1 e; d] KwNone (eval e) None;
           Elem (NVar 3 (orig_id (ename e))) TV [d; en2 e] KwOther f0 None], S d)
  | _ => ([e], d)
  end.
Fixpoint noisy (N : netlist) (d : nat) : netlist :=
  match N with [] => [] | e :: N' => let '(l, d') := noisy_elem e d in l ++ noisy N' d' end.
Definition is_noise_src (e : elem) : bool := ety_eqb (etyp e) TV && skw_eqb (ekw e) KwOther.
Fixpoint kill_noise (N : netlist) (k : nat) : netlist :=
  match N with
  | [] => []
  | e :: N' => if is_noise_src e then Elem (NWire k) TW (enodes e) KwNone f0 None :: kill_noise N' (S k) else e :: kill_noise N' k
  end.

(* SW._replace_switch: a switch (normally open / normally closed, activation
   time T) at time t; [before] = replace_switches_before.  true = closed (wire) *)
Variable kltb : K -> K -> bool.     (* strict order on the time values *)
Definition switch_active (before : bool) (t T : K) : bool := if before then kltb t T else negb (kltb t T).
Definition switch_closed (nc : bool) (before : bool) (t T : K) : bool :=
  if nc then negb (switch_active before t T) else switch_active before t T.
(* the state a switch really has: a normally open switch is closed from its
   activation time on; [before] looks at the instant just before t *)
Definition switch_closed_spec (nc : bool) (before : bool) (t T : K) : bool :=
  let activated := if before then kltb T t else negb (kltb t T) in
  if nc then negb activated else activated.
End Model.

Arguments Elem {K}. Arguments ename {K}. Arguments etyp {K}. Arguments enodes {K}. Arguments ekw {K}. Arguments eval {K}. Arguments eic {K}.
Arguments en1 {K}. Arguments en2 {K}. Arguments has_ic {K}. Arguments icv {K}. Arguments find {K}. Arguments names {K}. Arguments ksum {K}.
Arguments remove_dangling {K}. Arguments remove_disconnected {K}. Arguments combine_value {K}. Arguments combine_ic {K}.
Arguments do_combine {K}. Arguments new_elem {K}. Arguments check_ic {K}. Arguments simplify {K}.
Arguments series_contract {K}. Arguments parallel_contract {K}. Arguments parallel_sames {K}. Arguments series_sames {K}.
Arguments ground_inside {K}. Arguments terminals_at {K}. Arguments cls {K}. Arguments cwalk {K}. Arguments series_raw {K}. Arguments parallel_raw {K}. Arguments renum_wires {K}. Arguments count_wires {K}. Arguments two_terminal_w {K}. Arguments terminals_raw {K}.
Arguments rename_nodes {K}. Arguments x_net {K}. Arguments x_flags {K}. Arguments x_trace {K}.
Arguments CState {K}. Arguments c_net {K}. Arguments c_used {K}. Arguments c_changed {K}.
Arguments walk {K}. Arguments inner_nodes {K}. Arguments lookup_all {K}.
Arguments mk_wires {K}. Arguments mk_wire {K}. Arguments ksgn {K}. Arguments two_terminal {K}. Arguments last_of {K}.
Arguments switch_closed {K}. Arguments switch_closed_spec {K}. Arguments switch_active {K}.
Arguments is_dangling {K}. Arguments node_dangling {K}. Arguments count_node {K}. Arguments keep_dangling {K}.
Arguments s_model {K}. Arguments s_model_elem {K}. Arguments noisy {K}. Arguments noisy_elem {K}. Arguments kill_noise {K}.
Arguments z_of {K}. Arguments voc_of {K}. Arguments src_laplace {K}. Arguments is_noise_src {K}.
Arguments do_stage {K}. Arguments do_aset {K}. Arguments do_sub {K}. Arguments subsets_ok {K}. Arguments skip_of {K}.
Arguments netlist K : clear implicits. Arguments elem K : clear implicits.
