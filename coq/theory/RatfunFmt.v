(* RatfunFmt — hand model (H) of the formatting methods of lcapy/ratfun.py and
   of their Expr-level wrappers in lcapy/expr.py, with the soundness lemma of
   every format for ALL inputs (C11; reused by C10).

   A generalised rational function is  B(x)/A(x) * exp(-x*delay) * U  (Ratfun.__init__).
   Models are shallow: every format is a function computing the VALUE of the
   formatted expression at a point x, for an arbitrary interpretation
   [E : K -> K] of exp and an arbitrary value [u] of the undefined-function
   factor.  A format is correct iff that value equals [sem] for every E, u, x -
   i.e. rational part, delay and undef factor are all preserved.

   How the delay/undef factors are re-attached by each method is NOT written
   here: it is the [attach] record, which tools/tr_ratfun.py regenerates from
   the source text of lcapy/ratfun.py on every run (Gen/RatfunAttach.v).  The
   lemmas below say: if the re-attachment is  exp(-(x*delay)) * undef  ([att_ok])
   the format preserves the value.  The per-method theorems
   [fmt_preserves_<m>] instantiate them with the generated records.

   Oracles (sympy): roots, residues, cancel.  Their answers enter as data that a
   verified checker of PolyQ.v accepts ([roots_cert], [pf_check]) or through a
   model whose contract is proved ([pcancel_sound]). *)
Require Import LT.FieldSec LT.PolyQ.
Local Open Scope F_scope.

Record attach (K : fld) := Att {
  a_exp : K -> K -> K;     (* exponent of the re-attached exp(...) as a function of (var, delay) *)
  a_guard : bool;          (* attached only "if delay != 0" *)
  a_undef : bool           (* result multiplied by undef *)
}.
Arguments Att {K}. Arguments a_exp {K}. Arguments a_guard {K}. Arguments a_undef {K}.

Section RF.
Variable K : fld.
Add Field KFrf : (fth K).
Variable E : K -> K.
Hypothesis E0 : E 0 = 1.
Notation poly := (list K).

Definition att_ok (att : attach K) : Prop :=
  (forall x d, a_exp att x d = - (x * d)) /\ a_undef att = true.

(* the value represented by (B, A, delay, undef)  -- Ratfun.__init__ *)
Definition sem (B A : poly) (d u x : K) : K := peval B x / peval A x * E (- (x * d)) * u.

Definition dfac (att : attach K) (x d : K) : K :=
  if a_guard att then (if feqb d 0 then 1 else E (a_exp att x d)) else E (a_exp att x d).
Definition ufac (att : attach K) (u : K) : K := if a_undef att then u else 1.
Lemma dfac_ok att x d : att_ok att -> dfac att x d = E (- (x * d)).
Proof. intros [H _]. unfold dfac. rewrite H.
  destruct (a_guard att); [|reflexivity]. destruct (feqb d 0) eqn:Ed; [|reflexivity].
  apply feqb_eq in Ed. subst d. replace (- (x * 0)) with (0 : K) by ring. symmetry. exact E0. Qed.
Lemma ufac_ok att u : att_ok att -> ufac att u = u.
Proof. intros [_ H]. unfold ufac. rewrite H. reflexivity. Qed.

(* ---- canonical ------------------------------------------------------------ *)
(* factor_const=True:  K = cancel(LC(B)/LC(A)) [* exp]; monic(B)/monic(A); * K; * undef *)
Definition fmt_canonical_fc att (B A : poly) (d u x : K) : K :=
  (plc B / plc A * dfac att x d) * (peval (pmonic B) x / peval (pmonic A) x) * ufac att u.
(* factor_const=False: (B/LC(A)) / monic(A) [* exp] * undef *)
Definition fmt_canonical att (B A : poly) (d u x : K) : K :=
  (peval B x / plc A) / peval (pmonic A) x * dfac att x d * ufac att u.
Lemma fmt_canonical_fc_sound att B A d u x : att_ok att ->
  pzerob A = false -> pzerob B = false -> peval A x <> 0 ->
  fmt_canonical_fc att B A d u x = sem B A d u x.
Proof. intros Ha HA HB Hx. unfold fmt_canonical_fc, sem.
  rewrite (dfac_ok _ _ _ Ha), (ufac_ok _ _ Ha), !peval_pmonic by assumption.
  pose proof (plc_nz _ _ HA). pose proof (plc_nz _ _ HB). field. repeat split; assumption. Qed.
Lemma fmt_canonical_sound att B A d u x : att_ok att ->
  pzerob A = false -> peval A x <> 0 ->
  fmt_canonical att B A d u x = sem B A d u x.
Proof. intros Ha HA Hx. unfold fmt_canonical, sem.
  rewrite (dfac_ok _ _ _ Ha), (ufac_ok _ _ Ha), !peval_pmonic by assumption.
  pose proof (plc_nz _ _ HA). field. repeat split; assumption. Qed.

(* ---- general:  cancel(B/A) [* exp] * undef ----------------------------------- *)
Definition fmt_general att (B A : poly) (d u x : K) : K :=
  let f := pcancel B A in peval (fst f) x / peval (snd f) x * dfac att x d * ufac att u.
Lemma fmt_general_sound att B A d u x : att_ok att -> peval A x <> 0 ->
  fmt_general att B A d u x = sem B A d u x.
Proof. intros Ha Hx. unfold fmt_general, sem. cbv zeta.
  destruct (pcancel_sound _ B A x Hx) as [_ Hc]. rewrite Hc, (dfac_ok _ _ _ Ha), (ufac_ok _ _ Ha). reflexivity. Qed.

(* ---- standard / mixedfrac:  Q + cancel(M/A),  (Q, M) = div(B, A) -------------- *)
Definition fmt_standard att (B A : poly) (d u x : K) : K :=
  let (Q, M) := pdiv B A in
  let f := pcancel M A in
  (peval Q x + peval (fst f) x / peval (snd f) x) * dfac att x d * ufac att u.
Lemma fmt_standard_sound att B A d u x : att_ok att -> pzerob A = false -> peval A x <> 0 ->
  fmt_standard att B A d u x = sem B A d u x.
Proof. intros Ha HA Hx. unfold fmt_standard, sem.
  destruct (pdiv_spec _ B A HA) as [He _]. unfold pquo in He.
  destruct (pdiv B A) as [Q M]. cbn [fst snd] in He. cbv zeta.
  destruct (pcancel_sound _ M A x Hx) as [_ Hc]. rewrite Hc, (dfac_ok _ _ _ Ha), (ufac_ok _ _ Ha), (He x).
  field. exact Hx. Qed.

(* ---- expandcanonical:  Σ_m c_m x^m / A ------------------------------------------ *)
Fixpoint expand_terms (p : poly) (m : nat) (x ax : K) : K :=
  match p with [] => 0 | c :: t => c * fpow x m / ax + expand_terms t (S m) x ax end.
Lemma expand_terms_val p m x ax : ax <> 0 -> expand_terms p m x ax = fpow x m * peval p x / ax.
Proof. intros H. revert m. induction p as [|c t IH]; intros m; cbn [expand_terms peval]; [field; exact H|].
  rewrite IH. cbn [fpow]. field. exact H. Qed.
Definition fmt_expandcanonical att (B A : poly) (d u x : K) : K :=
  expand_terms B 0 x (peval A x) * dfac att x d * ufac att u.
Lemma fmt_expandcanonical_sound att B A d u x : att_ok att -> peval A x <> 0 ->
  fmt_expandcanonical att B A d u x = sem B A d u x.
Proof. intros Ha Hx. unfold fmt_expandcanonical, sem.
  rewrite expand_terms_val by exact Hx. rewrite (dfac_ok _ _ _ Ha), (ufac_ok _ _ Ha). cbn [fpow]. field. exact Hx. Qed.

(* ---- timeconst:  (B/EC(A)) / (A/EC(A)) * exp * undef ; EC = last non-zero
   coefficient of sympy's all_coeffs() = lowest-order non-zero coefficient ------- *)
Fixpoint pec (p : poly) : K := match p with [] => 0 | a :: t => if feqb a 0 then pec t else a end.
Lemma pec_nz p : pzerob p = false -> pec p <> 0.
Proof. induction p as [|a t IH]; cbn [pzerob forallb pec]; [discriminate|].
  destruct (feqb a 0) eqn:Ea; cbn [andb]; [exact IH | intros _; apply feqb_neq; exact Ea]. Qed.
Definition fmt_timeconst att (B A : poly) (d u x : K) : K :=
  (peval B x / pec A) / (peval A x / pec A) * dfac att x d * ufac att u.
Lemma fmt_timeconst_sound att B A d u x : att_ok att -> pzerob A = false -> peval A x <> 0 ->
  fmt_timeconst att B A d u x = sem B A d u x.
Proof. intros Ha HA Hx. unfold fmt_timeconst, sem. rewrite (dfac_ok _ _ _ Ha), (ufac_ok _ _ Ha).
  pose proof (pec_nz _ HA). field. split; assumption. Qed.

(* ---- ZPK / factored:  K * Π(x - z)^n / Π(x - p)^n * undef, K = LC(B)/LC(A) [* exp]
   zeros / poles come from sympy.roots (oracle) ------------------------------------ *)
Definition fmt_ZPK att (zs ps : list (K * nat)) (B A : poly) (d u x : K) : K :=
  (plc B / plc A * dfac att x d) * (linprod_val zs x / linprod_val ps x) * ufac att u.
Lemma fmt_ZPK_sound att zs ps B A d u x : att_ok att ->
  roots_cert B zs = true -> roots_cert A ps = true -> pzerob A = false -> peval A x <> 0 ->
  fmt_ZPK att zs ps B A d u x = sem B A d u x.
Proof. intros Ha Hz Hp HA Hx. unfold fmt_ZPK, sem. rewrite (dfac_ok _ _ _ Ha), (ufac_ok _ _ Ha).
  pose proof (roots_cert_sound _ _ _ Hz x) as EB. pose proof (roots_cert_sound _ _ _ Hp x) as EA.
  pose proof (plc_nz _ _ HA) as Hl.
  assert (Hq : linprod_val ps x <> 0). { intros Z. apply Hx. rewrite EA, Z. ring. }
  rewrite EB, EA. field. split; assumption. Qed.

(* combine_conjugates / pairs: conjugate roots are multiplied out into
   quadratics.  [pairs] = ((a, b), order), [singles] = (root, order); the
   grouping (lcapy.root.pair_conjugates) is correct iff it is a re-bracketing
   of the same multiset, which [pairing_ok] decides by an exact polynomial
   identity. *)
Fixpoint pairprod_val (l : list (K * K * nat)) (x : K) : K :=
  match l with [] => 1 | (a, b, n) :: t => fpow (x * x - a * x - b * x + a * b) n * pairprod_val t x end.
Fixpoint pairprod (l : list (K * K * nat)) : poly :=
  match l with [] => [1] | (a, b, n) :: t => pmul (ppow [a * b; - a - b; 1] n) (pairprod t) end.
Lemma peval_pairprod l x : peval (pairprod l) x = pairprod_val l x.
Proof. induction l as [|[[a b] n] t IH]; cbn [pairprod pairprod_val]; [cbn; ring|].
  rewrite peval_pmul, peval_ppow, IH. f_equal. f_equal. cbn. ring. Qed.
Definition pairing_ok (orig : list (K * nat)) (pairs : list (K * K * nat)) (singles : list (K * nat)) : bool :=
  peqb (pmul (pairprod pairs) (plinprod singles)) (plinprod orig).
Lemma pairing_ok_sound orig pairs singles x : pairing_ok orig pairs singles = true ->
  pairprod_val pairs x * linprod_val singles x = linprod_val orig x.
Proof. intros H. pose proof (peqb_sound _ _ _ H x) as Ev.
  rewrite peval_pmul, peval_pairprod, !peval_plinprod in Ev. exact Ev. Qed.
Definition fmt_ZPK_cc att (zp : list (K * K * nat)) (zs1 : list (K * nat)) (pp : list (K * K * nat)) (ps1 : list (K * nat))
    (B A : poly) (d u x : K) : K :=
  (plc B / plc A * dfac att x d) * (pairprod_val zp x / pairprod_val pp x)
  * (linprod_val zs1 x / linprod_val ps1 x * ufac att u).
Lemma fmt_ZPK_cc_sound att zs ps zp zs1 pp ps1 B A d u x : att_ok att ->
  roots_cert B zs = true -> roots_cert A ps = true ->
  pairing_ok zs zp zs1 = true -> pairing_ok ps pp ps1 = true ->
  pzerob A = false -> peval A x <> 0 ->
  fmt_ZPK_cc att zp zs1 pp ps1 B A d u x = sem B A d u x.
Proof. intros Ha Hz Hp Hzo Hpo HA Hx. rewrite <- (fmt_ZPK_sound att zs ps B A d u x Ha Hz Hp HA Hx).
  unfold fmt_ZPK_cc, fmt_ZPK.
  pose proof (pairing_ok_sound _ _ _ x Hzo) as Ez. pose proof (pairing_ok_sound _ _ _ x Hpo) as Ep.
  pose proof (roots_cert_sound _ _ _ Hp x) as EA.
  assert (Hq : linprod_val ps x <> 0). { intros Z. apply Hx. rewrite EA, Z. ring. }
  rewrite <- Ez, <- Ep. rewrite <- Ep in Hq.
  pose proof (mul_nz_l _ _ _ Hq). pose proof (mul_nz_r _ _ _ Hq).
  pose proof (plc_nz _ _ HA). field. repeat split; assumption. Qed.

(* ---- partial fractions:  (Q + Σ r/(x-p)^o) * exp * undef ; (Q,R,P,O) from as_QRPO
   (division is modelled, residues are an oracle checked by pf_check) ---------------- *)
Definition fmt_partfrac att (Q : poly) (ts : list (pfterm K)) (d u x : K) : K :=
  (peval Q x + pf_val ts x) * dfac att x d * ufac att u.
Lemma fmt_partfrac_sound att Q ts B A d u x : att_ok att ->
  pf_check B A Q ts = true -> peval A x <> 0 ->
  fmt_partfrac att Q ts d u x = sem B A d u x.
Proof. intros Ha Hc Hx. unfold fmt_partfrac, sem.
  rewrite (pf_check_sound _ _ _ _ _ Hc x Hx), (dfac_ok _ _ _ Ha), (ufac_ok _ _ Ha). reflexivity. Qed.

(* as_QRF(combine_conjugates=True): an order-1 entry m is combined with the
   first LATER entry n whose pole is the conjugate, giving
   ((x - pc) r + (x - p) rc) / ((x - p)(x - pc)); [oguard] = the partner search
   also requires O[n] == 1 (extracted from the source by the translator).
   Entries are (Some r | None (consumed), p, o).  Result: list of
   (numerator polynomial, denominator polynomial) and a flag "every partner
   used had order 1". *)
Definition qentry := (option K * K * nat)%type.
Definition pair_term (r rc p pc : K) : poly * poly :=
  (padd (pscale r (plin pc)) (pscale rc (plin p)), pmul (plin p) (plin pc)).
Lemma pair_term_val r rc p pc x : x - p <> 0 -> x - pc <> 0 ->
  peval (fst (pair_term r rc p pc)) x / peval (snd (pair_term r rc p pc)) x = r / (x - p) + rc / (x - pc).
Proof. intros H1 H2. unfold pair_term. cbn [fst snd].
  rewrite peval_padd, !peval_pscale, peval_pmul, !peval_plin. field. split; assumption. Qed.
Arguments pair_term : simpl never.
Fixpoint find_partner (isconj : K -> K -> bool) (oguard : bool) (p : K) (l : list qentry)
  : option (option K * K * nat * list qentry) :=
  match l with
  | [] => None
  | (r, pn, on) :: rest =>
      if isconj p pn && (negb oguard || (on =? 1)%nat) then Some (r, pn, on, (None, pn, on) :: rest)
      else match find_partner isconj oguard p rest with
           | Some (r', p', o', rest') => Some (r', p', o', (r, pn, on) :: rest')
           | None => None
           end
  end.
Fixpoint qrf_cc (fuel : nat) (isconj : K -> K -> bool) (oguard : bool) (l : list qentry)
  : option (list (poly * poly) * bool) :=
  match fuel with
  | O => match l with [] => Some ([], true) | _ => None end
  | S f =>
    match l with
    | [] => Some ([], true)
    | (None, _, _) :: rest => qrf_cc f isconj oguard rest
    | (Some r, p, o) :: rest =>
        let single := ([r], plinpow p o) in
        if (o =? 1)%nat then
          match find_partner isconj oguard p rest with
          | Some (Some rc, pc, oc, rest') =>
              match qrf_cc f isconj oguard rest' with
              | Some (ts, ok) =>
                  Some (pair_term r rc p pc :: ts,
                        ok && (oc =? 1)%nat)
              | None => None
              end
          | Some (None, _, _, _) => None        (* would raise TypeError in Python *)
          | None => match qrf_cc f isconj oguard rest with
                    | Some (ts, ok) => Some (single :: ts, ok) | None => None end
          end
        else match qrf_cc f isconj oguard rest with
             | Some (ts, ok) => Some (single :: ts, ok) | None => None end
    end
  end.
Fixpoint qentries_val (l : list qentry) (x : K) : K :=
  match l with
  | [] => 0
  | (Some r, p, o) :: rest => r / fpow (x - p) o + qentries_val rest x
  | (None, _, _) :: rest => qentries_val rest x
  end.
Fixpoint qterms_val (ts : list (poly * poly)) (x : K) : K :=
  match ts with [] => 0 | t :: rest => peval (fst t) x / peval (snd t) x + qterms_val rest x end.
Fixpoint qpoles_nz (l : list qentry) (x : K) : Prop :=
  match l with [] => True | (_, p, _) :: rest => x - p <> 0 /\ qpoles_nz rest x end.

Lemma find_partner_spec isconj og p l r pc oc l' x :
  find_partner isconj og p l = Some (r, pc, oc, l') -> qpoles_nz l x ->
  length l' = length l /\ qpoles_nz l' x /\ x - pc <> 0 /\ (og = true -> oc = 1%nat) /\
  qentries_val l x = (match r with Some rc => rc / fpow (x - pc) oc | None => 0 end) + qentries_val l' x.
Proof. revert l' r pc oc. induction l as [|[[rn pn] on] rest IH]; intros l' r pc oc H Hn; cbn [find_partner] in H; [discriminate|].
  destruct Hn as [Hn1 Hn2].
  destruct (isconj p pn && (negb og || (on =? 1)%nat)) eqn:C.
  - inversion H; subst. clear H. repeat split; try assumption.
    + intros ->. cbn [negb orb] in C. apply andb_true_iff in C. destruct C as [_ C]. apply Nat.eqb_eq in C. exact C.
    + cbn [qentries_val]. destruct r; ring.
  - destruct (find_partner isconj og p rest) as [[[[r' p'] o'] rest']|] eqn:F; [|discriminate].
    inversion H; subst. clear H. destruct (IH _ _ _ _ eq_refl Hn2) as [L [N [P [G V]]]].
    repeat split; try assumption.
    + cbn [length]. rewrite L. reflexivity.
    + cbn [qentries_val]. destruct rn; rewrite V; ring.
Qed.
Lemma qrf_cc_sound fuel isconj og l ts x : (length l <= fuel)%nat ->
  qrf_cc fuel isconj og l = Some (ts, true) -> qpoles_nz l x ->
  qterms_val ts x = qentries_val l x.
Proof. revert l ts. induction fuel as [|f IH]; intros l ts Hf H Hn.
  - destruct l; [|cbn in Hf; lia]. cbn in H. inversion H; subst. reflexivity.
  - destruct l as [|[[[r|] p] o] rest]; cbn [qrf_cc] in H.
    + inversion H; subst. reflexivity.
    + cbn [length] in Hf. destruct Hn as [Hp Hn]. cbn [qentries_val].
      assert (Hsingle : forall ts', qrf_cc f isconj og rest = Some (ts', true) ->
                qterms_val (([r], plinpow p o) :: ts') x = r / fpow (x - p) o + qentries_val rest x).
      { intros ts' H'. cbn [qterms_val fst snd]. rewrite (IH rest ts' ltac:(lia) H' Hn), peval_plinpow. cbn [peval]. field.
        apply fpow_nz, Hp. }
      destruct (o =? 1)%nat eqn:Eo.
      * destruct (find_partner isconj og p rest) as [[[[[rc|] pc] oc] rest']|] eqn:F.
        -- destruct (find_partner_spec _ _ _ _ _ _ _ _ x F Hn) as [L [N [P [G V]]]].
           destruct (qrf_cc f isconj og rest') as [[ts' ok]|] eqn:R; [|discriminate].
           injection H as Hts Hok. subst ts. apply andb_true_iff in Hok. destruct Hok as [-> Hoc].
           apply Nat.eqb_eq in Hoc. apply Nat.eqb_eq in Eo. subst o oc.
           cbn [qterms_val]. rewrite (IH rest' ts' ltac:(lia) R N), V.
           rewrite (pair_term_val r rc p pc x Hp P). cbn [fpow]. field. split; assumption.
        -- discriminate.
        -- destruct (qrf_cc f isconj og rest) as [[ts' ok]|] eqn:R; [|discriminate].
           inversion H; subst. apply Hsingle. reflexivity.
      * destruct (qrf_cc f isconj og rest) as [[ts' ok]|] eqn:R; [|discriminate].
        inversion H; subst. apply Hsingle. reflexivity.
    + cbn [length] in Hf. destruct Hn as [_ Hn]. cbn [qentries_val]. apply (IH rest ts ltac:(lia) H Hn).
Qed.
(* with the order guard every pairing is between order-1 entries *)
Lemma qrf_cc_guarded fuel isconj l ts ok x : qpoles_nz l x ->
  qrf_cc fuel isconj true l = Some (ts, ok) -> ok = true.
Proof. revert l ts ok. induction fuel as [|f IH]; intros l ts ok Hn H.
  - destruct l; cbn in H; [inversion H; reflexivity | discriminate].
  - destruct l as [|[[[r|] p] o] rest]; cbn [qrf_cc] in H.
    + inversion H; reflexivity.
    + destruct Hn as [Hp Hn]. destruct (o =? 1)%nat.
      * destruct (find_partner isconj true p rest) as [[[[[rc|] pc] oc] rest']|] eqn:F.
        -- destruct (find_partner_spec _ _ _ _ _ _ _ _ x F Hn) as [L [N [P [G V]]]].
           destruct (qrf_cc f isconj true rest') as [[ts' ok']|] eqn:R; [|discriminate].
           inversion H; subst. rewrite (IH _ _ _ N R), (G eq_refl). reflexivity.
        -- discriminate.
        -- destruct (qrf_cc f isconj true rest) as [[ts' ok']|] eqn:R; [|discriminate].
           inversion H; subst. apply (IH _ _ _ Hn R).
      * destruct (qrf_cc f isconj true rest) as [[ts' ok']|] eqn:R; [|discriminate].
        inversion H; subst. apply (IH _ _ _ Hn R).
    + destruct Hn as [_ Hn]. apply (IH _ _ _ Hn H).
Qed.
Definition qentries_of (ts : list (pfterm K)) : list qentry := map (fun t => match t with (r, p, o) => (Some r, p, o) end) ts.
Lemma qentries_of_val ts x : qentries_val (qentries_of ts) x = pf_val ts x.
Proof. induction ts as [|[[r p] o] t IH]; cbn; [reflexivity | rewrite <- IH; reflexivity]. Qed.
Fixpoint pf_poles_nz (ts : list (pfterm K)) (x : K) : Prop :=
  match ts with [] => True | (_, p, _) :: rest => x - p <> 0 /\ pf_poles_nz rest x end.
Lemma qentries_of_nz ts x : pf_poles_nz ts x -> qpoles_nz (qentries_of ts) x.
Proof. induction ts as [|[[r p] o] t IH]; cbn; [tauto | intros [H1 H2]; split; [exact H1 | apply IH, H2]]. Qed.
Definition fmt_partfrac_cc att (isconj : K -> K -> bool) (og : bool) (Q : poly) (ts : list (pfterm K)) (d u x : K) : option (K * bool) :=
  match qrf_cc (length ts) isconj og (qentries_of ts) with
  | Some (terms, ok) => Some ((peval Q x + qterms_val terms x) * dfac att x d * ufac att u, ok)
  | None => None
  end.
Lemma fmt_partfrac_cc_sound att isconj og Q ts B A d u x v : att_ok att ->
  pf_check B A Q ts = true -> peval A x <> 0 -> pf_poles_nz ts x ->
  fmt_partfrac_cc att isconj og Q ts d u x = Some (v, true) -> v = sem B A d u x.
Proof. intros Ha Hc Hx Hn H. unfold fmt_partfrac_cc in H.
  destruct (qrf_cc (length ts) isconj og (qentries_of ts)) as [[terms ok]|] eqn:R; [|discriminate].
  inversion H; subst. clear H.
  assert (HL : (length (qentries_of ts) <= length ts)%nat) by (unfold qentries_of; rewrite map_length; apply le_n).
  rewrite (qrf_cc_sound _ _ _ _ _ x HL R (qentries_of_nz _ _ Hn)).
  rewrite qentries_of_val. apply (fmt_partfrac_sound att Q ts B A d u x Ha Hc Hx). Qed.
Lemma fmt_partfrac_cc_guarded att isconj Q ts B A d u x v ok : att_ok att ->
  pf_check B A Q ts = true -> peval A x <> 0 -> pf_poles_nz ts x ->
  fmt_partfrac_cc att isconj true Q ts d u x = Some (v, ok) -> v = sem B A d u x.
Proof. intros Ha Hc Hx Hn H. assert (ok = true).
  { unfold fmt_partfrac_cc in H. destruct (qrf_cc (length ts) isconj true (qentries_of ts)) as [[terms ok']|] eqn:R; [|discriminate].
    inversion H; subst. apply (qrf_cc_guarded _ _ _ _ _ x (qentries_of_nz _ _ Hn) R). }
  subst ok. apply (fmt_partfrac_cc_sound att isconj true Q ts B A d u x v Ha Hc Hx Hn H). Qed.

(* ---- recippartfrac: substitute x = 1/q, expand in q, substitute back ---------
   B(1/q)/A(1/q) = q^(la-1) Brev(q) / (q^(lb-1) Arev(q))  with la = length A, lb = length B *)
Definition recip_num (B A : poly) : poly := pshift (length A - 1) (prev B).
Definition recip_den (B A : poly) : poly := pshift (length B - 1) (prev A).
Lemma recip_sound B A x : x <> 0 -> peval A x <> 0 ->
  peval (recip_den B A) (1 / x) <> 0 /\
  peval (recip_num B A) (1 / x) / peval (recip_den B A) (1 / x) = peval B x / peval A x.
Proof. intros Hx HA. unfold recip_num, recip_den. rewrite !peval_pshift.
  pose proof (peval_prev _ B x Hx) as EB. pose proof (peval_prev _ A x Hx) as EA.
  rewrite !fpow_inv by exact Hx.
  pose proof (fpow_nz _ x (length A - 1) Hx) as H1. pose proof (fpow_nz _ x (length B - 1) Hx) as H2.
  assert (HA' : peval (prev A) (1 / x) <> 0). { intros Z. apply HA. rewrite <- EA, Z. ring. }
  split.
  - apply mul_nz; [apply div_nz; [apply one_nz | exact H2] | exact HA'].
  - rewrite <- EB, <- EA. field. repeat split; assumption. Qed.
Definition fmt_recippartfrac att (Q : poly) (ts : list (pfterm K)) (d u x : K) : K :=
  (peval Q (1 / x) + pf_val ts (1 / x)) * ufac att u.
(* Lcapy refuses a delay here (exp(-T/q) is not a delay in q): d = 0 *)
Lemma fmt_recippartfrac_sound att Q ts B A u x : att_ok att ->
  pf_check (recip_num B A) (recip_den B A) Q ts = true -> x <> 0 -> peval A x <> 0 ->
  fmt_recippartfrac att Q ts 0 u x = sem B A 0 u x.
Proof. intros Ha Hc Hx HA. unfold fmt_recippartfrac, sem. destruct (recip_sound B A x Hx HA) as [Hd Hv].
  rewrite <- (pf_check_sound _ _ _ _ _ Hc (1 / x) Hd), Hv, (ufac_ok _ _ Ha).
  replace (- (x * 0)) with (0 : K) by ring. rewrite E0. ring. Qed.

(* ---- N, D ; multiply/divide top and bottom ; rationalize_denominator ------------
   all are "same value after scaling numerator and denominator by a common
   non-zero factor": observed numerator value n and denominator value dn *)
Definition nd_ok (B A : poly) (d u x n dn : K) : bool :=
  feqb (n * peval A x) (peval B x * E (- (x * d)) * u * dn).
Lemma nd_ok_sound B A d u x n dn : nd_ok B A d u x n dn = true -> dn <> 0 -> peval A x <> 0 ->
  n / dn = sem B A d u x.
Proof. intros H Hd HA. apply feqb_eq in H. unfold sem.
  transitivity (n * peval A x / (dn * peval A x)); [field; split; assumption|]. rewrite H. field. split; assumption. Qed.
Definition fmt_scale_top_bottom (n dn f : K) : K := (n * f) / (dn * f).
Lemma fmt_scale_top_bottom_sound n dn f : dn <> 0 -> f <> 0 -> fmt_scale_top_bottom n dn f = n / dn.
Proof. intros. unfold fmt_scale_top_bottom. field. split; assumption. Qed.

(* ---- as_B_A_delay_undef: decomposition of a product of factors ---------------------
   factors of sympy.factor(expr): polynomial^k (k integer), exp(c1*x + c0), undefined
   functions.  [dupd delay c1 c0] is the translated update  delay -= c[0]  (c[0] = c1, c[1] = c0). *)
Inductive factor :=
| FPow (p : poly) (neg : bool) (k : nat)       (* p^k in the numerator / denominator *)
| FExp (c1 c0 : K)                             (* exp(c1*x + c0), degree-1 exponent *)
| FUndef (uv : K).                             (* AppliedUndef, uv = its value at the point *)
Record decomp := Dec { dB : poly; dA : poly; dd : K; du : K }.
Definition dstep (dupd : K -> K -> K -> K) (s : decomp) (f : factor) : decomp :=
  match f with
  | FPow p false k => Dec (pmul (dB s) (ppow p k)) (dA s) (dd s) (du s)
  | FPow p true k => Dec (dB s) (pmul (dA s) (ppow p k)) (dd s) (du s)
  | FExp c1 c0 => Dec (if feqb c0 0 then dB s else pscale (E c0) (dB s)) (dA s) (dupd (dd s) c1 c0) (du s)
  | FUndef uv => Dec (dB s) (dA s) (dd s) (du s * uv)
  end.
Definition decompose (dupd : K -> K -> K -> K) (fs : list factor) : decomp :=
  fold_left (dstep dupd) fs (Dec [1] [1] 0 1).
Definition factor_val (f : factor) (x : K) : K :=
  match f with
  | FPow p false k => fpow (peval p x) k
  | FPow p true k => 1 / fpow (peval p x) k
  | FExp c1 c0 => E (c1 * x + c0)
  | FUndef uv => uv
  end.
Fixpoint factor_nz (fs : list factor) (x : K) : Prop :=
  match fs with [] => True | FPow p true _ :: t => peval p x <> 0 /\ factor_nz t x | _ :: t => factor_nz t x end.
Hypothesis Eadd : forall a b, E (a + b) = E a * E b.
Lemma decompose_sound dupd fs x : (forall dl c1 c0, dupd dl c1 c0 = dl - c1) -> factor_nz fs x ->
  let s := decompose dupd fs in
  peval (dA s) x <> 0 /\ sem (dB s) (dA s) (dd s) (du s) x = fold_right (fun f acc => factor_val f x * acc) 1 fs.
Proof. intros Hu. unfold decompose.
  assert (G : forall fs s, factor_nz fs x -> peval (dA s) x <> 0 ->
     peval (dA (fold_left (dstep dupd) fs s)) x <> 0 /\
     sem (dB (fold_left (dstep dupd) fs s)) (dA (fold_left (dstep dupd) fs s)) (dd (fold_left (dstep dupd) fs s)) (du (fold_left (dstep dupd) fs s)) x
     = sem (dB s) (dA s) (dd s) (du s) x * fold_right (fun f acc => factor_val f x * acc) 1 fs).
  { clear fs. induction fs as [|f t IH]; intros s Hn Hs; cbn [fold_left fold_right].
    - split; [exact Hs | ring].
    - destruct f as [p [|] k | c1 c0 | uv]; cbn [factor_nz] in Hn.
      + destruct Hn as [Hp Hn]. pose proof (fpow_nz _ _ k Hp) as Hk.
        assert (Hs' : peval (dA (dstep dupd s (FPow p true k))) x <> 0).
        { cbn [dstep dA]. rewrite peval_pmul, peval_ppow. apply mul_nz; assumption. }
        destruct (IH _ Hn Hs') as [I1 I2]. split; [exact I1|]. rewrite I2. cbn [dstep dA dB dd du factor_val].
        unfold sem. rewrite peval_pmul, peval_ppow. field. split; assumption.
      + assert (Hs' : peval (dA (dstep dupd s (FPow p false k))) x <> 0) by exact Hs.
        destruct (IH _ Hn Hs') as [I1 I2]. split; [exact I1|]. rewrite I2. cbn [dstep dA dB dd du factor_val].
        unfold sem. rewrite peval_pmul, peval_ppow. field. exact Hs.
      + assert (Hs' : peval (dA (dstep dupd s (FExp c1 c0))) x <> 0) by exact Hs.
        destruct (IH _ Hn Hs') as [I1 I2]. split; [exact I1|]. rewrite I2. cbn [dstep dA dB dd du factor_val].
        unfold sem. rewrite Hu.
        replace (- (x * (dd s - c1))) with (- (x * dd s) + c1 * x) by ring. rewrite !Eadd.
        destruct (feqb c0 0) eqn:Ec.
        * apply feqb_eq in Ec. subst c0. rewrite E0. field. exact Hs.
        * rewrite peval_pscale. field. exact Hs.
      + assert (Hs' : peval (dA (dstep dupd s (FUndef uv))) x <> 0) by exact Hs.
        destruct (IH _ Hn Hs') as [I1 I2]. split; [exact I1|]. rewrite I2. cbn [dstep dA dB dd du factor_val].
        unfold sem. field. exact Hs. }
  intros Hn. destruct (G fs (Dec [1] [1] 0 1) Hn) as [G1 G2].
  - cbn. intros Z. apply (one_nz K). rewrite <- Z. ring.
  - split; [exact G1|]. cbv zeta. rewrite G2. unfold sem. cbn [dB dA dd du peval].
    replace (- (x * 0)) with (0 : K) by ring. rewrite E0. field. intros Z. apply (one_nz K). rewrite <- Z. ring.
Qed.

(* ---- certificates for roots that are NOT in the coefficient field (irrational poles/zeros)
   The implementation reports algebraic numbers; the harness groups them by their minimal
   polynomial m over Q (computed by sympy: oracle) and the verified part is the exact
   identity  A = lc(A) * Π m_i^{n_i} : every root of an m_i is then a root of A, m_i^{n_i}
   divides A, and the multiplicities account for the whole degree. *)
Fixpoint ppowprod (l : list (poly * nat)) : poly :=
  match l with [] => [1] | (m, n) :: t => pmul (ppow m n) (ppowprod t) end.
Fixpoint ppowprod_val (l : list (poly * nat)) (x : K) : K :=
  match l with [] => 1 | (m, n) :: t => fpow (peval m x) n * ppowprod_val t x end.
Lemma peval_ppowprod l x : peval (ppowprod l) x = ppowprod_val l x.
Proof. induction l as [|[m n] t IH]; cbn [ppowprod ppowprod_val]; [cbn; ring|].
  rewrite peval_pmul, peval_ppow, IH. reflexivity. Qed.
Definition minpoly_cert (A : poly) (l : list (poly * nat)) : bool := peqb A (pscale (plc A) (ppowprod l)).
Definition minpoly_degree (l : list (poly * nat)) : nat := fold_right (fun mn acc => (snd mn * (psize (fst mn) - 1) + acc)%nat) O l.
Theorem minpoly_cert_sound A l : minpoly_cert A l = true -> forall x, peval A x = plc A * ppowprod_val l x.
Proof. intros H x. rewrite (peqb_sound _ _ _ H x), peval_pscale, peval_ppowprod. reflexivity. Qed.
Lemma ppowprod_val_split l m n : In (m, n) l -> exists C, forall x, ppowprod_val l x = peval C x * fpow (peval m x) n.
Proof. induction l as [|[m' n'] t IH]; [intros []|]. intros [Eq|H].
  - inversion Eq; subst. exists (ppowprod t). intros x. cbn [ppowprod_val]. rewrite peval_ppowprod. ring.
  - destruct (IH H) as [C HC]. exists (pmul (ppow m' n') C). intros x. cbn [ppowprod_val].
    rewrite HC, peval_pmul, peval_ppow. ring. Qed.
Theorem minpoly_cert_divides A l m n : minpoly_cert A l = true -> In (m, n) l -> pdivides (ppow m n) A.
Proof. intros H Hin. destruct (ppowprod_val_split l m n Hin) as [C HC].
  exists (pscale (plc A) C). intros x. rewrite (minpoly_cert_sound A l H x), HC, peval_pscale, peval_ppow. ring. Qed.
(* a root of one of the listed minimal polynomials (with positive multiplicity) is a root of A *)
Theorem minpoly_cert_root A l m n r : minpoly_cert A l = true -> In (m, S n) l -> peval m r = 0 -> peval A r = 0.
Proof. intros H Hin Hr. destruct (minpoly_cert_divides A l m (S n) H Hin) as [C HC].
  rewrite HC, peval_ppow, Hr. cbn [fpow]. ring. Qed.
End RF.

Arguments ppowprod {K}. Arguments ppowprod_val {K}. Arguments minpoly_cert {K}. Arguments minpoly_degree {K}.
Arguments att_ok {K}. Arguments sem {K}. Arguments dfac {K}. Arguments ufac {K}.
Arguments fmt_canonical_fc {K}. Arguments fmt_canonical {K}. Arguments fmt_general {K}. Arguments fmt_standard {K}.
Arguments fmt_expandcanonical {K}. Arguments fmt_timeconst {K}. Arguments pec {K}. Arguments fmt_ZPK {K}. Arguments fmt_ZPK_cc {K}.
Arguments pairing_ok {K}. Arguments pairprod_val {K}. Arguments fmt_partfrac {K}. Arguments fmt_partfrac_cc {K}.
Arguments qrf_cc {K}. Arguments find_partner {K}. Arguments qentries_of {K}. Arguments pf_poles_nz {K}.
Arguments recip_num {K}. Arguments recip_den {K}. Arguments fmt_recippartfrac {K}. Arguments nd_ok {K}.
Arguments fmt_scale_top_bottom {K}. Arguments FPow {K}. Arguments FExp {K}. Arguments FUndef {K}.
Arguments decompose {K}. Arguments dstep {K}. Arguments factor_val {K}. Arguments factor_nz {K}.
Arguments dB {K}. Arguments dA {K}. Arguments dd {K}. Arguments du {K}. Arguments Dec {K}.
