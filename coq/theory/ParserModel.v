(* C06 — executable model of Lcapy's netlist reader and writer.

   Written statement by statement from
     lcapy/parser.py     split, Param, Arg.assign, Args.index, Rule.extract_nodes,
                         Rule.extract_args, Rule.process, Parser.__init__/_add_param/
                         _add_rule/parse
     lcapy/netfile.py    NetfileMixin._add/_parse/_make_anon_cpt_name
     lcapy/componentnamer.py  ComponentNamer.name
     lcapy/netlist.py    _cpt_add (dict semantics only)
     lcapy/mnacpts.py    Cpt.__init__ (name/opts part), _arg_format, _netmake1, _netmake,
                         __str__, XX.__str__
     lcapy/opts.py       Opts.add, Opts.format
     lcapy/valueparser.py value_parser
   including the quirks (leaked loop variable [pos] in [keyword = (pos, keyword)],
   [None] that is not last printed as 0, default elision, 'Meg' slice).  The
   grammar itself is NOT written here: [mk_grammar] parses the text of
   grammar.py's [rules]/[params] strings, which the translator copies into
   Gen/ParserGrammarGen.v on every run.  The model is compared with the real
   code inside Coq on every run (cases_*.v). *)
From Coq Require Import List Ascii Bool Arith Lia ZArith.
From Coq Require String.
Import String.StringSyntax.
From LT Require Import ParserStr.
Import ListNotations.
Local Open Scope string_scope.
Local Open Scope list_scope.
Local Open Scope nat_scope.

(* ---------------------------------------------------------------- split -- *)
(* parser.split(s, delimiters) *)
Record sst := { parts : list str; cur : str; close : option ascii; stack : list (option ascii) }.
Definition is_nil {A} (l : list A) : bool := match l with [] => true | _ => false end.
Definition step (ds : str) (s : sst) (c : ascii) : sst :=
  if mem c ds && is_nil (stack s)
  then {| parts := (if is_nil (cur s) then parts s else parts s ++ [cur s]);
          cur := []; close := close s; stack := stack s |}
  else
    let '(cl, stk) :=
      if (match close s with Some k => aeqb c k | None => false end)
      then (match stack s with [] => (None, []) | x :: r => (x, r) end)
      else if aeqb c LBR then (Some RBR, close s :: stack s)
      else if aeqb c QUO then (Some QUO, close s :: stack s)
      else (close s, stack s) in
    {| parts := parts s; cur := cur s ++ [c]; close := cl; stack := stk |}.
Definition sinit := {| parts := []; cur := []; close := None; stack := [] |}.
(* delimiters[0] of an empty delimiter string would be an IndexError; never used so *)
Definition split (ds : str) (s : str) : option (list str) :=
  let f := fold_left (step ds) (s ++ [hd SP ds]) sinit in
  match close f with None => Some (parts f) | Some _ => None end.

(* -------------------------------------------------------------- grammar -- *)
Record param := { p_name : str; p_kind : str; p_opt : bool; p_default : option str }.
Record rule := { r_type : str; r_class : str; r_fields : list str; r_params : list param; r_pos : option nat }.
Record grammar := { g_dict : list (str * list rule); g_delims : str; g_comments : str }.

Definition K_keyword := s2l "keyword".  Definition K_node := s2l "node".  Definition K_pin := s2l "pin".
Definition K_name := s2l "name".        Definition K_value := s2l "value".
Definition is_nodekind (k : str) : bool := str_eqb k K_pin || str_eqb k K_node.
Definition is_argkind (k : str) : bool := str_eqb k K_name || str_eqb k K_value.

(* Parser._add_param; None = the Python code would raise (IndexError) *)
Definition add_param (pd : list (str * str)) (line : str) : option (list (str * str)) :=
  if is_nil line then Some pd else
  match split_on COLON line with
  | name :: f1 :: _ =>
      match split_first SEMI f1 with
      | (base, Some _) => Some (assoc_set name (strip base) pd)
      | _ => None
      end
  | _ => None
  end.
Fixpoint add_params (pd : list (str * str)) (lines : list str) : option (list (str * str)) :=
  match lines with
  | [] => Some pd
  | l :: r => match add_param pd l with Some pd' => add_params pd' r | None => None end
  end.

(* Param.__init__ *)
Definition mk_param (pd : list (str * str)) (ps : str) : option param :=
  match ps with
  | [] => None
  | a :: _ =>
      let opt := aeqb a LSQ in
      let ps' := if opt then inner ps else ps in
      match split_on EQ ps' with
      | name :: rest =>
          match assoc_get name pd with
          | Some base => Some {| p_name := name; p_kind := base; p_opt := opt;
                                 p_default := match rest with d :: _ => Some d | [] => None end |}
          | None => None
          end
      | [] => None
      end
  end.
Fixpoint mk_params (pd : list (str * str)) (l : list str) : option (list param) :=
  match l with
  | [] => Some []
  | x :: r => match mk_param pd x, mk_params pd r with
              | Some p, Some ps => Some (p :: ps) | _, _ => None end
  end.
Fixpoint first_kw (ps : list param) (m : nat) : option nat :=
  match ps with
  | [] => None
  | p :: r => if str_eqb (p_kind p) K_keyword then Some m else first_kw r (S m)
  end.
Fixpoint dict_append {A} (k : str) (v : A) (d : list (str * list A)) : list (str * list A) :=
  match d with
  | [] => [(k, [v])]
  | (k', vs) :: r => if str_eqb k k' then (k', vs ++ [v]) :: r else (k', vs) :: dict_append k v r
  end.
(* Parser._add_rule *)
Definition add_rule (pd : list (str * str)) (rd : list (str * list rule)) (line : str) : option (list (str * list rule)) :=
  if is_nil line then Some rd else
  match split_on COLON line with
  | cls :: f1 :: _ =>
      match split_first SEMI f1 with
      | (body, Some _) =>
          match split_on SP (strip body) with
          | f0 :: ps =>
              match mk_params pd ps with
              | Some params =>
                  let ty := drop_last 4 f0 in
                  Some (dict_append ty {| r_type := ty; r_class := cls; r_fields := f0 :: ps;
                                          r_params := params; r_pos := first_kw params 0 |} rd)
              | None => None
              end
          | [] => None
          end
      | _ => None
      end
  | _ => None
  end.
Fixpoint add_rules pd rd (lines : list str) : option (list (str * list rule)) :=
  match lines with
  | [] => Some rd
  | l :: r => match add_rule pd rd l with Some rd' => add_rules pd rd' r | None => None end
  end.
(* Parser.__init__ *)
Definition mk_grammar (rules params delims comments : str) : option grammar :=
  match add_params [] (split_on NL params) with
  | Some pd => match add_rules pd [] (split_on NL rules) with
               | Some rd => Some {| g_dict := rd; g_delims := delims; g_comments := comments |}
               | None => None
               end
  | None => None
  end.

(* cpt_pattern = "(T1|T2|...)([#_\w'?]+)?" with the types sorted longest first:
   re.match picks the longest type that is a prefix, then the maximal id run *)
Definition is_alnum (a : ascii) : bool :=
  let n := code a in ((48 <=? n) && (n <=? 57)) || ((65 <=? n) && (n <=? 90)) || ((97 <=? n) && (n <=? 122)).
Definition is_idchar (a : ascii) : bool :=
  is_alnum a || aeqb a (ch 95) || aeqb a (ch 35) || aeqb a (ch 39) || aeqb a QM.
Fixpoint take_while (f : ascii -> bool) (s : str) : str :=
  match s with a :: r => if f a then a :: take_while f r else [] | [] => [] end.
Fixpoint best_type (types : list str) (s : str) (best : option str) : option str :=
  match types with
  | [] => best
  | t :: r =>
      let better := match best with Some b => length b <? length t | None => true end in
      best_type r s (if starts_with t s && better then Some t else best)
  end.
Definition match_type (g : grammar) (relname : str) : option (str * str) :=
  match best_type (map fst (g_dict g)) relname None with
  | Some t => Some (t, take_while is_idchar (skipn (length t) relname))
  | None => None
  end.

(* ---------------------------------------------------------------- parse -- *)
Inductive err := EUnbalanced | EUnknownCpt | ETooMany | EMissingNode | EMissingArg
               | EAfterNamed | EUnknownParam | EAssigned | EIndex | EOptsBraces | EInclude | EEmptyNs | EUnknownKw.
Inductive res (A : Type) := Ok (a : A) | Err (e : err).
Arguments Ok {A}. Arguments Err {A}.
Definition bind {A B} (x : res A) (f : A -> res B) : res B :=
  match x with Ok a => f a | Err e => Err e end.
Notation "'do' x <- a ; b" := (bind a (fun x => b)) (at level 200, x pattern, a at level 100, b at level 200).

Definition err_eqb (a b : err) : bool :=
  match a, b with
  | EUnbalanced, EUnbalanced | EUnknownCpt, EUnknownCpt | ETooMany, ETooMany
  | EMissingNode, EMissingNode | EMissingArg, EMissingArg | EAfterNamed, EAfterNamed
  | EUnknownParam, EUnknownParam | EAssigned, EAssigned | EIndex, EIndex
  | EOptsBraces, EOptsBraces | EInclude, EInclude | EEmptyNs, EEmptyNs | EUnknownKw, EUnknownKw => true
  | _, _ => false
  end.

(* Rule.extract_nodes (namespace = '' for Circuit.add; kept as a parameter) *)
Fixpoint extract_nodes (ps : list param) (fields : list str) (m : nat) (name ns : str) : res (list str) :=
  match ps with
  | [] => Ok []
  | p :: r =>
      if is_nodekind (p_kind p) then
        match nth_error fields m with
        | None => Err EMissingNode
        | Some f =>
            let f' := match f with a :: _ => if aeqb a DOT then name ++ f else ns ++ f | [] => ns ++ f end in
            do rest <- extract_nodes r fields (S m) name ns; Ok (f' :: rest)
        end
      else extract_nodes r fields (S m) name ns
  end.

(* Arg: (parameter name, value, assigned) *)
Record arg := { a_name : str; a_value : option str; a_assigned : bool }.
(* first loop of Rule.extract_args: returns (args, m2) *)
Fixpoint init_args (ps : list param) (nf : nat) (m m2 : nat) (dflt : str) : res (list arg * nat) :=
  match ps with
  | [] => Ok ([], m2)
  | p :: r =>
      if is_argkind (p_kind p) then
        if (nf <=? m) && negb (p_opt p) then Err EMissingArg else
        let d := match p_default p with
                 | Some d => if str_eqb d K_name then Some dflt else Some d
                 | None => None end in
        do x <- init_args r nf (S m) m2 dflt;
        Ok ({| a_name := p_name p; a_value := d; a_assigned := false |} :: fst x, snd x)
      else init_args r nf (S m) (S m) dflt
  end.
(* Arg.assign *)
Definition strip_value (v : str) : str :=
  match v with
  | a :: _ => if aeqb a LBR || aeqb a QUO then inner v else v
  | [] => v     (* value[0] on '' would be an IndexError; fields are never empty *)
  end.
Fixpoint assign_at (args : list arg) (m : nat) (v : str) : res (list arg) :=
  match args, m with
  | [], _ => Err EIndex
  | a :: r, O => if a_assigned a then Err EAssigned
                 else Ok ({| a_name := a_name a; a_value := Some (strip_value v); a_assigned := true |} :: r)
  | a :: r, S m' => do r' <- assign_at r m' v; Ok (a :: r')
  end.
(* Args.index *)
Fixpoint args_index (args : list arg) (name : str) (m : nat) : option nat :=
  match args with
  | [] => None
  | a :: r => if str_eqb (lower (a_name a)) (lower name) then Some m else args_index r name (S m)
  end.
Definition split_eq (f : str) : res (list str) :=
  match split [EQ] f with Some ps => Ok ps | None => Err EUnbalanced end.
(* "Handle unnamed params": returns the args and the fields not consumed *)
Fixpoint unnamed (args : list arg) (fields : list str) (m : nat) : res (list arg * list str) :=
  match fields with
  | [] => Ok (args, [])
  | f :: r =>
      do ps <- split_eq f;
      if 1 <? length ps then Ok (args, fields)
      else do args' <- assign_at args m f; unnamed args' r (S m)
  end.
(* "Handle named params" *)
Fixpoint named (args : list arg) (fields : list str) : res (list arg) :=
  match fields with
  | [] => Ok args
  | f :: r =>
      do ps <- split_eq f;
      match ps with
      | k :: v :: _ =>
          match args_index args k 0 with
          | None => Err EUnknownParam
          | Some i => do args' <- assign_at args i v; named args' r
          end
      | _ => Err EAfterNamed
      end
  end.
Definition extract_args (ps : list param) (fields : list str) (dflt : str) : res (list (option str)) :=
  do x <- init_args ps (length fields) 0 0 dflt;
  do y <- unnamed (fst x) (skipn (snd x) fields) 0;
  do args <- named (fst y) (snd y);
  Ok (map a_value args).
(* Rule.process *)
Definition process (r : rule) (fields : list str) (name ns dflt : str) : res (list str * list (option str)) :=
  if length (r_params r) <? length fields then Err ETooMany else
  do nodes <- extract_nodes (r_params r) fields 0 name ns;
  do args <- extract_args (r_params r) fields dflt;
  Ok (nodes, args).

(* the rule-selection loop of Parser.parse; [leak] is the value the Python loop
   variable [pos] has when the loop ends *)
Fixpoint select (rules : list rule) (fields : list str) (dflt : rule) (leak : option nat)
  : rule * str * option nat :=
  match rules with
  | [] => (dflt, [], leak)
  | r1 :: rest =>
      match r_pos r1 with
      | None => select rest fields dflt None
      | Some p =>
          match nth_error fields p, nth_error (r_params r1) p with
          | Some f, Some prm =>
              if str_eqb (lower f) (lower (p_name prm)) then (r1, p_name prm, Some p)
              else select rest fields dflt (Some p)
          | _, _ => select rest fields dflt (Some p)
          end
      end
  end.

(* ----------------------------------------------------------------- opts -- *)
Inductive oval := OStr (s : str) | OBool (b : bool) | OList (l : list oval).
Definition opts := list (str * oval).

Record ost := { o_parts : list str; o_cur : str; o_lvl : Z }.
Definition ostep (s : ost) (c : ascii) : ost :=
  if aeqb c COMMA && (o_lvl s =? 0)%Z
  then {| o_parts := o_parts s ++ [o_cur s]; o_cur := []; o_lvl := o_lvl s |}
  else {| o_parts := o_parts s; o_cur := o_cur s ++ [c];
          o_lvl := if aeqb c LBR then (o_lvl s + 1)%Z else if aeqb c RBR then (o_lvl s - 1)%Z else o_lvl s |}.
Definition osplit (s : str) : option (list str) :=
  let f := fold_left ostep (s ++ [COMMA]) {| o_parts := []; o_cur := []; o_lvl := 0 |} in
  if (o_lvl f =? 0)%Z then Some (o_parts f) else None.
Definition S_true := s2l "true".   Definition S_True := s2l "True".
Definition S_false := s2l "false". Definition S_False := s2l "False".
Definition S_def := s2l "def".
Definition oarg (a : str) : oval :=
  if str_eqb a S_true || str_eqb a S_True then OBool true
  else if str_eqb a S_false || str_eqb a S_False then OBool false else OStr a.
Definition opts_add1 (o : opts) (part : str) : opts :=
  let part := strip part in
  if is_nil part then o else
  let '(k, rest) := split_first EQ part in
  let key := strip k in
  let a := oarg (match rest with Some r => strip r | None => [] end) in
  if str_eqb key S_def then
    match assoc_get key o with
    | Some (OList l) => assoc_set key (OList (l ++ [a])) o
    | _ => assoc_set key (OList [a]) o
    end
  else assoc_set key a o.
(* Opts.add *)
Definition opts_add (o : opts) (s : str) : res opts :=
  if is_nil s then Ok o else
  match osplit s with
  | Some ps => Ok (fold_left opts_add1 ps o)
  | None => Err EOptsBraces
  end.

(* Python repr of an ASCII str *)
Definition hexd (n : nat) : ascii := if n <? 10 then ch (48 + n) else ch (87 + n).
Definition BSL := ch 92.  Definition APO := ch 39.
Definition repr_char (q a : ascii) : str :=
  let n := code a in
  if aeqb a BSL then [BSL; BSL]
  else if aeqb a q then [BSL; a]
  else if n =? 10 then [BSL; ch 110] else if n =? 13 then [BSL; ch 114] else if n =? 9 then [BSL; ch 116]
  else if (n <? 32) || (n =? 127) then [BSL; ch 120; hexd (n / 16); hexd (n mod 16)]
  else [a].
Definition repr_str (s : str) : str :=
  let q := if mem APO s && negb (mem QUO s) then QUO else APO in
  q :: flat_map (repr_char q) s ++ [q].
Fixpoint oval_str (top : bool) (v : oval) : str :=
  match v with
  | OStr s => if top then s else repr_str s
  | OBool true => S_True
  | OBool false => S_False
  | OList l => ch 91 :: join (s2l ", ") (map (oval_str false) l) ++ [ch 93]
  end.
(* Opts.format *)
(* fmt(key, val): a list (the def option) gives one key=value per element *)
Fixpoint opt_fmt_v (k : str) (v : oval) : str :=
  match v with
  | OStr [] => k
  | OList l => join (s2l ", ") (map (opt_fmt_v k) l)
  | v => k ++ [EQ] ++ oval_str true v
  end.
Definition opt_fmt (kv : str * oval) : str := opt_fmt_v (fst kv) (snd kv).
Definition opts_format (o : opts) : str := join (s2l ", ") (map opt_fmt o).

(* --------------------------------------------------------------- circuit -- *)
Record cpt := { c_class : str; c_name : str; c_nodes : list str; c_args : list (option str);
                c_kwpos : option nat; c_kw : str; c_opts : opts; c_string : str }.
Record cstate := { elements : list (str * cpt); gen_names : list str }.
Definition st0 := {| elements := []; gen_names := [] |}.

(* ComponentNamer.name; the loop ends within |names|+|gen|+1 steps *)
Fixpoint namer_loop (fuel m : nat) (prefix : str) (taken : list str) : str :=
  let name := prefix ++ nat_str m in
  match fuel with
  | O => name
  | S f => if str_in name taken then namer_loop f (S m) prefix taken else name
  end.
Definition make_anon (st : cstate) (cpt_type : str) : str * cstate :=
  let taken := map fst (elements st) ++ gen_names st in
  let name := namer_loop (length taken) 1 (cpt_type ++ s2l "anon") taken in
  (name, {| elements := elements st; gen_names := gen_names st ++ [name] |}).

Definition S_XX := s2l "XX".
Definition anon_types := [s2l "A"; s2l "W"; s2l "O"; s2l "P"].

(* Parser.parse after the line has been split into fields: name, rule selection,
   anonymous naming, Rule.process, cpts.make and the name/opts part of Cpt.__init__ *)
Definition parse_cpt (g : grammar) (st : cstate) (ns net name : str) (fields : list str) (rest : option str)
  : res (cpt * cstate) :=
  let nparts := split_on DOT name in
  (* `if '' in parts[:-1]: raise ValueError('Empty namespace ...')` *)
  if existsb is_nil (init_strs nparts) then Err EEmptyNs else
  let relname := last_str nparts in
  let cur_ns := if 1 <? length nparts then join [DOT] (init_strs nparts) ++ [DOT] else [] in
  match match_type g relname with
  | None => Err EUnknownCpt
  | Some (cpt_type, cpt_id) =>
      match assoc_get cpt_type (g_dict g) with
      | Some (r0 :: rs) =>
          let '(r, kw, leak) := select (r0 :: rs) fields r0 None in
          (* `if keyword == '' and rule.pos is not None and len(fields) > rule.pos: raise ValueError('Unknown keyword ...')` *)
          if is_nil kw && (match r_pos r with Some p => p <? length fields | None => false end) then Err EUnknownKw else
          let '(relname', st') :=
            if (is_nil cpt_id && str_in cpt_type anon_types) || str_eqb cpt_id [QM]
            then make_anon st cpt_type else (relname, st) in
          let name' := ns ++ cur_ns ++ relname' in
          do na <- process r fields name' ns relname';
          let opts_string := match rest with Some o => strip o | None => [] end in
          do o <- opts_add [] opts_string;
          Ok ({| c_class := r_class r; c_name := name'; c_nodes := fst na; c_args := snd na;
                 c_kwpos := leak; c_kw := kw; c_opts := o; c_string := net |}, st')
      | _ => Err EIndex
      end
  end.
Definition is_directive (g : grammar) (net : str) : bool :=
  match net with
  | [] => true
  | a :: _ => mem a (g_comments g) || aeqb a SEMI || aeqb a DOT
  end.
(* Parser.parse *)
Definition parse (g : grammar) (st : cstate) (ns : str) (string : str) : res (cpt * cstate) :=
  let net := strip string in
  if is_directive g net then
    let '(relname, st') := make_anon st S_XX in
    let opts_string := if starts_with [SEMI] string && negb (starts_with [SEMI; SEMI] string)
                       then tl string else [] in
    do o <- opts_add [] opts_string;
    Ok ({| c_class := S_XX; c_name := ns ++ relname; c_nodes := []; c_args := [];
           c_kwpos := None; c_kw := []; c_opts := o; c_string := string |}, st')
  else
  let '(main, rest) := split_first SEMI net in
  match split (g_delims g) main with
  | None => Err EUnbalanced
  | Some [] => Err EIndex
  | Some (name :: fields) => parse_cpt g st ns net name fields rest
  end.

(* NetfileMixin._add / _parse for one line, Netlist._cpt_add *)
Definition S_dots := s2l "...".  Definition S_include := s2l ".include ".
Definition add_line (g : grammar) (st : cstate) (line : str) : res cstate :=
  let s := strip line in
  let s := if starts_with S_dots s then strip (skipn 3 s) else s in
  if starts_with S_include s then Err EInclude else
  do x <- parse g st [] s;
  let '(c, st') := x in
  Ok {| elements := assoc_set (c_name c) c (elements st'); gen_names := gen_names st' |}.
Fixpoint add_lines (g : grammar) (st : cstate) (lines : list str) : res cstate :=
  match lines with
  | [] => Ok st
  | l :: r => do st' <- add_line g st l; add_lines g st' r
  end.

(* ------------------------------------------------- files and .include -- *)
(* NetfileMixin.netfile_add / _netfile_add / _include.  The file system is a parameter
   [fs : file name -> lines] (the worker writes the same files to disk).  _include:
   match(r'(\.include)\s+(.+?)\s+(as)\s+(\w+)', string); the new namespace is
   name + '.' + current namespace (inner name FIRST - kept as in the code). *)
Definition is_word (a : ascii) : bool := is_alnum a || aeqb a (ch 95).
Fixpoint drop_while (f : ascii -> bool) (s : str) : str :=
  match s with a :: r => if f a then drop_while f r else s | [] => [] end.
(* tail matches  \s+as\s+(\w+)  at its start: the word *)
Definition match_as (tail : str) : option str :=
  match tail with
  | a :: _ =>
      if is_space a then
        let t1 := drop_while is_space tail in
        if starts_with (s2l "as") t1 then
          match skipn 2 t1 with
          | b :: t2 => if is_space b then
                         let w := take_while is_word (drop_while is_space (b :: t2)) in
                         if is_nil w then None else Some w
                       else None
          | [] => None
          end
        else None
      else None
  | [] => None
  end.
(* the non-greedy (.+?): shortest non-empty prefix whose rest matches *)
Fixpoint scan_include (pre : str) (rest : str) : option (str * str) :=
  match rest with
  | [] => None
  | c :: r => match match_as r with
              | Some w => Some (pre ++ [c], w)
              | None => scan_include (pre ++ [c]) r
              end
  end.
Definition parse_include (s : str) : option (str * str) :=
  scan_include [] (drop_while is_space (skipn 8 s)).
(* open(pathname), then open(pathname + '.sch') *)
Definition fs_open (fs : list (str * list str)) (path : str) : option (list str) :=
  match assoc_get path fs with
  | Some l => Some l
  | None => assoc_get (path ++ s2l ".sch") fs
  end.
(* NetfileMixin._add / _parse with a namespace; [fuel] bounds the nesting of includes *)
Fixpoint add_lines_ns (fuel : nat) (g : grammar) (fs : list (str * list str)) (ns : str) {struct fuel}
  : cstate -> list str -> res cstate :=
  fix go (st : cstate) (lines : list str) {struct lines} : res cstate :=
  match lines with
  | [] => Ok st
  | line :: rest =>
      let s := strip line in
      let s := if starts_with S_dots s then strip (skipn 3 s) else s in
      do st1 <-
        (if starts_with S_include s then
           match fuel with
           | O => Err EInclude
           | S f =>
               match parse_include s with
               | Some (file, name) =>
                   match fs_open fs file with
                   | Some ls => add_lines_ns f g fs (name ++ [DOT] ++ ns) st ls
                   | None => Err EInclude
                   end
               | None => Err EInclude
               end
           end
         else
           do x <- parse g st ns s;
           let '(c, st') := x in
           Ok {| elements := assoc_set (c_name c) c (elements st'); gen_names := gen_names st' |});
      go st1 rest
  end.
(* Circuit(filename) = netfile_add(filename) *)
Definition run_file (g : grammar) (fs : list (str * list str)) (path : str) : res cstate :=
  match fs_open fs path with
  | Some ls => add_lines_ns 8 g fs [] st0 ls
  | None => Err EInclude
  end.

(* ---------------------------------------------------------------- print -- *)
(* Cpt._arg_format *)
Definition has_delim (ds : str) (s : str) : bool := existsb (fun d => mem d s) ds.
Definition arg_format (ds : str) (v : str) : str :=
  if starts_with [LBR] v then v
  else if has_delim ds v then LBR :: v ++ [RBR] else v.
(* the fmtargs loop of _netmake1 *)
Fixpoint fmtargs (ds : str) (args : list (option str)) : list str :=
  match args with
  | [] => []
  | [None] => []
  | None :: r => [ch 48] :: fmtargs ds r
  | Some v :: r => arg_format ds v :: fmtargs ds r
  end.
Fixpoint nodes_kw (nodes : list str) (m : nat) (kwpos : option nat) (kw : str) : list str :=
  match nodes with
  | [] => []
  | n :: r => n :: (if (match kwpos with Some p => p =? S m | None => false end) && negb (is_nil kw)
                    then [kw] else []) ++ nodes_kw r (S m) kwpos kw
  end.
Definition is_anon_name (relname : str) : bool :=
  match relname with
  | a :: r => str_in [a] anon_types && starts_with (s2l "anon") r
  | [] => false
  end.
(* Cpt._netmake1 with name = self.namespace + self.relname (= self.name),
   nodes = self.relnodes, args = self.args, opts = self.opts, ignore_keyword=False *)
Definition print_fields (ds : str) (c : cpt) : list str :=
  let nparts := split_on DOT (c_name c) in
  let relname := last_str nparts in
  let namespace := join [DOT] (init_strs nparts) in
  let fa := fmtargs ds (c_args c) in
  let fa := match fa with [x] => if str_eqb x relname then [] else fa | _ => fa end in
  let relname := if is_anon_name relname then firstn 1 relname else relname in
  let name := if is_nil namespace then relname else namespace ++ [DOT] ++ relname in
  [name]
  ++ (if (match c_kwpos c with Some 0 => true | _ => false end) && negb (is_nil (c_kw c)) then [c_kw c] else [])
  ++ nodes_kw (c_nodes c) 0 (c_kwpos c) (c_kw c)
  ++ fa.
Definition with_opts (net : str) (o : opts) : str :=
  let os := strip (opts_format o) in
  if is_nil os then net else net ++ s2l "; " ++ os.
Definition print_cpt (ds : str) (c : cpt) : str :=
  if str_eqb (c_class c) S_XX then c_string c            (* XX.__str__ *)
  else with_opts (join [SP] (print_fields ds c)) (c_opts c).
(* NetlistMixin.netlist *)
Definition print_netlist (ds : str) (st : cstate) : str :=
  join [NL] (map (fun kv => print_cpt ds (snd kv)) (elements st)).

(* --------------------------------------------------------- value_parser -- *)
Inductive vres := VSame (s : str) | VScaled (mant : str) (exp10 : Z).
Definition is_digit (a : ascii) : bool := let n := code a in (48 <=? n) && (n <=? 57).
(* decimal literals float() accepts: [+-] (d+ [. d*] | . d+) [(e|E) [+-] d+]
   (a sufficient sub-language: no underscores, inf/nan or surrounding blanks) *)
Fixpoint all_digits (s : str) : bool := match s with [] => true | a :: r => is_digit a && all_digits r end.
Definition unsign (s : str) : str :=
  match s with a :: r => if aeqb a (ch 43) || aeqb a (ch 45) then r else s | [] => s end.
Definition is_mantissa (s : str) : bool :=
  match split_on DOT s with
  | [a] => negb (is_nil a) && all_digits a
  | [a; b] => negb (is_nil a && is_nil b) && all_digits a && all_digits b
  | _ => false
  end.
Definition is_exponent (s : str) : bool := let d := unsign s in negb (is_nil d) && all_digits d.
Definition is_float (s : str) : bool :=
  let u := unsign s in
  match split_on (ch 101) (map (fun a => if aeqb a (ch 69) then ch 101 else a) u) with
  | [m] => is_mantissa m
  | [m; e] => is_mantissa m && is_exponent e
  | _ => false
  end.
(* value_parser(arg) for a str arg; [table] is the translated suffix dict, [mc]/[kc] the translated
   slice lengths of the two alias rewrites  arg[0:-mc] + 'M'  (Meg)  and  arg[0:-kc] + 'k'  (K) *)
Definition value_parser (mc kc : nat) (table : list (ascii * Z)) (arg : str) : vres :=
  if length arg <? 2 then VSame arg else
  let arg := if ends_with (s2l "Meg") arg then drop_last mc arg ++ [ch 77]
             else if ends_with [ch 75] arg then drop_last kc arg ++ [ch 107] else arg in
  let lastc := last arg SP in
  let m := drop_last 1 arg in
  match find (fun kv => aeqb (fst kv) lastc) table with
  | Some (_, k) => if is_float m then VScaled m k else VSame arg
  | None => VSame arg
  end.

(* -------------------------------------------------- boolean comparisons -- *)
Definition ostr_eqb (a b : option str) : bool :=
  match a, b with Some x, Some y => str_eqb x y | None, None => true | _, _ => false end.
Fixpoint list_eqb {A} (f : A -> A -> bool) (l m : list A) : bool :=
  match l, m with
  | [], [] => true
  | a :: l', b :: m' => f a b && list_eqb f l' m'
  | _, _ => false
  end.
Fixpoint oval_eqb (a b : oval) : bool :=
  match a, b with
  | OStr x, OStr y => str_eqb x y
  | OBool x, OBool y => Bool.eqb x y
  | OList x, OList y =>
      (fix go (l m : list oval) : bool :=
         match l, m with
         | [], [] => true
         | p :: l', q :: m' => oval_eqb p q && go l' m'
         | _, _ => false
         end) x y
  | _, _ => false
  end.
Definition opts_eqb (a b : opts) : bool :=
  list_eqb (fun x y => str_eqb (fst x) (fst y) && oval_eqb (snd x) (snd y)) a b.
Definition onat_eqb (a b : option nat) : bool :=
  match a, b with Some x, Some y => x =? y | None, None => true | _, _ => false end.
(* observable part of a component: (class, name, nodes, args, keyword, opts) *)
Definition cpt_eqb (a b : cpt) : bool :=
  str_eqb (c_class a) (c_class b) && str_eqb (c_name a) (c_name b)
  && list_eqb str_eqb (c_nodes a) (c_nodes b) && list_eqb ostr_eqb (c_args a) (c_args b)
  && onat_eqb (c_kwpos a) (c_kwpos b) && str_eqb (c_kw a) (c_kw b) && opts_eqb (c_opts a) (c_opts b).
Definition vres_eqb (a b : vres) : bool :=
  match a, b with
  | VSame x, VSame y => str_eqb x y
  | VScaled m k, VScaled m' k' => str_eqb m m' && (k =? k')%Z
  | _, _ => false
  end.

(* ------------------------------------- helpers for the generated cases_*.v -- *)
Definition mkC cls name nodes args kp kw o s : cpt :=
  {| c_class := cls; c_name := name; c_nodes := nodes; c_args := args; c_kwpos := kp; c_kw := kw;
     c_opts := o; c_string := s |}.
(* the real code accepted [lines]: same observable components, same per-component text,
   same netlist text *)
Definition obs_ok (g : grammar) (lines : list str) (exp : list cpt) (printed : list str) (text : str) : bool :=
  match add_lines g st0 lines with
  | Ok st => list_eqb cpt_eqb (map snd (elements st)) exp
             && list_eqb str_eqb (map (fun kv => print_cpt (g_delims g) (snd kv)) (elements st)) printed
             && str_eqb (print_netlist (g_delims g) st) text
  | Err _ => false
  end.
(* Circuit(filename) with the files [fs] on disk *)
Definition obs_file (g : grammar) (fs : list (str * list str)) (path : str) (exp : list cpt) (printed : list str) (text : str) : bool :=
  match run_file g fs path with
  | Ok st => list_eqb cpt_eqb (map snd (elements st)) exp
             && list_eqb str_eqb (map (fun kv => print_cpt (g_delims g) (snd kv)) (elements st)) printed
             && str_eqb (print_netlist (g_delims g) st) text
  | Err _ => false
  end.
Definition obs_file_err (g : grammar) (fs : list (str * list str)) (path : str) (e : err) : bool :=
  match run_file g fs path with Err e' => err_eqb e e' | Ok _ => false end.
(* the real code raised error [e] at line number [k] *)
Definition obs_err (g : grammar) (lines : list str) (k : nat) (e : err) : bool :=
  match add_lines g st0 (firstn k lines), add_lines g st0 (firstn (S k) lines) with
  | Ok _, Err e' => err_eqb e e'
  | _, _ => false
  end.
Definition obs_opts (s : str) (exp : res (opts * str)) : bool :=
  match opts_add [] s, exp with
  | Ok o, Ok (o', f) => opts_eqb o o' && str_eqb (opts_format o) f
  | Err e, Err e' => err_eqb e e'
  | _, _ => false
  end.
Definition failing (l : list (nat * bool)) : list nat := map fst (filter (fun p => negb (snd p)) l).
Definition failingN (l : list (N * bool)) : list N := map fst (filter (fun p => negb (snd p)) l).
