(* C13 — the analytic side: closed forms equal the defining unilateral sum
   sum_{n>=0} x[n] z^-n inside the region of convergence (real z), using
   Coquelicot.  Depends on the standard library's classical real axioms
   (printed by Print Assumptions in props/C13.v). *)
From Coq Require Import Reals Lra Lia.
From Coquelicot Require Import Coquelicot.
Require Import LT.FieldSec LT.SeqFilter LT.SeqDFT LT.SeqZ.
Open Scope R_scope.

(* geometric_entry:  a^n  o--o  z / (z - a)   for real |a / z| < 1 *)
Theorem geometric_entry (a z : R) : z <> 0 -> Rabs (a / z) < 1 ->
  is_series (fun n => a ^ n * (/ z) ^ n) (z / (z - a)).
Proof.
  intros Hz Hq.
  assert (Hne : 1 - a / z <> 0).
  { intros E. assert (a / z = 1) by lra. rewrite H in Hq. rewrite Rabs_R1 in Hq. lra. }
  replace (z / (z - a)) with (/ (1 - a / z)).
  2:{ field. split; [|exact Hz]. intros E. apply Hne. field_simplify_eq; [lra|exact Hz]. }
  apply (is_series_ext (fun n => (a / z) ^ n)).
  - intros n. unfold Rdiv. rewrite Rpow_mult_distr. reflexivity.
  - apply is_series_geom. exact Hq.
Qed.
(* ------------ R as an instance of the abstract field of the algebraic theory *)
Lemma R_iter_pos (p : positive) (a : R) : 0 < a -> 0 < Pos.iter_op Rplus p a.
Proof. revert a. induction p as [p IH|p IH|]; intros a Ha; cbn [Pos.iter_op].
  - apply Rplus_lt_0_compat; [exact Ha|]. apply IH. lra.
  - apply IH. lra.
  - exact Ha. Qed.
Lemma R_char0 (p : positive) : Pos.iter_op Rplus p 1 <> 0.
Proof. pose proof (R_iter_pos p 1 Rlt_0_1). lra. Qed.
Lemma R_field_theory : field_theory 0 1 Rplus Rmult Rminus Ropp Rdiv Rinv (@eq R).
Proof. constructor.
  - constructor; intros; ring.
  - exact R1_neq_R0.
  - reflexivity.
  - intros p Hp. field. exact Hp. Qed.
Definition RF : fld := MkFld R 0 1 Rplus Rmult Rminus Ropp Rdiv Rinv R_field_theory Req_EM_T R_char0.

Lemma sumn_sum_f_R0 (f : nat -> R) n : sumn (K:=RF) (S n) f = sum_f_R0 f n.
Proof. induction n as [|n IH]; [cbn; ring|]. rewrite sumn_S, IH. reflexivity. Qed.
Lemma conv_PS_mult (a b : nat -> R) n : conv (K:=RF) a b n = PS_mult a b n.
Proof. unfold conv, PS_mult. apply sumn_sum_f_R0. Qed.
Lemma pw_pow (x : R) n : pw (K:=RF) x n = x ^ n.
Proof. induction n as [|n IH]; cbn; [reflexivity|]. rewrite IH. reflexivity. Qed.


(* finitely supported sequences are summable *)
Lemma is_series_zero : is_series (fun _ : nat => 0) 0.
Proof.
  apply (is_series_ext (fun k => scal (pow_n 0 k) ((fun _ : nat => 0) k))).
  - intros n. unfold scal; simpl. unfold mult; simpl. ring.
  - apply (is_pseries_0 (fun _ : nat => 0)).
Qed.
Lemma ex_series_finite (f : nat -> R) (N : nat) : (forall n, (N <= n)%nat -> f n = 0) -> ex_series f.
Proof.
  intros H. apply (ex_series_incr_n f N).
  exists 0. apply (is_series_ext (fun _ => 0)); [|exact is_series_zero].
  intros n. symmetry. apply H. lia.
Qed.
Lemma CV_radius_lb (a : nat -> R) (r : R) : CV_disk a r -> Rbar_le (Finite r) (CV_radius a).
Proof.
  intros H. unfold CV_radius, Lub_Rbar. destruct (ex_lub_Rbar (CV_disk a)) as [l [ub lub]]. simpl.
  apply ub. exact H.
Qed.
Lemma CV_radius_lpoly (l : list R) (w : R) : Rbar_lt (Finite (Rabs w)) (CV_radius (lpoly (K:=RF) l)).
Proof.
  apply Rbar_lt_le_trans with (Finite (Rabs w + 1)); [simpl; lra|].
  apply CV_radius_lb. unfold CV_disk.
  apply (ex_series_finite _ (length l)). intros n Hn. unfold lpoly.
  rewrite nth_overflow by exact Hn. change (@f0 RF) with 0. rewrite Rmult_0_l. apply Rabs_R0.
Qed.
(* a polynomial (finite list) is an everywhere convergent power series whose
   sum is its value *)
Lemma is_pseries_cons (c : R) (a : nat -> R) (x l : R) : is_pseries a x l ->
  is_pseries (fun n => match n with O => c | S m => a m end) x (c + x * l).
Proof.
  intros H. unfold is_pseries in *.
  apply is_series_decr_1.
  match goal with |- is_series _ ?v => replace v with (scal x l) end.
  2:{ unfold plus, opp, scal; simpl. unfold mult; simpl.
      match goal with |- context [?o * c] => change o with 1 end. ring. }
  apply (is_series_ext (fun k => scal x (scal (pow_n x k) (a k)))).
  - intros n. unfold scal; simpl. unfold mult; simpl. symmetry; apply Rmult_assoc.
  - exact (@is_series_scal R_AbsRing R_NormedModule x (fun k => scal (pow_n x k) (a k)) l H).
Qed.
Lemma is_pseries_lpoly (l : list R) (w : R) : is_pseries (lpoly (K:=RF) l) w (evalw (K:=RF) l w).
Proof.
  induction l as [|c l IH].
  - apply (is_series_ext (fun _ => 0)); [|exact is_series_zero].
    intros n. unfold lpoly. destruct n; unfold scal; simpl; unfold mult; simpl; change (@f0 RF) with 0; ring.
  - change (evalw (K:=RF) (c :: l) w) with (c + w * evalw (K:=RF) l w).
    apply (is_pseries_ext (fun n => match n with O => c | S m => lpoly (K:=RF) l m end)).
    + intros [|n]; reflexivity.
    + apply is_pseries_cons. exact IH.
Qed.

(* zt_analytic: whenever  Q . X = P  as formal power series (what
   zt_term_sound establishes for the model of ZTransformer.term) and the
   defining sum  sum_n x[n] w^n  converges absolutely around w = 1/z, the closed
   form is the value of the defining sum:  Q(w) * sum_n x[n] w^n = P(w). *)
Theorem zt_analytic (x : nat -> R) (P Q : list R) (w : R) :
  is_ztl (K:=RF) x (P, Q) -> Rbar_lt (Finite (Rabs w)) (CV_radius x) ->
  evalw (K:=RF) Q w * PSeries x w = evalw (K:=RF) P w.
Proof.
  intros E Hx.
  assert (HQ : is_pseries (lpoly (K:=RF) Q) w (evalw (K:=RF) Q w)) by apply is_pseries_lpoly.
  assert (HX : is_pseries x w (PSeries x w)) by (apply PSeries_correct, CV_radius_inside; exact Hx).
  pose proof (is_pseries_mult _ _ w _ _ HQ HX (CV_radius_lpoly Q w) Hx) as HM.
  apply (is_pseries_ext _ (lpoly (K:=RF) P)) in HM.
  2:{ intros n. rewrite <- conv_PS_mult. apply E. }
  pose proof (is_pseries_lpoly P w) as HP.
  rewrite <- (is_pseries_unique _ _ _ HM). apply is_pseries_unique. exact HP.
Qed.
(* in particular for every descriptor accepted by the model of the rule cascade *)
Corollary zt_term_analytic (c : R) p geos steps (b : base RF) (w : R) :
  base_wf RF b ->
  Rbar_lt (Finite (Rabs w)) (CV_radius (sem_term (K:=RF) c p geos steps b)) ->
  let X := zt_term (K:=RF) c p geos steps b in
  evalw (K:=RF) (snd X) w * PSeries (sem_term (K:=RF) c p geos steps b) w = evalw (K:=RF) (fst X) w.
Proof.
  intros Hwf Hcv X. apply zt_analytic; [|exact Hcv].
  destruct (zt_term_sound RF c p geos steps b Hwf) as [H _]. exact H.
Qed.
