(* C20 - schematic layout.  Part 6: hand model (H) of the SOLVE STAGE of the
   graph placer, lcapy/schemgraph.py Graph.solve after prune/add_start_nodes:
     longest_path + makepath (memoised DFS, first strict maximum),
     assign_longest, assign_fixed/assign_fixed1,
     assign_stretchy/assign_stretchy1 with path_to_closest_known (un-memoised
     DFS that MINIMISES pos - size in both directions) and the nested
     longest_path between two placed nodes that does not traverse placed nodes.
   Iteration orders are those of the code: gnode dict order, fedges/redges list
   order, the `unknown` work list with its removals.
   The executable model is evaluated inside Coq on the adjacency lists the real
   graph had after add_start_nodes and compared with the positions the real
   Graph.solve returned.  Because the heuristics do NOT always produce a
   feasible placement, the theorems here are refutations: concrete feasible
   constraint graphs on which the modelled rules violate a constraint. *)
From Coq Require Import QArith List Bool Arith Lia Lqa.
Require Import LT.Layout.
Import ListNotations.
Local Open Scope Q_scope.

Record sedge := mkS { s_to : node; s_size : Q; s_st : bool }.
Definition adj := list (node * list sedge).
Definition posmap := list (node * Q).
Definition pstep := (node * sedge)%type.      (* (gnode the edge is stored at, edge) *)

Fixpoint edges_of (a : adj) (n : node) : list sedge :=
  match a with [] => [] | (m, l) :: r => if Nat.eqb m n then l else edges_of r n end.
Fixpoint getpos (p : posmap) (n : node) : option Q :=
  match p with [] => None | (m, q) :: r => if Nat.eqb m n then Some q else getpos r n end.
Definition known (p : posmap) (n : node) : bool := match getpos p n with Some _ => true | None => false end.
Definition posof (p : posmap) (n : node) : Q := match getpos p n with Some q => q | None => 0 end.
Definition Qlt_bool (a b : Q) : bool := negb (Qle_bool b a).
Fixpoint remove_n (n : node) (l : list node) : list node :=      (* list.remove: first occurrence *)
  match l with [] => [] | m :: r => if Nat.eqb m n then r else m :: remove_n n r end.

Definition path_dist (p : list pstep) : Q := fold_left (fun a x => a + s_size (snd x)) p 0.
Definition path_stretches (p : list pstep) : nat := length (filter (fun x => s_st (snd x)) p).
Definition path_end (p : list pstep) (d : node) : node := match rev p with [] => d | x :: _ => s_to (snd x) end.

(* Graph.longest_path(from, to) + makepath: None = to_gnode not reachable (-1) *)
Fixpoint lpath (F : adj) (from tgt : node) (pos : posmap) (fuel : nat) (u : node) : option (Q * list pstep) :=
  match fuel with
  | O => None
  | S k =>
    if Nat.eqb u tgt then Some (0, [])
    else if known pos u && negb (Nat.eqb u from) then None
    else fold_left (fun best e =>
           match lpath F from tgt pos k (s_to e) with
           | Some (d, p) =>
               let c := d + s_size e in
               match best with
               | None => Some (c, (u, e) :: p)
               | Some (bd, _) => if Qlt_bool bd c then Some (c, (u, e) :: p) else best
               end
           | None => best
           end) (edges_of F u) None
  end.

(* Graph.path_to_closest_known traverse(): start/end -> 1000, placed -> pos,
   otherwise min over edges of traverse(next) - size (initially 2000) *)
Fixpoint closest (A : adj) (sn en : node) (pos : posmap) (fuel : nat) (u : node) : Q * list pstep :=
  match fuel with
  | O => (2000 # 1, [])
  | S k =>
    if Nat.eqb u sn || Nat.eqb u en then (1000 # 1, [])
    else match getpos pos u with
         | Some p => (p, [])
         | None => fold_left (fun best e =>
                     let dp := closest A sn en pos k (s_to e) in
                     let dist := fst dp - s_size e in
                     if Qlt_bool dist (fst best) then (dist, (u, e) :: snd dp) else best)
                   (edges_of A u) (2000 # 1, [])
         end
  end.

Record st := mkSt { st_pos : posmap; st_unknown : list node }.

(* assign_longest *)
Fixpoint assign_longest (p : list pstep) (cum : Q) (s : st) : st :=
  match p with
  | [] => s
  | (n, e) :: r =>
      let s1 := mkSt ((n, cum) :: st_pos s) (remove_n n (st_unknown s)) in
      match r with
      | [] => mkSt ((s_to e, cum + s_size e) :: st_pos s1) (remove_n (s_to e) (st_unknown s1))
      | _ => assign_longest r (cum + s_size e) s1
      end
  end.

(* assign_fixed1 *)
Fixpoint first_fixed_to (l : list sedge) (pos : posmap) (excl : node) : option sedge :=
  match l with
  | [] => None
  | e :: r => if negb (s_st e) && known pos (s_to e) && negb (Nat.eqb (s_to e) excl) then Some e
              else first_fixed_to r pos excl
  end.
Definition assign_fixed1 (F R : adj) (sn en : node) (pos : posmap) (n : node) : option Q :=
  match first_fixed_to (edges_of F n) pos en with
  | Some e => Some (posof pos (s_to e) - s_size e)
  | None => match first_fixed_to (edges_of R n) pos sn with
            | Some e => Some (posof pos (s_to e) + s_size e)
            | None => None
            end
  end.

(* one sweep of `for n in unknown`: the first node that can be fixed *)
Fixpoint fixed_sweep (F R : adj) (sn en : node) (pos : posmap) (l : list node) : option (node * Q) :=
  match l with
  | [] => None
  | n :: r => match assign_fixed1 F R sn en pos n with
              | Some q => Some (n, q)
              | None => fixed_sweep F R sn en pos r
              end
  end.
Fixpoint assign_fixed (F R : adj) (sn en : node) (fuel : nat) (s : st) : st :=
  match fuel with
  | O => s
  | S k => match fixed_sweep F R sn en (st_pos s) (st_unknown s) with
           | Some (n, q) => assign_fixed F R sn en k (mkSt ((n, q) :: st_pos s) (remove_n n (st_unknown s)))
           | None => s
           end
  end.

(* walking a path while adding the stretch to stretchy edges *)
Fixpoint walk_from (p : list pstep) (stretch cum : Q) (s : st) : Q * st :=   (* reversed(from_path): assigns edge.from_gnode *)
  match p with
  | [] => (cum, s)
  | (n, e) :: r =>
      let cum' := cum + s_size e + (if s_st e then stretch else 0) in
      let s' := if known (st_pos s) n then s else mkSt ((n, cum') :: st_pos s) (remove_n n (st_unknown s)) in
      walk_from r stretch cum' s'
  end.
Fixpoint walk_to (p : list pstep) (stretch cum : Q) (s : st) : Q * st :=     (* to_path: assigns edge.to_gnode *)
  match p with
  | [] => (cum, s)
  | (n, e) :: r =>
      let cum' := cum + s_size e + (if s_st e then stretch else 0) in
      let s' := if known (st_pos s) (s_to e) then s else mkSt ((s_to e, cum') :: st_pos s) (remove_n (s_to e) (st_unknown s)) in
      walk_to r stretch cum' s'
  end.

Definition Qmax0 (x : Q) : Q := if Qle_bool 0 x then x else 0.

(* assign_stretchy1: None = returned False *)
Definition assign_stretchy1 (F R : adj) (sn en : node) (fuel : nat) (s : st) (u : node) : option st :=
  let pos := st_pos s in
  let to_path := snd (closest F sn en pos fuel u) in
  let from_path := snd (closest R sn en pos fuel u) in
  let tg := path_end to_path u in
  let fg := path_end from_path u in
  if Nat.eqb fg sn && Nat.eqb tg en then None
  else if Nat.eqb fg sn then
    Some (mkSt ((u, posof pos tg - path_dist to_path) :: pos) (remove_n u (st_unknown s)))
  else if Nat.eqb tg en then
    Some (mkSt ((u, posof pos fg + path_dist from_path) :: pos) (remove_n u (st_unknown s)))
  else
    let lp := match lpath F fg tg pos fuel fg with Some x => x | None => (0, []) end in
    let stretches := path_stretches (snd lp) in
    let separation := posof pos tg - posof pos fg in
    let extent := fst lp in
    let stretch := match stretches with
                   | O => 0
                   | _ => Qmax0 ((separation - extent) / inject_Z (Z.of_nat stretches))
                   end in
    let '(cum, s1) := walk_from (rev from_path) stretch (posof pos fg) s in
    let '(_, s2) := walk_to to_path stretch cum s1 in
    Some s2.

(* `for n in unknown` of assign_stretchy: first node that is already placed (removed) or can be placed *)
Fixpoint stretchy_sweep (F R : adj) (sn en : node) (fuel : nat) (s : st) (l : list node) : option st :=
  match l with
  | [] => None
  | n :: r =>
      if known (st_pos s) n then Some (mkSt (st_pos s) (remove_n n (st_unknown s)))
      else match assign_stretchy1 F R sn en fuel s n with
           | Some s' => Some (assign_fixed F R sn en fuel s')
           | None => stretchy_sweep F R sn en fuel s r
           end
  end.
Fixpoint assign_stretchy (F R : adj) (sn en : node) (fuel k : nat) (s : st) : st :=
  match k with
  | O => s
  | S k' => match st_unknown s with
            | [] => s
            | _ => match stretchy_sweep F R sn en fuel s (st_unknown s) with
                   | Some s' => assign_stretchy F R sn en fuel k' s'
                   | None => s
                   end
            end
  end.

(* Graph.solve from the graph with start/end nodes: gnodes in dict order (start, end last) *)
Definition solve (F R : adj) (gnodes : list node) (sn en : node) : st :=
  let fuel := S (length gnodes) in
  let path := match lpath F sn en [] fuel sn with Some x => snd x | None => [] end in
  let s0 := assign_longest path 0 (mkSt [] gnodes) in
  let s1 := assign_fixed F R sn en fuel s0 in
  assign_stretchy F R sn en fuel (S (S (length gnodes))) s1.

(* comparison with the positions the real solve returned *)
Definition solve_bad (F R : adj) (gnodes : list node) (sn en : node) (real : list (node * Q)) : list nat :=
  let s := solve F R gnodes sn en in
  map fst (filter (fun p => match getpos (st_pos s) (fst p) with
                            | Some q => negb (Qeq_bool q (snd p))
                            | None => true end) real).

(* ---- refutations: the modelled rules do not always produce a feasible placement ---------
   The constraints of a graph are its edges between real gnodes (the dummy edges from 'start' and to 'end'
   are left out): size <= pos(to) - pos(from), with equality for non-stretch edges. *)
Definition cstrs_of_adj (F : adj) (sn en : node) : list cstr :=
  flat_map (fun ne => if Nat.eqb (fst ne) sn then [] else
     flat_map (fun e => if Nat.eqb (s_to e) en then [] else
                 [mkC (fst ne) (s_to e) (s_size e) (if s_st e then RGe else REq)]) (snd ne)) F.

(* Each example is the constraint graph lcapy builds for the quoted netlist (one axis), in the order lcapy
   stores it.  First conjunct: the hint set is consistent (a witness placement is accepted by the verified
   checker).  Second conjunct: the placement computed by the modelled solve stage is rejected. *)
(* corpus_graph_dangling: VM3 1 3; up=0.5 / W1 3 6; up=0.5 / L1 2 6; up, size=2 / W2 2 3; up=0.75   (y graph; gnodes 0=1, 1=3, 2=6, 3=2, 4=start, 5=end) *)
Definition ex_dangling_F : adj :=
  [(0%nat, [mkS 1%nat (1 # 2) true]);
   (1%nat, [mkS 2%nat (1 # 2) true]);
   (2%nat, [mkS 5%nat (0 # 1) true]);
   (3%nat, [mkS 2%nat (2 # 1) true; mkS 1%nat (3 # 4) true]);
   (4%nat, [mkS 0%nat (0 # 1) true; mkS 3%nat (0 # 1) true]);
   (5%nat, [])].
Definition ex_dangling_R : adj :=
  [(0%nat, [mkS 4%nat (0 # 1) true]);
   (1%nat, [mkS 0%nat (1 # 2) true; mkS 3%nat (3 # 4) true]);
   (2%nat, [mkS 1%nat (1 # 2) true; mkS 3%nat (2 # 1) true]);
   (3%nat, [mkS 4%nat (0 # 1) true]);
   (4%nat, []);
   (5%nat, [mkS 2%nat (0 # 1) true])].
Definition ex_dangling_gn : list node := [0%nat; 1%nat; 2%nat; 3%nat; 4%nat; 5%nat].
Definition ex_dangling_wit : posmap := [(0%nat, (1 # 2)); (1%nat, (1 # 1)); (2%nat, (2 # 1)); (3%nat, (0 # 1))].
Theorem solve_dangling_refuted :
  check (cstrs_of_adj ex_dangling_F 4%nat 5%nat) (posof ex_dangling_wit) = true /\
  check (cstrs_of_adj ex_dangling_F 4%nat 5%nat) (posof (st_pos (solve ex_dangling_F ex_dangling_R ex_dangling_gn 4%nat 5%nat))) = false.
Proof. split; vm_compute; reflexivity. Qed.

(* corpus_graph_unwalked: W1 2 3; down / C1 1 2; down, size=3, fixed / D1 2 4_3; up=0.5 / C2 1 4_3; down=2 / SW1 3 4_3 no; up, size=0.5   (y graph; gnodes 0=3, 1=2, 2=1, 3=4_3, 4=start, 5=end) *)
Definition ex_unwalked_F : adj :=
  [(0%nat, [mkS 1%nat (1 # 1) true; mkS 3%nat (1 # 2) true]);
   (1%nat, [mkS 2%nat (3 # 1) false; mkS 3%nat (1 # 2) true]);
   (2%nat, [mkS 5%nat (0 # 1) true]);
   (3%nat, [mkS 2%nat (2 # 1) true]);
   (4%nat, [mkS 0%nat (0 # 1) true]);
   (5%nat, [])].
Definition ex_unwalked_R : adj :=
  [(0%nat, [mkS 4%nat (0 # 1) true]);
   (1%nat, [mkS 0%nat (1 # 1) true]);
   (2%nat, [mkS 1%nat (3 # 1) false; mkS 3%nat (2 # 1) true]);
   (3%nat, [mkS 1%nat (1 # 2) true; mkS 0%nat (1 # 2) true]);
   (4%nat, []);
   (5%nat, [mkS 2%nat (0 # 1) true])].
Definition ex_unwalked_gn : list node := [0%nat; 1%nat; 2%nat; 3%nat; 4%nat; 5%nat].
Definition ex_unwalked_wit : posmap := [(0%nat, (0 # 1)); (1%nat, (1 # 1)); (2%nat, (4 # 1)); (3%nat, (2 # 1))].
Theorem solve_unwalked_refuted :
  check (cstrs_of_adj ex_unwalked_F 4%nat 5%nat) (posof ex_unwalked_wit) = true /\
  check (cstrs_of_adj ex_unwalked_F 4%nat 5%nat) (posof (st_pos (solve ex_unwalked_F ex_unwalked_R ex_unwalked_gn 4%nat 5%nat))) = false.
Proof. split; vm_compute; reflexivity. Qed.

(* corpus_graph_rigid_eq: P1 1 4; right=1, fixed / I1 5 1; right=0.5 / L1 5 4; right=2, fixed / P2 6 1; left=2   (x graph; gnodes 0=1, 1=4, 2=5, 3=6, 4=start, 5=end) *)
Definition ex_rigid_eq_F : adj :=
  [(0%nat, [mkS 1%nat (1 # 1) false; mkS 3%nat (2 # 1) true]);
   (1%nat, [mkS 5%nat (0 # 1) true]);
   (2%nat, [mkS 0%nat (1 # 2) true; mkS 1%nat (2 # 1) false]);
   (3%nat, [mkS 5%nat (0 # 1) true]);
   (4%nat, [mkS 2%nat (0 # 1) true]);
   (5%nat, [])].
Definition ex_rigid_eq_R : adj :=
  [(0%nat, [mkS 2%nat (1 # 2) true]);
   (1%nat, [mkS 0%nat (1 # 1) false; mkS 2%nat (2 # 1) false]);
   (2%nat, [mkS 4%nat (0 # 1) true]);
   (3%nat, [mkS 0%nat (2 # 1) true]);
   (4%nat, []);
   (5%nat, [mkS 1%nat (0 # 1) true; mkS 3%nat (0 # 1) true])].
Definition ex_rigid_eq_gn : list node := [0%nat; 1%nat; 2%nat; 3%nat; 4%nat; 5%nat].
Definition ex_rigid_eq_wit : posmap := [(0%nat, (1 # 1)); (1%nat, (2 # 1)); (2%nat, (0 # 1)); (3%nat, (3 # 1))].
Theorem solve_rigid_eq_refuted :
  check (cstrs_of_adj ex_rigid_eq_F 4%nat 5%nat) (posof ex_rigid_eq_wit) = true /\
  check (cstrs_of_adj ex_rigid_eq_F 4%nat 5%nat) (posof (st_pos (solve ex_rigid_eq_F ex_rigid_eq_R ex_rigid_eq_gn 4%nat 5%nat))) = false.
Proof. split; vm_compute; reflexivity. Qed.

(* corpus_graph_squeezed: Y1 1 7; right=1.75 / Z1 7 2; right=1.75 / O1 1 3; down / NR1 3 5; right=0.5 / O 5 6; right, fixed / G1 2 4 1 2; down / R9 5 9; right=4 / P2 6 4; right=1.5, fixed   (x graph; gnodes 0=1|3, 1=7, 2=2|4, 3=5, 4=6, 5=9, 6=start, 7=end) *)
Definition ex_squeezed_F : adj :=
  [(0%nat, [mkS 1%nat (7 # 4) true; mkS 3%nat (1 # 2) true]);
   (1%nat, [mkS 2%nat (7 # 4) true]);
   (2%nat, [mkS 7%nat (0 # 1) true]);
   (3%nat, [mkS 4%nat (1 # 1) false; mkS 5%nat (4 # 1) true]);
   (4%nat, [mkS 2%nat (3 # 2) false]);
   (5%nat, [mkS 7%nat (0 # 1) true]);
   (6%nat, [mkS 0%nat (0 # 1) true]);
   (7%nat, [])].
Definition ex_squeezed_R : adj :=
  [(0%nat, [mkS 6%nat (0 # 1) true]);
   (1%nat, [mkS 0%nat (7 # 4) true]);
   (2%nat, [mkS 1%nat (7 # 4) true; mkS 4%nat (3 # 2) false]);
   (3%nat, [mkS 0%nat (1 # 2) true]);
   (4%nat, [mkS 3%nat (1 # 1) false]);
   (5%nat, [mkS 3%nat (4 # 1) true]);
   (6%nat, []);
   (7%nat, [mkS 2%nat (0 # 1) true; mkS 5%nat (0 # 1) true])].
Definition ex_squeezed_gn : list node := [0%nat; 1%nat; 2%nat; 3%nat; 4%nat; 5%nat; 6%nat; 7%nat].
Definition ex_squeezed_wit : posmap := [(0%nat, (0 # 1)); (1%nat, (7 # 4)); (2%nat, (7 # 2)); (3%nat, (1 # 1)); (4%nat, (2 # 1)); (5%nat, (5 # 1))].
Theorem solve_squeezed_refuted :
  check (cstrs_of_adj ex_squeezed_F 6%nat 7%nat) (posof ex_squeezed_wit) = true /\
  check (cstrs_of_adj ex_squeezed_F 6%nat 7%nat) (posof (st_pos (solve ex_squeezed_F ex_squeezed_R ex_squeezed_gn 6%nat 7%nat))) = false.
Proof. split; vm_compute; reflexivity. Qed.

(* corpus_graph_offpath: R1 1 2; right=0.75 / C1 2 3; right=0.5 / R2 3 4; right=0.5 / L1 1 3; right=2 / W1 1 4; right=3   (x graph; gnodes 0=1, 1=2, 2=3, 3=4, 4=start, 5=end)
   gnodes 0 and 3 are on the critical path (W1).  assign_stretchy1 processes gnode 1 first: the walked path
   (path_to_closest_known backwards and forwards from gnode 1) is 0 -> 1 -> 2 -> 3, the stretch is computed for
   longest_path(0, 3) = the single edge W1 (stretch 0), and gnode 2 is positioned as a passer-by of that walk at
   3/4 + 1/2 = 5/4 although its own edge L1 from the placed gnode 0 needs 2. *)
Definition ex_offpath_F : adj :=
  [(0%nat, [mkS 1%nat (3 # 4) true; mkS 2%nat (2 # 1) true; mkS 3%nat (3 # 1) true]);
   (1%nat, [mkS 2%nat (1 # 2) true]);
   (2%nat, [mkS 3%nat (1 # 2) true]);
   (3%nat, [mkS 5%nat (0 # 1) true]);
   (4%nat, [mkS 0%nat (0 # 1) true]);
   (5%nat, [])].
Definition ex_offpath_R : adj :=
  [(0%nat, [mkS 4%nat (0 # 1) true]);
   (1%nat, [mkS 0%nat (3 # 4) true]);
   (2%nat, [mkS 1%nat (1 # 2) true; mkS 0%nat (2 # 1) true]);
   (3%nat, [mkS 2%nat (1 # 2) true; mkS 0%nat (3 # 1) true]);
   (4%nat, []);
   (5%nat, [mkS 3%nat (0 # 1) true])].
Definition ex_offpath_gn : list node := [0%nat; 1%nat; 2%nat; 3%nat; 4%nat; 5%nat].
Definition ex_offpath_wit : posmap := [(0%nat, (0 # 1)); (1%nat, (1 # 1)); (2%nat, (2 # 1)); (3%nat, (3 # 1))].
Theorem solve_offpath_refuted :
  check (cstrs_of_adj ex_offpath_F 4%nat 5%nat) (posof ex_offpath_wit) = true /\
  check (cstrs_of_adj ex_offpath_F 4%nat 5%nat) (posof (st_pos (solve ex_offpath_F ex_offpath_R ex_offpath_gn 4%nat 5%nat))) = false.
Proof. split; vm_compute; reflexivity. Qed.
(* where the rules put gnode 2, and the order dependence: the same graph with gnode 2 ahead of gnode 1 in the
   work list is placed feasibly (gnode 2 is then the processed gnode and path_to_closest_known walks its edge L1) *)
Theorem solve_offpath_position :
  Qeq_bool (posof (st_pos (solve ex_offpath_F ex_offpath_R ex_offpath_gn 4%nat 5%nat)) 2%nat) (5 # 4) = true /\
  check (cstrs_of_adj ex_offpath_F 4%nat 5%nat)
        (posof (st_pos (solve ex_offpath_F ex_offpath_R [0%nat; 2%nat; 1%nat; 3%nat; 4%nat; 5%nat] 4%nat 5%nat))) = true.
Proof. split; vm_compute; reflexivity. Qed.
