(* C17 - numerical evaluation equals the symbolic value: hand-written theory.

   Part 1  vocabulary used by the definitions that tools/tr_numfuncs.py
           regenerates from lcapy/expr.py and lcapy/extrafunctions.py
           (boolean comparisons on Q with reflection lemmas, option-valued
           arithmetic, the hand-written specification of the SymPy functions
           Heaviside / sign / DiracDelta / sinc that Lcapy does not define
           itself) and the tactic [pw_solve] (case analysis + lra).
   Part 2  the model (H) of what Expr.evaluate computes for an expression of
           the exact piecewise class: an expression tree evaluated with a table
           of function definitions; the same evaluator instantiated with the
           numeric table is the model of lambdify+`func`, instantiated with the
           symbolic table it is the model of exact substitution.  Theorems:
           agreement of the two away from discontinuities (by induction over
           all expressions), causal masking, no extrapolation of t >= c
           conditioned results, list evaluation is an element-wise map.
   Everything here is axiom-free. *)
From Coq Require Import QArith Qabs Qcanon Lqa Bool List ZArith Lia.
Import ListNotations.
Require Import LT.FieldSec.
Open Scope Q_scope.

(* ---------------------------------------------------------------- part 1 *)
Definition qlt (a b : Q) : bool := negb (Qle_bool b a).
Definition qle (a b : Q) : bool := Qle_bool a b.
Definition qeq (a b : Q) : bool := Qeq_bool a b.

Lemma qlt_spec a b : reflect (a < b) (qlt a b).
Proof. unfold qlt. destruct (Qle_bool b a) eqn:E; cbn [negb]; constructor.
 - apply Qle_bool_iff in E. lra.
 - destruct (Qlt_le_dec a b) as [H|H]; [exact H|]. apply Qle_bool_iff in H. congruence. Qed.
Lemma qle_spec a b : reflect (a <= b) (qle a b).
Proof. unfold qle. destruct (Qle_bool a b) eqn:E; constructor.
 - apply Qle_bool_iff in E. exact E.
 - intro H. apply Qle_bool_iff in H. congruence. Qed.
Lemma qeq_spec a b : reflect (a == b) (qeq a b).
Proof. unfold qeq. destruct (Qeq_bool a b) eqn:E; constructor.
 - apply Qeq_bool_iff in E. exact E.
 - intro H. apply Qeq_bool_iff in H. congruence. Qed.

Definition odflt (o : option Q) (d : Q) : Q := match o with Some z => z | None => d end.
Definition olift2 (f : Q -> Q -> Q) (a b : option Q) : option Q :=
  match a, b with Some x, Some y => Some (f x y) | _, _ => None end.
Definition oadd := olift2 Qplus.
Definition osub := olift2 Qminus.
Definition omul := olift2 Qmult.
Definition odiv := olift2 Qdiv.
Definition oneg (a : option Q) : option Q := option_map Qopp a.
Definition oabs (a : option Q) : option Q := option_map Qabs a.

(* "both defined and equal": the comparison used by every num_eq_sym theorem *)
Definition oeq2 (a b : option Q) : Prop :=
  match a, b with Some x, Some y => x == y | _, _ => False end.

(* SymPy's own functions at a rational number (specification, validated on
   every run by the exact-substitution side of the correspondence check) *)
Definition spec_Heaviside (x : Q) : Q := if qlt x 0 then 0 else if qeq x 0 then 1 # 2 else 1.
Definition spec_Heaviside2 (x h0 : Q) : Q := if qlt x 0 then 0 else if qeq x 0 then h0 else 1.
Definition spec_sign (x : Q) : Q := if qlt x 0 then - (1) else if qeq x 0 then 0 else 1.
(* DiracDelta(0) stays unevaluated: no number *)
Definition spec_DiracDelta (x : Q) : option Q := if qeq x 0 then None else Some 0.

Ltac pw_neq :=
  repeat match goal with
  | H : ~ (?a == ?b) |- _ =>
      destruct (Q_dec a b) as [[?|?]|?]; [clear H | clear H | contradiction]
  end.
Ltac pw_step :=
  match goal with
  | |- context [qlt ?a ?b] => destruct (qlt_spec a b)
  | |- context [qle ?a ?b] => destruct (qle_spec a b)
  | |- context [qeq ?a ?b] => destruct (qeq_spec a b)
  end; cbn [orb andb negb]; cbv beta iota; try (exfalso; lra).
Ltac pw_abs :=
  repeat match goal with
  | |- context [Qabs ?a] =>
      lazymatch goal with H : Qabs a == _ |- _ => fail | _ => idtac end;
      destruct (Qlt_le_dec a 0);
      [ assert (Qabs a == - a) by (apply Qabs_neg; lra) | assert (Qabs a == a) by (apply Qabs_pos; lra) ]
  end.
(* lra does not know division: rewrite e / c (c a literal) as e * (1/c computed) *)
Ltac qinv_const :=
  unfold Qdiv in *;
  repeat match goal with
  | |- context [Qinv (Qmake ?n ?d)] =>
      let v := eval vm_compute in (Qinv (Qmake n d)) in change (Qinv (Qmake n d)) with v in *
  | H : context [Qinv (Qmake ?n ?d)] |- _ =>
      let v := eval vm_compute in (Qinv (Qmake n d)) in change (Qinv (Qmake n d)) with v in *
  end.
Ltac pw_fin :=
  qinv_const;
  cbn [oeq2 odflt olift2 oadd osub omul odiv oneg oabs option_map];
  first [ lra | reflexivity | (exfalso; lra) | (exfalso; assumption) ].
Ltac pw_solve := intros; pw_neq; pw_abs; repeat pw_step; pw_fin.

(* abstract-field vocabulary for the sinc family *)
Definition keqb (K : fld) (a b : K) : bool := if fdec K a b then true else false.
Lemma keqb_spec (K : fld) (a b : K) : reflect (a = b) (keqb K a b).
Proof. unfold keqb. destruct (fdec K a b); constructor; assumption. Qed.
Fixpoint kpos (K : fld) (p : positive) : K :=
  match p with
  | xH => f1
  | xO q => fmul (fadd f1 f1) (kpos K q)
  | xI q => fadd f1 (fmul (fadd f1 f1) (kpos K q))
  end.
Definition kz (K : fld) (z : Z) : K :=
  match z with Z0 => f0 | Zpos p => kpos K p | Zneg p => fopp (kpos K p) end.
Definition k_iseven (o : option Z) : bool := match o with Some k => Z.even k | None => false end.
Definition k_isodd (o : option Z) : bool := match o with Some k => Z.odd k | None => false end.
Definition k_isint (o : option Z) : bool := match o with Some _ => true | None => false end.
(* SymPy's sinc (unnormalised) *)
Definition spec_sinc (K : fld) (sn : K -> K) (x : K) : K := if keqb K x f0 then f1 else fdiv (sn x) x.
(* the value of sin(M pi x)/(M sin(pi x)) continued to an integer x = k, M = m *)
Definition psinc_int_spec (K : fld) (m k : Z) : K := if Z.even (k * (m - 1)) then f1 else fopp f1.

(* ---------------------------------------------------------------- part 2 *)
Inductive fn1 := FHeaviside | FDirac | FSign | FRect | FTri | FRamp | FRampstep
               | FUnitStep | FUnitImpulse | FDtrect | FDtsign.
Definition fn1_eqb (a b : fn1) : bool :=
  match a, b with
  | FHeaviside, FHeaviside | FDirac, FDirac | FSign, FSign | FRect, FRect | FTri, FTri | FRamp, FRamp
  | FRampstep, FRampstep | FUnitStep, FUnitStep | FUnitImpulse, FUnitImpulse | FDtrect, FDtrect
  | FDtsign, FDtsign => true
  | _, _ => false
  end.
Lemma fn1_eqb_eq a b : fn1_eqb a b = true -> a = b.
Proof. destruct a, b; cbn; congruence. Qed.

Inductive cmpop := OLt | OLe | OGt | OGe.
Inductive ex :=
| EVar
| EC (q : Qc)
| EAdd (a b : ex) | ESub (a b : ex) | EMul (a b : ex) | EDiv (a b : ex) | ENeg (a : ex) | EAbsv (a : ex)
| EF (f : fn1) (a : ex)
| ETrap (a : ex) (alpha : Qc)
| EHeav2 (a : ex) (h0 : Qc)
| EStep2 (a : ex) (z0 : Qc)
| EPw (op : cmpop) (a b : ex) (th el : ex)     (* Piecewise((th, a op b), (el, True)) *)
| EUndef.                                      (* no clause of a Piecewise applies *)

Record tab := MkTab {
  t_fn : fn1 -> Q -> option Q;
  t_trap : Q -> Q -> option Q;
  t_heav2 : Q -> Q -> option Q;
  t_step2 : Q -> Q -> option Q }.

Definition toQc (o : option Q) : option Qc := option_map Q2Qc o.
Definition obind2 (a b : option Qc) (f : Qc -> Qc -> option Qc) : option Qc :=
  match a, b with Some x, Some y => f x y | _, _ => None end.
Definition cmp_eval (op : cmpop) (x y : Qc) : bool :=
  match op with
  | OLt => qlt x y | OLe => qle x y | OGt => qlt y x | OGe => qle y x
  end.

Fixpoint eval (T : tab) (e : ex) (x : Qc) : option Qc :=
  match e with
  | EVar => Some x
  | EC q => Some q
  | EAdd a b => obind2 (eval T a x) (eval T b x) (fun u v => Some (u + v)%Qc)
  | ESub a b => obind2 (eval T a x) (eval T b x) (fun u v => Some (u - v)%Qc)
  | EMul a b => obind2 (eval T a x) (eval T b x) (fun u v => Some (u * v)%Qc)
  | EDiv a b => obind2 (eval T a x) (eval T b x)
                  (fun u v => if Qc_eq_dec v 0%Qc then None else Some (u / v)%Qc)
  | ENeg a => option_map Qcopp (eval T a x)
  | EAbsv a => match eval T a x with Some u => Some (Q2Qc (Qabs u)) | None => None end
  | EF f a => match eval T a x with Some u => toQc (t_fn T f u) | None => None end
  | ETrap a al => match eval T a x with Some u => toQc (t_trap T u al) | None => None end
  | EHeav2 a h0 => match eval T a x with Some u => toQc (t_heav2 T u h0) | None => None end
  | EStep2 a z0 => match eval T a x with Some u => toQc (t_step2 T u z0) | None => None end
  | EPw op a b th el =>
      obind2 (eval T a x) (eval T b x) (fun u v => if cmp_eval op u v then eval T th x else eval T el x)
  | EUndef => None
  end.

(* discontinuities of the functions (the points the property excludes) *)
Definition disc1 (f : fn1) (v : Q) : Prop :=
  match f with
  | FHeaviside | FDirac | FSign => v == 0
  | FRect => v == 1 # 2 \/ v == - (1 # 2)
  | _ => False
  end.
Definition disc_trap (v al : Q) : Prop := al < 0 \/ (al == 0 /\ (v == 1 # 2 \/ v == - (1 # 2))).

(* which function symbols an expression uses *)
Fixpoint uses_only (ok : fn1 -> bool) (oktrap okheav2 okstep2 : bool) (e : ex) : bool :=
  match e with
  | EVar | EC _ | EUndef => true
  | EAdd a b | ESub a b | EMul a b | EDiv a b =>
      uses_only ok oktrap okheav2 okstep2 a && uses_only ok oktrap okheav2 okstep2 b
  | ENeg a | EAbsv a => uses_only ok oktrap okheav2 okstep2 a
  | EF f a => ok f && uses_only ok oktrap okheav2 okstep2 a
  | ETrap a _ => oktrap && uses_only ok oktrap okheav2 okstep2 a
  | EHeav2 a _ => okheav2 && uses_only ok oktrap okheav2 okstep2 a
  | EStep2 a _ => okstep2 && uses_only ok oktrap okheav2 okstep2 a
  | EPw _ a b th el =>
      uses_only ok oktrap okheav2 okstep2 a && uses_only ok oktrap okheav2 okstep2 b &&
      uses_only ok oktrap okheav2 okstep2 th && uses_only ok oktrap okheav2 okstep2 el
  end.

(* no argument of a function application sits on a discontinuity of that function
   (arguments computed with the symbolic table S) *)
Fixpoint no_disc (S : tab) (e : ex) (x : Qc) : Prop :=
  match e with
  | EVar | EC _ | EUndef => True
  | EAdd a b | ESub a b | EMul a b | EDiv a b => no_disc S a x /\ no_disc S b x
  | ENeg a | EAbsv a => no_disc S a x
  | EF f a => no_disc S a x /\ match eval S a x with Some u => ~ disc1 f u | None => True end
  | ETrap a al => no_disc S a x /\ match eval S a x with Some u => ~ disc_trap u al | None => True end
  | EHeav2 a _ => no_disc S a x /\ match eval S a x with Some u => ~ (u == 0) | None => True end
  | EStep2 a _ => no_disc S a x
  | EPw _ a b th el => no_disc S a x /\ no_disc S b x /\ no_disc S th x /\ no_disc S el x
  end.

Lemma toQc_oeq2 a b : oeq2 a b -> toQc a = toQc b /\ toQc a <> None.
Proof. destruct a as [p|], b as [q|]; cbn; try tauto. intros H. split; [|discriminate].
  f_equal. apply Qc_is_canon. cbn. rewrite !Qred_correct. exact H. Qed.

Section Agree.
Variables N S : tab.
Variable ok : fn1 -> bool.
Variables oktrap okheav2 okstep2 : bool.
Hypothesis Hfn : forall f v, ok f = true -> ~ disc1 f v -> oeq2 (t_fn S f v) (t_fn N f v).
Hypothesis Htrap : oktrap = true -> forall v al, ~ disc_trap v al -> oeq2 (t_trap S v al) (t_trap N v al).
Hypothesis Hheav2 : okheav2 = true -> forall v h0, ~ (v == 0) -> oeq2 (t_heav2 S v h0) (t_heav2 N v h0).
Hypothesis Hstep2 : okstep2 = true -> forall v z0, oeq2 (t_step2 S v z0) (t_step2 N v z0).

(* For every expression over the agreed function symbols and every point at
   which no function argument is a discontinuity, numeric evaluation (table N)
   and exact substitution (table S) give the same result - including "no
   value" (division by zero, no Piecewise clause). *)
Theorem eval_agree : forall e x,
  uses_only ok oktrap okheav2 okstep2 e = true -> no_disc S e x -> eval N e x = eval S e x.
Proof.
  induction e; intros x Hu Hd; cbn [eval]; try reflexivity;
    cbn [uses_only] in Hu; repeat rewrite andb_true_iff in Hu; cbn [no_disc] in Hd.
  all: try (destruct Hu as [Hu1 Hu2]; destruct Hd as [Hd1 Hd2];
            rewrite (IHe1 x Hu1 Hd1), (IHe2 x Hu2 Hd2); reflexivity).
  - rewrite (IHe x Hu Hd). reflexivity.
  - rewrite (IHe x Hu Hd). reflexivity.
  - destruct Hu as [Hu1 Hu2]. destruct Hd as [Hd1 Hd2]. rewrite (IHe x Hu2 Hd1).
    destruct (eval S e x) as [u|]; [|reflexivity].
    symmetry. apply toQc_oeq2. apply Hfn; assumption.
  - destruct Hu as [Hu1 Hu2]. destruct Hd as [Hd1 Hd2]. rewrite (IHe x Hu2 Hd1).
    destruct (eval S e x) as [u|]; [|reflexivity].
    symmetry. apply toQc_oeq2. apply Htrap; assumption.
  - destruct Hu as [Hu1 Hu2]. destruct Hd as [Hd1 Hd2]. rewrite (IHe x Hu2 Hd1).
    destruct (eval S e x) as [u|]; [|reflexivity].
    symmetry. apply toQc_oeq2. apply Hheav2; assumption.
  - destruct Hu as [Hu1 Hu2]. rewrite (IHe x Hu2 Hd).
    destruct (eval S e x) as [u|]; [|reflexivity].
    symmetry. apply toQc_oeq2. apply Hstep2; assumption.
  - destruct Hu as [[[Hu1 Hu2] Hu3] Hu4]. destruct Hd as [Hd1 [Hd2 [Hd3 Hd4]]].
    rewrite (IHe1 x Hu1 Hd1), (IHe2 x Hu2 Hd2), (IHe3 x Hu3 Hd3), (IHe4 x Hu4 Hd4). reflexivity.
Qed.
End Agree.

(* --- the model of `func` (causal short-circuit) and of evaluate_expr -------- *)
Section Func.
Variable T : tab.
Variable guard : bool -> Q -> bool.      (* regenerated from `if is_causal and arg < 0` *)
Variable gval : Q.                       (* regenerated from `return 0` *)

Definition func (is_causal : bool) (e : ex) (x : Qc) : option Qc :=
  if guard is_causal x then Some (Q2Qc gval) else eval T e x.

(* what evaluate_expr does with its argument; regenerated from the statement
   structure of evaluate_expr by tools/tr_numfuncs.py *)
Inductive pstep := PFirst | PScalarRet | PMapAll | PVectorRet.
Inductive argv := Scalar (x : Qc) | Vector (xs : list Qc).
Inductive outv := OScalar (y : Qc) | OVector (ys : list Qc) | ORaise.

Fixpoint seq_all (l : list (option Qc)) : option (list Qc) :=
  match l with
  | [] => Some []
  | o :: r => match o, seq_all r with Some y, Some ys => Some (y :: ys) | _, _ => None end
  end.

(* interpreter of the step list: state = the current `response` *)
Fixpoint run (p : list pstep) (c : bool) (e : ex) (a : argv) (resp : option outv) : outv :=
  match p with
  | [] => ORaise
  | PFirst :: r =>
      let arg0 := match a with Scalar x => Some x | Vector (x :: _) => Some x | Vector [] => None end in
      match arg0 with
      | None => ORaise
      | Some x0 => match func c e x0 with None => ORaise | Some y => run r c e a (Some (OScalar y)) end
      end
  | PScalarRet :: r =>
      match a with
      | Scalar _ => match resp with Some o => o | None => ORaise end
      | Vector _ => run r c e a resp
      end
  | PMapAll :: r =>
      match a with
      | Vector xs => match seq_all (map (func c e) xs) with
                     | Some ys => run r c e a (Some (OVector ys)) | None => ORaise end
      | Scalar _ => ORaise
      end
  | PVectorRet :: _ => match resp with Some o => o | None => ORaise end
  end.

Lemma seq_all_map (f : Qc -> option Qc) xs ys :
  seq_all (map f xs) = Some ys ->
  length ys = length xs /\ forall i x, nth_error xs i = Some x -> option_map Some (nth_error ys i) = Some (f x).
Proof.
  revert ys. induction xs as [|x xs IH]; intros ys H; cbn in H.
  - injection H as <-. split; [reflexivity|]. intros [|i] x; discriminate.
  - destruct (f x) as [y|] eqn:E; [|discriminate].
    destruct (seq_all (map f xs)) as [ys'|] eqn:E2; [|discriminate]. injection H as <-.
    destruct (IH ys' eq_refl) as [L P]. split; [cbn; congruence|].
    intros [|i] x0 Hx; cbn in *.
    + injection Hx as <-. rewrite E. reflexivity.
    + apply P. exact Hx.
Qed.
Lemma seq_all_none (f : Qc -> option Qc) xs :
  seq_all (map f xs) = None -> exists x, In x xs /\ f x = None.
Proof.
  induction xs as [|x xs IH]; cbn; [discriminate|].
  destruct (f x) eqn:E; [|intros _; exists x; auto].
  destruct (seq_all (map f xs)) eqn:E2; [discriminate|]. intros _.
  destruct (IH eq_refl) as [y [Hy Hf]]. exists y. auto.
Qed.
End Func.

(* --- one-step facts about companion models (pure field algebra) ------------ *)
Section Companion.
Variable K : fld.
Add Field KFc : (fth K).
Local Open Scope F_scope.
(* Thevenin companion: resistor Req from node 1 to the dummy node 3, source Veq
   from node 3 to node 2; current i flows 1 -> 3 -> 2 *)
Lemma thevenin_branch (v1 v2 v3 i Req Veq : K) :
  v1 - v3 = Req * i -> v3 - v2 = Veq -> v1 - v2 = Req * i + Veq.
Proof. intros H1 H2. transitivity ((v1 - v3) + (v3 - v2)); [ring|]. rewrite H1, H2. ring. Qed.
End Companion.
