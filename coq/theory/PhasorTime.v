(* C14 - phasors and sinusoids, algebraically.  Over any field K, with
     c = cos phi, s = sin phi   (phase of the source)
     C = cos(omega t), S = sin(omega t)
   a real sinusoid of angular frequency omega is  a C + b S.  Hand model (H) of
   lcapy/phasor.py: construction of the phasor of A cos(omega t + phi) and
   A sin(omega t + phi) (PhasorDomainExpression.from_time with the phase offsets
   of acdc.ACChecker) and the reconstruction  Re(P e^{j omega t})
   (PhasorDomainExpression.time).  Axiom-free. *)
Require Import LT.FieldSec.
Local Open Scope F_scope.

Section PT.
Variable K : fld.
Add Field KFp : (fth K).

(* complex numbers over K (K is thought of as a real field) *)
Record cx := Cx { cre : K; cim : K }.
Definition cadd (a b : cx) := Cx (cre a + cre b) (cim a + cim b).
Definition cmul (a b : cx) := Cx (cre a * cre b - cim a * cim b) (cre a * cim b + cim a * cre b).
Definition cscale (r : K) (a : cx) := Cx (r * cre a) (r * cim a).
Definition cj : cx := Cx 0 1.
Definition c1 : cx := Cx 1 0.
Definition copp (a : cx) := Cx (- cre a) (- cim a).
Lemma cx_eq a b : cre a = cre b -> cim a = cim b -> a = b.
Proof. destruct a, b; cbn; intros -> ->; reflexivity. Qed.

(* quarter turns  j^k : the only phases that stay inside Q(i) *)
Definition qturn (k : Z) : cx :=
  match (k mod 4)%Z with 0%Z => c1 | 1%Z => cj | 2%Z => copp c1 | _ => copp cj end.

(* the two source forms, with phase phi given by (c, s) *)
Inductive trig := TCos | TSin.
Definition sinusoid (f : trig) (A c s C S : K) : K :=
  match f with
  | TCos => A * (c * C - s * S)       (* A cos(omega t + phi) *)
  | TSin => A * (s * C + c * S)       (* A sin(omega t + phi) *)
  end.

(* from_time: amp * exp(j (offset + phi)) with offset 0 for cos, -pi/2 for sin
   (offset given in quarter turns) *)
Definition phasor_of (offs : trig -> Z) (f : trig) (A c s : K) : cx :=
  cscale A (cmul (qturn (offs f)) (Cx c s)).
Definition std_offs (f : trig) : Z := match f with TCos => 0%Z | TSin => (-1)%Z end.

(* time(): Re(P) cos(omega t) - Im(P) sin(omega t) *)
Definition time_of (P : cx) (C S : K) : K := cre P * C - cim P * S.

Theorem time_is_re_rot P C S : time_of P C S = cre (cmul P (Cx C S)).
Proof. reflexivity. Qed.

Theorem phasor_cos A c s : phasor_of std_offs TCos A c s = Cx (A * c) (A * s).
Proof. apply cx_eq; cbn; ring. Qed.
Theorem phasor_sin A c s : phasor_of std_offs TSin A c s = cmul (copp cj) (Cx (A * c) (A * s)).
Proof. apply cx_eq; cbn; ring. Qed.

(* sinusoid -> phasor -> time gives back the same sinusoid *)
Theorem phasor_time_roundtrip f A c s C S :
  time_of (phasor_of std_offs f A c s) C S = sinusoid f A c s C S.
Proof. destruct f; unfold time_of, sinusoid, phasor_of, std_offs, qturn; cbn; ring. Qed.
(* |P| = A when (c, s) is on the unit circle *)
Theorem phasor_abs2 f A c s : c * c + s * s = 1 ->
  let P := phasor_of std_offs f A c s in cre P * cre P + cim P * cim P = A * A.
Proof. intros H. destruct f; unfold phasor_of, std_offs, qturn; cbn.
  - transitivity (A * A * (c * c + s * s)); [ring | rewrite H; ring].
  - transitivity (A * A * (c * c + s * s)); [ring | rewrite H; ring]. Qed.

(* the phasor is determined by its sinusoid (sample omega t = 0 and pi/2) *)
Theorem time_injective P Q : time_of P 1 0 = time_of Q 1 0 -> time_of P 0 1 = time_of Q 0 1 -> P = Q.
Proof. unfold time_of. intros A B. apply cx_eq.
  - transitivity (cre P * 1 - cim P * 0); [ring | rewrite A; ring].
  - transitivity (- (cre P * 0 - cim P * 1)); [ring | rewrite B; ring]. Qed.
(* time -> phasor -> time: any phasor with the same sinusoid is the same phasor *)
Corollary roundtrip_unique f A c s Q :
  (forall C S, time_of Q C S = sinusoid f A c s C S) -> Q = phasor_of std_offs f A c s.
Proof. intros H. apply time_injective; rewrite H, phasor_time_roundtrip; reflexivity. Qed.

(* linearity: same-frequency sinusoids add as their phasors add *)
Theorem time_add P Q C S : time_of (cadd P Q) C S = time_of P C S + time_of Q C S.
Proof. unfold time_of; cbn; ring. Qed.
Theorem time_scale r P C S : time_of (cscale r P) C S = r * time_of P C S.
Proof. unfold time_of; cbn; ring. Qed.

(* differentiation d/dt (C' = -w S, S' = w C) is multiplication by j w *)
Definition dtime (w : K) (P : cx) (C S : K) : K := - (w * cre P * S) - w * cim P * C.
Theorem deriv_is_jw w P C S : dtime w P C S = time_of (cmul (Cx 0 w) P) C S.
Proof. unfold dtime, time_of; cbn; ring. Qed.

(* steady state: phasor relations V = Z(jw) I give the time-domain element laws *)
Theorem steady_R R V I C S : V = cscale R I -> time_of V C S = R * time_of I C S.
Proof. intros ->. apply time_scale. Qed.
Theorem steady_L w L V I C S : V = cmul (Cx 0 (w * L)) I -> time_of V C S = L * dtime w I C S.
Proof. intros ->. unfold dtime, time_of; cbn; ring. Qed.
Theorem steady_C w Cap V I C S : I = cmul (Cx 0 (w * Cap)) V -> time_of I C S = Cap * dtime w V C S.
Proof. intros ->. unfold dtime, time_of; cbn; ring. Qed.
(* a linear relation with a complex transfer value H: y = Re(H P e^{jwt}) *)
Theorem steady_transfer H P C S :
  time_of (cmul H P) C S = cre H * time_of P C S + cim H * (- (cre P * S) - cim P * C).
Proof. unfold time_of; cbn; ring. Qed.
(* polar form: the algebraic content of the sqrt / atan2 contract used by ACChecker._is_sum_ac
   (else branch) and by Expr.magnitude / Expr.phase: if r^2 = x^2 + y^2 and r <> 0 then
   (cos theta, sin theta) := (x / r, y / r) is on the unit circle and r e^{j theta} = x + j y *)
Theorem polar_sound (r x y : K) : r * r = x * x + y * y -> r <> 0 ->
  cscale r (Cx (x / r) (y / r)) = Cx x y /\ (x / r) * (x / r) + (y / r) * (y / r) = 1.
Proof. intros E Hr. split.
  - apply cx_eq; cbn; field; exact Hr.
  - transitivity ((x * x + y * y) / (r * r)); [field; exact Hr | rewrite <- E; field; exact Hr]. Qed.
(* the polar pair is unique up to the sign of r: any (r, c, s) on the unit circle with r (c + j s) = x + j y has r^2 = x^2 + y^2 *)
Theorem polar_modulus (r c s x y : K) : c * c + s * s = 1 -> cscale r (Cx c s) = Cx x y -> r * r = x * x + y * y.
Proof. intros U E. injection E as <- <-. transitivity (r * r * (c * c + s * s)); [rewrite U; ring | ring]. Qed.
(* magnitude of a quotient with real denominator: H = (Nr + j Ni) / D *)
Theorem mag_sq_quotient (Nr Ni D m r : K) : D <> 0 -> r * r = Nr * Nr + Ni * Ni -> m = r / D ->
  m * m = (Nr / D) * (Nr / D) + (Ni / D) * (Ni / D).
Proof. intros HD E ->. transitivity ((r * r) / (D * D)); [field; exact HD | rewrite E; field; exact HD]. Qed.
End PT.
Arguments Cx {K}. Arguments cre {K}. Arguments cim {K}. Arguments cadd {K}. Arguments cmul {K}.
Arguments cscale {K}. Arguments cj {K}. Arguments c1 {K}. Arguments copp {K}. Arguments qturn {K}.
Arguments sinusoid {K}. Arguments phasor_of {K}. Arguments time_of {K}. Arguments dtime {K}.

Print Assumptions phasor_time_roundtrip.
Print Assumptions roundtrip_unique.
Print Assumptions deriv_is_jw.
Print Assumptions steady_C.
Print Assumptions polar_sound.
Print Assumptions polar_modulus.
Print Assumptions mag_sq_quotient.
