(* C13 — Gaussian rationals Qc[i] as an executable instance of [fld]
   (used to evaluate the 4-point DFT model, W = -i, inside Coq). Axiom-free. *)
Require Import LT.FieldSec.
From Coq Require Import Lqa.

Record qci := QI { re : Qc; im : Qc }.
Definition ci0 := QI 0 0. Definition ci1 := QI 1 0.
Definition ciadd (x y : qci) := QI (re x + re y) (im x + im y).
Definition cimul (x y : qci) := QI (re x * re y - im x * im y) (re x * im y + im x * re y).
Definition ciopp (x : qci) := QI (- re x) (- im x).
Definition cisub (x y : qci) := ciadd x (ciopp y).
Definition cinorm (x : qci) : Qc := re x * re x + im x * im x.
Definition ciinv (x : qci) := QI (re x / cinorm x) (- im x / cinorm x).
Definition cidiv (x y : qci) := cimul x (ciinv y).

Lemma qci_eq x y : re x = re y -> im x = im y -> x = y.
Proof. destruct x, y; cbn; intros -> ->; reflexivity. Qed.

Lemma Qc_sq_sum_0 (a b : Qc) : (a * a + b * b = 0 -> a = 0 /\ b = 0)%Qc.
Proof.
  intros H.
  assert (H' : (this (a * a + b * b)%Qc == 0)%Q) by (rewrite H; reflexivity).
  unfold Qcplus, Qcmult in H'. cbn [this Q2Qc] in H'. rewrite !Qred_correct in H'.
  assert (Ha : (this a == 0)%Q) by nra.
  assert (Hb : (this b == 0)%Q) by nra.
  split; apply Qc_is_canon; cbn; assumption.
Qed.
Lemma cinorm_nz x : x <> ci0 -> cinorm x <> 0%Qc.
Proof. intros Hx E. apply Hx. destruct (Qc_sq_sum_0 _ _ E) as [A B]. apply qci_eq; assumption. Qed.

Lemma qci_field : field_theory ci0 ci1 ciadd cimul cisub ciopp cidiv ciinv (@eq qci).
Proof.
  constructor.
  - constructor; intros; apply qci_eq; cbn; ring.
  - intros E. apply (f_equal re) in E. cbn in E. discriminate.
  - reflexivity.
  - intros p Hp. pose proof (cinorm_nz p Hp) as Hn. unfold cinorm in Hn.
    apply qci_eq; cbn; unfold cinorm; field; exact Hn.
Qed.
Lemma qci_dec (x y : qci) : {x = y} + {x <> y}.
Proof. destruct x as [a b], y as [c d].
  destruct (Qc_eq_dec a c) as [->|H1]; [|right; intros E; injection E; auto].
  destruct (Qc_eq_dec b d) as [->|H2]; [left; reflexivity|right; intros E; injection E; auto]. Qed.
Lemma qci_iter_re p x : re (Pos.iter_op ciadd p x) = Pos.iter_op Qcplus p (re x).
Proof. revert x. induction p as [p IH|p IH|]; intros x; cbn [Pos.iter_op].
  - cbn [ciadd re]. rewrite IH. reflexivity.
  - rewrite IH. reflexivity.
  - reflexivity. Qed.
Lemma qci_char0 (p : positive) : Pos.iter_op ciadd p ci1 <> ci0.
Proof. intros E. apply (f_equal re) in E. rewrite qci_iter_re in E. exact (Qc_char0 p E). Qed.
Definition QcIF : fld := MkFld qci ci0 ci1 ciadd cimul cisub ciopp cidiv ciinv qci_field qci_dec qci_char0.
Definition qci_eqb (x y : qci) : bool := qc_eqb (re x) (re y) && qc_eqb (im x) (im y).
Lemma qci_eqb_eq x y : qci_eqb x y = true <-> x = y.
Proof. unfold qci_eqb. rewrite andb_true_iff, !qc_eqb_eq. split.
  - intros [A B]. apply qci_eq; assumption.
  - intros ->. auto. Qed.
Definition ci_i : qci := QI 0 1.
