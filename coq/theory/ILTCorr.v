(* ILTCorr — executable glue for the C10 correspondence evaluation over the
   Gaussian rationals [QcIF]: the normal form parsed from Lcapy's time function
   (finite maps (delay, n, p) |-> coefficient, Dirac coefficients, step flags,
   t >= 0 condition), the flattening of the model result to the same shape,
   the comparison as finite maps, and the per-case verdict code evaluated by
   [Eval vm_compute] in the generated cases_k.v.

   bits of [case_code]:
      1  Lcapy's (Q, R, P, O) certificate rejected by the verified checker pf_check
      2  model result <> Lcapy's time function (as finite maps)
      4  verified round trip of Lcapy's OWN output failed:  L(output) <> input
      8  causality bookkeeping differs: a regular term without its step that is not covered by
         a t >= 0 condition, a condition the model requires is missing, or a condition although
         causality was requested (a harmless extra t >= 0 on impulses/step-qualified terms is accepted)
     16  initial/final value formula differs from the model
     32  residues of the substitution method differ from the model
     64  the translated delay bookkeeping is inconsistent (shift of uresult / position of the step
         differ from the shift of cresult); added by the generated case files
   [case_rt_sound]: bit 4 clear  ==>  L(Lcapy's output) = the input, proved. *)
Require Import LT.FieldSec LT.PolyQ LT.QcI LT.ExpPoly LT.ILT LT.ILTResidue.
Local Open Scope F_scope.
Add Field KIfield : (fth QcIF).

Notation KI := QcIF.
Definition oreg := (Qc * nat * KI * KI * bool)%type.      (* (T, n, p, c, has-step) *)
Definition osing := (Qc * nat * KI)%type.                  (* (T, k, c) *)
Record obs := Obs { o_cond : bool; o_reg : list oreg; o_sing : list osing }.

(* ---- flatten the model result ---------------------------------------------------- *)
Fixpoint sing_entries (T : Qc) (k : nat) (l : list KI) : list osing :=
  match l with [] => [] | c :: l' => (T, k, c) :: sing_entries T (S k) l' end.
Definition reg_entries (T : Qc) (step : bool) (l : list (rterm KI)) : list oreg :=
  map (fun t => match t with (c, n, p) => (T, n, p, c, step) end) l.
Definition flat_reg (m : mres KI) : list oreg :=
  flat_map (fun Tx : Qc * sig KI => reg_entries (fst Tx) true (reg (snd Tx))) (m_c m) ++ reg_entries 0%Qc false (reg (m_u m)).
Definition flat_sing (m : mres KI) : list osing :=
  flat_map (fun Tx : Qc * sig KI => sing_entries (fst Tx) O (sing (snd Tx))) (m_c m) ++ sing_entries 0%Qc O (sing (m_u m)).

(* ---- finite-map comparison ----------------------------------------------------------- *)
Definition reg_coeff (T : Qc) (n : nat) (p : KI) (l : list oreg) : KI :=
  fold_right (fun e acc => match e with (T', n', p', c, _) =>
     if qc_eqb T T' && Nat.eqb n n' && qci_eqb p p' then (c + acc : KI) else acc end) (0 : KI) l.
Definition reg_eq (l1 l2 : list oreg) : bool :=
  forallb (fun e => match e with (T, n, p, _, _) => qci_eqb (reg_coeff T n p l1) (reg_coeff T n p l2) end) (l1 ++ l2).
Definition sing_coeff (T : Qc) (k : nat) (l : list osing) : KI :=
  fold_right (fun e acc => match e with (T', k', c) => if qc_eqb T T' && Nat.eqb k k' then (c + acc : KI) else acc end) (0 : KI) l.
Definition sing_eq (l1 l2 : list osing) : bool :=
  forallb (fun e => match e with (T, k, _) => qci_eqb (sing_coeff T k l1) (sing_coeff T k l2) end) (l1 ++ l2).
(* every regular term must carry its step u(t - T), except delay-free terms of a
   result that is only claimed for t >= 0 *)
Definition steps_ok (cond : bool) (l : list oreg) : bool :=
  forallb (fun e => match e with (T, _, _, _, step) => step || (cond && qc_eqb T 0) end) l.

(* ---- observed output as a delayed signal, aligned with the input delays --------------- *)
Definition obs_sig (T : Qc) (o : obs) : sig KI :=
  Sig (K:=KI)
      (fold_right (fun (e : osing) (acc : list KI) => match e with (T', k, c) => if qc_eqb T T' then padd (K:=KI) (pmonom (K:=KI) c k) acc else acc end) [] (o_sing o))
      (fold_right (fun (e : oreg) (acc : list (rterm KI)) => match e with (T', n, p, c, _) => if qc_eqb T T' then ((c, n, p) : rterm KI) :: acc else acc end) [] (o_reg o)).
Definition memT (T : Qc) (Ts : list Qc) : bool := existsb (qc_eqb T) Ts.
Fixpoint nodupT (Ts : list Qc) : bool := match Ts with [] => true | T :: r => negb (memT T r) && nodupT r end.
Definition obs_delays_ok (Ts : list Qc) (o : obs) : bool :=
  forallb (fun e => match e with (T, _, _, _, _) => memT T Ts end) (o_reg o) &&
  forallb (fun e => match e with (T, _, _) => memT T Ts end) (o_sing o).
Definition ins_of (const : KI) (F : list (cterm KI)) : list (Qc * list KI * list KI) :=
  map (fun ct => (it_delay (ct_term ct), pscale (const * it_const (ct_term ct)) (ct_B ct), ct_A ct)) F.
Definition obs_dsig (Ts : list Qc) (o : obs) : dsig KI := map (fun T => (T, obs_sig T o)) Ts.
Definition rt_check (const : KI) (F : list (cterm KI)) (o : obs) : bool :=
  let ins := ins_of const F in
  let Ts := map (fun i => fst (fst i)) ins in
  nodupT Ts && obs_delays_ok Ts o && roundtrip_list ins (obs_dsig Ts o).

(* bit 4 clear: the Laplace transform of what Lcapy returned (grouped by delay) is the input *)
Theorem case_rt_sound const F o : rt_check const F o = true ->
  forall (E : Qc -> KI) (s : KI), (forall ct, In ct F -> peval (ct_A ct) s <> (0 : KI)) ->
  dLval E s (obs_dsig (map (fun i => fst (fst i)) (ins_of const F)) o) = const * input_sum KI E s F.
Proof. unfold rt_check. intros H E s HA. apply andb_true_iff in H. destruct H as [_ H].
  rewrite (roundtrip_list_sound KI E _ _ H s).
  - clear H. induction F as [|ct F IH]; cbn [ins_of map rat_sum input_sum]; [ring|].
    fold (ins_of const F). rewrite IH by (intros c' Hin; apply HA; right; exact Hin). rewrite peval_pscale.
    assert (Hn : peval (ct_A ct) s <> (0 : KI)) by (apply HA; left; reflexivity).
    field. exact Hn.
  - intros T Bp Ap Hin. unfold ins_of in Hin. apply in_map_iff in Hin. destruct Hin as [ct [Eq Hin]]. inversion Eq; subst. apply HA. exact Hin.
Qed.

(* ---- model evaluation -------------------------------------------------------------------- *)
(* a term is either handled by the general path (certificate) or, with
   damped_sin and degree 2, by the translated do_damped_sin closed forms whose
   (cresult, uresult) pair the generated case file builds with [den] *)
Inductive tsrc := FromCert | FromPair (cu : option (sig KI * sig KI)).
Definition term_eval (B : branches KI) (guard : bool -> nat -> nat -> bool) (causal : bool) (ct : cterm KI) (src : tsrc) : option (tres KI) :=
  match src with
  | FromCert => term_model KI ciconj B guard causal (ct_term ct)
  | FromPair cu => term_of_pair causal (it_const (ct_term ct)) (it_delay (ct_term ct)) cu
  end.
Fixpoint terms_eval B guard causal (F : list (cterm KI)) (srcs : list tsrc) : list (option (tres KI)) :=
  match F with [] => []
  | ct :: F' => term_eval B guard causal ct (hd FromCert srcs) :: terms_eval B guard causal F' (tl srcs) end.
Definition model_eval B guard causal (const : KI) (F : list (cterm KI)) (srcs : list tsrc) : option (mres KI) :=
  make_opt causal const (sum_terms (terms_eval B guard causal F srcs)).
Lemma terms_eval_cert B guard causal F : terms_eval B guard causal F [] = map (term_model KI ciconj B guard causal) (map ct_term F).
Proof. induction F as [|ct F IH]; cbn [terms_eval map hd tl term_eval]; [reflexivity | rewrite IH; reflexivity]. Qed.
(* without damped-sin terms the evaluated model IS the doit_model of the theorems *)
Theorem model_eval_cert B guard causal const F : model_eval B guard causal const F [] = doit_model KI ciconj B guard causal const (map ct_term F).
Proof. unfold model_eval, doit_model, doit_terms. rewrite terms_eval_cert. reflexivity. Qed.

Definition qci_eq_opt (a : option KI) (b : KI) : bool := match a with Some x => qci_eqb x b | None => true end.

Definition bit (ok : bool) (n : nat) : nat := if ok then O else n.
Definition case_code (B : branches KI) (guard : bool -> nat -> nat -> bool)
    (kw : list (aflag * bool)) (const : KI) (F : list (cterm KI)) (srcs : list tsrc) (use_model : bool)
    (o : obs) (iv fv : option KI) : nat :=
  let causal := eff_causal (Some Aunknown) kw in
  let c1 := bit (forallb cert_ok F) 1 in
  let c2 :=
    if use_model then
      match model_eval B guard causal const F srcs with
      | None => 2%nat
      | Some m => Nat.add (bit (reg_eq (flat_reg m) (o_reg o) && sing_eq (flat_sing m) (o_sing o)) 2)
                          (bit ((if m_cond m then o_cond o else (negb causal || negb (o_cond o))) && steps_ok (o_cond o) (o_reg o)) 8)
      end
    else bit (steps_ok (o_cond o) (o_reg o) && (negb causal || negb (o_cond o))) 8 in
  let c4 := bit (rt_check const F o) 4 in
  let c16 :=
    match F with
    | [ct] => bit (qci_eq_opt iv (const * it_const (ct_term ct) * pf_iv (it_ts (ct_term ct)))
                   && qci_eq_opt fv (const * it_const (ct_term ct) * pf_fv (it_ts (ct_term ct)))) 16
    | _ => O end in
  Nat.add (Nat.add c1 c2) (Nat.add c4 c16).

(* expected Python exception (negative delay): the model must predict it *)
Definition predicts_error B guard (kw : list (aflag * bool)) (const : KI) (F : list (cterm KI)) : bool :=
  match model_eval B guard (eff_causal (Some Aunknown) kw) const F [] with None => true | Some _ => false end.

(* ---- Ratfun._find_residues_sub: model of ILTResidue.v against Lcapy's R, P, O -------------- *)
Fixpoint qlist_eqb (l m : list KI) : bool :=
  match l, m with [], [] => true | a :: l', b :: m' => qci_eqb a b && qlist_eqb l' m' | _, _ => false end.
Fixpoint nlist_eqb (l m : list nat) : bool :=
  match l, m with [], [] => true | a :: l', b :: m' => Nat.eqb a b && nlist_eqb l' m' | _, _ => false end.
(* Lcapy's residues = the model with the TRANSLATED selection test and divisor = the Taylor-jet
   residues of ILTResidue.residue_k_general (every multiplicity) *)
Definition residues_chk_d (sel : bool -> nat -> nat -> bool) (dv : nat -> nat -> KI) (poles : list (KI * nat)) (Bn : list KI)
    (R P : list KI) (Os : list nat) : bool :=
  let es := pole_entries (K:=KI) 0%nat poles in
  qlist_eqb (residues_sub_d (K:=KI) sel dv poles Bn) R &&
  qlist_eqb (residues_jet (K:=KI) poles Bn) R &&
  qlist_eqb (map (fun e => match e with (_, p, _, _) => p end) es) P &&
  nlist_eqb (map (fun e => match e with (_, _, o, _) => o end) es) Os.
Definition residues_chk sel := residues_chk_d sel (fact_div (K:=KI)).

(* products with an undefined transform: classification of Lcapy's result *)
Definition utime_eqb (a b : utime) : bool :=
  match a, b with
  | UDeriv n i, UDeriv m k => Nat.eqb n m && Bool.eqb i k
  | UInt, UInt => true
  | UConv c, UConv d => Bool.eqb c d
  | UFunc, UFunc => true
  | _, _ => false
  end.
Definition undef_chk (kw : list (aflag * bool)) (zic : bool) (f : ufac) (observed : utime) : bool :=
  utime_eqb (undef_model (eff_causal (Some Aunknown) kw) zic f) observed.

(* typed constructors for the generated case files *)
Definition mkterm (c : KI) (T : Qc) (C : list KI) (ts : list (KI * KI * nat)) (Bp Ap : list KI) : cterm KI :=
  CTerm (ITerm c T C ts) Bp Ap.
Definition zero_sig : sig KI := szero.
Definition jI : KI := cii.
Definition someq (x : KI) : option KI := Some x.

(* the cases whose verdict code is not 0, as (index, code) pairs *)
Definition failing (l : list (nat * nat)) : list (nat * nat) :=
  filter (fun p => negb (Nat.eqb (snd p) 0)) l.
