(* FourierTable - the textbook Fourier table in the function AST of FourierFn.v
   (one closed form per pattern id of tools/tr_fourier.py), and the proof that
   each closed form is an [FPair] of the specification FourierSpec.v.  The
   closed forms that the translator extracts from lcapy/fourier.py are compared
   with these (generated theorems table_sound_<line>, table_inv_<line> of
   checks/c12.py).  Parameters: Par 0 = const, 1 = constant value, 2 = c0,
   3 = c1, 4 = alpha, 7 = scale, 8 = shift, 9 = exponent/t of the complex
   exponential factor, 10 = t (cancels), 11 = dt.  Axiom-free. *)
Require Import LT.FieldSec LT.PolyQ LT.ExpPoly LT.FourierSpec LT.FourierFn.
Local Open Scope F_scope.

Definition N2 := Num 2 1.
Definition TPI := Mul N2 Pi.
Definition Sub (a b : fn) := Add a (Neg b).
Definition Dv (a b : fn) := Mul a (Inv b).

Definition sp_const := Mul (Mul (Par 1) (Par 0)) (Dl 0 Var).
Definition sp_t := Mul (Mul (Par 0) (Dv Jm TPI)) (Dl 1 Var).
Definition sp_t2 := Mul (Neg (Dv (Par 0) (Pw TPI 2))) (Dl 2 Var).
Definition sp_abs := Neg (Dv (Par 0) (Mul N2 (Pw (Mul Pi Var) 2))).
Definition sp_sign := Dv (Par 0) (Mul (Mul Jm Pi) Var).
Definition sp_step := Mul (Par 0) (Add (Dv (Dl 0 Var) N2) (Inv (Mul (Mul Jm TPI) Var))).
Definition sp_recip := Neg (Mul (Mul (Mul (Par 0) Jm) Pi) (App HSign Var)).
Definition sp_recip2 := Neg (Mul (Mul (Mul (Mul (Par 0) N2) (Pw Pi 2)) Var) (App HSign Var)).
Definition sp_tstep := Mul (Par 0) (Sub (Dv (Mul Jm (Dl 1 Var)) (Mul (Num 4 1) Pi)) (Inv (Pw (Mul TPI Var) 2))).
Definition sp_expu := Dv (Mul (Par 0) (App HExp (Par 2))) (Sub (Mul (Mul Jm TPI) Var) (Par 3)).
Definition sp_sincn := Mul (Par 0) (App HRect Var).
Definition sp_sincu := Mul (Mul (Par 0) Pi) (App HRect (Mul Pi Var)).
Definition sp_sincn2 := Mul (Par 0) (App HTri Var).
Definition sp_rect := Mul (Par 0) (App HSincn Var).
Definition sp_tri := Mul (Par 0) (Pw (App HSincn Var) 2).
Definition sp_trap := Mul (Mul (Par 0) (App HSincn Var)) (App HSincn (Mul (Par 4) Var)).
Definition sp_trap0 := Mul (Par 0) (App HSincn Var).
Definition sp_s := Dv (Mul TPI Jm) (Par 3).
Definition sp_reciplin := Mul (Mul (Mul (Par 0) sp_s) (App HExp (Mul (Mul (Par 2) Var) sp_s))) (App HHeav (Neg Var)).
Definition sp_sech := Dv (Mul (Par 0) Pi) (App HCosh (Mul (Pw Pi 2) Var)).
Definition sp_csch := Neg (Mul (Mul (Mul Jm (Par 0)) Pi) (App HTanh (Mul (Pw Pi 2) Var))).
Definition sp_tanh := Neg (Dv (Mul (Mul Jm (Par 0)) Pi) (App HSinh (Mul (Pw Pi 2) Var))).
(* t/(a t - j b), b/a > 0 (pole in the upper half plane): 1/a + (j b/a^2)/(t - j b/a) *)
Definition sp_tratio :=
  Mul (Par 0) (Sub (Dv (Dl 0 Var) (Par 5))
                   (Mul (Mul (Dv (Mul TPI (Par 6)) (Pw (Par 5) 2)) (App HExp (Mul (Dv (Mul TPI (Par 6)) (Par 5)) Var))) (App HHeav (Neg Var)))).
(* the same for b/a < 0 (pole in the lower half plane) *)
Definition sp_tration :=
  Mul (Par 0) (Add (Dv (Dl 0 Var) (Par 5))
                   (Mul (Mul (Dv (Mul TPI (Par 6)) (Pw (Par 5) 2)) (App HExp (Mul (Dv (Mul TPI (Par 6)) (Par 5)) Var))) (App HHeav Var))).
Definition sp_cexp := Mul (Par 0) (Dl 0 (Sub Var (Dv (Par 9) (Mul Jm TPI)))).
Definition sp_simshift :=
  Mul (Par 0) (Mul (Dv (Rec (Dv Var (Par 7))) (App HAbs (Par 7))) (App HExp (Mul (Dv (Mul (Mul Jm TPI) Var) (Par 7)) (Par 8)))).
Definition sp_mod := Mul (Par 0) (Rec (Sub Var (Dv (Par 9) (Mul Jm TPI)))).

Section Sound.
Variable K : fld.
Add Field KFft : (fth K).
Variable C : fctx K.
Variable rho : nat -> K.
Variable Q : K -> K.
Notation pi := (c_pi C). Notation j := (c_j C).
Notation E := (c_E C). Notation hv := (c_hv C). Notation sg := (c_sg C). Notation dl := (c_dl C).
Notation sn := (c_sn C). Notation rc := (c_rc C). Notation tr := (c_tr C). Notation tp := (c_tp C).
Notation FP := (FPair C).
Notation evq := (ev C rho Q).

Ltac evs := cbn [ev happ fofZ fofpos Pos.iter_op fpow sp_const sp_t sp_t2 sp_abs sp_sign sp_step sp_recip sp_recip2
  sp_tstep sp_expu sp_sincn sp_sincu sp_sincn2 sp_rect sp_tri sp_trap sp_trap0 sp_s sp_reciplin sp_sech sp_csch sp_tanh
  sp_cexp sp_simshift sp_mod sp_tratio sp_tration N2 TPI Sub Dv].
Ltac nzc := pose proof (tpi_nz K C) as Htpi; pose proof (j_nz K C) as Hj; pose proof (two_nz K) as H2;
  pose proof (c_pi_nz C) as Hpi; unfold tpi, two in *.
Ltac offp l t := apply (eqae_off K l); intros t ?Hin; cbv beta.
Ltac notin H := let I := fresh in intro I; apply H; cbn [In]; tauto.

Theorem sp_sound_const : FP (fun _ => rho 1 * rho 0) (evq sp_const).
Proof. eapply FP_exteq; [ | | exact (FP_scale K C (rho 1 * rho 0) _ _ (FP_const K C))]; intros; evs; ring. Qed.
Theorem sp_sound_t : FP (fun t => rho 0 * t) (evq sp_t).
Proof. nzc. eapply FP_exteq; [ | | exact (FP_scale K C (rho 0) _ _ (FP_t K C))]; intros; evs; [reflexivity|].
  unfold tpi, two. field. nz. Qed.
Theorem sp_sound_t2 : FP (fun t => rho 0 * (t * t)) (evq sp_t2).
Proof. nzc. eapply FP_exteq; [ | | exact (FP_scale K C (rho 0) _ _ (FP_t2 K C))]; intros; evs; [reflexivity|].
  unfold tpi, two. field. nz. Qed.
Theorem sp_sound_abs : FP (fun t => rho 0 * c_ab C t) (evq sp_abs).
Proof. nzc. eapply FP_ext; [ | | exact (FP_scale K C (rho 0) _ _ (FP_abs K C))].
  - apply eqae_all. intros t. cbv beta. rewrite (c_ab_sg C). reflexivity.
  - offp [0 : K] f. assert (f <> 0) by (intro Z; apply Hin; left; symmetry; exact Z). evs. unfold two. field. nz. Qed.
Theorem sp_sound_sign : FP (fun t => rho 0 * sg t) (evq sp_sign).
Proof. nzc. eapply FP_ext; [ | | exact (FP_scale K C (rho 0) _ _ (FP_sign K C))]; [apply eqae_refl|].
  offp [0 : K] f. assert (f <> 0) by (intro Z; apply Hin; left; symmetry; exact Z). evs. field. nz. Qed.
Theorem sp_sound_step : FP (fun t => rho 0 * hv t) (evq sp_step).
Proof. nzc. eapply FP_ext; [ | | exact (FP_scale K C (rho 0) _ _ (FP_step K C))]; [apply eqae_refl|].
  offp [0 : K] f. assert (f <> 0) by (intro Z; apply Hin; left; symmetry; exact Z). evs. unfold tpi, two. field. nz. Qed.
Theorem sp_sound_recip : FP (fun t => rho 0 * (1 / t)) (evq sp_recip).
Proof. eapply FP_exteq; [ | | exact (FP_scale K C (rho 0) _ _ (FP_recip K C))]; intros; evs; [reflexivity | ring]. Qed.
Theorem sp_sound_recip2 : FP (fun t => rho 0 * (1 / (t * t))) (evq sp_recip2).
Proof. eapply FP_exteq; [ | | exact (FP_scale K C (rho 0) _ _ (FP_recip2 K C))]; intros; evs; [reflexivity | unfold two; ring]. Qed.
Theorem sp_sound_tstep : FP (fun t => rho 0 * (hv t * t)) (evq sp_tstep).
Proof. nzc.
  pose proof (FP_scale K C (rho 0) _ _ (FP_lin K C (1 / (1 + 1)) (1 / (1 + 1)) _ _ _ _ (FP_t K C) (FP_abs K C))) as H.
  eapply FP_ext; [ | | exact H].
  - apply eqae_all. intros t. cbv beta. rewrite (c_hv_sg C). field. nz.
  - offp [0 : K] f. assert (f <> 0) by (intro Z; apply Hin; left; symmetry; exact Z). evs. unfold tpi, two. field. nz. Qed.
Theorem sp_sound_expu : c_stable C (rho 3) -> FP (fun t => rho 0 * (hv t * E (rho 3 * t + rho 2))) (evq sp_expu).
Proof. intros Hs. nzc.
  eapply FP_ext; [ | | exact (FP_scale K C (rho 0 * E (rho 2)) _ _ (FP_expu K C (rho 3) Hs))].
  - apply eqae_all. intros t. cbv beta. rewrite (c_E_add C). ring.
  - offp [rho 3 / (j * ((1 + 1) * pi))] f.
    assert (j * ((1 + 1) * pi) * f - rho 3 <> 0).
    { intro Z. apply Hin. left. transitivity ((j * ((1 + 1) * pi) * f - rho 3 + rho 3) / (j * ((1 + 1) * pi))); [rewrite Z|]; field; nz. }
    evs. unfold tpi, two. field. nz. Qed.
Theorem sp_sound_sincn : FP (fun t => rho 0 * sn t) (evq sp_sincn).
Proof. eapply FP_exteq; [ | | exact (FP_scale K C (rho 0) _ _ (FP_sincn K C))]; intros; evs; ring. Qed.
Theorem sp_sound_sincu : FP (fun t => rho 0 * sn (t / pi)) (evq sp_sincu).
Proof. nzc.
  assert (Rip : c_isR C (1 / pi)) by (apply (c_isR_inv C), (c_isR_pi C)).
  assert (Hip : 1 / pi <> 0) by (apply div_nz; [apply one_nz | exact Hpi]).
  eapply FP_exteq; [ | | exact (FP_scale K C (rho 0) _ _ (FP_scaling K C (1 / pi) _ _ Rip Hip (FP_sincn K C)))]; intros; evs.
  - replace (1 / pi * t) with (t / pi) by (field; nz). reflexivity.
  - rewrite (c_rabs_inv C pi (c_isR_pi C) Hpi), (c_rabs_pi C). replace (f / (1 / pi)) with (pi * f) by (field; nz). field. nz. Qed.
Theorem sp_sound_sincn2 : FP (fun t => rho 0 * (sn t * sn t)) (evq sp_sincn2).
Proof. eapply FP_exteq; [ | | exact (FP_scale K C (rho 0) _ _ (FP_sincn2 K C))]; intros; evs; ring. Qed.
Theorem sp_sound_rect : FP (fun t => rho 0 * rc t) (evq sp_rect).
Proof. eapply FP_exteq; [ | | exact (FP_scale K C (rho 0) _ _ (FP_rect K C))]; intros; evs; ring. Qed.
Theorem sp_sound_tri : FP (fun t => rho 0 * tr t) (evq sp_tri).
Proof. eapply FP_exteq; [ | | exact (FP_scale K C (rho 0) _ _ (FP_tri K C))]; intros; evs; ring. Qed.
Theorem sp_sound_trap : FP (fun t => rho 0 * tp t (rho 4)) (evq sp_trap).
Proof. eapply FP_exteq; [ | | exact (FP_scale K C (rho 0) _ _ (FP_trap K C (rho 4)))]; intros; evs; ring. Qed.
Theorem sp_sound_trap0 : FP (fun t => rho 0 * tp t 0) (evq sp_trap0).
Proof. eapply FP_exteq; [ | | exact (FP_scale K C (rho 0) _ _ (FP_trap K C 0))]; intros; evs; [ring|].
  replace (0 * f) with (0 : K) by ring. rewrite (c_sn0 C). ring. Qed.
Theorem sp_sound_reciplin : rho 3 <> 0 -> c_stable C (- (rho 2 * (((1 + 1) * pi * j) / rho 3))) ->
  FP (fun t => rho 0 * (1 / (rho 3 * t + rho 2))) (evq sp_reciplin).
Proof. intros H3 Hs. nzc. set (s := ((1 + 1) * pi * j) / rho 3) in *.
  eapply FP_ext; [ | | exact (FP_scale K C (rho 0 * s) _ _ (FP_rtnexpu K C 0 _ Hs))].
  - offp [- rho 2 / rho 3] t.
    assert (rho 3 * t + rho 2 <> 0).
    { intro Z. apply Hin. left. transitivity ((rho 3 * t + rho 2 - rho 2) / rho 3); [rewrite Z|]; field; nz. }
    unfold s, tpi, two. cbn [fpow]. field. nz.
  - apply eqae_all. intros f. evs. cbn [natfact fnat].
    assert (Es : (1 + 1) * pi * j * (1 / rho 3) = s) by (unfold s; field; nz). rewrite !Es.
    replace (- - (rho 2 * s) * f) with (rho 2 * f * s) by ring. field. apply one_nz. Qed.
Theorem sp_sound_sech : FP (fun t => rho 0 * (1 / c_ch C t)) (evq sp_sech).
Proof. eapply FP_exteq; [ | | exact (FP_scale K C (rho 0) _ _ (FP_sech K C))]; intros; evs.
  - rewrite (c_se_def C). reflexivity.
  - rewrite (c_se_def C). unfold fdiv. rewrite !(Fdiv_def (fth K)). replace (pi * (pi * 1) * f) with (pi * pi * f) by ring. ring. Qed.
Theorem sp_sound_csch : FP (fun t => rho 0 * (1 / c_sh C t)) (evq sp_csch).
Proof. eapply FP_exteq; [ | | exact (FP_scale K C (rho 0) _ _ (FP_csch K C))]; intros; evs.
  - rewrite (c_cs_def C). reflexivity.
  - replace (pi * (pi * 1) * f) with (pi * pi * f) by ring. ring. Qed.
Theorem sp_sound_tanh : FP (fun t => rho 0 * c_th C t) (evq sp_tanh).
Proof. eapply FP_exteq; [ | | exact (FP_scale K C (rho 0) _ _ (FP_tanh K C))]; intros; evs; [reflexivity|].
  rewrite (c_cs_def C). unfold fdiv. rewrite !(Fdiv_def (fth K)). replace (pi * (pi * 1) * f) with (pi * pi * f) by ring. ring. Qed.
Theorem sp_sound_tratio : rho 5 <> 0 -> c_stable C (- (((1 + 1) * pi) * rho 6 / rho 5)) ->
  FP (fun t => rho 0 * (t / (rho 5 * t - j * rho 6))) (evq sp_tratio).
Proof. intros H5 Hs. nzc. set (c := - (((1 + 1) * pi) * rho 6 / rho 5)) in *.
  pose proof (FP_scale K C (rho 0) _ _ (FP_lin K C (1 / rho 5) (- (rho 6 * ((1 + 1) * pi)) / (rho 5 * rho 5)) _ _ _ _ (FP_const K C) (FP_rtnexpu K C 0 c Hs))) as H.
  eapply FP_ext; [ | | exact H].
  - offp [j * rho 6 / rho 5] t.
    assert (D1 : rho 5 * t - j * rho 6 <> 0).
    { intro Z. apply Hin. left. transitivity ((rho 5 * t - j * rho 6 + j * rho 6) / rho 5); [rewrite Z|]; field; nz. }
    pose proof (c_j2 C) as J2.
    assert (E1 : j * ((1 + 1) * pi) * t - c = (j * ((1 + 1) * pi) / rho 5) * (rho 5 * t - j * rho 6)).
    { unfold c. field_simplify_eq; [knsatz | nz]. }
    assert (D2 : j * ((1 + 1) * pi) * t - c <> 0) by (rewrite E1; apply mul_nz; [apply div_nz; nz | exact D1]).
    unfold tpi, two. cbn [fpow]. rewrite E1. field_simplify_eq; [knsatz | nz].
  - apply eqae_all. intros f. evs. cbn [natfact fnat fpow]. unfold c.
    replace (- - ((1 + 1) * pi * rho 6 / rho 5) * f) with ((1 + 1) * pi * rho 6 * (1 / rho 5) * f) by (field; nz).
    field. nz.
Qed.
Theorem sp_sound_tration : rho 5 <> 0 -> c_stable C (((1 + 1) * pi) * rho 6 / rho 5) ->
  FP (fun t => rho 0 * (t / (rho 5 * t - j * rho 6))) (evq sp_tration).
Proof. intros H5 Hs. nzc. set (c := ((1 + 1) * pi) * rho 6 / rho 5) in *.
  pose proof (FP_scale K C (rho 0) _ _ (FP_lin K C (1 / rho 5) ((rho 6 * ((1 + 1) * pi)) / (rho 5 * rho 5)) _ _ _ _ (FP_const K C)
                (FP_reverse K C _ _ (FP_rtnexpu K C 0 c Hs)))) as H.
  eapply FP_ext; [ | | exact H].
  - offp [j * rho 6 / rho 5] t.
    assert (D1 : rho 5 * t - j * rho 6 <> 0).
    { intro Z. apply Hin. left. transitivity ((rho 5 * t - j * rho 6 + j * rho 6) / rho 5); [rewrite Z|]; field; nz. }
    pose proof (c_j2 C) as J2.
    assert (E1 : j * ((1 + 1) * pi) * - t - c = (- (j * ((1 + 1) * pi)) / rho 5) * (rho 5 * t - j * rho 6)).
    { unfold c. field_simplify_eq; [knsatz | nz]. }
    assert (D2 : j * ((1 + 1) * pi) * - t - c <> 0) by (rewrite E1; apply mul_nz; [apply div_nz; nz | exact D1]).
    unfold tpi, two. cbn [fpow]. rewrite E1. field_simplify_eq; [knsatz | nz].
  - apply eqae_all. intros f. evs. cbn [natfact fnat fpow]. unfold c.
    replace (- ((1 + 1) * pi * rho 6 / rho 5) * - f) with ((1 + 1) * pi * rho 6 * (1 / rho 5) * f) by (field; nz).
    replace (- - f) with f by ring.
    field. nz.
Qed.
(* complex exponential e^{ea t} with ea = j 2 pi f0, f0 real: modulation of the constant *)
Theorem sp_sound_cexp : c_isR C (rho 9 / (j * tpi C)) -> FP (fun t => rho 0 * E (rho 9 * t)) (evq sp_cexp).
Proof. intros HR. nzc.
  eapply FP_exteq; [ | | exact (FP_scale K C (rho 0) _ _ (FP_mod K C _ _ _ HR (FP_const K C)))]; intros; evs.
  - replace (j * tpi C * (rho 9 / (j * ((1 + 1) * pi))) * t) with (rho 9 * t) by (unfold tpi, two; field; nz). ring.
  - unfold tpi, two. apply f_equal. apply f_equal. field. nz. Qed.
(* rules *)
Theorem sp_sound_simshift x : c_isR C (rho 7) -> c_isR C (rho 8) -> rho 7 <> 0 -> FP x Q ->
  FP (fun t => rho 0 * x (rho 7 * t + rho 8)) (evq sp_simshift).
Proof. intros R7 R8 H7 Hx. nzc. pose proof (c_rabs_nz C _ R7 H7) as Hr.
  eapply FP_exteq; [ | | exact (FP_scale K C (rho 0) _ _ (FP_sim K C _ _ _ _ R7 R8 H7 Hx))]; intros; evs; [reflexivity|].
  rewrite (c_ab_rabs C _ R7). unfold tpi, two.
  replace (j * ((1 + 1) * pi) * f * (1 / rho 7) * rho 8) with (j * ((1 + 1) * pi) * f * rho 8 / rho 7) by (field; nz).
  replace (f * (1 / rho 7)) with (f / rho 7) by (field; nz).
  field. nz. Qed.
Theorem sp_sound_mod x : c_isR C (rho 9 / (j * tpi C)) -> FP x Q ->
  FP (fun t => rho 0 * (E (rho 9 * t) * x t)) (evq sp_mod).
Proof. intros HR Hx. nzc.
  eapply FP_exteq; [ | | exact (FP_scale K C (rho 0) _ _ (FP_mod K C _ _ _ HR Hx))]; intros; evs.
  - replace (j * tpi C * (rho 9 / (j * ((1 + 1) * pi))) * t) with (rho 9 * t) by (unfold tpi, two; field; nz). reflexivity.
  - unfold tpi, two. apply f_equal. apply f_equal. field. nz. Qed.
End Sound.

(* ---- tactics for the generated obligations (checks/c12.py) ------------------------
   [tab_solve]: after unfolding [ev], make the arguments of the function symbols
   syntactically equal where they are provably equal (or opposite, using the parity
   laws), then close the goal by reflexivity / ring / field. *)
Section Parity.
Variable K : fld.
Add Field KFpar : (fth K).
Variable C : fctx K.
Lemma par_dl0 x : c_dl C 0 (- x) = c_dl C 0 x. Proof. rewrite (c_dl_par C). cbn [fpow]. ring. Qed.
Lemma par_dl1 x : c_dl C 1 (- x) = - c_dl C 1 x. Proof. rewrite (c_dl_par C). cbn [fpow]. ring. Qed.
Lemma par_dl2 x : c_dl C 2 (- x) = c_dl C 2 x. Proof. rewrite (c_dl_par C). cbn [fpow]. ring. Qed.
Lemma par_hv x : c_hv C (- x) = 1 - c_hv C x.
Proof. rewrite !(c_hv_sg C), (c_sg_odd C). pose proof (two_nz K) as H2. unfold two in H2. field. exact H2. Qed.
Lemma par_ab x : c_ab C (- x) = c_ab C x. Proof. rewrite !(c_ab_sg C), (c_sg_odd C). ring. Qed.
End Parity.

Ltac uarg f := repeat match goal with |- context [f ?a] => match goal with |- context [f ?b] =>
  tryif constr_eq a b then fail else
    (let H := fresh in assert (H : f a = f b) by (apply f_equal; first [ring | field; nz]); rewrite H; clear H) end end.
Ltac uarg_par f law := repeat match goal with |- context [f ?a] => match goal with |- context [f ?b] =>
  tryif constr_eq a b then fail else
    (let H := fresh in let G := fresh in
     assert (H : a = - b) by (first [ring | field; nz]);
     pose proof (law b) as G; rewrite <- H in G; rewrite G; clear G H) end end.
Ltac tab_norm K C Q :=
  uarg (c_E C); uarg Q; uarg (c_dl C 0); uarg (c_dl C 1); uarg (c_dl C 2); uarg (c_sg C); uarg (c_hv C);
  uarg (c_sn C); uarg (c_rc C); uarg (c_tr C); uarg (c_ch C); uarg (c_sh C); uarg (c_th C); uarg (c_ab C);
  uarg_par (c_dl C 0) (par_dl0 K C); uarg_par (c_dl C 1) (par_dl1 K C); uarg_par (c_dl C 2) (par_dl2 K C);
  uarg_par (c_sg C) (c_sg_odd C); uarg_par (c_hv C) (par_hv K C);
  uarg_par (c_sn C) (c_sn_even C); uarg_par (c_rc C) (c_rc_even C); uarg_par (c_tr C) (c_tr_even C);
  uarg_par (c_ch C) (c_ch_even C); uarg_par (c_sh C) (c_sh_odd C); uarg_par (c_th C) (c_th_odd C);
  uarg_par (c_ab C) (par_ab K C);
  repeat match goal with |- context [c_tp C ?a ?al] => match goal with |- context [c_tp C ?b al] =>
    tryif constr_eq a b then fail else
      first [ (let H := fresh in assert (H : c_tp C a al = c_tp C b al) by (apply (f_equal (fun z => c_tp C z al)); first [ring | field; nz]); rewrite H; clear H)
            | (let H := fresh in let G := fresh in assert (H : a = - b) by (first [ring | field; nz]);
               pose proof (c_tp_even C b al) as G; rewrite <- H in G; rewrite G; clear G H) ] end end.
Ltac tab_close := first [ reflexivity | ring | (field; nz) ].
Ltac tab_evs := cbn [ev happ fofZ fofpos Pos.iter_op fpow sp_const sp_t sp_t2 sp_abs sp_sign sp_step sp_recip sp_recip2
  sp_tstep sp_expu sp_sincn sp_sincu sp_sincn2 sp_rect sp_tri sp_trap sp_trap0 sp_s sp_reciplin sp_sech sp_csch sp_tanh
  sp_cexp sp_simshift sp_mod sp_tratio sp_tration N2 TPI Sub Dv].
