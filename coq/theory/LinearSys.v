(* C03 - linearity of sparse MNA systems (update lists of Circuit.v).
   Generic facts, independent of any stamp:
   - the matrix part [lin] of an update list is linear in the unknown vector;
   - relations between update lists that share the matrix part and whose
     right-hand sides add / scale ([add_rel], [scale_rel], [sum_rel]) are
     closed under concatenation (so they lift from stamps to netlists);
   - solutions add and scale (superposition), a finite family of solutions
     sums to a solution of the summed right-hand side;
   - when the homogeneous system is injective the solution is unique, hence
     the solved response is additive and homogeneous in the sources.
   Arbitrary characteristic-0 field, axiom-free. *)
Require Import LT.FieldSec LT.Circuit.
Local Open Scope Z_scope.

Section Lin.
Variable K : fld.
Add Field KFl : (fth K).
Implicit Types (T : list (upd K)) (v ib x y : Z -> K).

Definition vadd x y : Z -> K := fun i => fadd (x i) (y i).
Definition vscale (k : K) x : Z -> K := fun i => fmul k (x i).
Definition vzero : Z -> K := fun _ => f0.
Definition vsub x y : Z -> K := fun i => fsub (x i) (y i).
Fixpoint vsum (l : list (Z -> K)) : Z -> K :=
  match l with [] => vzero | x :: l' => vadd x (vsum l') end.
Fixpoint fsum (l : list K) : K := match l with [] => f0 | a :: l' => fadd a (fsum l') end.

(* ---- the matrix part is linear in the unknowns ------------------------- *)
Lemma lin_vadd T mm r x y : lin T mm r (vadd x y) = fadd (lin T mm r x) (lin T mm r y).
Proof. induction T as [|u T IH]; cbn [lin]; [ring|]. rewrite IH. unfold vadd.
  destruct (mname_eqb (um u) mm); ring. Qed.
Lemma lin_vscale T mm r k x : lin T mm r (vscale k x) = fmul k (lin T mm r x).
Proof. induction T as [|u T IH]; cbn [lin]; [ring|]. rewrite IH. unfold vscale.
  destruct (mname_eqb (um u) mm); ring. Qed.
Lemma lin_vsub T mm r x y : lin T mm r (vsub x y) = fsub (lin T mm r x) (lin T mm r y).
Proof. induction T as [|u T IH]; cbn [lin]; [ring|]. rewrite IH. unfold vsub.
  destruct (mname_eqb (um u) mm); ring. Qed.
Lemma lin_vzero T mm r : lin T mm r vzero = f0.
Proof. induction T as [|u T IH]; cbn [lin]; [ring|]. rewrite IH. unfold vzero.
  destruct (mname_eqb (um u) mm); ring. Qed.

(* ---- relations between update lists ------------------------------------ *)
(* same matrix part (G, B, C, D) *)
Definition mat_eq T1 T2 : Prop :=
  forall mm r x, is_vec mm = false -> lin T1 mm r x = lin T2 mm r x.
(* right-hand sides (Is, Es) add / scale *)
Definition vec_add T1 T2 T12 : Prop :=
  forall mm r, is_vec mm = true -> vecv T12 mm r = fadd (vecv T1 mm r) (vecv T2 mm r).
Definition vec_scale (k : K) T Tk : Prop :=
  forall mm r, is_vec mm = true -> vecv Tk mm r = fmul k (vecv T mm r).
Definition vec_zero T : Prop := forall mm r, is_vec mm = true -> vecv T mm r = f0.
Definition add_rel T1 T2 T12 : Prop := mat_eq T1 T12 /\ mat_eq T2 T12 /\ vec_add T1 T2 T12.
Definition scale_rel (k : K) T Tk : Prop := mat_eq T Tk /\ vec_scale k T Tk.

Lemma mat_eq_refl T : mat_eq T T.
Proof. intros mm r x _. reflexivity. Qed.
Lemma mat_eq_sym T1 T2 : mat_eq T1 T2 -> mat_eq T2 T1.
Proof. intros H mm r x Hm. symmetry. apply H. exact Hm. Qed.
Lemma mat_eq_trans T1 T2 T3 : mat_eq T1 T2 -> mat_eq T2 T3 -> mat_eq T1 T3.
Proof. intros H1 H2 mm r x Hm. rewrite (H1 mm r x Hm). apply H2. exact Hm. Qed.
Lemma mat_eq_app A1 A2 B1 B2 : mat_eq A1 A2 -> mat_eq B1 B2 -> mat_eq (A1 ++ B1) (A2 ++ B2).
Proof. intros HA HB mm r x Hm. rewrite !lin_app, (HA mm r x Hm), (HB mm r x Hm). reflexivity. Qed.
Lemma vec_add_app A1 A2 A12 B1 B2 B12 :
  vec_add A1 A2 A12 -> vec_add B1 B2 B12 -> vec_add (A1 ++ B1) (A2 ++ B2) (A12 ++ B12).
Proof. intros HA HB mm r Hm. rewrite !vecv_app, (HA mm r Hm), (HB mm r Hm). ring. Qed.
Lemma vec_scale_app k A Ak B Bk :
  vec_scale k A Ak -> vec_scale k B Bk -> vec_scale k (A ++ B) (Ak ++ Bk).
Proof. intros HA HB mm r Hm. rewrite !vecv_app, (HA mm r Hm), (HB mm r Hm). ring. Qed.
Lemma add_rel_app A1 A2 A12 B1 B2 B12 :
  add_rel A1 A2 A12 -> add_rel B1 B2 B12 -> add_rel (A1 ++ B1) (A2 ++ B2) (A12 ++ B12).
Proof. intros [a1 [a2 a3]] [b1 [b2 b3]]. repeat split;
  [apply mat_eq_app | apply mat_eq_app | apply vec_add_app]; assumption. Qed.
Lemma scale_rel_app k A Ak B Bk :
  scale_rel k A Ak -> scale_rel k B Bk -> scale_rel k (A ++ B) (Ak ++ Bk).
Proof. intros [a1 a2] [b1 b2]. split; [apply mat_eq_app | apply vec_scale_app]; assumption. Qed.
Lemma add_rel_nil : add_rel [] [] [].
Proof. repeat split; try apply mat_eq_refl. intros mm r _. cbn. ring. Qed.
Lemma scale_rel_nil k : scale_rel k [] [].
Proof. split; [apply mat_eq_refl|]. intros mm r _. cbn. ring. Qed.

(* ---- residuals under superposition and scaling ------------------------- *)
Lemma node_res_superpose T1 T2 T12 v1 ib1 v2 ib2 r : add_rel T1 T2 T12 ->
  node_res T12 (vadd v1 v2) (vadd ib1 ib2) r = fadd (node_res T1 v1 ib1 r) (node_res T2 v2 ib2 r).
Proof. intros [H1 [H2 H3]]. unfold node_res. rewrite !lin_vadd.
  rewrite <- (H1 MG r v1 eq_refl), <- (H2 MG r v2 eq_refl), <- (H1 MB r ib1 eq_refl), <- (H2 MB r ib2 eq_refl).
  rewrite (H3 MIs r eq_refl). ring. Qed.
Lemma br_res_superpose T1 T2 T12 v1 ib1 v2 ib2 q : add_rel T1 T2 T12 ->
  br_res T12 (vadd v1 v2) (vadd ib1 ib2) q = fadd (br_res T1 v1 ib1 q) (br_res T2 v2 ib2 q).
Proof. intros [H1 [H2 H3]]. unfold br_res. rewrite !lin_vadd.
  rewrite <- (H1 MC q v1 eq_refl), <- (H2 MC q v2 eq_refl), <- (H1 MD q ib1 eq_refl), <- (H2 MD q ib2 eq_refl).
  rewrite (H3 MEs q eq_refl). ring. Qed.
Lemma node_res_scale k T Tk v ib r : scale_rel k T Tk ->
  node_res Tk (vscale k v) (vscale k ib) r = fmul k (node_res T v ib r).
Proof. intros [H1 H2]. unfold node_res. rewrite !lin_vscale.
  rewrite <- (H1 MG r v eq_refl), <- (H1 MB r ib eq_refl), (H2 MIs r eq_refl). ring. Qed.
Lemma br_res_scale k T Tk v ib q : scale_rel k T Tk ->
  br_res Tk (vscale k v) (vscale k ib) q = fmul k (br_res T v ib q).
Proof. intros [H1 H2]. unfold br_res. rewrite !lin_vscale.
  rewrite <- (H1 MC q v eq_refl), <- (H1 MD q ib eq_refl), (H2 MEs q eq_refl). ring. Qed.

(* ---- solutions ---------------------------------------------------------- *)
Definition solves T v ib : Prop :=
  (forall r, 0 <= r -> node_res T v ib r = f0) /\ (forall q, 0 <= q -> br_res T v ib q = f0).

Theorem solves_superpose T1 T2 T12 v1 ib1 v2 ib2 : add_rel T1 T2 T12 ->
  solves T1 v1 ib1 -> solves T2 v2 ib2 -> solves T12 (vadd v1 v2) (vadd ib1 ib2).
Proof. intros R [A1 B1] [A2 B2]. split; intros i Hi.
  - rewrite (node_res_superpose _ _ _ _ _ _ _ _ R), A1, A2 by assumption. ring.
  - rewrite (br_res_superpose _ _ _ _ _ _ _ _ R), B1, B2 by assumption. ring. Qed.
Theorem solves_scale k T Tk v ib : scale_rel k T Tk ->
  solves T v ib -> solves Tk (vscale k v) (vscale k ib).
Proof. intros R [A B]. split; intros i Hi.
  - rewrite (node_res_scale _ _ _ _ _ _ R), A by assumption. ring.
  - rewrite (br_res_scale _ _ _ _ _ _ R), B by assumption. ring. Qed.

(* a finite family: every T_i has the matrix of T and the right-hand sides sum *)
Definition sum_rel (Ts : list (list (upd K))) T : Prop :=
  Forall (fun Ti => mat_eq Ti T) Ts /\
  forall mm r, is_vec mm = true -> vecv T mm r = fsum (map (fun Ti => vecv Ti mm r) Ts).
Theorem solves_sum Ts T (xs : list ((Z -> K) * (Z -> K))) : sum_rel Ts T ->
  Forall2 (fun Ti p => solves Ti (fst p) (snd p)) Ts xs ->
  solves T (vsum (map fst xs)) (vsum (map snd xs)).
Proof.
  intros [HM HV] HS.
  assert (G : forall mmG mmB mmV (res : list (upd K) -> (Z -> K) -> (Z -> K) -> Z -> K),
     is_vec mmG = false -> is_vec mmB = false -> is_vec mmV = true ->
     (forall T' v ib i, res T' v ib i = fsub (fadd (lin T' mmG i v) (lin T' mmB i ib)) (vecv T' mmV i)) ->
     forall i, Forall2 (fun Ti p => res Ti (fst p) (snd p) i = f0) Ts xs ->
     res T (vsum (map fst xs)) (vsum (map snd xs)) i = f0).
  { intros mmG mmB mmV res hG hB hV Hres i HF. rewrite Hres, (HV mmV i hV).
    clear HV HS. revert HM. induction HF as [|Ti p Ts' xs' E HF IH]; intros HM; cbn [map vsum fsum].
    - rewrite !lin_vzero. ring.
    - inversion HM as [|? ? Hm HM']; subst. specialize (IH HM').
      rewrite !lin_vadd. rewrite Hres in E.
      rewrite <- (Hm mmG i (fst p) hG), <- (Hm mmB i (snd p) hB).
      transitivity (fadd (fsub (fadd (lin Ti mmG i (fst p)) (lin Ti mmB i (snd p))) (vecv Ti mmV i))
                         (fsub (fadd (lin T mmG i (vsum (map fst xs'))) (lin T mmB i (vsum (map snd xs'))))
                               (fsum (map (fun Ti0 => vecv Ti0 mmV i) Ts')))); [ring|].
      rewrite E, IH. ring. }
  split; intros i Hi.
  - apply (G MG MB MIs (fun T' => node_res T')); try reflexivity.
    clear -HS Hi. induction HS as [|Ti p Ts' xs' [A _] HS IH]; constructor; [apply A; exact Hi | exact IH].
  - apply (G MC MD MEs (fun T' => br_res T')); try reflexivity.
    clear -HS Hi. induction HS as [|Ti p Ts' xs' [_ B] HS IH]; constructor; [apply B; exact Hi | exact IH].
Qed.

(* ---- uniqueness ---------------------------------------------------------- *)
(* the unknowns that matter are node indices 0..nn-1 and branch indices 0..mm-1 *)
Definition agree (nn mm : Z) v ib v' ib' : Prop :=
  (forall i, 0 <= i < nn -> v i = v' i) /\ (forall j, 0 <= j < mm -> ib j = ib' j).
Definition hom_solves T v ib : Prop :=
  (forall r, 0 <= r -> fadd (lin T MG r v) (lin T MB r ib) = f0) /\
  (forall q, 0 <= q -> fadd (lin T MC q v) (lin T MD q ib) = f0).
(* well-posed system: the homogeneous system has only the zero solution *)
Definition injective_on T (nn mm : Z) : Prop :=
  forall v ib, hom_solves T v ib -> agree nn mm v ib vzero vzero.

Lemma injective_mat_eq T T' nn mm : mat_eq T T' -> injective_on T nn mm -> injective_on T' nn mm.
Proof. intros HM HI v ib [A B]. apply HI. split; intros i Hi.
  - rewrite (HM MG i v eq_refl), (HM MB i ib eq_refl). apply A. exact Hi.
  - rewrite (HM MC i v eq_refl), (HM MD i ib eq_refl). apply B. exact Hi. Qed.

Theorem solves_unique T nn mm v ib v' ib' : injective_on T nn mm ->
  solves T v ib -> solves T v' ib' -> agree nn mm v ib v' ib'.
Proof.
  intros HI [A B] [A' B'].
  assert (H : hom_solves T (vsub v v') (vsub ib ib')).
  { split; intros i Hi; rewrite !lin_vsub.
    - specialize (A i Hi). specialize (A' i Hi). unfold node_res in A, A'.
      transitivity (fsub (fsub (fadd (lin T MG i v) (lin T MB i ib)) (vecv T MIs i))
                         (fsub (fadd (lin T MG i v') (lin T MB i ib')) (vecv T MIs i))); [ring|].
      rewrite A, A'. ring.
    - specialize (B i Hi). specialize (B' i Hi). unfold br_res in B, B'.
      transitivity (fsub (fsub (fadd (lin T MC i v) (lin T MD i ib)) (vecv T MEs i))
                         (fsub (fadd (lin T MC i v') (lin T MD i ib')) (vecv T MEs i))); [ring|].
      rewrite B, B'. ring. }
  destruct (HI _ _ H) as [Z1 Z2]. split; intros i Hi.
  - specialize (Z1 i Hi). unfold vsub, vzero in Z1. transitivity (fadd (fsub (v i) (v' i)) (v' i)); [ring|]. rewrite Z1. ring.
  - specialize (Z2 i Hi). unfold vsub, vzero in Z2. transitivity (fadd (fsub (ib i) (ib' i)) (ib' i)); [ring|]. rewrite Z2. ring.
Qed.

(* the solved response is additive and homogeneous in the sources *)
Theorem response_additive T1 T2 T12 nn mm v1 ib1 v2 ib2 v ib : add_rel T1 T2 T12 ->
  injective_on T12 nn mm -> solves T1 v1 ib1 -> solves T2 v2 ib2 -> solves T12 v ib ->
  agree nn mm v ib (vadd v1 v2) (vadd ib1 ib2).
Proof. intros R HI S1 S2 S. apply (solves_unique T12); [exact HI | exact S |].
  apply (solves_superpose T1 T2); assumption. Qed.
Theorem response_homogeneous k T Tk nn mm v ib vk ibk : scale_rel k T Tk ->
  injective_on Tk nn mm -> solves T v ib -> solves Tk vk ibk ->
  agree nn mm vk ibk (vscale k v) (vscale k ib).
Proof. intros R HI S Sk. apply (solves_unique Tk); [exact HI | exact Sk |].
  apply (solves_scale k T); assumption. Qed.
Theorem response_sum Ts T xs nn mm v ib : sum_rel Ts T -> injective_on T nn mm ->
  Forall2 (fun Ti p => solves Ti (fst p) (snd p)) Ts xs -> solves T v ib ->
  agree nn mm v ib (vsum (map fst xs)) (vsum (map snd xs)).
Proof. intros R HI HS S. apply (solves_unique T); [exact HI | exact S |].
  apply (solves_sum Ts); assumption. Qed.
(* with every source off the response vanishes *)
Theorem response_zero T nn mm v ib : vec_zero T -> injective_on T nn mm -> solves T v ib ->
  agree nn mm v ib vzero vzero.
Proof. intros HZ HI [A B]. apply HI. split; intros i Hi.
  - specialize (A i Hi). unfold node_res in A. rewrite (HZ MIs i eq_refl) in A.
    transitivity (fsub (fadd (lin T MG i v) (lin T MB i ib)) f0); [ring | exact A].
  - specialize (B i Hi). unfold br_res in B. rewrite (HZ MEs i eq_refl) in B.
    transitivity (fsub (fadd (lin T MC i v) (lin T MD i ib)) f0); [ring | exact B]. Qed.
End Lin.

Arguments vadd {K}. Arguments vscale {K}. Arguments vzero {K}. Arguments vsub {K}. Arguments vsum {K}.
Arguments fsum {K}. Arguments mat_eq {K}. Arguments vec_add {K}. Arguments vec_scale {K}. Arguments vec_zero {K}.
Arguments add_rel {K}. Arguments scale_rel {K}. Arguments sum_rel {K}. Arguments solves {K}.
Arguments agree {K}. Arguments hom_solves {K}. Arguments injective_on {K}.

(* non-vacuity: a 1-node system  g v = i  with g <> 0 is injective, and its
   solutions for i1, i2 and i1 + i2 add *)
Section Example.
Variable K : fld.
Add Field KFe : (fth K).
Let Tg (g i : K) : list (upd K) := [Upd MG UAdd 0 0 g; Upd MIs UAdd 0 0 i].
Example ex_injective (g i : K) : g <> f0 -> injective_on (Tg g i) 1 0.
Proof. intros Hg v ib [A _]. split; intros j Hj; [|lia].
  assert (j = 0) by lia. subst j. specialize (A 0 (Z.le_refl 0)). cbn in A. unfold vzero.
  destruct (mul_eq0 K g (v 0)) as [E|E]; [|contradiction|exact E].
  rewrite <- A. ring. Qed.
Example ex_add_rel (g i1 i2 : K) : add_rel (Tg g i1) (Tg g i2) (Tg g (fadd i1 i2)).
Proof. repeat split; intros mm r; intros; destruct mm; try discriminate; cbn; ring. Qed.
End Example.
