(* C06 — strings as [list ascii] with the handful of Python [str] operations the
   netlist parser/printer of Lcapy uses (split, split(c,1), strip, lower,
   startswith, join, slicing).  ASCII only: characters >= 128 are outside the
   modelled domain (Python's \w and str.isspace would treat some of them
   differently). *)
From Coq Require Import List Ascii Bool Arith Lia.
From Coq Require String DecimalString.
Import ListNotations.

Definition str := list ascii.
Definition s2l (s : String.string) : str := String.list_ascii_of_string s.
Definition l2s (s : str) : String.string := String.string_of_list_ascii s.
Definition code (a : ascii) : nat := nat_of_ascii a.

Definition aeqb (a b : ascii) : bool := Ascii.eqb a b.
Lemma aeqb_spec a b : reflect (a = b) (aeqb a b).
Proof. apply Ascii.eqb_spec. Qed.
Lemma aeqb_refl a : aeqb a a = true.
Proof. apply Ascii.eqb_refl. Qed.
Lemma aeqb_neq a b : a <> b -> aeqb a b = false.
Proof. intros H. destruct (aeqb_spec a b); [contradiction|reflexivity]. Qed.
Lemma aeqb_true a b : aeqb a b = true -> a = b.
Proof. intros H. destruct (aeqb_spec a b); [assumption|discriminate]. Qed.

Fixpoint str_eqb (s t : str) : bool :=
  match s, t with
  | [], [] => true
  | a :: s', b :: t' => aeqb a b && str_eqb s' t'
  | _, _ => false
  end.
Lemma str_eqb_spec s t : reflect (s = t) (str_eqb s t).
Proof.
  revert t; induction s as [|a s IH]; intros [|b t]; cbn; try (constructor; congruence).
  destruct (aeqb_spec a b) as [->|N]; cbn.
  - destruct (IH t) as [->|N]; constructor; congruence.
  - constructor; congruence.
Qed.
Lemma str_eqb_refl s : str_eqb s s = true.
Proof. destruct (str_eqb_spec s s); congruence. Qed.
Lemma str_eqb_true s t : str_eqb s t = true -> s = t.
Proof. intros H. destruct (str_eqb_spec s t); [assumption|discriminate]. Qed.
Lemma str_eqb_neq s t : s <> t -> str_eqb s t = false.
Proof. intros H. destruct (str_eqb_spec s t); [contradiction|reflexivity]. Qed.

Definition mem (a : ascii) (s : str) : bool := existsb (aeqb a) s.
Lemma mem_In a s : mem a s = true <-> In a s.
Proof.
  unfold mem. rewrite existsb_exists. split.
  - intros [x [Hi He]]. apply aeqb_true in He. now subst.
  - intros H. exists a. split; [assumption|apply aeqb_refl].
Qed.
Lemma mem_false a s : mem a s = false <-> ~ In a s.
Proof. rewrite <- mem_In. destruct (mem a s); split; congruence. Qed.
Lemma mem_app a s t : mem a (s ++ t) = mem a s || mem a t.
Proof. unfold mem. apply existsb_app. Qed.

(* characters *)
Definition ch (n : nat) : ascii := ascii_of_nat n.
Definition SP : ascii := " "%char.     Definition TAB : ascii := "009"%char.  Definition NL : ascii := "010"%char.
Definition LBR : ascii := "{"%char.    Definition RBR : ascii := "}"%char.    Definition QUO : ascii := """"%char.
Definition SEMI : ascii := ";"%char.   Definition COMMA : ascii := ","%char.  Definition EQ : ascii := "="%char.
Definition DOT : ascii := "."%char.    Definition COLON : ascii := ":"%char.  Definition LSQ : ascii := "["%char.
Definition QM : ascii := "?"%char.

(* Python str.isspace restricted to ASCII *)
Definition is_space (a : ascii) : bool :=
  let n := code a in ((9 <=? n) && (n <=? 13)) || ((28 <=? n) && (n <=? 32)).

Fixpoint lstrip (s : str) : str :=
  match s with a :: r => if is_space a then lstrip r else s | [] => [] end.
Definition rstrip (s : str) : str := rev (lstrip (rev s)).
Definition strip (s : str) : str := rstrip (lstrip s).

Definition lower1 (a : ascii) : ascii :=
  let n := code a in if (65 <=? n) && (n <=? 90) then ch (n + 32) else a.
Definition lower (s : str) : str := map lower1 s.

Fixpoint starts_with (p s : str) : bool :=
  match p, s with
  | [], _ => true
  | a :: p', b :: s' => aeqb a b && starts_with p' s'
  | _ :: _, [] => false
  end.
Lemma starts_with_app p s : starts_with p (p ++ s) = true.
Proof. induction p; cbn; [reflexivity|]. now rewrite aeqb_refl. Qed.
Lemma starts_with_spec p s : starts_with p s = true -> exists r, s = p ++ r.
Proof.
  revert s; induction p as [|a p IH]; intros s H; cbn in *.
  - now exists s.
  - destruct s as [|b s]; [discriminate|]. apply andb_true_iff in H as [H1 H2].
    apply aeqb_true in H1; subst. destruct (IH _ H2) as [r ->]. now exists r.
Qed.
Definition ends_with (p s : str) : bool := starts_with (rev p) (rev s).

(* s[0:-k] *)
Definition drop_last (k : nat) (s : str) : str := firstn (length s - k) s.
(* s[1:-1] *)
Definition inner (s : str) : str := drop_last 1 (tl s).

(* Python s.split(c): always at least one part *)
Fixpoint split_on (c : ascii) (s : str) : list str :=
  match s with
  | [] => [[]]
  | a :: r => if aeqb a c then [] :: split_on c r
              else match split_on c r with h :: t => (a :: h) :: t | [] => [[a]] end
  end.
Lemma split_on_nonempty c s : split_on c s <> [].
Proof. induction s as [|a r IH]; cbn; [discriminate|]. destruct (aeqb a c); [discriminate|]. destruct (split_on c r); discriminate. Qed.
Lemma split_on_free c s : mem c s = false -> split_on c s = [s].
Proof.
  induction s as [|a r IH]; cbn; [reflexivity|]. intros H.
  apply orb_false_iff in H as [H1 H2]. unfold aeqb in *. rewrite Ascii.eqb_sym in H1. rewrite H1.
  now rewrite IH.
Qed.

(* Python s.split(c, 1) as (head, Some tail) / (s, None) *)
Fixpoint split_first (c : ascii) (s : str) : str * option str :=
  match s with
  | [] => ([], None)
  | a :: r => if aeqb a c then ([], Some r)
              else let '(h, t) := split_first c r in (a :: h, t)
  end.
Lemma split_first_free c s : mem c s = false -> split_first c s = (s, None).
Proof.
  induction s as [|a r IH]; cbn; [reflexivity|]. intros H.
  apply orb_false_iff in H as [H1 H2]. unfold aeqb in *. rewrite Ascii.eqb_sym in H1. rewrite H1.
  now rewrite IH.
Qed.
Lemma split_first_app c s t : mem c s = false -> split_first c (s ++ c :: t) = (s, Some t).
Proof.
  induction s as [|a r IH]; cbn.
  - now rewrite aeqb_refl.
  - intros H. apply orb_false_iff in H as [H1 H2]. unfold aeqb in *. rewrite Ascii.eqb_sym in H1. rewrite H1.
    now rewrite IH.
Qed.

(* sep.join(parts) *)
Fixpoint join (sep : str) (fs : list str) : str :=
  match fs with [] => [] | [w] => w | w :: r => w ++ sep ++ join sep r end.
Lemma join_cons sep w r : r <> [] -> join sep (w :: r) = w ++ sep ++ join sep r.
Proof. destruct r; [congruence|reflexivity]. Qed.

Definition last_str (l : list str) : str := last l [].
Definition init_strs (l : list str) : list str := removelast l.

Definition nat_str (n : nat) : str := s2l (DecimalString.NilZero.string_of_uint (Nat.to_uint n)).

(* association lists with Python-dict behaviour: assignment to an existing key
   keeps its position *)
Fixpoint assoc_set {A} (k : str) (v : A) (d : list (str * A)) : list (str * A) :=
  match d with
  | [] => [(k, v)]
  | (k', v') :: r => if str_eqb k k' then (k, v) :: r else (k', v') :: assoc_set k v r
  end.
Fixpoint assoc_get {A} (k : str) (d : list (str * A)) : option A :=
  match d with
  | [] => None
  | (k', v') :: r => if str_eqb k k' then Some v' else assoc_get k r
  end.
Definition str_in (k : str) (l : list str) : bool := existsb (str_eqb k) l.

(* facts about strip used by the round-trip theorems *)
Lemma lstrip_id s : (match s with a :: _ => is_space a = false | [] => True end) -> lstrip s = s.
Proof. destruct s as [|a r]; cbn; [reflexivity|]. now intros ->. Qed.
Definition no_edge_space (s : str) : Prop :=
  (match s with a :: _ => is_space a = false | [] => True end) /\
  (match rev s with a :: _ => is_space a = false | [] => True end).
Lemma strip_id s : no_edge_space s -> strip s = s.
Proof.
  intros [H1 H2]. unfold strip, rstrip. rewrite (lstrip_id s H1), (lstrip_id (rev s) H2). apply rev_involutive.
Qed.
Lemma lstrip_spaces_app n s : lstrip (repeat SP n ++ s) = lstrip s.
Proof. induction n; cbn; [reflexivity|assumption]. Qed.
Lemma aeqb_sym a b : aeqb a b = aeqb b a.
Proof. apply Ascii.eqb_sym. Qed.
Lemma mem_cons c a r : mem c (a :: r) = aeqb c a || mem c r.
Proof. reflexivity. Qed.
Lemma mem_hd_false c ds d : mem c ds = false -> c <> d -> aeqb (hd d ds) c = false.
Proof.
  intros H N. destruct ds as [|a r]; cbn [hd].
  - apply aeqb_neq. congruence.
  - rewrite mem_cons in H. apply orb_false_iff in H as [H _]. now rewrite aeqb_sym.
Qed.

(* strip is idempotent, also behind one blank *)
Lemma lstrip_hd s : match lstrip s with a :: _ => is_space a = false | [] => True end.
Proof. induction s as [|a r IH]; cbn [lstrip]; [exact I|]. destruct (is_space a) eqn:E; [exact IH|exact E]. Qed.
Lemma lstrip_suffix s : exists sp, s = sp ++ lstrip s.
Proof.
  induction s as [|a r [sp IH]]; [now exists []|]. cbn [lstrip]. destruct (is_space a).
  - exists (a :: sp). cbn. now rewrite <- IH.
  - now exists [].
Qed.
Lemma strip_trimmed x : no_edge_space (strip x).
Proof.
  unfold no_edge_space, strip, rstrip. split.
  - destruct (lstrip_suffix (rev (lstrip x))) as [sp E].
    assert (Z : lstrip x = rev (lstrip (rev (lstrip x))) ++ rev sp).
    { rewrite <- rev_app_distr, <- E. now rewrite rev_involutive. }
    destruct (rev (lstrip (rev (lstrip x)))) as [|a t] eqn:R; [exact I|].
    pose proof (lstrip_hd x) as H. rewrite Z in H. exact H.
  - rewrite rev_involutive. apply lstrip_hd.
Qed.
Lemma strip_idem x : strip (strip x) = strip x.
Proof. apply strip_id, strip_trimmed. Qed.
Lemma strip_sp_strip x : strip (SP :: strip x) = strip x.
Proof. unfold strip at 1. cbn [lstrip]. change (is_space SP) with true. cbv iota. apply strip_idem. Qed.
