(* C04 - a linear network seen from a port (Thevenin / Norton), abstractly.

   A network is given by two families of residuals over the unknowns
   (v, ib) = (node potentials, branch currents):  F v ib r  (current balance at
   node row r) and  G v ib q  (constitutive relation in branch row q).  They
   are only assumed to be AFFINE in (v, ib).  props/C04.v shows that
   [kcl N] / [crel N] of every netlist N over the component semantics of
   Circuit.v are affine, and that zeroing the independent-source parameters
   (pVoc, pIsc: source values AND the initial-condition terms C v0, L i0)
   gives exactly their linear parts.

   The port (p, m) is a pair of node indices (negative = ground).  An external
   current i is INJECTED into node p and drawn from node m; the current
   delivered to a load is -i.                                                *)
Require Import LT.FieldSec LT.Circuit.
Local Open Scope Z_scope.

Section Thevenin.
Variable K : fld.
Add Field KFt : (fth K).
Notation vec := (Z -> K).
Local Open Scope F_scope.

Definition vadd (a b : vec) : vec := fun n => a n + b n.
Definition vscal (c : K) (a : vec) : vec := fun n => c * a n.
Definition vzero : vec := fun _ => 0.
Definition resid := vec -> vec -> Z -> K.

(* R (x + a y) = R x + a (R y - R 0), pointwise in the row *)
Definition affine (R : resid) : Prop :=
  forall v1 ib1 v2 ib2 a r,
    R (vadd v1 (vscal a v2)) (vadd ib1 (vscal a ib2)) r = R v1 ib1 r + a * (R v2 ib2 r - R vzero vzero r).
(* the linear part: the same network with every independent source (and every
   initial condition) set to zero *)
Definition linpart (R : resid) : resid := fun v ib r => R v ib r - R vzero vzero r.

Lemma linpart_lin R : affine R -> forall v1 ib1 v2 ib2 a r,
  linpart R (vadd v1 (vscal a v2)) (vadd ib1 (vscal a ib2)) r = linpart R v1 ib1 r + a * linpart R v2 ib2 r.
Proof. intros A v1 ib1 v2 ib2 a r. unfold linpart. rewrite A. ring. Qed.
Lemma linpart_zero R r : linpart R vzero vzero r = 0.
Proof. unfold linpart. ring. Qed.
Lemma linpart_affine R : affine R -> affine (linpart R).
Proof. intros A v1 ib1 v2 ib2 a r. rewrite (linpart_lin R A). rewrite linpart_zero. ring. Qed.
Lemma linpart_idem R v ib r : linpart (linpart R) v ib r = linpart R v ib r.
Proof. unfold linpart. ring. Qed.
Lemma affine_add R1 R2 : affine R1 -> affine R2 -> affine (fun v ib r => R1 v ib r + R2 v ib r).
Proof. intros A1 A2 v1 ib1 v2 ib2 a r. cbv beta. rewrite A1, A2. ring. Qed.
Lemma affine_const (c : Z -> K) : affine (fun _ _ r => c r).
Proof. intros v1 ib1 v2 ib2 a r. ring. Qed.

(* ---- the port ------------------------------------------------------------ *)
Variables p m : Z.
Definition pv (v : vec) : K := vv v p - vv v m.
Lemma vv_add a b n : vv (vadd a b) n = vv a n + vv b n.
Proof. unfold vv, vadd. destruct (0 <=? n)%Z; ring. Qed.
Lemma vv_scal c a n : vv (vscal c a) n = c * vv a n.
Proof. unfold vv, vscal. destruct (0 <=? n)%Z; ring. Qed.
Lemma pv_comb a b c : pv (vadd a (vscal c b)) = pv a + c * pv b.
Proof. unfold pv. rewrite !vv_add, !vv_scal. ring. Qed.
Lemma pv_zero : pv vzero = 0.
Proof. unfold pv, vv, vzero. destruct (0 <=? p)%Z, (0 <=? m)%Z; ring. Qed.

(* (v, ib) solves the network with the current i injected at p, drawn at m *)
Definition sol (F G : resid) (i : K) (v ib : vec) : Prop :=
  (forall r, (0 <= r)%Z -> F v ib r = thru p m r i) /\ (forall q, (0 <= q)%Z -> G v ib q = 0).
(* the terminal behaviour: the set of realisable (injected current, port voltage) pairs *)
Definition port_rel (F G : resid) (i u : K) : Prop := exists v ib, sol F G i v ib /\ pv v = u.
(* well-posed (seen from the port): the homogeneous system - sources and
   initial conditions zero, port open - determines the port voltage *)
Definition port_determined (F G : resid) : Prop :=
  forall v ib, sol (linpart F) (linpart G) 0 v ib -> pv v = 0.
(* the usual, stronger form: the homogeneous system has only the zero solution
   on the nn node unknowns and mm branch unknowns *)
Definition wellposed (F G : resid) (nn mm : Z) : Prop :=
  forall v ib, sol (linpart F) (linpart G) 0 v ib ->
    (forall r, (0 <= r < nn)%Z -> v r = 0) /\ (forall q, (0 <= q < mm)%Z -> ib q = 0).
Lemma wellposed_port F G nn mm : (p < nn)%Z -> (m < nn)%Z -> wellposed F G nn mm -> port_determined F G.
Proof.
  intros Hp Hm W v ib S. destruct (W v ib S) as [Hv _]. unfold pv, vv.
  destruct (Z.leb_spec 0 p), (Z.leb_spec 0 m); rewrite ?Hv by lia; ring.
Qed.

Lemma thru_lin a b r (x y c : K) : thru a b r (x + c * y) = thru a b r x + c * thru a b r y.
Proof. unfold thru. ring. Qed.
Lemma thru_0 a b r : @thru K a b r 0 = 0.
Proof. unfold thru. ring. Qed.

Section Network.
Variables F G : resid.
Hypothesis AF : affine F.
Hypothesis AG : affine G.

(* superposition: an open-circuit solution plus i times a unit test response
   of the killed network solves the network with injection i *)
Lemma sol_superpose v0 ib0 vt ibt i0 i :
  sol F G i0 v0 ib0 -> sol (linpart F) (linpart G) 1 vt ibt ->
  sol F G (i0 + i * 1) (vadd v0 (vscal i vt)) (vadd ib0 (vscal i ibt)).
Proof.
  intros [S0 S0'] [St St']. split.
  - intros r Hr. rewrite AF. fold (linpart F vt ibt r). rewrite S0, St by assumption. rewrite thru_lin. ring.
  - intros q Hq. rewrite AG. fold (linpart G vt ibt q). rewrite S0', St' by assumption. ring.
Qed.
(* the difference of two solutions (minus i times the test response) is homogeneous *)
Lemma sol_difference v0 ib0 vt ibt v ib i0 i :
  sol F G i0 v0 ib0 -> sol (linpart F) (linpart G) 1 vt ibt -> sol F G (i0 + i * 1) v ib ->
  sol (linpart F) (linpart G) 0
      (vadd (vadd v (vscal (- (1)) v0)) (vscal (- i) vt)) (vadd (vadd ib (vscal (- (1)) ib0)) (vscal (- i) ibt)).
Proof.
  intros [S0 S0'] [St St'] [S S']. split.
  - intros r Hr. rewrite !(linpart_lin F AF). rewrite St by assumption. unfold linpart. rewrite S, S0 by assumption.
    rewrite thru_0. unfold thru. ring.
  - intros q Hq. rewrite !(linpart_lin G AG). rewrite St' by assumption. unfold linpart. rewrite S', S0' by assumption. ring.
Qed.

(* ---- port_affine ---------------------------------------------------------
   Voc = port voltage of an open-circuit solution, Zth = port voltage of the
   KILLED network (sources and initial conditions zero) driven by a unit test
   current.  Then the realisable (i, u) pairs are exactly the line
   u = Voc + Zth i  (i injected), i.e.  u = Voc - Zth i_load.               *)
Theorem port_affine v0 ib0 vt ibt :
  port_determined F G ->
  sol F G 0 v0 ib0 -> sol (linpart F) (linpart G) 1 vt ibt ->
  forall i u, port_rel F G i u <-> u = pv v0 + pv vt * i.
Proof.
  intros WP S0 St i u. split.
  - intros [v [ib [S Hu]]].
    assert (S1 : sol F G (0 + i * 1) v ib).
    { destruct S as [A B]. split; [|exact B]. intros r Hr. rewrite A by assumption. unfold thru. ring. }
    pose proof (WP _ _ (sol_difference v0 ib0 vt ibt v ib 0 i S0 St S1)) as D.
    rewrite !pv_comb in D. rewrite <- Hu.
    transitivity (pv v + - (1) * pv v0 + - i * pv vt + (pv v0 + pv vt * i)); [ring | rewrite D; ring].
  - intros ->. exists (vadd v0 (vscal i vt)), (vadd ib0 (vscal i ibt)). split.
    + destruct (sol_superpose v0 ib0 vt ibt 0 i S0 St) as [A B]. split; [|exact B].
      intros r Hr. rewrite A by assumption. unfold thru. ring.
    + rewrite pv_comb. ring.
Qed.

(* every solution with the same injected current has the same port voltage *)
Corollary port_unique v0 ib0 vt ibt :
  port_determined F G -> sol F G 0 v0 ib0 -> sol (linpart F) (linpart G) 1 vt ibt ->
  forall i u u', port_rel F G i u -> port_rel F G i u' -> u = u'.
Proof. intros WP S0 St i u u' H H'. apply (port_affine v0 ib0 vt ibt WP S0 St) in H, H'. congruence. Qed.
End Network.

(* the killed network is determined whenever the network is *)
Lemma port_determined_lin F G : port_determined F G -> port_determined (linpart F) (linpart G).
Proof.
  intros W v ib [A B]. apply (W v ib). split.
  - intros r Hr. rewrite <- (A r Hr). symmetry. apply linpart_idem.
  - intros q Hq. rewrite <- (B q Hq). symmetry. apply linpart_idem.
Qed.
Lemma sol_lin_zero F G : sol (linpart F) (linpart G) 0 vzero vzero.
Proof. split; intros; rewrite linpart_zero; [rewrite thru_0|]; reflexivity. Qed.
Lemma sol_linlin F G i v ib : sol (linpart F) (linpart G) i v ib -> sol (linpart (linpart F)) (linpart (linpart G)) i v ib.
Proof. intros [A B]. split; intros; rewrite linpart_idem; auto. Qed.

(* the killed network is a pure impedance: u = Zth i *)
Theorem killed_port_linear F G vt ibt :
  affine F -> affine G -> port_determined F G -> sol (linpart F) (linpart G) 1 vt ibt ->
  forall i u, port_rel (linpart F) (linpart G) i u <-> u = pv vt * i.
Proof.
  intros AF AG WP St i u.
  rewrite (port_affine (linpart F) (linpart G) (linpart_affine F AF) (linpart_affine G AG) vzero vzero vt ibt
             (port_determined_lin F G WP) (sol_lin_zero F G) (sol_linlin F G 1 vt ibt St) i u).
  rewrite pv_zero. split; intros ->; ring.
Qed.

(* ---- thevenin_norton ------------------------------------------------------
   Isc: the current that flows out of terminal p through a short circuit to m
        (port voltage 0, injected current -Isc);
   Yth: the current injected into the killed network by a unit test voltage. *)
Theorem isc_zth F G v0 ib0 vt ibt Isc :
  affine F -> affine G -> port_determined F G -> sol F G 0 v0 ib0 -> sol (linpart F) (linpart G) 1 vt ibt ->
  port_rel F G (- Isc) 0 -> Isc * pv vt = pv v0.
Proof.
  intros AF AG WP S0 St H. apply (port_affine F G AF AG v0 ib0 vt ibt WP S0 St) in H.
  transitivity (pv v0 + pv vt * - Isc + Isc * pv vt); [rewrite <- H; ring | ring].
Qed.
Theorem zth_yth F G vt ibt Yth :
  affine F -> affine G -> port_determined F G -> sol (linpart F) (linpart G) 1 vt ibt ->
  port_rel (linpart F) (linpart G) Yth 1 -> pv vt * Yth = 1.
Proof. intros AF AG WP St H. apply (killed_port_linear F G vt ibt AF AG WP St) in H. symmetry. exact H. Qed.
(* ... and conversely the Norton form of the line *)
Theorem norton_form F G v0 ib0 vt ibt Isc Yth :
  affine F -> affine G -> port_determined F G -> sol F G 0 v0 ib0 -> sol (linpart F) (linpart G) 1 vt ibt ->
  Isc * pv vt = pv v0 -> pv vt * Yth = 1 ->
  forall i u, port_rel F G i u <-> i = Yth * u - Isc.
Proof.
  intros AF AG WP S0 St HI HY i u. rewrite (port_affine F G AF AG v0 ib0 vt ibt WP S0 St i u). rewrite <- HI.
  split; intros E.
  - rewrite E. transitivity (pv vt * Yth * (Isc + i) - Isc); [rewrite HY; ring | ring].
  - rewrite E. transitivity (pv vt * Yth * u); [rewrite HY; ring | ring].
Qed.

(* ---- load_invariance -------------------------------------------------------
   A load is ANY relation between the port voltage u and the current j it
   takes out of terminal p (j = -i): a resistor, an RLC branch, a source with
   a series resistor, a non-linear or multi-valued device ...  Two networks
   with the same open-circuit voltage and the same killed test response
   deliver exactly the same (u, j) pairs to every load.                       *)
Definition delivers (F G : resid) (Load : K -> K -> Prop) (u j : K) : Prop := port_rel F G (- j) u /\ Load u j.
Theorem load_invariance F G F' G' v0 ib0 vt ibt v0' ib0' vt' ibt' :
  affine F -> affine G -> port_determined F G -> sol F G 0 v0 ib0 -> sol (linpart F) (linpart G) 1 vt ibt ->
  affine F' -> affine G' -> port_determined F' G' -> sol F' G' 0 v0' ib0' -> sol (linpart F') (linpart G') 1 vt' ibt' ->
  pv v0' = pv v0 -> pv vt' = pv vt ->
  forall Load u j, delivers F G Load u j <-> delivers F' G' Load u j.
Proof.
  intros AF AG WP S0 St AF' AG' WP' S0' St' E0 Et Load u j. unfold delivers.
  rewrite (port_affine F G AF AG v0 ib0 vt ibt WP S0 St), (port_affine F' G' AF' AG' v0' ib0' vt' ibt' WP' S0' St').
  rewrite E0, Et. reflexivity.
Qed.
(* the same, for any replacement whose terminal relation is the Thevenin line
   (V(Voc) in series with Z(Zth)) or the Norton line (I(Isc) parallel Y(Yth));
   props/C04.v proves that these two-component netlists have these relations *)
Theorem load_invariance_line F G v0 ib0 vt ibt (Rel' : K -> K -> Prop) :
  affine F -> affine G -> port_determined F G -> sol F G 0 v0 ib0 -> sol (linpart F) (linpart G) 1 vt ibt ->
  (forall i u, Rel' i u <-> u = pv v0 + pv vt * i) ->
  forall (Load : K -> K -> Prop) u j, delivers F G Load u j <-> (Rel' (- j) u /\ Load u j).
Proof.
  intros AF AG WP S0 St HR Load u j. unfold delivers.
  rewrite (port_affine F G AF AG v0 ib0 vt ibt WP S0 St), HR. reflexivity.
Qed.
(* with a single-valued load line u = E + Zl j the delivered pair is the textbook one *)
Theorem load_divider F G v0 ib0 vt ibt E Zl u j :
  affine F -> affine G -> port_determined F G -> sol F G 0 v0 ib0 -> sol (linpart F) (linpart G) 1 vt ibt ->
  pv vt + Zl <> 0 ->
  delivers F G (fun u j => u = E + Zl * j) u j <->
  (j = (pv v0 - E) / (pv vt + Zl) /\ u = E + Zl * j).
Proof.
  intros AF AG WP S0 St NZ. unfold delivers. rewrite (port_affine F G AF AG v0 ib0 vt ibt WP S0 St).
  split.
  - intros [H1 H2]. split; [|exact H2].
    assert (E1 : (pv vt + Zl) * j = pv v0 - E).
    { transitivity (pv v0 - (pv v0 + pv vt * - j) + Zl * j); [ring|]. rewrite <- H1, H2. ring. }
    rewrite <- E1. field. exact NZ.
  - intros [H1 H2]. split; [|exact H2]. rewrite H2, H1. field. exact NZ.
Qed.
End Thevenin.

Arguments vadd {K}. Arguments vscal {K}. Arguments vzero {K}. Arguments affine {K}. Arguments linpart {K}.
Arguments pv {K}. Arguments sol {K}. Arguments port_rel {K}. Arguments port_determined {K}. Arguments wellposed {K}.
Arguments delivers {K}.

(* ---- ground_indep ------------------------------------------------------------
   A network none of whose relations refers to the reference potential
   (shift-invariant residuals; props/C04.v: every netlist whose components
   touch no ground index and are not of the ground-referenced classes) has the
   same terminal behaviour whichever terminal is taken as the reference, and
   the same as with no reference at all.                                      *)
Section Ground.
Variable K : fld.
Add Field KFg : (fth K).
Local Open Scope F_scope.
Notation vec := (Z -> K).
Definition vshift (c : K) (v : vec) : vec := fun n => v n + c.
Definition shift_inv (R : resid K) : Prop := forall v ib c r, R (vshift c v) ib r = R v ib r.
Variables p m : Z.
Hypothesis Hp : (0 <= p)%Z.
Hypothesis Hm : (0 <= m)%Z.
(* terminal relation when node x is the reference (potential 0) *)
Definition port_rel_ref (F G : resid K) (x : Z) (i u : K) : Prop :=
  exists v ib, sol p m F G i v ib /\ v x = 0 /\ pv p m v = u.
Lemma pv_shift c v : pv p m (vshift c v) = pv p m v.
Proof. unfold pv, vv, vshift. destruct (Z.leb_spec 0 p), (Z.leb_spec 0 m); try lia. ring. Qed.
Theorem ground_indep F G x :
  shift_inv F -> shift_inv G -> forall i u, port_rel_ref F G x i u <-> port_rel p m F G i u.
Proof.
  intros SF SG i u. split.
  - intros [v [ib [S [_ E]]]]. exists v, ib. split; assumption.
  - intros [v [ib [[A B] E]]]. exists (vshift (- v x) v), ib. split; [split|split].
    + intros r Hr. rewrite SF. apply A. exact Hr.
    + intros q Hq. rewrite SG. apply B. exact Hq.
    + unfold vshift. ring.
    + rewrite pv_shift. exact E.
Qed.
(* in particular grounding the negative or the positive terminal gives the
   same relation, hence the same Voc, Zth, Isc, Yth *)
Corollary ground_indep_terminals F G : shift_inv F -> shift_inv G ->
  forall i u, port_rel_ref F G m i u <-> port_rel_ref F G p i u.
Proof. intros SF SG i u. rewrite (ground_indep F G m SF SG), (ground_indep F G p SF SG). reflexivity. Qed.
Lemma shift_inv_linpart R : shift_inv R -> shift_inv (linpart R).
Proof. intros S v ib c r. unfold linpart. rewrite S. reflexivity. Qed.
End Ground.
Arguments vshift {K}. Arguments shift_inv {K}. Arguments port_rel_ref {K}.
