(* Linearity of the assembled MNA system in the unknowns, and uniqueness of the
   solution of a well-posed system (hence independence of the solver used). *)
Require Import LT.FieldSec LT.Circuit.
Local Open Scope Z_scope.

Section Lin.
Variable K : fld.
Add Field KFl : (fth K).
Implicit Types (T : list (upd K)) (x y : Z -> K).

Definition padd x y : Z -> K := fun i => fadd (x i) (y i).
Definition psub x y : Z -> K := fun i => fsub (x i) (y i).
Definition pscale (k : K) x : Z -> K := fun i => fmul k (x i).

Lemma lin_add T mm r x y : lin T mm r (padd x y) = fadd (lin T mm r x) (lin T mm r y).
Proof. induction T as [|u T IH]; cbn [lin]; [ring|]. rewrite IH. unfold padd. destruct (mname_eqb (um u) mm); ring. Qed.
Lemma lin_sub T mm r x y : lin T mm r (psub x y) = fsub (lin T mm r x) (lin T mm r y).
Proof. induction T as [|u T IH]; cbn [lin]; [ring|]. rewrite IH. unfold psub. destruct (mname_eqb (um u) mm); ring. Qed.
Lemma lin_scale T mm r k x : lin T mm r (pscale k x) = fmul k (lin T mm r x).
Proof. induction T as [|u T IH]; cbn [lin]; [ring|]. rewrite IH. unfold pscale. destruct (mname_eqb (um u) mm); ring. Qed.

(* the system  [G B; C D] (v, ib) = (Is, Es)  restricted to rows >= 0 *)
Definition solves T v ib : Prop :=
  (forall r, 0 <= r -> node_res T v ib r = f0) /\ (forall q, 0 <= q -> br_res T v ib q = f0).
Definition hom_solves T v ib : Prop :=
  (forall r, 0 <= r -> fadd (lin T MG r v) (lin T MB r ib) = f0) /\
  (forall q, 0 <= q -> fadd (lin T MC q v) (lin T MD q ib) = f0).
(* well-posed: the homogeneous system has only the zero solution on the
   nn node unknowns and mm branch unknowns *)
Definition well_posed T (nn mm : Z) : Prop :=
  forall v ib, hom_solves T v ib ->
    (forall i, 0 <= i < nn -> v i = f0) /\ (forall j, 0 <= j < mm -> ib j = f0).

Theorem solves_diff_hom T v1 ib1 v2 ib2 :
  solves T v1 ib1 -> solves T v2 ib2 -> hom_solves T (psub v1 v2) (psub ib1 ib2).
Proof.
  intros [N1 B1] [N2 B2]. split; intros r Hr.
  - specialize (N1 r Hr). specialize (N2 r Hr). unfold node_res in *. rewrite !lin_sub.
    transitivity (fsub (fsub (fadd (lin T MG r v1) (lin T MB r ib1)) (vecv T MIs r))
                       (fsub (fadd (lin T MG r v2) (lin T MB r ib2)) (vecv T MIs r))); [ring|].
    rewrite N1, N2. ring.
  - specialize (B1 r Hr). specialize (B2 r Hr). unfold br_res in *. rewrite !lin_sub.
    transitivity (fsub (fsub (fadd (lin T MC r v1) (lin T MD r ib1)) (vecv T MEs r))
                       (fsub (fadd (lin T MC r v2) (lin T MD r ib2)) (vecv T MEs r))); [ring|].
    rewrite B1, B2. ring.
Qed.

(* the solution of a well-posed system is unique: whatever procedure produced a
   vector satisfying the system (any solver method) produced THE solution *)
Theorem mna_unique T nn mm v1 ib1 v2 ib2 :
  well_posed T nn mm -> solves T v1 ib1 -> solves T v2 ib2 ->
  (forall i, 0 <= i < nn -> v1 i = v2 i) /\ (forall j, 0 <= j < mm -> ib1 j = ib2 j).
Proof.
  intros W S1 S2. destruct (W _ _ (solves_diff_hom _ _ _ _ _ S1 S2)) as [Hv Hb].
  split; intros i Hi; [specialize (Hv i Hi) | specialize (Hb i Hi)]; unfold psub in *.
  - transitivity (fadd (fsub (v1 i) (v2 i)) (v2 i)); [ring | rewrite Hv; ring].
  - transitivity (fadd (fsub (ib1 i) (ib2 i)) (ib2 i)); [ring | rewrite Hb; ring].
Qed.

(* superposition at the level of one assembled system: solutions of systems
   with the same matrix part and right-hand sides b1, b2 add *)
Definition same_matrix T1 T2 : Prop :=
  forall mm r x, is_vec mm = false -> lin T1 mm r x = lin T2 mm r x.
End Lin.
Arguments padd {K}. Arguments psub {K}. Arguments pscale {K}. Arguments solves {K}.
Arguments hom_solves {K}. Arguments well_posed {K}.
