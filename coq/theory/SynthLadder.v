(* SynthLadder — model (H) of the composite synthesis methods of
   lcapy/synthesis.py and of the entry points, parameterised by small spec
   records that tools/tr_synth.py regenerates from the source:

     cauerI / cauerII   [ladder]:  coefficients of lexpr or of 1/lexpr, by
                        continued_fraction_coeffs or ..._inverse_coeffs; the fold
                        over reversed(coeffs) where the parity of the index picks
                        (series|parallel, realiser, coeff | 1/coeff)
     fosterI / fosterII [foster]:  terms of the partial-fraction expansion of
                        lexpr or 1/lexpr (ORACLE: the terms are an input, checked
                        by the exact polynomial identity [reqb]), folded with
                        (series|parallel, realiser, term | 1/term)
     network(form)      [network_model]: table lookup, 'default' alias
     Network.transform  [transform_model]: network(form) of the network's Z

   Theorems (all points x <> 0 of any characteristic-0 field, all inputs):
     ladder_sound, cauer_sound, foster_sound, method_sound, network_sound,
     transform_preserves_Z.   Axiom-free. *)
Require Import LT.FieldSec LT.PolyQ LT.RatfunCF LT.SynthNet LT.SynthCF LT.SynthPat.
From Coq Require Import String.
Local Open Scope F_scope.

Record lstep := MkLStep { ls_op : comb; ls_pat : pat; ls_inv : bool }.
Record ladder := MkLadder { l_src_inv : bool;     (* coefficients of 1/lexpr *)
                            l_et : bool;          (* continued_fraction_inverse_coeffs *)
                            l_even : lstep; l_odd : lstep;
                            l_skip0 : bool }.     (* even branch guarded by  not (n == 0 and coeff == 0) *)
Record foster := MkFoster { f_src_inv : bool; f_op : comb; f_pat : pat; f_inv : bool }.
Inductive method := MPat (p : pat) | MTry (p1 p2 : pat) | MCauer (l : ladder) | MFoster (f : foster).

(* a step is consistent with the level it is used at: impedance level (m = true)
   adds the element in series and hands the realiser the coefficient as an
   impedance; admittance level adds it in parallel and hands over 1/coefficient *)
Definition step_okb (m : bool) (st : lstep) : bool :=
  match ls_op st, ls_inv st, m with
  | CSer, false, true => true
  | CPar, true, false => true
  | _, _, _ => false
  end.
Definition ladder_wfb (sp : ladder) : bool :=
  step_okb (negb (l_src_inv sp)) (l_even sp) && step_okb (l_src_inv sp) (l_odd sp).
Definition foster_wfb (fs : foster) : bool :=
  match f_op fs, f_inv fs, f_src_inv fs with
  | CSer, false, false => true
  | CPar, true, true => true
  | _, _, _ => false
  end.

Section Ladder.
Variable K : fld.
Add Field KFlad : (fth K).
Notation poly := (list K).
Notation net := (net K).

Definition comb_run (cb : comb) (r pn : option net) : option net :=
  match cb with CSet => pn | CSer => series2 r pn | CPar => parallel2 r pn end.

(* for m, coeff in enumerate(reversed(coeffs)): n = len(coeffs) - m - 1; ... *)
Fixpoint ladder_fold (sp : ladder) (qs : list (rat K)) (n : nat) : res (option net) :=
  match qs with
  | [] => Ok None
  | q :: rest =>
      match ladder_fold sp rest (S n) with
      | Err => Err
      | Ok r =>
          let st := if Nat.even n then l_even sp else l_odd sp in
          if Nat.even n && l_skip0 sp && Nat.eqb n 0 && pzerob (fst q) then Ok r
          else match pattern_run (ls_pat st) (if ls_inv st then rinv q else q) with
               | Err => Err
               | Ok pn => Ok (comb_run (ls_op st) r pn)
               end
      end
  end.

Definition cf_fuel (N D : poly) : nat := (4 * (List.length N + List.length D) + 4)%nat.
Definition synth_cauer (sp : ladder) (N D : poly) : res (option net) :=
  if pzerob N || pzerob D then Err
  else if l_src_inv sp && (psize N <=? 1)%nat && (psize D <=? 1)%nat then Err
       (* 1/lexpr of an s-free impedance is a constant-domain expression without
          a variable: sym.Poly(N, None) raises GeneratorsNeeded *)
  else let A := if l_src_inv sp then D else N in
       let B := if l_src_inv sp then N else D in
       match (if l_et sp then icf_run (cf_fuel N D) A B else cf_coeffs (cf_fuel N D) A B) with
       | None => Err
       | Some qs => ladder_fold sp qs 0
       end.

Fixpoint foster_fold (fs : foster) (ts : list (rat K)) (acc : option net) : res (option net) :=
  match ts with
  | [] => Ok acc
  | t :: rest => match pattern_run (f_pat fs) (if f_inv fs then rinv t else t) with
                 | Err => Err
                 | Ok pn => foster_fold fs rest (comb_run (f_op fs) acc pn)
                 end
  end.
(* the terms [ts] come from the implementation (partfrac is an oracle); the model
   refuses a term list that does not sum to the requested function *)
Definition synth_foster (fs : foster) (N D : poly) (ts : list (rat K)) : res (option net) :=
  if pzerob N || pzerob D then Err
  else if reqb (rsum ts) (if f_src_inv fs then (D, N) else (N, D)) then foster_fold fs ts None
  else Err.

Definition run_method (m : method) (N D : poly) (ts : list (rat K)) : res (option net) :=
  match m with
  | MPat p => pattern_run p (N, D)
  | MTry p1 p2 => pattern_try p1 p2 (N, D)
  | MCauer l => synth_cauer l N D
  | MFoster f => synth_foster f N D ts
  end.
Definition method_wf (m : method) : Prop :=
  match m with
  | MPat p => coeff_sound (K:=K) p
  | MTry p1 p2 => coeff_sound (K:=K) p1 /\ coeff_sound (K:=K) p2
  | MCauer l => ladder_wfb l = true /\ coeff_sound (K:=K) (ls_pat (l_even l)) /\ coeff_sound (K:=K) (ls_pat (l_odd l))
  | MFoster f => foster_wfb f = true /\ coeff_sound (K:=K) (f_pat f)
  end.

Fixpoint assoc (name : string) (tbl : list (string * method)) : option method :=
  match tbl with [] => None | (k, m) :: t => if String.eqb k name then Some m else assoc name t end.
(* Synthesis.network: 'default' alias, getattr(self, form) *)
Definition network_model (dflt : string) (tbl : list (string * method)) (form : string)
           (N D : poly) (ts : list (rat K)) : res (option net) :=
  let f := if String.eqb form "default" then dflt else form in
  match assoc f tbl with None => Err | Some m => run_method m N D ts end.
(* Network.transform: self.Z(s).network(form); the impedance expression is in
   lowest terms (sympy cancels), modelled by the self-certifying [pcancel] *)
Definition Zrat_c (nt : net) : rat K := pcancel (fst (Zrat nt)) (snd (Zrat nt)).
Definition transform_model (dflt : string) (tbl : list (string * method)) (nt : net) (form : string)
           (ts : list (rat K)) : res (option net) :=
  network_model dflt tbl form (fst (Zrat_c nt)) (snd (Zrat_c nt)) ts.

(* ---------------------------------------------------------------------------- *)
Definition lmode (zstart : bool) (n : nat) : bool := if zstart then Nat.even n else Nat.odd n.
Lemma lmode_S z n : lmode z (S n) = negb (lmode z n).
Proof. unfold lmode. destruct z; [rewrite Nat.even_succ, <- Nat.negb_even | rewrite Nat.odd_succ, <- Nat.negb_odd]; reflexivity. Qed.

Definition linv (m : bool) (nt : net) (f : rat K) (x : K) : Prop :=
  Zwf nt x ->
  if m then Zev nt x * peval (snd f) x = peval (fst f) x /\ peval (snd f) x <> 0
  else Zev nt x * peval (fst f) x = peval (snd f) x /\ peval (fst f) x <> 0.

Lemma series2_SS (a b : net) : series2 (Some a) (Some b) = Some (Ser [a; b]). Proof. reflexivity. Qed.
Lemma parallel2_SS (a b : net) : parallel2 (Some a) (Some b) = Some (Par [a; b]). Proof. reflexivity. Qed.

Section WithSpec.
Variable sp : ladder.
Hypothesis Hwf : ladder_wfb sp = true.
Hypothesis Heven : coeff_sound (K:=K) (ls_pat (l_even sp)).
Hypothesis Hodd : coeff_sound (K:=K) (ls_pat (l_odd sp)).
Let zstart := negb (l_src_inv sp).

Lemma step_of_mode n : let st := if Nat.even n then l_even sp else l_odd sp in
  step_okb (lmode zstart n) st = true /\ coeff_sound (K:=K) (ls_pat st).
Proof. cbv zeta. unfold ladder_wfb in Hwf. apply andb_true_iff in Hwf. destruct Hwf as [He Ho].
  unfold lmode, zstart. rewrite <- Nat.negb_even. destruct (Nat.even n); destruct (l_src_inv sp); cbn [negb] in *; split; assumption. Qed.

Theorem ladder_sound x : x <> 0 -> forall qs n onet,
  qs <> [] -> qden_ok qs x -> last_nzx qs x -> ladder_fold sp qs n = Ok onet ->
  exists nt, onet = Some nt /\ linv (lmode zstart n) nt (cf_rat qs) x.
Proof. intros Hx. induction qs as [|q rest IH]; [congruence|]. intros n onet _ Hden Hlast H.
  cbn [ladder_fold] in H. destruct (ladder_fold sp rest (S n)) as [r|] eqn:Hr; [|discriminate].
  inversion Hden as [|? ? Hq Hdrest]; subst.
  destruct (step_of_mode n) as [Hst Hps]. set (st := if Nat.even n then l_even sp else l_odd sp) in *.
  set (m := lmode zstart n) in *.
  assert (Hstep : ls_op st = (if m then CSer else CPar) /\ ls_inv st = negb m).
  { unfold step_okb in Hst. destruct (ls_op st), (ls_inv st), m; try discriminate; split; reflexivity. }
  destruct Hstep as [Hop Hinv].
  destruct rest as [|q' t].
  - (* last coefficient *)
    cbn [ladder_fold] in Hr. inversion Hr; subst r. clear Hr IH.
    unfold last_nzx in Hlast. cbn [last] in Hlast.
    destruct (Nat.even n && l_skip0 sp && (n =? 0)%nat && pzerob (fst q)) eqn:Sk.
    + exfalso. apply andb_true_iff in Sk. destruct Sk as [_ Z]. apply Hlast. apply pzerob_eval. exact Z.
    + destruct (pattern_run (ls_pat st) (if ls_inv st then rinv q else q)) as [pn|] eqn:Hp; [|discriminate].
      inversion H; try subst onet. clear H. rewrite Hop, Hinv in *.
      destruct m; cbn [negb] in Hp.
      * destruct q as [qn qd]. pose proof (pattern_sound K _ Hps _ _ _ x Hp Hx) as R. cbn [fst snd] in *.
        destruct pn as [p|]; cbn [realises] in R; [|exfalso; tauto].
        exists p. split; [reflexivity|]. intros Hw. cbn [cf_rat fst snd]. split; [apply R; exact Hw | exact Hq].
      * destruct q as [qn qd]. unfold rinv in Hp. cbn [fst snd] in *.
        pose proof (pattern_sound K _ Hps _ _ _ x Hp Hx) as R.
        destruct pn as [p|]; cbn [realises] in R; [|exfalso; tauto].
        exists p. split; [reflexivity|]. intros Hw. cbn [cf_rat fst snd]. split; [apply R; exact Hw | exact Hlast].
  - (* inner coefficient *)
    assert (Hl' : last_nzx (q' :: t) x) by (unfold last_nzx in *; rewrite last_cons_ne' in Hlast by congruence; exact Hlast).
    destruct (IH (S n) r ltac:(congruence) Hdrest Hl' Hr) as [rn [-> Hrn]]. clear IH Hr.
    rewrite lmode_S in Hrn. fold m in Hrn.
    change (cf_rat (q :: q' :: t)) with (radd q (rinv (cf_rat (q' :: t)))).
    set (f := cf_rat (q' :: t)) in *. destruct q as [qn qd]. destruct f as [a' b'].
    unfold linv in *. unfold radd, rinv. cbn [fst snd] in *. rewrite peval_padd, !peval_pmul.
    (* the case "nothing is added at this level" (skip guard, or realiser returned None because qn(x) = 0) *)
    assert (Hskip : peval qn x = 0 -> exists nt, Some rn = Some nt /\
       (Zwf nt x -> if m then Zev nt x * (peval qd x * peval a' x) = peval qn x * peval a' x + peval b' x * peval qd x /\ peval qd x * peval a' x <> 0
                    else Zev nt x * (peval qn x * peval a' x + peval b' x * peval qd x) = peval qd x * peval a' x /\ peval qn x * peval a' x + peval b' x * peval qd x <> 0)).
    { intros Z. exists rn. split; [reflexivity|]. intros Hw. specialize (Hrn Hw). rewrite Z. destruct m; cbn [negb] in Hrn; destruct Hrn as [E Hnz].
      - split; [|apply mul_nz; assumption]. transitivity (peval qd x * (Zev rn x * peval a' x)); [ring | rewrite E; ring].
      - split; [transitivity (peval qd x * (Zev rn x * peval b' x)); [ring | rewrite E; ring]|].
        intros E0. apply (mul_nz K _ _ Hnz Hq). rewrite <- E0. ring. }
    destruct (Nat.even n && l_skip0 sp && (n =? 0)%nat && pzerob qn) eqn:Sk.
    + inversion H; try subst onet. apply Hskip. apply andb_true_iff in Sk. destruct Sk as [_ Z]. apply pzerob_eval. exact Z.
    + destruct (pattern_run (ls_pat st) (if ls_inv st then rinv (qn, qd) else (qn, qd))) as [pn|] eqn:Hp; [|discriminate].
      inversion H; try subst onet. clear H. rewrite Hop, Hinv in *. unfold rinv in Hp. cbn [fst snd] in Hp.
      destruct m; cbn [negb comb_run] in *.
      * pose proof (pattern_sound K _ Hps _ _ _ x Hp Hx) as R. destruct pn as [p|]; cbn [realises] in R.
        -- rewrite series2_SS. exists (Ser [rn; p]). split; [reflexivity|]. intros Hw. apply Zwf_Ser2 in Hw. destruct Hw as [Hw1 Hw2].
           destruct (Hrn Hw1) as [E Hnz]. specialize (R Hw2). rewrite Zev_Ser2. split; [|apply mul_nz; assumption].
           transitivity (peval qd x * (Zev rn x * peval a' x) + (Zev p x * peval qd x) * peval a' x); [ring | rewrite E, R; ring].
        -- apply Hskip. destruct R as [R|R]; [exact R | contradiction].
      * pose proof (pattern_sound K _ Hps _ _ _ x Hp Hx) as R. destruct pn as [p|]; cbn [realises] in R.
        -- rewrite parallel2_SS. exists (Par [rn; p]). split; [reflexivity|]. intros Hw. apply Zwf_Par2 in Hw.
           destruct Hw as [Hw1 [Hw2 [Z1 [Z2 HS]]]]. destruct (Hrn Hw1) as [E Hnz]. specialize (R Hw2). rewrite Zev_Par2.
           set (S := 1 / Zev rn x + (1 / Zev p x + 0)) in *.
           assert (EA : peval qn x * peval a' x + peval b' x * peval qd x = S * (peval qd x * peval a' x)).
           { rewrite <- E, <- R. unfold S. field. split; assumption. }
           assert (Ha' : peval a' x <> 0) by (rewrite <- E; apply mul_nz; assumption).
           rewrite EA. split; [field; exact HS | apply mul_nz; [exact HS | apply mul_nz; assumption]].
        -- apply Hskip. destruct R as [R|R]; [contradiction | exact R].
Qed.

Theorem cauer_sound N D nt x : synth_cauer sp N D = Ok (Some nt) -> x <> 0 -> peval D x <> 0 -> Zwf nt x ->
  Zev nt x = peval N x / peval D x.
Proof. unfold synth_cauer. destruct (pzerob N || pzerob D) eqn:Z0; [discriminate|].
  apply orb_false_iff in Z0. destruct Z0 as [ZN ZD].
  destruct (l_src_inv sp && (psize N <=? 1)%nat && (psize D <=? 1)%nat); [discriminate|].
  intros H Hx HD Hw.
  set (A := if l_src_inv sp then D else N) in *. set (B := if l_src_inv sp then N else D) in *.
  assert (ZA : pzerob A = false) by (unfold A; destruct (l_src_inv sp); assumption).
  assert (ZB : pzerob B = false) by (unfold B; destruct (l_src_inv sp); assumption).
  destruct (if l_et sp then icf_run (cf_fuel N D) A B else cf_coeffs (cf_fuel N D) A B) as [qs|] eqn:Hq; [|discriminate].
  assert (Hall : qs <> [] /\ req (cf_rat qs) (A, B) /\ last_nzx qs x /\ qden_ok qs x).
  { destruct (l_et sp).
    - split; [apply (icf_run_ne K _ _ _ _ Hq)|]. split; [apply (icf_run_sound K _ _ _ _ Hq)|]. apply (icf_run_shape K _ _ _ _ ZA ZB Hq x Hx).
    - split; [|split; [apply (cf_coeffs_sound K _ _ _ _ Hq) | apply (cf_coeffs_shape K _ _ _ _ ZA ZB Hq x Hx)]].
      unfold cf_coeffs in Hq. destruct (psize A <? psize B)%nat.
      + destruct (cf_run (cf_fuel N D) B A); [inversion Hq; discriminate | discriminate].
      + apply (cf_run_ne K _ _ _ _ Hq). }
  destruct Hall as [Hne [Hreq [Hl Hd]]].
  destruct (ladder_sound x Hx qs 0%nat _ Hne Hd Hl H) as [nt' [E Hinv]]. inversion E; subst nt'. clear E.
  specialize (Hinv Hw). specialize (Hreq x). cbn [fst snd] in Hreq. unfold lmode, zstart in Hinv. cbn [Nat.even Nat.odd] in Hinv.
  unfold A, B in Hreq. destruct (l_src_inv sp); cbn [negb] in Hinv; destruct Hinv as [E Hnz].
  - (* admittance start: cf = D/N *)
    set (a := peval (fst (cf_rat qs)) x) in *. set (b := peval (snd (cf_rat qs)) x) in *.
    destruct (fdec K b 0) as [Hb|Hb].
    + rewrite Hb in *. assert (ZN0 : peval N x = 0).
      { assert (AN : a * peval N x = 0) by (rewrite Hreq; ring).
        destruct (mul_eq0 K _ _ AN) as [F|F]; [contradiction | exact F]. }
      assert (Zz : Zev nt x = 0). { destruct (mul_eq0 K _ _ E) as [F|F]; [exact F | contradiction]. }
      rewrite Zz, ZN0. field. exact HD.
    + assert (E2 : Zev nt x * peval D x = peval N x).
      { apply (mul_cancel_x K b); [exact Hb|]. transitivity (Zev nt x * (peval D x * b)); [ring|]. rewrite <- Hreq.
        transitivity (Zev nt x * a * peval N x); [ring | rewrite E; ring]. }
      rewrite <- E2. field. exact HD.
  - (* impedance start: cf = N/D *)
    set (a := peval (fst (cf_rat qs)) x) in *. set (b := peval (snd (cf_rat qs)) x) in *.
    assert (E2 : Zev nt x * peval D x = peval N x).
    { apply (mul_cancel_x K b); [exact Hnz|]. transitivity (Zev nt x * b * peval D x); [ring|]. rewrite E, Hreq. ring. }
    rewrite <- E2. field. exact HD.
Qed.
End WithSpec.

(* ---- Foster ------------------------------------------------------------------ *)
Definition tsum (ts : list (rat K)) (x : K) : K := fold_right (fun f acc => rat_eval f x + acc) 0 ts.
Definition finv (ys : bool) (acc : option net) (S : K) (x : K) : Prop :=
  match acc with
  | None => S = 0
  | Some a => Zwf a x -> if ys then Zev a x * S = 1 else Zev a x = S
  end.
Lemma foster_fold_sound (fs : foster) : foster_wfb fs = true -> coeff_sound (K:=K) (f_pat fs) ->
  forall x, x <> 0 -> forall ts acc S r, Forall (fun f => peval (snd f) x <> 0) ts ->
  finv (f_src_inv fs) acc S x -> foster_fold fs ts acc = Ok r -> finv (f_src_inv fs) r (S + tsum ts x) x.
Proof. intros Hwf Hp x Hx. induction ts as [|t rest IH]; intros acc S r Hd Hacc H.
  - cbn [foster_fold] in H. inversion H; subst. cbn [tsum fold_right].
    destruct r as [a|]; cbn [finv] in *.
    + intros Hw. specialize (Hacc Hw). destruct (f_src_inv fs); [rewrite <- Hacc; ring | rewrite Hacc; ring].
    + rewrite Hacc. ring.
  - cbn [foster_fold] in H. inversion Hd as [|? ? Ht Hrest]; subst.
    destruct (pattern_run (f_pat fs) (if f_inv fs then rinv t else t)) as [pn|] eqn:Hpn; [|discriminate].
    cbn [tsum fold_right]. fold (tsum rest x).
    replace (S + (rat_eval t x + tsum rest x)) with ((S + rat_eval t x) + tsum rest x) by ring.
    refine (IH (comb_run (f_op fs) acc pn) (S + rat_eval t x) r Hrest _ H). clear IH H.
    destruct t as [tn td]. cbn [snd] in Ht. unfold foster_wfb in Hwf. unfold rat_eval. cbn [fst snd].
    destruct (f_op fs) eqn:Op, (f_inv fs) eqn:Iv, (f_src_inv fs) eqn:Sv; try discriminate; unfold rinv in Hpn; cbn [fst snd] in Hpn;
      pose proof (pattern_sound K _ Hp _ _ _ x Hpn Hx) as R; cbn [comb_run].
    + (* series, impedance terms *)
      destruct pn as [p|]; cbn [realises] in R.
      * assert (Zp : Zwf p x -> Zev p x = peval tn x / peval td x).
        { intros Hw. rewrite <- (R Hw). field. exact Ht. }
        destruct acc as [a|]; cbn [finv] in *.
        -- rewrite series2_SS. cbn [finv]. intros Hw. apply Zwf_Ser2 in Hw. destruct Hw as [H1 H2].
           rewrite Zev_Ser2, (Hacc H1), (Zp H2). reflexivity.
        -- change (series2 None (Some p)) with (Some p). cbn [finv]. intros Hw. rewrite (Zp Hw), Hacc. ring.
      * assert (Z0 : peval tn x / peval td x = 0).
        { destruct R as [R|R]; [rewrite R; field; exact Ht | contradiction]. }
        rewrite Z0. destruct acc as [a|]; cbn [finv] in *.
        -- change (series2 (Some a) None) with (Some a). cbn [finv]. intros Hw. rewrite (Hacc Hw). ring.
        -- change (series2 (@None net) None) with (@None net). cbn [finv]. rewrite Hacc. ring.
    + (* parallel, admittance terms *)
      destruct pn as [p|]; cbn [realises] in R.
      * destruct acc as [a|]; cbn [finv] in *.
        -- rewrite parallel2_SS. cbn [finv]. intros Hw. apply Zwf_Par2 in Hw. destruct Hw as [H1 [H2 [Z1 [Z2 HS]]]].
           specialize (Hacc H1). specialize (R H2). rewrite Zev_Par2.
           assert (ES : S = 1 / Zev a x). { transitivity (Zev a x * S / Zev a x); [field; exact Z1 | rewrite Hacc; reflexivity]. }
           assert (Hn : peval tn x <> 0). { intros E0. apply Ht. rewrite <- R, E0. ring. }
           assert (ET : peval tn x / peval td x = 1 / Zev p x). { rewrite <- R. field. split; assumption. }
           rewrite ES, ET. set (Y := 1 / Zev a x + (1 / Zev p x + 0)) in *.
           replace (1 / Zev a x + 1 / Zev p x) with Y by (unfold Y; ring). field. exact HS.
        -- change (parallel2 None (Some p)) with (Some p). cbn [finv]. intros Hw. specialize (R Hw). rewrite Hacc.
           assert (Hn : peval tn x <> 0). { intros E0. apply Ht. rewrite <- R, E0. ring. }
           rewrite <- R. field. repeat split; first [exact Hn | intros E0; apply Ht; rewrite <- R, E0; ring].
      * assert (Z0 : peval tn x / peval td x = 0).
        { destruct R as [R|R]; [contradiction | rewrite R; field; exact Ht]. }
        rewrite Z0. destruct acc as [a|]; cbn [finv] in *.
        -- change (parallel2 (Some a) None) with (Some a). cbn [finv]. intros Hw. specialize (Hacc Hw).
           transitivity (Zev a x * S); [ring | exact Hacc].
        -- change (parallel2 (@None net) None) with (@None net). cbn [finv]. rewrite Hacc. ring.
Qed.

Theorem foster_sound (fs : foster) : foster_wfb fs = true -> coeff_sound (K:=K) (f_pat fs) ->
  forall N D ts nt x, synth_foster fs N D ts = Ok (Some nt) -> x <> 0 -> peval D x <> 0 ->
  Forall (fun f => peval (snd f) x <> 0) ts -> Zwf nt x -> Zev nt x = peval N x / peval D x.
Proof. intros Hwf Hp N D ts nt x. unfold synth_foster. destruct (pzerob N || pzerob D); [discriminate|].
  destruct (reqb (rsum ts) (if f_src_inv fs then (D, N) else (N, D))) eqn:Hc; [|discriminate].
  intros H Hx HD Hts Hw. apply reqb_sound in Hc.
  pose proof (foster_fold_sound fs Hwf Hp x Hx ts None 0 (Some nt) Hts) as F.
  assert (F0 : finv (f_src_inv fs) None 0 x) by reflexivity. specialize (F F0 H). cbn [finv] in F. specialize (F Hw).
  destruct (rsum_eval K ts x Hts) as [Hsd Hse]. fold (tsum ts x) in Hse.
  destruct (f_src_inv fs).
  - specialize (Hc x). cbn [fst snd] in Hc. assert (E : Zev nt x * peval (fst (rsum ts)) x = peval (snd (rsum ts)) x).
    { transitivity (Zev nt x * (0 + tsum ts x) * peval (snd (rsum ts)) x); [rewrite <- Hse; unfold rat_eval; field; exact Hsd | rewrite F; ring]. }
    assert (E2 : Zev nt x * peval D x = peval N x).
    { apply (mul_cancel_x K (peval (snd (rsum ts)) x)); [exact Hsd|].
      transitivity (Zev nt x * (peval D x * peval (snd (rsum ts)) x)); [ring|]. rewrite <- Hc.
      transitivity (Zev nt x * peval (fst (rsum ts)) x * peval N x); [ring | rewrite E; ring]. }
    rewrite <- E2. field. exact HD.
  - rewrite F. transitivity (tsum ts x); [ring|]. rewrite <- Hse. apply (req_eval K _ (N, D) x); [exact Hc | exact Hsd | exact HD]. Qed.

(* ---- dispatch ------------------------------------------------------------------ *)
Theorem method_sound (m : method) : method_wf m -> forall N D ts nt x,
  run_method m N D ts = Ok (Some nt) -> x <> 0 -> peval D x <> 0 ->
  Forall (fun f => peval (snd f) x <> 0) ts -> Zwf nt x -> Zev nt x = peval N x / peval D x.
Proof. destruct m as [p|p1 p2|l|f]; cbn [method_wf run_method]; intros Hm N D ts nt x H Hx HD Hts Hw.
  - pose proof (pattern_sound K p Hm _ _ _ x H Hx) as R. cbn [realises] in R. rewrite <- (R Hw). field. exact HD.
  - destruct Hm as [H1 H2]. pose proof (pattern_try_sound K p1 p2 H1 H2 _ _ _ x H Hx) as R. cbn [realises] in R.
    rewrite <- (R Hw). field. exact HD.
  - destruct Hm as [H1 [H2 H3]]. apply (cauer_sound l H1 H2 H3 N D nt x H Hx HD Hw).
  - destruct Hm as [H1 H2]. apply (foster_sound f H1 H2 N D ts nt x H Hx HD Hts Hw). Qed.

Lemma assoc_wf name tbl m : Forall (fun e => method_wf (snd e)) tbl -> assoc name tbl = Some m -> method_wf m.
Proof. induction 1 as [|[k m'] t Hm Ht IH]; cbn [assoc]; [discriminate|].
  destruct (String.eqb k name); [intros E; inversion E; subst; exact Hm | exact IH]. Qed.
Theorem network_sound dflt tbl : Forall (fun e => method_wf (snd e)) tbl ->
  forall form N D ts nt x, network_model dflt tbl form N D ts = Ok (Some nt) -> x <> 0 -> peval D x <> 0 ->
  Forall (fun f => peval (snd f) x <> 0) ts -> Zwf nt x -> Zev nt x = peval N x / peval D x.
Proof. intros Ht form N D ts nt x. unfold network_model.
  destruct (assoc (if String.eqb form "default" then dflt else form) tbl) as [m|] eqn:A; [|discriminate].
  apply (method_sound m (assoc_wf _ _ _ Ht A)). Qed.
Theorem transform_preserves_Z dflt tbl : Forall (fun e => method_wf (snd e)) tbl ->
  forall (n0 : net) form ts nt x, transform_model dflt tbl n0 form ts = Ok (Some nt) -> x <> 0 -> Zwf n0 x ->
  Forall (fun f => peval (snd f) x <> 0) ts -> Zwf nt x -> Zev nt x = Zev n0 x.
Proof. intros Ht n0 form ts nt x H Hx Hw0 Hts Hw. destruct (Zrat_eval K n0 x Hw0) as [Hd He].
  destruct (pcancel_sound K (fst (Zrat n0)) (snd (Zrat n0)) x Hd) as [Hd' He'].
  rewrite He. unfold rat_eval. rewrite <- He'. apply (network_sound dflt tbl Ht form _ _ ts nt x H Hx Hd' Hts Hw). Qed.
End Ladder.

Arguments comb_run {K}. Arguments ladder_fold {K}. Arguments cf_fuel {K}. Arguments synth_cauer {K}.
Arguments foster_fold {K}. Arguments synth_foster {K}. Arguments run_method {K}. Arguments method_wf {K}.
Arguments network_model {K}. Arguments transform_model {K}. Arguments Zrat_c {K}. Arguments tsum {K}.
