(* C15 - executable helpers for the correspondence evaluation over Qc
   (vm_compute inside Coq): comparison of a model realisation with the matrices
   the real code returned, and the partial-fraction contract of the sympy
   pole/residue oracle used by from_ba_DCF. *)
Require Import LT.FieldSec LT.FormulCanon.
From Coq Require Import Arith.
Local Open Scope bool_scope.

Definition seqn (n : nat) : list nat := seq 0 n.
Definition nthQ (l : list Qc) (k : nat) : Qc := nth k l (0%Qc : QcF).
Definition real_eqb (r : real QcF) (N : nat) (A : list (list Qc)) (B C : list Qc) (D : Qc) : bool :=
  Nat.eqb (rNx r) N && Nat.eqb (length A) N && Nat.eqb (length B) N && Nat.eqb (length C) N &&
  forallb (fun i => forallb (fun j => qc_eqb (rA r i j) (nthQ (nth i A []) j)) (seqn N)) (seqn N) &&
  forallb (fun i => qc_eqb (rB r i) (nthQ B i)) (seqn N) &&
  forallb (fun j => qc_eqb (rC r j) (nthQ C j)) (seqn N) &&
  qc_eqb (rD r) D.
Definition seqfun (l : list Qc) : nat -> QcF := fun k => nthQ l k.
(* a(s) * sum_n r_n/(s - p_n) = b(s) - d a(s), poles distinct from s and from each other *)
Definition pf_contract (a b pole res : list Qc) (s : Qc) : bool :=
  let N := (length a - 1)%nat in
  Nat.eqb (length pole) N && Nat.eqb (length res) N &&
  forallb (fun n => negb (qc_eqb (Qcminus s (nthQ pole n)) 0%Qc)) (seqn N) &&
  forallb (fun n => forallb (fun m => Nat.eqb n m || negb (qc_eqb (nthQ pole n) (nthQ pole m))) (seqn N)) (seqn N) &&
  qc_eqb (Qcmult (pe (K:=QcF) a N s) (sumn (K:=QcF) N (fun n => Qcdiv (nthQ res n) (Qcminus s (nthQ pole n)))))
         (Qcminus (pe (K:=QcF) b (length b - 1) s) (Qcmult (dterm (K:=QcF) a b) (pe (K:=QcF) a N s))).
(* the transfer function value the real code reported satisfies a(s) G = b(s) *)
Definition tf_eqb (a b : list Qc) (s g : Qc) : bool :=
  qc_eqb (Qcmult (pe (K:=QcF) a (length a - 1) s) g) (pe (K:=QcF) b (length b - 1) s).

(* state-space extraction contract: for an excitation (X, U) of the substituted
   resistive circuit solved by Lcapy itself, A X + B U are the derivatives it
   reads off and C X + D U the outputs *)
Definition dotQ (a b : list Qc) : Qc := fold_right Qcplus 0%Qc (map (fun p => Qcmult (fst p) (snd p)) (combine a b)).
Definition mat_vecQ (M : list (list Qc)) (x : list Qc) : list Qc := map (fun row => dotQ row x) M.
Fixpoint list_eqbQ (a b : list Qc) : bool :=
  match a, b with [], [] => true | x :: a', y :: b' => qc_eqb x y && list_eqbQ a' b' | _, _ => false end.
Definition addQ (a b : list Qc) : list Qc := map (fun p => Qcplus (fst p) (snd p)) (combine a b).
Definition ss_exc_ok (A B C D : list (list Qc)) (X U dotx y : list Qc) : bool :=
  list_eqbQ (addQ (mat_vecQ A X) (mat_vecQ B U)) dotx && list_eqbQ (addQ (mat_vecQ C X) (mat_vecQ D U)) y.
