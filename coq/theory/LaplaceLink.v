(* LaplaceLink — ties the algebraic side of C09 (normal forms of LaplaceSig.v / the specification values of
   LaplaceModel.v) to the defining integral (LaplaceAnalysis.v), over the real numbers.

     nf_is_integral      every classical normal form (no impulses) with non-negative delays and real poles
                         has  nf_val  as its improper integral  lim int_0^b x(t) e^{-st} dt  for real s beyond the poles
     spec_sincos_is_integral, spec_rect/tri/ramp/rstep_is_integral
                         the specification values used by the table-entry theorems ARE the integrals of
                         e^{be} e^{al t} sin|cos(w t + p) u(t - tau),  rect/tri/ramp/rampstep(a t)  restricted to t >= 0
     Renv                the real instance of the abstract functions (exp, sin, cos, Rabs, PI, x < 0)
   Depends on the classical real-number axioms of the standard library (printed in props/C09.v). *)
From Coq Require Import Reals Lra Lia.
From Coquelicot Require Import Coquelicot.
Require Import LT.FieldSec LT.PolyQ LT.ExpPoly LT.LaplaceSig LT.LaplaceModel LT.LaplaceAnalysis.
Open Scope R_scope.

Definition Rneg (x : R) : bool := if Rlt_dec x 0 then true else false.
Definition Renv (Fn : nat -> R -> R) (Ic : nat -> nat -> R) : lenv RFld :=
  LEnv RFld exp sin cos Rabs PI (fun _ => true) Rneg Fn Ic (fun _ x => x).

(* ---- normal forms as real functions -------------------------------------------------------------------- *)
Fixpoint nf_fun (N : nf RFld) (t : R) : R :=
  match N with
  | [] => 0
  | NReg None r :: N' => sval r t + nf_fun N' t
  | NReg (Some d) r :: N' => LaplaceAnalysis.delayed d (sval r) t + nf_fun N' t
  | NSing _ _ :: N' => nf_fun N' t
  end.
Fixpoint nf_classical (s : R) (N : nf RFld) : Prop :=
  match N with
  | [] => True
  | NReg None r :: N' => (forall c n p, In (c, n, p) r -> p < s) /\ nf_classical s N'
  | NReg (Some d) r :: N' => 0 <= d /\ (forall c n p, In (c, n, p) r -> p < s) /\ nf_classical s N'
  | NSing _ _ :: _ => False
  end.
Theorem nf_is_integral (N : nf RFld) (s : R) : nf_classical s N -> LT (nf_fun N) s (nf_val RFld exp s N).
Proof.
  induction N as [|e N IH]; cbn [nf_classical nf_fun nf_val].
  - intros _. apply LT_zero.
  - destruct e as [[d|] r|T q]; cbn [nent_val].
    + intros [Hd [Hp HN]]. apply (LT_plus (LaplaceAnalysis.delayed d (sval r)) (nf_fun N)); [|apply IH; exact HN].
      replace (exp (@fopp RFld (@fmul RFld d s))) with (exp (- s * d)) by (f_equal; cbn; ring).
      apply LT_delay; [exact Hd | apply L_is_integral; exact Hp].
    + intros [Hp HN]. apply (LT_plus (sval r) (nf_fun N)); [apply L_is_integral; exact Hp | apply IH; exact HN].
    + intros [].
Qed.

(* ---- the specification values are the integrals ------------------------------------------------------------ *)
Lemma Rneg_false x : 0 <= x -> Rneg x = false.
Proof. intros H. unfold Rneg. destruct (Rlt_dec x 0); [lra | reflexivity]. Qed.
Lemma Rneg_true x : x < 0 -> Rneg x = true.
Proof. intros H. unfold Rneg. destruct (Rlt_dec x 0); [reflexivity | lra]. Qed.

(* e^{be} e^{al t} sin|cos(w t + p) u(t - tau), tau >= 0 (zeta = -tau is the shift of the Heaviside argument) *)
Definition sincos_fun (iscos : bool) (al be w p tau : R) : R -> R :=
  fun t => if Rlt_dec t tau then 0 else exp (al * t + be) * (if iscos then cos (w * t + p) else sin (w * t + p)).
Theorem spec_sincos_is_integral (iscos : bool) (al be w p tau s : R) : 0 <= tau -> al < s ->
  LT (sincos_fun iscos al be w p tau) s (spec_sincos RFld exp sin cos Rneg iscos true al be w p (- tau) s).
Proof.
  intros Htau Hs. unfold spec_sincos. cbv zeta.
  assert (Et : sc_tau RFld Rneg true (- tau) = tau).
  { unfold sc_tau. cbn [fopp RFld]. replace (- - tau) with tau by ring.
    match goal with |- (if ?c then _ else _) = _ => destruct c eqn:E end; [|reflexivity].
    apply orb_true_iff in E. destruct E as [E|E].
    - rewrite (Rneg_false tau Htau) in E. discriminate.
    - apply PolyQ.feqb_eq in E. symmetry. exact E. }
  rewrite Et. clear Et. cbn [fadd fmul fsub fopp fdiv RFld]. unfold sq. cbn [fadd fmul fsub RFld].
  set (ph := p + w * tau).
  set (V := (if iscos then (s - al) * cos ph - w * sin ph else w * cos ph + (s - al) * sin ph) / ((s - al) * (s - al) + w * w)).
  (* the undelayed signal g(t') = e^{be} e^{al tau} e^{al t'} trig(w t' + ph) *)
  set (g := fun t' => exp be * exp (al * tau) * (exp (al * t') * (if iscos then cos (w * t' + ph) else sin (w * t' + ph)))).
  assert (Hg : LT g s (exp be * exp (al * tau) * V)).
  { unfold g. apply LT_scal. unfold V. destruct iscos.
    - replace ((s - al) * (s - al) + w * w) with ((s - al) ^ 2 + w ^ 2) by ring. apply laplace_cos. exact Hs.
    - replace ((s - al) * (s - al) + w * w) with ((s - al) ^ 2 + w ^ 2) by ring. apply laplace_sin. exact Hs. }
  apply (LT_delay g s _ tau Htau) in Hg.
  match goal with |- LT _ _ ?X => replace X with (exp (- s * tau) * (exp be * exp (al * tau) * V)) end.
  2:{ unfold V, ph. replace (- (tau * s)) with (- s * tau) by ring. destruct iscos; unfold Rdiv; ring. }
  apply (LT_ext (LaplaceAnalysis.delayed tau g)); [|exact Hg].
  intros t _. unfold LaplaceAnalysis.delayed, sincos_fun, g. destruct (Rlt_dec t tau); [reflexivity|].
  unfold ph. replace (al * t + be) with (be + (al * tau + al * (t - tau))) by ring. rewrite !exp_plus.
  replace (w * (t - tau) + (p + w * tau)) with (w * t + p) by ring. ring.
Qed.

Theorem spec_rect_is_integral (a s : R) : 0 < a -> 0 < s -> LT (rect_pos a) s (spec_rect RFld exp a s).
Proof. intros Ha Hs. unfold spec_rect. cbn [fadd fmul fsub fopp fdiv f1 RFld].
  replace (- (s / ((1 + 1) * a))) with (- s / (2 * a)) by (field; lra). apply laplace_rect; assumption. Qed.
Theorem spec_tri_is_integral (a s : R) : 0 < a -> 0 < s -> LT (tri_pos a) s (spec_tri RFld exp a s).
Proof. intros Ha Hs. unfold spec_tri, sq. cbn [fadd fmul fsub fopp fdiv f1 RFld].
  replace (- (s / a)) with (- s / a) by (field; lra). replace (s * s) with (s ^ 2) by ring. apply laplace_tri; assumption. Qed.
Theorem spec_ramp_is_integral (a s : R) : 0 < s -> LT (fun t => a * t) s (spec_ramp RFld a s).
Proof. intros Hs. unfold spec_ramp, sq. cbn [fmul fdiv RFld]. replace (s * s) with (s ^ 2) by ring. apply laplace_ramp; assumption. Qed.
Theorem spec_rstep_is_integral (a s : R) : 0 < a -> 0 < s -> LT (rampstep_pos a) s (spec_rstep RFld exp a s).
Proof. intros Ha Hs. unfold spec_rstep, sq. cbn [fadd fmul fsub fopp fdiv f1 RFld].
  replace (- (s / a)) with (- s / a) by (field; lra). replace (s * s) with (s ^ 2) by ring. apply laplace_rampstep; assumption. Qed.

(* ---- the real functions satisfy the hypotheses of the table-entry theorems ------------------------------------ *)
Lemma R_ex_add (a b : R) : exp (a + b) = exp a * exp b. Proof. apply exp_plus. Qed.
Lemma R_ex_0 : exp 0 = 1. Proof. apply exp_0. Qed.
Lemma R_sn_quarter (x : R) : sin (x + PI / (1 + 1)) = cos x.
Proof. replace (PI / (1 + 1)) with (PI / 2) by (field). rewrite sin_plus, cos_PI2, sin_PI2. ring. Qed.
Lemma R_cs_quarter (x : R) : cos (x + PI / (1 + 1)) = - sin x.
Proof. replace (PI / (1 + 1)) with (PI / 2) by (field). rewrite cos_plus, cos_PI2, sin_PI2. ring. Qed.
Lemma R_fabs_pos (a : R) : pos RFld Rneg a = true -> Rabs a = a.
Proof. unfold pos. intros H. apply andb_true_iff in H. destruct H as [H _]. apply negb_true_iff in H.
  unfold Rneg in H. destruct (Rlt_dec a 0); [discriminate|]. apply Rabs_right. lra. Qed.

Print Assumptions nf_is_integral.
Print Assumptions spec_sincos_is_integral.
