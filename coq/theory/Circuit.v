(* Linear circuits as MNA systems: sparse update lists (what a [_stamp] method
   does to the G, B, C, D matrices and the Is, Es vectors), row residuals of the
   assembled system [G B; C D] (v, ib) = (Is, Es), and the PHYSICAL semantics of
   every component kind (currents drawn from nodes, constitutive relations)
   written from doc/netlists.rst, the class doc-strings and circuit theory
   (DESIGN.md Appendix B) - not from the stamps.
   Everything is over an arbitrary characteristic-0 field and axiom-free. *)
Require Import LT.FieldSec.
Local Open Scope F_scope.
Local Open Scope Z_scope.

(* ---- analysis kinds and component type tags that the stamps test -------- *)
Inductive akind := KDc | KAc | KS | KIvp | KLaplace | KT | KTime | KTransient | KNoise | KOther.
Definition akind_eqb (a b : akind) : bool :=
  match a, b with
  | KDc, KDc | KAc, KAc | KS, KS | KIvp, KIvp | KLaplace, KLaplace | KT, KT
  | KTime, KTime | KTransient, KTransient | KNoise, KNoise | KOther, KOther => true
  | _, _ => false end.
Inductive ctype := TyC | TyM | TyOtherType.
Definition ctype_eqb (a b : ctype) : bool :=
  match a, b with TyC, TyC | TyM, TyM | TyOtherType, TyOtherType => true | _, _ => false end.

(* ---- parameters a stamp may read (values come from the component) ------- *)
Inductive pname :=
  | pY | pZ | pIsc | pVoc | pArg0 | pArg1 | pAlpha | pEps
  | pA11 | pA12 | pA21 | pA22 | pY11 | pY12 | pY21 | pY22
  | pZM0 | pZM1   (* mutual impedance, opaque (contains sqrt): K stamp, s-like kinds / other kinds *)
  | pZL1 | pZL2 | pK
  | pZM2          (* mutual inductance M = k sqrt(L1 L2), opaque (contains sqrt): K stamp, initial-value analysis *)
  | pI01 | pI02.  (* initial currents of the two coupled inductors (0 when none is specified) *)

(* ---- the context a stamp runs in ---------------------------------------- *)
Record sctx (K : fld) := SCtx {
  kind : akind; typ : ctype;
  p0 : Z; p1 : Z; p2 : Z; p3 : Z;        (* node indices of the component, ground = -1 *)
  c0 : Z; c1 : Z;                         (* node indices of the controlling component *)
  bown : Z; bextra : Z; bctrl : Z; bL1 : Z; bL2 : Z;   (* branch-unknown indices *)
  has_ic : bool; ctrl_is_vsrc : bool; has_arg1 : bool; tp_has_src : bool;
  par : pname -> K
}.
Arguments kind {K}. Arguments typ {K}. Arguments p0 {K}. Arguments p1 {K}. Arguments p2 {K}.
Arguments p3 {K}. Arguments c0 {K}. Arguments c1 {K}. Arguments bown {K}. Arguments bextra {K}.
Arguments bctrl {K}. Arguments bL1 {K}. Arguments bL2 {K}. Arguments has_ic {K}.
Arguments ctrl_is_vsrc {K}. Arguments has_arg1 {K}. Arguments tp_has_src {K}. Arguments par {K}.

(* ---- updates ------------------------------------------------------------- *)
Inductive mname := MG | MB | MC | MD | MIs | MEs.
Definition mname_eqb (a b : mname) : bool :=
  match a, b with MG, MG | MB, MB | MC, MC | MD, MD | MIs, MIs | MEs, MEs => true | _, _ => false end.
Inductive uop := UAdd | USet.
Record upd (K : fld) := Upd { um : mname; uo : uop; ur : Z; uc : Z; uv : K }.
Arguments Upd {K}. Arguments um {K}. Arguments uo {K}. Arguments ur {K}. Arguments uc {K}. Arguments uv {K}.
Inductive sres (K : fld) := SOk (l : list (upd K)) | SErr.
Arguments SOk {K}. Arguments SErr {K}.

Definition guard {A} (b : bool) (l : list A) : list A := if b then l else [].

Section Sem.
Variable K : fld.
Add Field KFc : (fth K).
Implicit Types (T : list (upd K)) (v ib : Z -> K).

Definition ind (a b : Z) : K := if Z.eqb a b then f1 else f0.

(* contribution of the entries of matrix [mm] in row [r] applied to [x] *)
Fixpoint lin T (mm : mname) (r : Z) (x : Z -> K) : K :=
  match T with
  | [] => f0
  | u :: T' => fadd (if mname_eqb (um u) mm then fmul (fmul (ind (ur u) r) (uv u)) (x (uc u)) else f0)
                    (lin T' mm r x)
  end.
Fixpoint vecv T (mm : mname) (r : Z) : K :=
  match T with
  | [] => f0
  | u :: T' => fadd (if mname_eqb (um u) mm then fmul (ind (ur u) r) (uv u) else f0) (vecv T' mm r)
  end.
(* residual of node row r / branch row q of  [G B; C D](v,ib) - (Is,Es) *)
Definition node_res T v ib (r : Z) : K := fsub (fadd (lin T MG r v) (lin T MB r ib)) (vecv T MIs r).
Definition br_res T v ib (q : Z) : K := fsub (fadd (lin T MC q v) (lin T MD q ib)) (vecv T MEs q).

Lemma lin_app T1 T2 mm r x : lin (T1 ++ T2) mm r x = fadd (lin T1 mm r x) (lin T2 mm r x).
Proof. induction T1 as [|u T1 IH]; cbn [lin app]; [ring | rewrite IH; ring]. Qed.
Lemma vecv_app T1 T2 mm r : vecv (T1 ++ T2) mm r = fadd (vecv T1 mm r) (vecv T2 mm r).
Proof. induction T1 as [|u T1 IH]; cbn [vecv app]; [ring | rewrite IH; ring]. Qed.
Lemma node_res_app T1 T2 v ib r : node_res (T1 ++ T2) v ib r = fadd (node_res T1 v ib r) (node_res T2 v ib r).
Proof. unfold node_res. rewrite !lin_app, vecv_app. ring. Qed.
Lemma br_res_app T1 T2 v ib q : br_res (T1 ++ T2) v ib q = fadd (br_res T1 v ib q) (br_res T2 v ib q).
Proof. unfold br_res. rewrite !lin_app, vecv_app. ring. Qed.
Lemma node_res_nil v ib r : node_res [] v ib r = f0.
Proof. unfold node_res; cbn; ring. Qed.
Lemma br_res_nil v ib q : br_res [] v ib q = f0.
Proof. unfold br_res; cbn; ring. Qed.

(* every update accumulates (+=/-=); a plain assignment (=) would make the
   result depend on what was stamped before *)
Definition all_add T : bool := forallb (fun u => match uo u with UAdd => true | USet => false end) T.
(* no update touches a negative (ground) row or column *)
Definition is_vec (m : mname) := match m with MIs | MEs => true | _ => false end.
Definition no_neg T : bool :=
  forallb (fun u => (0 <=? ur u) && (is_vec (um u) || (0 <=? uc u))) T.

Lemma ind_neg (n r : Z) : n < 0 -> 0 <= r -> ind n r = f0.
Proof. intros Hn Hr. unfold ind. destruct (Z.eqb_spec n r); [lia | reflexivity]. Qed.
Lemma ind_refl (n : Z) : ind n n = f1.
Proof. unfold ind. rewrite Z.eqb_refl. reflexivity. Qed.

(* node potential: any negative index is ground *)
Definition vv v (n : Z) : K := if 0 <=? n then v n else f0.
(* "current i is drawn out of node a and returned into node b", seen at row r *)
Definition thru (a b r : Z) (i : K) : K := fmul (fsub (ind a r) (ind b r)) i.

(* ---- physical semantics, per stamp-defining class ----------------------- *)
(* Each gives: drawn c v ib r  = total current the component draws from node r;
               brel  c v ib q  = residual of its constitutive relation(s), placed
                                 in the branch row(s) q that carry them.         *)
Section Spec.

Definition dV01 (c : sctx K) (v : Z -> K) := fsub (vv v (p0 c)) (vv v (p1 c)).
Definition dV23 (c : sctx K) (v : Z -> K) := fsub (vv v (p2 c)) (vv v (p3 c)).

(* R, C, Y, Z, CPE, NR, mechanical aliases: i = Y (v+ - v-); a capacitor in an
   initial-value analysis: i = Y (v+ - v-) - Isc  (Isc = C v0);
   capacitor at DC: conductance eps (limit eps -> 0 taken after solving) *)
Definition Yeff (c : sctx K) : K := if ctype_eqb (typ c) TyC && akind_eqb (kind c) KDc then par c pEps else par c pY.
Definition drawn_RC (c : sctx K) (v ib : Z -> K) r := thru (p0 c) (p1 c) r
   (fsub (fmul (Yeff c) (dV01 c v)) (if akind_eqb (kind c) KIvp && has_ic c then par c pIsc else f0)).
Definition brel_RC (c : sctx K) (v ib : Z -> K) (q : Z) : K := f0.

(* L: unknown i_L;  v+ - v- = Z i_L + Voc  (Voc = -L i0 in an ivp analysis; Z = 0 at dc) *)
Definition drawn_L (c : sctx K) (v ib : Z -> K) r := thru (p0 c) (p1 c) r (ib (bown c)).
Definition brel_L (c : sctx K) (v ib : Z -> K) q := fmul (ind (bown c) q)
   (fsub (fsub (dV01 c v) (fmul (if akind_eqb (kind c) KDc then f0 else par c pZ) (ib (bown c))))
         (if akind_eqb (kind c) KIvp && has_ic c then par c pVoc else f0)).

(* V: v+ - v- = Voc, unknown i_V drawn at + *)
Definition drawn_V (c : sctx K) (v ib : Z -> K) r := thru (p0 c) (p1 c) r (ib (bown c)).
Definition brel_V (c : sctx K) (v ib : Z -> K) q := fmul (ind (bown c) q) (fsub (dV01 c v) (par c pVoc)).
(* ammeter: 0 V source *)
Definition drawn_AM (c : sctx K) (v ib : Z -> K) r := thru (p0 c) (p1 c) r (ib (bown c)).
Definition brel_AM (c : sctx K) (v ib : Z -> K) q := fmul (ind (bown c) q) (dV01 c v).
(* I: injects Isc INTO node + (draws -Isc) *)
Definition drawn_I (c : sctx K) (v ib : Z -> K) r := thru (p0 c) (p1 c) r (fopp (par c pIsc)).
Definition brel_I (c : sctx K) (v ib : Z -> K) (q : Z) : K := f0.

(* VCVS: v+ - v- = Ad (vc+ - vc-) + (Ac c) (vc+ + vc-)/2 *)
Definition Ac (c : sctx K) : K := if has_arg1 c then par c pArg1 else f0.
Definition drawn_VCVS (c : sctx K) (v ib : Z -> K) r := thru (p0 c) (p1 c) r (ib (bown c)).
Definition brel_VCVS (c : sctx K) (v ib : Z -> K) q := fmul (ind (bown c) q)
   (fsub (fsub (dV01 c v) (fmul (par c pArg0) (dV23 c v)))
         (fmul (Ac c) (fdiv (fadd (vv v (p2 c)) (vv v (p3 c))) (fadd f1 f1)))).
(* VCCS: injects G (vc+ - vc-) into node + *)
Definition drawn_VCCS (c : sctx K) (v ib : Z -> K) r := thru (p0 c) (p1 c) r (fopp (fmul (par c pArg0) (dV23 c v))).
Definition brel_VCCS (c : sctx K) (v ib : Z -> K) (q : Z) : K := f0.
(* CCCS (controlling element must be a voltage source): draws F i_ctrl at + *)
Definition drawn_CCCS (c : sctx K) (v ib : Z -> K) r := thru (p0 c) (p1 c) r (fmul (par c pArg1) (ib (bctrl c))).
Definition brel_CCCS (c : sctx K) (v ib : Z -> K) (q : Z) : K := f0.
(* CCVS (controlling element must be a voltage source, like CCCS): v+ - v- = H i_ctrl *)
Definition drawn_CCVS (c : sctx K) (v ib : Z -> K) r := thru (p0 c) (p1 c) r (ib (bown c)).
Definition brel_CCVS (c : sctx K) (v ib : Z -> K) q :=
   fmul (ind (bown c) q) (fsub (dV01 c v) (fmul (par c pArg1) (ib (bctrl c)))).
(* K: adds -(ZM c) i_L2 to L1's relation and -(ZM c) i_L1 to L2's; nothing at dc *)
Definition ZM (c : sctx K) : K := if akind_eqb (kind c) KS || akind_eqb (kind c) KIvp || akind_eqb (kind c) KLaplace || akind_eqb (kind c) KTransient
                     then par c pZM0 else par c pZM1.
Definition drawn_K (c : sctx K) (v ib : Z -> K) (r : Z) : K := f0.
(* in an initial-value analysis V1 = L1 (s I1 - i01) + M (s I2 - i02): the partner's initial current enters too *)
Definition MI (c : sctx K) (i0 : pname) : K := if akind_eqb (kind c) KIvp then fmul (par c pZM2) (par c i0) else f0.
Definition brel_K (c : sctx K) (v ib : Z -> K) q := if akind_eqb (kind c) KDc then f0 else
   fadd (fmul (ind (bL1 c) q) (fadd (fopp (fmul (ZM c) (ib (bL2 c)))) (MI c pI02)))
        (fmul (ind (bL2 c) q) (fadd (fopp (fmul (ZM c) (ib (bL1 c)))) (MI c pI01))).
(* ideal transformer: v+ - v- = a (vc+ - vc-); i_T drawn at +, -a i_T at c+ *)
Definition drawn_TF (c : sctx K) (v ib : Z -> K) r := fadd (thru (p0 c) (p1 c) r (ib (bown c)))
                              (thru (p2 c) (p3 c) r (fopp (fmul (par c pAlpha) (ib (bown c))))).
Definition brel_TF (c : sctx K) (v ib : Z -> K) q := fmul (ind (bown c) q) (fsub (dV01 c v) (fmul (par c pAlpha) (dV23 c v))).
(* gyrator (netlist GY): V(out) = -R i_1, V(in) = R i_2; i_2 (own branch) is
   drawn at out+, i_1 (extra branch) at in+ *)
Definition drawn_GY (c : sctx K) (v ib : Z -> K) r := fadd (thru (p0 c) (p1 c) r (ib (bown c))) (thru (p2 c) (p3 c) r (ib (bextra c))).
Definition brel_GY (c : sctx K) (v ib : Z -> K) q := fadd
   (fmul (ind (bextra c) q) (fadd (dV01 c v) (fmul (par c pArg0) (ib (bextra c)))))
   (fmul (ind (bown c) q) (fsub (dV23 c v) (fmul (par c pArg0) (ib (bown c))))).
(* A-parameter two-port / transmission line: nodes (out+ out- in+ in-);
   V1 = v(in+) - v(in-), V2 = v(out+) - v(out-), I2 = own branch current drawn
   at out+, I1 drawn at in+:  V1 = A11 V2 - A12 I2,  I1 = A21 V2 - A22 I2 *)
Definition tpA (n : pname) : K :=
  match n with
  | pA11 | pA22 => f1 | pA12 | pA21 => f0 | _ => f0 end.
Definition drawn_TPA (c : sctx K) (dc_identity : bool) (v ib : Z -> K) r :=
  let A21 := if dc_identity && akind_eqb (kind c) KDc then tpA pA21 else par c pA21 in
  let A22 := if dc_identity && akind_eqb (kind c) KDc then tpA pA22 else par c pA22 in
  fadd (thru (p0 c) (p1 c) r (ib (bown c)))
       (thru (p2 c) (p3 c) r (fsub (fmul A21 (dV01 c v)) (fmul A22 (ib (bown c))))).
Definition brel_TPA (c : sctx K) (dc_identity : bool) (v ib : Z -> K) q :=
  let A11 := if dc_identity && akind_eqb (kind c) KDc then tpA pA11 else par c pA11 in
  let A12 := if dc_identity && akind_eqb (kind c) KDc then tpA pA12 else par c pA12 in
  fmul (ind (bown c) q) (fsub (dV23 c v) (fsub (fmul A11 (dV01 c v)) (fmul A12 (ib (bown c))))).
(* Y-parameter two-port: nodes (out+ out- in+ in-), port 1 = in, port 2 = out:
   I1 = Y11 V1 + Y12 V2 drawn at in+, I2 = Y21 V1 + Y22 V2 drawn at out+ *)
Definition drawn_TPY (c : sctx K) (v ib : Z -> K) r :=
  fadd (thru (p2 c) (p3 c) r (fadd (fmul (par c pY11) (dV23 c v)) (fmul (par c pY12) (dV01 c v))))
       (thru (p0 c) (p1 c) r (fadd (fmul (par c pY21) (dV23 c v)) (fmul (par c pY22) (dV01 c v)))).
Definition brel_TPY (c : sctx K) (v ib : Z -> K) (q : Z) : K := f0.
(* TR: v(out) = A v(in), both w.r.t. ground; nodes (in out) *)
Definition drawn_TR (c : sctx K) (v ib : Z -> K) r := fmul (ind (p1 c) r) (ib (bown c)).
Definition brel_TR (c : sctx K) (v ib : Z -> K) q := fmul (ind (bown c) q) (fsub (vv v (p1 c)) (fmul (par c pArg0) (vv v (p0 c)))).
(* summing points: nodes (in1 in2 out [in3]); v(out) = s1 v(in1) + s2 v(in2) [+ s3 v(in3)] *)
Definition drawn_SP (c : sctx K) (v ib : Z -> K) r := fmul (ind (p2 c) r) (ib (bown c)).
Definition brel_SP (c : sctx K) (s1 s2 s3 : K) (v ib : Z -> K) q := fmul (ind (bown c) q)
   (fsub (vv v (p2 c)) (fadd (fadd (fmul s1 (vv v (p0 c))) (fmul s2 (vv v (p1 c)))) (fmul s3 (vv v (p3 c))))).
(* potentiometer: nodes (+ - wiper); R(1-a) between + and wiper, R a between wiper and - *)
Definition drawn_RV (c : sctx K) (v ib : Z -> K) r :=
  let Y1 := fdiv f1 (fmul (par c pArg0) (fsub f1 (par c pArg1))) in
  let Y2 := fdiv f1 (fmul (par c pArg0) (par c pArg1)) in
  fadd (thru (p0 c) (p2 c) r (fmul Y1 (fsub (vv v (p0 c)) (vv v (p2 c)))))
       (thru (p2 c) (p1 c) r (fmul Y2 (fsub (vv v (p2 c)) (vv v (p1 c))))).
Definition brel_RV (c : sctx K) (v ib : Z -> K) (q : Z) : K := f0.
End Spec.

(* a stamp [s] realises the physical component (drawn, brel) in context c *)
Definition realises (s : sres K) (c : sctx K)
    (drawn : (Z -> K) -> (Z -> K) -> Z -> K) (brel : (Z -> K) -> (Z -> K) -> Z -> K) : Prop :=
  exists T, s = SOk T /\ all_add T = true /\ no_neg T = true /\
    forall v ib, (forall r, 0 <= r -> node_res T v ib r = drawn v ib r) /\
                 (forall q, 0 <= q -> br_res T v ib q = brel v ib q).
(* well-formed context: node indices are -1 (ground) or >= 0, used branch indices >= 0 *)
Definition wf_ctx (c : sctx K) : Prop :=
  -1 <= p0 c /\ -1 <= p1 c /\ -1 <= p2 c /\ -1 <= p3 c /\ -1 <= c0 c /\ -1 <= c1 c /\
  0 <= bown c /\ 0 <= bextra c /\ 0 <= bctrl c /\ 0 <= bL1 c /\ 0 <= bL2 c.
End Sem.

Arguments ind {K}. Arguments lin {K}. Arguments vecv {K}. Arguments node_res {K}. Arguments br_res {K}.
Arguments all_add {K}. Arguments no_neg {K}. Arguments vv {K}. Arguments thru {K}.
Arguments realises {K}. Arguments wf_ctx {K}.
Arguments dV01 {K}. Arguments dV23 {K}. Arguments Yeff {K}. Arguments Ac {K}. Arguments ZM {K}. Arguments tpA {K}.
Arguments drawn_RC {K}. Arguments brel_RC {K}. Arguments drawn_L {K}. Arguments brel_L {K}.
Arguments drawn_V {K}. Arguments brel_V {K}. Arguments drawn_AM {K}. Arguments brel_AM {K}.
Arguments drawn_I {K}. Arguments brel_I {K}. Arguments drawn_VCVS {K}. Arguments brel_VCVS {K}.
Arguments drawn_VCCS {K}. Arguments brel_VCCS {K}. Arguments drawn_CCCS {K}. Arguments brel_CCCS {K}.
Arguments drawn_CCVS {K}. Arguments brel_CCVS {K}. Arguments drawn_K {K}. Arguments brel_K {K}.
Arguments drawn_TF {K}. Arguments brel_TF {K}. Arguments drawn_GY {K}. Arguments brel_GY {K}.
Arguments drawn_TPA {K}. Arguments brel_TPA {K}. Arguments drawn_TPY {K}. Arguments brel_TPY {K}.
Arguments drawn_TR {K}. Arguments brel_TR {K}. Arguments drawn_SP {K}. Arguments brel_SP {K}.
Arguments drawn_RV {K}. Arguments brel_RV {K}.
