(* C20 - schematic layout.  Part 5: Graph.prune (lcapy/schemgraph.py), the
   reduction of parallel edges between the same pair of gnodes to one edge:
   the first fixed edge if there is one, otherwise the (first) largest
   stretchy edge.  prune() applies the same reduction to the forward and to the
   reverse edge list of a pair, so both views must keep the same
   (size, stretch); a fixed edge survives in both.  The executable [best] is
   evaluated inside Coq against what the real prune() left in gnode.fedges and
   gnode.redges. *)
From Coq Require Import QArith List Bool Arith Lia Lqa.
Require Import LT.Layout.
Import ListNotations.
Local Open Scope Q_scope.

(* a parallel edge: (size, stretch) *)
Definition pedge := (Q * bool)%type.

Fixpoint first_fixed (l : list pedge) : option pedge :=
  match l with
  | [] => None
  | e :: r => if snd e then first_fixed r else Some e
  end.

(* `size = 0; best_edge = edges[0]; for edge in edges: if edge.size > size: ...` *)
Fixpoint largest_from (b : pedge) (size : Q) (l : list pedge) : pedge :=
  match l with
  | [] => b
  | e :: r => if Qle_bool (fst e) size then largest_from b size r else largest_from e (fst e) r
  end.

Definition best (l : list pedge) : option pedge :=
  match l with
  | [] => None
  | e0 :: _ => match first_fixed l with
               | Some f => Some f
               | None => Some (largest_from e0 0 l)
               end
  end.

Lemma first_fixed_in l f : first_fixed l = Some f -> In f l /\ snd f = false.
Proof.
  induction l as [|e r IH]; cbn; [discriminate|].
  destruct (snd e) eqn:E.
  - intros H. destruct (IH H). auto.
  - intros H. inversion H; subst. auto.
Qed.

Lemma first_fixed_none l : first_fixed l = None -> forall e, In e l -> snd e = true.
Proof.
  induction l as [|x r IH]; cbn; [intros _ e []|].
  destruct (snd x) eqn:E; [|discriminate].
  intros H e [<-|He]; auto.
Qed.

Lemma first_fixed_some l e : In e l -> snd e = false -> exists f, first_fixed l = Some f.
Proof.
  induction l as [|x r IH]; intros Hin Hs; [destruct Hin|].
  cbn. destruct (snd x) eqn:E; [|eauto].
  destruct Hin as [->|Hin]; [congruence|]. apply IH; assumption.
Qed.

Lemma largest_from_spec l : forall b s,
  ((forall e, In e l -> fst e <= s) /\ largest_from b s l = b) \/
  (s < fst (largest_from b s l) /\ In (largest_from b s l) l /\
   forall e, In e l -> fst e <= fst (largest_from b s l)).
Proof.
  induction l as [|x r IH]; intros b s.
  - left. split; [intros e []|reflexivity].
  - cbn [largest_from]. destruct (Qle_bool (fst x) s) eqn:E.
    + apply Qle_bool_iff in E. destruct (IH b s) as [[H1 H2]|[H1 [H2 H3]]].
      * left. split; [|exact H2]. intros e [<-|He]; auto.
      * right. split; [exact H1|]. split; [right; exact H2|].
        intros e [<-|He]; [lra|auto].
    + assert (Hlt : s < fst x).
      { destruct (Qlt_le_dec s (fst x)) as [L|L]; [exact L|]. apply Qle_bool_iff in L. congruence. }
      destruct (IH x (fst x)) as [[H1 H2]|[H1 [H2 H3]]].
      * right. rewrite H2. split; [exact Hlt|]. split; [left; reflexivity|].
        intros e [<-|He]; [lra|auto].
      * right. split; [lra|]. split; [right; exact H2|].
        intros e [<-|He]; [lra|auto].
Qed.

(* what prune keeps is one of the parallel edges *)
Theorem best_in l b : best l = Some b -> In b l.
Proof.
  destruct l as [|e0 r]; [discriminate|]. unfold best.
  destruct (first_fixed (e0 :: r)) as [f|] eqn:F.
  - intros H. inversion H; subst. apply (first_fixed_in _ _ F).
  - intros H. assert (E : b = largest_from e0 0 (e0 :: r)) by congruence. rewrite E. clear E H.
    destruct (largest_from_spec (e0 :: r) e0 0) as [[_ H2]|[_ [H2 _]]]; [rewrite H2; left; reflexivity|exact H2].
Qed.

(* a fixed edge survives the reduction (in the forward AND in the reverse list,
   since the same function is applied to both) *)
Theorem best_keeps_fixed l e : In e l -> snd e = false -> exists b, best l = Some b /\ snd b = false.
Proof.
  intros Hin Hs. destruct l as [|e0 r]; [destruct Hin|]. unfold best.
  destruct (first_fixed_some _ _ Hin Hs) as [f F]. rewrite F.
  exists f. split; [reflexivity|apply (first_fixed_in _ _ F)].
Qed.

(* all stretchy, positive sizes: the kept edge is a largest one, so the dropped
   constraints are implied by the kept one *)
Theorem best_stretchy_max l b : (forall e, In e l -> snd e = true /\ 0 < fst e) ->
  best l = Some b -> snd b = true /\ forall e, In e l -> fst e <= fst b.
Proof.
  intros Hall H. pose proof (best_in _ _ H) as Hb. split; [apply Hall; exact Hb|].
  destruct l as [|e0 r]; [discriminate|]. unfold best in H.
  destruct (first_fixed (e0 :: r)) as [f|] eqn:F.
  - destruct (first_fixed_in _ _ F) as [Hf Hs]. destruct (Hall f Hf). congruence.
  - assert (E : b = largest_from e0 0 (e0 :: r)) by congruence. rewrite E.
    destruct (largest_from_spec (e0 :: r) e0 0) as [[H1 _]|[_ [_ H3]]]; [|exact H3].
    exfalso. destruct (Hall e0 (or_introl eq_refl)) as [_ Hp]. specialize (H1 e0 (or_introl eq_refl)). lra.
Qed.

Theorem prune_sound_stretchy (pos : node -> Q) (a c : node) l b :
  (forall e, In e l -> snd e = true /\ 0 < fst e) -> best l = Some b ->
  holds pos (mkC a c (fst b) RGe) -> forall e, In e l -> holds pos (mkC a c (fst e) RGe).
Proof.
  intros Hall Hb H e He. destruct (best_stretchy_max l b Hall Hb) as [_ Hm].
  unfold holds in *; cbn in *. specialize (Hm e He). lra.
Qed.

(* comparison used by the generated case files *)
Definition pedge_eqb (a b : option pedge) : bool :=
  match a, b with
  | Some x, Some y => Qeq_bool (fst x) (fst y) && Bool.eqb (snd x) (snd y)
  | None, None => true
  | _, _ => false
  end.

(* one group of parallel edges: the edges before prune (in list order) and what
   the real prune left in the forward and in the reverse list of that pair *)
Definition group_ok (g : list pedge * option pedge * option pedge) : bool :=
  let '(l, fwd, rev) := g in pedge_eqb (best l) fwd && pedge_eqb (best l) rev.
Definition prune_bad (gs : list (list pedge * option pedge * option pedge)) : list nat :=
  map fst (filter (fun p => negb (group_ok (snd p))) (combine (seq 0 (length gs)) gs)).
