(* C20 - schematic layout.  Part 1: difference constraints over node
   coordinates, the verified position checker, the "one position per drawn
   node" checker, scaling by node_spacing, and the emission-once fact.

   A placement axis (x or y) is a map  pos : node -> Q.  A component
   contributes, per axis, constraints
        pos(b) - pos(a) >= d      (stretchy component / wire)
        pos(b) - pos(a) == d      (fixed component; d = 0 is a "link")
   with d = size * (val_b - val_a).  Everything here is axiom-free. *)
From Coq Require Import QArith Qminmax List Bool Arith Lia Lqa.
Import ListNotations.
Local Open Scope Q_scope.

Definition node := nat.

Inductive rel := RGe | REq.
Record cstr := mkC { c_from : node; c_to : node; c_d : Q; c_rel : rel }.

Definition holds (pos : node -> Q) (c : cstr) : Prop :=
  match c_rel c with
  | RGe => c_d c <= pos (c_to c) - pos (c_from c)
  | REq => pos (c_to c) - pos (c_from c) == c_d c
  end.

Definition checkb (pos : node -> Q) (c : cstr) : bool :=
  match c_rel c with
  | RGe => Qle_bool (c_d c) (pos (c_to c) - pos (c_from c))
  | REq => Qeq_bool (pos (c_to c) - pos (c_from c)) (c_d c)
  end.

Lemma checkb_iff pos c : checkb pos c = true <-> holds pos c.
Proof.
  unfold checkb, holds. destruct (c_rel c).
  - apply Qle_bool_iff.
  - apply Qeq_bool_iff.
Qed.

Definition check (cs : list cstr) (pos : node -> Q) : bool := forallb (checkb pos) cs.

Theorem checker_sound cs pos : check cs pos = true -> Forall (holds pos) cs.
Proof.
  unfold check. rewrite forallb_forall, Forall_forall.
  intros H c Hc. apply checkb_iff. auto.
Qed.

Theorem checker_complete cs pos : Forall (holds pos) cs -> check cs pos = true.
Proof.
  unfold check. rewrite forallb_forall, Forall_forall.
  intros H c Hc. apply checkb_iff. auto.
Qed.

Theorem checker_iff cs pos : check cs pos = true <-> (forall c, In c cs -> holds pos c).
Proof.
  split.
  - intros H. apply Forall_forall. apply checker_sound; exact H.
  - intros H. apply checker_complete. apply Forall_forall; exact H.
Qed.

(* indices (from k) of the constraints that fail: what the generated
   cases_*.v print *)
Fixpoint failing_from (k : nat) (cs : list cstr) (pos : node -> Q) : list nat :=
  match cs with
  | [] => []
  | c :: r => if checkb pos c then failing_from (S k) r pos else k :: failing_from (S k) r pos
  end.
Definition failing cs pos := failing_from 0 cs pos.

Lemma failing_from_nil k cs pos : failing_from k cs pos = [] <-> check cs pos = true.
Proof.
  revert k. induction cs as [|c r IH]; intros k; cbn.
  - tauto.
  - destruct (checkb pos c); cbn.
    + apply IH.
    + split; discriminate.
Qed.

Theorem failing_nil_iff cs pos : failing cs pos = [] <-> (forall c, In c cs -> holds pos c).
Proof. unfold failing. rewrite failing_from_nil. apply checker_iff. Qed.

Lemma failing_from_sound k cs pos i :
  In i (failing_from k cs pos) -> exists c, nth_error cs (i - k) = Some c /\ ~ holds pos c /\ (k <= i)%nat.
Proof.
  revert k. induction cs as [|c r IH]; intros k; cbn; [tauto|].
  destruct (checkb pos c) eqn:E.
  - intros H. destruct (IH _ H) as [c' [Hn [Hh Hk]]]. exists c'.
    replace (i - k)%nat with (S (i - S k)) by lia. cbn. repeat split; auto; lia.
  - intros [<-|H].
    + exists c. rewrite Nat.sub_diag. cbn. repeat split; auto.
      intros Hh. apply checkb_iff in Hh. congruence.
    + destruct (IH _ H) as [c' [Hn [Hh Hk]]]. exists c'.
      replace (i - k)%nat with (S (i - S k)) by lia. cbn. repeat split; auto; lia.
Qed.

(* every reported index names a constraint that really is violated *)
Theorem failing_sound cs pos i :
  In i (failing cs pos) -> exists c, nth_error cs i = Some c /\ ~ holds pos c.
Proof.
  intros H. destruct (failing_from_sound 0 cs pos i H) as [c [Hn [Hh _]]].
  rewrite Nat.sub_0_r in Hn. eauto.
Qed.

(* ---- positions given as an association list ---------------------------- *)
Fixpoint lookup (l : list (node * Q)) (n : node) : Q :=
  match l with
  | [] => 0
  | (m, q) :: r => if Nat.eqb m n then q else lookup r n
  end.

Fixpoint count (l : list node) (n : node) : nat :=
  match l with
  | [] => O
  | m :: r => if Nat.eqb m n then S (count r n) else count r n
  end.

Lemma count_count_occ l n : count l n = count_occ Nat.eq_dec l n.
Proof.
  induction l as [|m r IH]; cbn; [reflexivity|].
  destruct (Nat.eq_dec m n) as [->|Hne].
  - rewrite Nat.eqb_refl. congruence.
  - apply Nat.eqb_neq in Hne. rewrite Hne. exact IH.
Qed.

(* every drawn node has exactly one entry in the coordinate list *)
Definition one_position (drawn : list node) (coords : list node) : bool :=
  forallb (fun n => Nat.eqb (count coords n) 1) drawn.

Theorem one_position_iff drawn coords :
  one_position drawn coords = true <-> (forall n, In n drawn -> count_occ Nat.eq_dec coords n = 1%nat).
Proof.
  unfold one_position. rewrite forallb_forall. split; intros H n Hn.
  - rewrite <- count_count_occ. apply Nat.eqb_eq. auto.
  - apply Nat.eqb_eq. rewrite count_count_occ. auto.
Qed.

Definition not_one (drawn coords : list node) : list node :=
  filter (fun n => negb (Nat.eqb (count coords n) 1)) drawn.

Lemma not_one_nil drawn coords : not_one drawn coords = [] <-> one_position drawn coords = true.
Proof.
  unfold not_one, one_position. induction drawn as [|n r IH]; cbn; [tauto|].
  destruct (Nat.eqb (count coords n) 1); cbn; [exact IH|split; discriminate].
Qed.

(* ---- node_spacing: Lcapy solves in graph units and multiplies by the
   node spacing; a feasible graph-unit solution scaled by k > 0 is feasible
   for the constraints scaled by k ----------------------------------------- *)
Definition scale_c (k : Q) (c : cstr) : cstr := mkC (c_from c) (c_to c) (c_d c * k) (c_rel c).

Theorem scale_holds (k : Q) pos c : 0 < k -> holds pos c -> holds (fun n => pos n * k) (scale_c k c).
Proof.
  intros Hk. unfold holds, scale_c; cbn. destruct (c_rel c); intros H.
  - setoid_replace (pos (c_to c) * k - pos (c_from c) * k) with ((pos (c_to c) - pos (c_from c)) * k) by ring.
    apply Qmult_le_compat_r; [exact H|apply Qlt_le_weak; exact Hk].
  - setoid_replace (pos (c_to c) * k - pos (c_from c) * k) with ((pos (c_to c) - pos (c_from c)) * k) by ring.
    rewrite H. reflexivity.
Qed.

Theorem scale_all (k : Q) pos cs : 0 < k ->
  Forall (holds pos) cs -> Forall (holds (fun n => pos n * k)) (map (scale_c k) cs).
Proof.
  intros Hk H. induction H; cbn; constructor; auto. apply scale_holds; assumption.
Qed.

(* translation by a constant (the lineq placer subtracts min x) *)
Theorem shift_holds (t : Q) pos c : holds pos c -> holds (fun n => pos n + t) c.
Proof.
  unfold holds. destruct (c_rel c); intros H.
  - setoid_replace (pos (c_to c) + t - (pos (c_from c) + t)) with (pos (c_to c) - pos (c_from c)) by ring. exact H.
  - setoid_replace (pos (c_to c) + t - (pos (c_from c) + t)) with (pos (c_to c) - pos (c_from c)) by ring. exact H.
Qed.

(* ---- emission loop: Schematic._draw_components visits the element list
   once and emits draw() of every element that is not ignored ------------- *)
Section Emit.
Variable elt : Type.
Variable name : elt -> nat.
Variable ignored : elt -> bool.

Definition emitted (elts : list elt) : list nat :=
  flat_map (fun e => if ignored e then [] else [name e]) elts.

Lemma emitted_cons e r :
  emitted (e :: r) = (if ignored e then [] else [name e]) ++ emitted r.
Proof. reflexivity. Qed.

Lemma emitted_count elts n :
  count (emitted elts) n = length (filter (fun e => negb (ignored e) && Nat.eqb (name e) n) elts).
Proof.
  induction elts as [|e r IH]; [reflexivity|].
  rewrite emitted_cons. cbn [filter].
  destruct (ignored e).
  - cbn [negb andb app]. exact IH.
  - cbn [negb andb app count]. destruct (Nat.eqb (name e) n); cbn [length]; rewrite IH; reflexivity.
Qed.

Theorem tikz_once elts e :
  NoDup (map name elts) -> In e elts ->
  count (emitted elts) (name e) = if ignored e then 0%nat else 1%nat.
Proof.
  intros Hnd Hin. rewrite emitted_count.
  induction elts as [|x r IH]; [destruct Hin|].
  cbn in Hnd. inversion Hnd as [|? ? Hnotin Hnd']; subst.
  destruct Hin as [->|Hin].
  - cbn. rewrite Nat.eqb_refl.
    assert (Hz : length (filter (fun e0 => negb (ignored e0) && Nat.eqb (name e0) (name e)) r) = 0%nat).
    { clear IH Hnd Hnd'. induction r as [|y r IHr]; cbn; [reflexivity|].
      destruct (Nat.eqb (name y) (name e)) eqn:E.
      - exfalso. apply Hnotin. apply Nat.eqb_eq in E. rewrite <- E. cbn. auto.
      - rewrite andb_false_r. apply IHr. intros H. apply Hnotin. cbn. auto. }
    destruct (ignored e); cbn; rewrite Hz; reflexivity.
  - cbn. destruct (Nat.eqb (name x) (name e)) eqn:E.
    + exfalso. apply Hnotin. apply Nat.eqb_eq in E. rewrite E. apply in_map. exact Hin.
    + rewrite andb_false_r. apply IH; assumption.
Qed.
End Emit.
