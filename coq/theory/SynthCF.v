(* SynthCF — continued fractions for network synthesis (C19).
   * [icf_run]: model (H) of Expr.continued_fraction_inverse_coeffs
     (lcapy/expr.py): division by the LOWEST-degree terms (Poly.ET),
       Q = ET(N)/ET(D) = c / x^j,  N2 = N - Q*D,  continue with D / N2 while
       N2 <> 0;  when the lowest term of N has higher degree than that of D a
       coefficient 0 is emitted and the roles are swapped.
     Theorem [icf_run_chain]: the quotients form a [cf_chain] (PolyQ.v), hence
     the continued fraction equals N/D.
   * facts about the outputs of [cf_run]/[cf_coeffs] (RatfunCF.v, the model of
     continued_fraction_coeffs) and [icf_run] needed by the ladder theorems:
     the last quotient and all quotient denominators are non-zero at x <> 0.
   * [cf_eval_coeffs], [icf_eval_coeffs]: evaluating the nested fraction
     q0 + 1/(q1 + 1/(...)) at a point where no division is by zero gives
     N(x)/D(x).
   Axiom-free. *)
Require Import LT.FieldSec LT.PolyQ LT.RatfunCF.
Local Open Scope F_scope.
Section ICF.
Variable K : fld.
Add Field KFicf : (fth K).
Notation poly := (list K).

(* valuation (index of the lowest non-zero coefficient; length for 0) and that coefficient *)
Fixpoint pval (p : poly) : nat := match p with [] => O | a :: t => if feqb a 0 then S (pval t) else O end.
Definition plow (p : poly) : K := nth (pval p) p 0.
Lemma pval_low_zero j (p : poly) : (j <= pval p)%nat -> low_zero j p = true.
Proof. revert p. induction j as [|j IH]; intros p H; [reflexivity|].
  destruct p as [|a t]; [reflexivity|]. cbn [pval] in H. unfold low_zero. cbn [firstn pzerob forallb].
  destruct (feqb a 0) eqn:E; [|lia]. cbn [andb]. apply (IH t). lia. Qed.
Lemma plow_nz (p : poly) : pzerob p = false -> plow p <> 0.
Proof. unfold plow. induction p as [|a t IH]; cbn [pzerob forallb pval]; [discriminate|].
  destruct (feqb a 0) eqn:E; cbn [andb nth].
  - exact IH.
  - intros _. apply feqb_neq. exact E. Qed.

Definition icf_quot (N D : poly) : rat K * poly :=
  let vn := pval N in let vd := pval D in
  if (vd <? vn)%nat then (([], [1]), N)
  else let j := (vd - vn)%nat in
       let c := plow N / plow D in
       (([c], pshift j [1]), pnorm (psub N (pscale c (skipn j D)))).
Lemma icf_quot_ok (N D : poly) : cf_step_ok N D (fst (icf_quot N D)) (snd (icf_quot N D)).
Proof. unfold icf_quot, cf_step_ok. cbv zeta. destruct (pval D <? pval N)%nat eqn:E; cbn [fst snd]; intros x.
  - cbn [fst snd peval]. ring.
  - apply Nat.ltb_ge in E.
    assert (L : low_zero (pval D - pval N) D = true) by (apply pval_low_zero; lia).
    rewrite peval_pnorm, peval_psub, peval_pscale, peval_pshift, (low_zero_shift K _ _ x L). cbn [peval]. ring. Qed.

Fixpoint icf_run (fuel : nat) (N D : poly) : option (list (rat K)) :=
  match fuel with
  | O => None
  | S f => let (q, N2) := icf_quot N D in
           if pzerob N2 then Some [q]
           else match icf_run f D N2 with Some qs => Some (q :: qs) | None => None end
  end.
Lemma icf_run_ne fuel (N D : poly) qs : icf_run fuel N D = Some qs -> qs <> [].
Proof. destruct fuel; cbn [icf_run]; [discriminate|]. destruct (icf_quot N D) as [q N2].
  destruct (pzerob N2); [intros H; inversion H; discriminate|].
  destruct (icf_run fuel D N2); [intros H; inversion H; discriminate | discriminate]. Qed.
Theorem icf_run_chain fuel (N D : poly) qs : icf_run fuel N D = Some qs -> cf_chain N D qs.
Proof. revert N D qs. induction fuel as [|f IH]; intros N D qs H; cbn [icf_run] in H; [discriminate|].
  pose proof (icf_quot_ok N D) as Hs. destruct (icf_quot N D) as [q N2]. cbn [fst snd] in Hs.
  destruct (pzerob N2) eqn:Z.
  - inversion H; subst. apply cf_last. apply (cf_step_ok_ext K N D q N2 []); [|exact Hs].
    intros x. rewrite (pzerob_eval _ _ Z x). reflexivity.
  - destruct (icf_run f D N2) as [qs'|] eqn:R; [|discriminate]. inversion H; subst.
    apply (cf_more K N D q N2 qs' Hs (icf_run_ne _ _ _ _ R) (IH _ _ _ R)). Qed.
Theorem icf_run_sound fuel (N D : poly) qs : icf_run fuel N D = Some qs -> req (cf_rat qs) (N, D).
Proof. intros H. apply (cf_chain_sound K _ _ _ (icf_run_chain _ _ _ _ H)). Qed.

(* ---- shape facts about the quotient lists ---------------------------------- *)
Definition qden_ok (qs : list (rat K)) (x : K) : Prop := Forall (fun q => peval (snd q) x <> 0) qs.
Definition last_nzx (qs : list (rat K)) (x : K) : Prop := peval (fst (last qs (([1], [1]) : rat K))) x <> 0.

Lemma pshiftc_nz (c : K) k x : c <> 0 -> x <> 0 -> peval (pshift k [c]) x <> 0.
Proof. intros Hc H. rewrite peval_pshift. cbn [peval]. apply mul_nz; [apply fpow_nz; exact H|].
  intros E. apply Hc. rewrite <- E. ring. Qed.
Lemma pshift1_nz k (x : K) : x <> 0 -> peval (pshift k [1]) x <> 0.
Proof. intros H. rewrite peval_pshift. cbn [peval]. intros E. apply (fpow_nz K x k H).
  transitivity (fpow x k * (1 + x * 0)); [ring | exact E]. Qed.
Lemma one1_nz (x : K) : peval ([1] : poly) x <> 0.
Proof. cbn [peval]. intros E. apply (one_nz K). rewrite <- E. ring. Qed.
Lemma last_cons_ne' (A : Type) (a : A) l d : l <> [] -> last (a :: l) d = last l d.
Proof. destruct l; [congruence | reflexivity]. Qed.

Lemma cf_quot_shape (N D : poly) q N2 : pzerob N = false -> pzerob D = false -> cf_quot N D = Some (q, N2) ->
  forall x, x <> 0 -> peval (fst q) x <> 0 /\ peval (snd q) x <> 0.
Proof. intros HN HD. unfold cf_quot.
  assert (Hc : plc N / plc D <> 0) by (apply div_nz; apply plc_nz; assumption).
  destruct (psize D <=? psize N)%nat.
  - intros H x Hx. inversion H; subst. cbn [fst snd]. split; [apply pshiftc_nz; assumption | apply one1_nz].
  - destruct (low_zero (psize D - psize N) D); [|discriminate]. intros H x Hx. inversion H; subst. cbn [fst snd].
    split; [apply (pshiftc_nz _ 0); assumption | apply pshift1_nz; exact Hx]. Qed.
Lemma cf_run_shape fuel (N D : poly) qs : pzerob N = false -> pzerob D = false -> cf_run fuel N D = Some qs ->
  forall x, x <> 0 -> last_nzx qs x /\ qden_ok qs x.
Proof. revert N D qs. induction fuel as [|f IH]; intros N D qs HN HD H x Hx; cbn [cf_run] in H; [discriminate|].
  destruct (cf_quot N D) as [[q N2]|] eqn:Q; [|discriminate]. destruct (cf_quot_shape _ _ _ _ HN HD Q x Hx) as [Hq Hd].
  destruct (pzerob N2) eqn:Z.
  - inversion H; subst. split; [exact Hq | constructor; [exact Hd | constructor]].
  - destruct (cf_run f D N2) as [qs'|] eqn:R; [|discriminate]. inversion H; subst.
    destruct (IH _ _ _ HD Z R x Hx) as [Hl Hdd]. split.
    + unfold last_nzx. rewrite last_cons_ne' by (apply (cf_run_ne K _ _ _ _ R)). exact Hl.
    + constructor; [exact Hd | exact Hdd]. Qed.
Lemma cf_coeffs_shape fuel (N D : poly) qs : pzerob N = false -> pzerob D = false -> cf_coeffs fuel N D = Some qs ->
  forall x, x <> 0 -> last_nzx qs x /\ qden_ok qs x.
Proof. intros HN HD. unfold cf_coeffs. destruct (psize N <? psize D)%nat.
  - destruct (cf_run fuel D N) as [qs'|] eqn:R; [|discriminate]. intros H x Hx. inversion H; subst.
    destruct (cf_run_shape _ _ _ _ HD HN R x Hx) as [Hl Hd]. split.
    + unfold last_nzx. rewrite last_cons_ne' by (apply (cf_run_ne K _ _ _ _ R)). exact Hl.
    + constructor; [apply one1_nz | exact Hd].
  - apply cf_run_shape; assumption. Qed.

Lemma pnorm_zerob (p : poly) : pzerob (pnorm p) = pzerob p.
Proof. destruct (pzerob p) eqn:E.
  - apply pnorm_nil_zerob in E. rewrite E. reflexivity.
  - destruct (pzerob (pnorm p)) eqn:E2; [|reflexivity]. apply pnorm_nil_zerob in E2. rewrite pnorm_idem in E2.
    apply pnorm_nil_zerob in E2. congruence. Qed.
Lemma icf_run_shape fuel (N D : poly) qs : pzerob N = false -> pzerob D = false -> icf_run fuel N D = Some qs ->
  forall x, x <> 0 -> last_nzx qs x /\ qden_ok qs x.
Proof. revert N D qs. induction fuel as [|f IH]; intros N D qs HN HD H x Hx; cbn [icf_run] in H; [discriminate|].
  unfold icf_quot in H. destruct (pval D <? pval N)%nat eqn:E.
  - rewrite HN in H. destruct (icf_run f D N) as [qs'|] eqn:R; [|discriminate]. inversion H; subst.
    destruct (IH _ _ _ HD HN R x Hx) as [Hl Hd]. split.
    + unfold last_nzx. rewrite last_cons_ne' by (apply (icf_run_ne _ _ _ _ R)). exact Hl.
    + constructor; [apply one1_nz | exact Hd].
  - assert (Hc : plow N / plow D <> 0) by (apply div_nz; apply plow_nz; assumption).
    set (N2 := pnorm (psub N (pscale (plow N / plow D) (skipn (pval D - pval N) D)))) in *.
    destruct (pzerob N2) eqn:Z.
    + inversion H; subst. split.
      * unfold last_nzx. cbn [last fst]. apply (pshiftc_nz _ 0); assumption.
      * constructor; [apply pshift1_nz; exact Hx | constructor].
    + destruct (icf_run f D N2) as [qs'|] eqn:R; [|discriminate]. inversion H; subst.
      destruct (IH _ _ _ HD Z R x Hx) as [Hl Hd]. split.
      * unfold last_nzx. rewrite last_cons_ne' by (apply (icf_run_ne _ _ _ _ R)). exact Hl.
      * constructor; [apply pshift1_nz; exact Hx | exact Hd]. Qed.

(* ---- evaluation of the nested fraction -------------------------------------- *)
(* every division performed by [cf_val] is by a non-zero value *)
Fixpoint cf_dok (qs : list (rat K)) (x : K) : Prop :=
  match qs with
  | [] => True
  | q :: rest => peval (snd q) x <> 0 /\
                 match rest with [] => True | _ => cf_val rest x <> 0 /\ cf_dok rest x end
  end.
Lemma cf_val_rat_dok qs x : qs <> [] -> cf_dok qs x ->
  peval (snd (cf_rat qs)) x <> 0 /\ cf_val qs x = rat_eval (cf_rat qs) x.
Proof. induction qs as [|q rest IH]; [congruence|]. intros _ Hok. destruct rest as [|q' t].
  - destruct Hok as [Hq _]. split; [exact Hq | reflexivity].
  - change (cf_val (q :: q' :: t) x) with (rat_eval q x + 1 / cf_val (q' :: t) x).
    change (cf_rat (q :: q' :: t)) with (radd q (rinv (cf_rat (q' :: t)))).
    destruct Hok as [Hq [Hv Hr]]. destruct (IH ltac:(congruence) Hr) as [Hd He].
    set (f := cf_rat (q' :: t)) in *. rewrite He in Hv.
    assert (Hn : peval (fst f) x <> 0). { intros E. apply Hv. unfold rat_eval. rewrite E. field. exact Hd. }
    split.
    + unfold radd, rinv. cbn [fst snd]. rewrite peval_pmul. apply mul_nz; assumption.
    + rewrite He. unfold rat_eval, radd, rinv. cbn [fst snd]. rewrite peval_padd, !peval_pmul. field. repeat split; assumption. Qed.
Theorem cf_eval_coeffs fuel (N D : poly) qs x : cf_coeffs fuel N D = Some qs -> cf_dok qs x -> peval D x <> 0 ->
  cf_val qs x = peval N x / peval D x.
Proof. intros H Hok HD. assert (Hne : qs <> []).
  { unfold cf_coeffs in H. destruct (psize N <? psize D)%nat.
    - destruct (cf_run fuel D N); [inversion H; discriminate | discriminate].
    - apply (cf_run_ne K _ _ _ _ H). }
  destruct (cf_val_rat_dok qs x Hne Hok) as [Hd He]. rewrite He.
  apply (req_eval K (cf_rat qs) (N, D) x (cf_coeffs_sound K _ _ _ _ H) Hd HD). Qed.
Theorem icf_eval_coeffs fuel (N D : poly) qs x : icf_run fuel N D = Some qs -> cf_dok qs x -> peval D x <> 0 ->
  cf_val qs x = peval N x / peval D x.
Proof. intros H Hok HD. destruct (cf_val_rat_dok qs x (icf_run_ne _ _ _ _ H) Hok) as [Hd He]. rewrite He.
  apply (req_eval K (cf_rat qs) (N, D) x (icf_run_sound _ _ _ _ H) Hd HD). Qed.
End ICF.
Arguments pval {K}. Arguments plow {K}. Arguments icf_quot {K}. Arguments icf_run {K}.
Arguments qden_ok {K}. Arguments last_nzx {K}. Arguments cf_dok {K}.
