(* FourierAnalysis - the analytic meaning of the absolutely integrable entries of
   the Fourier table of lcapy/fourier.py (specification FourierSpec.v):

       X(f) = int_{-oo}^{+oo} x(t) e^{-j 2 pi f t} dt ,   x real-valued,

   real and imaginary parts separately,
       Re X(f) =   int x(t) cos(2 pi f t) dt      [FTre]
       Im X(f) = - int x(t) sin(2 pi f t) dt      [FTim]
   as Coquelicot improper Riemann integrals (is_RInt_gen from -oo to +oo):

     rect  <-> sincn(f)                    fourier_rect_re / _im
     tri   <-> sincn(f)^2                  fourier_tri_re / _im
     trap(t, alpha) (peak 1, 0 < alpha <= 1, as defined by
            lcapy/extrafunctions.py: trap.eval) <-> sincn(f) sincn(alpha f)
                                           fourier_trap_re / _im
            -- NOT alpha sincn(f) sincn(alpha f): the factor alpha written in
               fourier.py is the DESIGN section 6 finding F15 --
     e^{-a t} u(t), a > 0  <->  1/(a + j 2 pi f) = (a - j 2 pi f)/(a^2 + (2 pi f)^2)
                                           fourier_expu_re / _im
   Generalised-function entries (delta, constants, steps, sign, sinusoids) are
   specification level (FourierSpec.v): no distribution theory is available.

   Depends only on the axioms of the standard library's classical reals (printed
   by Print Assumptions at the end of props/C12.v). *)
From Coq Require Import Reals Lra Lia.
From Coquelicot Require Import Coquelicot.
Open Scope R_scope.

Definition FTre (x : R -> R) (f X : R) : Prop :=
  is_RInt_gen (fun t => x t * cos (2 * PI * f * t)) (Rbar_locally m_infty) (Rbar_locally p_infty) X.
Definition FTim (x : R -> R) (f X : R) : Prop :=
  is_RInt_gen (fun t => - (x t * sin (2 * PI * f * t))) (Rbar_locally m_infty) (Rbar_locally p_infty) X.

Definition sincn (f : R) : R := if Req_EM_T f 0 then 1 else sin (PI * f) / (PI * f).

(* ---- proper integrals of (p + q t) cos(w t), (p + q t) sin(w t) ------------- *)
Lemma FA_lin_cos (p q w a b : R) : w <> 0 ->
  is_RInt (fun t => (p + q * t) * cos (w * t)) a b
    (((p + q * b) * sin (w * b) / w + q * cos (w * b) / w ^ 2) - ((p + q * a) * sin (w * a) / w + q * cos (w * a) / w ^ 2)).
Proof.
  intros Hw.
  apply (is_RInt_derive (fun t => (p + q * t) * sin (w * t) / w + q * cos (w * t) / w ^ 2)
                        (fun t => (p + q * t) * cos (w * t))).
  - intros x _. auto_derive; [exact I|]. field. exact Hw.
  - intros x _. apply (ex_derive_continuous (fun t => (p + q * t) * cos (w * t))). auto_derive. exact I.
Qed.
Lemma FA_lin_sin (p q w a b : R) : w <> 0 ->
  is_RInt (fun t => (p + q * t) * sin (w * t)) a b
    ((- (p + q * b) * cos (w * b) / w + q * sin (w * b) / w ^ 2) - (- (p + q * a) * cos (w * a) / w + q * sin (w * a) / w ^ 2)).
Proof.
  intros Hw.
  apply (is_RInt_derive (fun t => - (p + q * t) * cos (w * t) / w + q * sin (w * t) / w ^ 2)
                        (fun t => (p + q * t) * sin (w * t))).
  - intros x _. auto_derive; [exact I|]. field. exact Hw.
  - intros x _. apply (ex_derive_continuous (fun t => (p + q * t) * sin (w * t))). auto_derive. exact I.
Qed.
Lemma FA_lin (p q a b : R) :
  is_RInt (fun t => p + q * t) a b ((p * b + q * b ^ 2 / 2) - (p * a + q * a ^ 2 / 2)).
Proof.
  apply (is_RInt_derive (fun t => p * t + q * t ^ 2 / 2) (fun t => p + q * t)).
  - intros x _. auto_derive; [exact I|]. field.
  - intros x _. apply (ex_derive_continuous (fun t => p + q * t)). auto_derive. exact I.
Qed.

Lemma FA_RInt_zero (u v : R) : is_RInt (fun _ : R => 0) u v 0.
Proof.
  pose proof (is_RInt_const (V:=R_NormedModule) u v 0) as H.
  unfold scal in H; simpl in H; unfold mult in H; simpl in H.
  rewrite Rmult_0_r in H. exact H.
Qed.
Lemma FA_RInt_zero_on (g : R -> R) (u v : R) : u <= v -> (forall t, u < t < v -> g t = 0) -> is_RInt g u v 0.
Proof.
  intros Huv H. apply (is_RInt_ext (fun _ => 0)).
  - rewrite Rmin_left, Rmax_right by lra. intros x Hx. symmetry. apply H. exact Hx.
  - apply FA_RInt_zero.
Qed.

(* a function supported in [a, b]: the bilateral improper integral is the proper one *)
Lemma FA_compact_support (g : R -> R) (a b l : R) : a <= b ->
  (forall t, t < a -> g t = 0) -> (forall t, b < t -> g t = 0) ->
  is_RInt g a b l ->
  is_RInt_gen g (Rbar_locally m_infty) (Rbar_locally p_infty) l.
Proof.
  intros Hab Hl Hr Hg P HP.
  exists (fun x => x < a) (fun y => b < y).
  - exists a. intros x Hx. exact Hx.
  - exists b. intros y Hy. exact Hy.
  - intros x y Hx Hy. simpl. exists l. split.
    + replace l with (plus (plus 0 l) 0) by (unfold plus; simpl; ring).
      apply (is_RInt_Chasles g x b y).
      * apply (is_RInt_Chasles g x a b); [|exact Hg].
        apply FA_RInt_zero_on; [lra|]. intros t Ht. apply Hl. lra.
      * apply FA_RInt_zero_on; [lra|]. intros t Ht. apply Hr. lra.
    + apply locally_singleton. exact HP.
Qed.

(* pieces: g agrees with (p + q t) * trig(w t) on the open interval (a, b) *)
Lemma FA_piece (g h : R -> R) (a b l : R) : a <= b ->
  (forall t, a < t < b -> g t = h t) -> is_RInt h a b l -> is_RInt g a b l.
Proof.
  intros Hab E H. apply (is_RInt_ext h); [|exact H].
  rewrite Rmin_left, Rmax_right by lra. intros x Hx. symmetry. apply E. exact Hx.
Qed.

Lemma FA_val (g : R -> R) (a b v l : R) : is_RInt g a b v -> v = l -> is_RInt g a b l.
Proof. intros H <-. exact H. Qed.
Ltac use_int H := apply (FA_val _ _ _ _ _ H).

(* ---- rect -------------------------------------------------------------------- *)
Definition rectR (t : R) : R := if Rle_dec (Rabs t) (1 / 2) then 1 else 0.
Lemma rectR_in t : - (1 / 2) < t < 1 / 2 -> rectR t = 1.
Proof. intros H. unfold rectR. destruct (Rle_dec (Rabs t) (1 / 2)) as [L|L]; [reflexivity|].
  exfalso. apply L. apply Rabs_le. lra. Qed.
Lemma rectR_out t : t < - (1 / 2) \/ 1 / 2 < t -> rectR t = 0.
Proof. intros H. unfold rectR. destruct (Rle_dec (Rabs t) (1 / 2)) as [L|L]; [|reflexivity].
  exfalso. apply Rabs_le_between in L. lra. Qed.

Lemma two_pi_f_nz f : f <> 0 -> 2 * PI * f <> 0.
Proof. intros Hf. pose proof PI_RGT_0. apply Rmult_integral_contrapositive_currified; [lra | exact Hf]. Qed.

Theorem fourier_rect_re f : FTre rectR f (sincn f).
Proof.
  unfold FTre. apply (FA_compact_support _ (- (1 / 2)) (1 / 2)); [lra | | |].
  - intros t Ht. rewrite rectR_out by lra. ring.
  - intros t Ht. rewrite rectR_out by lra. ring.
  - unfold sincn. destruct (Req_EM_T f 0) as [->|Hf].
    + apply (FA_piece _ (fun t => 1 + 0 * t)); [lra | |].
      * intros t Ht. rewrite rectR_in by lra. replace (2 * PI * 0 * t) with 0 by ring. rewrite cos_0. ring.
      * pose proof (FA_lin 1 0 (- (1 / 2)) (1 / 2)) as H. use_int H. field.
    + pose proof (two_pi_f_nz f Hf) as Hw. set (w := 2 * PI * f) in *.
      apply (FA_piece _ (fun t => (1 + 0 * t) * cos (w * t))); [lra | |].
      * intros t Ht. rewrite rectR_in by lra. ring.
      * pose proof (FA_lin_cos 1 0 w (- (1 / 2)) (1 / 2) Hw) as H.
        use_int H.
        replace (w * - (1 / 2)) with (- (PI * f)) by (unfold w; field).
        replace (w * (1 / 2)) with (PI * f) by (unfold w; field).
        rewrite sin_neg. unfold w. field. pose proof PI_RGT_0. split; [exact Hf | lra].
Qed.
Theorem fourier_rect_im f : FTim rectR f 0.
Proof.
  unfold FTim. apply (FA_compact_support _ (- (1 / 2)) (1 / 2)); [lra | | |].
  - intros t Ht. rewrite rectR_out by lra. ring.
  - intros t Ht. rewrite rectR_out by lra. ring.
  - destruct (Req_EM_T f 0) as [->|Hf].
    + apply FA_RInt_zero_on; [lra|]. intros t Ht. replace (2 * PI * 0 * t) with 0 by ring. rewrite sin_0. ring.
    + pose proof (two_pi_f_nz f Hf) as Hw. set (w := 2 * PI * f) in *.
      apply (FA_piece _ (fun t => (- (1) + 0 * t) * sin (w * t))); [lra | |].
      * intros t Ht. rewrite rectR_in by lra. ring.
      * pose proof (FA_lin_sin (- (1)) 0 w (- (1 / 2)) (1 / 2) Hw) as H.
        use_int H.
        replace (w * - (1 / 2)) with (- (w * (1 / 2))) by ring. rewrite cos_neg. field. exact Hw.
Qed.

Lemma FA_chasles2 (g : R -> R) (a b c l1 l2 l : R) :
  is_RInt g a b l1 -> is_RInt g b c l2 -> l1 + l2 = l -> is_RInt g a c l.
Proof. intros H1 H2 <-. exact (is_RInt_Chasles g a b c l1 l2 H1 H2). Qed.
Lemma FA_chasles3 (g : R -> R) (a b c d l1 l2 l3 l : R) :
  is_RInt g a b l1 -> is_RInt g b c l2 -> is_RInt g c d l3 -> l1 + l2 + l3 = l -> is_RInt g a d l.
Proof. intros H1 H2 H3 <-. apply (is_RInt_Chasles g a c d (l1 + l2) l3); [|exact H3].
  exact (is_RInt_Chasles g a b c l1 l2 H1 H2). Qed.

(* ---- tri --------------------------------------------------------------------- *)
Definition triR (t : R) : R := if Rle_dec (Rabs t) 1 then 1 - Rabs t else 0.
Lemma triR_neg t : - 1 < t < 0 -> triR t = 1 + t.
Proof. intros H. unfold triR. rewrite (Rabs_left t) by lra.
  destruct (Rle_dec (- t) 1); [ring | lra]. Qed.
Lemma triR_pos t : 0 < t < 1 -> triR t = 1 - t.
Proof. intros H. unfold triR. rewrite (Rabs_right t) by lra.
  destruct (Rle_dec t 1); [ring | lra]. Qed.
Lemma triR_out t : t < - 1 \/ 1 < t -> triR t = 0.
Proof. intros H. unfold triR. destruct (Rle_dec (Rabs t) 1) as [L|L]; [|reflexivity].
  exfalso. apply Rabs_le_between in L. lra. Qed.

Lemma cos_2half w : cos w = 1 - 2 * sin (w / 2) * sin (w / 2).
Proof. replace w with (2 * (w / 2)) at 1 by field. rewrite cos_2a_sin. ring. Qed.

Theorem fourier_tri_re f : FTre triR f (sincn f * sincn f).
Proof.
  unfold FTre. apply (FA_compact_support _ (- 1) 1); [lra | | |].
  - intros t Ht. rewrite triR_out by lra. ring.
  - intros t Ht. rewrite triR_out by lra. ring.
  - unfold sincn. destruct (Req_EM_T f 0) as [->|Hf].
    + eapply (FA_chasles2 _ (- 1) 0 1).
      * apply (FA_piece _ (fun t => 1 + 1 * t)); [lra | | apply FA_lin].
        intros t Ht. rewrite triR_neg by lra. replace (2 * PI * 0 * t) with 0 by ring. rewrite cos_0. ring.
      * apply (FA_piece _ (fun t => 1 + (- 1) * t)); [lra | | apply FA_lin].
        intros t Ht. rewrite triR_pos by lra. replace (2 * PI * 0 * t) with 0 by ring. rewrite cos_0. ring.
      * field.
    + pose proof (two_pi_f_nz f Hf) as Hw. set (w := 2 * PI * f) in *.
      eapply (FA_chasles2 _ (- 1) 0 1).
      * apply (FA_piece _ (fun t => (1 + 1 * t) * cos (w * t))); [lra | | apply (FA_lin_cos _ _ _ _ _ Hw)].
        intros t Ht. rewrite triR_neg by lra. ring.
      * apply (FA_piece _ (fun t => (1 + (- 1) * t) * cos (w * t))); [lra | | apply (FA_lin_cos _ _ _ _ _ Hw)].
        intros t Ht. rewrite triR_pos by lra. ring.
      * replace (w * 0) with 0 by ring. replace (w * - 1) with (- w) by ring. replace (w * 1) with w by ring.
        rewrite cos_0, sin_0, cos_neg, sin_neg, (cos_2half w).
        replace (w / 2) with (PI * f) by (unfold w; field).
        unfold w. field. pose proof PI_RGT_0. split; [exact Hf | lra].
Qed.
Theorem fourier_tri_im f : FTim triR f 0.
Proof.
  unfold FTim. apply (FA_compact_support _ (- 1) 1); [lra | | |].
  - intros t Ht. rewrite triR_out by lra. ring.
  - intros t Ht. rewrite triR_out by lra. ring.
  - destruct (Req_EM_T f 0) as [->|Hf].
    + apply FA_RInt_zero_on; [lra|]. intros t Ht. replace (2 * PI * 0 * t) with 0 by ring. rewrite sin_0. ring.
    + pose proof (two_pi_f_nz f Hf) as Hw. set (w := 2 * PI * f) in *.
      eapply (FA_chasles2 _ (- 1) 0 1).
      * apply (FA_piece _ (fun t => (- 1 + (- 1) * t) * sin (w * t))); [lra | | apply (FA_lin_sin _ _ _ _ _ Hw)].
        intros t Ht. rewrite triR_neg by lra. ring.
      * apply (FA_piece _ (fun t => (- 1 + 1 * t) * sin (w * t))); [lra | | apply (FA_lin_sin _ _ _ _ _ Hw)].
        intros t Ht. rewrite triR_pos by lra. ring.
      * replace (w * 0) with 0 by ring. replace (w * - 1) with (- w) by ring. replace (w * 1) with w by ring.
        rewrite cos_0, sin_0, cos_neg, sin_neg. field. exact Hw.
Qed.

(* ---- trap (peak 1; lcapy/extrafunctions.py trap.eval), 0 < alpha <= 1 --------- *)
Definition trapR (al t : R) : R :=
  if Rle_dec (Rabs t - 1 / 2) (- (al / 2)) then 1
  else if Rle_dec (al / 2) (Rabs t - 1 / 2) then 0
  else 1 / 2 - (Rabs t - 1 / 2) / al.
Lemma trapR_mid al t : 0 < al -> - ((1 - al) / 2) < t < (1 - al) / 2 -> trapR al t = 1.
Proof. intros Ha H. unfold trapR. destruct (Rle_dec (Rabs t - 1 / 2) (- (al / 2))) as [L|L]; [reflexivity|].
  exfalso. apply L. assert (Rabs t <= (1 - al) / 2) by (apply Rabs_le; lra). lra. Qed.
Lemma trapR_left al t : 0 < al -> - ((1 + al) / 2) < t < - ((1 - al) / 2) -> t < 0 ->
  trapR al t = (1 + al) / (2 * al) + (1 / al) * t.
Proof. intros Ha H Ht. unfold trapR. rewrite (Rabs_left t) by lra.
  destruct (Rle_dec (- t - 1 / 2) (- (al / 2))); [lra|].
  destruct (Rle_dec (al / 2) (- t - 1 / 2)); [lra|]. field. lra. Qed.
Lemma trapR_right al t : 0 < al -> (1 - al) / 2 < t < (1 + al) / 2 -> 0 < t ->
  trapR al t = (1 + al) / (2 * al) + (- (1 / al)) * t.
Proof. intros Ha H Ht. unfold trapR. rewrite (Rabs_right t) by lra.
  destruct (Rle_dec (t - 1 / 2) (- (al / 2))); [lra|].
  destruct (Rle_dec (al / 2) (t - 1 / 2)); [lra|]. field. lra. Qed.
Lemma trapR_out al t : 0 < al -> t < - ((1 + al) / 2) \/ (1 + al) / 2 < t -> trapR al t = 0.
Proof. intros Ha H. unfold trapR.
  assert (Hab : (1 + al) / 2 < Rabs t).
  { destruct H; [rewrite Rabs_left by lra | rewrite Rabs_right by lra]; lra. }
  destruct (Rle_dec (Rabs t - 1 / 2) (- (al / 2))); [lra|].
  destruct (Rle_dec (al / 2) (Rabs t - 1 / 2)); [reflexivity | lra]. Qed.

Lemma cos_diff_prod x y : cos (x - y) - cos (x + y) = 2 * sin x * sin y.
Proof. rewrite cos_minus, cos_plus. ring. Qed.

Theorem fourier_trap_re al f : 0 < al <= 1 -> FTre (trapR al) f (sincn f * sincn (al * f)).
Proof.
  intros [Ha Ha1].
  set (A := (1 - al) / 2). set (B := (1 + al) / 2).
  assert (HA : 0 <= A) by (unfold A; lra). assert (HAB : A < B) by (unfold A, B; lra).
  unfold FTre. apply (FA_compact_support _ (- B) B); [lra | | |].
  - intros t Ht. rewrite trapR_out by (unfold B in *; lra). ring.
  - intros t Ht. rewrite trapR_out by (unfold B in *; lra). ring.
  - unfold sincn. destruct (Req_EM_T f 0) as [->|Hf].
    + destruct (Req_EM_T (al * 0) 0) as [_|N]; [|exfalso; apply N; ring].
      eapply (FA_chasles3 _ (- B) (- A) A B).
      * apply (FA_piece _ (fun t => (1 + al) / (2 * al) + (1 / al) * t)); [lra | | apply FA_lin].
        intros t Ht. rewrite trapR_left by (unfold A, B in *; lra).
        replace (2 * PI * 0 * t) with 0 by ring. rewrite cos_0. ring.
      * apply (FA_piece _ (fun t => 1 + 0 * t)); [lra | | apply FA_lin].
        intros t Ht. rewrite trapR_mid by (unfold A in *; lra).
        replace (2 * PI * 0 * t) with 0 by ring. rewrite cos_0. ring.
      * apply (FA_piece _ (fun t => (1 + al) / (2 * al) + (- (1 / al)) * t)); [lra | | apply FA_lin].
        intros t Ht. rewrite trapR_right by (unfold A, B in *; lra).
        replace (2 * PI * 0 * t) with 0 by ring. rewrite cos_0. ring.
      * unfold A, B. field. lra.
    + assert (Haf : al * f <> 0) by (apply Rmult_integral_contrapositive_currified; lra).
      destruct (Req_EM_T (al * f) 0) as [Z|_]; [contradiction|].
      pose proof (two_pi_f_nz f Hf) as Hw. set (w := 2 * PI * f) in *.
      eapply (FA_chasles3 _ (- B) (- A) A B).
      * apply (FA_piece _ (fun t => ((1 + al) / (2 * al) + (1 / al) * t) * cos (w * t))); [lra | | apply (FA_lin_cos _ _ _ _ _ Hw)].
        intros t Ht. rewrite trapR_left by (unfold A, B in *; lra). ring.
      * apply (FA_piece _ (fun t => (1 + 0 * t) * cos (w * t))); [lra | | apply (FA_lin_cos _ _ _ _ _ Hw)].
        intros t Ht. rewrite trapR_mid by (unfold A in *; lra). ring.
      * apply (FA_piece _ (fun t => ((1 + al) / (2 * al) + (- (1 / al)) * t) * cos (w * t))); [lra | | apply (FA_lin_cos _ _ _ _ _ Hw)].
        intros t Ht. rewrite trapR_right by (unfold A, B in *; lra). ring.
      * replace (w * - A) with (- (w * A)) by ring. replace (w * - B) with (- (w * B)) by ring.
        rewrite !cos_neg, !sin_neg.
        pose proof (cos_diff_prod (PI * f) (PI * (al * f))) as Hc.
        replace (PI * f - PI * (al * f)) with (w * A) in Hc by (unfold w, A; field).
        replace (PI * f + PI * (al * f)) with (w * B) in Hc by (unfold w, B; field).
        assert (Hc' : cos (w * A) = cos (w * B) + 2 * sin (PI * f) * sin (PI * (al * f))) by lra.
        rewrite Hc'. unfold w, A, B. field. pose proof PI_RGT_0. repeat split; lra.
Qed.
Theorem fourier_trap_im al f : 0 < al <= 1 -> FTim (trapR al) f 0.
Proof.
  intros [Ha Ha1].
  set (A := (1 - al) / 2). set (B := (1 + al) / 2).
  assert (HA : 0 <= A) by (unfold A; lra). assert (HAB : A < B) by (unfold A, B; lra).
  unfold FTim. apply (FA_compact_support _ (- B) B); [lra | | |].
  - intros t Ht. rewrite trapR_out by (unfold B in *; lra). ring.
  - intros t Ht. rewrite trapR_out by (unfold B in *; lra). ring.
  - destruct (Req_EM_T f 0) as [->|Hf].
    + apply FA_RInt_zero_on; [lra|]. intros t Ht. replace (2 * PI * 0 * t) with 0 by ring. rewrite sin_0. ring.
    + pose proof (two_pi_f_nz f Hf) as Hw. set (w := 2 * PI * f) in *.
      eapply (FA_chasles3 _ (- B) (- A) A B).
      * apply (FA_piece _ (fun t => (- ((1 + al) / (2 * al)) + (- (1 / al)) * t) * sin (w * t))); [lra | | apply (FA_lin_sin _ _ _ _ _ Hw)].
        intros t Ht. rewrite trapR_left by (unfold A, B in *; lra). ring.
      * apply (FA_piece _ (fun t => (- 1 + 0 * t) * sin (w * t))); [lra | | apply (FA_lin_sin _ _ _ _ _ Hw)].
        intros t Ht. rewrite trapR_mid by (unfold A in *; lra). ring.
      * apply (FA_piece _ (fun t => (- ((1 + al) / (2 * al)) + (1 / al) * t) * sin (w * t))); [lra | | apply (FA_lin_sin _ _ _ _ _ Hw)].
        intros t Ht. rewrite trapR_right by (unfold A, B in *; lra). ring.
      * replace (w * - A) with (- (w * A)) by ring. replace (w * - B) with (- (w * B)) by ring.
        rewrite !cos_neg, !sin_neg. unfold A, B. field. lra.
Qed.
(* trap(t, 1) = tri(t): the peak-1 normalisation that fixes the transform *)
Lemma trapR_1_tri t : trapR 1 t = triR t.
Proof. unfold trapR, triR.
  destruct (Rle_dec (Rabs t - 1 / 2) (- (1 / 2))) as [L1|L1]; destruct (Rle_dec (1 / 2) (Rabs t - 1 / 2)) as [L2|L2];
  destruct (Rle_dec (Rabs t) 1) as [L3|L3]; pose proof (Rabs_pos t); try lra; try field. Qed.

(* ---- one-sided exponential e^{-a t} u(t), a > 0 -------------------------------- *)
Definition expuR (a t : R) : R := if Rlt_dec t 0 then 0 else exp (- a * t).

Lemma FA_gen_zero_left (g : R -> R) (b : R) : (forall t, t < b -> g t = 0) ->
  is_RInt_gen g (Rbar_locally m_infty) (at_point b) 0.
Proof.
  intros Hz P HP.
  exists (fun x => x < b) (fun y => y = b).
  - exists b. intros x Hx. exact Hx.
  - reflexivity.
  - intros x y Hx ->. simpl. exists 0. split.
    + apply FA_RInt_zero_on; [lra|]. intros t Ht. apply Hz. lra.
    + apply locally_singleton. exact HP.
Qed.
Lemma FA_gen_ext_right (b : R) (g h : R -> R) (l : R) : (forall t, b < t -> g t = h t) ->
  is_RInt_gen g (at_point b) (Rbar_locally p_infty) l -> is_RInt_gen h (at_point b) (Rbar_locally p_infty) l.
Proof.
  intros E. apply is_RInt_gen_ext.
  exists (fun x => x = b) (fun y => b < y).
  - reflexivity.
  - exists b. intros x Hx; exact Hx.
  - intros x y -> Hy t. simpl. rewrite Rmin_left by lra. intros [Hx _]. apply E. exact Hx.
Qed.
Lemma FA_gen_antideriv (b : R) (g F : R -> R) (l : R) :
  (forall t, is_derive F t (g t)) -> (forall t, continuous g t) -> is_lim F p_infty l ->
  is_RInt_gen g (at_point b) (Rbar_locally p_infty) (l - F b).
Proof.
  intros HD HC HL.
  apply (is_RInt_gen_ext (Derive F)).
  { apply filter_forall. intros [x y] z _. apply is_derive_unique. apply HD. }
  apply is_RInt_gen_Derive.
  - apply filter_forall. intros [x y] z _. exists (g z). apply HD.
  - apply filter_forall. intros [x y] z _.
    apply (continuous_ext g). { intros t. symmetry. apply is_derive_unique. apply HD. } apply HC.
  - intros P HP. unfold filtermap, at_point. apply locally_singleton in HP. exact HP.
  - exact HL.
Qed.
Lemma FA_lim_exp a : 0 < a -> is_lim (fun t => exp (- a * t)) p_infty 0.
Proof.
  intros Ha. apply (is_lim_comp exp (fun t => - a * t) p_infty 0 m_infty).
  - apply is_lim_exp_m.
  - evar (l : Rbar). assert (H : is_lim (fun t => - a * t) p_infty l).
    { unfold l. apply is_lim_scal_l. apply is_lim_id. }
    unfold l in H. simpl in H. destruct (Rle_dec 0 (- a)) as [H0|H0]; [lra|]. exact H.
  - exists 0. intros x _ Hc. discriminate.
Qed.
(* a bounded function times a decaying exponential tends to 0 *)
Lemma FA_lim_exp_bounded a (g : R -> R) (M : R) : 0 < a -> (forall t, Rabs (g t) <= M) ->
  is_lim (fun t => exp (- a * t) * g t) p_infty 0.
Proof.
  intros Ha Hb.
  assert (HM : 0 <= M) by (pose proof (Hb 0); pose proof (Rabs_pos (g 0)); lra).
  apply (is_lim_le_le_loc (fun t => - (M * exp (- a * t))) (fun t => M * exp (- a * t))).
  - exists 0. intros t _. pose proof (exp_pos (- a * t)) as He. pose proof (Hb t) as Hg.
    apply Rabs_le_between in Hg. split; nra.
  - replace (Finite 0) with (Rbar_opp (Rbar_mult M 0)) by (simpl; f_equal; ring).
    apply is_lim_opp. apply is_lim_scal_l. apply FA_lim_exp, Ha.
  - replace (Finite 0) with (Rbar_mult M 0) by (simpl; f_equal; ring).
    apply is_lim_scal_l. apply FA_lim_exp, Ha.
Qed.
Lemma FA_lincomb_bound c w x : Rabs (c * cos x + w * sin x) <= Rabs c + Rabs w.
Proof.
  eapply Rle_trans; [apply Rabs_triang|]. rewrite !Rabs_mult.
  pose proof (Rabs_pos c). pose proof (Rabs_pos w).
  assert (Rabs (cos x) <= 1) by (apply Rabs_le; pose proof (COS_bound x); lra).
  assert (Rabs (sin x) <= 1) by (apply Rabs_le; pose proof (SIN_bound x); lra).
  nra.
Qed.

Lemma FA_gen_chasles (g : R -> R) (b l1 l2 l : R) :
  is_RInt_gen g (Rbar_locally m_infty) (at_point b) l1 -> is_RInt_gen g (at_point b) (Rbar_locally p_infty) l2 ->
  l1 + l2 = l -> is_RInt_gen g (Rbar_locally m_infty) (Rbar_locally p_infty) l.
Proof. intros H1 H2 <-. exact (is_RInt_gen_Chasles (V:=R_NormedModule) g b l1 l2 H1 H2). Qed.

Theorem fourier_expu_re a f : 0 < a -> FTre (expuR a) f (a / (a ^ 2 + (2 * PI * f) ^ 2)).
Proof.
  intros Ha. unfold FTre. set (w := 2 * PI * f).
  assert (Hd : a ^ 2 + w ^ 2 <> 0) by nra.
  eapply (FA_gen_chasles _ 0 0 (a / (a ^ 2 + w ^ 2))); [ | | ring].
  - apply FA_gen_zero_left. intros t Ht. unfold expuR. destruct (Rlt_dec t 0); [ring | lra].
  - apply (FA_gen_ext_right 0 (fun t => exp (- a * t) * cos (w * t))).
    { intros t Ht. unfold expuR. destruct (Rlt_dec t 0); [lra | reflexivity]. }
    pose (F := fun t => exp (- a * t) * ((- a / (a ^ 2 + w ^ 2)) * cos (w * t) + (w / (a ^ 2 + w ^ 2)) * sin (w * t))).
    replace (a / (a ^ 2 + w ^ 2)) with (0 - F 0).
    2:{ unfold F. rewrite !Rmult_0_r, exp_0, cos_0, sin_0. field. exact Hd. }
    apply (FA_gen_antideriv 0 _ F 0).
    + intros t. unfold F. auto_derive; [exact I|]. field. nra.
    + intros t. apply (ex_derive_continuous (fun t => exp (- a * t) * cos (w * t))). auto_derive. exact I.
    + unfold F. apply (FA_lim_exp_bounded a _ (Rabs (- a / (a ^ 2 + w ^ 2)) + Rabs (w / (a ^ 2 + w ^ 2))) Ha).
      intros t. apply FA_lincomb_bound.
Qed.
Theorem fourier_expu_im a f : 0 < a -> FTim (expuR a) f (- (2 * PI * f) / (a ^ 2 + (2 * PI * f) ^ 2)).
Proof.
  intros Ha. unfold FTim. set (w := 2 * PI * f).
  assert (Hd : a ^ 2 + w ^ 2 <> 0) by nra.
  eapply (FA_gen_chasles _ 0 0 (- w / (a ^ 2 + w ^ 2))); [ | | ring].
  - apply FA_gen_zero_left. intros t Ht. unfold expuR. destruct (Rlt_dec t 0); [ring | lra].
  - apply (FA_gen_ext_right 0 (fun t => - (exp (- a * t) * sin (w * t)))).
    { intros t Ht. unfold expuR. destruct (Rlt_dec t 0); [lra | reflexivity]. }
    pose (F := fun t => exp (- a * t) * ((w / (a ^ 2 + w ^ 2)) * cos (w * t) + (a / (a ^ 2 + w ^ 2)) * sin (w * t))).
    replace (- w / (a ^ 2 + w ^ 2)) with (0 - F 0).
    2:{ unfold F. rewrite !Rmult_0_r, exp_0, cos_0, sin_0. field. exact Hd. }
    apply (FA_gen_antideriv 0 _ F 0).
    + intros t. unfold F. auto_derive; [exact I|]. field. nra.
    + intros t. apply (ex_derive_continuous (fun t => - (exp (- a * t) * sin (w * t)))). auto_derive. exact I.
    + unfold F. apply (FA_lim_exp_bounded a _ (Rabs (w / (a ^ 2 + w ^ 2)) + Rabs (a / (a ^ 2 + w ^ 2))) Ha).
      intros t. apply FA_lincomb_bound.
Qed.
(* these are the real and imaginary parts of 1/(a + j 2 pi f) *)
Lemma expu_parts a w : a ^ 2 + w ^ 2 <> 0 ->
  (a / (a ^ 2 + w ^ 2)) * a - (- w / (a ^ 2 + w ^ 2)) * w = 1 /\
  (a / (a ^ 2 + w ^ 2)) * w + (- w / (a ^ 2 + w ^ 2)) * a = 0.
Proof. intros H. split; field; exact H. Qed.

(* ---- two-sided exponential e^{-a|t|}, a > 0 ---------------------------------------- *)
Definition twoexpR (a t : R) : R := exp (- a * Rabs t).

Lemma FA_lim_minus (h : R -> R) (l : R) : is_lim h p_infty l -> is_lim (fun t => h (- t)) m_infty l.
Proof.
  intros H. apply (is_lim_comp h (fun t => - t) m_infty l p_infty H).
  - replace p_infty with (Rbar_opp m_infty) by reflexivity. apply is_lim_opp. apply is_lim_id.
  - exists 0. intros x _ Hc. discriminate.
Qed.
Lemma FA_lim_exp_bounded_m a (g : R -> R) (M : R) : 0 < a -> (forall t, Rabs (g t) <= M) ->
  is_lim (fun t => exp (a * t) * g t) m_infty 0.
Proof.
  intros Ha Hb.
  pose proof (FA_lim_minus _ _ (FA_lim_exp_bounded a (fun t => g (- t)) M Ha (fun t => Hb (- t)))) as H.
  apply (is_lim_ext (fun t => exp (- a * - t) * g (- - t))); [|exact H].
  intros t. replace (- a * - t) with (a * t) by ring. replace (- - t) with t by ring. reflexivity.
Qed.
Lemma FA_gen_antideriv_left (b : R) (g F : R -> R) (l : R) :
  (forall t, is_derive F t (g t)) -> (forall t, continuous g t) -> is_lim F m_infty l ->
  is_RInt_gen g (Rbar_locally m_infty) (at_point b) (F b - l).
Proof.
  intros HD HC HL.
  apply (is_RInt_gen_ext (Derive F)).
  { apply filter_forall. intros [x y] z _. apply is_derive_unique. apply HD. }
  apply is_RInt_gen_Derive.
  - apply filter_forall. intros [x y] z _. exists (g z). apply HD.
  - apply filter_forall. intros [x y] z _.
    apply (continuous_ext g). { intros t. symmetry. apply is_derive_unique. apply HD. } apply HC.
  - exact HL.
  - intros P HP. unfold filtermap, at_point. apply locally_singleton in HP. exact HP.
Qed.
Lemma FA_gen_ext_left (b : R) (g h : R -> R) (l : R) : (forall t, t < b -> g t = h t) ->
  is_RInt_gen g (Rbar_locally m_infty) (at_point b) l -> is_RInt_gen h (Rbar_locally m_infty) (at_point b) l.
Proof.
  intros E. apply is_RInt_gen_ext.
  exists (fun x => x < b) (fun y => y = b).
  - exists b. intros x Hx; exact Hx.
  - reflexivity.
  - intros x y Hx -> t. simpl. rewrite Rmax_right by lra. intros [_ Ht]. apply E. exact Ht.
Qed.

Theorem fourier_twoexp_re a f : 0 < a -> FTre (twoexpR a) f (2 * a / (a ^ 2 + (2 * PI * f) ^ 2)).
Proof.
  intros Ha. unfold FTre. set (w := 2 * PI * f).
  assert (Hd : a ^ 2 + w ^ 2 <> 0) by nra.
  eapply (FA_gen_chasles _ 0 (a / (a ^ 2 + w ^ 2)) (a / (a ^ 2 + w ^ 2))); [ | | field; exact Hd].
  - apply (FA_gen_ext_left 0 (fun t => exp (a * t) * cos (w * t))).
    { intros t Ht. unfold twoexpR. rewrite Rabs_left by lra. replace (- a * - t) with (a * t) by ring. reflexivity. }
    pose (F := fun t => exp (a * t) * ((a / (a ^ 2 + w ^ 2)) * cos (w * t) + (w / (a ^ 2 + w ^ 2)) * sin (w * t))).
    replace (a / (a ^ 2 + w ^ 2)) with (F 0 - 0).
    2:{ unfold F. rewrite !Rmult_0_r, exp_0, cos_0, sin_0. field. exact Hd. }
    apply (FA_gen_antideriv_left 0 _ F 0).
    + intros t. unfold F. auto_derive; [exact I|]. field. nra.
    + intros t. apply (ex_derive_continuous (fun t => exp (a * t) * cos (w * t))). auto_derive. exact I.
    + unfold F. apply (FA_lim_exp_bounded_m a _ (Rabs (a / (a ^ 2 + w ^ 2)) + Rabs (w / (a ^ 2 + w ^ 2))) Ha).
      intros t. apply FA_lincomb_bound.
  - apply (FA_gen_ext_right 0 (fun t => expuR a t * cos (w * t))).
    { intros t Ht. unfold twoexpR, expuR. destruct (Rlt_dec t 0); [lra|]. rewrite Rabs_right by lra. reflexivity. }
    pose proof (fourier_expu_re a f Ha) as H. unfold FTre in H. fold w in H.
    (* the right half of the one-sided result *)
    apply (FA_gen_ext_right 0 (fun t => exp (- a * t) * cos (w * t))).
    { intros t Ht. unfold expuR. destruct (Rlt_dec t 0); [lra | reflexivity]. }
    pose (F := fun t => exp (- a * t) * ((- a / (a ^ 2 + w ^ 2)) * cos (w * t) + (w / (a ^ 2 + w ^ 2)) * sin (w * t))).
    replace (a / (a ^ 2 + w ^ 2)) with (0 - F 0).
    2:{ unfold F. rewrite !Rmult_0_r, exp_0, cos_0, sin_0. field. exact Hd. }
    apply (FA_gen_antideriv 0 _ F 0).
    + intros t. unfold F. auto_derive; [exact I|]. field. nra.
    + intros t. apply (ex_derive_continuous (fun t => exp (- a * t) * cos (w * t))). auto_derive. exact I.
    + unfold F. apply (FA_lim_exp_bounded a _ (Rabs (- a / (a ^ 2 + w ^ 2)) + Rabs (w / (a ^ 2 + w ^ 2))) Ha).
      intros t. apply FA_lincomb_bound.
Qed.
Theorem fourier_twoexp_im a f : 0 < a -> FTim (twoexpR a) f 0.
Proof.
  intros Ha. unfold FTim. set (w := 2 * PI * f).
  assert (Hd : a ^ 2 + w ^ 2 <> 0) by nra.
  eapply (FA_gen_chasles _ 0 (w / (a ^ 2 + w ^ 2)) (- w / (a ^ 2 + w ^ 2))); [ | | field; exact Hd].
  - apply (FA_gen_ext_left 0 (fun t => - (exp (a * t) * sin (w * t)))).
    { intros t Ht. unfold twoexpR. rewrite Rabs_left by lra. replace (- a * - t) with (a * t) by ring. reflexivity. }
    pose (F := fun t => exp (a * t) * ((w / (a ^ 2 + w ^ 2)) * cos (w * t) + (- a / (a ^ 2 + w ^ 2)) * sin (w * t))).
    replace (w / (a ^ 2 + w ^ 2)) with (F 0 - 0).
    2:{ unfold F. rewrite !Rmult_0_r, exp_0, cos_0, sin_0. field. exact Hd. }
    apply (FA_gen_antideriv_left 0 _ F 0).
    + intros t. unfold F. auto_derive; [exact I|]. field. nra.
    + intros t. apply (ex_derive_continuous (fun t => - (exp (a * t) * sin (w * t)))). auto_derive. exact I.
    + unfold F. apply (FA_lim_exp_bounded_m a _ (Rabs (w / (a ^ 2 + w ^ 2)) + Rabs (- a / (a ^ 2 + w ^ 2))) Ha).
      intros t. apply FA_lincomb_bound.
  - apply (FA_gen_ext_right 0 (fun t => - (exp (- a * t) * sin (w * t)))).
    { intros t Ht. unfold twoexpR. rewrite Rabs_right by lra. reflexivity. }
    pose (F := fun t => exp (- a * t) * ((w / (a ^ 2 + w ^ 2)) * cos (w * t) + (a / (a ^ 2 + w ^ 2)) * sin (w * t))).
    replace (- w / (a ^ 2 + w ^ 2)) with (0 - F 0).
    2:{ unfold F. rewrite !Rmult_0_r, exp_0, cos_0, sin_0. field. exact Hd. }
    apply (FA_gen_antideriv 0 _ F 0).
    + intros t. unfold F. auto_derive; [exact I|]. field. nra.
    + intros t. apply (ex_derive_continuous (fun t => - (exp (- a * t) * sin (w * t)))). auto_derive. exact I.
    + unfold F. apply (FA_lim_exp_bounded a _ (Rabs (w / (a ^ 2 + w ^ 2)) + Rabs (a / (a ^ 2 + w ^ 2))) Ha).
      intros t. apply FA_lincomb_bound.
Qed.
