(* C13 — unilateral z-transform as formal power series in w = 1/z.
   x[n]  o--o  P(w)/Q(w)   is the relation  Q . X = P  between power series
   ([is_zt]); the rules of ZTransformer.term (lcapy/ztransform.py) are operations
   on (P, Q) and [zt_term_sound] proves the model of the rule cascade sound for
   every descriptor.  Axiom-free (abstract field). *)
Require Import LT.FieldSec LT.SeqFilter LT.SeqDFT.
Local Open Scope F_scope.

Section ZT.
Variable K : fld.
Add Field KFz : (fth K).
Notation fps := (fps K).
Notation conv := (@conv K). Notation lpoly := (@lpoly K). Notation sumn := (@sumn K).
Notation pw := (@pw K). Notation ofnat := (@ofnat K).

Definition is_zt (x P Q : fps) : Prop := forall n, conv Q x n = P n.
Definition theta (f : fps) : fps := fun n => ofnat n * f n.           (* w d/dw  (= -z d/dz) *)
Definition scalew (a : K) (f : fps) : fps := fun n => pw a n * f n.     (* f(a w) *)

Lemma ofnat_add n m : ofnat (n + m) = ofnat n + ofnat m.
Proof. induction m as [|m IH]; [rewrite Nat.add_0_r; unfold SeqDFT.ofnat; cbn; ring|].
  rewrite Nat.add_succ_r, !ofnat_S, IH. ring. Qed.
Lemma theta_conv f g n : theta (conv f g) n = conv (theta f) g n + conv f (theta g) n.
Proof. unfold theta, SeqFilter.conv. rewrite <- sumn_add, <- sumn_scal. apply sumn_ext. intros i Hi.
  replace n with (i + (n - i))%nat at 1 by lia. rewrite ofnat_add. ring. Qed.
Lemma scalew_conv a f g n : scalew a (conv f g) n = conv (scalew a f) (scalew a g) n.
Proof. unfold scalew, SeqFilter.conv. rewrite <- sumn_scal. apply sumn_ext. intros i Hi.
  replace n with (i + (n - i))%nat at 1 by lia. rewrite pw_add. ring. Qed.

(* rule: n x[n]  o--o  -z dX/dz :  X = P/Q  ==>  (Q thetaP - thetaQ P) / Q^2 *)
Lemma zt_rule_n x P Q : is_zt x P Q ->
  is_zt (theta x) (fsubs K (conv Q (theta P)) (conv (theta Q) P)) (conv Q Q).
Proof.
  intros E n. unfold fsubs.
  assert (E1 : conv Q (theta P) n = conv (theta Q) P n + conv (conv Q Q) (theta x) n).
  { rewrite (conv_ext K Q Q (theta P) (fadds K (conv (theta Q) x) (conv Q (theta x))) n); [|reflexivity|].
    2:{ intros i Hi. unfold theta at 1. rewrite <- E. apply theta_conv. }
    rewrite conv_add_r. f_equal.
    - rewrite <- conv_assoc.
      rewrite (conv_ext K (conv Q (theta Q)) (conv (theta Q) Q) x x n); [|intros; apply conv_comm|reflexivity].
      rewrite conv_assoc. apply conv_ext; [reflexivity|]. intros i Hi. apply E.
    - rewrite conv_assoc. reflexivity. }
  rewrite E1. ring.
Qed.
(* rule: g a^n x[n]  o--o  g X(z/a) *)
Lemma zt_rule_geo x P Q a g : is_zt x P Q ->
  is_zt (fun n => g * pw a n * x n) (fscal K g (scalew a P)) (scalew a Q).
Proof.
  intros E n. unfold fscal.
  rewrite (conv_ext K (scalew a Q) (scalew a Q) _ (fscal K g (scalew a x)) n); [|reflexivity|].
  2:{ intros i Hi. unfold fscal, scalew. ring. }
  rewrite conv_comm, conv_scal_l, conv_comm. rewrite <- scalew_conv. unfold scalew. rewrite E. reflexivity.
Qed.
(* rule: u[n-d] x[n]  o--o  X - sum_{i<d} x[i] w^i *)
Definition trunc (d : nat) (x : fps) : fps := fun n => if (n <? d)%nat then x n else 0.
Lemma zt_rule_step x P Q d : is_zt x P Q ->
  is_zt (fun n => (if (d <=? n)%nat then 1 else 0) * x n) (fsubs K P (conv Q (trunc d x))) Q.
Proof.
  intros E n. unfold fsubs. rewrite <- E, <- conv_sub_r. apply conv_ext; [reflexivity|].
  intros i Hi. unfold fsubs, trunc. destruct (Nat.leb_spec d i), (Nat.ltb_spec i d); try lia; ring.
Qed.
(* linearity and delay *)
Lemma zt_rule_scal x P Q c : is_zt x P Q -> is_zt (fscal K c x) (fscal K c P) Q.
Proof. intros E n. rewrite conv_comm, conv_scal_l, conv_comm, E. reflexivity. Qed.

(* ------------------------------------------------- polynomials as lists *)
Definition pmul (p q : list K) : list K := convolve_ref p q.
Definition ptheta (p : list K) : list K := map (fun i => ofnat i * nth i p 0) (seq 0 (length p)).
Definition pscalew (a : K) (p : list K) : list K := map (fun i => pw a i * nth i p 0) (seq 0 (length p)).
Definition pscal (c : K) (p : list K) : list K := map (fun v => c * v) p.
Definition psub (p q : list K) : list K :=
  map (fun i => nth i p 0 - nth i q 0) (seq 0 (Nat.max (length p) (length q))).
Definition pshift (d : nat) : list K := zeros d ++ [1].                   (* w^d *)

Lemma nth_map_seq (f : nat -> K) len i : (forall j, (len <= j)%nat -> f j = 0) -> nth i (map f (seq 0 len)) 0 = f i.
Proof. intros Hz. destruct (Nat.lt_ge_cases i len) as [H|H].
  - rewrite nth_indep with (d' := f O) by (rewrite map_length, seq_length; exact H).
    rewrite map_nth, seq_nth by exact H. reflexivity.
  - rewrite nth_overflow by (rewrite map_length, seq_length; exact H). symmetry. apply Hz. exact H. Qed.
Lemma nth_map_seq_trunc (f : nat -> K) d i : nth i (map f (seq 0 d)) 0 = if (i <? d)%nat then f i else 0.
Proof. destruct (Nat.ltb_spec i d) as [H|H].
  - rewrite nth_indep with (d' := f O) by (rewrite map_length, seq_length; exact H).
    rewrite map_nth, seq_nth by exact H. reflexivity.
  - apply nth_overflow. rewrite map_length, seq_length. exact H. Qed.
Lemma lpoly_pmul p q n : lpoly (pmul p q) n = conv (lpoly p) (lpoly q) n.
Proof. unfold SeqFilter.lpoly at 1, pmul, convolve_ref. apply nth_map_seq.
  intros j Hj. unfold SeqFilter.conv. apply sumn_zero. intros i Hi. unfold SeqFilter.lpoly.
  destruct (Nat.lt_ge_cases i (length p)) as [H|H].
  - rewrite (nth_overflow q) by lia. ring.
  - rewrite (nth_overflow p) by lia. ring. Qed.
Lemma lpoly_ptheta p n : lpoly (ptheta p) n = theta (lpoly p) n.
Proof. unfold SeqFilter.lpoly at 1, ptheta, theta. apply nth_map_seq. intros j Hj.
  unfold SeqFilter.lpoly. rewrite nth_overflow by exact Hj. ring. Qed.
Lemma lpoly_pscalew a p n : lpoly (pscalew a p) n = scalew a (lpoly p) n.
Proof. unfold SeqFilter.lpoly at 1, pscalew, scalew. apply nth_map_seq. intros j Hj.
  unfold SeqFilter.lpoly. rewrite nth_overflow by exact Hj. ring. Qed.
Lemma lpoly_pscal c p n : lpoly (pscal c p) n = c * lpoly p n.
Proof. unfold SeqFilter.lpoly, pscal. destruct (Nat.lt_ge_cases n (length p)) as [H|H].
  - rewrite nth_indep with (d' := c * 0) by (rewrite map_length; exact H). rewrite (map_nth (fun v => c * v)). reflexivity.
  - rewrite !nth_overflow by (try rewrite map_length; exact H). ring. Qed.
Lemma lpoly_psub p q n : lpoly (psub p q) n = lpoly p n - lpoly q n.
Proof. unfold SeqFilter.lpoly, psub. apply (nth_map_seq (fun i => nth i p 0 - nth i q 0)). intros j Hj.
  rewrite !nth_overflow by lia. ring. Qed.
Lemma lpoly_pshift d n : lpoly (pshift d) n = if Nat.eq_dec n d then 1 else 0.
Proof. unfold SeqFilter.lpoly, pshift, zeros. destruct (Nat.eq_dec n d) as [->|Hne].
  - rewrite app_nth2 by (rewrite repeat_length; lia). rewrite repeat_length, Nat.sub_diag. reflexivity.
  - destruct (Nat.lt_ge_cases n d) as [H|H].
    + rewrite app_nth1 by (rewrite repeat_length; exact H). apply nth_repeat.
    + rewrite app_nth2 by (rewrite repeat_length; lia). rewrite repeat_length.
      destruct (n - d)%nat as [|[|m]] eqn:E; [lia|reflexivity|reflexivity]. Qed.
Lemma conv_cons c l (x : fps) n :
  conv (lpoly (c :: l)) x n = c * x n + match n with O => 0 | S m => conv (lpoly l) x m end.
Proof. unfold SeqFilter.conv. rewrite sumn_S_l. unfold SeqFilter.lpoly at 1. cbn [nth]. rewrite Nat.sub_0_r.
  f_equal. destruct n as [|m]; [reflexivity|]. apply sumn_ext. intros i Hi. reflexivity. Qed.
Lemma conv_nil (x : fps) n : conv (lpoly []) x n = 0.
Proof. unfold SeqFilter.conv. apply sumn_zero. intros i Hi. unfold SeqFilter.lpoly. destruct i; cbn; ring. Qed.

Lemma evalw_pshift d w : evalw (pshift d) w = pw w d.
Proof. unfold pshift. rewrite evalw_app, evalw_zeros. unfold zeros. rewrite repeat_length.
  unfold SeqFilter.evalw. cbn [fold_right]. ring. Qed.
(* -------------------------------------- signals handled by the cascade *)
(* sinusoids over an abstract field: (cos b, sin b) = (cb, sb) on the unit
   circle, phase (cc, sc);  trig n = (cos(b n + c), sin(b n + c)) by the
   angle-addition recurrence *)
Fixpoint trig (cb sb cc sc : K) (n : nat) : K * K :=
  match n with
  | O => (cc, sc)
  | S m => let cs := trig cb sb cc sc m in (fst cs * cb - snd cs * sb, snd cs * cb + fst cs * sb)
  end.
Inductive base := BOne | BImp (d : nat) | BSin (cb sb cc sc : K) | BCos (cb sb cc sc : K).
Definition base_wf (b : base) : Prop :=
  match b with BSin cb sb _ _ | BCos cb sb _ _ => cb * cb + sb * sb = 1 | _ => True end.
Definition sem_base (b : base) : fps :=
  match b with
  | BOne => fun _ => 1
  | BImp d => fun n => if Nat.eq_dec n d then 1 else 0
  | BSin cb sb cc sc => fun n => snd (trig cb sb cc sc n)
  | BCos cb sb cc sc => fun n => fst (trig cb sb cc sc n)
  end.
Fixpoint sem_steps (steps : list nat) (b : base) : fps :=
  match steps with
  | [] => sem_base b
  | d :: rest => fun n => (if (d <=? n)%nat then 1 else 0) * sem_steps rest b n
  end.
Fixpoint sem_geos (geos : list (K * K)) (steps : list nat) (b : base) : fps :=
  match geos with
  | [] => sem_steps steps b
  | rg :: rest => fun n => snd rg * pw (fst rg) n * sem_geos rest steps b n     (* g r^n *)
  end.
Fixpoint sem_np (p : nat) (geos : list (K * K)) (steps : list nat) (b : base) : fps :=
  match p with
  | O => sem_geos geos steps b
  | S p' => theta (sem_np p' geos steps b)
  end.

(* ---------------- model (H) of the dispatch in ZTransformer.term ---------- *)
Definition PQ := (list K * list K)%type.
Definition one_minus_w : list K := [1; - (1)].
Definition zt_base (b : base) : PQ :=
  match b with
  | BOne => ([1], one_minus_w)                                                 (* 1 / (1 - invz) *)
  | BImp d => (pshift d, [1])                                                  (* invz ** delay *)
  | BSin cb sb cc sc => ([sc; sb * cc - cb * sc], [1; - (cb + cb); 1])         (* (sin c + sin(b-c) invz) / (1 - 2 cos b invz + invz^2) *)
  | BCos cb sb cc sc => ([cc; - (cb * cc + sb * sc)], [1; - (cb + cb); 1])     (* (cos c - cos(b-c) invz) / ... *)
  end.
Fixpoint zt_steps (steps : list nat) (b : base) : PQ :=
  match steps, b with
  | [], _ => zt_base b
  | [d], BOne => (pshift d, one_minus_w)                                       (* invz ** delay / (1 - invz) *)
  | d :: rest, _ =>
      let X := zt_steps rest b in                                              (* X + sum_X *)
      (psub (fst X) (pmul (snd X) (map (sem_steps rest b) (seq 0 d))), snd X)
  end.
Fixpoint zt_geos (geos : list (K * K)) (steps : list nat) (b : base) : PQ :=
  match geos with
  | [] => zt_steps steps b
  | rg :: rest => let X := zt_geos rest steps b in                             (* lam**cc * X(z / lam**bb) *)
      (pscal (snd rg) (pscalew (fst rg) (fst X)), pscalew (fst rg) (snd X))
  end.
Fixpoint zt_np (p : nat) (geos : list (K * K)) (steps : list nat) (b : base) : PQ :=
  match p with
  | O => zt_geos geos steps b
  | S p' => let X := zt_np p' geos steps b in                                  (* -z dX/dz *)
      (psub (pmul (snd X) (ptheta (fst X))) (pmul (ptheta (snd X)) (fst X)), pmul (snd X) (snd X))
  end.
Definition is_ztl (x : fps) (X : PQ) : Prop := is_zt x (lpoly (fst X)) (lpoly (snd X)).

Lemma trig_rec cb sb cc sc n : cb * cb + sb * sb = 1 ->
  let t := trig cb sb cc sc in
  fst (t (S (S n))) = (cb + cb) * fst (t (S n)) - fst (t n) /\
  snd (t (S (S n))) = (cb + cb) * snd (t (S n)) - snd (t n).
Proof. intros H t. unfold t. cbn [trig fst snd].
  set (c := fst (trig cb sb cc sc n)). set (s := snd (trig cb sb cc sc n)).
  split.
  - transitivity ((cb + cb) * (c * cb - s * sb) - c * (cb * cb + sb * sb)); [ring|rewrite H; ring].
  - transitivity ((cb + cb) * (s * cb + c * sb) - s * (cb * cb + sb * sb)); [ring|rewrite H; ring]. Qed.

Ltac conv_poly := repeat (rewrite conv_cons || rewrite conv_nil || cbv iota beta).
Lemma zt_base_sound b : base_wf b -> is_ztl (sem_base b) (zt_base b).
Proof.
  destruct b as [|d|cb sb cc sc|cb sb cc sc]; intros Hwf n; cbn [zt_base fst snd sem_base] in *.
  - unfold one_minus_w, SeqFilter.lpoly at 2. destruct n as [|[|m]]; conv_poly; cbn [nth]; try ring.
    all: try (destruct m; cbv iota; rewrite ?conv_nil; ring).
  - rewrite lpoly_pshift. destruct n; conv_poly; ring.
  - unfold SeqFilter.lpoly at 2. destruct n as [|[|m]]; conv_poly; cbn [nth trig fst snd]; try ring.
    destruct (trig_rec cb sb cc sc m Hwf) as [_ E]. cbv zeta in E. cbn [trig fst snd] in E. rewrite E.
    all: try (destruct m; cbv iota; rewrite ?conv_nil; ring).
  - unfold SeqFilter.lpoly at 2. destruct n as [|[|m]]; conv_poly; cbn [nth trig fst snd]; try ring.
    destruct (trig_rec cb sb cc sc m Hwf) as [E _]. cbv zeta in E. cbn [trig fst snd] in E. rewrite E.
    all: try (destruct m; cbv iota; rewrite ?conv_nil; ring).
Qed.
Lemma is_ztl_ext x x' X : (forall n, x n = x' n) -> is_ztl x X -> is_ztl x' X.
Proof. intros Hx E n. rewrite <- E. apply conv_ext; [reflexivity|]. intros; symmetry; apply Hx. Qed.

Lemma zt_steps_peel d rest b : is_ztl (sem_steps rest b) (zt_steps rest b) ->
  is_ztl (sem_steps (d :: rest) b)
         (psub (fst (zt_steps rest b)) (pmul (snd (zt_steps rest b)) (map (sem_steps rest b) (seq 0 d))), snd (zt_steps rest b)).
Proof.
  intros IH n. cbn [fst snd sem_steps]. rewrite lpoly_psub, lpoly_pmul.
  rewrite (zt_rule_step _ _ _ d IH n). unfold fsubs. f_equal.
  apply conv_ext; [reflexivity|]. intros i Hi. unfold trunc, SeqFilter.lpoly.
  rewrite nth_map_seq_trunc. reflexivity.
Qed.
Lemma zt_steps_sound steps b : base_wf b -> is_ztl (sem_steps steps b) (zt_steps steps b).
Proof.
  intros Hwf. induction steps as [|d rest IH]; [apply zt_base_sound; exact Hwf|].
  destruct rest as [|d2 rest'].
  - destruct b; try (apply zt_steps_peel; exact IH).
    (* a single delayed step:  invz^d / (1 - invz) *)
    intros n. cbn [zt_steps fst snd sem_steps sem_base]. unfold one_minus_w. rewrite lpoly_pshift.
    destruct n as [|m]; conv_poly.
    + destruct (Nat.leb_spec d 0), (Nat.eq_dec 0 d); try lia; ring.
    + destruct (Nat.leb_spec d (S m)), (Nat.leb_spec d m), (Nat.eq_dec (S m) d); try lia; destruct m; conv_poly; ring.
  - change (zt_steps (d :: d2 :: rest') b) with
      (psub (fst (zt_steps (d2 :: rest') b)) (pmul (snd (zt_steps (d2 :: rest') b)) (map (sem_steps (d2 :: rest') b) (seq 0 d))),
       snd (zt_steps (d2 :: rest') b)).
    apply zt_steps_peel. exact IH.
Qed.
Lemma zt_geos_sound geos steps b : base_wf b -> is_ztl (sem_geos geos steps b) (zt_geos geos steps b).
Proof.
  intros Hwf. induction geos as [|[r g] rest IH]; [apply zt_steps_sound; exact Hwf|].
  intros n. cbn [zt_geos fst snd sem_geos].
  pose proof (zt_rule_geo _ _ _ r g IH n) as E.
  rewrite (conv_ext K _ (scalew r (lpoly (snd (zt_geos rest steps b)))) _ (fun n => g * pw r n * sem_geos rest steps b n) n);
    [| intros; apply lpoly_pscalew | reflexivity].
  rewrite E. unfold fscal. rewrite lpoly_pscal, lpoly_pscalew. reflexivity.
Qed.
Lemma zt_np_sound p geos steps b : base_wf b -> is_ztl (sem_np p geos steps b) (zt_np p geos steps b).
Proof.
  intros Hwf. induction p as [|p IH]; [apply zt_geos_sound; exact Hwf|].
  intros n. cbn [zt_np fst snd sem_np].
  pose proof (zt_rule_n _ _ _ IH n) as E.
  rewrite (conv_ext K _ (conv (lpoly (snd (zt_np p geos steps b))) (lpoly (snd (zt_np p geos steps b)))) _ (theta (sem_np p geos steps b)) n);
    [| intros; apply lpoly_pmul | reflexivity].
  rewrite E. unfold fsubs. rewrite lpoly_psub, !lpoly_pmul. f_equal.
  - apply conv_ext; [reflexivity|]. intros; symmetry; apply lpoly_ptheta.
  - apply conv_ext; [|reflexivity]. intros; symmetry; apply lpoly_ptheta.
Qed.

(* the denominators have constant term 1: P/Q determines the sequence uniquely *)
Lemma lpoly0_pmul p q : lpoly (pmul p q) O = lpoly p O * lpoly q O.
Proof. rewrite lpoly_pmul. unfold SeqFilter.conv. cbn [SeqFilter.sumn Nat.sub]. ring. Qed.
Lemma zt_np_Q0 p geos steps b : lpoly (snd (zt_np p geos steps b)) O = 1.
Proof.
  induction p as [|p IH]; cbn [zt_np snd].
  - induction geos as [|[r g] rest IHg]; cbn [zt_geos snd].
    + induction steps as [|d rest IHs]; [destruct b; reflexivity|].
      destruct rest as [|d2 rest']; [destruct b; try exact IHs; reflexivity|]. exact IHs.
    + rewrite lpoly_pscalew. unfold scalew. rewrite IHg. cbn. ring.
  - rewrite lpoly0_pmul, IH. ring.
Qed.

(* zt_term_sound: for every descriptor (coefficient c, n^p, geometric factors
   g r^n, steps u[n-d], base 1 | delta[n-d] | sin(bn+c) | cos(bn+c)) the pair
   (P, Q) the model of ZTransformer.term returns satisfies  Q . X = c P  as
   power series in w = 1/z, where X = sum_n x[n] w^n is the defining sum *)
Definition zt_term (c : K) (p : nat) (geos : list (K * K)) (steps : list nat) (b : base) : PQ :=
  let X := zt_np p geos steps b in (pscal c (fst X), snd X).
Definition sem_term (c : K) (p : nat) (geos : list (K * K)) (steps : list nat) (b : base) : fps :=
  fun n => c * sem_np p geos steps b n.
Theorem zt_term_sound c p geos steps b : base_wf b ->
  is_ztl (sem_term c p geos steps b) (zt_term c p geos steps b)
  /\ lpoly (snd (zt_term c p geos steps b)) O = 1.
Proof.
  intros Hwf. split; [|apply zt_np_Q0].
  intros n. unfold zt_term, sem_term. cbn [fst snd]. rewrite lpoly_pscal.
  rewrite <- (zt_np_sound p geos steps b Hwf n).
  change (fun n0 => c * sem_np p geos steps b n0) with (fscal K c (sem_np p geos steps b)).
  rewrite conv_comm, conv_scal_l, conv_comm. reflexivity.
Qed.
(* uniqueness: two sequences with the same transform pair coincide *)
Theorem zt_unique (x y : fps) (X : PQ) : lpoly (snd X) O <> 0 -> is_ztl x X -> is_ztl y X -> forall n, x n = y n.
Proof. intros HQ Ex Ey n. apply (conv_cancel_upto K (lpoly (snd X)) x y (S n) HQ); [|lia].
  intros m Hm. rewrite Ex, Ey. reflexivity. Qed.

(* sums of terms: (P1/Q1) + (P2/Q2) *)
Definition padd (p q : list K) : list K :=
  map (fun i => nth i p 0 + nth i q 0) (seq 0 (Nat.max (length p) (length q))).
Lemma lpoly_padd p q n : lpoly (padd p q) n = lpoly p n + lpoly q n.
Proof. unfold SeqFilter.lpoly, padd. apply (nth_map_seq (fun i => nth i p 0 + nth i q 0)). intros j Hj.
  rewrite !nth_overflow by lia. ring. Qed.
Definition pq_add (X Y : PQ) : PQ := (padd (pmul (fst X) (snd Y)) (pmul (fst Y) (snd X)), pmul (snd X) (snd Y)).
Theorem zt_add_sound x y X Y : is_ztl x X -> is_ztl y Y -> is_ztl (fadds K x y) (pq_add X Y).
Proof.
  intros Ex Ey n. unfold pq_add. cbn [fst snd]. rewrite lpoly_padd, !lpoly_pmul.
  rewrite (conv_ext K _ (conv (lpoly (snd X)) (lpoly (snd Y))) _ (fadds K x y) n); [|intros; apply lpoly_pmul|reflexivity].
  rewrite conv_add_r. f_equal.
  - rewrite (conv_ext K _ (conv (lpoly (snd Y)) (lpoly (snd X))) x x n); [|intros; apply conv_comm|reflexivity].
    rewrite conv_assoc. rewrite (conv_comm K (lpoly (fst X))). apply conv_ext; [reflexivity|]. intros; apply Ex.
  - rewrite conv_assoc. rewrite (conv_comm K (lpoly (fst Y))). apply conv_ext; [reflexivity|]. intros; apply Ey.
Qed.

(* finite literal sequence starting at index 0: X(z) = sum vals[i] z^-i *)
Theorem zt_literal (vals : list K) : is_ztl (lpoly vals) (vals, [1]).
Proof. intros n. cbn [fst snd]. destruct n; conv_poly; ring. Qed.
(* delay by d: multiply by w^d *)
Theorem zt_delay x X d : is_ztl x X ->
  is_ztl (fun n => if (n <? d)%nat then 0 else x (n - d)%nat) (pmul (pshift d) (fst X), snd X).
Proof.
  intros E n. cbn [fst snd]. rewrite lpoly_pmul.
  rewrite (conv_ext K (lpoly (snd X)) (lpoly (snd X)) (fun n0 => if (n0 <? d)%nat then 0 else x (n0 - d)%nat) (conv (lpoly (pshift d)) x) n);
    [|reflexivity|].
  2:{ intros i Hi. unfold SeqFilter.conv.
      destruct (Nat.ltb_spec i d) as [H|H].
      - symmetry. apply sumn_zero. intros j Hj. rewrite lpoly_pshift. destruct (Nat.eq_dec j d); [lia|ring].
      - rewrite (sumn_single K (S i) _ d); [| lia | intros j Hj Hne; rewrite lpoly_pshift; destruct (Nat.eq_dec j d); [contradiction|ring]].
        rewrite lpoly_pshift. destruct (Nat.eq_dec d d); [ring|congruence]. }
  rewrite <- conv_assoc.
  rewrite (conv_ext K _ (conv (lpoly (pshift d)) (lpoly (snd X))) x x n); [|intros; apply conv_comm|reflexivity].
  rewrite conv_assoc. apply conv_ext; [reflexivity|]. intros; apply E.
Qed.

(* ---- repeated poles (InverseZTransformer.ratfun):
        z / (z - p)^(m+1) = w^m / (1 - p w)^(m+1)   o--o   C(n, m) p^(n-m)   *)
Fixpoint binom (n m : nat) : nat :=
  match n, m with
  | _, O => 1
  | O, S _ => 0
  | S n', S m' => binom n' m' + binom n' (S m')
  end.
Lemma binom_0 n : binom n 0 = 1%nat.
Proof. destruct n; reflexivity. Qed.
Lemma binom_small n m : (n < m)%nat -> binom n m = 0%nat.
Proof. revert m. induction n as [|n IH]; intros [|m] H; cbn; try lia. rewrite !IH by lia. reflexivity. Qed.
Definition gbin (p : K) (m : nat) : fps := fun n => ofnat (binom n m) * pw p (n - m).
Definition shift1 (f : fps) : fps := fun n => match n with O => 0 | S k => f k end.
Fixpoint ppow (q : list K) (k : nat) : list K := match k with O => [1] | S k' => pmul (ppow q k') q end.

Lemma conv_shift1 f g n : conv f (shift1 g) n = shift1 (conv f g) n.
Proof. destruct n as [|k]; unfold SeqFilter.conv.
  - cbn [SeqFilter.sumn shift1 Nat.sub]. ring.
  - rewrite (sumn_S K (S k)). replace (S k - S k)%nat with O by lia. cbn [shift1].
    rewrite (sumn_ext K (S k) _ (fun i => f i * g (k - i)%nat)).
    + ring.
    + intros i Hi. replace (S k - i)%nat with (S (k - i)) by lia. reflexivity. Qed.
Lemma pascal_fps p m n : conv (lpoly [1; - p]) (gbin p (S m)) n = shift1 (gbin p m) n.
Proof.
  destruct n as [|k]; conv_poly; unfold gbin; cbn [shift1 binom].
  - unfold SeqDFT.ofnat. cbn. ring.
  - rewrite ofnat_add. replace (S k - S m)%nat with (k - m)%nat by lia.
    destruct (Nat.lt_ge_cases k (S m)) as [H|H].
    + rewrite (binom_small k (S m) H). unfold SeqDFT.ofnat at 2 3. cbn [SeqFilter.sumn]. destruct k; conv_poly; ring.
    + replace (k - m)%nat with (S (k - S m)) by lia. cbn [SeqFilter.pw]. destruct k; conv_poly; ring.
Qed.
Lemma shift1_pshift d n : shift1 (lpoly (pshift d)) n = lpoly (pshift (S d)) n.
Proof. destruct n as [|k]; cbn [shift1]; rewrite !lpoly_pshift.
  - destruct (Nat.eq_dec 0 (S d)); [lia|reflexivity].
  - destruct (Nat.eq_dec k d), (Nat.eq_dec (S k) (S d)); try lia; reflexivity. Qed.
Lemma conv_pmul p q (x : fps) n : conv (lpoly (pmul p q)) x n = conv (lpoly p) (conv (lpoly q) x) n.
Proof. rewrite <- conv_assoc. apply conv_ext; [|reflexivity]. intros; apply lpoly_pmul. Qed.
Lemma conv_lpoly1 (x : fps) n : conv (lpoly [1]) x n = x n.
Proof. destruct n; conv_poly; ring. Qed.
Theorem zt_binom p m : is_ztl (gbin p m) (pshift m, ppow [1; - p] (S m)).
Proof.
  induction m as [|m IH]; intros n; cbn [fst snd].
  - cbn [ppow]. rewrite conv_pmul, conv_lpoly1. rewrite lpoly_pshift.
    destruct n as [|k]; conv_poly; unfold gbin; rewrite ?binom_0.
    + destruct (Nat.eq_dec 0 0); [|congruence]. unfold SeqDFT.ofnat. cbn [SeqFilter.sumn SeqFilter.pw Nat.sub]. ring.
    + destruct (Nat.eq_dec (S k) 0); [lia|]. rewrite !Nat.sub_0_r. unfold SeqDFT.ofnat. cbn [SeqFilter.sumn SeqFilter.pw].
      destruct k; conv_poly; ring.
  - change (ppow [1; - p] (S (S m))) with (pmul (ppow [1; - p] (S m)) [1; - p]).
    rewrite conv_pmul.
    rewrite (conv_ext K _ (lpoly (ppow [1; - p] (S m))) _ (shift1 (gbin p m)) n); [|reflexivity|intros; apply pascal_fps].
    rewrite conv_shift1. rewrite <- shift1_pshift. destruct n as [|k]; [reflexivity|]. cbn [shift1]. apply IH.
Qed.

(* ---- what InverseZTransformer.ratfun evaluates for a pole p of order o:
        sum_i r_i * bino_i * p^(1-i) / (i-1)! * p^n ,  bino_i = n (n-1) ... (n-i+2)
   (real poles: `sum_p`; conjugate pairs: `prefac * r1 * exp(j omega_0 (1-i))` with
   p = lam exp(j omega_0)).  bino_i / (i-1)! is the binomial coefficient. ------- *)
Fixpoint ffact (n m : nat) : nat :=            (* n (n-1) ... (n-m+1) *)
  match m with O => 1 | S m' => ffact n m' * (n - m') end.
Lemma ffact_S n m : ffact (S n) (S m) = (S n * ffact n m)%nat.
Proof. induction m as [|m IH]; [cbn; lia|].
  change (ffact (S n) (S (S m))) with (ffact (S n) (S m) * (S n - S m))%nat. rewrite IH.
  change (ffact n (S m)) with (ffact n m * (n - m))%nat. cbn [Nat.sub]. lia. Qed.
Lemma ffact_binom n m : ffact n m = (fact m * binom n m)%nat.
Proof. revert m. induction n as [|n IH]; intros [|m].
  - reflexivity.
  - cbn [ffact binom]. rewrite Nat.sub_0_l. lia.
  - cbn. reflexivity.
  - rewrite ffact_S. cbn [binom]. rewrite Nat.mul_add_distr_l.
    change (fact (S m)) with (S m * fact m)%nat.
    replace (S m * fact m * binom n m)%nat with (S m * ffact n m)%nat by (rewrite (IH m); lia).
    replace (S m * fact m * binom n (S m))%nat with (ffact n (S m)) by (rewrite (IH (S m)); reflexivity).
    change (ffact n (S m)) with (ffact n m * (n - m))%nat.
    destruct (Nat.lt_ge_cases n m) as [H|H].
    + rewrite (IH m), (binom_small n m H). lia.
    + nia. Qed.
Lemma ofnat_mul a b : ofnat (a * b) = ofnat a * ofnat b.
Proof. induction a as [|a IH]; [unfold SeqDFT.ofnat; cbn; ring|].
  cbn [Nat.mul]. rewrite ofnat_add, IH, ofnat_S. ring. Qed.
Lemma fact_nz m : ofnat (fact m) <> 0.
Proof. apply ofnat_nz. apply lt_O_fact. Qed.
(* the prefactor of the code times p^n is the binomial sequence of zt_binom *)
Theorem prefac_binom (p : K) (n m : nat) : p <> 0 ->
  ofnat (ffact n m) * zpw p (- Z.of_nat m) / ofnat (fact m) * pw p n = gbin p m n.
Proof.
  intros Hp. unfold gbin. rewrite ffact_binom, ofnat_mul.
  pose proof (fact_nz m) as Hf.
  destruct (Nat.lt_ge_cases n m) as [H|H].
  - rewrite (binom_small n m H). unfold SeqDFT.ofnat at 2 4. cbn [SeqFilter.sumn]. field. exact Hf.
  - unfold zpw. destruct (Z.ltb_spec (- Z.of_nat m) 0) as [Hm|Hm].
    + replace (Z.to_nat (- - Z.of_nat m)) with m by lia.
      assert (E : pw p n = pw p m * pw p (n - m)) by (rewrite <- pw_add; f_equal; lia). rewrite E.
      transitivity (ofnat (binom n m) * (pw p m * pw (1 / p) m) * pw p (n - m)); [field; exact Hf|].
      rewrite pw_inv by exact Hp. ring.
    + assert (m = O) by lia. subst m. cbn [Z.of_nat Z.opp Z.to_nat SeqFilter.pw]. rewrite Nat.sub_0_r. field. exact Hf.
Qed.
(* a pole pair (or any two poles) of order m+1 with residues r1, r2 *)
Theorem zt_pair_binom (r1 r2 p1 p2 : K) (m : nat) :
  is_ztl (fun n => r1 * gbin p1 m n + r2 * gbin p2 m n)
         (pq_add (pscal r1 (pshift m), ppow [1; - p1] (S m)) (pscal r2 (pshift m), ppow [1; - p2] (S m))).
Proof.
  apply (zt_add_sound (fscal K r1 (gbin p1 m)) (fscal K r2 (gbin p2 m))).
  - intros n. cbn [fst snd]. rewrite lpoly_pscal. pose proof (zt_binom p1 m n) as E. cbn [fst snd] in E. rewrite <- E.
    rewrite conv_comm, conv_scal_l, conv_comm. reflexivity.
  - intros n. cbn [fst snd]. rewrite lpoly_pscal. pose proof (zt_binom p2 m n) as E. cbn [fst snd] in E. rewrite <- E.
    rewrite conv_comm, conv_scal_l, conv_comm. reflexivity.
Qed.
End ZT.
Arguments zt_term {K}. Arguments sem_term {K}. Arguments zt_np {K}. Arguments sem_np {K}.
Arguments BOne {K}. Arguments BImp {K}. Arguments BSin {K}. Arguments BCos {K}.
Arguments pq_add {K}. Arguments pmul {K}. Arguments padd {K}. Arguments psub {K}. Arguments pscal {K}.
Arguments pshift {K}. Arguments trig {K}. Arguments is_ztl {K}. Arguments is_zt {K}. Arguments theta {K}. Arguments scalew {K}.
Arguments gbin {K}. Arguments ppow {K}.
