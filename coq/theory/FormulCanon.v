(* C15, canonical state-space realisations of a transfer function.
   - finite sums over nat-indexed sequences, powers, the polynomial denoted by a
     coefficient list written highest power first (the convention of
     lcapy.sexpr.tf / StateSpace.from_transfer_function_coeffs);
   - "matrix programs": what a sequence of Python assignments
         M[i, j] = v        and      for n in range(R): M[f(n), g(n)] = v(n)
     (f, g of the shapes n + c / constant) leaves in entry (i, j) of a matrix
     created by Matrix.zeros / Matrix.ones - last write wins; the closed forms
     used by the generated definitions are proved equal to the generic loop
     semantics;
   - the state-space relation  s x = A x + B u,  y = C x + D u  for a single
     input / single output realisation, WITHOUT any matrix inverse;
   - the algebraic cores of the three canonical forms: for ANY state vector x
     that satisfies the state equations, a(s) y = b(s) u, for every order N.
   Everything is over an arbitrary characteristic-0 field and axiom-free.  The
   variable called s is any field element: it is the Laplace variable for
   StateSpace and the z-transform variable for DTStateSpace (x[n+1] = A x[n] +
   B u[n]  <->  z X = A X + B U). *)
Require Import LT.FieldSec.
From Coq Require Import Arith.
Local Open Scope F_scope.

Section Canon.
Variable K : fld.
Add Field KFcanon : (fth K).

(* ---- sums, powers, polynomials ------------------------------------------ *)
Fixpoint sumn (n : nat) (f : nat -> K) : K :=
  match n with O => 0 | S m => sumn m f + f m end.
Fixpoint fpow (s : K) (n : nat) : K :=
  match n with O => 1 | S m => s * fpow s m end.
Definition nthK (l : list K) (k : nat) : K := nth k l 0.
(* coefficient list, highest power first, degree N: l[0] s^N + ... + l[N] *)
Definition pe (l : list K) (N : nat) (s : K) : K :=
  sumn (S N) (fun n => nthK l (N - n) * fpow s n).
Definition horner (l : list K) (s : K) : K := fold_left (fun acc c => acc * s + c) l 0.

Lemma sumn_ext n f g : (forall k, (k < n)%nat -> f k = g k) -> sumn n f = sumn n g.
Proof. induction n as [|n IH]; intros H; cbn [sumn]; [reflexivity|].
  rewrite IH by (intros k Hk; apply H; lia). rewrite (H n) by lia. reflexivity. Qed.
Lemma sumn_add n f g : sumn n (fun k => f k + g k) = sumn n f + sumn n g.
Proof. induction n as [|n IH]; cbn [sumn]; [ring | rewrite IH; ring]. Qed.
Lemma sumn_sub n f g : sumn n (fun k => f k - g k) = sumn n f - sumn n g.
Proof. induction n as [|n IH]; cbn [sumn]; [ring | rewrite IH; ring]. Qed.
Lemma sumn_scale n c f : sumn n (fun k => c * f k) = c * sumn n f.
Proof. induction n as [|n IH]; cbn [sumn]; [ring | rewrite IH; ring]. Qed.
Lemma sumn_scale_r n c f : sumn n (fun k => f k * c) = sumn n f * c.
Proof. induction n as [|n IH]; cbn [sumn]; [ring | rewrite IH; ring]. Qed.
Lemma sumn_opp n f : sumn n (fun k => - f k) = - sumn n f.
Proof. induction n as [|n IH]; cbn [sumn]; [ring | rewrite IH; ring]. Qed.
Lemma sumn_zero n f : (forall k, (k < n)%nat -> f k = 0) -> sumn n f = 0.
Proof. induction n as [|n IH]; intros H; cbn [sumn]; [reflexivity|].
  rewrite IH by (intros k Hk; apply H; lia). rewrite (H n) by lia. ring. Qed.
(* a sum whose only non-zero term sits at index k0 *)
Lemma sumn_single n f k0 : (k0 < n)%nat -> (forall k, (k < n)%nat -> k <> k0 -> f k = 0) -> sumn n f = f k0.
Proof.
  induction n as [|n IH]; intros Hk H; [lia|]. cbn [sumn].
  destruct (Nat.eq_dec k0 n) as [->|Hne].
  - rewrite sumn_zero by (intros k Hk'; apply H; lia). ring.
  - rewrite IH by (try lia; intros k Hk' Hn; apply H; lia). rewrite (H n) by lia. ring.
Qed.
(* peel the first term *)
Lemma sumn_first n f : sumn (S n) f = f O + sumn n (fun k => f (S k)).
Proof. induction n as [|n IH]; [cbn [sumn]; ring|].
  change (sumn (S (S n)) f) with (sumn (S n) f + f (S n)). rewrite IH. cbn [sumn]. ring. Qed.
Lemma fpow_S s n : fpow s (S n) = s * fpow s n. Proof. reflexivity. Qed.
Lemma fpow_add s n m : fpow s (n + m) = fpow s n * fpow s m.
Proof. induction n as [|n IH]; cbn [fpow Nat.add]; [ring | rewrite IH; ring]. Qed.

Lemma nthK_app_l l1 l2 k : (k < length l1)%nat -> nthK (l1 ++ l2) k = nthK l1 k.
Proof. intros H. unfold nthK. apply app_nth1. exact H. Qed.
Lemma nthK_app_r l1 l2 k : (length l1 <= k)%nat -> nthK (l1 ++ l2) k = nthK l2 (k - length l1).
Proof. intros H. unfold nthK. apply app_nth2. lia. Qed.
Lemma nthK_over l k : (length l <= k)%nat -> nthK l k = 0.
Proof. intros H. unfold nthK. apply nth_overflow. exact H. Qed.
Lemma nthK_map (g : K -> K) l k : g 0 = 0 -> nthK (map g l) k = g (nthK l k).
Proof. intros H0. unfold nthK. rewrite <- H0 at 1. apply map_nth. Qed.

(* the index convention agrees with the usual Horner evaluation *)
Lemma pe_snoc l c s : pe (l ++ [c]) (length l) s = pe l (length l - 1) s * s + c.
Proof.
  unfold pe. rewrite sumn_first. cbv beta. rewrite Nat.sub_0_r.
  rewrite nthK_app_r by lia. rewrite Nat.sub_diag. cbn [nthK nth fpow].
  destruct l as [|a l].
  - cbn [length sumn Nat.sub]. unfold nthK. cbn. ring.
  - cbn [length]. replace (S (length l) - 1)%nat with (length l) by lia.
    rewrite <- sumn_scale_r.
    rewrite (sumn_ext _ (fun k => nthK ((a :: l) ++ [c]) (S (length l) - S k) * (s * fpow s k))
                        (fun n => nthK (a :: l) (length l - n) * fpow s n * s)); [ring|].
    intros k Hk. rewrite nthK_app_l by (cbn [length]; lia).
    cbn [Nat.sub]. ring.
Qed.
Theorem pe_horner l s : l <> [] -> pe l (length l - 1) s = horner l s.
Proof.
  induction l as [|c l IH] using rev_ind; intros Hn; [congruence|].
  unfold horner. rewrite fold_left_app. cbn [fold_left].
  rewrite app_length. cbn [length]. replace (length l + 1 - 1)%nat with (length l) by lia.
  rewrite pe_snoc. destruct l as [|a l'].
  - cbn. unfold pe, nthK. cbn. ring.
  - rewrite IH by congruence. reflexivity.
Qed.

(* ---- list preparation done by from_ba_* ---------------------------------- *)
(* `if a0 != 1: l = [x / a0 for x in l]` *)
Definition norm_list (a0 : K) (l : list K) : list K :=
  if fdec K a0 1 then l else map (fun x => x / a0) l.
(* `if Na > Nb: b = [0] * (Na - Nb) + b` (nat subtraction: nothing is added otherwise) *)
Definition padto (Na : nat) (b : list K) : list K := repeat 0 (Na - length b) ++ b.

Lemma norm_list_length a0 l : length (norm_list a0 l) = length l.
Proof. unfold norm_list. destruct (fdec K a0 1); [reflexivity | apply map_length]. Qed.
Lemma norm_list_nth a0 l k : a0 <> 0 -> nthK (norm_list a0 l) k = nthK l k / a0.
Proof. intros H. unfold norm_list. destruct (fdec K a0 1) as [->|Hne].
  - field. exact (one_nz K).
  - rewrite (nthK_map (fun x => x / a0)); [reflexivity | field; exact H]. Qed.
Lemma padto_length Na b : (length b <= Na)%nat -> length (padto Na b) = Na.
Proof. intros H. unfold padto. rewrite app_length, repeat_length. lia. Qed.
Lemma padto_nth Na b k : nthK (padto Na b) k = if (k <? Na - length b)%nat then 0 else nthK b (k - (Na - length b)).
Proof. unfold padto. destruct (Nat.ltb_spec k (Na - length b)) as [H|H].
  - rewrite nthK_app_l by (rewrite repeat_length; exact H). unfold nthK. apply nth_repeat.
  - rewrite nthK_app_r by (rewrite repeat_length; exact H). rewrite repeat_length. reflexivity. Qed.
Lemma pe_scale l N s c : c <> 0 -> pe (map (fun x => x / c) l) N s = pe l N s / c.
Proof. intros H. unfold pe.
  transitivity (sumn (S N) (fun n => (1 / c) * (nthK l (N - n) * fpow s n))).
  - apply sumn_ext. intros k _. rewrite (nthK_map (fun x => x / c)) by (field; exact H). field. exact H.
  - rewrite sumn_scale. field. exact H. Qed.
Lemma pe_norm a0 l N s : a0 <> 0 -> pe (norm_list a0 l) N s = pe l N s / a0.
Proof. intros H. unfold pe.
  transitivity (sumn (S N) (fun n => (1 / a0) * (nthK l (N - n) * fpow s n))).
  - apply sumn_ext. intros k _. rewrite norm_list_nth by exact H. field. exact H.
  - rewrite sumn_scale. field. exact H. Qed.
(* padding with leading zeros does not change the polynomial *)
Lemma pe_padto Na b s : (length b <= Na)%nat -> (1 <= length b)%nat ->
  pe (padto Na b) (Na - 1) s = pe b (length b - 1) s.
Proof.
  intros Hle Hb. unfold pe.
  remember (Na - length b)%nat as d eqn:Ed.
  replace (S (Na - 1)) with (S (length b - 1) + d)%nat by lia.
  (* split the sum: the last d terms (highest powers) carry the zero padding *)
  assert (Split : forall m n f, sumn (n + m) f = sumn n f + sumn m (fun k => f (n + k)%nat)).
  { clear. induction m as [|m IH]; intros n f.
    - rewrite Nat.add_0_r. cbn [sumn]. ring.
    - replace (n + S m)%nat with (S (n + m)) by lia. cbn [sumn]. rewrite IH. ring. }
  rewrite Split.
  rewrite (sumn_zero d).
  2:{ intros k Hk. rewrite padto_nth. rewrite <- Ed.
      destruct (Nat.ltb_spec (Na - 1 - (S (length b - 1) + k)) d) as [_|H]; [ring | lia]. }
  rewrite (sumn_ext _ _ (fun n => nthK b (length b - 1 - n) * fpow s n)); [ring|].
  intros k Hk. rewrite padto_nth. rewrite <- Ed.
  destruct (Nat.ltb_spec (Na - 1 - k) d) as [H|H]; [lia|].
  replace (Na - 1 - k - d)%nat with (length b - 1 - k)%nat by lia. reflexivity.
Qed.

(* ---- matrix programs ------------------------------------------------------ *)
Inductive wr :=
  | W1 (i j : nat) (v : K)                    (* M[i, j] = v *)
  | WD (R c1 c2 : nat) (v : nat -> K)         (* for n in range(R): M[n + c1, n + c2] = v n *)
  | WR (R r0 c2 : nat) (v : nat -> K)         (* for n in range(R): M[r0, n + c2] = v n *)
  | WC (R c1 c0 : nat) (v : nat -> K).        (* for n in range(R): M[n + c1, c0] = v n *)
(* generic semantics of an assignment loop: the LAST iteration that writes (i,j) wins *)
Fixpoint hit_loop (R : nat) (ri ci : nat -> nat) (v : nat -> K) (i j : nat) : option K :=
  match R with
  | O => None
  | S m => if (ri m =? i)%nat && (ci m =? j)%nat then Some (v m) else hit_loop m ri ci v i j
  end.
Definition hit_gen (w : wr) (i j : nat) : option K :=
  match w with
  | W1 i0 j0 v => if (i0 =? i)%nat && (j0 =? j)%nat then Some v else None
  | WD R c1 c2 v => hit_loop R (fun n => n + c1)%nat (fun n => n + c2)%nat v i j
  | WR R r0 c2 v => hit_loop R (fun _ => r0) (fun n => n + c2)%nat v i j
  | WC R c1 c0 v => hit_loop R (fun n => n + c1)%nat (fun _ => c0) v i j
  end.
(* closed forms (what the generated definitions evaluate) *)
Definition hit (w : wr) (i j : nat) : option K :=
  match w with
  | W1 i0 j0 v => if (i0 =? i)%nat && (j0 =? j)%nat then Some v else None
  | WD R c1 c2 v => if (c1 <=? i)%nat && (i - c1 <? R)%nat && (j =? i - c1 + c2)%nat then Some (v (i - c1)%nat) else None
  | WR R r0 c2 v => if (r0 =? i)%nat && (c2 <=? j)%nat && (j - c2 <? R)%nat then Some (v (j - c2)%nat) else None
  | WC R c1 c0 v => if (c0 =? j)%nat && (c1 <=? i)%nat && (i - c1 <? R)%nat then Some (v (i - c1)%nat) else None
  end.
Lemma hit_loop_none R ri ci v i j : (forall k, (k < R)%nat -> ~ (ri k = i /\ ci k = j)) -> hit_loop R ri ci v i j = None.
Proof. induction R as [|R IH]; intros H; cbn [hit_loop]; [reflexivity|].
  destruct (Nat.eqb_spec (ri R) i) as [E1|E1]; destruct (Nat.eqb_spec (ci R) j) as [E2|E2]; cbn [andb];
    try (apply IH; intros k Hk; apply H; lia).
  exfalso. apply (H R); [lia | split; assumption]. Qed.
Lemma hit_loop_unique R ri ci v i j k0 : (k0 < R)%nat -> ri k0 = i -> ci k0 = j ->
  (forall k, (k < R)%nat -> ri k = i -> ci k = j -> k = k0) -> hit_loop R ri ci v i j = Some (v k0).
Proof. induction R as [|R IH]; intros Hk E1 E2 U; [lia|]. cbn [hit_loop].
  destruct (Nat.eqb_spec (ri R) i) as [F1|F1]; destruct (Nat.eqb_spec (ci R) j) as [F2|F2]; cbn [andb].
  - rewrite (U R) by (try lia; assumption). reflexivity.
  - apply IH; try assumption. + destruct (Nat.eq_dec k0 R); [subst; congruence | lia]. + intros k Hk'; apply U; lia.
  - apply IH; try assumption. + destruct (Nat.eq_dec k0 R); [subst; congruence | lia]. + intros k Hk'; apply U; lia.
  - apply IH; try assumption. + destruct (Nat.eq_dec k0 R); [subst; congruence | lia]. + intros k Hk'; apply U; lia.
Qed.
Theorem hit_closed_ok w i j : hit_gen w i j = hit w i j.
Proof.
  destruct w as [i0 j0 v|R c1 c2 v|R r0 c2 v|R c1 c0 v]; cbn [hit_gen hit]; [reflexivity| | |].
  - destruct (Nat.leb_spec c1 i) as [H1|H1]; cbn [andb].
    2:{ apply hit_loop_none. intros k _ [E _]. lia. }
    destruct (Nat.ltb_spec (i - c1) R) as [H2|H2]; cbn [andb].
    2:{ apply hit_loop_none. intros k Hk [E _]. lia. }
    destruct (Nat.eqb_spec j (i - c1 + c2)) as [H3|H3].
    + apply hit_loop_unique; first [lia | intros; lia].
    + apply hit_loop_none. intros k _ [E1 E2]. lia.
  - destruct (Nat.eqb_spec r0 i) as [H1|H1]; cbn [andb].
    2:{ apply hit_loop_none. intros k _ [E _]. lia. }
    destruct (Nat.leb_spec c2 j) as [H2|H2]; cbn [andb].
    2:{ apply hit_loop_none. intros k _ [_ E]. lia. }
    destruct (Nat.ltb_spec (j - c2) R) as [H3|H3].
    + apply hit_loop_unique; first [lia | intros; lia].
    + apply hit_loop_none. intros k Hk [_ E]. lia.
  - destruct (Nat.eqb_spec c0 j) as [H1|H1]; cbn [andb].
    2:{ apply hit_loop_none. intros k _ [_ E]. lia. }
    destruct (Nat.leb_spec c1 i) as [H2|H2]; cbn [andb].
    2:{ apply hit_loop_none. intros k _ [E _]. lia. }
    destruct (Nat.ltb_spec (i - c1) R) as [H3|H3].
    + apply hit_loop_unique; first [lia | intros; lia].
    + apply hit_loop_none. intros k Hk [E _]. lia.
Qed.
(* entry (i,j) after running the writes in program order on a matrix filled with [init] *)
Definition entry (init : K) (ws : list wr) (i j : nat) : K :=
  fold_left (fun acc w => match hit w i j with Some v => v | None => acc end) ws init.

(* ---- single-input single-output realisation ------------------------------ *)
Record real := MkReal { rNx : nat; rA : nat -> nat -> K; rB : nat -> K; rC : nat -> K; rD : K }.
(* s X = A X + B U, row by row *)
Definition ss_state (r : real) (s u : K) (x : nat -> K) : Prop :=
  forall i, (i < rNx r)%nat -> s * x i = sumn (rNx r) (fun j => rA r i j * x j) + rB r i * u.
Definition ss_out (r : real) (u : K) (x : nat -> K) : K :=
  sumn (rNx r) (fun j => rC r j * x j) + rD r * u.

(* ---- algebraic cores ------------------------------------------------------ *)
(* al, be: normalised coefficient sequences (al 0 = 1), index = position in the
   list (0 = highest power).  N >= 1 is the order. *)
Definition pn (c : nat -> K) (N : nat) (s : K) : K := sumn (S N) (fun n => c (N - n)%nat * fpow s n).

(* controllable canonical form: the chain x_{i+1} = s x_i *)
Lemma chain_pow N s x : (forall i, (S i < N)%nat -> s * x i = x (S i)) ->
  forall i, (i < N)%nat -> x i = fpow s i * x O.
Proof. intros H. induction i as [|i IH]; intros Hi; cbn [fpow]; [ring|].
  rewrite <- (H i) by lia. rewrite IH by lia. ring. Qed.
Theorem ccf_core N (al be : nat -> K) (s u : K) (x : nat -> K) :
  (1 <= N)%nat -> al O = 1 ->
  (forall i, (S i < N)%nat -> s * x i = x (S i)) ->
  s * x (N - 1)%nat = sumn N (fun j => - al (N - j)%nat * x j) + u ->
  pn al N s * (sumn N (fun j => (be (N - j)%nat - al (N - j)%nat * be O) * x j) + be O * u) = pn be N s * u.
Proof.
  intros HN Ha Hc Hl.
  pose proof (chain_pow N s x Hc) as Hp.
  set (w := x O) in *.
  assert (E1 : sumn N (fun j => - al (N - j)%nat * x j) = - (sumn N (fun j => al (N - j)%nat * fpow s j)) * w).
  { rewrite <- sumn_opp, <- sumn_scale_r. apply sumn_ext. intros k Hk. rewrite (Hp k Hk). ring. }
  assert (Hw : pn al N s * w = u).
  { unfold pn. cbn [sumn]. rewrite Nat.sub_diag, Ha.
    rewrite (Hp (N - 1)%nat) in Hl by lia. rewrite E1 in Hl.
    replace (fpow s N) with (s * fpow s (N - 1)).
    2:{ replace N with (S (N - 1)) at 2 by lia. reflexivity. }
    transitivity (s * (fpow s (N - 1) * w) - (- sumn N (fun j => al (N - j)%nat * fpow s j) * w)); [ring|].
    rewrite Hl. ring. }
  assert (E2 : sumn N (fun j => (be (N - j)%nat - al (N - j)%nat * be O) * x j) =
               (sumn N (fun j => be (N - j)%nat * fpow s j)) * w - be O * (sumn N (fun j => al (N - j)%nat * fpow s j) * w)).
  { rewrite <- !sumn_scale_r. rewrite <- sumn_scale. rewrite <- sumn_sub.
    apply sumn_ext. intros k Hk. rewrite (Hp k Hk). ring. }
  rewrite E2.
  assert (Ea : sumn N (fun j => al (N - j)%nat * fpow s j) * w = u - fpow s N * w).
  { rewrite <- Hw. unfold pn. cbn [sumn]. rewrite Nat.sub_diag, Ha. ring. }
  rewrite Ea.
  transitivity (pn al N s * w * (sumn N (fun j => be (N - j)%nat * fpow s j) + be O * fpow s N)); [ring|].
  rewrite Hw. unfold pn. cbn [sumn]. rewrite Nat.sub_diag. ring.
Qed.
(* existence for the controllable form: the chain x_k = s^k w with a(s) w = u *)
Theorem ccf_chain_solves N (al : nat -> K) (s u w : K) :
  (1 <= N)%nat -> al O = 1 -> pn al N s * w = u ->
  let x := fun k => fpow s k * w in
  (forall i, (S i < N)%nat -> s * x i = x (S i)) /\
  s * x (N - 1)%nat = sumn N (fun j => - al (N - j)%nat * x j) + u.
Proof.
  intros HN Ha Hw x. split.
  - intros i _. unfold x. cbn [fpow]. ring.
  - unfold x. rewrite <- Hw. unfold pn. cbn [sumn]. rewrite Nat.sub_diag, Ha.
    replace (fpow s N) with (s * fpow s (N - 1)).
    2:{ replace N with (S (N - 1)) at 2 by lia. reflexivity. }
    assert (G : sumn N (fun j => - al (N - j)%nat * (fpow s j * w)) = - (sumn N (fun j => al (N - j)%nat * fpow s j) * w)).
    { rewrite <- sumn_scale_r, <- sumn_opp. apply sumn_ext. intros k _. ring. }
    rewrite G. ring.
Qed.

(* observable canonical form: rows  s x_i = - al(i+1) x_0 + x_{i+1} + bt(i) u
   (no x_{i+1} in the last row).  Downward invariant on the rows. *)
Definition tail_sum (N k : nat) (c : nat -> K) (s : K) : K :=
  sumn (N - k) (fun m => c (k + m)%nat * fpow s (N - 1 - (k + m))).
Lemma tail_sum_step N k c s : (k < N)%nat ->
  tail_sum N k c s = c k * fpow s (N - 1 - k) + tail_sum N (S k) c s.
Proof. intros H. unfold tail_sum. replace (N - k)%nat with (S (N - S k)) by lia.
  rewrite sumn_first. rewrite Nat.add_0_r. f_equal. apply sumn_ext. intros m _.
  replace (k + S m)%nat with (S k + m)%nat by lia. reflexivity. Qed.
Theorem ocf_core N (al bt : nat -> K) (s u : K) (x : nat -> K) :
  (1 <= N)%nat ->
  (forall i, (S i < N)%nat -> s * x i = - al (S i) * x O + x (S i) + bt i * u) ->
  s * x (N - 1)%nat = - al N * x O + bt (N - 1)%nat * u ->
  (fpow s N + tail_sum N 0 (fun i => al (S i)) s) * x O = tail_sum N 0 bt s * u.
Proof.
  intros HN Hr Hl.
  assert (Inv : forall d, (d < N)%nat -> let k := (N - 1 - d)%nat in
            fpow s (N - k) * x k = - tail_sum N k (fun i => al (S i)) s * x O + tail_sum N k bt s * u).
  { induction d as [|d IH]; intros Hd k.
    - subst k. replace (N - 1 - 0)%nat with (N - 1)%nat by lia.
      replace (N - (N - 1))%nat with 1%nat by lia.
      rewrite !(tail_sum_step N (N - 1)) by lia.
      replace (S (N - 1)) with N by lia. unfold tail_sum. replace (N - N)%nat with O by lia. cbn [sumn fpow].
      replace (N - 1 - (N - 1))%nat with O by lia. cbn [fpow].
      transitivity (s * x (N - 1)%nat); [ring|]. rewrite Hl. ring.
    - subst k. specialize (IH ltac:(lia)). cbn zeta in IH.
      set (k := (N - 1 - S d)%nat). replace (N - 1 - d)%nat with (S k) in IH by (subst k; lia).
      rewrite !(tail_sum_step N k) by (subst k; lia).
      replace (N - k)%nat with (S (N - S k)) by (subst k; lia). cbn [fpow].
      replace (N - 1 - k)%nat with (N - S k)%nat by (subst k; lia).
      transitivity (fpow s (N - S k) * (s * x k)); [ring|].
      rewrite (Hr k) by (subst k; lia).
      transitivity (fpow s (N - S k) * (- al (S k) * x O + bt k * u) + fpow s (N - S k) * x (S k)); [ring|].
      rewrite IH. ring. }
  specialize (Inv (N - 1)%nat ltac:(lia)). cbn zeta in Inv.
  replace (N - 1 - (N - 1))%nat with O in Inv by lia. rewrite Nat.sub_0_r in Inv.
  transitivity (fpow s N * x O + tail_sum N 0 (fun i => al (S i)) s * x O); [ring|].
  rewrite Inv. ring.
Qed.
(* the tail sums are the polynomial without its leading term *)
Lemma tail_sum_pn N c s : (1 <= N)%nat -> pn c N s = c O * fpow s N + tail_sum N 0 (fun i => c (S i)) s.
Proof.
  intros HN. unfold pn, tail_sum. cbn [sumn]. rewrite Nat.sub_diag, Nat.sub_0_r.
  assert (R : forall M f, sumn M f = sumn M (fun m => f (M - 1 - m)%nat)).
  { clear. induction M as [|M IH]; intros f; [reflexivity|].
    rewrite (sumn_first M (fun m => f (S M - 1 - m)%nat)). cbn [sumn]. rewrite (IH f).
    replace (S M - 1 - 0)%nat with M by lia.
    rewrite (sumn_ext M (fun k => f (S M - 1 - S k)%nat) (fun m => f (M - 1 - m)%nat)); [ring|].
    intros k Hk. f_equal. lia. }
  rewrite (R N (fun n => c (N - n)%nat * fpow s n)).
  rewrite (sumn_ext _ _ (fun m => c (S (0 + m)) * fpow s (N - 1 - (0 + m)))); [ring|].
  intros k Hk. cbn [Nat.add]. replace (N - (N - 1 - k))%nat with (S k) by lia. reflexivity.
Qed.

(* the constant term of b/a (what the feed-through of a diagonal form has to be) *)
Definition dterm (a b : list K) : K := if (length a =? length b)%nat then nthK b 0 / nthK a 0 else 0.

(* diagonal canonical form: x_n = u / (s - p_n) *)
Theorem dcf_core N (p r : nat -> K) (s u d : K) (x : nat -> K) :
  (forall n, (n < N)%nat -> s - p n <> 0) ->
  (forall n, (n < N)%nat -> s * x n = p n * x n + u) ->
  sumn N (fun n => r n * x n) + d * u = (sumn N (fun n => r n / (s - p n)) + d) * u.
Proof.
  intros Hnz Hx.
  assert (E : sumn N (fun n => r n * x n) = sumn N (fun n => r n / (s - p n)) * u).
  { rewrite <- sumn_scale_r. apply sumn_ext. intros k Hk.
    assert (X : x k = u / (s - p k)).
    { specialize (Hx k Hk). specialize (Hnz k Hk).
      transitivity ((s * x k - p k * x k) / (s - p k)); [field; exact Hnz | rewrite Hx; field; exact Hnz]. }
    rewrite X. field. exact (Hnz k Hk). }
  rewrite E. ring.
Qed.
End Canon.

Arguments sumn {K}. Arguments fpow {K}. Arguments nthK {K}. Arguments pe {K}. Arguments horner {K}.
Arguments norm_list {K}. Arguments padto {K}. Arguments W1 {K}. Arguments WD {K}. Arguments WR {K}. Arguments WC {K}.
Arguments hit {K}. Arguments hit_gen {K}. Arguments entry {K}. Arguments MkReal {K}. Arguments rNx {K}. Arguments rA {K}.
Arguments rB {K}. Arguments rC {K}. Arguments rD {K}. Arguments ss_state {K}. Arguments ss_out {K}. Arguments pn {K}.
Arguments tail_sum {K}. Arguments dterm {K}.
