(* C07 - two-port sections: specification relations of the physical sections
   (written from circuit theory, currents flow INTO each port), the B-model
   with its source vector, and the list induction for ladders.
   The section constructors themselves are regenerated from lcapy/twoport.py
   (tools/tr_sections.py); the theorems about them are generated next to them. *)
Require Import LT.FieldSec LT.TwoPort.
Local Open Scope F_scope.

Record opd (K : fld) := OPD { opZ : K; opY : K; opVoc : K; opIsc : K }.
Arguments OPD {K}. Arguments opZ {K}. Arguments opY {K}. Arguments opVoc {K}. Arguments opIsc {K}.
(* TwoPortBModel: B matrix and the source vector (V2b, I2b) *)
Record tpm (K : fld) := TPM { tB : mat K; tV2b : K; tI2b : K }.
Arguments TPM {K}. Arguments tB {K}. Arguments tV2b {K}. Arguments tI2b {K}.

Section Sections.
Variable K : fld.
Add Field KFsec : (fth K).
Implicit Types v : port K.

(* a series impedance z between the + terminals: V1 - V2 = z I1, I1 = - I2 *)
Definition series_rel (z : K) v : Prop := V1 v - V2 v = z * I1 v /\ I1 v = - I2 v.
(* a shunt admittance y across both ports: V1 = V2, I1 + I2 = y V1 *)
Definition shunt_rel (y : K) v : Prop := V1 v = V2 v /\ I1 v + I2 v = y * V1 v.
(* ideal transformer with voltage gain alpha (power conserving) *)
Definition transformer_rel (alpha : K) v : Prop := V2 v = alpha * V1 v /\ I1 v = - (alpha * I2 v).
(* ideal gyrator with gyration resistance r (twoport.IdealGyrator's orientation) *)
Definition gyrator_rel (r : K) v : Prop := V2 v = r * I1 v /\ V1 v = - (r * I2 v).
(* physical L, T, Pi sections: cascades of the elements, in signal order *)
Definition Lsection_rel (z1 z2 : K) := cascade (series_rel z1) (shunt_rel (1 / z2)).
Definition Tsection_rel (z1 z2 z3 : K) := cascade (cascade (series_rel z1) (shunt_rel (1 / z2))) (series_rel z3).
Definition Pisection_rel (z1 z2 z3 : K) := cascade (shunt_rel (1 / z1)) (cascade (series_rel z2) (shunt_rel (1 / z3))).

(* the B model with sources:  [V2; -I2] = B [V1; I1] + [V2b; I2b] *)
Definition relBs (t : tpm K) v : Prop :=
  V2 v = m11 (tB t) * V1 v + m12 (tB t) * I1 v + tV2b t /\
  - I2 v = m21 (tB t) * V1 v + m22 (tB t) * I1 v + tI2b t.
Lemma relBs_nosrc (Z0 : K) (M : mat K) v : relBs (TPM M 0 0) v <-> rel_B Z0 M v.
Proof. destruct v. unfold relBs. tp_unfold. cbn [tB tV2b tI2b]. split; intros [E1 E2]; split; rewrite ?E1, ?E2; ring. Qed.

Lemma cascade_iff (R1 R1' R2 R2' : port K -> Prop) :
  (forall v, R1 v <-> R1' v) -> (forall v, R2 v <-> R2' v) -> forall v, cascade R1 R2 v <-> cascade R1' R2' v.
Proof.
  intros H1 H2 v. unfold cascade. split; intros [Vm [Im [A B]]]; exists Vm, Im; split;
    first [apply H1; exact A | apply H2; exact B].
Qed.

(* ---- every section relation is a B relation; cascades multiply (in reverse order) ---- *)
Definition Bser (z : K) : mat K := Mat 1 (- z) 0 1.
Definition Bsh (y : K) : mat K := Mat 1 0 (- y) 1.
Lemma series_rel_B (Z0 z : K) v : series_rel z v <-> rel_B Z0 (Bser z) v.
Proof. destruct v as [v1 i1 v2 i2]. unfold series_rel, Bser. tp_unfold. split; intros [E1 E2]; split; knsatz. Qed.
Lemma shunt_rel_B (Z0 y : K) v : shunt_rel y v <-> rel_B Z0 (Bsh y) v.
Proof. destruct v as [v1 i1 v2 i2]. unfold shunt_rel, Bsh. tp_unfold. split; intros [E1 E2]; split; knsatz. Qed.
Lemma cascade_B (Z0 : K) (a b : mat K) v : cascade (rel_B Z0 a) (rel_B Z0 b) v <-> rel_B Z0 (mmul b a) v.
Proof.
  destruct a as [a11 a12 a21 a22], b as [b11 b12 b21 b22], v as [v1 i1 v2 i2]. tp_unfold. split.
  - intros [Vm [Im [[A1 A2] [B1 B2]]]]. split; knsatz.
  - intros [E1 E2]. exists (a11 * v1 + a12 * i1), (a21 * v1 + a22 * i1). repeat split; knsatz.
Qed.
Lemma casc_B (Z0 : K) (R1 R2 : port K -> Prop) (a b : mat K) :
  (forall v, R1 v <-> rel_B Z0 a v) -> (forall v, R2 v <-> rel_B Z0 b v) ->
  forall v, cascade R1 R2 v <-> rel_B Z0 (mmul b a) v.
Proof. intros H1 H2 v. rewrite <- cascade_B. apply cascade_iff; assumption. Qed.
Lemma iff_trans_mat (Z0 : K) (S : port K -> Prop) (M M' : mat K) v :
  (forall v, S v <-> rel_B Z0 M v) -> M = M' -> (rel_B Z0 M' v <-> S v).
Proof. intros H E. subst M'. symmetry. apply H. Qed.

(* connections of two two-ports, as relations *)
(* parallel-parallel: same port voltages, port currents add *)
Definition par_conn (Ra Rb : port K -> Prop) v : Prop :=
  exists i1a i2a i1b i2b, Ra (Port (V1 v) i1a (V2 v) i2a) /\ Rb (Port (V1 v) i1b (V2 v) i2b) /\
    I1 v = i1a + i1b /\ I2 v = i2a + i2b.
(* series-series: same port currents, port voltages add *)
Definition ser_conn (Ra Rb : port K -> Prop) v : Prop :=
  exists v1a v2a v1b v2b, Ra (Port v1a (I1 v) v2a (I2 v)) /\ Rb (Port v1b (I1 v) v2b (I2 v)) /\
    V1 v = v1a + v1b /\ V2 v = v2a + v2b.
(* series input, parallel output *)
Definition hyb_conn (Ra Rb : port K -> Prop) v : Prop :=
  exists v1a i2a v1b i2b, Ra (Port v1a (I1 v) (V2 v) i2a) /\ Rb (Port v1b (I1 v) (V2 v) i2b) /\
    V1 v = v1a + v1b /\ I2 v = i2a + i2b.
(* parallel input, series output *)
Definition ihyb_conn (Ra Rb : port K -> Prop) v : Prop :=
  exists i1a v2a i1b v2b, Ra (Port (V1 v) i1a v2a (I2 v)) /\ Rb (Port (V1 v) i1b v2b (I2 v)) /\
    I1 v = i1a + i1b /\ V2 v = v2a + v2b.

Theorem par2_sem (Z0 : K) (a b : mat K) v : par_conn (rel_Y Z0 a) (rel_Y Z0 b) v <-> rel_Y Z0 (madd a b) v.
Proof.
  destruct a as [a11 a12 a21 a22], b as [b11 b12 b21 b22], v as [v1 i1 v2 i2]. unfold par_conn. tp_unfold. split.
  - intros [i1a [i2a [i1b [i2b [[A1 A2] [[B1 B2] [E1 E2]]]]]]]. split; [rewrite E1, A1, B1 | rewrite E2, A2, B2]; ring.
  - intros [E1 E2]. exists (a11 * v1 + a12 * v2), (a21 * v1 + a22 * v2), (b11 * v1 + b12 * v2), (b21 * v1 + b22 * v2).
    repeat split; try reflexivity; [rewrite E1 | rewrite E2]; ring.
Qed.
Theorem ser2_sem (Z0 : K) (a b : mat K) v : ser_conn (rel_Z Z0 a) (rel_Z Z0 b) v <-> rel_Z Z0 (madd a b) v.
Proof.
  destruct a as [a11 a12 a21 a22], b as [b11 b12 b21 b22], v as [v1 i1 v2 i2]. unfold ser_conn. tp_unfold. split.
  - intros [v1a [v2a [v1b [v2b [[A1 A2] [[B1 B2] [E1 E2]]]]]]]. split; [rewrite E1, A1, B1 | rewrite E2, A2, B2]; ring.
  - intros [E1 E2]. exists (a11 * i1 + a12 * i2), (a21 * i1 + a22 * i2), (b11 * i1 + b12 * i2), (b21 * i1 + b22 * i2).
    repeat split; try reflexivity; [rewrite E1 | rewrite E2]; ring.
Qed.
Theorem hybrid2_sem (Z0 : K) (a b : mat K) v : hyb_conn (rel_H Z0 a) (rel_H Z0 b) v <-> rel_H Z0 (madd a b) v.
Proof.
  destruct a as [a11 a12 a21 a22], b as [b11 b12 b21 b22], v as [v1 i1 v2 i2]. unfold hyb_conn. tp_unfold. split.
  - intros [v1a [i2a [v1b [i2b [[A1 A2] [[B1 B2] [E1 E2]]]]]]]. split; [rewrite E1, A1, B1 | rewrite E2, A2, B2]; ring.
  - intros [E1 E2]. exists (a11 * i1 + a12 * v2), (a21 * i1 + a22 * v2), (b11 * i1 + b12 * v2), (b21 * i1 + b22 * v2).
    repeat split; try reflexivity; [rewrite E1 | rewrite E2]; ring.
Qed.
Theorem inverse_hybrid2_sem (Z0 : K) (a b : mat K) v : ihyb_conn (rel_G Z0 a) (rel_G Z0 b) v <-> rel_G Z0 (madd a b) v.
Proof.
  destruct a as [a11 a12 a21 a22], b as [b11 b12 b21 b22], v as [v1 i1 v2 i2]. unfold ihyb_conn. tp_unfold. split.
  - intros [i1a [v2a [i1b [v2b [[A1 A2] [[B1 B2] [E1 E2]]]]]]]. split; [rewrite E1, A1, B1 | rewrite E2, A2, B2]; ring.
  - intros [E1 E2]. exists (a11 * v1 + a12 * i2), (a21 * v1 + a22 * i2), (b11 * v1 + b12 * i2), (b21 * v1 + b22 * i2).
    repeat split; try reflexivity; [rewrite E1 | rewrite E2]; ring.
Qed.

(* ---- models with source vectors (TwoPortAModel ... TwoPortZModel doc-strings) ---------- *)
Definition relAs (m : mat K) (s1 s2 : K) v : Prop :=
  V1 v = m11 m * V2 v + m12 m * (- I2 v) + s1 /\ I1 v = m21 m * V2 v + m22 m * (- I2 v) + s2.
Definition relGs (m : mat K) (s1 s2 : K) v : Prop :=
  I1 v = m11 m * V1 v + m12 m * I2 v + s1 /\ V2 v = m21 m * V1 v + m22 m * I2 v + s2.
Definition relHs (m : mat K) (s1 s2 : K) v : Prop :=
  V1 v = m11 m * I1 v + m12 m * V2 v + s1 /\ I2 v = m21 m * I1 v + m22 m * V2 v + s2.
Definition relYs (m : mat K) (s1 s2 : K) v : Prop :=
  I1 v = m11 m * V1 v + m12 m * V2 v + s1 /\ I2 v = m21 m * V1 v + m22 m * V2 v + s2.
Definition relZs (m : mat K) (s1 s2 : K) v : Prop :=
  V1 v = m11 m * I1 v + m12 m * I2 v + s1 /\ V2 v = m21 m * I1 v + m22 m * I2 v + s2.
(* a series one-port with Thevenin data (z, e), its + terminal at port 1:  V1 - V2 = e + z I1 *)
Definition series_src_rel (z e : K) v : Prop := V1 v - V2 v = e + z * I1 v /\ I1 v = - I2 v.
(* a shunt one-port with Norton data (y, j), its + terminal on the upper rail:  I1 + I2 = y V1 - j *)
Definition shunt_src_rel (y j : K) v : Prop := V1 v = V2 v /\ I1 v + I2 v = y * V1 v - j.

Theorem par2_src_sem (a b : mat K) (a1 a2 b1 b2 : K) v :
  par_conn (relYs a a1 a2) (relYs b b1 b2) v <-> relYs (madd a b) (a1 + b1) (a2 + b2) v.
Proof.
  destruct a as [a11 a12 a21 a22], b as [b11 b12 b21 b22], v as [v1 i1 v2 i2]. unfold par_conn, relYs. tp_unfold. split.
  - intros [i1a [i2a [i1b [i2b [[A1 A2] [[B1 B2] [E1 E2]]]]]]]. split; [rewrite E1, A1, B1 | rewrite E2, A2, B2]; ring.
  - intros [E1 E2]. exists (a11 * v1 + a12 * v2 + a1), (a21 * v1 + a22 * v2 + a2), (b11 * v1 + b12 * v2 + b1), (b21 * v1 + b22 * v2 + b2).
    repeat split; try reflexivity; [rewrite E1 | rewrite E2]; ring.
Qed.
Theorem ser2_src_sem (a b : mat K) (a1 a2 b1 b2 : K) v :
  ser_conn (relZs a a1 a2) (relZs b b1 b2) v <-> relZs (madd a b) (a1 + b1) (a2 + b2) v.
Proof.
  destruct a as [a11 a12 a21 a22], b as [b11 b12 b21 b22], v as [v1 i1 v2 i2]. unfold ser_conn, relZs. tp_unfold. split.
  - intros [v1a [v2a [v1b [v2b [[A1 A2] [[B1 B2] [E1 E2]]]]]]]. split; [rewrite E1, A1, B1 | rewrite E2, A2, B2]; ring.
  - intros [E1 E2]. exists (a11 * i1 + a12 * i2 + a1), (a21 * i1 + a22 * i2 + a2), (b11 * i1 + b12 * i2 + b1), (b21 * i1 + b22 * i2 + b2).
    repeat split; try reflexivity; [rewrite E1 | rewrite E2]; ring.
Qed.
Theorem hybrid2_src_sem (a b : mat K) (a1 a2 b1 b2 : K) v :
  hyb_conn (relHs a a1 a2) (relHs b b1 b2) v <-> relHs (madd a b) (a1 + b1) (a2 + b2) v.
Proof.
  destruct a as [a11 a12 a21 a22], b as [b11 b12 b21 b22], v as [v1 i1 v2 i2]. unfold hyb_conn, relHs. tp_unfold. split.
  - intros [v1a [i2a [v1b [i2b [[A1 A2] [[B1 B2] [E1 E2]]]]]]]. split; [rewrite E1, A1, B1 | rewrite E2, A2, B2]; ring.
  - intros [E1 E2]. exists (a11 * i1 + a12 * v2 + a1), (a21 * i1 + a22 * v2 + a2), (b11 * i1 + b12 * v2 + b1), (b21 * i1 + b22 * v2 + b2).
    repeat split; try reflexivity; [rewrite E1 | rewrite E2]; ring.
Qed.
Theorem inverse_hybrid2_src_sem (a b : mat K) (a1 a2 b1 b2 : K) v :
  ihyb_conn (relGs a a1 a2) (relGs b b1 b2) v <-> relGs (madd a b) (a1 + b1) (a2 + b2) v.
Proof.
  destruct a as [a11 a12 a21 a22], b as [b11 b12 b21 b22], v as [v1 i1 v2 i2]. unfold ihyb_conn, relGs. tp_unfold. split.
  - intros [i1a [v2a [i1b [v2b [[A1 A2] [[B1 B2] [E1 E2]]]]]]]. split; [rewrite E1, A1, B1 | rewrite E2, A2, B2]; ring.
  - intros [E1 E2]. exists (a11 * v1 + a12 * i2 + a1), (a21 * v1 + a22 * i2 + a2), (b11 * v1 + b12 * i2 + b1), (b21 * v1 + b22 * i2 + b2).
    repeat split; try reflexivity; [rewrite E1 | rewrite E2]; ring.
Qed.

(* ---- ladders: Ladder / LadderAlt build  tp := first; for m, arg: tp := tp.chain(X_m(arg)) *)
Section Ladder.
Variable chain : tpm K -> tpm K -> tpm K.
Variables fodd feven : opd K -> tpm K.
Fixpoint ladder_fold (acc : tpm K) (args : list (opd K)) (m : nat) : tpm K :=
  match args with
  | [] => acc
  | o :: r => ladder_fold (chain acc (if Nat.odd m then fodd o else feven o)) r (S m)
  end.
(* the physical ladder: the elements cascaded in the order they are listed *)
Variables Rodd Reven : opd K -> port K -> Prop.
Fixpoint ladder_rel (R : port K -> Prop) (args : list (opd K)) (m : nat) : port K -> Prop :=
  match args with
  | [] => R
  | o :: r => ladder_rel (cascade R (if Nat.odd m then Rodd o else Reven o)) r (S m)
  end.
Variable rel : tpm K -> port K -> Prop.
Hypothesis chain_ok : forall a b v, cascade (rel a) (rel b) v <-> rel (chain a b) v.
Hypothesis odd_ok : forall o v, rel (fodd o) v <-> Rodd o v.
Hypothesis even_ok : forall o v, rel (feven o) v <-> Reven o v.
Theorem ladder_sem_gen (args : list (opd K)) : forall (m : nat) (acc : tpm K) (R : port K -> Prop),
  (forall v, rel acc v <-> R v) -> forall v, rel (ladder_fold acc args m) v <-> ladder_rel R args m v.
Proof.
  induction args as [|o r IH]; intros m acc R H v; cbn [ladder_fold ladder_rel]; [apply H|].
  apply IH. intros w. rewrite <- chain_ok. apply cascade_iff; [exact H|].
  intros u. destruct (Nat.odd m); [apply odd_ok | apply even_ok].
Qed.
End Ladder.
End Sections.

Arguments series_rel {K}. Arguments shunt_rel {K}. Arguments transformer_rel {K}. Arguments gyrator_rel {K}.
Arguments Lsection_rel {K}. Arguments Tsection_rel {K}. Arguments Pisection_rel {K}.
Arguments relBs {K}. Arguments relAs {K}. Arguments relGs {K}. Arguments relHs {K}. Arguments relYs {K}. Arguments relZs {K}.
Arguments series_src_rel {K}. Arguments shunt_src_rel {K}. Arguments par_conn {K}. Arguments ser_conn {K}. Arguments hyb_conn {K}. Arguments ihyb_conn {K}.
Arguments ladder_fold {K}. Arguments ladder_rel {K}. Arguments Bser {K}. Arguments Bsh {K}.
(* a tree of cascades of series/shunt relations is the B relation of the product *)
Ltac spec_B := intros; repeat first [ apply casc_B | apply series_rel_B | apply shunt_rel_B ].
Ltac sec_spec_unfold := cbv [Bser Bsh relAs relGs relHs relYs relZs series_src_rel shunt_src_rel series_rel shunt_rel transformer_rel gyrator_rel Lsection_rel Tsection_rel Pisection_rel relBs
                             par_conn ser_conn hyb_conn ihyb_conn] in *.
