(* LaplacePointwise - over the reals, the exp-poly algebra of LaplaceSig.v means
   what its comments say:

     sval_tmul    [tmul l m]        is the pointwise product  x(t) * y(t)
     sval_tshift  [tshift exp d l]  is the shifted function   x(t + d)

   where [sval] (LaplaceAnalysis.v) is the value  S c t^n/n! e^{pt}  of a term list.
   Depends only on the axioms of the standard library's classical reals. *)
From Coq Require Import Reals Lra Lia.
From Coquelicot Require Import Coquelicot.
Require Import LT.FieldSec LT.PolyQ LT.ExpPoly LT.LaplaceSig LT.LaplaceAnalysis.
Open Scope R_scope.

(* ---- the field-generic naturals / factorials / binomials over R ------------ *)
Lemma fnat_RFld (n : nat) : fnat (K:=RFld) n = INR n.
Proof.
  induction n as [|n IH]; [reflexivity|].
  cbn [fnat]. rewrite IH, S_INR. change (1 + INR n = INR n + 1). ring.
Qed.

Lemma natfact_fact (n : nat) : natfact n = fact n.
Proof. induction n as [|n IH]; [reflexivity|]. cbn [natfact fact]. rewrite IH. reflexivity. Qed.

Lemma lbinom_gt (n k : nat) : (n < k)%nat -> lbinom n k = 0%nat.
Proof.
  revert k. induction n as [|n IH]; intros [|k] H; try lia; [reflexivity|].
  cbn [lbinom]. rewrite (IH k), (IH (S k)) by lia. reflexivity.
Qed.

Lemma lbinom_fact (n k : nat) : (k <= n)%nat ->
  (lbinom n k * (fact k * fact (n - k)) = fact n)%nat.
Proof.
  revert k. induction n as [|n IH]; intros k Hk.
  - assert (k = 0)%nat as -> by lia. reflexivity.
  - destruct k as [|k].
    + cbn [lbinom]. rewrite Nat.sub_0_r. change (fact 0) with 1%nat. lia.
    + cbn [lbinom]. destruct (Nat.eq_dec k n) as [->|Hne].
      * rewrite (lbinom_gt n (S n)) by lia.
        pose proof (IH n (Nat.le_refl n)) as H1.
        rewrite Nat.sub_diag in *. change (fact 0) with 1%nat in *.
        change (fact (S n)) with (S n * fact n)%nat.
        rewrite Nat.add_0_r, Nat.mul_1_r in *. rewrite <- H1 at 2. ring.
      * assert (Hk' : (k < n)%nat) by lia.
        pose proof (IH k (Nat.lt_le_incl _ _ Hk')) as H1.
        pose proof (IH (S k) Hk') as H2.
        replace (S n - S k)%nat with (S (n - S k)) by lia.
        replace (n - k)%nat with (S (n - S k)) in H1 by lia.
        set (m := (n - S k)%nat) in *.
        change (fact (S n)) with (S n * fact n)%nat.
        change (fact (S m)) with (S m * fact m)%nat in *.
        change (fact (S k)) with (S k * fact k)%nat in *.
        transitivity (S k * (lbinom n k * (fact k * (S m * fact m)))
                      + S m * (lbinom n (S k) * (S k * fact k * fact m)))%nat; [ring|].
        rewrite H1, H2. replace (S n) with (S k + S m)%nat by (unfold m; lia). ring.
Qed.

Lemma lbinom_INR (a b : nat) :
  INR (lbinom (a + b) a) * INR (fact a) * INR (fact b) = INR (fact (a + b)).
Proof.
  rewrite Rmult_assoc, <- !mult_INR. f_equal.
  pose proof (lbinom_fact (a + b) a) as H.
  replace (a + b - a)%nat with b in H by lia. apply H. lia.
Qed.

(* ---- values of single terms and of lists ------------------------------------ *)
Definition tval (x : rterm RFld) (t : R) : R :=
  match x with (c, n, p) => c * t ^ n / INR (fact n) * exp (p * t) end.

Lemma sval_cons (x : rterm RFld) l t : sval (x :: l) t = tval x t + sval l t.
Proof. destruct x as [[c n] p]. reflexivity. Qed.

Lemma sval_app (l m : list (rterm RFld)) t : sval (l ++ m) t = sval l t + sval m t.
Proof.
  induction l as [|x l IH]; cbn [app]; [cbn [sval]; ring|].
  rewrite !sval_cons, IH. ring.
Qed.

(* ---- product ---------------------------------------------------------------- *)
Lemma tval_tmul1 (x y : rterm RFld) t : tval (tmul1 x y) t = tval x t * tval y t.
Proof.
  destruct x as [[c1 n1] p1], y as [[c2 n2] p2]. cbn [tmul1 tval].
  rewrite fnat_RFld.
  change (c1 * c2 * INR (lbinom (n1 + n2) n1) * t ^ (n1 + n2) / INR (fact (n1 + n2))
          * exp ((p1 + p2) * t)
          = c1 * t ^ n1 / INR (fact n1) * exp (p1 * t) * (c2 * t ^ n2 / INR (fact n2) * exp (p2 * t))).
  rewrite Rmult_plus_distr_r, exp_plus, pow_add, <- (lbinom_INR n1 n2).
  pose proof (INR_fact_nz n1) as H1. pose proof (INR_fact_nz n2) as H2.
  assert (HB : INR (lbinom (n1 + n2) n1) <> 0).
  { intros E. apply (INR_fact_nz (n1 + n2)). rewrite <- lbinom_INR, E. ring. }
  field. repeat split; assumption.
Qed.

Lemma sval_map_tmul1 (x : rterm RFld) m t : sval (map (tmul1 x) m) t = tval x t * sval m t.
Proof.
  induction m as [|y m IH]; cbn [map]; [cbn [sval]; ring|].
  rewrite !sval_cons, IH, tval_tmul1. ring.
Qed.

(* tmul is the pointwise product of the two exp-poly functions *)
Theorem sval_tmul (l m : list (rterm RFld)) (t : R) : sval (tmul l m) t = sval l t * sval m t.
Proof.
  unfold tmul. induction l as [|x l IH]; cbn [flat_map]; [cbn [sval]; ring|].
  rewrite sval_app, sval_cons, IH, sval_map_tmul1. ring.
Qed.

(* ---- shift ------------------------------------------------------------------ *)
Lemma sval_map_seq (g : nat -> R) (p : R) (n : nat) t :
  sval (map (fun k => ((g k, k, p) : rterm RFld)) (seq 0 (S n))) t
  = sum_f_R0 (fun k => g k * t ^ k / INR (fact k) * exp (p * t)) n.
Proof.
  induction n as [|n IH].
  - cbn [seq map sval sum_f_R0]. ring.
  - rewrite seq_S, map_app, sval_app, IH. cbn [Nat.add map sval sum_f_R0]. ring.
Qed.

Lemma sval_tshift1 (d : R) (x : rterm RFld) t : sval (tshift1 RFld exp d x) t = tval x (t + d).
Proof.
  destruct x as [[c n] p]. unfold tshift1, tval.
  etransitivity; [exact (sval_map_seq (fun k => (c * exp (p * d) * fpow (K:=RFld) d (n - k) / fnat (K:=RFld) (natfact (n - k)))%F) p n t)|].
  rewrite (binomial t d n).
  replace (c * sum_f_R0 (fun i => Binomial.C n i * t ^ i * d ^ (n - i)) n / INR (fact n) * exp (p * (t + d)))
    with ((c / INR (fact n) * exp (p * (t + d))) * sum_f_R0 (fun i => Binomial.C n i * t ^ i * d ^ (n - i)) n)
    by (field; apply INR_fact_nz).
  rewrite scal_sum. apply sum_eq. intros i Hi.
  rewrite fpow_RFld, fnat_RFld, natfact_fact.
  change (c * exp (p * d) * d ^ (n - i) / INR (fact (n - i)) * t ^ i / INR (fact i) * exp (p * t)
          = Binomial.C n i * t ^ i * d ^ (n - i) * (c / INR (fact n) * exp (p * (t + d)))).
  unfold Binomial.C. rewrite Rmult_plus_distr_l, exp_plus.
  pose proof (INR_fact_nz n). pose proof (INR_fact_nz i). pose proof (INR_fact_nz (n - i)).
  field. repeat split; assumption.
Qed.

(* tshift d is the shifted function x(t + d) *)
Theorem sval_tshift (d : R) (l : list (rterm RFld)) (t : R) : sval (tshift RFld exp d l) t = sval l (t + d).
Proof.
  unfold tshift. induction l as [|x l IH]; cbn [flat_map]; [reflexivity|].
  rewrite sval_app, sval_cons, IH, sval_tshift1. reflexivity.
Qed.

Print Assumptions sval_tmul.
Print Assumptions sval_tshift.
