(* ILTQext — the quadratic extensions Q(i)(sqrt d), d a prime, as executable instances
   [QxF d Hd : fld] of the abstract field record of FieldSec.v (C10: poles, residues and
   exponents that are NOT Gaussian rationals: -1 +- sqrt 2, -1 +- i sqrt 2, ...).
   Elements are pairs a + b sqrt d with a, b in Q(i) (LT.QcI).  The field axioms need that d
   is not a square in Q(i); this is proved here for every prime d (infinite descent in Z,
   lifted to Qc and to Q(i)); no axioms. *)
Require Import LT.FieldSec LT.QcI.
From Coq Require Import ZArith Znumtheory Lia Lqa QArith Qcanon.

(* ---- a prime is not the square of a rational ------------------------------------------- *)
Local Open Scope Z_scope.
Lemma prime_nosq_Z (d : Z) : prime d -> forall q, 0 <= q -> forall p, p * p = d * (q * q) -> q = 0.
Proof.
  intros Hd. pose proof (prime_ge_2 d Hd) as Hd2.
  assert (G : forall q, 0 <= q -> 0 <= q -> forall p, p * p = d * (q * q) -> q = 0); [|intros q Hq; exact (G q Hq Hq)].
  apply (Z_lt_induction (fun q => 0 <= q -> forall p, p * p = d * (q * q) -> q = 0)).
  intros q IH Hq p Hp.
  destruct (Z.eq_dec q 0) as [|Hq0]; [assumption|exfalso].
  assert (D1 : (d | p)).
  { assert (D : (d | p * p)) by (exists (q * q); lia). destruct (prime_mult d Hd p p D); assumption. }
  destruct D1 as [p' Ep]. subst p.
  assert (E2 : d * (p' * p') = q * q) by nia.
  assert (D2 : (d | q)).
  { assert (D : (d | q * q)) by (exists (p' * p'); lia). destruct (prime_mult d Hd q q D); assumption. }
  destruct D2 as [q' Eq]. subst q.
  assert (E3 : p' * p' = d * (q' * q')) by nia.
  assert (Hq' : 0 <= q' < q' * d) by nia.
  assert (Hq'' : 0 <= q') by lia.
  pose proof (IH q' Hq' Hq'' p' E3). lia.
Qed.

Local Close Scope Z_scope.

Definition dq (d : positive) : Qc := Q2Qc (inject_Z (Zpos d)).
Lemma dq_this d : (this (dq d) == inject_Z (Zpos d))%Q.
Proof. unfold dq. cbn [this Q2Qc]. apply Qred_correct. Qed.
Lemma Qc_mul_this (a b : Qc) : (this (a * b)%Qc == this a * this b)%Q.
Proof. unfold Qcmult, Q2Qc. cbn [this]. apply Qred_correct. Qed.

Lemma prime_nosq_Qc (d : positive) : prime (Zpos d) -> forall u : Qc, (u * u)%Qc <> dq d.
Proof.
  intros Hd u E.
  assert (HQ : (this u * this u == inject_Z (Zpos d))%Q) by (rewrite <- Qc_mul_this, E; apply dq_this).
  destruct (this u) as [a b]. unfold Qeq, Qmult, inject_Z in HQ. cbn [Qnum Qden] in HQ.
  rewrite Pos2Z.inj_mul in HQ.
  assert (H0 : (Zpos b = 0)%Z) by (apply (prime_nosq_Z (Zpos d) Hd (Zpos b) (Pos2Z.is_nonneg b) a); lia).
  discriminate H0.
Qed.

Lemma Qc_opp_sq_pos (d : positive) (v : Qc) : (- (v * v))%Qc <> dq d.
Proof.
  intros E.
  assert (HQ : (- (this v * this v) == inject_Z (Zpos d))%Q).
  { rewrite <- Qc_mul_this. rewrite <- dq_this, <- E. unfold Qcopp, Q2Qc. cbn [this]. symmetry. apply Qred_correct. }
  assert (Hp : (0 < inject_Z (Zpos d))%Q) by (unfold Qlt, inject_Z; cbn; lia).
  nra.
Qed.

Definition nonsq (d : positive) : Prop := forall x : qci, cimul x x <> ciofq (dq d).
Theorem prime_nonsq (d : positive) : prime (Zpos d) -> nonsq d.
Proof.
  intros Hd [u v] E. unfold cimul, ciofq in E. cbn [re im] in E.
  assert (E1 : (u * u - v * v = dq d)%Qc) by (apply (f_equal re) in E; exact E).
  assert (E2 : (u * v + v * u = 0)%Qc) by (apply (f_equal im) in E; exact E).
  assert (E3 : (u * v = 0)%Qc).
  { assert (T : ((1 + 1) * (u * v) = 0)%Qc) by (rewrite <- E2; ring).
    destruct (Qcmult_integral _ _ T) as [T2|T2]; [discriminate T2 | exact T2]. }
  destruct (Qcmult_integral _ _ E3) as [Z|Z]; subst.
  - apply (Qc_opp_sq_pos d v). rewrite <- E1. ring.
  - apply (prime_nosq_Qc d Hd u). rewrite <- E1. ring.
Qed.

(* ---- the field --------------------------------------------------------------------------- *)
Add Field QIfield : ci_field.

Record qx := QX { xa : qci; xb : qci }.
Lemma qx_eq a b : xa a = xa b -> xb a = xb b -> a = b.
Proof. destruct a, b; cbn; intros; subst; reflexivity. Qed.

Section Ext.
Variable d : positive.
Hypothesis Hd : nonsq d.
Let D : qci := ciofq (dq d).

Definition qx0 := QX ci0 ci0.
Definition qx1 := QX ci1 ci0.
Definition qxadd (a b : qx) := QX (ciadd (xa a) (xa b)) (ciadd (xb a) (xb b)).
Definition qxmul (a b : qx) := QX (ciadd (cimul (xa a) (xa b)) (cimul D (cimul (xb a) (xb b)))) (ciadd (cimul (xa a) (xb b)) (cimul (xb a) (xa b))).
Definition qxopp (a : qx) := QX (ciopp (xa a)) (ciopp (xb a)).
Definition qxsub (a b : qx) := QX (cisub (xa a) (xa b)) (cisub (xb a) (xb b)).
Definition qxnorm (a : qx) : qci := cisub (cimul (xa a) (xa a)) (cimul D (cimul (xb a) (xb a))).
Definition qxinv (a : qx) := QX (cidiv (xa a) (qxnorm a)) (cidiv (ciopp (xb a)) (qxnorm a)).
Definition qxdiv (a b : qx) := qxmul a (qxinv b).

Lemma ci_sq0 (a : qci) : cimul a a = ci0 -> a = ci0.
Proof. intros E. destruct (ci_dec a ci0) as [|N]; [assumption|]. exfalso.
  apply N. transitivity (cidiv (cimul a a) a); [field; exact N | rewrite E; field; exact N]. Qed.

Lemma qxnorm_nz a : a <> qx0 -> qxnorm a <> ci0.
Proof.
  intros Ha E. unfold qxnorm in E.
  assert (E' : cimul (xa a) (xa a) = cimul D (cimul (xb a) (xb a))).
  { transitivity (ciadd (cisub (cimul (xa a) (xa a)) (cimul D (cimul (xb a) (xb a)))) (cimul D (cimul (xb a) (xb a)))); [ring | rewrite E; ring]. }
  destruct (ci_dec (xb a) ci0) as [Zb|Nb].
  - apply Ha. apply qx_eq; cbn; [|exact Zb]. apply ci_sq0. rewrite E', Zb. ring.
  - apply (Hd (cidiv (xa a) (xb a))). fold D.
    transitivity (cidiv (cimul (xa a) (xa a)) (cimul (xb a) (xb a))); [field; exact Nb | rewrite E'; field; exact Nb].
Qed.

Lemma qx_field : field_theory qx0 qx1 qxadd qxmul qxsub qxopp qxdiv qxinv (@eq qx).
Proof.
  constructor.
  - constructor; intros; apply qx_eq; cbn; ring.
  - intros E. apply (f_equal xa) in E. cbn in E. apply (f_equal re) in E. cbn in E. discriminate.
  - reflexivity.
  - intros p Hp. pose proof (qxnorm_nz p Hp) as Hn.
    apply qx_eq; cbn; fold D; unfold qxnorm in *; fold D in Hn |- *; field; exact Hn.
Qed.
Definition qx_dec (a b : qx) : {a = b} + {a <> b}.
Proof.
  destruct (ci_dec (xa a) (xa b)) as [E1|N1].
  - destruct (ci_dec (xb a) (xb b)) as [E2|N2].
    + left. apply qx_eq; assumption.
    + right. intros E. apply N2. rewrite E. reflexivity.
  - right. intros E. apply N1. rewrite E. reflexivity.
Defined.
Lemma qx_iter_xa (p : positive) (a : qx) : xa (Pos.iter_op qxadd p a) = Pos.iter_op ciadd p (xa a).
Proof. revert a. induction p as [p IH|p IH|]; intros a; cbn [Pos.iter_op]; [cbn [qxadd xa]; rewrite IH | rewrite IH |]; reflexivity. Qed.
Lemma qx_char0 (p : positive) : Pos.iter_op qxadd p qx1 <> qx0.
Proof. intros E. apply (f_equal xa) in E. rewrite qx_iter_xa in E. exact (ci_char0 p E). Qed.

Definition QxF : fld := MkFld qx qx0 qx1 qxadd qxmul qxsub qxopp qxdiv qxinv qx_field qx_dec qx_char0.
End Ext.

(* complex conjugation (sqrt d is real), the imaginary unit, the embedding of Q(i), sqrt d *)
Definition qxconj (a : qx) := QX (ciconj (xa a)) (ciconj (xb a)).
Definition qxj := QX cii ci0.
Definition qxofci (a : qci) := QX a ci0.
Definition qxsqrt := QX ci0 ci1.

Lemma qxj_sq d Hd : @fmul (QxF d Hd) qxj qxj = @fopp (QxF d Hd) (@f1 (QxF d Hd)).
Proof. apply qx_eq; cbn; apply qci_eq; cbn; ring. Qed.
(* sqrt d * sqrt d = d *)
Lemma qxsqrt_sq d Hd : @fmul (QxF d Hd) qxsqrt qxsqrt = qxofci (ciofq (dq d)).
Proof. apply qx_eq; cbn; apply qci_eq; cbn; ring. Qed.
Lemma qxconj_mul d Hd a b : qxconj (@fmul (QxF d Hd) a b) = @fmul (QxF d Hd) (qxconj a) (qxconj b).
Proof. apply qx_eq; cbn; rewrite ?ciconj_add, ?ciconj_mul; f_equal; f_equal; apply qci_eq; cbn; ring. Qed.

Definition nonsq2 : nonsq 2 := prime_nonsq 2 prime_2.
Definition nonsq3 : nonsq 3 := prime_nonsq 3 prime_3.
Definition Qx2F : fld := QxF 2 nonsq2.
Definition Qx3F : fld := QxF 3 nonsq3.

(* further small primes (second-order sections whose natural frequency is q sqrt d) *)
Local Open Scope Z_scope.
Lemma prime_5 : prime 5.
Proof. apply prime_intro; [lia|]. intros n Hn. apply Zgcd_1_rel_prime.
  assert (H : n = 1 \/ n = 2 \/ n = 3 \/ n = 4) by lia. repeat (destruct H as [H|H]; [subst n; reflexivity|]). subst n; reflexivity. Qed.
Lemma prime_7 : prime 7.
Proof. apply prime_intro; [lia|]. intros n Hn. apply Zgcd_1_rel_prime.
  assert (H : n = 1 \/ n = 2 \/ n = 3 \/ n = 4 \/ n = 5 \/ n = 6) by lia. repeat (destruct H as [H|H]; [subst n; reflexivity|]). subst n; reflexivity. Qed.
Lemma prime_13 : prime 13.
Proof. apply prime_intro; [lia|]. intros n Hn. apply Zgcd_1_rel_prime.
  assert (H : n = 1 \/ n = 2 \/ n = 3 \/ n = 4 \/ n = 5 \/ n = 6 \/ n = 7 \/ n = 8 \/ n = 9 \/ n = 10 \/ n = 11 \/ n = 12) by lia. repeat (destruct H as [H|H]; [subst n; reflexivity|]). subst n; reflexivity. Qed.
Lemma prime_17 : prime 17.
Proof. apply prime_intro; [lia|]. intros n Hn. apply Zgcd_1_rel_prime.
  assert (H : n = 1 \/ n = 2 \/ n = 3 \/ n = 4 \/ n = 5 \/ n = 6 \/ n = 7 \/ n = 8 \/ n = 9 \/ n = 10 \/ n = 11 \/ n = 12 \/ n = 13 \/ n = 14 \/ n = 15 \/ n = 16) by lia. repeat (destruct H as [H|H]; [subst n; reflexivity|]). subst n; reflexivity. Qed.
Local Close Scope Z_scope.
Definition nonsq5 : nonsq 5 := prime_nonsq 5 prime_5.
Definition Qx5F : fld := QxF 5 nonsq5.
Definition nonsq7 : nonsq 7 := prime_nonsq 7 prime_7.
Definition Qx7F : fld := QxF 7 nonsq7.
Definition nonsq13 : nonsq 13 := prime_nonsq 13 prime_13.
Definition Qx13F : fld := QxF 13 nonsq13.
Definition nonsq17 : nonsq 17 := prime_nonsq 17 prime_17.
Definition Qx17F : fld := QxF 17 nonsq17.
