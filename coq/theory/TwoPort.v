(* Two-port specification: the defining relation of each parameter
   representation over the port quantities (V1, I1, V2, I2), written from the
   [equation()] methods of lcapy/twoport.py and standard circuit theory
   (currents flow INTO each port).  Scattering/transfer parameters use the
   un-normalised waves a = V + Z0 I, b = V - Z0 I.
   Derived quantities are defined from the port relation (not from formulas). *)
Require Import LT.FieldSec.
Local Open Scope F_scope.

Record mat (K : fld) := Mat { m11 : K; m12 : K; m21 : K; m22 : K }.
Arguments Mat {K}. Arguments m11 {K}. Arguments m12 {K}. Arguments m21 {K}. Arguments m22 {K}.

Section TP.
Variable K : fld.
Add Field KF2 : (fth K).
Implicit Types m t : mat K.

Definition det m : K := m11 m * m22 m - m12 m * m21 m.
(* model of sympy's 2x2 Matrix.inv() (oracle; validated by correspondence) *)
Definition minv m : mat K :=
  Mat (m22 m / det m) (- m12 m / det m) (- m21 m / det m) (m11 m / det m).
Definition mmul m t : mat K :=
  Mat (m11 m * m11 t + m12 m * m21 t) (m11 m * m12 t + m12 m * m22 t)
      (m21 m * m11 t + m22 m * m21 t) (m21 m * m12 t + m22 m * m22 t).
Definition mdivs m (c : K) : mat K := Mat (m11 m / c) (m12 m / c) (m21 m / c) (m22 m / c).
Definition mmuls m (c : K) : mat K := Mat (m11 m * c) (m12 m * c) (m21 m * c) (m22 m * c).
Definition madd m t : mat K := Mat (m11 m + m11 t) (m12 m + m12 t) (m21 m + m21 t) (m22 m + m22 t).

Record port := Port { V1 : K; I1 : K; V2 : K; I2 : K }.
Definition a1 (Z0 : K) (v : port) := V1 v + Z0 * I1 v.
Definition b1 (Z0 : K) (v : port) := V1 v - Z0 * I1 v.
Definition a2 (Z0 : K) (v : port) := V2 v + Z0 * I2 v.
Definition b2 (Z0 : K) (v : port) := V2 v - Z0 * I2 v.

Definition rel_A (Z0 : K) m v := V1 v = m11 m * V2 v + m12 m * (- I2 v) /\ I1 v = m21 m * V2 v + m22 m * (- I2 v).
Definition rel_B (Z0 : K) m v := V2 v = m11 m * V1 v + m12 m * I1 v /\ - I2 v = m21 m * V1 v + m22 m * I1 v.
Definition rel_G (Z0 : K) m v := I1 v = m11 m * V1 v + m12 m * I2 v /\ V2 v = m21 m * V1 v + m22 m * I2 v.
Definition rel_H (Z0 : K) m v := V1 v = m11 m * I1 v + m12 m * V2 v /\ I2 v = m21 m * I1 v + m22 m * V2 v.
Definition rel_Y (Z0 : K) m v := I1 v = m11 m * V1 v + m12 m * V2 v /\ I2 v = m21 m * V1 v + m22 m * V2 v.
Definition rel_Z (Z0 : K) m v := V1 v = m11 m * I1 v + m12 m * I2 v /\ V2 v = m21 m * I1 v + m22 m * I2 v.
Definition rel_S (Z0 : K) m v := b1 Z0 v = m11 m * a1 Z0 v + m12 m * a2 Z0 v /\ b2 Z0 v = m21 m * a1 Z0 v + m22 m * a2 Z0 v.
Definition rel_T (Z0 : K) m v := b1 Z0 v = m11 m * a2 Z0 v + m12 m * b2 Z0 v /\ a1 Z0 v = m21 m * a2 Z0 v + m22 m * b2 Z0 v.

(* Derived quantities, defined from the port relation [R]: the quantity has
   value q iff, on every port state allowed by R under the stated termination,
   numerator = q * denominator. *)
Definition is_ratio (R : port -> Prop) (term num den : port -> K) (q : K) : Prop :=
  forall v, R v -> term v = 0 -> num v = q * den v.
Definition is_Z1oc R := is_ratio R (@I2) (@V1) (@I1).
Definition is_Z1sc R := is_ratio R (@V2) (@V1) (@I1).
Definition is_Z2oc R := is_ratio R (@I1) (@V2) (@I2).
Definition is_Z2sc R := is_ratio R (@V1) (@V2) (@I2).
Definition is_Vgain12 R := is_ratio R (@I2) (@V2) (@V1).
Definition is_Vgain21 R := is_ratio R (@I1) (@V1) (@V2).
Definition is_Igain12 R := is_ratio R (@V2) (@I2) (@I1).
Definition is_Igain21 R := is_ratio R (@V1) (@I1) (@I2).
Definition is_forward_transadmittance R := is_ratio R (@V2) (@I2) (@V1).
Definition is_reverse_transadmittance R := is_ratio R (@V1) (@I1) (@V2).
Definition is_forward_transimpedance R := is_ratio R (@I2) (@V2) (@I1).
Definition is_reverse_transimpedance R := is_ratio R (@I1) (@V1) (@I2).

(* cascade: port 2 of the first two-port drives port 1 of the second *)
Definition cascade (R1 R2 : port -> Prop) (v : port) : Prop :=
  exists Vm Im, R1 (Port (V1 v) (I1 v) Vm (- Im)) /\ R2 (Port Vm Im (V2 v) (I2 v)).

(* the ratio is a well-defined function of the relation when some admissible
   state has a non-zero denominator (non-vacuity of is_ratio) *)
Lemma is_ratio_unique R term num den q q' v :
  is_ratio R term num den q -> is_ratio R term num den q' ->
  R v -> term v = 0 -> den v <> 0 -> q = q'.
Proof. intros H H' Rv Tv Dv. pose proof (H v Rv Tv) as E. pose proof (H' v Rv Tv) as E'.
  rewrite E in E'. assert (q * den v / den v = q' * den v / den v) as X by (rewrite E'; reflexivity).
  transitivity (q * den v / den v); [field; exact Dv|]. rewrite X. field; exact Dv. Qed.
End TP.

Arguments det {K}. Arguments minv {K}. Arguments mmul {K}. Arguments mdivs {K}. Arguments mmuls {K}. Arguments madd {K}.
Arguments Port {K}. Arguments V1 {K}. Arguments I1 {K}. Arguments V2 {K}. Arguments I2 {K}.
Arguments rel_A {K}. Arguments rel_B {K}. Arguments rel_G {K}. Arguments rel_H {K}.
Arguments rel_Y {K}. Arguments rel_Z {K}. Arguments rel_S {K}. Arguments rel_T {K}.
Arguments a1 {K}. Arguments a2 {K}. Arguments b1 {K}. Arguments b2 {K}.
Arguments is_ratio {K}. Arguments cascade {K}.
Arguments is_Z1oc {K}. Arguments is_Z1sc {K}. Arguments is_Z2oc {K}. Arguments is_Z2sc {K}.
Arguments is_Vgain12 {K}. Arguments is_Vgain21 {K}. Arguments is_Igain12 {K}. Arguments is_Igain21 {K}.
Arguments is_forward_transadmittance {K}. Arguments is_reverse_transadmittance {K}.
Arguments is_forward_transimpedance {K}. Arguments is_reverse_transimpedance {K}.

Ltac tp_unfold :=
  cbv [rel_A rel_B rel_G rel_H rel_Y rel_Z rel_S rel_T a1 a2 b1 b2 is_ratio cascade
       is_Z1oc is_Z1sc is_Z2oc is_Z2sc is_Vgain12 is_Vgain21 is_Igain12 is_Igain21
       is_forward_transadmittance is_reverse_transadmittance
       is_forward_transimpedance is_reverse_transimpedance
       det minv mmul mdivs mmuls madd m11 m12 m21 m22 V1 I1 V2 I2] in *.
(* one equation between field expressions that follows from polynomial
   hypotheses: clear denominators, then Groebner certificate *)
Ltac gb := subst_zero_vars; first [ knsatz | wit_one_then knsatz | wit_all; knsatz ].
Ltac eq_from_hyps :=
  first [ fsolve
        | (field_simplify_eq; [ gb | nz ])
        | gb ].

Lemma mat_eq {K : fld} (a b c d a' b' c' d' : K) :
  a = a' -> b = b' -> c = c' -> d = d' -> Mat a b c d = Mat a' b' c' d'.
Proof. intros; subst; reflexivity. Qed.
