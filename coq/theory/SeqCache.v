(* C13: the result caches of the discrete-time transformer classes (lcapy/transformer.py: doit of
   UnilateralForwardTransformer / UnilateralInverseTransformer / BilateralForwardTransformer).

   A request is (expr, var, conjvar, keyword arguments).  The code stores what `term` computed under `self.key(...)`
   and returns the stored value on a later request with an equal key.  What `term`/`check` read of the request is its
   VIEW.  keyed_cache_transparent: if equal keys imply equal views (on requests that pass the signature check), every
   history of calls returns what fresh computations would return, for EVERY function `compute` of the view.
   keyed_cache_needs_key: the condition is necessary - two requests with equal keys and different views give a function
   and a two-call history on which the cache returns a wrong value.  The key_of / view_of / valid of each class are
   regenerated from the source on every run (tools/tr_dtkeys.py). *)
From Coq Require Import List Bool String ZArith.
Import ListNotations.
Local Open Scope string_scope.

Section KeyedCache.
Variables (Req Key View R Cst : Type).
Variable keq : Key -> Key -> bool.
Hypothesis keq_eq : forall a b, keq a b = true <-> a = b.
Variable key_of : Req -> Key.
Variable view_of : Req -> View.
Variable valid : Req -> Prop.
Variable compute : View -> R.
Variable scale : Cst -> R -> R.

Definition kcache := list (Key * R).
Fixpoint klookup (c : kcache) (k : Key) : option R :=
  match c with
  | [] => None
  | (k', r) :: t => if keq k' k then Some r else klookup t k
  end.

(* one call of doit: (consult the cache?, constant factor split off by factor_const, request).
   `self.cache[key] = result` overwrites: the newest binding is found first. *)
Definition kdoit (c : kcache) (q : bool * Cst * Req) : kcache * R :=
  let '(use, cst, r) := q in
  let k := key_of r in
  match (if use then klookup c k else None) with
  | Some v => (c, scale cst v)
  | None => let v := compute (view_of r) in ((k, v) :: c, scale cst v)
  end.

Fixpoint krun (c : kcache) (qs : list (bool * Cst * Req)) : list R :=
  match qs with
  | [] => []
  | q :: t => let '(c', v) := kdoit c q in v :: krun c' t
  end.

Definition fresh (q : bool * Cst * Req) : R := scale (snd (fst q)) (compute (view_of (snd q))).

Definition kcache_ok (c : kcache) : Prop :=
  forall k v, klookup c k = Some v -> forall r, valid r -> key_of r = k -> v = compute (view_of r).

Lemma kcache_ok_nil : kcache_ok []. Proof. intros k v H. discriminate. Qed.

Section Transparent.
Hypothesis key_det : forall r1 r2, valid r1 -> valid r2 -> key_of r1 = key_of r2 -> view_of r1 = view_of r2.

Lemma kdoit_transparent c q : kcache_ok c -> valid (snd q) ->
  snd (kdoit c q) = fresh q /\ kcache_ok (fst (kdoit c q)).
Proof.
  destruct q as [[use cst] r]. intros Hc Hv. cbn [snd] in Hv. unfold kdoit, fresh. cbn [fst snd].
  destruct (if use then klookup c (key_of r) else None) as [v|] eqn:E.
  - cbn [fst snd]. split; [|exact Hc].
    destruct use; [|discriminate]. rewrite (Hc _ _ E r Hv eq_refl). reflexivity.
  - cbn [fst snd]. split; [reflexivity|].
    intros k v H r' Hv' Hk. cbn [klookup] in H.
    destruct (keq (key_of r) k) eqn:Ek.
    + injection H as <-. apply keq_eq in Ek. f_equal. apply key_det; [exact Hv|exact Hv'|congruence].
    + exact (Hc _ _ H r' Hv' Hk).
Qed.

Theorem keyed_cache_transparent qs : forall c, kcache_ok c -> Forall (fun q => valid (snd q)) qs ->
  krun c qs = map fresh qs.
Proof.
  induction qs as [|q t IH]; intros c Hc Hq; [reflexivity|].
  inversion Hq as [|? ? Hv Ht]; subst.
  destruct (kdoit_transparent c q Hc Hv) as [H1 H2].
  cbn [krun map]. destruct (kdoit c q) as [c' v]. cbn [fst snd] in *. rewrite H1, (IH c' H2 Ht). reflexivity.
Qed.

Corollary keyed_cache_history_independent qs : Forall (fun q => valid (snd q)) qs -> krun [] qs = map fresh qs.
Proof. apply keyed_cache_transparent. apply kcache_ok_nil. Qed.
End Transparent.
End KeyedCache.

(* necessity: a key that does not determine the view is wrong for some `term` *)
Section Needs.
Variables (Req Key View : Type).
Variable keq : Key -> Key -> bool.
Hypothesis keq_eq : forall a b, keq a b = true <-> a = b.
Variable veq : View -> View -> bool.
Hypothesis veq_eq : forall a b, veq a b = true <-> a = b.
Variable key_of : Req -> Key.
Variable view_of : Req -> View.

Theorem keyed_cache_needs_key r1 r2 : key_of r1 = key_of r2 -> view_of r1 <> view_of r2 ->
  exists compute : View -> bool,
    krun Req Key View bool unit keq key_of view_of compute (fun _ v => v) [] [(true, tt, r1); (true, tt, r2)]
    <> map (fresh Req View bool unit view_of compute (fun _ v => v)) [(true, tt, r1); (true, tt, r2)].
Proof.
  intros Hk Hv. exists (fun v => veq (view_of r1) v).
  cbn [krun kdoit klookup map fresh fst snd].
  assert (E : keq (key_of r1) (key_of r2) = true) by (apply keq_eq; exact Hk).
  rewrite E. cbn [fst snd].
  assert (E1 : veq (view_of r1) (view_of r1) = true) by (apply veq_eq; reflexivity).
  assert (E2 : veq (view_of r1) (view_of r2) = false).
  { destruct (veq (view_of r1) (view_of r2)) eqn:E2; [|reflexivity]. apply veq_eq in E2. contradiction. }
  unfold fresh; cbn [fst snd]. rewrite E1, E2. intros H. inversion H.
Qed.
End Needs.

(* ---- keyword arguments -------------------------------------------------------------------------------- *)
Section Kwargs.
Variable A : Type.                  (* any other Python value (a SymPy expression, oo, ...) *)
Variable tr : A -> bool.            (* its truth value *)
Inductive val := VNone | VBool (b : bool) | VInt (z : Z) | VOther (a : A).
Definition kwargs := list (string * val).
Fixpoint kwfind (n : string) (kw : kwargs) : option val :=
  match kw with
  | [] => None
  | (m, v) :: t => if String.eqb m n then Some v else kwfind n t
  end.
(* kwargs.get(n, d)  and a named parameter  n=d  filled from **kwargs *)
Definition kwget (n : string) (d : val) (kw : kwargs) : val := match kwfind n kw with Some v => v | None => d end.
(* kwargs.pop(n, d) / a named parameter of the callee removes the entry from what is passed on *)
Fixpoint kwdel (n : string) (kw : kwargs) : kwargs :=
  match kw with
  | [] => []
  | (m, v) :: t => if String.eqb m n then kwdel n t else (m, v) :: kwdel n t
  end.
Definition truthy (v : val) : bool :=
  match v with VNone => false | VBool b => b | VInt z => negb (Z.eqb z 0) | VOther a => tr a end.

Lemma kwfind_kwdel_other n m kw : n <> m -> kwfind n (kwdel m kw) = kwfind n kw.
Proof.
  intros Hn. induction kw as [|[x v] t IH]; [reflexivity|]. cbn [kwdel kwfind].
  destruct (String.eqb x m) eqn:Em.
  - apply String.eqb_eq in Em. subst x. destruct (String.eqb m n) eqn:En; [apply String.eqb_eq in En; congruence|exact IH].
  - cbn [kwfind]. rewrite IH. reflexivity.
Qed.
Lemma kwget_kwdel_other n m d kw : n <> m -> kwget n d (kwdel m kw) = kwget n d kw.
Proof. intros H. unfold kwget. rewrite kwfind_kwdel_other by exact H. reflexivity. Qed.

(* the same default on both sides *)
Lemma kwget_same n d a b : kwget n d a = kwget n d b -> kwget n d a = kwget n d b.
Proof. exact (fun H => H). Qed.
(* the key stores kwargs.get(n, d1); the consumer only tests the truth value of kwargs.get(n, d2) *)
Lemma kwget_truthy_default n d1 d2 a b : truthy d1 = truthy d2 ->
  kwget n d1 a = kwget n d1 b -> truthy (kwget n d2 a) = truthy (kwget n d2 b).
Proof.
  unfold kwget. intros Hd. destruct (kwfind n a) as [va|], (kwfind n b) as [vb|]; intros H.
  - rewrite H. reflexivity.
  - rewrite H. exact Hd.
  - rewrite <- H. symmetry. exact Hd.
  - reflexivity.
Qed.
Lemma kwget_truthy_same n d a b : kwget n d a = kwget n d b -> truthy (kwget n d a) = truthy (kwget n d b).
Proof. intros H. rewrite H. reflexivity. Qed.
(* a required parameter (no default): both requests supply it *)
Lemma kwget_required n d a b : kwfind n a <> None -> kwfind n b <> None ->
  kwget n d a = kwget n d b -> kwfind n a = kwfind n b.
Proof.
  unfold kwget. destruct (kwfind n a) as [va|], (kwfind n b) as [vb|]; intros Ha Hb H; try congruence.
Qed.

Record req (E V : Type) := MkReq { r_expr : E; r_var : V; r_conj : V; r_kw : kwargs }.
End Kwargs.

Arguments VNone {A}.
Arguments VBool {A} b.
Arguments VInt {A} z.
Arguments VOther {A} a.
Arguments kwfind {A} n kw.
Arguments kwget {A} n d kw.
Arguments kwdel {A} n kw.
Arguments truthy {A} tr v.
Arguments r_expr {A E V} r.
Arguments r_var {A E V} r.
Arguments r_conj {A E V} r.
Arguments r_kw {A E V} r.
