(* C07 - one-port network algebra (lcapy/oneport.py).

   Trees  Leaf | Ser (list) | Par (list)  over an arbitrary leaf type [L]; what a
   leaf's __init__ sets is the record [ldata] (which of _Z/_Y/_Voc/_Isc, and to
   what) - the table  L -> ldata  is regenerated from the source on every run
   (tools/tr_oneport.py).

   SPECIFICATION  [sem t v i]: the affine terminal relation of the physical
   network.  v = potential of the + terminal minus that of the - terminal,
   i = current flowing OUT of the + terminal into the external circuit
   (doc-string of OnePort.Isc).  Series: same current, voltages add; parallel:
   same voltage, currents add.

   MODEL (H) of the algebra:  OnePort.impedance/admittance/Voc/Isc fall-backs
   ([lZ lY lVoc lIsc]), Ser.impedance/Voc, Par.admittance/Isc ([imm], [src]),
   and ParSer.Voc/Isc with their guard ([srcc]; the netlist route they call is
   represented by the value the specification determines, which is what
   [OnePortNet.netlist_of_tree_sem] + C01 justify).

   Everything is over an arbitrary characteristic-0 field; axiom-free. *)
Require Import LT.FieldSec.
Local Open Scope F_scope.

Record ldata (K : fld) := LD { oZ : option K; oY : option K; oVoc : option K; oIsc : option K }.
Arguments LD {K}. Arguments oZ {K}. Arguments oY {K}. Arguments oVoc {K}. Arguments oIsc {K}.

Inductive tree (L : Type) := Leaf (l : L) | Ser (ts : list (tree L)) | Par (ts : list (tree L)).
Arguments Leaf {L}. Arguments Ser {L}. Arguments Par {L}.

Section TreeInd.
Variable L : Type.
Variable P : tree L -> Prop.
Hypothesis HL : forall l, P (Leaf l).
Hypothesis HS : forall ts, Forall P ts -> P (Ser ts).
Hypothesis HP : forall ts, Forall P ts -> P (Par ts).
Fixpoint tree_ind' (t : tree L) : P t :=
  match t with
  | Leaf l => HL l
  | Ser ts => HS ts ((fix go ts : Forall P ts := match ts with [] => Forall_nil _ | t :: r => Forall_cons _ (tree_ind' t) (go r) end) ts)
  | Par ts => HP ts ((fix go ts : Forall P ts := match ts with [] => Forall_nil _ | t :: r => Forall_cons _ (tree_ind' t) (go r) end) ts)
  end.
End TreeInd.

Section OnePort.
Variable K : fld.
Add Field KFop : (fth K).
Variable L : Type.
Variable ld : L -> ldata K.
Notation tree := (tree L).

Fixpoint fsum (l : list K) : K := match l with [] => 0 | x :: r => x + fsum r end.
Lemma fsum_app l1 l2 : fsum (l1 ++ l2) = fsum l1 + fsum l2.
Proof. induction l1 as [|x l1 IH]; cbn [fsum app]; [ring | rewrite IH; ring]. Qed.

(* sympy's complex infinity: what 1/impedance(0) evaluates to.  It is junk in a
   field; no theorem below depends on its value. *)
Definition zoo : K := 1 / 0.

(* ---- OnePort.impedance / admittance / Voc / Isc (the fall-back chains) ---- *)
Definition lZ (d : ldata K) : K :=
  match oZ d with Some z => z | None =>
  match oY d with Some y => 1 / y | None =>
  match oVoc d with Some _ => 0 | None => zoo end end end.
(* admittance = _Y, else 1 / impedance  (1/zoo is 0, 1/0 is zoo in sympy) *)
Definition lY (d : ldata K) : K :=
  match oY d with Some y => y | None =>
  match oZ d with Some z => 1 / z | None =>
  match oVoc d with Some _ => zoo | None => 0 end end end.
Definition lVoc (d : ldata K) : K :=
  match oVoc d with Some e => e | None =>
  match oIsc d with Some j => j * lZ d | None => 0 end end.
Definition lIsc (d : ldata K) : K :=
  match oIsc d with Some j => j | None => lVoc d * lY d end.

(* ---- specification of a leaf: its terminal relation, read off which
   attributes it defines (tied to the text-book law of each class by the
   generated lemmas leaf_phys_<Class>) ------------------------------------- *)
Definition oget (o : option K) : K := match o with Some x => x | None => 0 end.
Definition lsem (d : ldata K) (v i : K) : Prop :=
  match oZ d, oY d, oVoc d, oIsc d with
  | Some z, None, ov, None => v = oget ov - z * i          (* Thevenin form: R L C Z CPE W ... *)
  | None, Some y, None, oi => i = oget oi - y * v          (* Norton form: Y O ...            *)
  | None, None, Some e, None => v = e                      (* ideal voltage source            *)
  | None, None, None, Some j => i = j                      (* ideal current source            *)
  | _, _, _, _ => False
  end.
Definition thev_l (d : ldata K) : Prop :=
  match oZ d, oY d, oVoc d, oIsc d with
  | Some z, None, _, None => True
  | None, Some y, None, _ => y <> 0
  | None, None, Some e, None => True
  | _, _, _, _ => False
  end.
Definition nort_l (d : ldata K) : Prop :=
  match oZ d, oY d, oVoc d, oIsc d with
  | Some z, None, _, None => z <> 0
  | None, Some y, None, _ => True
  | None, None, None, Some j => True
  | _, _, _, _ => False
  end.

Lemma leaf_thevenin d : thev_l d -> forall v i, lsem d v i <-> v = lVoc d - lZ d * i.
Proof.
  unfold thev_l, lsem, lVoc, lZ, oget. destruct d as [[z|] [y|] [e|] [j|]]; cbn [oZ oY oVoc oIsc]; intros H v i;
  try contradiction; split; intros E; subst; try (field; assumption); try ring.
Qed.
Lemma leaf_norton d : nort_l d -> forall v i, lsem d v i <-> i = lIsc d - lY d * v.
Proof.
  unfold nort_l, lsem, lIsc, lVoc, lY, lZ, oget. destruct d as [[z|] [y|] [e|] [j|]]; cbn [oZ oY oVoc oIsc]; intros H v i;
  try contradiction; split; intros E; subst; try (field; assumption); try ring.
Qed.

(* ---- specification of a tree ---------------------------------------------- *)
Section Inner.
Variable f : tree -> K -> K -> Prop.
Fixpoint ser_sem (ts : list tree) (v i : K) : Prop :=
  match ts with [] => v = 0 | t :: r => exists v1 v2, f t v1 i /\ ser_sem r v2 i /\ v = v1 + v2 end.
Fixpoint par_sem (ts : list tree) (v i : K) : Prop :=
  match ts with [] => i = 0 | t :: r => exists i1 i2, f t v i1 /\ par_sem r v i2 /\ i = i1 + i2 end.
End Inner.
Fixpoint sem (t : tree) : K -> K -> Prop :=
  match t with Leaf l => lsem (ld l) | Ser ts => ser_sem sem ts | Par ts => par_sem sem ts end.

(* ---- Ser.impedance, Ser.admittance, Par.admittance, Par.impedance --------- *)
Fixpoint imm (t : tree) : K * K :=
  match t with
  | Leaf l => (lZ (ld l), lY (ld l))
  | Ser ts => let z := fsum (map (fun t => fst (imm t)) ts) in (z, 1 / z)
  | Par ts => let y := fsum (map (fun t => snd (imm t)) ts) in (1 / y, y)
  end.
Definition Zt t := fst (imm t).
Definition Yt t := snd (imm t).
(* ---- open-circuit voltage and short-circuit current: the value determined
   by the specification (what nodal analysis of the emitted netlist returns) *)
Fixpoint src (t : tree) : K * K :=
  match t with
  | Leaf l => (lVoc (ld l), lIsc (ld l))
  | Ser ts => let e := fsum (map (fun t => fst (src t)) ts) in (e, e * (1 / fsum (map Zt ts)))
  | Par ts => let j := fsum (map (fun t => snd (src t)) ts) in (j * (1 / fsum (map Yt ts)), j)
  end.
Definition Voc t := fst (src t).
Definition Isc t := snd (src t).

(* ---- the premise of the property ------------------------------------------
   fst: a Thevenin form exists; snd: a Norton form exists.  An ideal voltage
   source has no Norton form, so it cannot be an argument of Par (no ideal V
   shunted); an ideal current source has no Thevenin form, so it cannot be an
   argument of Ser (no ideal I in series).  The inequalities are the divisions
   the algebra performs. *)
Section AllP.
Variable p : tree -> Prop.
Fixpoint allp (ts : list tree) : Prop := match ts with [] => True | t :: r => p t /\ allp r end.
End AllP.
Fixpoint adm (t : tree) : Prop * Prop :=
  match t with
  | Leaf l => (thev_l (ld l), nort_l (ld l))
  | Ser ts => (allp (fun t => fst (adm t)) ts,
               allp (fun t => fst (adm t)) ts /\ fsum (map Zt ts) <> 0)
  | Par ts => (allp (fun t => snd (adm t)) ts /\ fsum (map Yt ts) <> 0,
               allp (fun t => snd (adm t)) ts)
  end.
Definition admissible t := fst (adm t).
Definition admissibleN t := snd (adm t).

Lemma Zt_Ser ts : Zt (Ser ts) = fsum (map Zt ts). Proof. reflexivity. Qed.
Lemma Yt_Ser ts : Yt (Ser ts) = 1 / fsum (map Zt ts). Proof. reflexivity. Qed.
Lemma Yt_Par ts : Yt (Par ts) = fsum (map Yt ts). Proof. reflexivity. Qed.
Lemma Zt_Par ts : Zt (Par ts) = 1 / fsum (map Yt ts). Proof. reflexivity. Qed.
Lemma Voc_Ser ts : Voc (Ser ts) = fsum (map Voc ts). Proof. reflexivity. Qed.
Lemma Isc_Par ts : Isc (Par ts) = fsum (map Isc ts). Proof. reflexivity. Qed.
Lemma Isc_Ser ts : Isc (Ser ts) = fsum (map Voc ts) * (1 / fsum (map Zt ts)). Proof. reflexivity. Qed.
Lemma Voc_Par ts : Voc (Par ts) = fsum (map Isc ts) * (1 / fsum (map Yt ts)). Proof. reflexivity. Qed.

Lemma ser_list ts :
  Forall (fun t => forall v i, sem t v i <-> v = Voc t - Zt t * i) ts ->
  forall v i, ser_sem sem ts v i <-> v = fsum (map Voc ts) - fsum (map Zt ts) * i.
Proof.
  induction 1 as [|t r Ht Hr IH]; intros v i; cbn [ser_sem map fsum].
  - split; intros E; rewrite E; ring.
  - split.
    + intros [v1 [v2 [S1 [S2 E]]]]. apply Ht in S1. apply IH in S2. rewrite E, S1, S2. ring.
    + intros E. exists (Voc t - Zt t * i), (fsum (map Voc r) - fsum (map Zt r) * i).
      split; [apply Ht; reflexivity|]. split; [apply IH; reflexivity|]. rewrite E. ring.
Qed.
Lemma par_list ts :
  Forall (fun t => forall v i, sem t v i <-> i = Isc t - Yt t * v) ts ->
  forall v i, par_sem sem ts v i <-> i = fsum (map Isc ts) - fsum (map Yt ts) * v.
Proof.
  induction 1 as [|t r Ht Hr IH]; intros v i; cbn [par_sem map fsum].
  - split; intros E; rewrite E; ring.
  - split.
    + intros [i1 [i2 [S1 [S2 E]]]]. apply Ht in S1. apply IH in S2. rewrite E, S1, S2. ring.
    + intros E. exists (Isc t - Yt t * v), (fsum (map Isc r) - fsum (map Yt r) * v).
      split; [apply Ht; reflexivity|]. split; [apply IH; reflexivity|]. rewrite E. ring.
Qed.

Lemma allp_Forall (p q : tree -> Prop) ts :
  Forall (fun t => p t -> q t) ts -> allp p ts -> Forall q ts.
Proof. induction 1 as [|t r H _ IH]; cbn [allp]; intros A; constructor; [apply H; tauto | apply IH; tauto]. Qed.

(* both normal forms at once (the induction needs both) *)
Theorem oneport_forms (t : tree) :
  (admissible t -> forall v i, sem t v i <-> v = Voc t - Zt t * i) /\
  (admissibleN t -> forall v i, sem t v i <-> i = Isc t - Yt t * v).
Proof.
  induction t as [l|ts IH|ts IH] using tree_ind'; unfold admissible, admissibleN; cbn [adm fst snd sem].
  - split; [apply leaf_thevenin | apply leaf_norton].
  - assert (T : allp (fun t => fst (adm t)) ts -> forall v i, ser_sem sem ts v i <-> v = Voc (Ser ts) - Zt (Ser ts) * i).
    { intros A. rewrite Voc_Ser, Zt_Ser. apply ser_list.
      apply (allp_Forall (fun t => fst (adm t))); [|exact A].
      eapply Forall_impl; [|exact IH]. intros t [H _]. exact H. }
    split; [exact T|]. intros [A Hz] v i. rewrite (T A v i), Isc_Ser, Yt_Ser, Voc_Ser, Zt_Ser.
    set (e := fsum (map Voc ts)) in *. set (z := fsum (map Zt ts)) in *.
    split; intros E.
    + rewrite E. field. exact Hz.
    + transitivity (e - z * (e * (1 / z) - 1 / z * v)); [field; exact Hz | rewrite <- E; reflexivity].
  - assert (T : allp (fun t => snd (adm t)) ts -> forall v i, par_sem sem ts v i <-> i = Isc (Par ts) - Yt (Par ts) * v).
    { intros A. rewrite Isc_Par, Yt_Par. apply par_list.
      apply (allp_Forall (fun t => snd (adm t))); [|exact A].
      eapply Forall_impl; [|exact IH]. intros t [_ H]. exact H. }
    split; [|exact T]. intros [A Hy] v i. rewrite (T A v i), Voc_Par, Zt_Par, Isc_Par, Yt_Par.
    set (j := fsum (map Isc ts)) in *. set (y := fsum (map Yt ts)) in *.
    split; intros E.
    + rewrite E. field. exact Hy.
    + transitivity (j - y * (j * (1 / y) - 1 / y * i)); [field; exact Hy | rewrite <- E; reflexivity].
Qed.

(* C07, one-ports: for every admissible tree the terminal relation of the
   physical network is exactly  v = Voc - Z i  with the algebra's Voc and Z *)
Theorem oneport_sem (t : tree) : admissible t -> forall v i, sem t v i <-> v = Voc t - Zt t * i.
Proof. exact (proj1 (oneport_forms t)). Qed.
Theorem oneport_sem_norton (t : tree) : admissibleN t -> forall v i, sem t v i <-> i = Isc t - Yt t * v.
Proof. exact (proj2 (oneport_forms t)). Qed.

(* consequences: Voc is THE open-circuit voltage, Isc THE short-circuit current,
   Z the driving-point impedance of the specification *)
Corollary Voc_is_open_circuit_voltage t : admissible t -> forall v, sem t v 0 <-> v = Voc t.
Proof. intros A v. rewrite (oneport_sem t A). split; intros E; rewrite E; ring. Qed.
Corollary Isc_is_short_circuit_current t : admissibleN t -> forall i, sem t 0 i <-> i = Isc t.
Proof. intros A i. rewrite (oneport_sem_norton t A). split; intros E; rewrite E; ring. Qed.
Corollary Z_is_driving_point_impedance t : admissible t ->
  forall v1 i1 v2 i2, sem t v1 i1 -> sem t v2 i2 -> v1 - v2 = - (Zt t) * (i1 - i2).
Proof. intros A v1 i1 v2 i2 S1 S2. apply (oneport_sem t A) in S1. apply (oneport_sem t A) in S2. rewrite S1, S2. ring. Qed.
Corollary Y_is_reciprocal_of_Z t : admissible t -> admissibleN t -> Zt t * Yt t = 1.
Proof.
  intros A B.
  assert (S0 : sem t (Voc t) 0) by (apply (oneport_sem t A); ring).
  assert (S1 : sem t (Voc t - Zt t * 1) 1) by (apply (oneport_sem t A); ring).
  apply (oneport_sem_norton t B) in S0. apply (oneport_sem_norton t B) in S1.
  transitivity ((Isc t - Yt t * (Voc t - Zt t * 1)) - (Isc t - Yt t * Voc t)); [ring|].
  rewrite <- S0, <- S1. ring.
Qed.
Corollary Isc_is_Voc_times_Y t : admissible t -> admissibleN t -> Isc t = Voc t * Yt t.
Proof.
  intros A B.
  assert (S0 : sem t (Voc t) 0) by (apply (oneport_sem t A); ring).
  apply (oneport_sem_norton t B) in S0.
  transitivity (Isc t - Yt t * Voc t + Voc t * Yt t); [ring | rewrite <- S0; ring].
Qed.

(* ---- ParSer.Voc / ParSer.Isc as coded: guarded by a flag -------------------
   [gl l] is the value of the guard expression for a leaf (regenerated from
   the `if` test of ParSer.Voc/Isc and the has_independent_source / zeroic
   definitions); for Ser/Par the guard is "any argument". *)
Variable gl : L -> bool.
Fixpoint guard (t : tree) : bool :=
  match t with Leaf l => gl l | Ser ts => existsb guard ts | Par ts => existsb guard ts end.
Fixpoint srcc (t : tree) : K * K :=
  match t with
  | Leaf l => (lVoc (ld l), lIsc (ld l))
  | Ser ts => (fsum (map (fun t => fst (srcc t)) ts),               (* Ser.Voc: sum of the arguments' Voc *)
               if existsb guard ts then Isc (Ser ts) else 0)        (* ParSer.Isc: netlist route or 0      *)
  | Par ts => (if existsb guard ts then Voc (Par ts) else 0,        (* ParSer.Voc                          *)
               fsum (map (fun t => snd (srcc t)) ts))               (* Par.Isc: sum of the arguments' Isc *)
  end.
Definition Voc_code t := fst (srcc t).
Definition Isc_code t := snd (srcc t).

(* the guard is sound when a leaf with guard = false really has no source *)
Definition leaf_guard_sound : Prop := forall l, gl l = false -> lVoc (ld l) = 0 /\ lIsc (ld l) = 0.

Lemma fsum_zero (l : list K) : Forall (fun x => x = 0) l -> fsum l = 0.
Proof. induction 1 as [|x r E _ IH]; cbn [fsum]; [reflexivity | rewrite E, IH; ring]. Qed.

Lemma guard_sound (t : tree) : leaf_guard_sound -> guard t = false -> Voc t = 0 /\ Isc t = 0.
Proof.
  intros G. induction t as [l|ts IH|ts IH] using tree_ind'; cbn [guard]; intros E.
  - apply G. exact E.
  - assert (Z0 : fsum (map Voc ts) = 0).
    { apply fsum_zero. clear - IH E. induction IH as [|t r H _ IHr]; cbn [map]; constructor;
        cbn [existsb] in E; apply orb_false_iff in E; destruct E as [E1 E2]; [apply H; exact E1 | apply IHr; exact E2]. }
    rewrite Voc_Ser, Isc_Ser, Z0. split; ring.
  - assert (Z0 : fsum (map Isc ts) = 0).
    { apply fsum_zero. clear - IH E. induction IH as [|t r H _ IHr]; cbn [map]; constructor;
        cbn [existsb] in E; apply orb_false_iff in E; destruct E as [E1 E2]; [apply H; exact E1 | apply IHr; exact E2]. }
    rewrite Voc_Par, Isc_Par, Z0. split; ring.
Qed.

(* what the code computes equals what the specification determines *)
Theorem code_eq_spec (t : tree) : leaf_guard_sound -> Voc_code t = Voc t /\ Isc_code t = Isc t.
Proof.
  intros G. induction t as [l|ts IH|ts IH] using tree_ind'; unfold Voc_code, Isc_code; cbn [srcc fst snd].
  - split; reflexivity.
  - assert (E : map (fun t => fst (srcc t)) ts = map Voc ts).
    { clear - IH. induction IH as [|t r [H _] _ IHr]; cbn [map]; [reflexivity | rewrite IHr; f_equal; exact H]. }
    rewrite E. split; [reflexivity|].
    destruct (existsb guard ts) eqn:Eg; [reflexivity|]. symmetry. apply (guard_sound (Ser ts) G). exact Eg.
  - assert (E : map (fun t => snd (srcc t)) ts = map Isc ts).
    { clear - IH. induction IH as [|t r [_ H] _ IHr]; cbn [map]; [reflexivity | rewrite IHr; f_equal; exact H]. }
    rewrite E. split; [|reflexivity].
    destruct (existsb guard ts) eqn:Eg; [reflexivity|]. symmetry. apply (guard_sound (Par ts) G). exact Eg.
Qed.

Corollary oneport_sem_code (t : tree) : leaf_guard_sound -> admissible t ->
  forall v i, sem t v i <-> v = Voc_code t - Zt t * i.
Proof. intros G A v i. rewrite (proj1 (code_eq_spec t G)). apply oneport_sem. exact A. Qed.
End OnePort.

Arguments fsum {K}. Arguments zoo {K}. Arguments lZ {K}. Arguments lY {K}. Arguments lVoc {K}. Arguments lIsc {K}.
Arguments lsem {K}. Arguments thev_l {K}. Arguments nort_l {K}. Arguments oget {K}.
Arguments sem {K L}. Arguments ser_sem {K L}. Arguments par_sem {K L}.
Arguments imm {K L}. Arguments Zt {K L}. Arguments Yt {K L}. Arguments src {K L}. Arguments Voc {K L}. Arguments Isc {K L}.
Arguments adm {K L}. Arguments admissible {K L}. Arguments admissibleN {K L}. Arguments allp {L}.
Arguments guard {L}. Arguments srcc {K L}. Arguments Voc_code {K L}. Arguments Isc_code {K L}.
Arguments leaf_guard_sound {K L}.
