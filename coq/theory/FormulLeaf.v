(* C15 - vocabulary of the branch relations printed by
   OnePort.current_equation / voltage_equation (lcapy/oneport.py), which the
   translator tools/tr_formul.py regenerates into Gen.FormulLeafGen.

   kinds: the string the methods branch on.
   parameters: what the methods read from the component.  [lZ] is the value of
     self._Z, [lZk] the value of self._Zkind(kind) (computed by Lcapy's domain
     transforms - an oracle: that it is the impedance of the element in the
     analysis kind is a hypothesis of the theorems, checked on every case);
     [lsrcV]/[lsrcI] the value of Superposition*(self.voc/.isc).select(kind).
   time domain: an equation between time functions is read through the
     operational (Laplace) calculus; a signal is a pair (image, value at 0-):
        Derivative(x, t)            |->  s X - x(0-)
        Integral(x, (tau, 0, t))    |->  X / s        (also from -oo: signals that vanish before 0)
        a constant c                |->  c / s
   Everything is over an arbitrary field; axiom-free. *)
Require Import LT.FieldSec.
Local Open Scope F_scope.

Inductive lkind := Kt | Ktime | Ksuper | Ks | Klaplace | Kivp | Kdc | Kac | Ktransient | Kother.
Definition lkind_eqb (a b : lkind) : bool :=
  match a, b with
  | Kt, Kt | Ktime, Ktime | Ksuper, Ksuper | Ks, Ks | Klaplace, Klaplace | Kivp, Kivp
  | Kdc, Kdc | Kac, Kac | Ktransient, Ktransient | Kother, Kother => true
  | _, _ => false end.
Definition lk_in (k : lkind) (l : list lkind) : bool := existsb (lkind_eqb k) l.

Record lpar (K : fld) := LP {
  lZ : K; lZk : K; lL : K; lC : K; li0 : K; lv0 : K; lic : bool; lsrcV : K; lsrcI : K }.
Arguments LP {K}. Arguments lZ {K}. Arguments lZk {K}. Arguments lL {K}. Arguments lC {K}.
Arguments li0 {K}. Arguments lv0 {K}. Arguments lic {K}. Arguments lsrcV {K}. Arguments lsrcI {K}.

Section Ops.
Variable K : fld.
Definition tderiv (s x x0 : K) : K := s * x - x0.
Definition tint (s x : K) : K := x / s.
Definition tconst (s c : K) : K := c / s.
End Ops.
Arguments tderiv {K}. Arguments tint {K}. Arguments tconst {K}.

(* classes of one-ports that carry an equation method *)
Inductive lcls := LR | LG | LL | LC | LY | LZ | LV | LI.
Definition lcls_eqb (a b : lcls) : bool :=
  match a, b with
  | LR, LR | LG, LG | LL, LL | LC, LC | LY, LY | LZ, LZ | LV, LV | LI, LI => true
  | _, _ => false end.
(* an element as the nodal / mesh formulations see it: class, the (equipotential)
   indices of its first and second node (ground = -1), the values its equation
   methods read *)
Record lelt (K : fld) := LE { le_cls : lcls; le_n1 : Z; le_n2 : Z; le_par : lpar K }.
Arguments LE {K}. Arguments le_cls {K}. Arguments le_n1 {K}. Arguments le_n2 {K}. Arguments le_par {K}.
