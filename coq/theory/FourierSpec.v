(* FourierSpec - specification of the bilateral Fourier transform pairs used by
   Lcapy (lcapy/fourier.py, lcapy/inverse_fourier.py), as an inductive relation
   [FPair x X] ("X is the Fourier transform of x,  X(f) = int x(t) e^{-j2 pi f t} dt")
   between functions K -> K over an abstract characteristic-0 field K that
   contains  pi, j (j*j = -1), sqrt(pi).

   SPECIFICATION LEVEL.  Generalised functions (Dirac delta and derivatives),
   sign, Heaviside, rect, tri, trap, sincn, exp, cosh/sinh/tanh are *symbols*
   (Section variables) constrained only by the algebraic laws listed as
   hypotheses below (parity, delta scaling, exp additive, u = (1+sgn)/2).  The
   integrable entries are tied to the Riemann integral over R in
   FourierAnalysis.v (Coquelicot); the generalised-function entries
   (constant <-> delta, t <-> j delta'/2pi, sgn, |t|, 1/t, u) are specification
   level: no distribution theory is available for Coq 8.16.

   Rules: extensionality, linearity, similarity + shift, modulation.  DUALITY is
   *not* a rule: it is the theorem [FPair_dual] (induction on derivations; the
   base cases are [table_closed_under_duality]: the dual of every table entry is
   derivable), and from it [inverse_is_flip]: the relation "IFT X = (FT X)(-t)"
   (what inverse_fourier.py implements with sf = -f, st = -t) inverts FPair.
   Axiom-free. *)
Require Import LT.FieldSec LT.PolyQ LT.ExpPoly.
Local Open Scope F_scope.

(* the symbols and their laws, bundled *)
Record fctx (K : fld) := MkFctx {
  c_pi : K;
  c_j : K;
  c_sqrtpi : K;
  c_isR : K -> Prop;
  c_rabs : K -> K;
  c_stable : K -> Prop;
  c_dl : nat -> K -> K;
  c_sg : K -> K;
  c_hv : K -> K;
  c_rc : K -> K;
  c_tr : K -> K;
  c_sn : K -> K;
  c_ab : K -> K;
  c_tp : K -> K -> K;
  c_E : K -> K;
  c_ch : K -> K;
  c_sh : K -> K;
  c_th : K -> K;
  c_se : K -> K;
  c_cs : K -> K;
  c_dt : K;
  c_j2 : c_j * c_j = - (1);
  c_pi_nz : c_pi <> 0;
  c_sqrtpi2 : c_sqrtpi * c_sqrtpi = c_pi;
  c_isR_0 : c_isR 0;
  c_isR_1 : c_isR 1;
  c_isR_opp : forall a, c_isR a -> c_isR (- a);
  c_isR_inv : forall a, c_isR a -> c_isR (1 / a);
  c_isR_add : forall a b, c_isR a -> c_isR b -> c_isR (a + b);
  c_isR_mul : forall a b, c_isR a -> c_isR b -> c_isR (a * b);
  c_isR_pi : c_isR c_pi;
  c_rabs_1 : c_rabs 1 = 1;
  c_rabs_opp : forall a, c_rabs (- a) = c_rabs a;
  c_rabs_inv : forall a, c_isR a -> a <> 0 -> c_rabs (1 / a) = 1 / c_rabs a;
  c_rabs_nz : forall a, c_isR a -> a <> 0 -> c_rabs a <> 0;
  c_rabs_mul : forall a b, c_isR a -> c_isR b -> c_rabs (a * b) = c_rabs a * c_rabs b;
  c_rabs_pi : c_rabs c_pi = c_pi;
  c_rabs_2 : c_rabs (1 + 1) = 1 + 1;
  c_E_add : forall a b, c_E (a + b) = c_E a * c_E b;
  c_E_0 : c_E 0 = 1;
  c_dl_par : forall n x, c_dl n (- x) = fpow (- (1)) n * c_dl n x;
  c_dl_scale : forall n a x, c_isR a -> a <> 0 -> c_dl n (a * x) = c_dl n x / (fpow a n * c_rabs a);
  c_sg_odd : forall x, c_sg (- x) = - c_sg x;
  c_hv_sg : forall x, c_hv x = (1 + c_sg x) / 2;
  c_rc_even : forall x, c_rc (- x) = c_rc x;
  c_tr_even : forall x, c_tr (- x) = c_tr x;
  c_sn_even : forall x, c_sn (- x) = c_sn x;
  c_tp_even : forall x al, c_tp (- x) al = c_tp x al;
  c_ch_even : forall x, c_ch (- x) = c_ch x;
  c_sh_odd : forall x, c_sh (- x) = - c_sh x;
  c_th_odd : forall x, c_th (- x) = - c_th x;
  c_se_even : forall x, c_se (- x) = c_se x;
  c_cs_odd : forall x, c_cs (- x) = - c_cs x;
  c_se_def : forall x, c_se x = 1 / c_ch x;
  c_cs_def : forall x, c_cs x = 1 / c_sh x;
  c_dt_nz : c_dt <> 0;
  c_ab_sg : forall x, c_ab x = x * c_sg x;
  c_sn0 : c_sn 0 = 1;
  c_ab_rabs : forall a, c_isR a -> c_ab a = c_rabs a
}.
Arguments c_pi {K}.
Arguments c_j {K}.
Arguments c_sqrtpi {K}.
Arguments c_isR {K}.
Arguments c_rabs {K}.
Arguments c_stable {K}.
Arguments c_dl {K}.
Arguments c_sg {K}.
Arguments c_hv {K}.
Arguments c_rc {K}.
Arguments c_tr {K}.
Arguments c_sn {K}.
Arguments c_ab {K}.
Arguments c_tp {K}.
Arguments c_E {K}.
Arguments c_ch {K}.
Arguments c_sh {K}.
Arguments c_th {K}.
Arguments c_se {K}.
Arguments c_cs {K}.
Arguments c_dt {K}.
Arguments c_j2 {K}.
Arguments c_pi_nz {K}.
Arguments c_sqrtpi2 {K}.
Arguments c_isR_0 {K}.
Arguments c_isR_1 {K}.
Arguments c_isR_opp {K}.
Arguments c_isR_inv {K}.
Arguments c_isR_add {K}.
Arguments c_isR_mul {K}.
Arguments c_isR_pi {K}.
Arguments c_rabs_1 {K}.
Arguments c_rabs_opp {K}.
Arguments c_rabs_inv {K}.
Arguments c_rabs_nz {K}.
Arguments c_rabs_mul {K}.
Arguments c_rabs_pi {K}.
Arguments c_rabs_2 {K}.
Arguments c_E_add {K}.
Arguments c_E_0 {K}.
Arguments c_dl_par {K}.
Arguments c_dl_scale {K}.
Arguments c_sg_odd {K}.
Arguments c_hv_sg {K}.
Arguments c_rc_even {K}.
Arguments c_tr_even {K}.
Arguments c_sn_even {K}.
Arguments c_tp_even {K}.
Arguments c_ch_even {K}.
Arguments c_sh_odd {K}.
Arguments c_th_odd {K}.
Arguments c_se_even {K}.
Arguments c_cs_odd {K}.
Arguments c_se_def {K}.
Arguments c_cs_def {K}.
Arguments c_dt_nz {K}.
Arguments c_ab_sg {K}.
Arguments c_sn0 {K}.
Arguments c_ab_rabs {K}.

Section Spec.
Variable K : fld.
Add Field KFfs : (fth K).
Variable C : fctx K.
Notation pi := (c_pi C).
Notation j := (c_j C).
Notation sqrtpi := (c_sqrtpi C).
Notation isR := (c_isR C).
Notation rabs := (c_rabs C).
Notation stable := (c_stable C).
Notation dl := (c_dl C).
Notation sg := (c_sg C).
Notation hv := (c_hv C).
Notation rc := (c_rc C).
Notation tr := (c_tr C).
Notation sn := (c_sn C).
Notation ab := (c_ab C).
Notation tp := (c_tp C).
Notation E := (c_E C).
Notation ch := (c_ch C).
Notation sh := (c_sh C).
Notation th := (c_th C).
Notation se := (c_se C).
Notation cs := (c_cs C).
Notation dt := (c_dt C).
Let j2 : j * j = - (1) := c_j2 C.
Let pi_nz : pi <> 0 := c_pi_nz C.
Let sqrtpi2 : sqrtpi * sqrtpi = pi := c_sqrtpi2 C.
Let isR_0 : isR 0 := c_isR_0 C.
Let isR_1 : isR 1 := c_isR_1 C.
Let isR_opp : forall a, isR a -> isR (- a) := c_isR_opp C.
Let isR_inv : forall a, isR a -> isR (1 / a) := c_isR_inv C.
Let isR_add : forall a b, isR a -> isR b -> isR (a + b) := c_isR_add C.
Let isR_mul : forall a b, isR a -> isR b -> isR (a * b) := c_isR_mul C.
Let isR_pi : isR pi := c_isR_pi C.
Let rabs_1 : rabs 1 = 1 := c_rabs_1 C.
Let rabs_opp : forall a, rabs (- a) = rabs a := c_rabs_opp C.
Let rabs_inv : forall a, isR a -> a <> 0 -> rabs (1 / a) = 1 / rabs a := c_rabs_inv C.
Let rabs_nz : forall a, isR a -> a <> 0 -> rabs a <> 0 := c_rabs_nz C.
Let rabs_mul : forall a b, isR a -> isR b -> rabs (a * b) = rabs a * rabs b := c_rabs_mul C.
Let rabs_pi : rabs pi = pi := c_rabs_pi C.
Let rabs_2 : rabs (1 + 1) = 1 + 1 := c_rabs_2 C.
Let E_add : forall a b, E (a + b) = E a * E b := c_E_add C.
Let E_0 : E 0 = 1 := c_E_0 C.
Let dl_par : forall n x, dl n (- x) = fpow (- (1)) n * dl n x := c_dl_par C.
Let dl_scale : forall n a x, isR a -> a <> 0 -> dl n (a * x) = dl n x / (fpow a n * rabs a) := c_dl_scale C.
Let sg_odd : forall x, sg (- x) = - sg x := c_sg_odd C.
Let hv_sg : forall x, hv x = (1 + sg x) / 2 := c_hv_sg C.
Let rc_even : forall x, rc (- x) = rc x := c_rc_even C.
Let tr_even : forall x, tr (- x) = tr x := c_tr_even C.
Let sn_even : forall x, sn (- x) = sn x := c_sn_even C.
Let tp_even : forall x al, tp (- x) al = tp x al := c_tp_even C.
Let ch_even : forall x, ch (- x) = ch x := c_ch_even C.
Let sh_odd : forall x, sh (- x) = - sh x := c_sh_odd C.
Let th_odd : forall x, th (- x) = - th x := c_th_odd C.
Let se_even : forall x, se (- x) = se x := c_se_even C.
Let cs_odd : forall x, cs (- x) = - cs x := c_cs_odd C.
Let se_def : forall x, se x = 1 / ch x := c_se_def C.
Let cs_def : forall x, cs x = 1 / sh x := c_cs_def C.
Let dt_nz : dt <> 0 := c_dt_nz C.
Let ab_sg : forall x, ab x = x * sg x := c_ab_sg C.
Let sn0 : sn 0 = 1 := c_sn0 C.
Let ab_rabs : forall a, isR a -> ab a = rabs a := c_ab_rabs C.

Definition two : K := 1 + 1.
Lemma two_nz : two <> 0.
Proof. exact (fchar0 K 2%positive). Qed.
Definition tpi : K := two * pi.               (* 2 pi *)
Lemma tpi_nz : tpi <> 0.
Proof. apply mul_nz; [exact two_nz | exact pi_nz]. Qed.
Lemma j_nz : j <> 0.
Proof. intros H. apply (one_nz K). transitivity (- (j * j)); [rewrite j2; ring | rewrite H; ring]. Qed.
Lemma isR_two : isR two. Proof. apply isR_add; exact isR_1. Qed.
Lemma isR_tpi : isR tpi. Proof. apply isR_mul; [exact isR_two | exact isR_pi]. Qed.
Lemma isR_div a b : isR a -> isR b -> isR (a / b).
Proof. intros Ha Hb. replace (a / b) with (a * (1 / b)).
  - apply isR_mul; [exact Ha | apply isR_inv; exact Hb].
  - unfold fdiv. rewrite !(Fdiv_def (fth K)). ring. Qed.

(* ---- the specification -------------------------------------------------- *)
(* equality of two functions off a finite set of points (the singular points of
   1/f, 1/(j 2 pi f - c) ...: a total field has no meaningful value there) *)
Definition eqae (x y : K -> K) : Prop := exists l : list K, forall t, ~ In t l -> x t = y t.
Lemma eqae_all x y : (forall t, x t = y t) -> eqae x y.
Proof. intros H. exists []. intros t _. apply H. Qed.
Lemma eqae_refl x : eqae x x.
Proof. apply eqae_all. reflexivity. Qed.
Lemma eqae_sym x y : eqae x y -> eqae y x.
Proof. intros [l H]. exists l. intros t Ht. symmetry. apply H, Ht. Qed.
Lemma eqae_trans x y z : eqae x y -> eqae y z -> eqae x z.
Proof. intros [l H] [m G]. exists (l ++ m). intros t Ht. rewrite H, G; [reflexivity | |];
  intro I; apply Ht, in_or_app; [right | left]; exact I. Qed.
Lemma eqae_off (l : list K) x y : (forall t, ~ In t l -> x t = y t) -> eqae x y.
Proof. intros H. exists l. exact H. Qed.

Inductive FPair : (K -> K) -> (K -> K) -> Prop :=
| FP_ext x x' X X' : eqae x x' -> eqae X X' -> FPair x X -> FPair x' X'
| FP_zero : FPair (fun _ => 0) (fun _ => 0)
| FP_lin a b x y X Y : FPair x X -> FPair y Y ->
    FPair (fun t => a * x t + b * y t) (fun f => a * X f + b * Y f)
| FP_sim a b x X : isR a -> isR b -> a <> 0 -> FPair x X ->
    FPair (fun t => x (a * t + b)) (fun f => X (f / a) * E (j * tpi * f * b / a) / rabs a)
| FP_mod f0 x X : isR f0 -> FPair x X ->
    FPair (fun t => E (j * tpi * f0 * t) * x t) (fun f => X (f - f0))
(* table *)
| FP_tn n : FPair (fun t => fpow t n) (fun f => fpow (j / tpi) n * dl n f)
| FP_deltan n : FPair (dl n) (fun f => fpow (j * tpi * f) n)
| FP_sign : FPair sg (fun f => 1 / (j * pi * f))
| FP_recip : FPair (fun t => 1 / t) (fun f => - j * pi * sg f)
| FP_abs : FPair (fun t => t * sg t) (fun f => - (1) / (two * (pi * f) * (pi * f)))
| FP_recip2 : FPair (fun t => 1 / (t * t)) (fun f => - two * pi * pi * f * sg f)
| FP_tnexpu n c : stable c ->
    FPair (fun t => fpow t n / fnat (natfact n) * E (c * t) * hv t) (fun f => 1 / fpow (j * tpi * f - c) (S n))
| FP_rtnexpu n c : stable c ->
    FPair (fun t => 1 / fpow (j * tpi * t - c) (S n)) (fun f => fpow (- f) n / fnat (natfact n) * E (- c * f) * hv (- f))
| FP_sincn : FPair sn rc
| FP_rect : FPair rc sn
| FP_sincn2 : FPair (fun t => sn t * sn t) tr
| FP_tri : FPair tr (fun f => sn f * sn f)
| FP_trap al : FPair (fun t => tp t al) (fun f => sn f * sn (al * f))
| FP_sntrap al : FPair (fun t => sn t * sn (al * t)) (fun f => tp f al)
| FP_gauss : FPair (fun t => E (- pi * t * t)) (fun f => E (- pi * f * f))
| FP_sech : FPair se (fun f => pi * se (pi * pi * f))
| FP_csch : FPair cs (fun f => - j * pi * th (pi * pi * f))
| FP_tanh : FPair th (fun f => - j * pi * cs (pi * pi * f)).
(* side conditions that belong to the analytic meaning (Re c < 0 in FP_expu,
   0 <= alpha in FP_trap) are not expressible over an abstract field; they are
   premises of the corresponding theorems of FourierAnalysis.v *)

Lemma FP_exteq x x' X X' : (forall t, x t = x' t) -> (forall f, X f = X' f) -> FPair x X -> FPair x' X'.
Proof. intros H1 H2. apply FP_ext; apply eqae_all; assumption. Qed.
Lemma FP_scale a x X : FPair x X -> FPair (fun t => a * x t) (fun f => a * X f).
Proof. intros H. apply (FP_exteq (fun t => a * x t + 0 * 0) _ (fun f => a * X f + 0 * 0)); try (intros; ring).
  exact (FP_lin a 0 x (fun _ => 0) X (fun _ => 0) H FP_zero). Qed.
Lemma FP_add x y X Y : FPair x X -> FPair y Y -> FPair (fun t => x t + y t) (fun f => X f + Y f).
Proof. intros H1 H2. apply (FP_exteq (fun t => 1 * x t + 1 * y t) _ (fun f => 1 * X f + 1 * Y f)); try (intros; ring).
  exact (FP_lin 1 1 x y X Y H1 H2). Qed.

Ltac off0 t H := apply (eqae_off [0]); intros t H;
  assert (t <> 0) by (let I := fresh in intro I; apply H; left; symmetry; exact I); clear H; cbv beta.

(* the n = 0, 1, 2 members in the shape of the textbook table *)
Lemma FP_const : FPair (fun _ => 1) (dl 0).
Proof. eapply FP_exteq; [ | | exact (FP_tn 0)]; intros; cbn [fpow]; ring. Qed.
Lemma FP_delta : FPair (dl 0) (fun _ => 1).
Proof. exact (FP_deltan 0). Qed.
Lemma FP_t : FPair (fun t => t) (fun f => j / tpi * dl 1 f).
Proof. eapply FP_exteq; [ | | exact (FP_tn 1)]; intros; cbn [fpow]; ring. Qed.
Lemma FP_delta1 : FPair (dl 1) (fun f => j * tpi * f).
Proof. eapply FP_exteq; [ | | exact (FP_deltan 1)]; intros; cbn [fpow]; ring. Qed.
Lemma FP_t2 : FPair (fun t => t * t) (fun f => - (1) / (tpi * tpi) * dl 2 f).
Proof. eapply FP_exteq; [ | | exact (FP_tn 2)]; intros; cbn [fpow]; [ring|].
  transitivity (- (j * j) * (- (1) / (tpi * tpi) * dl 2 f)); [field; exact tpi_nz | rewrite j2; ring]. Qed.
Lemma FP_expu c : stable c -> FPair (fun t => E (c * t) * hv t) (fun f => 1 / (j * tpi * f - c)).
Proof. intros Hc. eapply FP_exteq; [ | | exact (FP_tnexpu 0 c Hc)]; intros; cbn [fpow natfact fnat].
  - field. intro Z. apply (one_nz K). rewrite <- Z. ring.
  - f_equal. ring. Qed.

Theorem FP_step : FPair hv (fun f => dl 0 f / two + 1 / (j * tpi * f)).
Proof.
  apply (FP_ext (fun t => (1 / two) * 1 + (1 / two) * sg t) _
                (fun f => (1 / two) * dl 0 f + (1 / two) * (1 / (j * pi * f)))).
  - apply eqae_all. intros t. rewrite hv_sg. unfold two. field. exact two_nz.
  - off0 f Hf. pose proof j_nz. pose proof two_nz. pose proof pi_nz. unfold tpi, two in *. field. repeat split; assumption.
  - exact (FP_lin (1 / two) (1 / two) _ _ _ _ FP_const FP_sign).
Qed.
Theorem FP_reverse x X : FPair x X -> FPair (fun t => x (- t)) (fun f => X (- f)).
Proof.
  intros H.
  apply (FP_exteq (fun t => x (- (1) * t + 0)) _ (fun f => X (f / - (1)) * E (j * tpi * f * 0 / - (1)) / rabs (- (1)))).
  - intros t. f_equal. ring.
  - intros f. rewrite rabs_opp, rabs_1.
    assert (Z : j * tpi * f * 0 / - (1) = 0) by (field; apply opp_nz, one_nz). rewrite Z, E_0.
    assert (Y : f / - (1) = - f) by (field; apply opp_nz, one_nz). rewrite Y. field. apply one_nz.
  - apply FP_sim; [apply isR_opp, isR_1 | exact isR_0 | apply opp_nz, one_nz | exact H].
Qed.
Theorem FP_shift tau x X : isR tau -> FPair x X ->
  FPair (fun t => x (t - tau)) (fun f => X f * E (- (j * tpi * f * tau))).
Proof.
  intros Ht H.
  apply (FP_exteq (fun t => x (1 * t + - tau)) _ (fun f => X (f / 1) * E (j * tpi * f * (- tau) / 1) / rabs 1)).
  - intros t. f_equal. ring.
  - intros f. rewrite rabs_1.
    assert (Y : f / 1 = f) by (field; apply one_nz). rewrite Y.
    assert (Z : j * tpi * f * - tau / 1 = - (j * tpi * f * tau)) by (field; apply one_nz). rewrite Z.
    field. apply one_nz.
  - apply FP_sim; [exact isR_1 | apply isR_opp, Ht | apply one_nz | exact H].
Qed.
Theorem FP_scaling a x X : isR a -> a <> 0 -> FPair x X ->
  FPair (fun t => x (a * t)) (fun f => X (f / a) / rabs a).
Proof.
  intros Ha Hn H.
  apply (FP_exteq (fun t => x (a * t + 0)) _ (fun f => X (f / a) * E (j * tpi * f * 0 / a) / rabs a)).
  - intros t. f_equal. ring.
  - intros f. assert (Z : j * tpi * f * 0 / a = 0) by (field; exact Hn). rewrite Z, E_0.
    pose proof (rabs_nz a Ha Hn). field. assumption.
  - apply FP_sim; [exact Ha | exact isR_0 | exact Hn | exact H].
Qed.

(* ---- duality -------------------------------------------------------------- *)
Definition flip (x : K -> K) : K -> K := fun t => x (- t).
Lemma flip_flip x t : flip (flip x) t = x t.
Proof. unfold flip. f_equal. ring. Qed.
Lemma eqae_flip x y : eqae x y -> eqae (flip x) (flip y).
Proof. intros [l H]. exists (map fopp l). intros t Ht. unfold flip. apply H. intros I. apply Ht.
  apply in_map_iff. exists (- t). split; [ring | exact I]. Qed.

(* the dual of a pair *)
Definition dual_ok (x X : K -> K) : Prop := FPair X (flip x).

Lemma dl0_even x : dl 0 (- x) = dl 0 x.
Proof. rewrite dl_par. cbn [fpow]. ring. Qed.
Lemma dl1_odd x : dl 1 (- x) = - dl 1 x.
Proof. rewrite dl_par. cbn [fpow]. ring. Qed.
Lemma dl2_even x : dl 2 (- x) = dl 2 x.
Proof. rewrite dl_par. cbn [fpow]. ring. Qed.

Ltac dual_by H := unfold dual_ok; eapply FP_ext; [ | | exact H ]; unfold flip.
Ltac aeq := apply eqae_all; intros; cbv beta.
Tactic Notation "aeq_" ident(f) := apply eqae_all; intros f; cbv beta.
Ltac nzctx := pose proof tpi_nz; pose proof j_nz; pose proof two_nz; pose proof pi_nz.
Ltac jj := (* close a goal that holds after j*j = -1 *)
  match goal with |- ?l = ?r => let d := fresh in
     assert (d : l - r = (j * j + 1) * 0) ; [ | ] end.

Lemma j_elim (a b : K) : a = j * j * b -> a = - b.
Proof. intros ->. rewrite j2. ring. Qed.
Lemma j_elim' (a b : K) : a = - (j * j) * b -> a = b.
Proof. intros ->. rewrite j2. ring. Qed.

Theorem table_closed_under_duality :
  (forall n, dual_ok (fun t => fpow t n) (fun f => fpow (j / tpi) n * dl n f)) /\
  (forall n, dual_ok (dl n) (fun f => fpow (j * tpi * f) n)) /\
  dual_ok sg (fun f => 1 / (j * pi * f)) /\ dual_ok (fun t => 1 / t) (fun f => - j * pi * sg f) /\
  dual_ok (fun t => t * sg t) (fun f => - (1) / (two * (pi * f) * (pi * f))) /\
  dual_ok (fun t => 1 / (t * t)) (fun f => - two * pi * pi * f * sg f) /\
  (forall n c, stable c -> dual_ok (fun t => fpow t n / fnat (natfact n) * E (c * t) * hv t) (fun f => 1 / fpow (j * tpi * f - c) (S n))) /\
  (forall n c, stable c -> dual_ok (fun t => 1 / fpow (j * tpi * t - c) (S n)) (fun f => fpow (- f) n / fnat (natfact n) * E (- c * f) * hv (- f))) /\
  dual_ok sn rc /\ dual_ok rc sn /\ dual_ok (fun t => sn t * sn t) tr /\ dual_ok tr (fun f => sn f * sn f) /\
  (forall al, dual_ok (fun t => tp t al) (fun f => sn f * sn (al * f))) /\
  (forall al, dual_ok (fun t => sn t * sn (al * t)) (fun f => tp f al)) /\
  dual_ok (fun t => E (- pi * t * t)) (fun f => E (- pi * f * f)) /\
  dual_ok se (fun f => pi * se (pi * pi * f)) /\
  dual_ok cs (fun f => - j * pi * th (pi * pi * f)) /\
  dual_ok th (fun f => - j * pi * cs (pi * pi * f)).
Proof.
  nzctx.
  assert (Hpp : pi * pi <> 0) by (apply mul_nz; exact pi_nz).
  assert (Rpp : isR (pi * pi)) by (apply isR_mul; exact isR_pi).
  assert (Rip : isR (1 / (pi * pi))) by (apply isR_inv; exact Rpp).
  assert (Hip : 1 / (pi * pi) <> 0) by (apply div_nz; [apply one_nz | exact Hpp]).
  assert (Habs : rabs (pi * pi) = pi * pi) by (rewrite (rabs_mul _ _ isR_pi isR_pi), rabs_pi; reflexivity).
  repeat apply conj.
  - (* t^n <-> (j/2pi)^n delta^(n) *)
    intros n. dual_by (FP_scale (fpow (j / tpi) n) _ _ (FP_deltan n)); [apply eqae_refl|].
    aeq_ f. rewrite <- fpow_mul. f_equal. apply j_elim. field. assumption.
  - intros n. dual_by (FP_scale (fpow (j * tpi) n) _ _ (FP_tn n)).
    + aeq_ t. rewrite <- fpow_mul. reflexivity.
    + aeq_ f. rewrite dl_par. transitivity (fpow (j * tpi) n * fpow (j / tpi) n * dl n f); [ring|].
      rewrite <- fpow_mul. f_equal. f_equal. apply j_elim. field. assumption.
  - (* sgn <-> 1/(j pi f) *)
    dual_by (FP_scale (1 / (j * pi)) _ _ FP_recip).
    + off0 t Ht. field. nz.
    + aeq_ f. rewrite sg_odd. field. nz.
  - dual_by (FP_scale (- j * pi) _ _ FP_sign); [aeq; ring|].
    off0 f Hf. field. nz.
  - (* |t| *)
    dual_by (FP_scale (- (1) / (two * pi * pi)) _ _ FP_recip2).
    + off0 t Ht. field. nz.
    + aeq_ f. rewrite sg_odd. field. nz.
  - dual_by (FP_scale (- two * pi * pi) _ _ FP_abs); [aeq; ring|].
    off0 f Hf. field. nz.
  - intros n c Hc. dual_by (FP_rtnexpu n c Hc); [apply eqae_refl|]. aeq_ f.
    replace (c * - f) with (- c * f) by ring. reflexivity.
  - intros n c Hc. dual_by (FP_reverse _ _ (FP_tnexpu n c Hc)); aeq_ t.
    + replace (c * - t) with (- c * t) by ring. reflexivity.
    + reflexivity.
  - dual_by FP_rect; [apply eqae_refl | aeq; symmetry; apply sn_even].
  - dual_by FP_sincn; [apply eqae_refl | aeq; symmetry; apply rc_even].
  - dual_by FP_tri; [apply eqae_refl | aeq; rewrite !sn_even; reflexivity].
  - dual_by FP_sincn2; [apply eqae_refl | aeq; symmetry; apply tr_even].
  - intros al. dual_by (FP_sntrap al); [apply eqae_refl | aeq; symmetry; apply tp_even].
  - intros al. dual_by (FP_trap al); [apply eqae_refl|]. aeq_ f.
    rewrite sn_even. replace (al * - f) with (- (al * f)) by ring. rewrite sn_even. reflexivity.
  - dual_by FP_gauss; [apply eqae_refl | aeq; f_equal; ring].
  - (* sech, by similarity with a = pi^2 *)
    dual_by (FP_scale pi _ _ (FP_scaling (pi * pi) _ _ Rpp Hpp FP_sech)); aeq_ t; [reflexivity|].
    rewrite Habs, se_even. replace (pi * pi * (t / (pi * pi))) with t by (field; nz). field. nz.
  - dual_by (FP_scale (- j * pi) _ _ (FP_scaling (pi * pi) _ _ Rpp Hpp FP_tanh)); aeq_ t; [reflexivity|].
    rewrite Habs, cs_odd. replace (pi * pi * (t / (pi * pi))) with t by (field; nz). apply j_elim. field. nz.
  - dual_by (FP_scale (- j * pi) _ _ (FP_scaling (pi * pi) _ _ Rpp Hpp FP_csch)); aeq_ t; [reflexivity|].
    rewrite Habs, th_odd. replace (pi * pi * (t / (pi * pi))) with t by (field; nz). apply j_elim. field. nz.
Qed.

(* ---- duality is admissible: induction on derivations ------------------------ *)
Theorem FPair_dual x X : FPair x X -> FPair X (flip x).
Proof.
  intros H.
  destruct table_closed_under_duality as
    (Dtn & Ddn & Dsg & Drc & Dab & Dr2 & Dex & Drx & Dsn & Dre & Ds2 & Dtr & Dtp & Dst & Dga & Dse & Dcs & Dth).
  induction H.
  - (* ext *) apply (FP_ext X X' (flip x) (flip x')); [assumption | apply eqae_flip; assumption | exact IHFPair].
  - exact FP_zero.
  - exact (FP_lin a b _ _ _ _ IHFPair1 IHFPair2).
  - (* similarity + shift: its dual is scaling by 1/a, then modulation by b/a *)
    assert (Ria : isR (1 / a)) by (apply isR_inv; assumption).
    assert (Hia : 1 / a <> 0) by (apply div_nz; [apply one_nz | assumption]).
    assert (Rba : isR (b / a)) by (apply isR_div; assumption).
    pose proof (rabs_nz a H H1) as Hra.
    pose proof (FP_scaling (1 / a) _ _ Ria Hia IHFPair) as S1.
    pose proof (FP_mod (b / a) _ _ Rba S1) as S2.
    pose proof (FP_scale (1 / rabs a) _ _ S2) as S3. cbv beta in S3.
    eapply FP_exteq; [ | | exact S3]; intros t; cbv beta; unfold flip.
    + replace (1 / a * t) with (t / a) by (field; nz).
      replace (j * tpi * (b / a) * t) with (j * tpi * t * b / a) by (field; nz).
      field. nz.
    + rewrite (rabs_inv a H H1).
      replace (- ((t - b / a) / (1 / a))) with (a * - t + b) by (field; nz).
      field. nz.
  - (* modulation: its dual is the shift *)
    pose proof (FP_shift f0 _ _ H IHFPair) as S1.
    eapply FP_exteq; [ | | exact S1]; intros t; cbv beta; unfold flip; [reflexivity|].
    replace (j * tpi * f0 * - t) with (- (j * tpi * t * f0)) by ring. ring.
  - apply Dtn. - apply Ddn. - exact Dsg. - exact Drc. - exact Dab. - exact Dr2.
  - apply Dex; assumption. - apply Drx; assumption.
  - exact Dsn. - exact Dre. - exact Ds2. - exact Dtr. - apply Dtp. - apply Dst. - exact Dga.
  - exact Dse. - exact Dcs. - exact Dth.
Qed.

(* ---- the inverse transform ---------------------------------------------------- *)
(* what inverse_fourier.py computes: the forward rules with sf = -f, st = -t, i.e.
   y(t) = (FT X)(-t) *)
Definition IPair (X y : K -> K) : Prop := exists Y, FPair X Y /\ eqae y (flip Y).
Theorem inverse_is_flip x X : FPair x X -> IPair X x.
Proof. intros H. exists (flip x). split; [apply FPair_dual, H|]. apply eqae_all. intros t. symmetry. apply flip_flip. Qed.
Theorem IPair_sound X y : IPair X y -> FPair y X.
Proof. intros [Y [H E']]. apply FPair_dual in H. apply FP_reverse in H.
  apply (FP_ext _ _ _ _ (eqae_sym _ _ E') (eqae_all _ _ (flip_flip X)) H). Qed.
(* uniqueness cannot be stated for formal symbols; round trip in the form used by
   the check: FT then IFT gives back the signal, IFT then FT gives back the spectrum *)
Corollary FT_IFT_roundtrip x X : FPair x X -> exists y, IPair X y /\ eqae y x.
Proof. intros H. exists x. split; [apply inverse_is_flip, H | apply eqae_refl]. Qed.

(* ---- frequency variables ------------------------------------------------------ *)
(* a spectrum expressed in the variable v = k f (k = 2 pi for omega, dt for F,
   2 pi dt for Omega) *)
Inductive fvar := Vf | Vw | VF | VW.
Definition vscale (v : fvar) : K := match v with Vf => 1 | Vw => tpi | VF => dt | VW => tpi * dt end.
Lemma vscale_nz v : vscale v <> 0.
Proof. destruct v; cbn [vscale]; [apply one_nz | exact tpi_nz | exact dt_nz | apply mul_nz; [exact tpi_nz | exact dt_nz]]. Qed.
(* X_v is the v-form of the f-domain spectrum X *)
Definition vform (v : fvar) (X Xv : K -> K) : Prop := forall u, Xv u = X (u / vscale v).
Theorem f_omega_scaling X : vform Vw X (fun w => X (w / tpi)).
Proof. intros u. reflexivity. Qed.
(* substituting  var_A := (k_A / k_B) var_B  in the A-form gives the B-form *)
Theorem varchange_sound A B X XA : vform A X XA -> vform B X (fun u => XA (vscale A / vscale B * u)).
Proof. intros H u. rewrite H. f_equal. pose proof (vscale_nz A). pose proof (vscale_nz B). field. split; assumption. Qed.
Lemma rabs_tpi : rabs tpi = tpi.
Proof. unfold tpi. rewrite (rabs_mul _ _ isR_two isR_pi). unfold two. rewrite rabs_2, rabs_pi. reflexivity. Qed.
(* delta(omega / 2 pi) = 2 pi delta(omega), and for derivatives *)
Theorem delta_omega n w : dl n (w / tpi) = fpow tpi (S n) * dl n w.
Proof.
  pose proof tpi_nz as Ht.
  replace (w / tpi) with (1 / tpi * w) by (field; exact Ht).
  rewrite dl_scale; [ | apply isR_inv, isR_tpi | apply div_nz; [apply one_nz | exact Ht]].
  rewrite (rabs_inv tpi isR_tpi Ht), rabs_tpi, (fpow_inv _ tpi n Ht).
  pose proof (fpow_nz _ tpi n Ht). cbn [fpow]. field. nz.
Qed.
Theorem delta_varscale n k u : isR k -> k <> 0 -> dl n (u / k) = fpow k n * rabs k * dl n u.
Proof.
  intros Rk Hk. replace (u / k) with (1 / k * u) by (field; exact Hk).
  rewrite dl_scale; [ | apply isR_inv, Rk | apply div_nz; [apply one_nz | exact Hk]].
  rewrite (rabs_inv k Rk Hk), (fpow_inv _ k n Hk).
  pose proof (fpow_nz _ k n Hk). pose proof (rabs_nz k Rk Hk). field. nz.
Qed.

(* ---- causal exp-poly signals: FT = LT on s = j 2 pi f --------------------------- *)
(* the function denoted by an ExpPoly signal (ExpPoly.v): regular part
   sum c t^n/n! e^{pt} u(t), singular part sum d_k delta^(k)(t) *)
Fixpoint regfun (l : list (rterm K)) (t : K) : K :=
  match l with [] => 0 | (c, n, p) :: l' => c * (fpow t n / fnat (natfact n) * E (p * t) * hv t) + regfun l' t end.
Fixpoint singfun (k : nat) (d : list K) (t : K) : K :=
  match d with [] => 0 | a :: d' => a * dl k t + singfun (S k) d' t end.
Definition sigfun (x : sig K) (t : K) : K := singfun 0 (sing x) t + regfun (reg x) t.
Definition all_stable (x : sig K) : Prop := forall c n p, In (c, n, p) (reg x) -> stable p.

Lemma FP_regfun l : (forall c n p, In (c, n, p) l -> stable p) -> FPair (regfun l) (fun f => rval (j * tpi * f) l).
Proof.
  induction l as [|[[c n] p] l IH]; intros Hs; cbn [regfun rval].
  - exact FP_zero.
  - apply FP_add.
    + eapply FP_exteq; [ | | exact (FP_scale c _ _ (FP_tnexpu n p (Hs c n p (or_introl eq_refl))))]; intros; cbv beta; [reflexivity|].
      unfold fdiv. rewrite !(Fdiv_def (fth K)). ring.
    + apply IH. intros c' n' p' Hin. apply (Hs c' n' p'). right. exact Hin.
Qed.
Lemma FP_singfun d : forall k, FPair (singfun k d) (fun f => fpow (j * tpi * f) k * peval d (j * tpi * f)).
Proof.
  induction d as [|a d IH]; intros k; cbn [singfun peval].
  - eapply FP_exteq; [ | | exact FP_zero]; intros; cbv beta; ring.
  - eapply FP_exteq; [ | | exact (FP_add _ _ _ _ (FP_scale a _ _ (FP_deltan k)) (IH (S k)))]; intros; cbv beta; [reflexivity|].
    cbn [fpow]. ring.
Qed.
Theorem causal_LT_FT (x : sig K) : all_stable x ->
  FPair (sigfun x) (fun f => Lval (j * tpi * f) x).
Proof.
  intros Hs. unfold sigfun, Lval.
  eapply FP_exteq; [ | | exact (FP_add _ _ _ _ (FP_singfun (sing x) 0) (FP_regfun (reg x) Hs))]; intros; cbv beta; [reflexivity|].
  cbn [fpow]. ring.
Qed.

End Spec.

Arguments FPair {K} C _ _.
Arguments eqae {K} _ _.
Arguments flip {K} _ _.
Arguments IPair {K} C _ _.
Arguments tpi {K} C.
Arguments two {K}.
Arguments vscale {K} C _.
Arguments vform {K} C _ _ _.
Arguments sigfun {K} C _ _.
Arguments all_stable {K} C _.
