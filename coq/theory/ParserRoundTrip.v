(* C06 — theorems about the netlist reader/writer model, part 2: a printed
   component reads back as itself.

     parse_print     parse g st "" (print c) = Ok (norm c, st)   for every rule r of ANY
                     grammar g with rule_ok r, every component c with wf_cpt g rules r c
     norm_idem / print_norm / print_idempotent
                     norm (norm c) = norm c,  print (norm c) = print c, hence the text is
                     a fixed point from the first round trip on
     reject_*        too many fields, missing node, unknown type, unknown named parameter,
                     value after a named parameter, unbalanced braces  =>  parse = Err _

   [norm] is what _netmake1 really does to absent optional arguments: a None that is
   not last is written as 0. *)
From Coq Require Import List Ascii Bool Arith Lia.
From Coq Require String.
Import String.StringSyntax.
From LT Require Import ParserStr ParserModel ParserThm.
Import ListNotations.

(* ------------------------------------------------------------- kinds -- *)
Lemma argkind_not_node k : is_argkind k = true -> is_nodekind k = false.
Proof.
  unfold is_argkind, is_nodekind. intros H. apply orb_true_iff in H as [H|H]; apply str_eqb_true in H; subst; reflexivity.
Qed.
Lemma nodekind_not_arg k : is_nodekind k = true -> is_argkind k = false.
Proof.
  unfold is_argkind, is_nodekind. intros H. apply orb_true_iff in H as [H|H]; apply str_eqb_true in H; subst; reflexivity.
Qed.
Definition is_kwkind (k : str) : bool := str_eqb k K_keyword.
Lemma kwkind_not_node k : is_kwkind k = true -> is_nodekind k = false.
Proof. unfold is_kwkind. intros H. apply str_eqb_true in H; subst; reflexivity. Qed.
Lemma kwkind_not_arg k : is_kwkind k = true -> is_argkind k = false.
Proof. unfold is_kwkind. intros H. apply str_eqb_true in H; subst; reflexivity. Qed.

(* ------------------------------------------------------- rule selection -- *)
Definition captures (r1 : rule) (fields : list str) : bool :=
  match r_pos r1 with
  | Some p => match nth_error fields p, nth_error (r_params r1) p with
              | Some f, Some prm => str_eqb (lower f) (lower (p_name prm))
              | _, _ => false
              end
  | None => false
  end.
Definition leak_of (rules : list rule) (leak : option nat) : option nat :=
  fold_left (fun _ r => r_pos r) rules leak.

Lemma select_none rules fields d : forall leak,
  forallb (fun r => negb (captures r fields)) rules = true ->
  select rules fields d leak = (d, [], leak_of rules leak).
Proof.
  induction rules as [|r1 rest IH]; intros leak H; cbn [select leak_of fold_left]; [reflexivity|].
  cbn [forallb] in H. apply andb_true_iff in H as [H1 H2]. apply negb_true_iff in H1.
  unfold captures in H1. destruct (r_pos r1) as [p|].
  - destruct (nth_error fields p) as [f|]; [|now apply IH].
    destruct (nth_error (r_params r1) p) as [prm|]; [|now apply IH].
    rewrite H1. now apply IH.
  - now apply IH.
Qed.
Lemma select_hit pre r post fields d p prm : forall leak,
  forallb (fun r => negb (captures r fields)) pre = true ->
  r_pos r = Some p -> nth_error (r_params r) p = Some prm -> captures r fields = true ->
  select (pre ++ r :: post) fields d leak = (r, p_name prm, Some p).
Proof.
  induction pre as [|r1 rest IH]; intros leak H Hp Hprm Hc; cbn [app select].
  - unfold captures in Hc. rewrite Hp in *. rewrite Hprm in *.
    destruct (nth_error fields p) as [f|]; [|discriminate]. now rewrite Hc.
  - cbn [forallb] in H. apply andb_true_iff in H as [H1 H2]. apply negb_true_iff in H1.
    unfold captures in H1. destruct (r_pos r1) as [p1|].
    + destruct (nth_error fields p1) as [f|]; [|now apply IH].
      destruct (nth_error (r_params r1) p1) as [prm1|]; [|now apply IH].
      rewrite H1. now apply IH.
    + now apply IH.
Qed.

(* ------------------------------------------------------- extract_nodes -- *)
Definition fixdot (name ns f : str) : str :=
  match f with a :: _ => if aeqb a DOT then name ++ f else ns ++ f | [] => ns ++ f end.
Lemma extract_nodes_shift ps : forall pre F m name ns,
  extract_nodes ps (pre ++ F) (length pre + m) name ns = extract_nodes ps F m name ns.
Proof.
  induction ps as [|p r IH]; intros pre F m name ns; cbn [extract_nodes]; [reflexivity|].
  replace (S (length pre + m)) with (length pre + S m) by lia.
  destruct (is_nodekind (p_kind p)).
  - rewrite nth_error_app2 by lia. replace (length pre + m - length pre) with m by lia.
    destruct (nth_error F m); [|reflexivity]. now rewrite IH.
  - apply IH.
Qed.
Lemma extract_nodes_args PA : forall F m name ns,
  forallb (fun p => is_argkind (p_kind p)) PA = true -> extract_nodes PA F m name ns = Ok [].
Proof.
  induction PA as [|p r IH]; intros F m name ns H; cbn [extract_nodes]; [reflexivity|].
  cbn [forallb] in H. apply andb_true_iff in H as [H1 H2]. rewrite (argkind_not_node _ H1). now apply IH.
Qed.
Lemma extract_nodes_nodes N : forall A rest F name ns R,
  forallb (fun p => is_nodekind (p_kind p)) N = true -> length A = length N ->
  extract_nodes rest F 0 name ns = Ok R ->
  extract_nodes (N ++ rest) (A ++ F) 0 name ns = Ok (map (fixdot name ns) A ++ R).
Proof.
  induction N as [|p N IH]; intros A rest F name ns R HN HL HR.
  - destruct A; [|discriminate]. exact HR.
  - destruct A as [|a A]; [discriminate|]. cbn [forallb] in HN. apply andb_true_iff in HN as [H1 H2].
    cbn [app extract_nodes nth_error]. rewrite H1.
    change (extract_nodes (N ++ rest) (a :: A ++ F) 1 name ns)
      with (extract_nodes (N ++ rest) ([a] ++ (A ++ F)) (length [a] + 0) name ns).
    rewrite extract_nodes_shift. rewrite (IH A rest F name ns R H2 (eq_add_S _ _ HL) HR).
    reflexivity.
Qed.
Lemma extract_nodes_kw k rest f F name ns :
  is_kwkind (p_kind k) = true ->
  extract_nodes (k :: rest) (f :: F) 0 name ns = extract_nodes rest F 0 name ns.
Proof.
  intros H. cbn [extract_nodes]. rewrite (kwkind_not_node _ H).
  change (extract_nodes rest (f :: F) 1 name ns) with (extract_nodes rest ([f] ++ F) (length [f] + 0) name ns).
  apply extract_nodes_shift.
Qed.

(* --------------------------------------------------------- extract_args -- *)
Definition dflt_of (relname : str) (p : param) : option str :=
  match p_default p with
  | Some d => if str_eqb d K_name then Some relname else Some d
  | None => None
  end.
Definition arg0 (relname : str) (p : param) : arg :=
  {| a_name := p_name p; a_value := dflt_of relname p; a_assigned := false |}.

Lemma init_args_head PN : forall PA nf m m2 d,
  forallb (fun p => negb (is_argkind (p_kind p))) PN = true ->
  init_args (PN ++ PA) nf m m2 d = init_args PA nf (m + length PN) (match PN with [] => m2 | _ => m + length PN end) d.
Proof.
  induction PN as [|p r IH]; intros PA nf m m2 d H.
  - cbn [app length]. now rewrite Nat.add_0_r.
  - cbn [forallb] in H. apply andb_true_iff in H as [H1 H2]. apply negb_true_iff in H1.
    cbn [app init_args length]. rewrite H1. rewrite (IH PA nf (S m) (S m) d H2).
    replace (S m + length r) with (m + S (length r)) by lia.
    destruct r; [cbn [length]|reflexivity]. replace (m + 1) with (S m) by lia. reflexivity.
Qed.
(* all required arg parameters lie below the number of fields *)
Fixpoint req_ok (PA : list param) (nf m : nat) : bool :=
  match PA with
  | [] => true
  | p :: r => (p_opt p || (m <? nf)) && req_ok r nf (S m)
  end.
Lemma init_args_tail PA : forall nf m m2 d,
  forallb (fun p => is_argkind (p_kind p)) PA = true -> req_ok PA nf m = true ->
  init_args PA nf m m2 d = Ok (map (arg0 d) PA, m2).
Proof.
  induction PA as [|p r IH]; intros nf m m2 d H Hr; cbn [init_args map]; [reflexivity|].
  cbn [forallb] in H. apply andb_true_iff in H as [H1 H2]. rewrite H1.
  cbn [req_ok] in Hr. apply andb_true_iff in Hr as [R1 R2].
  assert (E : (nf <=? m) && negb (p_opt p) = false).
  { destruct (p_opt p); [apply andb_false_r|]. cbn in R1. apply Nat.ltb_lt in R1.
    destruct (Nat.leb_spec nf m); [lia|reflexivity]. }
  rewrite E. rewrite (IH nf (S m) m2 d H2 R2). reflexivity.
Qed.
Lemma missing_arg PA : forall nf m m2 d,
  forallb (fun p => is_argkind (p_kind p)) PA = true -> req_ok PA nf m = false ->
  init_args PA nf m m2 d = Err EMissingArg.
Proof.
  induction PA as [|p r IH]; intros nf m m2 d H Hr; cbn [init_args]; [discriminate|].
  cbn [forallb] in H. apply andb_true_iff in H as [H1 H2]. rewrite H1. cbn [req_ok] in Hr.
  destruct (p_opt p) eqn:Eo; cbn [orb andb negb] in *.
  - rewrite andb_false_r. now rewrite (IH nf (S m) m2 d H2 Hr).
  - destruct (Nat.ltb_spec m nf) as [L|L]; cbn [andb] in Hr.
    + destruct (Nat.leb_spec nf m); [lia|]. cbn [andb]. now rewrite (IH nf (S m) m2 d H2 Hr).
    + destruct (Nat.leb_spec nf m); [reflexivity|lia].
Qed.

(* the value list after the positional loop: assigned prefix, defaults after *)
Definition assigned (p : param) (f : str) : arg :=
  {| a_name := p_name p; a_value := Some (strip_value f); a_assigned := true |}.
Definition single_eq (f : str) : bool :=
  match split [EQ] f with Some ps => negb (1 <? length ps) | None => false end.

Lemma assign_at_fresh (done : list arg) : forall p post d f,
  assign_at (done ++ arg0 d p :: post) (length done) f = Ok (done ++ assigned p f :: post).
Proof.
  induction done as [|y done IH]; intros p post d f; [reflexivity|].
  cbn [app length assign_at]. rewrite IH. reflexivity.
Qed.
Lemma unnamed_all FA : forall (PA1 PA2 : list param) (done : list arg) d,
  forallb single_eq FA = true -> length FA <= length PA2 -> length done = length PA1 ->
  unnamed (done ++ map (arg0 d) PA2) FA (length PA1)
  = Ok (done ++ map (fun pf => assigned (fst pf) (snd pf)) (combine (firstn (length FA) PA2) FA)
             ++ map (arg0 d) (skipn (length FA) PA2), []).
Proof.
  induction FA as [|f FA IH]; intros PA1 PA2 done d Hs HL Hd.
  - cbn [unnamed length firstn combine map skipn app]. reflexivity.
  - destruct PA2 as [|p PA2]; [cbn in HL; lia|].
    cbn [forallb] in Hs. apply andb_true_iff in Hs as [S1 S2].
    cbn [unnamed]. unfold single_eq in S1. unfold split_eq. destruct (split [EQ] f) as [ps|]; [|discriminate].
    cbn [bind]. apply negb_true_iff in S1. rewrite S1.
    cbn [map]. rewrite <- Hd. rewrite (assign_at_fresh done p (map (arg0 d) PA2) d f). cbn [bind]. rewrite Hd.
    replace (done ++ assigned p f :: map (arg0 d) PA2) with ((done ++ [assigned p f]) ++ map (arg0 d) PA2)
      by now rewrite <- app_assoc.
    replace (S (length PA1)) with (length (PA1 ++ [p])) by (rewrite app_length; cbn; lia).
    rewrite (IH (PA1 ++ [p]) PA2 (done ++ [assigned p f]) d S2).
    + cbn [length firstn combine map skipn fst snd]. now rewrite <- app_assoc.
    + cbn in HL. lia.
    + rewrite !app_length. cbn. lia.
Qed.

(* norm: a None that is not last becomes 0 *)
Definition ZERO : str := [ch 48].
Fixpoint norm_args (args : list (option str)) : list (option str) :=
  match args with
  | [] => []
  | [a] => [a]
  | None :: r => Some ZERO :: norm_args r
  | Some v :: r => Some v :: norm_args r
  end.
Definition nz (x : option str) : option str := match x with None => Some ZERO | Some v => Some v end.
Lemma norm_args_1 x : norm_args [x] = [x].
Proof. destruct x; reflexivity. Qed.
Lemma norm_args_2 x y r : norm_args (x :: y :: r) = nz x :: norm_args (y :: r).
Proof. destruct x; reflexivity. Qed.
Lemma norm_args_nonnil y r : norm_args (y :: r) <> [].
Proof. destruct r; [rewrite norm_args_1|rewrite norm_args_2]; discriminate. Qed.
Lemma norm_args_idem a : norm_args (norm_args a) = norm_args a.
Proof.
  induction a as [|x r IH]; [reflexivity|]. destruct r as [|y r'].
  - now rewrite !norm_args_1.
  - rewrite norm_args_2. destruct (norm_args (y :: r')) as [|z t] eqn:E.
    + now apply norm_args_nonnil in E.
    + rewrite norm_args_2, IH. now destruct x.
Qed.
Lemma fmtargs_some ds v r : fmtargs ds (Some v :: r) = arg_format ds v :: fmtargs ds r.
Proof. reflexivity. Qed.
Lemma fmtargs_none ds y r : fmtargs ds (None :: y :: r) = ZERO :: fmtargs ds (y :: r).
Proof. reflexivity. Qed.
Lemma fmtargs_norm ds a : arg_format ds ZERO = ZERO -> fmtargs ds (norm_args a) = fmtargs ds a.
Proof.
  intros HZ. induction a as [|x r IH]; [reflexivity|]. destruct r as [|y r'].
  - now rewrite norm_args_1.
  - rewrite norm_args_2. destruct x as [v|]; cbn [nz].
    + now rewrite !fmtargs_some, IH.
    + rewrite fmtargs_some, fmtargs_none, IH. now rewrite HZ.
Qed.
Lemma norm_args_length a : length (norm_args a) = length a.
Proof.
  induction a as [|x r IH]; [reflexivity|]. destruct r as [|y r']; [now rewrite norm_args_1|].
  rewrite norm_args_2. cbn [length] in *. now rewrite IH.
Qed.

(* ----------------------------------------------------------- rule layout -- *)
(* every rule of the grammar has the shape  nodes* [keyword nodes*] args*  *)
Fixpoint span (f : param -> bool) (l : list param) : list param * list param :=
  match l with
  | [] => ([], [])
  | x :: r => if f x then let '(a, b) := span f r in (x :: a, b) else ([], l)
  end.
Lemma span_app f l : fst (span f l) ++ snd (span f l) = l.
Proof. induction l as [|x r IH]; cbn [span]; [reflexivity|]. destruct (f x); [|reflexivity]. destruct (span f r); cbn in *. now rewrite IH. Qed.
Lemma span_all f l : forallb f (fst (span f l)) = true.
Proof. induction l as [|x r IH]; cbn [span]; [reflexivity|]. destruct (f x) eqn:E; [|reflexivity]. destruct (span f r); cbn in *. now rewrite E, IH. Qed.

Record layout := { L_N1 : list param; L_K : option param; L_N2 : list param; L_A : list param }.
Definition nodep (p : param) : bool := is_nodekind (p_kind p).
Definition argp (p : param) : bool := is_argkind (p_kind p).
Definition decomp (ps : list param) : layout :=
  let '(n1, r1) := span nodep ps in
  match r1 with
  | k :: r2 => if is_kwkind (p_kind k)
               then let '(n2, a) := span nodep r2 in {| L_N1 := n1; L_K := Some k; L_N2 := n2; L_A := a |}
               else {| L_N1 := n1; L_K := None; L_N2 := []; L_A := r1 |}
  | [] => {| L_N1 := n1; L_K := None; L_N2 := []; L_A := [] |}
  end.
Definition kl (L : layout) : list param := match L_K L with Some k => [k] | None => [] end.
Definition head_of (L : layout) : list param := L_N1 L ++ kl L ++ L_N2 L.
Lemma decomp_params ps : head_of (decomp ps) ++ L_A (decomp ps) = ps.
Proof.
  unfold decomp, head_of, kl. pose proof (span_app nodep ps) as E. destruct (span nodep ps) as [n1 r1]. cbn [fst snd] in E.
  destruct r1 as [|k r2]; cbn [L_N1 L_K L_N2 L_A].
  - now rewrite !app_nil_r in *.
  - destruct (is_kwkind (p_kind k)).
    + pose proof (span_app nodep r2) as E2. destruct (span nodep r2) as [n2 a]. cbn [fst snd L_N1 L_K L_N2 L_A] in *.
      rewrite <- E, <- E2. now rewrite <- !app_assoc.
    + cbn [L_N1 L_K L_N2 L_A]. now rewrite app_nil_r.
Qed.
Lemma decomp_N1 ps : forallb nodep (L_N1 (decomp ps)) = true.
Proof.
  unfold decomp. pose proof (span_all nodep ps) as E. destruct (span nodep ps) as [n1 r1]. cbn [fst] in E.
  destruct r1 as [|k r2]; [exact E|]. destruct (is_kwkind (p_kind k)); [|exact E]. now destruct (span nodep r2).
Qed.
Lemma decomp_N2 ps : forallb nodep (L_N2 (decomp ps)) = true.
Proof.
  unfold decomp. destruct (span nodep ps) as [n1 r1].
  destruct r1 as [|k r2]; [reflexivity|]. destruct (is_kwkind (p_kind k)); [|reflexivity].
  pose proof (span_all nodep r2) as E. now destruct (span nodep r2).
Qed.
Lemma decomp_K ps k : L_K (decomp ps) = Some k -> is_kwkind (p_kind k) = true.
Proof.
  unfold decomp. destruct (span nodep ps) as [n1 r1].
  destruct r1 as [|k' r2]; [discriminate|]. destruct (is_kwkind (p_kind k')) eqn:E; [|discriminate].
  destruct (span nodep r2). cbn. now intros [= <-].
Qed.
Lemma head_not_arg ps : forallb (fun p => negb (argp p)) (head_of (decomp ps)) = true.
Proof.
  unfold head_of, kl. rewrite !forallb_app. 
  assert (X : forall l, forallb nodep l = true -> forallb (fun p => negb (argp p)) l = true).
  { induction l as [|x l IH]; cbn; [reflexivity|]. intros H. apply andb_true_iff in H as [H1 H2].
    unfold argp, nodep in *. now rewrite (nodekind_not_arg _ H1), IH. }
  rewrite (X _ (decomp_N1 ps)), (X _ (decomp_N2 ps)). cbn [andb].
  destruct (L_K (decomp ps)) as [k|] eqn:E; [|reflexivity]. cbn. unfold argp. now rewrite (kwkind_not_arg _ (decomp_K ps k E)).
Qed.

(* rule_ok: the argument part consists of argument parameters only, optional ones
   trail, and the keyword position recorded by _add_rule is the one of the layout *)
Fixpoint opt_trail (PA : list param) (seen : bool) : bool :=
  match PA with
  | [] => true
  | p :: r => (p_opt p || negb seen) && opt_trail r (seen || p_opt p)
  end.
Definition rule_ok (r : rule) : bool :=
  let L := decomp (r_params r) in
  forallb argp (L_A L) && opt_trail (L_A L) false
  && onat_eqb (r_pos r) (match L_K L with Some _ => Some (length (L_N1 L)) | None => None end).

(* ------------------------------------------------------------ print side -- *)
Lemma nodes_kw_nokw N : forall m kp, nodes_kw N m kp [] = N.
Proof. induction N as [|n N IH]; intros m kp; cbn [nodes_kw]; [reflexivity|]. cbn [is_nil negb]. rewrite andb_false_r. cbn [app]. now rewrite IH. Qed.
Lemma nodes_kw_past B : forall m p kw, p <= m -> nodes_kw B m (Some p) kw = B.
Proof.
  induction B as [|n B IH]; intros m p kw H; cbn [nodes_kw]; [reflexivity|].
  destruct (Nat.eqb_spec p (S m)); [lia|]. cbn [andb app]. rewrite IH by lia. reflexivity.
Qed.
Lemma nodes_kw_cons n r m kp kw : nodes_kw (n :: r) m kp kw
  = n :: (if (match kp with Some p => p =? S m | None => false end) && negb (is_nil kw) then [kw] else []) ++ nodes_kw r (S m) kp kw.
Proof. reflexivity. Qed.
Lemma nodes_kw_at A : forall B m kw, A <> [] -> kw <> [] ->
  nodes_kw (A ++ B) m (Some (m + length A)) kw = A ++ kw :: B.
Proof.
  induction A as [|a A IH]; intros B m kw HA Hk; [contradiction|].
  rewrite <- app_comm_cons, nodes_kw_cons. destruct A as [|a' A'].
  - cbn [length app]. replace (m + 1) with (S m) by lia. rewrite Nat.eqb_refl.
    destruct kw; [contradiction|]. cbn [is_nil negb andb app]. rewrite nodes_kw_past by lia. reflexivity.
  - destruct (Nat.eqb_spec (m + length (a :: a' :: A')) (S m)) as [E|E]; [cbn [length] in E; lia|].
    cbn [andb]. rewrite app_nil_l. replace (m + length (a :: a' :: A')) with (S m + length (a' :: A')) by (cbn [length]; lia).
    rewrite IH by (assumption || discriminate). reflexivity.
Qed.
Lemma fmtargs_length ds a : length (fmtargs ds a) <= length a.
Proof.
  induction a as [|x r IH]; [cbn; lia|]. destruct x as [v|].
  - rewrite fmtargs_some. cbn [length]. lia.
  - destruct r as [|y r']; [cbn; lia|]. rewrite fmtargs_none. cbn [length] in *. lia.
Qed.
Lemma fmtargs_nil ds r : fmtargs ds r = [] -> r = [] \/ r = [None].
Proof.
  destruct r as [|x r]; [now left|]. destruct x as [v|]; [rewrite fmtargs_some; discriminate|].
  destruct r as [|y r']; [now right|]. rewrite fmtargs_none. discriminate.
Qed.
Definition elide (fa : list str) (relname : str) : list str :=
  match fa with [x] => if str_eqb x relname then [] else fa | _ => fa end.
Lemma elide_length fa rel : length (elide fa rel) <= length fa.
Proof. unfold elide. destruct fa as [|x [|y t]]; cbn; try lia. destruct (str_eqb x rel); cbn; lia. Qed.

(* ------------------------------------------------- argument round trip -- *)
Fixpoint arg_wf (ds relname : str) (args : list (option str)) (PA : list param) : bool :=
  match args, PA with
  | [], [] => true
  | a :: ar, p :: pr =>
      (match a with
       | None => match dflt_of relname p with None => true | Some _ => false end
       | Some v => val_ok ds v
       end) && arg_wf ds relname ar pr
  | _, _ => false
  end.
Definition sv (f : str) : option str := Some (strip_value f).
Lemma strip_zero : strip_value ZERO = ZERO. Proof. reflexivity. Qed.
Lemma args_back ds relname args : forall PA,
  arg_wf ds relname args PA = true ->
  map sv (fmtargs ds args) ++ map (dflt_of relname) (skipn (length (fmtargs ds args)) PA) = norm_args args.
Proof.
  induction args as [|x r IH]; intros PA H.
  - destruct PA; [reflexivity|discriminate].
  - destruct PA as [|p PA]; [discriminate|]. cbn [arg_wf] in H. apply andb_true_iff in H as [H1 H2].
    destruct r as [|y r'].
    + destruct PA; [|discriminate]. rewrite norm_args_1. destruct x as [v|].
      * cbn [fmtargs map length skipn app]. unfold sv. now rewrite (strip_format ds v H1).
      * cbn [fmtargs map length skipn app]. destruct (dflt_of relname p); [discriminate|reflexivity].
    + rewrite norm_args_2. destruct x as [v|].
      * rewrite fmtargs_some. cbn [map length skipn app nz]. rewrite (IH PA H2). unfold sv. now rewrite (strip_format ds v H1).
      * rewrite fmtargs_none. cbn [map length skipn app nz]. rewrite (IH PA H2). reflexivity.
Qed.
Definition elide_ok (ds relname : str) (args : list (option str)) (PA : list param) : bool :=
  match fmtargs ds args with
  | [x] => if str_eqb x relname
           then match args, PA with
                | Some v :: _, p :: _ => ostr_eqb (dflt_of relname p) (Some v)
                | _, _ => false
                end
           else true
  | _ => true
  end.
Lemma ostr_eqb_true a b : ostr_eqb a b = true -> a = b.
Proof. destruct a, b; cbn; try discriminate; [|reflexivity]. intros H. now rewrite (str_eqb_true _ _ H). Qed.
Lemma args_back_elided ds relname args PA :
  length args = length PA -> arg_wf ds relname args PA = true -> elide_ok ds relname args PA = true ->
  map sv (elide (fmtargs ds args) relname)
    ++ map (dflt_of relname) (skipn (length (elide (fmtargs ds args) relname)) PA) = norm_args args.
Proof.
  intros HL Hw He. unfold elide. unfold elide_ok in He.
  destruct (fmtargs ds args) as [|x [|y t]] eqn:F; try (rewrite <- F; now apply args_back).
  destruct (str_eqb x relname) eqn:E; [|rewrite <- F; now apply args_back].
  destruct args as [|[v|] rest]; try discriminate. destruct PA as [|p PA]; [discriminate|].
  apply ostr_eqb_true in He. cbn [map skipn length app]. rewrite He.
  rewrite fmtargs_some in F. injection F as _ F. cbn [arg_wf] in Hw. apply andb_true_iff in Hw as [_ Hw].
  destruct (fmtargs_nil ds rest F) as [->| ->].
  - destruct PA; [reflexivity|discriminate].
  - destruct PA as [|q PA]; [discriminate|]. destruct PA; [|cbn in HL; discriminate].
    cbn [arg_wf] in Hw. rewrite andb_true_r in Hw. cbn [map]. destruct (dflt_of relname q); [discriminate|reflexivity].
Qed.

(* ================================================================ parse_print == *)
Definition rel_of (name : str) : str := last_str (split_on DOT name).
Definition ns_of (name : str) : str := join [DOT] (init_strs (split_on DOT name)).
Definition parsed_name (name : str) : str :=
  (if 1 <? length (split_on DOT name) then ns_of name ++ [DOT] else []) ++ rel_of name.
Definition printed_name (name : str) : str :=
  if is_nil (ns_of name) then rel_of name else ns_of name ++ [DOT] ++ rel_of name.
(* dots rejoin: without an empty namespace segment the reader's and the writer's way of
   reassembling namespace + relname both give the name back *)
Definition no_empty_ns (name : str) : bool := negb (existsb is_nil (init_strs (split_on DOT name))).
Lemma join_hd0 d (a : ascii) y rest : join d ((a :: y) :: rest) = a :: join d (y :: rest).
Proof. destruct rest; reflexivity. Qed.
Lemma join_split_on c s : join [c] (split_on c s) = s.
Proof.
  induction s as [|a r IH]; [reflexivity|]. cbn [split_on]. destruct (aeqb_spec a c) as [->|N].
  - rewrite join_cons by apply split_on_nonempty. cbn [app]. now rewrite IH.
  - destruct (split_on c r) as [|h t] eqn:E; [now apply split_on_nonempty in E|]. rewrite join_hd0. f_equal. exact IH.
Qed.
Lemma join_snoc d (X : list str) y : X <> [] -> join d (X ++ [y]) = join d X ++ d ++ y.
Proof.
  induction X as [|x X IH]; intros H; [contradiction|]. destruct X as [|x2 X2]; [reflexivity|].
  cbn [app]. rewrite join_cons by (destruct X2; discriminate). rewrite (join_cons d x (x2 :: X2)) by discriminate.
  change (x2 :: X2 ++ [y]) with ((x2 :: X2) ++ [y]). rewrite IH by discriminate. now rewrite <- !app_assoc.
Qed.
Lemma rejoin_gen (X : list str) (y : str) : existsb is_nil X = false ->
  (if is_nil (join [DOT] X) then y else join [DOT] X ++ [DOT] ++ y) = join [DOT] (X ++ [y])
  /\ (if 1 <? length (X ++ [y]) then join [DOT] X ++ [DOT] else []) ++ y = join [DOT] (X ++ [y]).
Proof.
  intros H. destruct X as [|x X].
  - cbn. now split.
  - rewrite join_snoc by discriminate.
    assert (NJ : is_nil (join [DOT] (x :: X)) = false).
    { cbn [existsb] in H. apply orb_false_iff in H as [H1 _]. destruct x as [|a x']; [discriminate|]. now rewrite join_hd0. }
    rewrite NJ. rewrite app_length. cbn [length].
    replace (1 <? S (length X) + 1) with true by (symmetry; apply Nat.ltb_lt; lia).
    split; [reflexivity|]. now rewrite <- app_assoc.
Qed.
Lemma name_rejoin name : no_empty_ns name = true -> printed_name name = name /\ parsed_name name = name.
Proof.
  unfold no_empty_ns, printed_name, parsed_name, ns_of, rel_of, last_str, init_strs. intros H. apply negb_true_iff in H.
  pose proof (join_split_on DOT name) as J. pose proof (split_on_nonempty DOT name) as NE.
  destruct (exists_last NE) as [X [y E]]. rewrite E in *. rewrite removelast_last in *. rewrite last_last.
  rewrite <- J. now apply rejoin_gen.
Qed.

Definition FAof (ds : str) (c : cpt) : list str := elide (fmtargs ds (c_args c)) (rel_of (c_name c)).
Definition kwf (L : layout) : list str := match L_K L with Some k => [p_name k] | None => [] end.
Definition rest_fields (ds : str) (L : layout) (c : cpt) : list str :=
  firstn (length (L_N1 L)) (c_nodes c) ++ kwf L ++ skipn (length (L_N1 L)) (c_nodes c) ++ FAof ds c.
Definition no_capture (rs : list rule) (F : list str) : bool := forallb (fun r1 => negb (captures r1 F)) rs.

(* well-formed component of rule number i of its type: every conjunct is a decidable
   check on c; the ones that exclude a real input shape are marked (F-..) *)
Definition wf_cpt (g : grammar) (rules : list rule) (i : nat) (r : rule) (c : cpt) : bool :=
  let ds := g_delims g in
  let L := decomp (r_params r) in
  let name := c_name c in
  let relname := rel_of name in
  let FR := rest_fields ds L c in
  (* class *)
  negb (str_eqb (c_class c) S_XX) && str_eqb (c_class c) (r_class r)
  (* name: not an anonymous A/O/W/P name, no empty namespace segment (the reader rejects it), longest type prefix is
     the rule's type, not a directive *)
  && negb (is_anon_name relname)
  && no_empty_ns name
  && (match match_type g relname with
      | Some (ty, id) => str_eqb ty (r_type r) && negb ((is_nil id && str_in ty anon_types) || str_eqb id [QM])
      | None => false end)
  && negb (is_directive g name)
  && str_eqb (strip_value relname) relname
  (* text: every printed field is self-contained, has no ';', the line has no edge blanks *)
  && forallb (field_ok ds) (name :: FR) && forallb (fun f => negb (mem SEMI f)) (name :: FR)
  && str_eqb (strip (print_cpt ds c)) (print_cpt ds c)
  (* keyword: the one of the rule (F-missing-keyword), and no field spells the keyword of an
     earlier sibling at that sibling's position (F-sibling-keyword) *)
  && (match L_K L with
      | Some k => str_eqb (c_kw c) (p_name k) && negb (is_nil (c_kw c))
                  && onat_eqb (c_kwpos c) (Some (length (L_N1 L))) && no_capture (firstn i rules) FR
      | None => is_nil (c_kw c) && onat_eqb (c_kwpos c) (leak_of rules None) && (i =? 0) && no_capture rules FR
      end)
  (* nodes *)
  && (length (c_nodes c) =? length (L_N1 L) + length (L_N2 L))
  && forallb (fun n => negb (first_is DOT n)) (c_nodes c)
  (* arguments: None only where the default is None, printable values, elision only of the
     default (F-elided), required ones present, no top-level '=' *)
  && (length (c_args c) =? length (L_A L))
  && arg_wf ds relname (c_args c) (L_A L) && elide_ok ds relname (c_args c) (L_A L)
  && req_ok (L_A L) (length (head_of L) + length (FAof ds c)) (length (head_of L))
  && forallb single_eq (FAof ds c).
(* the option string reads back (see opts_roundtrip for a syntactic sufficient condition) *)
Definition opts_rt (o : opts) : Prop := opts_add [] (strip (opts_format o)) = Ok o.

Definition norm (ds : str) (c : cpt) : cpt :=
  {| c_class := c_class c; c_name := c_name c; c_nodes := c_nodes c; c_args := norm_args (c_args c);
     c_kwpos := c_kwpos c; c_kw := c_kw c; c_opts := c_opts c; c_string := print_cpt ds c |}.

Lemma mem_join c d fs : aeqb c d = false -> forallb (fun f => negb (mem c f)) fs = true -> mem c (join [d] fs) = false.
Proof.
  intros N. induction fs as [|w r IH]; intros H; [reflexivity|]. cbn [forallb] in H. apply andb_true_iff in H as [H1 H2].
  apply negb_true_iff in H1. destruct r as [|w2 r2]; [exact H1|]. rewrite join_cons by discriminate.
  rewrite !mem_app, H1, (IH H2). cbn. now rewrite N.
Qed.
Lemma fixdot_id name f : first_is DOT f = false -> fixdot name [] f = f.
Proof. destruct f as [|a f]; [reflexivity|]. cbn. now intros ->. Qed.
Lemma map_fixdot_id name ns : forallb (fun n => negb (first_is DOT n)) ns = true -> map (fixdot name []) ns = ns.
Proof.
  induction ns as [|n r IH]; [reflexivity|]. cbn [forallb map]. intros H. apply andb_true_iff in H as [H1 H2].
  apply negb_true_iff in H1. now rewrite (fixdot_id _ _ H1), IH.
Qed.
Lemma forallb_firstn {A} (f : A -> bool) n l : forallb f l = true -> forallb f (firstn n l) = true.
Proof. revert n; induction l as [|x l IH]; intros [|n] H; cbn in *; try reflexivity. apply andb_true_iff in H as [H1 H2]. now rewrite H1, IH. Qed.
Lemma forallb_skipn {A} (f : A -> bool) n l : forallb f l = true -> forallb f (skipn n l) = true.
Proof. revert n; induction l as [|x l IH]; intros [|n] H; cbn in *; try reflexivity; [exact H|]. apply andb_true_iff in H as [H1 H2]. now apply IH. Qed.

(* the printer's field list, in terms of the rule layout *)
Lemma print_fields_layout ds c L :
  is_anon_name (rel_of (c_name c)) = false -> printed_name (c_name c) = c_name c ->
  length (c_nodes c) = length (L_N1 L) + length (L_N2 L) ->
  (match L_K L with
   | Some k => c_kw c = p_name k /\ c_kw c <> [] /\ c_kwpos c = Some (length (L_N1 L))
   | None => c_kw c = [] end) ->
  print_fields ds c = c_name c :: rest_fields ds L c.
Proof.
  intros Han Hpn Hlen Hk. unfold print_fields, rest_fields, FAof, elide, kwf. unfold printed_name, rel_of, ns_of in *.
  rewrite Han. cbv iota.
  cbn [app]. f_equal; [exact Hpn|].
  set (A := firstn (length (L_N1 L)) (c_nodes c)). set (B := skipn (length (L_N1 L)) (c_nodes c)).
  assert (EAB : c_nodes c = A ++ B) by (symmetry; apply firstn_skipn).
  assert (LA : length A = length (L_N1 L)) by (unfold A; rewrite firstn_length; lia).
  destruct (L_K L) as [k|].
  - destruct Hk as [K1 [K2 K3]]. rewrite K3. rewrite <- K1. destruct (c_kw c) as [|k0 kw'] eqn:EK; [contradiction|].
    cbn [is_nil negb andb]. destruct (length (L_N1 L)) as [|n1] eqn:EN.
    + cbn [andb]. destruct A; [|discriminate]. cbn [app] in *. rewrite nodes_kw_past by lia. subst B. cbn [skipn]. reflexivity.
    + cbn [andb app]. rewrite EAB. replace (S n1) with (0 + length A) by lia.
      rewrite nodes_kw_at; [|intros EA; rewrite EA in LA; cbn in LA; lia|discriminate].
      now rewrite <- app_assoc.
  - rewrite Hk. cbn [is_nil negb]. rewrite andb_false_r. cbn [app]. rewrite nodes_kw_nokw. rewrite app_assoc. now rewrite <- EAB.
Qed.

Lemma map_assigned FA : forall PA : list param, length FA <= length PA ->
  map a_value (map (fun pf : param * str => assigned (fst pf) (snd pf)) (combine (firstn (length FA) PA) FA)) = map sv FA.
Proof.
  induction FA as [|f FA IH]; intros PA H; [reflexivity|]. destruct PA as [|p PA]; [cbn in H; lia|].
  cbn [length firstn combine map fst snd assigned a_value]. rewrite IH by (cbn in H; lia). reflexivity.
Qed.
Lemma map_arg0 d PA : map a_value (map (arg0 d) PA) = map (dflt_of d) PA.
Proof. induction PA as [|p r IH]; [reflexivity|]. cbn [map arg0 a_value]. now rewrite IH. Qed.
Lemma skipn_exact {A} (X Y : list A) n : n = length X -> skipn n (X ++ Y) = Y.
Proof. intros ->. induction X; [reflexivity|]. exact IHX. Qed.

(* Rule.process on the printed fields *)
Lemma process_print_gen ds r c name relname :
  forallb argp (L_A (decomp (r_params r))) = true ->
  length (c_nodes c) = length (L_N1 (decomp (r_params r))) + length (L_N2 (decomp (r_params r))) ->
  forallb (fun n => negb (first_is DOT n)) (c_nodes c) = true ->
  length (c_args c) = length (L_A (decomp (r_params r))) ->
  map sv (FAof ds c) ++ map (dflt_of relname) (skipn (length (FAof ds c)) (L_A (decomp (r_params r)))) = norm_args (c_args c) ->
  req_ok (L_A (decomp (r_params r))) (length (head_of (decomp (r_params r))) + length (FAof ds c))
         (length (head_of (decomp (r_params r)))) = true ->
  forallb single_eq (FAof ds c) = true ->
  process r (rest_fields ds (decomp (r_params r)) c) name [] relname = Ok (c_nodes c, norm_args (c_args c)).
Proof.
  set (L := decomp (r_params r)). intros HA Hn Hdot Hal Hback Hreq Hse.
  pose proof (decomp_params (r_params r)) as EP. fold L in EP.
  set (A := firstn (length (L_N1 L)) (c_nodes c)). set (B := skipn (length (L_N1 L)) (c_nodes c)).
  assert (EAB : c_nodes c = A ++ B) by (symmetry; apply firstn_skipn).
  assert (LA : length A = length (L_N1 L)) by (unfold A; rewrite firstn_length; lia).
  assert (LB : length B = length (L_N2 L)) by (unfold B; rewrite skipn_length; lia).
  set (FA := FAof ds c) in *.
  assert (LFA : length FA <= length (L_A L)).
  { unfold FA, FAof. pose proof (elide_length (fmtargs ds (c_args c)) (rel_of (c_name c))).
    pose proof (fmtargs_length ds (c_args c)). lia. }
  assert (LK : length (kwf L) = length (kl L)) by (unfold kwf, kl; destruct (L_K L); reflexivity).
  set (X := A ++ kwf L ++ B).
  assert (EFR : rest_fields ds L c = X ++ FA) by (unfold rest_fields, X; fold A B FA; now rewrite <- !app_assoc).
  assert (LX : length X = length (head_of L)) by (unfold X, head_of; rewrite !app_length; lia).
  unfold process. rewrite EFR, <- EP, !app_length, LX.
  destruct (Nat.ltb_spec (length (head_of L) + length (L_A L)) (length (head_of L) + length FA)) as [Hlt|_]; [lia|].
  (* nodes *)
  assert (EN : extract_nodes (head_of L ++ L_A L) (X ++ FA) 0 name [] = Ok (c_nodes c)).
  { unfold head_of, X. rewrite <- !app_assoc.
    assert (R2 : extract_nodes (L_N2 L ++ L_A L) (B ++ FA) 0 name [] = Ok (map (fixdot name []) B ++ [])).
    { apply extract_nodes_nodes; [apply decomp_N2|exact LB|]. now apply extract_nodes_args. }
    assert (R1 : extract_nodes (kl L ++ L_N2 L ++ L_A L) (kwf L ++ B ++ FA) 0 name [] = Ok (map (fixdot name []) B ++ [])).
    { unfold kl, kwf. destruct (L_K L) as [k|] eqn:EK; [|exact R2]. cbn [app].
      rewrite extract_nodes_kw; [exact R2|]. exact (decomp_K _ _ EK). }
    rewrite (extract_nodes_nodes (L_N1 L) A _ _ name [] _ (decomp_N1 _) LA R1).
    rewrite app_nil_r, <- map_app, <- EAB. now rewrite map_fixdot_id. }
  rewrite EN. cbn [bind].
  (* args *)
  unfold extract_args. rewrite !app_length, LX.
  rewrite (init_args_head (head_of L) (L_A L) _ 0 0 relname (head_not_arg _)). cbn [Nat.add].
  replace (match head_of L with [] => 0 | _ :: _ => length (head_of L) end) with (length (head_of L)) by (destruct (head_of L); reflexivity).
  rewrite (init_args_tail (L_A L) _ _ _ relname HA Hreq). cbn [bind fst snd].
  rewrite (skipn_exact X FA _ (eq_sym LX)).
  pose proof (unnamed_all FA [] (L_A L) [] relname Hse LFA eq_refl) as U. cbn [length app] in U. rewrite U.
  cbn [bind fst snd named]. rewrite map_app, map_assigned by exact LFA. rewrite map_arg0.
  fold L in Hback. now rewrite Hback.
Qed.
Lemma process_print ds r c name relname :
  forallb argp (L_A (decomp (r_params r))) = true ->
  length (c_nodes c) = length (L_N1 (decomp (r_params r))) + length (L_N2 (decomp (r_params r))) ->
  forallb (fun n => negb (first_is DOT n)) (c_nodes c) = true ->
  length (c_args c) = length (L_A (decomp (r_params r))) ->
  relname = rel_of (c_name c) ->
  arg_wf ds relname (c_args c) (L_A (decomp (r_params r))) = true ->
  elide_ok ds relname (c_args c) (L_A (decomp (r_params r))) = true ->
  req_ok (L_A (decomp (r_params r))) (length (head_of (decomp (r_params r))) + length (FAof ds c))
         (length (head_of (decomp (r_params r)))) = true ->
  forallb single_eq (FAof ds c) = true ->
  process r (rest_fields ds (decomp (r_params r)) c) name [] relname = Ok (c_nodes c, norm_args (c_args c)).
Proof.
  intros HA Hn Hdot Hal Hrel Hwf Hel Hreq Hse. apply process_print_gen; try assumption.
  unfold FAof. rewrite <- Hrel. now apply args_back_elided.
Qed.

Lemma nth_error_split_firstn {A} (l : list A) i x : nth_error l i = Some x -> l = firstn i l ++ x :: skipn (S i) l.
Proof.
  revert i; induction l as [|a l IH]; intros [|i] H; try discriminate.
  - injection H as ->. reflexivity.
  - cbn [firstn skipn app]. f_equal. now apply IH.
Qed.
Lemma nth_error_mid {A} (X : list A) k Y n : n = length X -> nth_error (X ++ k :: Y) n = Some k.
Proof. intros ->. rewrite nth_error_app2 by lia. now rewrite Nat.sub_diag. Qed.
Lemma hd_join a (w : str) d r : hd a (join [d] ((a :: w) :: r)) = a.
Proof. destruct r; reflexivity. Qed.
Lemma onat_eqb_true a b : onat_eqb a b = true -> a = b.
Proof. destruct a, b; cbn; try discriminate; [|reflexivity]. intros H. apply Nat.eqb_eq in H. now subst. Qed.
Local Open Scope string_scope.
Lemma S2_semi_sp : s2l "; " = [SEMI; SP]. Proof. reflexivity. Qed.
Local Close Scope string_scope.

(* THEOREM parse_print *)
Theorem parse_print g st rules i r c :
  mem SP (g_delims g) = true ->
  assoc_get (r_type r) (g_dict g) = Some rules ->
  nth_error rules i = Some r ->
  rule_ok r = true ->
  wf_cpt g rules i r c = true ->
  opts_rt (c_opts c) ->
  parse g st [] (print_cpt (g_delims g) c) = Ok (norm (g_delims g) c, st).
Proof.
  intros Hsp Hdict Hnth Hrule Hwf Hopts.
  set (ds := g_delims g) in *. set (L := decomp (r_params r)) in *.
  unfold wf_cpt in Hwf. fold ds L in Hwf. cbv zeta in Hwf.
  set (name := c_name c) in *. set (relname := rel_of name) in *. set (FR := rest_fields ds L c) in *.
  repeat (let H := fresh "W" in apply andb_true_iff in Hwf as [Hwf H]).
  rename Hwf into Wcls0.
  (* W0 class<>XX, W class=, W17 anon .. in reverse order of the conjunction *)
  apply negb_true_iff in Wcls0.
  unfold rule_ok in Hrule. fold L in Hrule. apply andb_true_iff in Hrule as [Hrule Rpos]. apply andb_true_iff in Hrule as [RA _].
  apply onat_eqb_true in Rpos.
  (* unpack the conjuncts by name *)
  match goal with H : forallb single_eq _ = true |- _ => rename H into Hse end.
  match goal with H : req_ok _ _ _ = true |- _ => rename H into Hreq end.
  match goal with H : elide_ok _ _ _ _ = true |- _ => rename H into Hel end.
  match goal with H : arg_wf _ _ _ _ = true |- _ => rename H into Hargs end.
  match goal with H : (length (c_args c) =? _) = true |- _ => apply Nat.eqb_eq in H; rename H into Hal end.
  match goal with H : forallb (fun n => negb (first_is DOT n)) _ = true |- _ => rename H into Hdot end.
  match goal with H : (length (c_nodes c) =? _) = true |- _ => apply Nat.eqb_eq in H; rename H into Hnl end.
  match goal with H : str_eqb (strip _) _ = true |- _ => apply str_eqb_true in H; rename H into Hstrip end.
  match goal with H : forallb (fun f => negb (mem SEMI f)) _ = true |- _ => rename H into Hsemi end.
  match goal with H : forallb (field_ok ds) _ = true |- _ => rename H into Hfields end.
  match goal with H : str_eqb (strip_value relname) relname = true |- _ => apply str_eqb_true in H; rename H into Hsv end.
  match goal with H : negb (is_directive g name) = true |- _ => apply negb_true_iff in H; rename H into Hdir end.
  match goal with H : no_empty_ns name = true |- _ => rename H into Hns end.
  destruct (name_rejoin name Hns) as [Hpri Hpar].
  match goal with H : negb (is_anon_name relname) = true |- _ => apply negb_true_iff in H; rename H into Hanon end.
  match goal with H : str_eqb (c_class c) (r_class r) = true |- _ => apply str_eqb_true in H; rename H into Hcls end.
  match goal with H : match match_type g relname with _ => _ end = true |- _ => rename H into Hmt end.
  match goal with H : match L_K L with _ => _ end = true |- _ => rename H into Hkw end.
  (* keyword facts in Prop form *)
  assert (KW : match L_K L with
               | Some k => c_kw c = p_name k /\ c_kw c <> [] /\ c_kwpos c = Some (length (L_N1 L))
               | None => c_kw c = [] end).
  { destruct (L_K L) as [k|].
    - apply andb_true_iff in Hkw as [Hkw _]. apply andb_true_iff in Hkw as [Hkw K3]. apply andb_true_iff in Hkw as [K1 K2].
      apply str_eqb_true in K1. apply onat_eqb_true in K3. apply negb_true_iff in K2.
      repeat split; try assumption. intros E. rewrite E in K2. discriminate.
    - apply andb_true_iff in Hkw as [Hkw _]. apply andb_true_iff in Hkw as [Hkw _]. apply andb_true_iff in Hkw as [K1 _].
      destruct (c_kw c); [reflexivity|discriminate]. }
  (* the printed text *)
  pose proof (print_fields_layout ds c L Hanon Hpri Hnl KW) as PF. fold name FR in PF.
  assert (PC : print_cpt ds c = with_opts (join [SP] (name :: FR)) (c_opts c)).
  { unfold print_cpt. rewrite Wcls0. now rewrite PF. }
  set (main := join [SP] (name :: FR)) in *.
  assert (Hname : exists a w, name = a :: w).
  { cbn [forallb] in Hfields. apply andb_true_iff in Hfields as [F1 _]. apply field_ok_inv in F1 as [F1 _].
    destruct name as [|a w]; [contradiction|]. now exists a, w. }
  destruct Hname as [a [w En]].
  assert (Hmain : exists t, main = a :: t).
  { unfold main. rewrite En. destruct FR; cbn; eauto. }
  destruct Hmain as [t Emain].
  assert (Hsm : mem SEMI main = false) by (apply mem_join; [reflexivity|exact Hsemi]).
  unfold parse. rewrite Hstrip.
  assert (Hd2 : is_directive g (print_cpt ds c) = false).
  { rewrite PC. unfold with_opts. rewrite En in Hdir. cbn [is_directive] in Hdir.
    destruct (is_nil (strip (opts_format (c_opts c)))); rewrite Emain; exact Hdir. }
  rewrite Hd2.
  (* split at the first ';' *)
  assert (SF : split_first SEMI (print_cpt ds c)
               = (main, if is_nil (strip (opts_format (c_opts c))) then None else Some (SP :: strip (opts_format (c_opts c))))).
  { rewrite PC. unfold with_opts. destruct (is_nil (strip (opts_format (c_opts c)))).
    - now apply split_first_free.
    - rewrite S2_semi_sp. cbn [app]. change (main ++ SEMI :: SP :: strip (opts_format (c_opts c)))
        with (main ++ SEMI :: (SP :: strip (opts_format (c_opts c)))). now apply split_first_app. }
  rewrite SF. fold ds.
  assert (SJ : split ds main = Some (name :: FR)).
  { apply split_join; [exact Hsp|]. apply Forall_forall. intros x Hx. rewrite forallb_forall in Hfields. now apply Hfields. }
  rewrite SJ.
  (* parse_cpt *)
  unfold parse_cpt. assert (Hns' := Hns). unfold no_empty_ns in Hns'. apply negb_true_iff in Hns'. rewrite Hns'.
  fold (rel_of name). fold relname.
  destruct (match_type g relname) as [[ty id]|]; [|discriminate].
  apply andb_true_iff in Hmt as [Ety Hanon2]. apply str_eqb_true in Ety. subst ty. apply negb_true_iff in Hanon2.
  rewrite Hdict. destruct rules as [|r0 rs]; [destruct i; discriminate|].
  assert (SEL : select (r0 :: rs) FR r0 None = (r, c_kw c, c_kwpos c)).
  { destruct (L_K L) as [k|] eqn:EK.
    - destruct KW as [K1 [K2 K3]]. apply andb_true_iff in Hkw as [_ Hnc].
      rewrite (nth_error_split_firstn _ _ _ Hnth).
      assert (Ek : nth_error (r_params r) (length (L_N1 L)) = Some k).
      { pose proof (decomp_params (r_params r)) as EP. fold L in EP. rewrite <- EP. unfold head_of, kl. rewrite EK.
        rewrite <- !app_assoc. cbn [app]. now apply nth_error_mid. }
      rewrite K1, K3. apply select_hit; [exact Hnc|exact Rpos|exact Ek|].
      unfold captures. rewrite Rpos, Ek.
      assert (Ef : nth_error FR (length (L_N1 L)) = Some (p_name k)).
      { unfold FR, rest_fields, kwf. rewrite EK. cbn [app]. apply nth_error_mid. rewrite firstn_length. lia. }
      rewrite Ef. apply str_eqb_refl.
    - apply andb_true_iff in Hkw as [Hkw Hnc]. apply andb_true_iff in Hkw as [Hkw Hi]. apply andb_true_iff in Hkw as [_ K3].
      apply Nat.eqb_eq in Hi. subst i. cbn in Hnth. injection Hnth as ->. apply onat_eqb_true in K3.
      rewrite KW, K3. now apply select_none. }
  rewrite SEL.
  assert (NK : is_nil (c_kw c) && (match r_pos r with Some p => p <? length FR | None => false end) = false).
  { rewrite Rpos. destruct (L_K L) as [k|].
    - destruct KW as [_ [K2 _]]. destruct (c_kw c); [contradiction|reflexivity].
    - apply andb_false_r. }
  rewrite NK.
  rewrite Hanon2.
  assert (EN' : [] ++ (if 1 <? length (split_on DOT name) then join [DOT] (init_strs (split_on DOT name)) ++ [DOT] else []) ++ relname = name).
  { cbn [app]. exact Hpar. }
  rewrite EN'.
  pose proof (process_print ds r c name relname RA Hnl Hdot Hal eq_refl Hargs Hel Hreq Hse) as PP.
  fold L in PP. fold FR in PP. rewrite PP.
  cbn [bind fst snd].
  (* options *)
  unfold opts_rt in Hopts. pose proof (strip_sp_strip (opts_format (c_opts c))) as E2.
  destruct (strip (opts_format (c_opts c))) as [|b u]; cbn [is_nil].
  - rewrite Hopts. cbn [bind]. unfold norm. rewrite <- Hcls. reflexivity.
  - rewrite E2, Hopts. cbn [bind]. unfold norm. rewrite <- Hcls. reflexivity.
Qed.

(* ------------------------------------------------ norm and idempotence -- *)
Lemma print_fields_norm ds c : arg_format ds ZERO = ZERO ->
  print_fields ds (norm ds c) = print_fields ds c.
Proof. intros HZ. unfold print_fields, norm. cbn [c_name c_args c_kwpos c_kw c_nodes]. now rewrite fmtargs_norm. Qed.
(* THEOREM print_norm: normalising does not change the text *)
Theorem print_norm ds c : arg_format ds ZERO = ZERO -> print_cpt ds (norm ds c) = print_cpt ds c.
Proof.
  intros HZ. unfold print_cpt at 1. cbn [c_class norm c_string c_opts].
  destruct (str_eqb (c_class c) S_XX) eqn:E; [reflexivity|].
  rewrite (print_fields_norm ds c HZ). unfold print_cpt. now rewrite E.
Qed.
(* THEOREM norm_idem *)
Theorem norm_idem ds c : arg_format ds ZERO = ZERO -> norm ds (norm ds c) = norm ds c.
Proof.
  intros HZ. unfold norm at 1. rewrite (print_norm ds c HZ). unfold norm. cbn [c_class c_name c_nodes c_args c_kwpos c_kw c_opts].
  now rewrite norm_args_idem.
Qed.
(* THEOREM print_idempotent: from the first round trip on, text and component are fixed points:
   reading the printed text and printing again gives the same text, and reading that text
   gives the same (normalised) component *)
Theorem print_idempotent g st rules i r c c' st' :
  mem SP (g_delims g) = true -> arg_format (g_delims g) ZERO = ZERO ->
  assoc_get (r_type r) (g_dict g) = Some rules -> nth_error rules i = Some r -> rule_ok r = true ->
  wf_cpt g rules i r c = true -> opts_rt (c_opts c) ->
  parse g st [] (print_cpt (g_delims g) c) = Ok (c', st') ->
  print_cpt (g_delims g) c' = print_cpt (g_delims g) c
  /\ parse g st [] (print_cpt (g_delims g) c') = Ok (c', st').
Proof.
  intros Hsp HZ Hd Hn Hr Hw Ho Hp. rewrite (parse_print g st rules i r c Hsp Hd Hn Hr Hw Ho) in Hp.
  injection Hp as <- <-. split; [now apply print_norm|]. rewrite (print_norm _ c HZ).
  now apply parse_print with (rules := rules) (i := i) (r := r).
Qed.

(* ------------------------------------------------------------ rejection -- *)
(* unbalanced braces *)
Theorem reject_unbalanced g st s :
  is_directive g (strip s) = false ->
  split (g_delims g) (fst (split_first SEMI (strip s))) = None ->
  parse g st [] s = Err EUnbalanced.
Proof. intros Hd Hs. unfold parse. rewrite Hd. destruct (split_first SEMI (strip s)) as [main rest]. cbn [fst] in Hs. now rewrite Hs. Qed.
Theorem reject_more_open g st s :
  mem LBR (g_delims g) = false -> mem RBR (g_delims g) = false -> mem QUO (g_delims g) = false ->
  is_directive g (strip s) = false ->
  quote_free (fst (split_first SEMI (strip s))) = true ->
  count_occ ascii_dec (fst (split_first SEMI (strip s))) RBR < count_occ ascii_dec (fst (split_first SEMI (strip s))) LBR ->
  parse g st [] s = Err EUnbalanced.
Proof. intros HL HR HQ Hd Hq Hc. apply reject_unbalanced; [exact Hd|]. now apply more_open_rejected. Qed.

(* unknown component type *)
Lemma best_type_none types s : forall best,
  forallb (fun t => negb (starts_with t s)) types = true -> best_type types s best = best.
Proof.
  induction types as [|t r IH]; intros best H; [reflexivity|]. cbn [forallb] in H. apply andb_true_iff in H as [H1 H2].
  apply negb_true_iff in H1. cbn [best_type]. rewrite H1. cbn [andb]. now apply IH.
Qed.
(* empty namespace segment ('.R1', 'a..R1' as a name field) *)
Theorem reject_empty_namespace g st ns net name fields rest :
  no_empty_ns name = false -> parse_cpt g st ns net name fields rest = Err EEmptyNs.
Proof. unfold no_empty_ns. intros H. apply negb_false_iff in H. unfold parse_cpt. now rewrite H. Qed.
Theorem reject_unknown_type g st ns net name fields rest :
  no_empty_ns name = true ->
  forallb (fun t => negb (starts_with t (last_str (split_on DOT name)))) (map fst (g_dict g)) = true ->
  parse_cpt g st ns net name fields rest = Err EUnknownCpt.
Proof.
  unfold no_empty_ns. intros Hn H. apply negb_true_iff in Hn. unfold parse_cpt, match_type. rewrite Hn.
  now rewrite (best_type_none _ _ None H).
Qed.

(* too many fields: whatever rule of the type is selected *)
Lemma select_in rules fields d : forall leak, In (fst (fst (select rules fields d leak))) (d :: rules).
Proof.
  induction rules as [|r1 rest IH]; intros leak; cbn [select]; [now left|].
  assert (X : forall l, In (fst (fst (select rest fields d l))) (d :: r1 :: rest)).
  { intros l. destruct (IH l) as [E|E]; [now left|right; now right]. }
  destruct (r_pos r1) as [p|]; [|apply X].
  destruct (nth_error fields p) as [f|]; [|apply X]. destruct (nth_error (r_params r1) p) as [prm|]; [|apply X].
  destruct (str_eqb (lower f) (lower (p_name prm))); [right; now left|apply X].
Qed.
Theorem reject_too_many_fields r fields name ns dflt :
  length (r_params r) < length fields -> process r fields name ns dflt = Err ETooMany.
Proof. intros H. unfold process. destruct (Nat.ltb_spec (length (r_params r)) (length fields)); [reflexivity|lia]. Qed.
Theorem reject_too_many g st ns net name fields rest ty id rules :
  no_empty_ns name = true ->
  match_type g (last_str (split_on DOT name)) = Some (ty, id) ->
  assoc_get ty (g_dict g) = Some rules -> rules <> [] ->
  Forall (fun r => length (r_params r) < length fields) rules ->
  parse_cpt g st ns net name fields rest = Err ETooMany
  \/ parse_cpt g st ns net name fields rest = Err EUnknownKw.
Proof.
  unfold no_empty_ns. intros Hn Hm Hd Hne Hall. apply negb_true_iff in Hn. unfold parse_cpt. rewrite Hn, Hm, Hd. destruct rules as [|r0 rs]; [contradiction|].
  pose proof (select_in (r0 :: rs) fields r0 None) as Hin.
  destruct (select (r0 :: rs) fields r0 None) as [[r kw] leak]. cbn [fst] in Hin.
  assert (Hr : length (r_params r) < length fields).
  { rewrite Forall_forall in Hall. destruct Hin as [<-|Hin]; apply Hall; [now left|exact Hin]. }
  destruct (is_nil kw && match r_pos r with Some p => p <? length fields | None => false end); [now right|left].
  destruct (if is_nil id && str_in ty anon_types || str_eqb id [QM] then make_anon st ty else _) as [relname' st'].
  now rewrite reject_too_many_fields.
Qed.
(* an unknown word where the type expects a keyword *)
Theorem reject_unknown_keyword g st ns net name fields rest ty id r0 rs r leak p :
  no_empty_ns name = true ->
  match_type g (last_str (split_on DOT name)) = Some (ty, id) ->
  assoc_get ty (g_dict g) = Some (r0 :: rs) ->
  select (r0 :: rs) fields r0 None = (r, [], leak) -> r_pos r = Some p -> p < length fields ->
  parse_cpt g st ns net name fields rest = Err EUnknownKw.
Proof.
  unfold no_empty_ns. intros Hn Hm Hd Hs Hp Hl. apply negb_true_iff in Hn. unfold parse_cpt. rewrite Hn, Hm, Hd, Hs, Hp.
  cbn [is_nil andb]. apply Nat.ltb_lt in Hl. now rewrite Hl.
Qed.

(* too few nodes *)
Lemma extract_nodes_err ps : forall fields m name ns e,
  extract_nodes ps fields m name ns = Err e -> e = EMissingNode.
Proof.
  induction ps as [|p r IH]; intros fields m name ns e H; cbn [extract_nodes] in H; [discriminate|].
  destruct (is_nodekind (p_kind p)); [|now apply IH in H].
  destruct (nth_error fields m); [|now injection H as <-].
  destruct (extract_nodes r fields (S m) name ns) eqn:E; cbn [bind] in H; [discriminate|]. injection H as <-. now apply IH in E.
Qed.
Lemma extract_nodes_missing ps : forall fields m name ns j p,
  nth_error ps j = Some p -> is_nodekind (p_kind p) = true -> length fields <= m + j ->
  extract_nodes ps fields m name ns = Err EMissingNode.
Proof.
  induction ps as [|q r IH]; intros fields m name ns j p Hj Hk Hl; [destruct j; discriminate|].
  cbn [extract_nodes]. destruct j as [|j].
  - injection Hj as ->. rewrite Hk. replace (nth_error fields m) with (@None str); [reflexivity|].
    symmetry. apply nth_error_None. lia.
  - cbn [nth_error] in Hj. assert (R : extract_nodes r fields (S m) name ns = Err EMissingNode).
    { apply (IH fields (S m) name ns j p Hj Hk). lia. }
    destruct (is_nodekind (p_kind q)); [|exact R]. destruct (nth_error fields m); [|reflexivity]. now rewrite R.
Qed.
Theorem reject_missing_node r fields name ns dflt j p :
  length fields <= length (r_params r) ->
  nth_error (r_params r) j = Some p -> is_nodekind (p_kind p) = true -> length fields <= j ->
  process r fields name ns dflt = Err EMissingNode.
Proof.
  intros Hle Hj Hk Hl. unfold process. destruct (Nat.ltb_spec (length (r_params r)) (length fields)); [lia|].
  now rewrite (extract_nodes_missing (r_params r) fields 0 name ns j p Hj Hk).
Qed.

(* unknown named parameter / value after a named parameter *)
Theorem reject_unknown_param args f r k v more :
  split_eq f = Ok (k :: v :: more) -> args_index args k 0 = None -> named args (f :: r) = Err EUnknownParam.
Proof. intros Hs Hi. cbn [named]. rewrite Hs. cbn [bind]. now rewrite Hi. Qed.
Theorem reject_after_named args f r ps :
  split_eq f = Ok ps -> length ps < 2 -> named args (f :: r) = Err EAfterNamed.
Proof. intros Hs Hl. cbn [named]. rewrite Hs. cbn [bind]. destruct ps as [|a [|b t]]; try reflexivity. cbn in Hl. lia. Qed.
Theorem reject_duplicate_param args f r k v more i :
  split_eq f = Ok (k :: v :: more) -> args_index args k 0 = Some i ->
  (exists a, nth_error args i = Some a /\ a_assigned a = true) ->
  named args (f :: r) = Err EAssigned.
Proof.
  intros Hs Hi [a [Ha Hb]]. cbn [named]. rewrite Hs. cbn [bind]. rewrite Hi. clear Hi.
  assert (X : assign_at args i v = Err EAssigned).
  { revert i Ha. induction args as [|x args IH]; intros [|i] Ha; try discriminate.
    - injection Ha as ->. cbn [assign_at]. now rewrite Hb.
    - cbn [assign_at]. now rewrite (IH i Ha). }
  now rewrite X.
Qed.
(* the extraction of arguments stops at the first name=value field and hands the rest to [named] *)
Lemma unnamed_stops args f r m ps : split_eq f = Ok ps -> 1 < length ps -> unnamed args (f :: r) m = Ok (args, f :: r).
Proof. intros Hs Hl. cbn [unnamed]. rewrite Hs. cbn [bind]. destruct (Nat.ltb_spec 1 (length ps)); [reflexivity|lia]. Qed.

(* --------------------------------------------------- whole-grammar lift -- *)
Fixpoint nodupb (l : list str) : bool :=
  match l with [] => true | x :: r => negb (str_in x r) && nodupb r end.
Lemma assoc_get_in {A} (d : list (str * A)) : nodupb (map fst d) = true ->
  forall k v, In (k, v) d -> assoc_get k d = Some v.
Proof.
  induction d as [|[k' v'] d IH]; intros Hn k v Hin; [contradiction|].
  cbn [map fst nodupb] in Hn. apply andb_true_iff in Hn as [H1 H2]. apply negb_true_iff in H1.
  cbn [assoc_get]. destruct Hin as [E|Hin].
  - injection E as -> ->. now rewrite str_eqb_refl.
  - destruct (str_eqb_spec k k') as [->|N]; [|now apply IH].
    exfalso. unfold str_in in H1. assert (X : existsb (str_eqb k') (map fst d) = true).
    { apply existsb_exists. exists k'. split; [|apply str_eqb_refl]. apply in_map_iff. now exists (k', v). }
    congruence.
Qed.
(* the finite check evaluated by vm_compute on the regenerated grammar *)
Definition grammar_ok (g : grammar) : bool :=
  mem SP (g_delims g) && str_eqb (arg_format (g_delims g) ZERO) ZERO
  && nodupb (map fst (g_dict g))
  && forallb (fun kv => forallb (fun r => rule_ok r && str_eqb (r_type r) (fst kv)) (snd kv)) (g_dict g).
(* THEOREM parse_print_grammar: every rule of every type of a checked grammar *)
Theorem parse_print_grammar g : grammar_ok g = true ->
  forall ty rules i r c st, In (ty, rules) (g_dict g) -> nth_error rules i = Some r ->
  wf_cpt g rules i r c = true -> opts_rt (c_opts c) ->
  parse g st [] (print_cpt (g_delims g) c) = Ok (norm (g_delims g) c, st)
  /\ norm (g_delims g) (norm (g_delims g) c) = norm (g_delims g) c
  /\ print_cpt (g_delims g) (norm (g_delims g) c) = print_cpt (g_delims g) c.
Proof.
  intros Hg ty rules i r c st Hin Hn Hw Ho. unfold grammar_ok in Hg.
  apply andb_true_iff in Hg as [Hg Hall]. apply andb_true_iff in Hg as [Hg Hnd]. apply andb_true_iff in Hg as [Hsp HZ].
  apply str_eqb_true in HZ.
  rewrite forallb_forall in Hall. specialize (Hall _ Hin). cbn [fst snd] in Hall. rewrite forallb_forall in Hall.
  specialize (Hall r (nth_error_In _ _ Hn)). apply andb_true_iff in Hall as [Hr Ht]. apply str_eqb_true in Ht.
  split; [|split; [now apply norm_idem|now apply print_norm]].
  apply parse_print with (rules := rules) (i := i) (r := r); try assumption.
  rewrite Ht. now apply assoc_get_in.
Qed.

(* ============================================== anonymous A / O / W / P names == *)
(* _netmake1 prints such a component under its bare type letter and the reader invents a
   fresh name: the round trip holds up to that name *)
Definition anon_pn (name : str) : str :=
  if is_nil (ns_of name) then firstn 1 (rel_of name) else ns_of name ++ [DOT] ++ firstn 1 (rel_of name).
Definition anon_prefix (pn : str) : str := if 1 <? length (split_on DOT pn) then ns_of pn ++ [DOT] else [].
Definition rename (c : cpt) (n : str) : cpt :=
  {| c_class := c_class c; c_name := n; c_nodes := c_nodes c; c_args := c_args c;
     c_kwpos := c_kwpos c; c_kw := c_kw c; c_opts := c_opts c; c_string := c_string c |}.
Definition wf_anon (g : grammar) (rules : list rule) (i : nat) (r : rule) (c : cpt) : bool :=
  let ds := g_delims g in
  let L := decomp (r_params r) in
  let name := c_name c in
  let pn := anon_pn name in
  let FR := rest_fields ds L c in
  negb (str_eqb (c_class c) S_XX) && str_eqb (c_class c) (r_class r)
  && is_anon_name (rel_of name)
  && no_empty_ns pn && str_eqb (rel_of pn) (firstn 1 (rel_of name))
  && (match match_type g (firstn 1 (rel_of name)) with
      | Some (ty, id) => str_eqb ty (r_type r) && is_nil id && str_in ty anon_types
      | None => false end)
  && negb (is_directive g pn)
  && forallb (field_ok ds) (pn :: FR) && forallb (fun f => negb (mem SEMI f)) (pn :: FR)
  && str_eqb (strip (print_cpt ds c)) (print_cpt ds c)
  && (match L_K L with
      | Some k => str_eqb (c_kw c) (p_name k) && negb (is_nil (c_kw c))
                  && onat_eqb (c_kwpos c) (Some (length (L_N1 L))) && no_capture (firstn i rules) FR
      | None => is_nil (c_kw c) && onat_eqb (c_kwpos c) (leak_of rules None) && (i =? 0) && no_capture rules FR
      end)
  && (length (c_nodes c) =? length (L_N1 L) + length (L_N2 L))
  && forallb (fun n => negb (first_is DOT n)) (c_nodes c)
  && is_nil (c_args c) && is_nil (L_A L).

Lemma print_fields_anon ds c L :
  is_anon_name (rel_of (c_name c)) = true -> c_args c = [] ->
  length (c_nodes c) = length (L_N1 L) + length (L_N2 L) ->
  (match L_K L with
   | Some k => c_kw c = p_name k /\ c_kw c <> [] /\ c_kwpos c = Some (length (L_N1 L))
   | None => c_kw c = [] end) ->
  print_fields ds c = anon_pn (c_name c) :: rest_fields ds L c.
Proof.
  intros Han Hargs Hlen Hk. unfold print_fields, rest_fields, FAof, elide, kwf, anon_pn. unfold rel_of, ns_of in *.
  rewrite Han, Hargs. cbv iota. cbn [fmtargs].
  cbn [app]. apply f_equal.
  set (A := firstn (length (L_N1 L)) (c_nodes c)). set (B := skipn (length (L_N1 L)) (c_nodes c)).
  assert (EAB : c_nodes c = A ++ B) by (symmetry; apply firstn_skipn).
  assert (LA : length A = length (L_N1 L)) by (unfold A; rewrite firstn_length; lia).
  rewrite !app_nil_r.
  destruct (L_K L) as [k|].
  - destruct Hk as [K1 [K2 K3]]. rewrite K3. rewrite <- K1. destruct (c_kw c) as [|k0 kw'] eqn:EK; [contradiction|].
    cbn [is_nil negb andb]. destruct (length (L_N1 L)) as [|n1] eqn:EN.
    + cbn [andb]. destruct A; [|discriminate]. cbn [app] in *. rewrite nodes_kw_past by lia. subst B. cbn [skipn]. reflexivity.
    + cbn [andb app]. rewrite EAB. replace (S n1) with (0 + length A) by lia.
      rewrite nodes_kw_at; [|intros EA; rewrite EA in LA; cbn in LA; lia|discriminate]. reflexivity.
  - rewrite Hk. cbn [is_nil negb]. rewrite andb_false_r. cbn [app]. rewrite nodes_kw_nokw. now rewrite <- EAB.
Qed.

Lemma select_print g rules i r c FR :
  let L := decomp (r_params r) in
  FR = rest_fields (g_delims g) L c ->
  nth_error rules i = Some r ->
  r_pos r = (match L_K L with Some _ => Some (length (L_N1 L)) | None => None end) ->
  length (c_nodes c) = length (L_N1 L) + length (L_N2 L) ->
  (match L_K L with
   | Some k => str_eqb (c_kw c) (p_name k) && negb (is_nil (c_kw c))
               && onat_eqb (c_kwpos c) (Some (length (L_N1 L))) && no_capture (firstn i rules) FR
   | None => is_nil (c_kw c) && onat_eqb (c_kwpos c) (leak_of rules None) && (i =? 0) && no_capture rules FR
   end) = true ->
  forall r0, hd_error rules = Some r0 -> select rules FR r0 None = (r, c_kw c, c_kwpos c).
Proof.
  intros L EFR Hnth Rpos Hnl Hkw r0 Hr0. destruct (L_K L) as [k|] eqn:EK.
  - apply andb_true_iff in Hkw as [Hkw Hnc]. apply andb_true_iff in Hkw as [Hkw K3]. apply andb_true_iff in Hkw as [K1 _].
    apply str_eqb_true in K1. apply onat_eqb_true in K3.
    rewrite (nth_error_split_firstn _ _ _ Hnth).
    assert (Ek : nth_error (r_params r) (length (L_N1 L)) = Some k).
    { pose proof (decomp_params (r_params r)) as EP. fold L in EP. rewrite <- EP. unfold head_of, kl. rewrite EK.
      rewrite <- !app_assoc. cbn [app]. now apply nth_error_mid. }
    rewrite K1, K3. apply select_hit; [exact Hnc|exact Rpos|exact Ek|].
    unfold captures. rewrite Rpos, Ek.
    assert (Ef : nth_error FR (length (L_N1 L)) = Some (p_name k)).
    { rewrite EFR. unfold rest_fields, kwf. fold L. rewrite EK. cbn [app]. apply nth_error_mid. rewrite firstn_length. lia. }
    rewrite Ef. apply str_eqb_refl.
  - apply andb_true_iff in Hkw as [Hkw Hnc]. apply andb_true_iff in Hkw as [Hkw Hi]. apply andb_true_iff in Hkw as [K1 K3].
    apply Nat.eqb_eq in Hi. subst i. destruct rules as [|r1 rs]; [discriminate|]. cbn in Hnth, Hr0. injection Hnth as ->. injection Hr0 as ->.
    apply onat_eqb_true in K3. destruct (c_kw c); [|discriminate]. rewrite K3. now apply select_none.
Qed.

(* THEOREM parse_print_anon *)
Theorem parse_print_anon g st rules i r c :
  mem SP (g_delims g) = true ->
  assoc_get (r_type r) (g_dict g) = Some rules ->
  nth_error rules i = Some r ->
  rule_ok r = true ->
  wf_anon g rules i r c = true ->
  opts_rt (c_opts c) ->
  parse g st [] (print_cpt (g_delims g) c)
  = Ok (rename (norm (g_delims g) c) (anon_prefix (anon_pn (c_name c)) ++ fst (make_anon st (r_type r))),
        snd (make_anon st (r_type r))).
Proof.
  intros Hsp Hdict Hnth Hrule Hwf Hopts.
  set (ds := g_delims g) in *. set (L := decomp (r_params r)) in *.
  unfold wf_anon in Hwf. fold ds L in Hwf. cbv zeta in Hwf.
  set (name := c_name c) in *. set (pn := anon_pn name) in *. set (FR := rest_fields ds L c) in *.
  repeat (let H := fresh "W" in apply andb_true_iff in Hwf as [Hwf H]).
  rename Hwf into Wcls0. apply negb_true_iff in Wcls0.
  unfold rule_ok in Hrule. fold L in Hrule. apply andb_true_iff in Hrule as [Hrule Rpos]. apply andb_true_iff in Hrule as [RA _].
  apply onat_eqb_true in Rpos.
  match goal with H : is_nil (L_A L) = true |- _ => rename H into HLA end.
  match goal with H : is_nil (c_args c) = true |- _ => rename H into Hca end.
  match goal with H : forallb (fun n => negb (first_is DOT n)) _ = true |- _ => rename H into Hdot end.
  match goal with H : (length (c_nodes c) =? _) = true |- _ => apply Nat.eqb_eq in H; rename H into Hnl end.
  match goal with H : str_eqb (strip _) _ = true |- _ => apply str_eqb_true in H; rename H into Hstrip end.
  match goal with H : forallb (fun f => negb (mem SEMI f)) _ = true |- _ => rename H into Hsemi end.
  match goal with H : forallb (field_ok ds) _ = true |- _ => rename H into Hfields end.
  match goal with H : negb (is_directive g pn) = true |- _ => apply negb_true_iff in H; rename H into Hdir end.
  match goal with H : str_eqb (rel_of pn) _ = true |- _ => apply str_eqb_true in H; rename H into Hrel end.
  match goal with H : no_empty_ns pn = true |- _ => rename H into Hns end.
  match goal with H : is_anon_name (rel_of name) = true |- _ => rename H into Hanon end.
  match goal with H : str_eqb (c_class c) (r_class r) = true |- _ => apply str_eqb_true in H; rename H into Hcls end.
  match goal with H : match match_type g _ with _ => _ end = true |- _ => rename H into Hmt end.
  match goal with H : match L_K L with _ => _ end = true |- _ => rename H into Hkw end.
  assert (Eargs : c_args c = []) by (destruct (c_args c); [reflexivity|discriminate]).
  assert (ELA : L_A L = []) by (destruct (L_A L); [reflexivity|discriminate]).
  assert (KW : match L_K L with
               | Some k => c_kw c = p_name k /\ c_kw c <> [] /\ c_kwpos c = Some (length (L_N1 L))
               | None => c_kw c = [] end).
  { destruct (L_K L) as [k|].
    - apply andb_true_iff in Hkw as [Hkw' _]. apply andb_true_iff in Hkw' as [Hkw' K3]. apply andb_true_iff in Hkw' as [K1 K2].
      apply str_eqb_true in K1. apply onat_eqb_true in K3. apply negb_true_iff in K2.
      repeat split; try assumption. intros E. rewrite E in K2. discriminate.
    - apply andb_true_iff in Hkw as [Hkw' _]. apply andb_true_iff in Hkw' as [Hkw' _]. apply andb_true_iff in Hkw' as [K1 _].
      destruct (c_kw c); [reflexivity|discriminate]. }
  pose proof (print_fields_anon ds c L Hanon Eargs Hnl KW) as PF. fold name pn FR in PF.
  assert (PC : print_cpt ds c = with_opts (join [SP] (pn :: FR)) (c_opts c)).
  { unfold print_cpt. rewrite Wcls0. now rewrite PF. }
  set (main := join [SP] (pn :: FR)) in *.
  assert (Hname : exists a w, pn = a :: w).
  { cbn [forallb] in Hfields. apply andb_true_iff in Hfields as [F1 _]. apply field_ok_inv in F1 as [F1 _].
    destruct pn as [|a w]; [contradiction|]. now exists a, w. }
  destruct Hname as [a [w En]].
  assert (Hmain : exists t, main = a :: t).
  { unfold main. rewrite En. destruct FR; cbn; eauto. }
  destruct Hmain as [t Emain].
  assert (Hsm : mem SEMI main = false) by (apply mem_join; [reflexivity|exact Hsemi]).
  unfold parse. rewrite Hstrip.
  assert (Hd2 : is_directive g (print_cpt ds c) = false).
  { rewrite PC. unfold with_opts. rewrite En in Hdir. cbn [is_directive] in Hdir.
    destruct (is_nil (strip (opts_format (c_opts c)))); rewrite Emain; exact Hdir. }
  rewrite Hd2.
  assert (SF : split_first SEMI (print_cpt ds c)
               = (main, if is_nil (strip (opts_format (c_opts c))) then None else Some (SP :: strip (opts_format (c_opts c))))).
  { rewrite PC. unfold with_opts. destruct (is_nil (strip (opts_format (c_opts c)))).
    - now apply split_first_free.
    - rewrite S2_semi_sp. cbn [app]. change (main ++ SEMI :: SP :: strip (opts_format (c_opts c)))
        with (main ++ SEMI :: (SP :: strip (opts_format (c_opts c)))). now apply split_first_app. }
  rewrite SF. fold ds.
  assert (SJ : split ds main = Some (pn :: FR)).
  { apply split_join; [exact Hsp|]. apply Forall_forall. intros x Hx. rewrite forallb_forall in Hfields. now apply Hfields. }
  rewrite SJ.
  unfold parse_cpt. unfold no_empty_ns in Hns. apply negb_true_iff in Hns. rewrite Hns. fold (rel_of pn). rewrite Hrel.
  destruct (match_type g (firstn 1 (rel_of name))) as [[ty id]|]; [|discriminate].
  apply andb_true_iff in Hmt as [Hmt Hin]. apply andb_true_iff in Hmt as [Ety Hid]. apply str_eqb_true in Ety. subst ty.
  rewrite Hdict. destruct rules as [|r0 rs] eqn:ER; [destruct i; discriminate|].
  rewrite <- ER in *.
  assert (SEL : select rules FR r0 None = (r, c_kw c, c_kwpos c)).
  { apply (select_print g rules i r c FR eq_refl Hnth Rpos Hnl Hkw r0). now rewrite ER. }
  rewrite SEL.
  assert (NK : is_nil (c_kw c) && (match r_pos r with Some p => p <? length FR | None => false end) = false).
  { rewrite Rpos. destruct (L_K L) as [k|].
    - destruct KW as [_ [K2 _]]. destruct (c_kw c); [contradiction|reflexivity].
    - apply andb_false_r. }
  rewrite NK.
  rewrite Hid, Hin. cbn [andb orb].
  destruct (make_anon st (r_type r)) as [d st'] eqn:EM. cbn [fst snd].
  pose proof (process_print_gen ds r c ([] ++ (if 1 <? length (split_on DOT pn) then join [DOT] (init_strs (split_on DOT pn)) ++ [DOT] else []) ++ d) d RA Hnl Hdot) as PP.
  fold L in PP. rewrite ELA, Eargs in PP. unfold FAof in PP. rewrite Eargs in PP. cbn [fmtargs elide length map skipn app norm_args req_ok forallb] in PP.
  specialize (PP eq_refl eq_refl eq_refl eq_refl). fold FR in PP. rewrite app_nil_l. rewrite PP.
  cbn [bind fst snd].
  unfold opts_rt in Hopts. pose proof (strip_sp_strip (opts_format (c_opts c))) as E2.
  destruct (strip (opts_format (c_opts c))) as [|b u]; cbn [is_nil].
  - rewrite Hopts. cbn [bind]. unfold rename, norm, anon_prefix, ns_of. cbn [c_class c_name c_nodes c_args c_kwpos c_kw c_opts c_string app].
    rewrite <- Hcls, Eargs. reflexivity.
  - rewrite E2, Hopts. cbn [bind]. unfold rename, norm, anon_prefix, ns_of. cbn [c_class c_name c_nodes c_args c_kwpos c_kw c_opts c_string app].
    rewrite <- Hcls, Eargs. reflexivity.
Qed.
Theorem parse_print_anon_grammar g : grammar_ok g = true ->
  forall ty rules i r c st, In (ty, rules) (g_dict g) -> nth_error rules i = Some r ->
  wf_anon g rules i r c = true -> opts_rt (c_opts c) ->
  parse g st [] (print_cpt (g_delims g) c)
  = Ok (rename (norm (g_delims g) c) (anon_prefix (anon_pn (c_name c)) ++ fst (make_anon st (r_type r))),
        snd (make_anon st (r_type r))).
Proof.
  intros Hg ty rules i r c st Hin Hn Hw Ho. unfold grammar_ok in Hg.
  apply andb_true_iff in Hg as [Hg Hall]. apply andb_true_iff in Hg as [Hg Hnd]. apply andb_true_iff in Hg as [Hsp HZ].
  rewrite forallb_forall in Hall. specialize (Hall _ Hin). cbn [fst snd] in Hall. rewrite forallb_forall in Hall.
  specialize (Hall r (nth_error_In _ _ Hn)). apply andb_true_iff in Hall as [Hr Ht]. apply str_eqb_true in Ht.
  apply parse_print_anon with (rules := rules) (i := i); try assumption.
  rewrite Ht. now apply assoc_get_in.
Qed.
