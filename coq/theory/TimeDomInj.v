(* TimeDomInj — uniqueness of partial fractions, for every characteristic-0 field record:

     L_injective_char0 :  a signal  Σ c tⁿ/n! e^{pt} + Σ d_k δ^{(k)}  whose image
                          Σ c/(s-p)^{n+1} + Σ d_k s^k  vanishes outside a finite set of s
                          has the zero coefficient map.

   Hence two signals with the same image (as functions of s, off a finite set) are the same
   signal: the premise [L_injective] of TimeDom.law_from_sdomain holds unconditionally, and the
   s-domain solution of a circuit determines its time-domain response.            (property C02)

   Proof.  (1) a polynomial that vanishes outside a finite set is zero: synthetic division by
   (s - r) for a root r outside the set (one exists: the elements 0, 1, 2, ... are pairwise
   different in characteristic 0), induction on the length.  (2) multiplying the image by
   (s - p) is the signal operation  x |-> D x - p x  ([mulsp]); on coefficient maps it shifts
   the orders at p down by one and keeps every other pole; N such steps remove the pole p;
   induction on the list of poles; the zero map is recovered backwards through [mulsp]
   by descending induction on the order.   Axiom-free. *)
Require Import LT.FieldSec LT.PolyQ LT.ExpPoly LT.TimeDom.
From Coq Require Import FinFun.
Local Open Scope F_scope.

Section Inj.
Variable K : fld.
Add Field KFinj : (fth K).
Notation sig := (sig K).
Notation rterm := (rterm K).

(* ---- (1) polynomials ---------------------------------------------------------------------------- *)
Fixpoint sdiv (r : K) (l : list K) : list K :=
  match l with
  | [] => []
  | a :: l' => match l' with [] => [] | _ :: _ => peval l' r :: sdiv r l' end
  end.
Lemma sdiv_length r l : length (sdiv r l) = pred (length l).
Proof. induction l as [|a l IH]; [reflexivity|]. destruct l as [|b l]; [reflexivity|]. cbn [sdiv length] in *. rewrite IH. reflexivity. Qed.
Lemma sdiv_spec r l s : peval l s = (s - r) * peval (sdiv r l) s + peval l r.
Proof. induction l as [|a l IH]; [cbn [sdiv peval]; ring|]. destruct l as [|b l]; [cbn [sdiv peval]; ring|].
  change (sdiv r (a :: b :: l)) with (peval (b :: l) r :: sdiv r (b :: l)).
  change (peval (a :: b :: l) s) with (a + s * peval (b :: l) s).
  change (peval (a :: b :: l) r) with (a + r * peval (b :: l) r).
  change (peval (peval (b :: l) r :: sdiv r (b :: l)) s) with (peval (b :: l) r + s * peval (sdiv r (b :: l)) s).
  rewrite IH at 1. ring. Qed.

Lemma fnat_add a b : fnat (K:=K) (a + b) = fnat a + fnat b.
Proof. induction a; cbn [Nat.add fnat]; [ring | rewrite IHa; ring]. Qed.
Lemma fnat_inj a b : fnat (K:=K) a = fnat b -> a = b.
Proof. assert (H : forall a d, fnat (K:=K) (a + S d) = fnat a -> False).
  { intros a0 d E. rewrite fnat_add in E. apply (fnat_S_nz K d). transitivity (fnat a0 + fnat (S d) - fnat (K:=K) a0); [ring | rewrite E; ring]. }
  intros E. destruct (Nat.lt_trichotomy a b) as [L|[L|L]]; [|exact L|].
  - exfalso. apply (H a (b - a - 1)%nat). replace (a + S (b - a - 1))%nat with b by lia. symmetry. exact E.
  - exfalso. apply (H b (a - b - 1)%nat). replace (b + S (a - b - 1))%nat with a by lia. exact E. Qed.
Lemma in_dec_K (x : K) (E : list K) : {In x E} + {~ In x E}.
Proof. apply in_dec. apply (fdec K). Qed.
(* the field is infinite: every finite list misses some element *)
Lemma fresh_elt (E : list K) : exists r, ~ In r E.
Proof. set (Fl := map (fnat (K:=K)) (List.seq 0 (S (length E)))).
  assert (ND : NoDup Fl).
  { unfold Fl. apply FinFun.Injective_map_NoDup; [intros a b; apply fnat_inj | apply seq_NoDup]. }
  destruct (Forall_Exists_dec (fun x => In x E) (fun x => in_dec_K x E) Fl) as [Hall|Hex].
  - exfalso. assert (Hi : incl Fl E) by (intros x Hx; rewrite Forall_forall in Hall; exact (Hall x Hx)).
    pose proof (NoDup_incl_length ND Hi) as Hl. unfold Fl in Hl. rewrite map_length, seq_length in Hl. lia.
  - apply Exists_exists in Hex. destruct Hex as [x [_ Hx]]. exists x. exact Hx. Qed.

Theorem poly_cofinite_zero : forall n (l : list K) (E : list K), (length l <= n)%nat ->
  (forall s, ~ In s E -> peval l s = 0) -> forall s, peval l s = 0.
Proof. induction n as [|n IH]; intros l E Hl H s.
  - destruct l; [reflexivity | cbn in Hl; lia].
  - destruct (fresh_elt E) as [r Hr]. pose proof (H r Hr) as Hroot.
    assert (Hq : forall u, peval (sdiv r l) u = 0).
    { apply (IH (sdiv r l) (r :: E)); [rewrite sdiv_length; lia|]. intros u Hu.
      assert (Hne : u - r <> 0). { intros Z. apply Hu. left. transitivity (u - r + r); [rewrite Z; ring | ring]. }
      assert (Hu' : ~ In u E) by (intros Hin; apply Hu; right; exact Hin).
      pose proof (H u Hu') as E0. rewrite (sdiv_spec r l u), Hroot in E0.
      destruct (mul_eq0 K (u - r) (peval (sdiv r l) u)) as [Z|Z]; [transitivity ((u - r) * peval (sdiv r l) u + 0); [ring | exact E0] | contradiction | exact Z]. }
    rewrite (sdiv_spec r l s), Hq, Hroot. ring. Qed.
Theorem poly_zero_coeffs : forall (l : list K), (forall s, peval l s = 0) -> forall k, scoef k l = 0.
Proof. induction l as [|a l IH]; intros H k; [apply scoef_nil|].
  assert (Ha : a = 0). { pose proof (H 0) as E. cbn [peval] in E. transitivity (a + 0 * peval l 0); [ring | exact E]. }
  subst a. destruct k as [|k]; [reflexivity|]. rewrite scoef_cons0. apply IH.
  apply (poly_cofinite_zero (length l) l [0]); [lia|]. intros s Hs.
  assert (Hne : s <> 0) by (intros Z; apply Hs; left; symmetry; exact Z).
  pose proof (H s) as E. cbn [peval] in E.
  destruct (mul_eq0 K s (peval l s)) as [Z|Z]; [transitivity (0 + s * peval l s); [ring | exact E] | contradiction | exact Z]. Qed.

(* ---- (2) multiplying the image by (s - p) ------------------------------------------------------------ *)
Definition mulsp (p : K) (x : sig) : sig := opD (- p) 1 x.
Lemma rcoef_mulsp p n q x : rcoef n q (reg (mulsp p x)) = rcoef (S n) q (reg x) + (q - p) * rcoef n q (reg x).
Proof. unfold mulsp. rewrite rcoef_opD. ring. Qed.
Lemma scoef0_mulsp p x : scoef 0 (sing (mulsp p x)) = at0 (reg x) - p * scoef 0 (sing x).
Proof. unfold mulsp. rewrite scoef_opD0. ring. Qed.
Lemma scoefS_mulsp p k x : scoef (S k) (sing (mulsp p x)) = scoef k (sing x) - p * scoef (S k) (sing x).
Proof. unfold mulsp. rewrite scoef_opDS. ring. Qed.
Lemma pole_free_sscale' s a (x : sig) : pole_free s x -> pole_free s (sscale a x).
Proof. intros H c n p Hin. unfold sscale, rscale in Hin. cbn [reg] in Hin. apply in_map_iff in Hin. destruct Hin as [[[c' n'] p'] [E Hin]].
  inversion E; subst. exact (H c' n p Hin). Qed.
Lemma pole_free_D s (x : sig) : pole_free s x -> pole_free s (D x).
Proof. intros H. unfold pole_free, D. cbn [reg]. apply pole_free_Dord. exact H. Qed.
Lemma pole_free_mulsp s p x : pole_free s x -> pole_free s (mulsp p x).
Proof. intros H. unfold mulsp, opD. apply pole_free_sadd; apply pole_free_sscale'; [exact H | apply pole_free_D; exact H]. Qed.
Lemma Lval_mulsp s p x : pole_free s x -> Lval s (mulsp p x) = (s - p) * Lval s x.
Proof. intros H. unfold mulsp. rewrite Lval_opD by exact H. ring. Qed.

Definition rbound (l : list rterm) (N : nat) : Prop := forall n q, (N <= n)%nat -> rcoef n q l = 0.
Definition rsupp (l : list rterm) (P : list K) : Prop := forall n q, ~ In q P -> rcoef n q l = 0.
Lemma rbound_exists l : exists N, rbound l N.
Proof. induction l as [|[[c n'] p'] l [N HN]]; [exists O; intros n q _; reflexivity|].
  exists (Nat.max (S n') N). intros n q Hn. cbn [rcoef]. rewrite HN by lia.
  unfold keyb. destruct (Nat.eqb n n') eqn:E; [apply Nat.eqb_eq in E; lia | cbn; ring]. Qed.
Lemma rsupp_poles l : rsupp l (map (fun t : rterm => snd t) l).
Proof. intros n q Hq. apply rcoef_notin. intros c Hin. apply Hq. apply in_map_iff. exists (c, n, q). split; [reflexivity | exact Hin]. Qed.
Lemma rbound_mulsp p x N : rbound (reg x) N -> rbound (reg (mulsp p x)) N.
Proof. intros H n q Hn. rewrite rcoef_mulsp, !H by lia. ring. Qed.
Lemma rsupp_mulsp p x P : rsupp (reg x) P -> rsupp (reg (mulsp p x)) P.
Proof. intros H n q Hq. rewrite rcoef_mulsp, !H by exact Hq. ring. Qed.

Fixpoint mulsp_n (k : nat) (p : K) (x : sig) : sig := match k with O => x | S k' => mulsp p (mulsp_n k' p x) end.
Lemma rcoef_mulsp_n_same k p n x : rcoef n p (reg (mulsp_n k p x)) = rcoef (k + n) p (reg x).
Proof. revert n. induction k as [|k IH]; intros n; cbn [mulsp_n Nat.add]; [reflexivity|].
  rewrite rcoef_mulsp, !IH. replace (k + S n)%nat with (S (k + n)) by lia. ring. Qed.
Lemma rbound_mulsp_n k p x N : rbound (reg x) N -> rbound (reg (mulsp_n k p x)) N.
Proof. intros H. induction k; cbn [mulsp_n]; [exact H | apply rbound_mulsp; exact IHk]. Qed.
Lemma rsupp_mulsp_n k p x P : rsupp (reg x) P -> rsupp (reg (mulsp_n k p x)) P.
Proof. intros H. induction k; cbn [mulsp_n]; [exact H | apply rsupp_mulsp; exact IHk]. Qed.
Lemma pole_free_mulsp_n s k p x : pole_free s x -> pole_free s (mulsp_n k p x).
Proof. intros H. induction k; cbn [mulsp_n]; [exact H | apply pole_free_mulsp; exact IHk]. Qed.
Lemma Lval_mulsp_n s k p x : pole_free s x -> Lval s (mulsp_n k p x) = fpow (s - p) k * Lval s x.
Proof. intros H. induction k; cbn [mulsp_n fpow]; [ring|]. rewrite Lval_mulsp by (apply pole_free_mulsp_n; exact H). rewrite IHk. ring. Qed.

(* the zero map is recovered backwards through mulsp *)
Lemma down_ind (P : nat -> Prop) (N : nat) : (forall n, (N <= n)%nat -> P n) -> (forall n, P (S n) -> P n) -> forall n, P n.
Proof. intros Hb Hs n. destruct (le_lt_dec N n) as [L|L]; [apply Hb; exact L|].
  assert (G : forall d m, (m + d = N)%nat -> P m).
  { induction d as [|d IHd]; intros m E; [apply Hb; lia|]. apply Hs. apply IHd. lia. }
  apply (G (N - n)%nat n). lia. Qed.
Lemma mulsp_zero_back p z N : rbound (reg z) N -> seq (mulsp p z) szero -> seq z szero.
Proof. intros Hb [A Bq].
  assert (Aeq : forall n q, rcoef (S n) q (reg z) + (q - p) * rcoef n q (reg z) = 0).
  { intros n q. rewrite <- rcoef_mulsp. rewrite (A n q). reflexivity. }
  (* (a) poles other than p *)
  assert (Ha : forall q, q <> p -> forall n, rcoef n q (reg z) = 0).
  { intros q Hq. apply (down_ind _ N); [intros n Hn; apply Hb; exact Hn|]. intros n Hn. pose proof (Aeq n q) as E. rewrite Hn in E.
    assert (Hd : q - p <> 0). { intros Z. apply Hq. transitivity (q - p + p); [ring | rewrite Z; ring]. }
    destruct (mul_eq0 K (q - p) (rcoef n q (reg z))) as [Z|Z]; [transitivity (0 + (q - p) * rcoef n q (reg z)); [ring | exact E] | contradiction | exact Z]. }
  (* (b) higher orders at p *)
  assert (Hbp : forall n, rcoef (S n) p (reg z) = 0).
  { intros n. pose proof (Aeq n p) as E. transitivity (rcoef (S n) p (reg z) + (p - p) * rcoef n p (reg z)); [ring | exact E]. }
  (* (c) singular part *)
  assert (Hs : forall k, scoef k (sing z) = 0).
  { apply (down_ind _ (length (sing z))); [intros k Hk; unfold scoef; apply nth_overflow; exact Hk|].
    intros k Hk. pose proof (Bq (S k)) as E. rewrite scoefS_mulsp, Hk in E. cbn [szero sing] in E. rewrite scoef_nil in E.
    transitivity (scoef k (sing z) - p * 0); [ring | exact E]. }
  assert (H0 : at0 (reg z) = 0).
  { pose proof (Bq O) as E. rewrite scoef0_mulsp, (Hs O) in E. cbn [szero sing] in E. rewrite scoef_nil in E.
    transitivity (at0 (reg z) - p * 0); [ring | exact E]. }
  assert (Hp0 : rcoef 0 p (reg z) = 0).
  { rewrite (at0_remove K 0 p) in H0.
    rewrite (rzero_at0 K (length (remove_key K 0 p (reg z)))) in H0; [transitivity (rcoef 0 p (reg z) + 0); [ring | exact H0] | lia |].
    intros m q. destruct (keyb K m q 0 p) eqn:Ek.
    - apply keyb_true in Ek. destruct Ek as [-> ->]. apply rcoef_remove_same.
    - rewrite (rcoef_remove_other K _ _ _ _ _ Ek). destruct (fdec K q p) as [->|Hq]; [|apply Ha; exact Hq].
      destruct m as [|m]; [rewrite keyb_refl in Ek; discriminate | apply Hbp]. }
  split.
  - intros n q. cbn [szero reg rcoef]. destruct (fdec K q p) as [->|Hq]; [|apply Ha; exact Hq]. destruct n; [exact Hp0 | apply Hbp].
  - intros k. cbn [szero sing]. rewrite scoef_nil. apply Hs. Qed.
Lemma mulsp_n_zero_back k p z N : rbound (reg z) N -> seq (mulsp_n k p z) szero -> seq z szero.
Proof. intros Hb. induction k as [|k IH]; cbn [mulsp_n]; [tauto|]. intros H. apply IH.
  apply (mulsp_zero_back p _ N); [apply rbound_mulsp_n; exact Hb | exact H]. Qed.

Definition poles_of (x : sig) : list K := map (fun t : rterm => snd t) (reg x).
Lemma pole_free_notin s x : ~ In s (poles_of x) -> pole_free s x.
Proof. intros H c n p Hin Z. apply H. unfold poles_of. apply in_map_iff. exists (c, n, p). split; [|exact Hin].
  cbn [snd]. transitivity (s - p + p); [rewrite Z; ring | ring]. Qed.

Lemma inj_by_poles : forall (P : list K) (x : sig) (E : list K) (N : nat),
  rsupp (reg x) P -> rbound (reg x) N -> (forall s, ~ In s E -> Lval s x = 0) -> seq x szero.
Proof. induction P as [|p P IH]; intros x E N Hs Hb H.
  - (* no regular part: a polynomial that vanishes off E *)
    assert (Hr : forall n q, rcoef n q (reg x) = 0) by (intros n q; apply Hs; intros []).
    split; [intros n q; cbn [szero reg rcoef]; apply Hr|]. intros k. cbn [szero sing]. rewrite scoef_nil.
    apply poly_zero_coeffs. apply (poly_cofinite_zero (length (sing x)) _ E); [lia|]. intros s Hs'.
    pose proof (H s Hs') as E0. unfold Lval in E0. rewrite (rzero_rval K s (length (reg x))) in E0; [|lia|exact Hr].
    transitivity (peval (sing x) s + 0); [ring | exact E0].
  - apply (mulsp_n_zero_back N p x N Hb). apply (IH (mulsp_n N p x) (E ++ poles_of x) N).
    + intros n q Hq. destruct (fdec K q p) as [->|Hne].
      * rewrite rcoef_mulsp_n_same. apply Hb. lia.
      * apply (rsupp_mulsp_n N p x (p :: P) Hs). intros [Z|Z]; [apply Hne; symmetry; exact Z | exact (Hq Z)].
    + apply rbound_mulsp_n. exact Hb.
    + intros s Hn. assert (H1 : ~ In s E) by (intros Z; apply Hn; apply in_or_app; left; exact Z).
      assert (H2 : ~ In s (poles_of x)) by (intros Z; apply Hn; apply in_or_app; right; exact Z).
      rewrite (Lval_mulsp_n s N p x (pole_free_notin s x H2)), (H s H1). ring. Qed.

Theorem L_injective_char0 : L_injective K.
Proof. intros x E H. destruct (rbound_exists (reg x)) as [N HN].
  exact (inj_by_poles (poles_of x) x E N (rsupp_poles (reg x)) HN H). Qed.

(* equal images off a finite set ==> equal normal forms *)
Corollary L_unique (x y : sig) (E : list K) : (forall s, ~ In s E -> Lval s x = Lval s y) -> seq x y.
Proof. intros H. apply seq_zero_diff. apply (L_injective_char0 _ E). intros s Hs. unfold ssub, sneg. rewrite Lval_sadd, Lval_sscale, (H s Hs). ring. Qed.
End Inj.
