(* C13 — discrete-time filters: finite sums, formal power series in w = z^-1,
   a statement-by-statement model of DLTIFilter.response (lcapy/dltifilter.py)
   and the theorems tying recursion, difference equation, transfer function,
   impulse response and initial-condition response together.
   Everything is over the abstract characteristic-0 field [fld]; axiom-free. *)
Require Import LT.FieldSec.
Local Open Scope F_scope.

Section SeqFilter.
Variable K : fld.
Add Field KFsf : (fth K).

(* ---------------------------------------------------------------- sums *)
Fixpoint sumn (n : nat) (f : nat -> K) : K :=
  match n with O => 0 | S m => sumn m f + f m end.

Lemma sumn_S n f : sumn (S n) f = sumn n f + f n.
Proof. reflexivity. Qed.
Lemma sumn_ext n f g : (forall i, (i < n)%nat -> f i = g i) -> sumn n f = sumn n g.
Proof. induction n as [|n IH]; intros H; cbn; [reflexivity|].
  rewrite IH by (intros; apply H; lia). rewrite H by lia. reflexivity. Qed.
Lemma sumn_zero n f : (forall i, (i < n)%nat -> f i = 0) -> sumn n f = 0.
Proof. induction n as [|n IH]; intros H; cbn; [reflexivity|].
  rewrite IH by (intros; apply H; lia). rewrite H by lia. ring. Qed.
Lemma sumn_add n f g : sumn n (fun i => f i + g i) = sumn n f + sumn n g.
Proof. induction n as [|n IH]; cbn; [ring|]. rewrite IH. ring. Qed.
Lemma sumn_sub n f g : sumn n (fun i => f i - g i) = sumn n f - sumn n g.
Proof. induction n as [|n IH]; cbn; [ring|]. rewrite IH. ring. Qed.
Lemma sumn_opp n f : sumn n (fun i => - f i) = - sumn n f.
Proof. induction n as [|n IH]; cbn; [ring|]. rewrite IH. ring. Qed.
Lemma sumn_scal n c f : sumn n (fun i => c * f i) = c * sumn n f.
Proof. induction n as [|n IH]; cbn; [ring|]. rewrite IH. ring. Qed.
Lemma sumn_scal_r n c f : sumn n (fun i => f i * c) = sumn n f * c.
Proof. induction n as [|n IH]; cbn; [ring|]. rewrite IH. ring. Qed.
Lemma sumn_app n m f : sumn (n + m) f = sumn n f + sumn m (fun i => f (n + i)%nat).
Proof. induction m as [|m IH]; cbn.
  - rewrite Nat.add_0_r. ring.
  - rewrite Nat.add_succ_r. cbn. rewrite IH. ring. Qed.
Lemma sumn_S_l n f : sumn (S n) f = f O + sumn n (fun i => f (S i)).
Proof. change (S n) with (1 + n)%nat. rewrite sumn_app. cbn. ring. Qed.
Lemma sumn_swap n m (F : nat -> nat -> K) :
  sumn n (fun i => sumn m (fun j => F i j)) = sumn m (fun j => sumn n (fun i => F i j)).
Proof. induction n as [|n IH]; cbn.
  - symmetry. apply sumn_zero. reflexivity.
  - rewrite IH. rewrite <- sumn_add. reflexivity. Qed.
(* a sum whose terms vanish beyond m can be cut / extended *)
Lemma sumn_cut n m f : (m <= n)%nat -> (forall i, (m <= i < n)%nat -> f i = 0) -> sumn n f = sumn m f.
Proof. intros Hmn Hz. replace n with (m + (n - m))%nat by lia. rewrite sumn_app.
  rewrite (sumn_zero (n - m)); [ring|]. intros i Hi. apply Hz. lia. Qed.
(* only one non-zero term *)
Lemma sumn_single n f j : (j < n)%nat -> (forall i, (i < n)%nat -> i <> j -> f i = 0) -> sumn n f = f j.
Proof. induction n as [|n IH]; intros Hj Hz; [lia|]. cbn.
  destruct (Nat.eq_dec j n) as [->|Hne].
  - rewrite sumn_zero; [ring|]. intros i Hi. apply Hz; lia.
  - rewrite IH; [|lia|intros; apply Hz; lia]. rewrite (Hz n) by lia. ring. Qed.
(* reversal of the summation index *)
Lemma sumn_rev n f : sumn n f = sumn n (fun i => f (n - 1 - i)%nat).
Proof. revert f. induction n as [|n IH]; intros f; [reflexivity|].
  rewrite sumn_S_l. rewrite (sumn_S n). rewrite (IH (fun i => f (S i))).
  replace (S n - 1 - n)%nat with O by lia.
  rewrite (sumn_ext n (fun i => f (S n - 1 - i)%nat) (fun i => f (S (n - 1 - i))%nat)).
  - ring.
  - intros i Hi. f_equal. lia. Qed.
(* triangular exchange: sum_{m<N} sum_{i<=m} F i (m-i) = sum_{i<N} sum_{j<N-i} F i j *)
Lemma sumn_tri N (F : nat -> nat -> K) :
  sumn N (fun m => sumn (S m) (fun i => F i (m - i)%nat)) =
  sumn N (fun i => sumn (N - i) (fun j => F i j)).
Proof. induction N as [|N IH]; [reflexivity|].
  rewrite (sumn_S N), IH. rewrite (sumn_S N (fun i => sumn (S N - i) (fun j => F i j))).
  replace (S N - N)%nat with 1%nat by lia.
  rewrite (sumn_ext N (fun i => sumn (S N - i) (fun j => F i j))
                      (fun i => sumn (N - i) (fun j => F i j) + F i (N - i)%nat)).
  - rewrite sumn_add. rewrite (sumn_S N (fun i => F i (N - i)%nat)).
    replace (N - N)%nat with O by lia. cbn [sumn]. ring.
  - intros i Hi. replace (S N - i)%nat with (S (N - i)) by lia. reflexivity. Qed.

(* ------------------------------------------- formal power series in w *)
Definition fps := nat -> K.
Definition conv (f g : fps) : fps := fun n => sumn (S n) (fun i => f i * g (n - i)%nat).
Definition lpoly (l : list K) : fps := fun n => nth n l 0.
Definition fadds (f g : fps) : fps := fun n => f n + g n.
Definition fsubs (f g : fps) : fps := fun n => f n - g n.
Definition fscal (c : K) (f : fps) : fps := fun n => c * f n.
Definition fone : fps := fun n => match n with O => 1 | _ => 0 end.
Definition feq (f g : fps) := forall n, f n = g n.
Definition feq_upto (M : nat) (f g : fps) := forall n, (n < M)%nat -> f n = g n.

Lemma conv_ext f f' g g' n : (forall i, (i <= n)%nat -> f i = f' i) -> (forall i, (i <= n)%nat -> g i = g' i) ->
  conv f g n = conv f' g' n.
Proof. intros Hf Hg. unfold conv. apply sumn_ext. intros i Hi. rewrite Hf, Hg by lia. reflexivity. Qed.
Lemma conv_comm f g n : conv f g n = conv g f n.
Proof. unfold conv. rewrite sumn_rev. apply sumn_ext. intros i Hi.
  replace (S n - 1 - i)%nat with (n - i)%nat by lia.
  replace (n - (n - i))%nat with i by lia. ring. Qed.
Lemma conv_assoc f g h n : conv (conv f g) h n = conv f (conv g h) n.
Proof.
  unfold conv.
  rewrite (sumn_ext (S n) _ (fun m => sumn (S m) (fun i => (fun i j => f i * g j * h (n - i - j)%nat) i (m - i)%nat))).
  2:{ intros m Hm. rewrite <- sumn_scal_r. apply sumn_ext. intros i Hi.
      replace (n - i - (m - i))%nat with (n - m)%nat by lia. reflexivity. }
  rewrite (sumn_tri (S n) (fun i j => f i * g j * h (n - i - j)%nat)). apply sumn_ext. intros i Hi.
  rewrite <- sumn_scal. replace (S n - i)%nat with (S (n - i)) by lia.
  apply sumn_ext. intros j Hj. ring. Qed.
Lemma conv_add_l f g h n : conv (fadds f g) h n = conv f h n + conv g h n.
Proof. unfold conv, fadds. rewrite <- sumn_add. apply sumn_ext. intros; ring. Qed.
Lemma conv_sub_l f g h n : conv (fsubs f g) h n = conv f h n - conv g h n.
Proof. unfold conv, fsubs. rewrite <- sumn_sub. apply sumn_ext. intros; ring. Qed.
Lemma conv_add_r f g h n : conv h (fadds f g) n = conv h f n + conv h g n.
Proof. rewrite conv_comm, conv_add_l, (conv_comm f), (conv_comm g). reflexivity. Qed.
Lemma conv_sub_r f g h n : conv h (fsubs f g) n = conv h f n - conv h g n.
Proof. rewrite conv_comm, conv_sub_l, (conv_comm f), (conv_comm g). reflexivity. Qed.
Lemma conv_scal_l c f g n : conv (fscal c f) g n = c * conv f g n.
Proof. unfold conv, fscal. rewrite <- sumn_scal. apply sumn_ext. intros; ring. Qed.
Lemma conv_one_l f n : conv fone f n = f n.
Proof. unfold conv. rewrite sumn_S_l. rewrite sumn_zero.
  - cbn. rewrite Nat.sub_0_r. ring.
  - intros i Hi. cbn. ring. Qed.

(* a series with invertible constant term can be cancelled (uniqueness of
   the solution S of A.S = C), coefficient-wise up to any bound *)
Lemma conv_cancel_upto (A S T : fps) M : A O <> 0 ->
  (forall n, (n < M)%nat -> conv A S n = conv A T n) -> feq_upto M S T.
Proof.
  intros HA H n. induction n as [n IH] using lt_wf_ind. intros Hn.
  pose proof (H n Hn) as E. unfold conv in E. rewrite !sumn_S_l in E.
  rewrite Nat.sub_0_r in E.
  rewrite (sumn_ext n (fun i => A (Datatypes.S i) * S (n - Datatypes.S i)%nat)
                      (fun i => A (Datatypes.S i) * T (n - Datatypes.S i)%nat)) in E.
  2:{ intros i Hi. rewrite IH by lia. reflexivity. }
  assert (E2 : A O * S n = A O * T n).
  { transitivity (A O * S n + sumn n (fun i => A (Datatypes.S i) * T (n - Datatypes.S i)%nat)
                  - sumn n (fun i => A (Datatypes.S i) * T (n - Datatypes.S i)%nat)); [ring|].
    rewrite E. ring. }
  transitivity (A O * S n / A O); [field; exact HA|]. rewrite E2. field. exact HA. Qed.

(* ------------------------------------------------ Python list helpers *)
Fixpoint dot (u v : list K) : K :=          (* sum(c * y for c, y in zip(u, v)) *)
  match u, v with a :: u', b :: v' => a * b + dot u' v' | _, _ => 0 end.
Fixpoint upd (l : list K) (i : nat) (v : K) : list K :=     (* l[i] = v *)
  match l, i with
  | [], _ => []
  | _ :: t, O => v :: t
  | h :: t, S j => h :: upd t j v
  end.
Definition slice (i n : nat) (l : list K) : list K := firstn n (skipn i l).   (* l[i:i+n] *)

Lemma upd_length l i v : length (upd l i v) = length l.
Proof. revert i. induction l as [|h t IH]; intros [|i]; cbn; auto. Qed.
Lemma nth_upd_eq l i v : (i < length l)%nat -> nth i (upd l i v) 0 = v.
Proof. revert i. induction l as [|h t IH]; intros [|i] H; cbn in *; try lia; auto. apply IH. lia. Qed.
Lemma nth_upd_neq l i j v : i <> j -> nth j (upd l i v) 0 = nth j l 0.
Proof. revert i j. induction l as [|h t IH]; intros [|i] [|j] H; cbn; try reflexivity; try lia.
  apply IH. lia. Qed.
Lemma nth_skipn (l : list K) i j : nth j (skipn i l) 0 = nth (i + j) l 0.
Proof. revert l. induction i as [|i IH]; intros [|h t]; cbn; try reflexivity.
  - destruct j; reflexivity.
  - apply IH. Qed.
Lemma nth_firstn_lt (l : list K) n j : (j < n)%nat -> nth j (firstn n l) 0 = nth j l 0.
Proof. revert l j. induction n as [|n IH]; intros [|h t] [|j] H; cbn; try reflexivity; try lia.
  apply IH. lia. Qed.
Lemma nth_slice l i n j : (j < n)%nat -> nth j (slice i n l) 0 = nth (i + j) l 0.
Proof. intros H. unfold slice. rewrite nth_firstn_lt by exact H. apply nth_skipn. Qed.
Lemma slice_length l i n : (i + n <= length l)%nat -> length (slice i n l) = n.
Proof. intros H. unfold slice. rewrite firstn_length, skipn_length. lia. Qed.
Lemma dot_sumn u v m : length u = m -> length v = m ->
  dot u v = sumn m (fun j => nth j u 0 * nth j v 0).
Proof. revert v m. induction u as [|a u IH]; intros [|b v] m Hu Hv; cbn in *; subst m; try discriminate.
  - reflexivity.
  - rewrite sumn_S_l. cbn. rewrite (IH v (length u)); [reflexivity|reflexivity|lia]. Qed.
Lemma rev_nth0 (l : list K) j : (j < length l)%nat -> nth j (rev l) 0 = nth (length l - 1 - j) l 0.
Proof. intros H. rewrite rev_nth by exact H. f_equal. lia. Qed.

Lemma nth_tl (l : list K) k : nth k (tl l) 0 = nth (S k) l 0.
Proof. destruct l; [destruct k; reflexivity | reflexivity]. Qed.

(* ------------- model (H) of DLTIFilter.response, lcapy/dltifilter.py ----
   b, a : coefficient lists (z^0, z^-1, ...);  x : input as a function of the
   integer index (models both Sequence.__getitem__, zero outside, and nexpr
   call);  ic = [y[-1], y[-2], ...];  ni = (n0, Nn - 1).                     *)
Definition rhs_at (b : list K) (x : Z -> K) (i : nat) : K :=   (* sum(b[l] * x[i-l] for l in range(Nr)) *)
  sumn (length b) (fun l => nth l b 0 * x (Z.of_nat i - Z.of_nat l)%Z).
Definition a_rev (a : list K) (Ni : nat) : list K := firstn Ni (rev a).   (* a[-1:-1-Ni:-1] *)
Definition step (a b : list K) (x : Z -> K) (Ni : nat) (yt : list K) (i : nat) : list K :=
  upd yt (i + Ni)
      ((- (1)) / nth 0 a 0 * dot (a_rev a Ni) (slice i Ni yt) + rhs_at b x i / nth 0 a 0).
Definition y_init (ic : list K) (Nn : nat) : list K := rev ic ++ repeat 0 Nn.  (* list(ic[-1::-1]) + [0]*Nn *)
Definition y_tot (b a : list K) (x : Z -> K) (ic : list K) (Nn : nat) : list K :=
  fold_left (step a b x (length ic)) (seq 0 Nn) (y_init ic Nn).
(* returned values  y_tot[ni[0] + Ni + Nz:]  with Nz zeros prepended when ni[0] < -Ni *)
Definition response (b a : list K) (x : Z -> K) (ic : list K) (n0 : Z) (Nn : nat) : list K :=
  let Ni := length ic in
  let yt := y_tot b a x ic Nn in
  if (n0 <? - Z.of_nat Ni)%Z then repeat 0 (Z.to_nat (- (Z.of_nat Ni + n0))) ++ yt
  else skipn (Z.to_nat (n0 + Z.of_nat Ni)) yt.
(* the output signal as a function of the integer time index *)
Definition yv (b a : list K) (x : Z -> K) (ic : list K) (Nn : nat) (n : Z) : K :=
  if (n <? - Z.of_nat (length ic))%Z then 0
  else nth (Z.to_nat (n + Z.of_nat (length ic))) (y_tot b a x ic Nn) 0.

Lemma a_rev_tl a Ni : length a = S Ni -> a_rev a Ni = rev (tl a).
Proof. destruct a as [|a0 a']; [discriminate|]. cbn [length tl]. intros H. injection H as H.
  unfold a_rev. cbn [rev]. rewrite firstn_app. rewrite rev_length, H, Nat.sub_diag. cbn [firstn].
  rewrite app_nil_r. rewrite <- H. rewrite <- (rev_length a'). apply firstn_all. Qed.

Section Run.
Variables (b a : list K) (x : Z -> K) (ic : list K) (Nn : nat).
Let Ni := length ic.
Let st (i : nat) := fold_left (step a b x Ni) (seq 0 i) (y_init ic Nn).

Lemma step_length yt i : length (step a b x Ni yt i) = length yt.
Proof. apply upd_length. Qed.
Lemma fold_length l yt : length (fold_left (step a b x Ni) l yt) = length yt.
Proof. revert yt. induction l as [|i l IH]; intros yt; cbn; [reflexivity|]. rewrite IH. apply step_length. Qed.
Lemma y_init_length : length (y_init ic Nn) = (Ni + Nn)%nat.
Proof. unfold y_init. rewrite app_length, rev_length, repeat_length. reflexivity. Qed.
Lemma st_length i : length (st i) = (Ni + Nn)%nat.
Proof. unfold st. rewrite fold_length. apply y_init_length. Qed.
(* frame: iterations s, s+1, ... never touch positions below s + Ni *)
Lemma fold_frame k s yt j : (j < s + Ni)%nat ->
  nth j (fold_left (step a b x Ni) (seq s k) yt) 0 = nth j yt 0.
Proof. revert s yt. induction k as [|k IH]; intros s yt Hj; cbn; [reflexivity|].
  rewrite IH by lia. unfold step. apply nth_upd_neq. lia. Qed.
Lemma st_S i : st (S i) = step a b x Ni (st i) i.
Proof. unfold st. rewrite seq_S, fold_left_app. reflexivity. Qed.
Lemma st_final i j : (i <= Nn)%nat -> (j < i + Ni)%nat -> nth j (st Nn) 0 = nth j (st i) 0.
Proof. intros Hi Hj. unfold st. replace Nn with (i + (Nn - i))%nat at 1 by lia.
  rewrite seq_app, fold_left_app. cbn [plus]. apply fold_frame. lia. Qed.

(* the initial conditions stay where they were put: y[-1-j] = ic[j] *)
Lemma tot_ic j : (j < Ni)%nat -> nth (Ni - 1 - j) (st Nn) 0 = nth j ic 0.
Proof. intros Hj. rewrite (st_final 0) by lia. unfold st. cbn. unfold y_init.
  rewrite app_nth1 by (rewrite rev_length; fold Ni; lia).
  rewrite rev_nth0 by (fold Ni; lia). fold Ni. f_equal. lia. Qed.

Hypothesis Hlen : length a = S Ni.
Hypothesis Ha0 : nth 0 a 0 <> 0.

(* the recursion satisfies the difference equation at every computed index *)
Lemma de_tot i : (i < Nn)%nat ->
  sumn (S Ni) (fun k => nth k a 0 * nth (i + Ni - k) (st Nn) 0) = rhs_at b x i.
Proof.
  intros Hi. set (Y := st Nn).
  assert (Hnew : nth (i + Ni) Y 0 =
                 (- (1)) / nth 0 a 0 * dot (a_rev a Ni) (slice i Ni (st i)) + rhs_at b x i / nth 0 a 0).
  { unfold Y. rewrite (st_final (S i)) by lia. rewrite st_S. unfold step.
    apply nth_upd_eq. rewrite st_length. lia. }
  assert (Hwin : slice i Ni (st i) = slice i Ni Y).
  { apply (nth_ext _ _ 0 0).
    - rewrite !slice_length; [reflexivity| unfold Y; rewrite st_length; lia | rewrite st_length; lia].
    - intros j Hj. rewrite slice_length in Hj by (rewrite st_length; lia).
      rewrite !nth_slice by exact Hj. unfold Y. symmetry. apply st_final; lia. }
  rewrite Hwin in Hnew.
  rewrite (a_rev_tl a Ni Hlen) in Hnew.
  assert (Hl' : length (tl a) = Ni) by (destruct a; [discriminate | cbn in *; lia]).
  rewrite (dot_sumn _ _ Ni) in Hnew; [| rewrite rev_length; exact Hl' | apply slice_length; unfold Y; rewrite st_length; lia].
  rewrite sumn_S_l. rewrite Nat.sub_0_r. rewrite Hnew.
  rewrite (sumn_rev Ni (fun j => nth j (rev (tl a)) 0 * nth j (slice i Ni Y) 0)).
  rewrite (sumn_ext Ni (fun i0 => nth (Ni - 1 - i0) (rev (tl a)) 0 * nth (Ni - 1 - i0) (slice i Ni Y) 0)
                       (fun k => nth (S k) a 0 * nth (i + Ni - S k) Y 0)).
  2:{ intros k Hk. rewrite rev_nth0 by (rewrite Hl'; lia). rewrite Hl'.
      rewrite nth_slice by lia. rewrite nth_tl. f_equal; f_equal; lia. }
  field. exact Ha0.
Qed.
End Run.

(* run_satisfies_de: for every coefficient lists b, a (a0 <> 0, len(ic) =
   len(a) - 1), every input x and initial conditions ic, the values computed
   by the model of DLTIFilter.response satisfy
      sum_k a[k] y[n-k] = sum_l b[l] x[n-l]      for every 0 <= n < Nn,
   with y[-1-j] = ic[j]. *)
Theorem run_satisfies_de (b a : list K) (x : Z -> K) (ic : list K) (Nn : nat) :
  length a = S (length ic) -> nth 0 a 0 <> 0 ->
  forall n : nat, (n < Nn)%nat ->
    sumn (length a) (fun k => nth k a 0 * yv b a x ic Nn (Z.of_nat n - Z.of_nat k)%Z)
    = sumn (length b) (fun l => nth l b 0 * x (Z.of_nat n - Z.of_nat l)%Z).
Proof.
  intros Hlen Ha0 n Hn. rewrite Hlen.
  transitivity (rhs_at b x n); [|reflexivity].
  rewrite <- (de_tot b a x ic Nn Hlen Ha0 n Hn).
  apply sumn_ext. intros k Hk. unfold yv.
  destruct (Z.ltb_spec (Z.of_nat n - Z.of_nat k) (- Z.of_nat (length ic))) as [H|H]; [lia|].
  f_equal. f_equal. unfold y_tot. lia.
Qed.
Theorem run_initial_conditions (b a : list K) (x : Z -> K) (ic : list K) (Nn : nat) (j : nat) :
  (j < length ic)%nat -> yv b a x ic Nn (- 1 - Z.of_nat j)%Z = nth j ic 0.
Proof.
  intros Hj. unfold yv.
  destruct (Z.ltb_spec (-1 - Z.of_nat j) (- Z.of_nat (length ic))) as [H|H]; [lia|].
  rewrite <- (tot_ic b a x ic Nn j Hj). f_equal. lia.
Qed.
(* index bookkeeping of the returned Sequence: element m of the returned list
   is the output at time n0 + m, and the list has n1 - n0 + 1 elements *)
Theorem response_index (b a : list K) (x : Z -> K) (ic : list K) (n0 : Z) (Nn m : nat) :
  nth m (response b a x ic n0 Nn) 0 = yv b a x ic Nn (n0 + Z.of_nat m)%Z.
Proof.
  unfold response, yv. set (Ni := length ic). set (yt := y_tot b a x ic Nn).
  destruct (Z.ltb_spec n0 (- Z.of_nat Ni)) as [H|H].
  - set (Nz := Z.to_nat (- (Z.of_nat Ni + n0))).
    destruct (Z.ltb_spec (n0 + Z.of_nat m) (- Z.of_nat Ni)) as [H2|H2].
    + rewrite app_nth1 by (rewrite repeat_length; lia).
      apply nth_repeat.
    + rewrite app_nth2 by (rewrite repeat_length; lia). rewrite repeat_length. f_equal. lia.
  - destruct (Z.ltb_spec (n0 + Z.of_nat m) (- Z.of_nat Ni)) as [H2|H2]; [lia|].
    rewrite nth_skipn. f_equal. lia.
Qed.
Theorem response_length (b a : list K) (x : Z -> K) (ic : list K) (n0 : Z) (Nn : nat) :
  (n0 <= Z.of_nat Nn)%Z ->
  Z.of_nat (length (response b a x ic n0 Nn)) = (Z.of_nat Nn - n0)%Z.
Proof.
  intros Hn. unfold response. set (Ni := length ic).
  assert (HL : length (y_tot b a x ic Nn) = (Ni + Nn)%nat).
  { unfold y_tot. rewrite fold_length. apply y_init_length. }
  destruct (Z.ltb_spec n0 (- Z.of_nat Ni)) as [H|H].
  - rewrite app_length, repeat_length, HL. lia.
  - rewrite skipn_length, HL. lia.
Qed.

(* ------------------- difference equation <-> formal power series ---------
   For signals y, x : Z -> K put Y = sum_{n>=0} y[n] w^n, X likewise, and let
   A = lpoly a, B = lpoly b.  The part of sum_k a[k] y[n-k] that reaches into
   negative time is the initial-condition term [icy a y n]. *)
Definition nneg (y : Z -> K) : fps := fun m => y (Z.of_nat m).
Definition de_lhs (a : list K) (y : Z -> K) (n : nat) : K :=
  sumn (length a) (fun k => nth k a 0 * y (Z.of_nat n - Z.of_nat k)%Z).
Definition icy (a : list K) (y : Z -> K) (n : nat) : K :=
  sumn (length a) (fun k => if (n <? k)%nat then nth k a 0 * y (Z.of_nat n - Z.of_nat k)%Z else 0).

Lemma de_split a y n : de_lhs a y n = conv (lpoly a) (nneg y) n + icy a y n.
Proof.
  unfold de_lhs, icy, conv, lpoly, nneg.
  set (t := fun k => if (k <=? n)%nat then nth k a 0 * y (Z.of_nat n - Z.of_nat k)%Z else 0).
  assert (E1 : sumn (S n) (fun i => nth i a 0 * y (Z.of_nat (n - i))) = sumn (length a) t).
  { rewrite (sumn_ext (S n) _ t).
    2:{ intros i Hi. unfold t. destruct (Nat.leb_spec i n); [|lia]. f_equal. f_equal. lia. }
    set (M := Nat.max (S n) (length a)).
    rewrite <- (sumn_cut M (S n) t); [| unfold M; lia | intros i Hi; unfold t; destruct (Nat.leb_spec i n); [lia|reflexivity]].
    apply sumn_cut; [unfold M; lia|]. intros i Hi. unfold t.
    rewrite (nth_overflow a) by lia. destruct (i <=? n)%nat; ring. }
  rewrite E1, <- sumn_add. apply sumn_ext. intros k Hk. unfold t.
  destruct (Nat.leb_spec k n), (Nat.ltb_spec n k); try lia; ring.
Qed.
Lemma icy_causal a y n : (forall m : Z, (m < 0)%Z -> y m = 0) -> icy a y n = 0.
Proof. intros H. unfold icy. apply sumn_zero. intros k Hk. destruct (Nat.ltb_spec n k); [|reflexivity].
  rewrite H by lia. ring. Qed.
Lemma icy_high a y n : (length a <= S n)%nat -> icy a y n = 0.
Proof. intros H. unfold icy. apply sumn_zero. intros k Hk. destruct (Nat.ltb_spec n k); [lia|reflexivity]. Qed.

(* tf_de_equiv: the difference equation  sum_k a[k] y[n-k] = sum_l b[l] x[n-l]
   (what difference_equation() prints and response() runs) holds at n iff the
   power series satisfy  A.Y + ICy = B.X + ICx  at coefficient n; the transfer
   function transfer_function() returns is B(w)/A(w), w = 1/z.  *)
Theorem tf_de_equiv a b y x n :
  de_lhs a y n = de_lhs b x n <->
  conv (lpoly a) (nneg y) n + icy a y n = conv (lpoly b) (nneg x) n + icy b x n.
Proof. rewrite !de_split. tauto. Qed.
Corollary tf_de_equiv_causal a b y x n :
  (forall m : Z, (m < 0)%Z -> y m = 0) -> (forall m : Z, (m < 0)%Z -> x m = 0) ->
  (de_lhs a y n = de_lhs b x n <-> conv (lpoly a) (nneg y) n = conv (lpoly b) (nneg x) n).
Proof. intros Hy Hx. rewrite tf_de_equiv, !icy_causal by assumption.
  split; intros E; [ transitivity (conv (lpoly a) (nneg y) n + 0); [ring|rewrite E; ring]
                   | rewrite E; reflexivity ]. Qed.

(* --- the run as a power series ------------------------------------------ *)
Definition zeros (n : nat) : list K := repeat 0 n.
Definition deltaZ : Z -> K := fun n => if (n =? 0)%Z then 1 else 0.

Lemma run_de (b a : list K) x ic Nn n : length a = S (length ic) -> nth 0 a 0 <> 0 -> (n < Nn)%nat ->
  de_lhs a (yv b a x ic Nn) n = de_lhs b x n.
Proof. intros. apply run_satisfies_de; assumption. Qed.
Lemma yv_zero_ic (b a : list K) x Ni Nn (m : Z) : (m < 0)%Z -> yv b a x (zeros Ni) Nn m = 0.
Proof. intros Hm. destruct (Z_lt_ge_dec m (- Z.of_nat Ni)) as [H|H].
  - unfold yv, zeros. rewrite repeat_length. destruct (Z.ltb_spec m (- Z.of_nat Ni)); [reflexivity|lia].
  - replace m with (-1 - Z.of_nat (Z.to_nat (-1 - m)))%Z by lia.
    rewrite run_initial_conditions by (unfold zeros; rewrite repeat_length; lia).
    unfold zeros. apply nth_repeat. Qed.

(* zero initial conditions and causal input:  A.Y = B.X  up to the horizon *)
Theorem run_fps (b a : list K) x Nn : a <> [] -> nth 0 a 0 <> 0 ->
  (forall m : Z, (m < 0)%Z -> x m = 0) ->
  forall n, (n < Nn)%nat ->
    conv (lpoly a) (nneg (yv b a x (zeros (length a - 1)) Nn)) n = conv (lpoly b) (nneg x) n.
Proof.
  intros Hne Ha0 Hx n Hn.
  apply tf_de_equiv_causal; [intros; apply yv_zero_ic; assumption | exact Hx |].
  apply run_de; [|exact Ha0|exact Hn]. unfold zeros. rewrite repeat_length.
  destruct a; [congruence | cbn; lia]. Qed.

(* impulse_response_coeffs: running the recursion on a unit impulse yields the
   power-series coefficients of B/A *)
Theorem impulse_response_coeffs (b a : list K) Nn : a <> [] -> nth 0 a 0 <> 0 ->
  forall n, (n < Nn)%nat ->
    conv (lpoly a) (nneg (yv b a deltaZ (zeros (length a - 1)) Nn)) n = lpoly b n.
Proof.
  intros Hne Ha0 n Hn. rewrite run_fps by first [assumption | intros m Hm; unfold deltaZ; destruct (Z.eqb_spec m 0); [lia|reflexivity]].
  rewrite conv_comm. rewrite (conv_ext (nneg deltaZ) fone (lpoly b) (lpoly b) n); [apply conv_one_l| |reflexivity].
  intros i Hi. unfold nneg, deltaZ, fone. destruct i; [reflexivity|].
  destruct (Z.eqb_spec (Z.of_nat (S i)) 0); [lia|reflexivity]. Qed.

(* response_is_conv: with zero initial conditions the response to a causal
   input is the convolution of the impulse response with the input *)
Theorem response_is_conv (b a : list K) x Nn : a <> [] -> nth 0 a 0 <> 0 ->
  (forall m : Z, (m < 0)%Z -> x m = 0) ->
  forall n, (n < Nn)%nat ->
    yv b a x (zeros (length a - 1)) Nn (Z.of_nat n)
    = conv (nneg (yv b a deltaZ (zeros (length a - 1)) Nn)) (nneg x) n.
Proof.
  intros Hne Ha0 Hx.
  set (Y := nneg (yv b a x (zeros (length a - 1)) Nn)).
  set (H := nneg (yv b a deltaZ (zeros (length a - 1)) Nn)).
  change (feq_upto Nn Y (conv H (nneg x))).
  apply (conv_cancel_upto (lpoly a)); [exact Ha0|].
  intros n Hn. unfold Y. rewrite run_fps by assumption.
  rewrite <- conv_assoc. apply conv_ext; [|reflexivity].
  intros i Hi. symmetry. apply impulse_response_coeffs; try assumption. lia. Qed.

(* --- zdomain_initial_response (left=True): numerator polynomial in w -------
   coefficient n of the initial-condition series, ic = [y[-1], y[-2], ...],
   xic = [x[-1], x[-2], ...]  *)
Definition ic_coeff (a b ic xic : list K) (n : nat) : K :=
  sumn (Nat.max (length a) (length b))
       (fun k => if (n <? k)%nat then nth k b 0 * nth (k - n - 1) xic 0 - nth k a 0 * nth (k - n - 1) ic 0 else 0).
Definition icpoly (a b ic xic : list K) : list K :=
  map (ic_coeff a b ic xic) (seq 0 (Nat.max (length a) (length b) - 1)).
Definition past (h : list K) : Z -> K :=          (* x[-1-j] = h[j], zero elsewhere *)
  fun n => if (n <? 0)%Z then nth (Z.to_nat (- n - 1)) h 0 else 0.

Lemma sumn_max_l n m f : (forall i, (n <= i)%nat -> f i = 0) -> sumn (Nat.max n m) f = sumn n f.
Proof. intros H. apply sumn_cut; [lia|]. intros; apply H; lia. Qed.

(* zic_response: the z-domain initial response num/den of the model is the
   power series of the zero-input recursion:  A . Y = IC  *)
Theorem zic_response (b a ic xic : list K) Nn : length a = S (length ic) -> nth 0 a 0 <> 0 ->
  forall n, (n < Nn)%nat ->
    conv (lpoly a) (nneg (yv b a (past xic) ic Nn)) n = ic_coeff a b ic xic n.
Proof.
  intros Hlen Ha0 n Hn. set (y := yv b a (past xic) ic Nn).
  pose proof (proj1 (tf_de_equiv a b y (past xic) n) (run_de b a (past xic) ic Nn n Hlen Ha0 Hn)) as E.
  assert (EX : conv (lpoly b) (nneg (past xic)) n = 0).
  { unfold conv. apply sumn_zero. intros i Hi. unfold nneg, past.
    destruct (Z.ltb_spec (Z.of_nat (n - i)) 0); [lia|ring]. }
  rewrite EX in E.
  transitivity (icy b (past xic) n - icy a y n).
  { transitivity (conv (lpoly a) (nneg y) n + icy a y n - icy a y n); [ring|]. rewrite E. ring. }
  unfold ic_coeff, icy.
  rewrite <- (sumn_max_l (length a) (length b)).
  2:{ intros i Hi. destruct (n <? i)%nat; [|reflexivity]. rewrite (nth_overflow a) by lia. ring. }
  rewrite <- (sumn_max_l (length b) (length a) (fun k => if (n <? k)%nat then nth k b 0 * _ else 0)).
  2:{ intros i Hi. destruct (n <? i)%nat; [|reflexivity]. rewrite (nth_overflow b) by lia. ring. }
  rewrite (Nat.max_comm (length b)). rewrite <- sumn_sub. apply sumn_ext. intros k Hk.
  destruct (Nat.ltb_spec n k) as [Hnk|Hnk]; [|ring].
  assert (Ex : past xic (Z.of_nat n - Z.of_nat k) = nth (k - n - 1) xic 0).
  { unfold past. destruct (Z.ltb_spec (Z.of_nat n - Z.of_nat k) 0); [|lia]. f_equal. lia. }
  rewrite Ex.
  destruct (Nat.lt_ge_cases k (length a)) as [Hka|Hka].
  - assert (Ey : y (Z.of_nat n - Z.of_nat k)%Z = nth (k - n - 1) ic 0).
    { unfold y. replace (Z.of_nat n - Z.of_nat k)%Z with (-1 - Z.of_nat (k - n - 1))%Z by lia.
      apply run_initial_conditions. lia. }
    rewrite Ey. reflexivity.
  - rewrite (nth_overflow a) by lia. ring.
Qed.
Lemma icpoly_nth a b ic xic n : (n < Nat.max (length a) (length b) - 1)%nat ->
  nth n (icpoly a b ic xic) 0 = ic_coeff a b ic xic n.
Proof. intros H. unfold icpoly.
  rewrite nth_indep with (d' := ic_coeff a b ic xic O) by (rewrite map_length, seq_length; exact H).
  rewrite map_nth. rewrite seq_nth by exact H. reflexivity. Qed.
Lemma ic_coeff_high a b ic xic n : (Nat.max (length a) (length b) - 1 <= n)%nat -> ic_coeff a b ic xic n = 0.
Proof. intros H. unfold ic_coeff. apply sumn_zero. intros k Hk. destruct (Nat.ltb_spec n k); [lia|reflexivity]. Qed.
(* left=False form: the same numerator from the first samples of y and x *)
Theorem zic_from_first_samples (b a ic xic : list K) Nn : length a = S (length ic) -> nth 0 a 0 <> 0 ->
  forall x : Z -> K, (forall m : Z, (m < 0)%Z -> x m = past xic m) ->
  forall n, (n < Nn)%nat ->
    conv (lpoly a) (nneg (yv b a x ic Nn)) n - conv (lpoly b) (nneg x) n = ic_coeff a b ic xic n.
Proof.
  intros Hlen Ha0 x Hx n Hn. set (y := yv b a x ic Nn).
  pose proof (proj1 (tf_de_equiv a b y x n) (run_de b a x ic Nn n Hlen Ha0 Hn)) as E.
  transitivity (icy b x n - icy a y n).
  { transitivity (conv (lpoly a) (nneg y) n + icy a y n - icy a y n - conv (lpoly b) (nneg x) n); [ring|]. rewrite E. ring. }
  unfold ic_coeff, icy.
  rewrite <- (sumn_max_l (length a) (length b)).
  2:{ intros i Hi. destruct (n <? i)%nat; [|reflexivity]. rewrite (nth_overflow a) by lia. ring. }
  rewrite <- (sumn_max_l (length b) (length a) (fun k => if (n <? k)%nat then nth k b 0 * _ else 0)).
  2:{ intros i Hi. destruct (n <? i)%nat; [|reflexivity]. rewrite (nth_overflow b) by lia. ring. }
  rewrite (Nat.max_comm (length b)). rewrite <- sumn_sub. apply sumn_ext. intros k Hk.
  destruct (Nat.ltb_spec n k) as [Hnk|Hnk]; [|ring].
  rewrite Hx by lia.
  assert (Ex : past xic (Z.of_nat n - Z.of_nat k) = nth (k - n - 1) xic 0).
  { unfold past. destruct (Z.ltb_spec (Z.of_nat n - Z.of_nat k) 0); [|lia]. f_equal. lia. }
  rewrite Ex.
  destruct (Nat.lt_ge_cases k (length a)) as [Hka|Hka].
  - assert (Ey : y (Z.of_nat n - Z.of_nat k)%Z = nth (k - n - 1) ic 0).
    { unfold y. replace (Z.of_nat n - Z.of_nat k)%Z with (-1 - Z.of_nat (k - n - 1))%Z by lia.
      apply run_initial_conditions. lia. }
    rewrite Ey. reflexivity.
  - rewrite (nth_overflow a) by lia. ring.
Qed.

(* ------------------------- polynomial evaluation, transfer function ------ *)
Fixpoint pw (z : K) (n : nat) : K := match n with O => 1 | S m => z * pw z m end.
Definition evalw (l : list K) (w : K) : K := fold_right (fun c acc => c + w * acc) 0 l.   (* sum l[i] w^i *)
Definition evald (l : list K) (z : K) : K := evalw (rev l) z.                            (* sum l[i] z^(len-1-i) *)
(* model (H) of DLTIFilter.transfer_function: numer/denom as sums of b[i] z^-i *)
Definition tf_model (b a : list K) (z : K) : K := evalw b (1 / z) / evalw a (1 / z).

Lemma pw_add z n m : pw z (n + m) = pw z n * pw z m.
Proof. induction n as [|n IH]; cbn; [ring|]. rewrite IH. ring. Qed.
Lemma pw_inv z n : z <> 0 -> pw z n * pw (1 / z) n = 1.
Proof. intros Hz. induction n as [|n IH]; cbn; [ring|].
  transitivity ((z * (1 / z)) * (pw z n * pw (1 / z) n)); [ring|]. rewrite IH. field. exact Hz. Qed.
Lemma pw_nz z n : z <> 0 -> pw z n <> 0.
Proof. intros Hz. induction n as [|n IH]; cbn; [apply one_nz | apply mul_nz; assumption]. Qed.
Lemma evalw_app p q w : evalw (p ++ q) w = evalw p w + pw w (length p) * evalw q w.
Proof. unfold evalw. induction p as [|c p IH]; cbn [app length pw fold_right]; [ring|]. rewrite IH. ring. Qed.
Lemma evalw_zeros k w : evalw (zeros k) w = 0.
Proof. unfold evalw, zeros. induction k as [|k IH]; cbn [repeat fold_right]; [reflexivity|]. rewrite IH. ring. Qed.
Lemma zeros_snoc k : zeros k ++ [0] = 0 :: zeros k.
Proof. unfold zeros. induction k as [|k IH]; cbn; [reflexivity|]. rewrite IH. reflexivity. Qed.
Lemma rev_zeros k : rev (zeros k) = zeros k.
Proof. induction k as [|k IH]; [reflexivity|]. change (zeros (S k)) with (0 :: zeros k). cbn [rev]. rewrite IH. apply zeros_snoc. Qed.
Lemma evalw_map_div l c w : c <> 0 -> evalw (map (fun v => v / c) l) w = evalw l w / c.
Proof. intros Hc. unfold evalw. induction l as [|v l IH]; cbn [map fold_right]; [field; exact Hc|].
  rewrite IH. field. exact Hc. Qed.
Lemma evalw_sumn l w : evalw l w = sumn (length l) (fun i => nth i l 0 * pw w i).
Proof. unfold evalw. induction l as [|c l IH]; cbn [length fold_right]; [reflexivity|]. rewrite sumn_S_l. cbn [nth pw].
  rewrite IH. rewrite <- sumn_scal. f_equal; [ring|]. apply sumn_ext. intros; ring. Qed.
(* z^len . l(1/z) = z . rev(l)(z) *)
Lemma evalw_reciprocal l z : z <> 0 -> evalw l (1 / z) * pw z (length l) = z * evalw (rev l) z.
Proof. intros Hz. induction l as [|c l IH]; cbn [length rev]; [unfold evalw; cbn [fold_right pw]; ring|].
  rewrite evalw_app, rev_length. change (evalw (c :: l) (1 / z)) with (c + 1 / z * evalw l (1 / z)).
  change (evalw [c] z) with (c + z * 0). cbn [pw].
  transitivity (c * (z * pw z (length l)) + (z * (1 / z)) * (evalw l (1 / z) * pw z (length l))); [ring|].
  rewrite IH. field. exact Hz. Qed.

(* transfer function and difference equation describe the same relation:
   multiplying out, H(z) A(1/z) = B(1/z)  *)
Theorem tf_model_spec b a z : evalw a (1 / z) <> 0 -> tf_model b a z * evalw a (1 / z) = evalw b (1 / z).
Proof. intros H. unfold tf_model. field. exact H. Qed.

(* --- model (H) of DLTIFilter.difference_equation: which a[m] y[n-m] terms stay
   on the left (up to and including the first non-zero a[m]) ---------------- *)
Fixpoint de_terms (a : list K) (m : nat) (use_lhs : bool) : list (nat * K) * list (nat * K) :=
  match a with
  | [] => ([], [])
  | an :: t =>
      let use' := if fdec K an 0 then use_lhs else false in
      let LR := de_terms t (S m) use' in
      if use_lhs then ((m, an) :: fst LR, snd LR) else (fst LR, (m, - an) :: snd LR)
  end.
Definition terms_val (l : list (nat * K)) (y : Z -> K) (n : nat) : K :=
  fold_right (fun mc acc => snd mc * y (Z.of_nat n - Z.of_nat (fst mc))%Z + acc) 0 l.
Lemma de_terms_val a m u y n :
  terms_val (fst (de_terms a m u)) y n - terms_val (snd (de_terms a m u)) y n
  = sumn (length a) (fun k => nth k a 0 * y (Z.of_nat n - Z.of_nat (m + k))%Z).
Proof. revert m u. induction a as [|an t IH]; intros m u; cbn [de_terms length]; [cbn; ring|].
  rewrite sumn_S_l. cbn [nth]. rewrite Nat.add_0_r.
  rewrite (sumn_ext _ _ (fun k => nth k t 0 * y (Z.of_nat n - Z.of_nat (S m + k))%Z))
    by (intros k Hk; do 3 f_equal; lia).
  rewrite <- (IH (S m) (if fdec K an 0 then u else false)).
  destruct u; cbn [fst snd terms_val fold_right]; fold (terms_val); unfold terms_val; ring. Qed.
(* the printed equation lhs = (x terms) + rhs_y  is the difference equation *)
Theorem de_equation_equiv a y n rx :
  terms_val (fst (de_terms a 0 true)) y n = rx + terms_val (snd (de_terms a 0 true)) y n
  <-> de_lhs a y n = rx.
Proof. unfold de_lhs. rewrite <- (sumn_ext _ (fun k => nth k a 0 * y (Z.of_nat n - Z.of_nat (0 + k))%Z)) by reflexivity.
  rewrite <- de_terms_val with (u := true). split; intros E.
  - rewrite E. ring.
  - transitivity (terms_val (fst (de_terms a 0 true)) y n - terms_val (snd (de_terms a 0 true)) y n
                  + terms_val (snd (de_terms a 0 true)) y n); [ring|]. rewrite E. ring. Qed.

(* --- model (H) of DLTIFilter.from_transfer_function ------------------------
   nn, dn: coefficients of N(z), D(z), highest power first (Expr.coeffs()) *)
Definition is0 (v : K) : bool := if fdec K v 0 then true else false.
Lemma is0_eq v : is0 v = true -> v = 0.
Proof. unfold is0. destruct (fdec K v 0); [auto|discriminate]. Qed.
Fixpoint strip_rev (rb ra : list K) : list K * list K :=     (* while an[-1] == 0 and bn[-1] == 0 *)
  match rb, ra with
  | b0 :: rb', a0 :: ra' => if is0 a0 && is0 b0 then strip_rev rb' ra' else (rb, ra)
  | _, _ => (rb, ra)
  end.
Fixpoint first_nz (l : list K) (last : K) : K :=             (* for norm in an: if norm != 0: break *)
  match l with [] => last | v :: t => if is0 v then first_nz t v else v end.
Definition from_tf (nn dn : list K) (normalize : bool) : list K * list K :=
  let bn0 := if (length dn <? length nn)%nat then nn else zeros (length dn - length nn) ++ nn in
  let an0 := if (length dn <? length nn)%nat then zeros (length nn - length dn) ++ dn else dn in
  let s := strip_rev (rev bn0) (rev an0) in
  let bn := rev (fst s) in let an := rev (snd s) in
  if normalize then let norm := first_nz an 0 in (map (fun v => v / norm) bn, map (fun v => v / norm) an)
  else (bn, an).

Lemma strip_rev_spec rb ra w : length rb = length ra ->
  let s := strip_rev rb ra in
  length (fst s) = length (snd s) /\ exists k,
  evalw (rev rb) w = evalw (rev (fst s)) w /\ evalw (rev ra) w = evalw (rev (snd s)) w
  /\ length rb = (k + length (fst s))%nat.
Proof. revert ra. induction rb as [|b0 rb IH]; intros [|a0 ra] Hl; cbn in Hl; try discriminate.
  - cbn. split; [reflexivity|]. exists O. auto.
  - cbn [strip_rev]. cbv zeta.
    destruct (is0 a0) eqn:Ea, (is0 b0) eqn:Eb; cbn [andb];
      try (cbn [fst snd length]; split; [lia|]; exists O; auto).
    apply is0_eq in Ea, Eb.
    destruct (IH ra ltac:(lia)) as [H1 [k [H2 [H3 H4]]]]. split; [exact H1|]. exists (S k).
    cbn [rev length]. rewrite !evalw_app. subst a0 b0. unfold evalw at 2 5. cbn [fold_right].
    rewrite <- H2, <- H3. repeat split; try ring. lia. Qed.
Lemma first_nz_nz l last : (exists v, In v l /\ v <> 0) -> first_nz l last <> 0.
Proof. revert last. induction l as [|v t IH]; intros last [u [Hin Hu]]; [destruct Hin|].
  cbn. unfold is0. destruct (fdec K v 0) as [E|E]; [|exact E].
  apply IH. destruct Hin as [->|Hin]; [contradiction|]. exists u. auto. Qed.

(* from_transfer_function returns coefficient lists of the same rational
   function:  B'(1/z) D(z) = A'(1/z) N(z)  for every z <> 0 *)
Theorem from_tf_sound nn dn nrm z : z <> 0 ->
  (nrm = true -> first_nz (snd (from_tf nn dn false)) 0 <> 0) ->
  evalw (fst (from_tf nn dn nrm)) (1 / z) * evald dn z = evalw (snd (from_tf nn dn nrm)) (1 / z) * evald nn z.
Proof.
  intros Hz Hnorm. unfold from_tf in *.
  set (bn0 := if (length dn <? length nn)%nat then nn else zeros (length dn - length nn) ++ nn) in *.
  set (an0 := if (length dn <? length nn)%nat then zeros (length nn - length dn) ++ dn else dn) in *.
  assert (Hl0 : length bn0 = length an0).
  { unfold bn0, an0, zeros. destruct (Nat.ltb_spec (length dn) (length nn)); rewrite app_length, repeat_length; lia. }
  assert (Hb0 : evald bn0 z = evald nn z).
  { unfold bn0, evald. destruct (length dn <? length nn)%nat; [reflexivity|].
    rewrite rev_app_distr, evalw_app. rewrite rev_zeros, evalw_zeros. ring. }
  assert (Ha0 : evald an0 z = evald dn z).
  { unfold an0, evald. destruct (length dn <? length nn)%nat; [|reflexivity].
    rewrite rev_app_distr, evalw_app. rewrite rev_zeros, evalw_zeros. ring. }
  destruct (strip_rev_spec (rev bn0) (rev an0) (1 / z) ltac:(rewrite !rev_length; exact Hl0)) as [Hl1 [k [Hb1 [Ha1 _]]]].
  cbv zeta in Hl1, Hb1, Ha1. rewrite !rev_involutive in Hb1, Ha1.
  set (s := strip_rev (rev bn0) (rev an0)) in *.
  pose proof (evalw_reciprocal bn0 z Hz) as Rb. pose proof (evalw_reciprocal an0 z Hz) as Ra.
  fold (evald bn0 z) in Rb. fold (evald an0 z) in Ra. rewrite Hb0 in Rb. rewrite Ha0 in Ra. rewrite Hl0 in Rb.
  assert (Hp : pw z (length an0) <> 0) by (apply pw_nz; exact Hz).
  assert (Core : evalw (rev (fst s)) (1 / z) * evald dn z = evalw (rev (snd s)) (1 / z) * evald nn z).
  { rewrite <- Hb1, <- Ha1.
    assert (Eb : evalw bn0 (1 / z) = z * evald nn z / pw z (length an0)) by (rewrite <- Rb; field; exact Hp).
    assert (Ea : evalw an0 (1 / z) = z * evald dn z / pw z (length an0)) by (rewrite <- Ra; field; exact Hp).
    rewrite Eb, Ea. field. exact Hp. }
  destruct nrm; cbn [fst snd]; [|exact Core].
  specialize (Hnorm eq_refl). cbn [snd] in Hnorm.
  rewrite !evalw_map_div by exact Hnorm.
  transitivity (evalw (rev (fst s)) (1 / z) * evald dn z / first_nz (rev (snd s)) 0); [field; exact Hnorm|].
  rewrite Core. field. exact Hnorm.
Qed.

(* --- Sequence.lfilter / Sequence.convolve (lcapy/sequence.py): reference
   semantics.  lfilter(b, a) is the zero-state response on the positions of the
   sequence ("If you would like the response with initial conditions see
   response()"); convolve is the polynomial product with origins added. ------ *)
Definition lfun (l : list K) : Z -> K := fun n => if (n <? 0)%Z then 0 else nth (Z.to_nat n) l 0.
Definition lfilter_ref (b a xs : list K) : list K :=
  response b a (lfun xs) (zeros (length a - 1)) 0 (length xs).
Definition convolve_ref (xs hs : list K) : list K :=
  map (conv (lpoly xs) (lpoly hs)) (seq 0 (length xs + length hs - 1)).

Theorem lfilter_ref_de (b a xs : list K) n : a <> [] -> nth 0 a 0 <> 0 -> (n < length xs)%nat ->
  let y := lfun (lfilter_ref b a xs) in
  de_lhs a y n = de_lhs b (lfun xs) n.
Proof.
  intros Hne Ha0 Hn y.
  assert (Hlen : length a = S (length (zeros (length a - 1)))).
  { unfold zeros. rewrite repeat_length. destruct a; [congruence|cbn; lia]. }
  rewrite <- (run_de b a (lfun xs) (zeros (length a - 1)) (length xs) n Hlen Ha0 Hn).
  unfold de_lhs. apply sumn_ext. intros k Hk. f_equal. unfold y, lfun, lfilter_ref.
  destruct (Z.ltb_spec (Z.of_nat n - Z.of_nat k) 0) as [H|H].
  - symmetry. apply yv_zero_ic. exact H.
  - rewrite response_index. f_equal. lia. Qed.
Theorem lfilter_ref_conv (b a xs : list K) n : a <> [] -> nth 0 a 0 <> 0 -> (n < length xs)%nat ->
  conv (lpoly a) (lpoly (lfilter_ref b a xs)) n = conv (lpoly b) (lpoly xs) n.
Proof.
  intros Hne Ha0 Hn.
  assert (Hx : forall m : Z, (m < 0)%Z -> lfun xs m = 0).
  { intros m Hm. unfold lfun. destruct (Z.ltb_spec m 0); [reflexivity|lia]. }
  rewrite <- (conv_ext (lpoly b) (lpoly b) (nneg (lfun xs)) (lpoly xs) n); [| reflexivity |].
  2:{ intros i Hi. unfold nneg, lfun, lpoly. destruct (Z.ltb_spec (Z.of_nat i) 0); [lia|]. rewrite Nat2Z.id. reflexivity. }
  rewrite <- (run_fps b a (lfun xs) (length xs) Hne Ha0 Hx n Hn).
  apply conv_ext; [reflexivity|]. intros i Hi. unfold lpoly, nneg, lfilter_ref.
  rewrite response_index. reflexivity. Qed.
(* FIR filtering by h of the zero-padded x is the convolution (the route
   Sequence.convolve takes) *)
Theorem convolve_ref_fir (xs hs : list K) j : (j < length xs + length hs - 1)%nat ->
  nth j (lfilter_ref hs [1] (xs ++ zeros (length hs - 1))) 0 = nth j (convolve_ref xs hs) 0.
Proof.
  intros Hj.
  assert (ER : nth j (convolve_ref xs hs) 0 = conv (lpoly xs) (lpoly hs) j).
  { unfold convolve_ref.
    rewrite nth_indep with (d' := conv (lpoly xs) (lpoly hs) O) by (rewrite map_length, seq_length; exact Hj).
    rewrite map_nth, seq_nth by exact Hj. reflexivity. }
  rewrite ER.
  assert (Hn : (j < length (xs ++ zeros (length hs - 1)))%nat).
  { rewrite app_length. unfold zeros. rewrite repeat_length. lia. }
  pose proof (lfilter_ref_conv hs [1] (xs ++ zeros (length hs - 1)) j ltac:(discriminate) ltac:(cbn; apply one_nz) Hn) as E.
  rewrite (conv_ext (lpoly [1]) fone _ _ j (fun i _ => match i with O => eq_refl | S O => eq_refl | S (S _) => eq_refl end) (fun i _ => eq_refl)) in E.
  rewrite conv_one_l in E. unfold lpoly at 1 in E. rewrite E. rewrite conv_comm.
  apply conv_ext; [|reflexivity]. intros i Hi. unfold lpoly.
  destruct (Nat.lt_ge_cases i (length xs)) as [H|H].
  - apply app_nth1. exact H.
  - rewrite app_nth2 by exact H. rewrite (nth_overflow xs) by exact H. unfold zeros. apply nth_repeat. Qed.
End SeqFilter.
Arguments sumn {K}. Arguments conv {K}. Arguments lpoly {K}. Arguments dot {K}. Arguments upd {K}.
Arguments slice {K}. Arguments response {K}. Arguments yv {K}. Arguments y_tot {K}. Arguments lfun {K}.
Arguments zeros {K}. Arguments deltaZ {K}. Arguments nneg {K}. Arguments de_lhs {K}. Arguments icy {K}.
Arguments ic_coeff {K}. Arguments icpoly {K}. Arguments past {K}. Arguments pw {K}. Arguments evalw {K}.
Arguments evald {K}. Arguments tf_model {K}. Arguments de_terms {K}. Arguments terms_val {K}.
Arguments from_tf {K}. Arguments lfilter_ref {K}. Arguments convolve_ref {K}. Arguments fone {K}.
Arguments feq_upto {K}. Arguments rhs_at {K}. Arguments step {K}. Arguments a_rev {K}. Arguments y_init {K}.
Arguments is0 {K}. Arguments strip_rev {K}. Arguments first_nz {K}.
